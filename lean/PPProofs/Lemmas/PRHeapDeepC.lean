import PPModel.Mod.PRHeapDeepC
import PPProofs.Lemmas.PRHeapDeep
/-!
  `deepcopyC` (`ParseResults.deepcopy()` with container tokens): the development of `Lemmas/PRHeapDeep.lean` again,
  with the elements of container tokens as additional children.
-/
namespace PP.PRHeap

variable {α : Type}

/-- `n` is a `ParseResults` the token list refers to, directly or from inside a container token -/
def Kid (ts : List (HVal (CV α))) (n : Nat) : Prop :=
  HVal.ref n ∈ ts ∨ ∃ k items, HVal.atom (CV.cont k items) ∈ ts ∧ HVal.ref n ∈ items

theorem Kid.tail {t : HVal (CV α)} {ts : List (HVal (CV α))} {n : Nat} (h : Kid ts n) : Kid (t :: ts) n :=
  h.elim (fun a => Or.inl (List.mem_cons_of_mem _ a))
    (fun ⟨k, items, a, b⟩ => Or.inr ⟨k, items, List.mem_cons_of_mem _ a, b⟩)

theorem goItems_ext (rec : Heap (CV α) → Nat → Heap (CV α) × Nat) (hrec : ∀ h n, Ext h (rec h n).1)
    (ts : List (HVal α)) : ∀ h, Ext h (goItems rec h ts).1 := by
  induction ts with
  | nil => intro h; exact Ext.refl h
  | cons t ts ih =>
    intro h
    cases t with
    | atom a => exact ih h
    | ref n => exact (hrec h n).trans (ih _)

theorem goToksC_ext (rec : Heap (CV α) → Nat → Heap (CV α) × Nat) (hrec : ∀ h n, Ext h (rec h n).1)
    (ts : List (HVal (CV α))) : ∀ h, Ext h (goToksC rec h ts).1 := by
  induction ts with
  | nil => intro h; exact Ext.refl h
  | cons t ts ih =>
    intro h
    cases t with
    | atom a =>
      cases a with
      | sc a => exact ih h
      | cont k items => exact (goItems_ext rec hrec items h).trans (ih _)
    | ref n => exact (hrec h n).trans (ih _)

theorem deepcopyC_ext (f : Nat) : ∀ (h : Heap (CV α)) (o : Nat), Ext h (deepcopyC f h o).1 := by
  induction f with
  | zero => intro h o; exact copy_ext h o
  | succ f ih =>
    intro h o
    have e : Ext h (goToksC (deepcopyC f) (copy h o).1 (h.lists (h.objs o).lst)).1 :=
      (copy_ext h o).trans (goToksC_ext _ ih _ _)
    exact ⟨e.next, fun i hi => (upd_ne _ _ (by omega)).trans (e.lists i hi), e.dicts, e.objs, e.occs⟩

/-- token tree (container elements included) of depth ≤ `d` inside a region -/
def TInC (Q S : Nat → Prop) (h : Heap (CV α)) : Nat → Nat → Prop
  | 0, o => Q o ∧ S (h.objs o).lst ∧ S (h.objs o).dct ∧ ∀ n, ¬ Kid (h.lists (h.objs o).lst) n
  | d + 1, o => Q o ∧ S (h.objs o).lst ∧ S (h.objs o).dct ∧
      ∀ n, Kid (h.lists (h.objs o).lst) n → TInC Q S h d n

abbrev TWFC (h : Heap (CV α)) (d o : Nat) : Prop := TInC (· < h.next) (· < h.next) h d o

theorem TInC.agree {Q S Q' S' : Nat → Prop} {h h' : Heap (CV α)} (ho : ∀ i, Q i → h'.objs i = h.objs i)
    (hl : ∀ i, S i → h'.lists i = h.lists i) (hq : ∀ i, Q i → Q' i) (hs : ∀ i, S i → S' i) :
    ∀ d o, TInC Q S h d o → TInC Q' S' h' d o := by
  intro d
  induction d with
  | zero =>
    intro o hw
    obtain ⟨a, b, c, e⟩ := hw
    refine ⟨hq _ a, ?_, ?_, ?_⟩
    · rw [ho o a]; exact hs _ b
    · rw [ho o a]; exact hs _ c
    · rw [ho o a, hl _ b]; exact e
  | succ d ih =>
    intro o hw
    obtain ⟨a, b, c, e⟩ := hw
    refine ⟨hq _ a, ?_, ?_, ?_⟩
    · rw [ho o a]; exact hs _ b
    · rw [ho o a]; exact hs _ c
    · rw [ho o a, hl _ b]; intro n hn; exact ih n (e n hn)

theorem TWFC.ext {h h' : Heap (CV α)} (e : Ext h h') {d o : Nat} (hw : TWFC h d o) : TWFC h' d o :=
  TInC.agree (fun i hi => e.objs i hi) (fun i hi => e.lists i hi)
    (fun _ hi => Nat.lt_of_lt_of_le hi e.next) (fun _ hi => Nat.lt_of_lt_of_le hi e.next) d o hw

/-- reachability through token lists, container tokens included -/
inductive TReachC (h : Heap (CV α)) : Nat → Nat → Prop where
  | refl (o : Nat) : TReachC h o o
  | step {o n x : Nat} : Kid (h.lists (h.objs o).lst) n → TReachC h n x → TReachC h o x

theorem TInC.reach {Q S : Nat → Prop} {h : Heap (CV α)} {o x : Nat} (hr : TReachC h o x) :
    ∀ d, TInC Q S h d o → Q x ∧ S (h.objs x).lst ∧ S (h.objs x).dct := by
  induction hr with
  | refl o => intro d hw; cases d <;> exact ⟨hw.1, hw.2.1, hw.2.2.1⟩
  | step hm _ ih =>
    intro d hw
    cases d with
    | zero => exact absurd hm (hw.2.2.2 _)
    | succ d => exact ih d (hw.2.2.2 _ hm)

theorem asListC_agree {Q S : Nat → Prop} {h h' : Heap (CV α)} (ho : ∀ i, Q i → h'.objs i = h.objs i)
    (hl : ∀ i, S i → h'.lists i = h.lists i) :
    ∀ k d o, TInC Q S h d o → asListC k h' o = asListC k h o := by
  intro k
  induction k with
  | zero => intro d o _; rfl
  | succ k ih =>
    intro d o hw
    have hq : Q o := by cases d <;> exact hw.1
    have hs : S (h.objs o).lst := by cases d <;> exact hw.2.1
    have hk : ∀ n, Kid (h.lists (h.objs o).lst) n → asListC k h' n = asListC k h n := by
      intro n hn
      cases d with
      | zero => exact absurd hn (hw.2.2.2 n)
      | succ d => exact ih d n (hw.2.2.2 n hn)
    simp only [asListC]
    rw [ho o hq, hl _ hs]
    congr 2
    rw [List.flatMap_def, List.flatMap_def]
    congr 1
    apply List.map_congr_left
    intro v hv
    cases v with
    | atom a =>
      cases a with
      | sc a => rfl
      | cont kd items =>
        simp only
        congr 2
        rw [List.flatMap_def, List.flatMap_def]
        congr 1
        apply List.map_congr_left
        intro w hw'
        cases w with
        | atom a => rfl
        | ref n => exact hk n (Or.inr ⟨kd, items, hv, hw'⟩)
    | ref n => exact hk n (Or.inl hv)

/-- pointwise relation of two token lists with container tokens -/
def RelLC (R : Nat → Nat → Prop) : List (HVal (CV α)) → List (HVal (CV α)) → Prop
  | [], [] => True
  | .atom (.sc a) :: ts, .atom (.sc a') :: ts' => a = a' ∧ RelLC R ts ts'
  | .atom (.cont k items) :: ts, .atom (.cont k' items') :: ts' => k = k' ∧ RelL R items items' ∧ RelLC R ts ts'
  | .ref n :: ts, .ref n' :: ts' => R n n' ∧ RelLC R ts ts'
  | _, _ => False

theorem RelLC.mono_mem {R R' : Nat → Nat → Prop} : ∀ (ts ts' : List (HVal (CV α))),
    (∀ n n', Kid ts n → R n n' → R' n n') → RelLC R ts ts' → RelLC R' ts ts' := by
  intro ts
  induction ts with
  | nil => intro ts' _ hr; cases ts' <;> simp_all [RelLC]
  | cons t ts ih =>
    intro ts' hm hr
    have hm' : ∀ n n', Kid ts n → R n n' → R' n n' := fun n n' hn => hm n n' hn.tail
    cases ts' with
    | nil => rcases t with (a | a) | n <;> simp [RelLC] at hr
    | cons t' ts' =>
      rcases t with (a | ⟨k, items⟩) | n <;> rcases t' with (a' | ⟨k', items'⟩) | n' <;> simp only [RelLC] at hr ⊢
      · exact ⟨hr.1, ih ts' hm' hr.2⟩
      · refine ⟨hr.1, ?_, ih ts' hm' hr.2.2⟩
        exact RelL.mono_mem _ _ (fun n n' hn => hm n n' (Or.inr ⟨k, items, List.mem_cons_self .., hn⟩)) hr.2.1
      · exact ⟨hm _ _ (Or.inl (List.mem_cons_self ..)) hr.1, ih ts' hm' hr.2⟩

theorem RelLC.mono {R R' : Nat → Nat → Prop} (ts ts' : List (HVal (CV α))) (hm : ∀ n n', R n n' → R' n n')
    (hr : RelLC R ts ts') : RelLC R' ts ts' := RelLC.mono_mem ts ts' (fun n n' _ => hm n n') hr

theorem RelL.refl_atoms' (R : Nat → Nat → Prop) : ∀ (ts : List (HVal α)), (∀ n, HVal.ref n ∉ ts) → RelL R ts ts :=
  RelL.refl_atoms R

theorem RelLC.refl_atoms (R : Nat → Nat → Prop) : ∀ (ts : List (HVal (CV α))), (∀ n, ¬ Kid ts n) → RelLC R ts ts := by
  intro ts
  induction ts with
  | nil => intro _; trivial
  | cons t ts ih =>
    intro hn
    have hn' : ∀ n, ¬ Kid ts n := fun n hk => hn n hk.tail
    rcases t with (a | ⟨k, items⟩) | n
    · exact ⟨rfl, ih hn'⟩
    · exact ⟨rfl, RelL.refl_atoms R items (fun n hm => hn n (Or.inr ⟨k, items, List.mem_cons_self .., hm⟩)), ih hn'⟩
    · exact absurd (Or.inl (List.mem_cons_self ..)) (hn n)

theorem RelLC.kid_right {R : Nat → Nat → Prop} : ∀ (ts ts' : List (HVal (CV α))) (n' : Nat), RelLC R ts ts' →
    Kid ts' n' → ∃ n, Kid ts n ∧ R n n' := by
  intro ts
  induction ts with
  | nil =>
    intro ts' n' hr hm
    cases ts' with
    | nil => rcases hm with a | ⟨_, _, a, _⟩ <;> cases a
    | cons t' ts' => simp [RelLC] at hr
  | cons t ts ih =>
    intro ts' n' hr hm
    cases ts' with
    | nil => rcases hm with a | ⟨_, _, a, _⟩ <;> cases a
    | cons t' ts' =>
      have tl : Kid ts' n' → RelLC R ts ts' → ∃ n, Kid (t :: ts) n ∧ R n n' := fun hk hr' => by
        obtain ⟨n, a, b⟩ := ih ts' n' hr' hk; exact ⟨n, a.tail, b⟩
      rcases t with (a | ⟨k, items⟩) | n <;> rcases t' with (a' | ⟨k', items'⟩) | n2 <;> simp only [RelLC] at hr
      · rcases hm with e | ⟨k2, it2, e, e2⟩
        · rcases List.mem_cons.mp e with e' | e'
          · cases e'
          · exact tl (Or.inl e') hr.2
        · rcases List.mem_cons.mp e with e' | e'
          · cases e'
          · exact tl (Or.inr ⟨k2, it2, e', e2⟩) hr.2
      · rcases hm with e | ⟨k2, it2, e, e2⟩
        · rcases List.mem_cons.mp e with e' | e'
          · cases e'
          · exact tl (Or.inl e') hr.2.2
        · rcases List.mem_cons.mp e with e' | e'
          · cases e'
            obtain ⟨n, a, b⟩ := RelL.mem_right _ _ n' hr.2.1 e2
            exact ⟨n, Or.inr ⟨k, items, List.mem_cons_self .., a⟩, b⟩
          · exact tl (Or.inr ⟨k2, it2, e', e2⟩) hr.2.2
      · rcases hm with e | ⟨k2, it2, e, e2⟩
        · rcases List.mem_cons.mp e with e' | e'
          · cases e'; exact ⟨n, Or.inl (List.mem_cons_self ..), hr.1⟩
          · exact tl (Or.inl e') hr.2
        · rcases List.mem_cons.mp e with e' | e'
          · cases e'
          · exact tl (Or.inr ⟨k2, it2, e', e2⟩) hr.2

theorem RelL.flatMapG' {R : Nat → Nat → Prop} {γ : Type} (F G : Nat → List γ) (c : α → List γ) :
    ∀ (ts ts' : List (HVal α)), RelL R ts ts' → (∀ n n', R n n' → G n' = F n) →
    ts'.flatMap (fun v => match v with | .atom a => c a | .ref n => G n) =
    ts.flatMap (fun v => match v with | .atom a => c a | .ref n => F n) := by
  intro ts
  induction ts with
  | nil => intro ts' hr _; cases ts' <;> simp_all [RelL]
  | cons t ts ih =>
    intro ts' hr hf
    cases ts' with
    | nil => cases t <;> simp [RelL] at hr
    | cons t' ts' =>
      cases t <;> cases t' <;> simp only [RelL] at hr
      · simp only [List.flatMap_cons]; rw [ih ts' hr.2 hf, hr.1]
      · simp only [List.flatMap_cons]; rw [ih ts' hr.2 hf, hf _ _ hr.1]

theorem RelLC.flatMap {R : Nat → Nat → Prop} {γ : Type} (F G : Nat → List γ) (c : α → List γ)
    (open_ : Nat → γ) (close : γ) :
    ∀ (ts ts' : List (HVal (CV α))), RelLC R ts ts' → (∀ n n', R n n' → G n' = F n) →
    ts'.flatMap (fun v => match v with
      | .atom (.sc a) => c a
      | .atom (.cont kd items) => open_ kd :: (items.flatMap (fun w => match w with
          | .atom a => c a
          | .ref n => G n)) ++ [close]
      | .ref n => G n) =
    ts.flatMap (fun v => match v with
      | .atom (.sc a) => c a
      | .atom (.cont kd items) => open_ kd :: (items.flatMap (fun w => match w with
          | .atom a => c a
          | .ref n => F n)) ++ [close]
      | .ref n => F n) := by
  intro ts
  induction ts with
  | nil => intro ts' hr _; cases ts' <;> simp_all [RelLC]
  | cons t ts ih =>
    intro ts' hr hf
    cases ts' with
    | nil => rcases t with (a | a) | n <;> simp [RelLC] at hr
    | cons t' ts' =>
      rcases t with (a | ⟨k, items⟩) | n <;> rcases t' with (a' | ⟨k', items'⟩) | n' <;> simp only [RelLC] at hr
      · simp only [List.flatMap_cons]; rw [ih ts' hr.2 hf, hr.1]
      · simp only [List.flatMap_cons]
        rw [ih ts' hr.2.2 hf, hr.1, RelL.flatMapG' F G c items items' hr.2.1 hf]
      · simp only [List.flatMap_cons]; rw [ih ts' hr.2 hf, hf _ _ hr.1]

def CorrC (b : Nat) (h h' : Heap (CV α)) : Nat → Nat → Nat → Prop
  | 0, o, c => CorrNode b h h' o c ∧
      RelLC (fun _ _ => False) (h.lists (h.objs o).lst) (h'.lists (h'.objs c).lst)
  | d + 1, o, c => CorrNode b h h' o c ∧
      RelLC (CorrC b h h' d) (h.lists (h.objs o).lst) (h'.lists (h'.objs c).lst)

theorem CorrC.transport {b b' : Nat} {h h1 h2 : Heap (CV α)} (hb : b' ≤ b) (hn : h1.next ≤ h2.next)
    (hl : ∀ i, b ≤ i → i < h1.next → h2.lists i = h1.lists i)
    (hd : ∀ i, b ≤ i → i < h1.next → h2.dicts i = h1.dicts i)
    (ho : ∀ i, b ≤ i → i < h1.next → h2.objs i = h1.objs i) :
    ∀ d o c, CorrC b h h1 d o c → CorrC b' h h2 d o c := by
  have node : ∀ o c, CorrNode b h h1 o c → CorrNode b' h h2 o c ∧ h2.objs c = h1.objs c ∧
      h2.lists (h1.objs c).lst = h1.lists (h1.objs c).lst := by
    intro o c ⟨⟨a1, a2⟩, ⟨b1, b2⟩, ⟨c1, c2⟩, e1, e2⟩
    have e := ho c a1 a2
    refine ⟨⟨⟨by omega, by omega⟩, ?_, ?_, ?_, ?_⟩, e, hl _ b1 b2⟩
    · rw [e]; exact ⟨by omega, by omega⟩
    · rw [e]; exact ⟨by omega, by omega⟩
    · rw [e, hd _ c1 c2]; exact e1
    · rw [e]; exact e2
  intro d
  induction d with
  | zero =>
    intro o c hc
    obtain ⟨n1, n2, n3⟩ := node o c hc.1
    refine ⟨n1, ?_⟩
    rw [n2, n3]; exact hc.2
  | succ d ih =>
    intro o c hc
    obtain ⟨n1, n2, n3⟩ := node o c hc.1
    refine ⟨n1, ?_⟩
    rw [n2, n3]; exact RelLC.mono _ _ (fun n n' => ih n n') hc.2

theorem CorrC.orig {b : Nat} {h hi h' : Heap (CV α)} (e : Ext h hi) :
    ∀ d o c, TWFC h d o → CorrC b hi h' d o c → CorrC b h h' d o c := by
  have node : ∀ o c, o < h.next → (h.objs o).lst < h.next → (h.objs o).dct < h.next →
      CorrNode b hi h' o c → CorrNode b h h' o c ∧ hi.lists (hi.objs o).lst = h.lists (h.objs o).lst := by
    intro o c w1 w2 w3 ⟨a, b', c', e1, e2⟩
    have eo := e.objs o w1
    refine ⟨⟨a, b', c', ?_, ?_⟩, ?_⟩
    · rw [e1, eo, e.dicts _ w3]
    · rw [e2, eo]
    · rw [eo, e.lists _ w2]
  intro d
  induction d with
  | zero =>
    intro o c hw hc
    obtain ⟨n1, n2⟩ := node o c hw.1 hw.2.1 hw.2.2.1 hc.1
    refine ⟨n1, ?_⟩
    rw [← n2]; exact hc.2
  | succ d ih =>
    intro o c hw hc
    obtain ⟨n1, n2⟩ := node o c hw.1 hw.2.1 hw.2.2.1 hc.1
    refine ⟨n1, ?_⟩
    have := hc.2
    rw [n2] at this
    exact RelLC.mono_mem _ _ (fun n n' hn hr => ih n n' (hw.2.2.2 n hn) hr) this

section
variable (f : Nat) (h : Heap (CV α))
  (ih : ∀ (h : Heap (CV α)) (o : Nat), TWFC h f o → CorrC h.next h (deepcopyC f h o).1 f o (deepcopyC f h o).2)
include ih

theorem goItems_corr :
    ∀ (ts : List (HVal α)) (hi : Heap (CV α)), Ext h hi → (∀ n, HVal.ref n ∈ ts → TWFC h f n) →
      RelL (CorrC hi.next h (goItems (deepcopyC f) hi ts).1 f) ts (goItems (deepcopyC f) hi ts).2 := by
  intro ts
  induction ts with
  | nil => intro hi _ _; trivial
  | cons t ts iht =>
    intro hi e hw
    cases t with
    | atom a => exact ⟨rfl, iht hi e (fun n hn => hw n (List.mem_cons_of_mem _ hn))⟩
    | ref n =>
      have e1 : Ext hi (deepcopyC f hi n).1 := deepcopyC_ext f hi n
      have e2 : Ext (deepcopyC f hi n).1 (goItems (deepcopyC f) (deepcopyC f hi n).1 ts).1 :=
        goItems_ext _ (deepcopyC_ext f) _ _
      have wn : TWFC h f n := hw n (List.mem_cons_self ..)
      have c1 := CorrC.orig e f n _ wn (ih hi n (TWFC.ext e wn))
      have c2 := CorrC.transport (b := hi.next) (b' := hi.next) (Nat.le_refl _) e2.next
        (fun i _ hi2 => e2.lists i hi2) (fun i _ hi2 => e2.dicts i hi2) (fun i _ hi2 => e2.objs i hi2) f n _ c1
      refine ⟨c2, ?_⟩
      have t1 := iht (deepcopyC f hi n).1 (e.trans e1) (fun m hm => hw m (List.mem_cons_of_mem _ hm))
      exact RelL.mono _ _ (fun m m' hc =>
        CorrC.transport (b := (deepcopyC f hi n).1.next) (b' := hi.next) e1.next (Nat.le_refl _)
          (fun _ _ _ => rfl) (fun _ _ _ => rfl) (fun _ _ _ => rfl) f m m' hc) t1

theorem goToksC_corr :
    ∀ (ts : List (HVal (CV α))) (hi : Heap (CV α)), Ext h hi → (∀ n, Kid ts n → TWFC h f n) →
      RelLC (CorrC hi.next h (goToksC (deepcopyC f) hi ts).1 f) ts (goToksC (deepcopyC f) hi ts).2 := by
  intro ts
  induction ts with
  | nil => intro hi _ _; trivial
  | cons t ts iht =>
    intro hi e hw
    have hw' : ∀ n, Kid ts n → TWFC h f n := fun n hn => hw n hn.tail
    rcases t with (a | ⟨k, items⟩) | n
    · exact ⟨rfl, iht hi e hw'⟩
    · have e1 : Ext hi (goItems (deepcopyC f) hi items).1 := goItems_ext _ (deepcopyC_ext f) _ _
      have e2 : Ext (goItems (deepcopyC f) hi items).1
          (goToksC (deepcopyC f) (goItems (deepcopyC f) hi items).1 ts).1 := goToksC_ext _ (deepcopyC_ext f) _ _
      have i1 := goItems_corr f h ih items hi e
        (fun n hn => hw n (Or.inr ⟨k, items, List.mem_cons_self .., hn⟩))
      have t1 := iht (goItems (deepcopyC f) hi items).1 (e.trans e1) hw'
      refine ⟨rfl, ?_, ?_⟩
      · exact RelL.mono _ _ (fun m m' hc =>
          CorrC.transport (b := hi.next) (b' := hi.next) (Nat.le_refl _) e2.next
            (fun i _ hi2 => e2.lists i hi2) (fun i _ hi2 => e2.dicts i hi2) (fun i _ hi2 => e2.objs i hi2) f m m' hc) i1
      · exact RelLC.mono _ _ (fun m m' hc =>
          CorrC.transport (b := (goItems (deepcopyC f) hi items).1.next) (b' := hi.next) e1.next (Nat.le_refl _)
            (fun _ _ _ => rfl) (fun _ _ _ => rfl) (fun _ _ _ => rfl) f m m' hc) t1
    · have e1 : Ext hi (deepcopyC f hi n).1 := deepcopyC_ext f hi n
      have e2 : Ext (deepcopyC f hi n).1 (goToksC (deepcopyC f) (deepcopyC f hi n).1 ts).1 :=
        goToksC_ext _ (deepcopyC_ext f) _ _
      have wn : TWFC h f n := hw n (Or.inl (List.mem_cons_self ..))
      have c1 := CorrC.orig e f n _ wn (ih hi n (TWFC.ext e wn))
      have c2 := CorrC.transport (b := hi.next) (b' := hi.next) (Nat.le_refl _) e2.next
        (fun i _ hi2 => e2.lists i hi2) (fun i _ hi2 => e2.dicts i hi2) (fun i _ hi2 => e2.objs i hi2) f n _ c1
      refine ⟨c2, ?_⟩
      have t1 := iht (deepcopyC f hi n).1 (e.trans e1) hw'
      exact RelLC.mono _ _ (fun m m' hc =>
        CorrC.transport (b := (deepcopyC f hi n).1.next) (b' := hi.next) e1.next (Nat.le_refl _)
          (fun _ _ _ => rfl) (fun _ _ _ => rfl) (fun _ _ _ => rfl) f m m' hc) t1
end

theorem deepcopyC_corr (f : Nat) : ∀ (h : Heap (CV α)) (o : Nat), TWFC h f o →
    CorrC h.next h (deepcopyC f h o).1 f o (deepcopyC f h o).2 := by
  induction f with
  | zero =>
    intro h o hw
    have hc : (copy h o).1.objs (copy h o).2 = ⟨h.next, h.next + 1, (h.objs o).all⟩ := upd_same _ _ _
    have hl' : (copy h o).1.lists h.next = h.lists (h.objs o).lst := upd_same _ _ _
    have hd' : (copy h o).1.dicts (h.next + 1) = h.dicts (h.objs o).dct := upd_same _ _ _
    refine ⟨⟨?_, ?_, ?_, ?_, ?_⟩, ?_⟩
    · show h.next ≤ h.next + 2 ∧ h.next + 2 < h.next + 3; omega
    · show _ ∧ _ < h.next + 3; rw [show deepcopyC 0 h o = copy h o from rfl, hc]; simp only; omega
    · show _ ∧ _ < h.next + 3; rw [show deepcopyC 0 h o = copy h o from rfl, hc]; simp only; omega
    · rw [show deepcopyC 0 h o = copy h o from rfl, hc]; exact hd'
    · rw [show deepcopyC 0 h o = copy h o from rfl, hc]
    · rw [show deepcopyC 0 h o = copy h o from rfl, hc]; simp only; rw [hl']
      exact RelLC.refl_atoms _ _ hw.2.2.2
  | succ f ih =>
    intro h o hw
    have hg := goToksC_corr f h ih (h.lists (h.objs o).lst) (copy h o).1 (copy_ext h o) hw.2.2.2
    have eg : Ext (copy h o).1 (goToksC (deepcopyC f) (copy h o).1 (h.lists (h.objs o).lst)).1 :=
      goToksC_ext _ (deepcopyC_ext f) _ _
    generalize hG : goToksC (deepcopyC f) (copy h o).1 (h.lists (h.objs o).lst) = g at hg eg
    have hF : deepcopyC (f + 1) h o = ({ g.1 with lists := upd g.1.lists h.next g.2 }, h.next + 2) := by
      simp only [deepcopyC, hG]; rfl
    rw [hF]
    have hc : g.1.objs (h.next + 2) = ⟨h.next, h.next + 1, (h.objs o).all⟩ :=
      (eg.objs _ (by rw [copy_next]; omega)).trans (upd_same _ _ _)
    have hd' : g.1.dicts (h.next + 1) = h.dicts (h.objs o).dct :=
      (eg.dicts _ (by rw [copy_next]; omega)).trans (upd_same _ _ _)
    have hn : h.next + 3 ≤ g.1.next := eg.next
    refine ⟨⟨?_, ?_, ?_, ?_, ?_⟩, ?_⟩
    · show h.next ≤ h.next + 2 ∧ h.next + 2 < g.1.next; omega
    · show h.next ≤ (g.1.objs (h.next + 2)).lst ∧ (g.1.objs (h.next + 2)).lst < g.1.next
      rw [hc]; simp only; omega
    · show h.next ≤ (g.1.objs (h.next + 2)).dct ∧ (g.1.objs (h.next + 2)).dct < g.1.next
      rw [hc]; simp only; omega
    · show g.1.dicts (g.1.objs (h.next + 2)).dct = _
      rw [hc]; exact hd'
    · show (g.1.objs (h.next + 2)).all = _
      rw [hc]
    · show RelLC _ _ (upd g.1.lists h.next g.2 (g.1.objs (h.next + 2)).lst)
      rw [hc]; simp only; rw [upd_same]
      refine RelLC.mono _ _ (fun n n' hcn => ?_) hg
      exact CorrC.transport (b := (copy h o).1.next) (b' := h.next) (h1 := g.1)
        (h2 := { g.1 with lists := upd g.1.lists h.next g.2 }) (by rw [copy_next]; omega) (Nat.le_refl _)
        (fun i hi _ => upd_ne _ _ (by rw [copy_next] at hi; omega)) (fun _ _ _ => rfl) (fun _ _ _ => rfl) f n n' hcn

theorem CorrC.fresh {b : Nat} {h h' : Heap (CV α)} : ∀ d o c, CorrC b h h' d o c →
    TInC (fun i => b ≤ i ∧ i < h'.next) (fun i => b ≤ i ∧ i < h'.next) h' d c := by
  intro d
  induction d with
  | zero =>
    intro o c hc
    obtain ⟨a1, a2, a3, _, _⟩ := hc.1
    exact ⟨a1, a2, a3, fun n hn => (RelLC.kid_right _ _ n hc.2 hn).elim (fun _ hx => hx.2)⟩
  | succ d ih =>
    intro o c hc
    obtain ⟨a1, a2, a3, _, _⟩ := hc.1
    refine ⟨a1, a2, a3, fun n hn => ?_⟩
    obtain ⟨m, _, hm⟩ := RelLC.kid_right _ _ n hc.2 hn
    exact ih m n hm

theorem CorrC.asList {b : Nat} {h h' : Heap (CV α)} : ∀ k d o c, CorrC b h h' d o c →
    asListC k h' c = asListC k h o := by
  intro k
  induction k with
  | zero => intro d o c _; rfl
  | succ k ih =>
    intro d o c hc
    simp only [asListC]
    congr 2
    cases d with
    | zero => exact RelLC.flatMap _ _ _ _ _ _ _ hc.2 (fun _ _ hf => hf.elim)
    | succ d => exact RelLC.flatMap _ _ _ _ _ _ _ hc.2 (fun n n' hr => ih d n n' hr)

end PP.PRHeap
