import PPModel.Mod.TrimArity
/-!
Helper lemmas for C13 (model: `PPModel/Mod/TrimArity.lean`).
-/
namespace PP.TrimArity

variable {σ β : Type}

/-- A *Python-level* callable: every exception that leaves a run of its body carries the body's own
    frame as the first traceback entry below the wrapper, and that frame is not the wrapper's call
    line (true of every `def`/`lambda`/method/`__call__`/`__init__` other than `wrapper` itself, also
    when reached through `functools.partial` or `type.__call__`). -/
def PyLevel (cfg : Cfg) (f : Callable σ β) : Prop :=
  ∀ s k e fr, (f.body s k).1 = .raise e fr → ∃ fr0 rest, fr = fr0 :: rest ∧ fr0 ≠ cfg.synth

theorem isArityError_nil (cfg : Cfg) : isArityError cfg [] = (cfg.callSite == cfg.synth) := by
  simp [isArityError]

theorem isArityError_cons (cfg : Cfg) (fr0 : Frame) (rest : List Frame) :
    isArityError cfg (fr0 :: rest) = (fr0 == cfg.synth) := by
  simp [isArityError]

/-- the `k` probes `limit, limit+1, …` that fail to bind -/
def probes (n limit cnt : Nat) : List Ev :=
  (List.range' limit cnt).map (fun i => Ev.probe (n - i))

theorem probes_zero (n limit : Nat) : probes n limit 0 = [] := rfl

theorem probes_succ (n limit cnt : Nat) :
    probes n limit (cnt + 1) = Ev.probe (n - limit) :: probes n (limit + 1) cnt := by
  simp [probes, List.range'_succ]

theorem probes_length (n limit cnt : Nat) : (probes n limit cnt).length = cnt := by
  simp [probes]

/-- how `wrapper` turns the outcome of the (single) body run at `limit = j` into its own outcome -/
def finish (n j : Nat) (r : BodyRes β × σ) (evs : List Ev) : WRes σ β :=
  match r.1 with
  | .ret v => ⟨.ret v, ⟨true, j⟩, r.2, evs ++ [.run (n - j)], []⟩
  | .raise .indexError _ => ⟨.wrappedIndex, ⟨false, j⟩, r.2, evs ++ [.run (n - j)], []⟩
  | .raise e fr => ⟨.raise e, ⟨false, j⟩, r.2, evs ++ [.run (n - j)], fr⟩

/-- one unfolding of the loop when the arguments bind -/
theorem probeLoop_accept (cfg : Cfg) (f : Callable σ β) (hpy : PyLevel cfg f)
    (n limit : Nat) (s : σ) (evs : List Ev) (hacc : f.accepts (n - limit) = true) :
    probeLoop cfg f n limit s evs = finish n limit (f.body s (n - limit)) evs := by
  unfold probeLoop
  simp only [callFn, hacc, if_true]
  cases hb : (f.body s (n - limit)).1 with
  | ret v => simp [finish, hb]
  | raise e fr =>
    obtain ⟨fr0, rest, hfr, hne⟩ := hpy s (n - limit) e fr hb
    subst hfr
    cases e <;> simp [finish, hb, isArityError_cons, hne]

/-- one unfolding of the loop when the arguments do not bind and there is room to trim -/
theorem probeLoop_reject_lt (cfg : Cfg) (f : Callable σ β) (hsyn : cfg.synth = cfg.callSite)
    (n limit : Nat) (s : σ) (evs : List Ev) (hacc : f.accepts (n - limit) = false)
    (hlt : limit < cfg.maxLimit) :
    probeLoop cfg f n limit s evs = probeLoop cfg f n (limit + 1) s (evs ++ [.probe (n - limit)]) := by
  rw [probeLoop]
  simp [callFn, hacc, isArityError_nil, hsyn, hlt]

theorem probeLoop_reject_last (cfg : Cfg) (f : Callable σ β)
    (n limit : Nat) (s : σ) (evs : List Ev) (hacc : f.accepts (n - limit) = false)
    (hge : cfg.maxLimit ≤ limit) :
    probeLoop cfg f n limit s evs =
      ⟨.raise .typeError, ⟨false, limit⟩, s, evs ++ [.probe (n - limit)], []⟩ := by
  rw [probeLoop]
  have : ¬ limit < cfg.maxLimit := by omega
  simp [callFn, hacc, this]

/-- **the probing loop, accepted case**: starting at `limit`, if `j` is the first index `≥ limit`
    (and `≤ max_limit`) at which `n - j` arguments bind, the loop makes the failing probes
    `limit … j-1` (no body run), then runs the body exactly once with `n - j` arguments. -/
theorem probeLoop_spec_accept (cfg : Cfg) (f : Callable σ β) (hsyn : cfg.synth = cfg.callSite)
    (hpy : PyLevel cfg f) (n : Nat) :
    ∀ (d limit j : Nat) (s : σ) (evs : List Ev), j = limit + d → j ≤ cfg.maxLimit →
      (∀ i, limit ≤ i → i < j → f.accepts (n - i) = false) → f.accepts (n - j) = true →
      probeLoop cfg f n limit s evs = finish n j (f.body s (n - j)) (evs ++ probes n limit d) := by
  intro d
  induction d with
  | zero =>
    intro limit j s evs hj _ _ hacc
    have : j = limit := by omega
    subst this
    simpa [probes_zero] using probeLoop_accept cfg f hpy n j s evs hacc
  | succ d ih =>
    intro limit j s evs hj hmax hrej hacc
    have h0 : f.accepts (n - limit) = false := hrej limit (Nat.le_refl _) (by omega)
    rw [probeLoop_reject_lt cfg f hsyn n limit s evs h0 (by omega)]
    rw [ih (limit + 1) j s _ (by omega) hmax (fun i h1 h2 => hrej i (by omega) h2) hacc]
    simp [probes_succ]

/-- **the probing loop, nothing binds**: all probes `limit … max_limit` fail, no body run, the
    `TypeError` of the last probe is re-raised, `limit` stays at `max_limit`. -/
theorem probeLoop_spec_reject (cfg : Cfg) (f : Callable σ β) (hsyn : cfg.synth = cfg.callSite)
    (n : Nat) :
    ∀ (d limit : Nat) (s : σ) (evs : List Ev), cfg.maxLimit = limit + d →
      (∀ i, limit ≤ i → i ≤ cfg.maxLimit → f.accepts (n - i) = false) →
      probeLoop cfg f n limit s evs =
        ⟨.raise .typeError, ⟨false, cfg.maxLimit⟩, s, evs ++ probes n limit (d + 1), []⟩ := by
  intro d
  induction d with
  | zero =>
    intro limit s evs hm hrej
    have hl : cfg.maxLimit = limit := by omega
    rw [probeLoop_reject_last cfg f n limit s evs (hrej limit (Nat.le_refl _) (by omega)) (by omega)]
    simp [probes_succ, probes_zero, hl]
  | succ d ih =>
    intro limit s evs hm hrej
    rw [probeLoop_reject_lt cfg f hsyn n limit s evs (hrej limit (Nat.le_refl _) (by omega)) (by omega)]
    rw [ih (limit + 1) s _ (by omega) (fun i h1 h2 => hrej i (by omega) h2)]
    simp [probes_succ (cnt := d + 1)]

/-- events that are body runs -/
def runsOf (evs : List Ev) : List Nat :=
  evs.filterMap (fun e => match e with | .run k => some k | .probe _ => none)

theorem runsOf_append (a b : List Ev) : runsOf (a ++ b) = runsOf a ++ runsOf b := by
  simp [runsOf, List.filterMap_append]

theorem runsOf_probes (n limit cnt : Nat) : runsOf (probes n limit cnt) = [] := by
  induction cnt generalizing limit with
  | zero => rfl
  | succ c ih => simp [probes_succ, runsOf] at *; exact ih (limit + 1)

theorem finish_runs (n j : Nat) (r : BodyRes β × σ) (evs : List Ev) :
    runsOf (finish n j r evs).evs = runsOf evs ++ [n - j] := by
  unfold finish
  split <;> simp [runsOf]

/-- classical: either some `j` in `[limit, maxLimit]` is the first accepted one, or none is -/
theorem first_accept_or_none (acc : Nat → Bool) (lo hi : Nat) :
    (∃ j, lo ≤ j ∧ j ≤ hi ∧ acc j = true ∧ ∀ i, lo ≤ i → i < j → acc i = false) ∨
    (∀ i, lo ≤ i → i ≤ hi → acc i = false) := by
  induction hi with
  | zero =>
    cases h : acc 0 with
    | true =>
      by_cases hl : lo = 0
      · exact Or.inl ⟨0, by omega, by omega, h, fun i _ h2 => by omega⟩
      · exact Or.inr (fun i h1 h2 => by omega)
    | false =>
      refine Or.inr (fun i _ h2 => ?_)
      have : i = 0 := by omega
      subst this; exact h
  | succ hi ih =>
    rcases ih with ⟨j, h1, h2, h3, h4⟩ | hnone
    · exact Or.inl ⟨j, h1, by omega, h3, h4⟩
    · cases h : acc (hi + 1) with
      | true =>
        by_cases hl : lo ≤ hi + 1
        · exact Or.inl ⟨hi + 1, hl, Nat.le_refl _, h, fun i h1 h2 => hnone i h1 (by omega)⟩
        · exact Or.inr (fun i h1 h2 => by omega)
      | false =>
        refine Or.inr (fun i h1 h2 => ?_)
        by_cases hi' : i = hi + 1
        · subst hi'; exact h
        · exact hnone i h1 (by omega)

end PP.TrimArity
