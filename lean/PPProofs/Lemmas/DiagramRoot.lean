import PPProofs.Lemmas.DiagramLinks
/-! Helper lemmas for C20 (root_first): a custom-named, extraction-worthy root is registered exactly once,
    with the index 1; every other element gets an index ≥ 2; the keys of `diagrams` are distinct. -/
namespace PP.Diagram

structure RInv (root : Nat) (s : St) : Prop where
  lk : ∀ u st, aget s.lookup u = some st →
    (u = root → st.number = 1 ∧ st.name.isSome) ∧ (u ≠ root → 2 ≤ st.number)
  dg : ∀ u d, aget s.diagrams u = some d → (u = root → d.index = 1) ∧ (u ≠ root → 2 ≤ d.index)
  known : (∃ st, aget s.lookup root = some st) ∨ (∃ d, aget s.diagrams root = some d)
  idx : 1 ≤ s.index
  dk : (s.diagrams.map (·.1)).Nodup

theorem RInv_tables {root : Nat} {s s' : St} (h : RInv root s) (h1 : s'.lookup = s.lookup)
    (h2 : s'.diagrams = s.diagrams) (h3 : s'.index = s.index) : RInv root s' :=
  ⟨by rw [h1]; exact h.lk, by rw [h2]; exact h.dg, by rw [h1, h2]; exact h.known, by rw [h3]; exact h.idx,
   by rw [h2]; exact h.dk⟩

theorem RInv_setL' {root : Nat} (s : St) (idx el : Nat) (st' : EState)
    (hlk : ∀ u st, aget s.lookup u = some st →
      (u = root → st.number = 1 ∧ st.name.isSome) ∧ (u ≠ root → 2 ≤ st.number))
    (hdg : ∀ u d, aget s.diagrams u = some d → (u = root → d.index = 1) ∧ (u ≠ root → 2 ≤ d.index))
    (hk : el = root ∨ (∃ st, aget s.lookup root = some st) ∨ (∃ d, aget s.diagrams root = some d))
    (hdk : (s.diagrams.map (·.1)).Nodup)
    (hi : 1 ≤ idx)
    (hst : (el = root → st'.number = 1 ∧ st'.name.isSome) ∧ (el ≠ root → 2 ≤ st'.number)) :
    RInv root (setL s idx el st') := by
  refine ⟨?_, hdg, ?_, hi, hdk⟩
  · intro u st hu
    by_cases hu' : u = el
    · subst hu'
      simp only [setL, aget_aset_same, Option.some.injEq] at hu
      subst hu; exact hst
    · simp only [setL, aget_aset_ne _ _ _ _ hu'] at hu
      exact hlk u st hu
  · by_cases he : el = root
    · subst he; exact Or.inl ⟨st', aget_aset_same _ _ _⟩
    · rcases hk with hk | hk | hk
      · exact absurd hk he
      · left
        simp only [setL, aget_aset_ne _ _ _ _ (Ne.symm he)]
        exact hk
      · exact Or.inr hk

theorem RInv_setL {root : Nat} (s : St) (idx el : Nat) (st' : EState) (h : RInv root s) (hi : 1 ≤ idx)
    (hst : (el = root → st'.number = 1 ∧ st'.name.isSome) ∧ (el ≠ root → 2 ≤ st'.number)) :
    RInv root (setL s idx el st') :=
  RInv_setL' s idx el st' h.lk h.dg (Or.inr h.known) h.dk hi hst

theorem aset_keys {α} (l : List (Nat × α)) (k : Nat) (v : α) :
    (aset l k v).map (·.1) = if k ∈ l.map (·.1) then l.map (·.1) else l.map (·.1) ++ [k] := by
  induction l with
  | nil => simp [aset]
  | cons p rest ih =>
    obtain ⟨k', v'⟩ := p
    unfold aset
    by_cases h : k' = k
    · subst h; simp
    · simp only [h, if_false, List.map_cons, ih, List.mem_cons]
      have : ¬ k = k' := fun e => h e.symm
      simp only [this, false_or]
      split <;> simp

theorem aset_keys_nodup {α} (l : List (Nat × α)) (k : Nat) (v : α) (h : (l.map (·.1)).Nodup) :
    ((aset l k v).map (·.1)).Nodup := by
  rw [aset_keys]
  split
  · exact h
  · rename_i hk
    rw [List.nodup_append]
    refine ⟨h, by simp, ?_⟩
    intro a ha b hb
    simp only [List.mem_singleton] at hb
    subst hb
    intro e; subst e; exact hk ha

theorem exNT_index (s : St) (pos : EState) : (exNT s pos).index = s.index := by
  unfold exNT
  split
  · unfold St.putChild; split <;> rfl
  · rfl

theorem RInv_exFin {root : Nat} (s1 : St) (el : Nat) (pos : EState) (c : Slot) (h : RInv root s1)
    (hpos : aget s1.lookup el = some pos) : RInv root (exFin s1 el pos c) := by
  refine ⟨?_, ?_, ?_, h.idx, aset_keys_nodup _ _ _ h.dk⟩
  · intro u st hu
    by_cases hu' : u = el
    · subst hu'; simp [exFin, aget_adel_same] at hu
    · simp only [exFin, aget_adel_ne _ _ _ hu'] at hu
      exact h.lk u st hu
  · intro u d hu
    by_cases hu' : u = el
    · subst hu'
      simp only [exFin, aget_aset_same, Option.some.injEq] at hu
      subst hu
      exact ⟨fun e => ((h.lk u pos hpos).1 e).1, (h.lk u pos hpos).2⟩
    · simp only [exFin, aget_aset_ne _ _ _ _ hu'] at hu
      exact h.dg u d hu
  · by_cases he : el = root
    · subst he; exact Or.inr ⟨_, aget_aset_same _ _ _⟩
    · have he' : root ≠ el := Ne.symm he
      simp only [exFin, aget_aset_ne _ _ _ _ he', aget_adel_ne _ _ _ he']
      exact h.known

theorem RInv_extract {root : Nat} (s : St) (el : Nat) (h : RInv root s) :
    RInv root (extractIntoDiagram s el) := by
  cases hl : aget s.lookup el with
  | none => rw [extract_none s el hl]; exact h
  | some pos =>
    obtain ⟨c, e⟩ := extract_eq s el pos hl
    rw [e]
    exact RInv_exFin _ el pos c (RInv_tables h (exNT_lookup s pos) (exNT_diagrams s pos) (exNT_index s pos))
      (by rw [exNT_lookup]; exact hl)

theorem markName_isSome (g : Grammar) (st : EState) (el : Nat) (name : Option String) :
    (markName g st el name).isSome := by
  unfold markName
  split
  · rename_i h; exact truthy_isSome h
  · split
    · rename_i h; exact truthy_isSome h
    · split
      · rename_i h; exact truthy_isSome h
      · rfl

theorem RInv_mark {root : Nat} (g : Grammar) (s : St) (el : Nat) (name : Option String) (f : Bool)
    (h : RInv root s) : RInv root (markForExtraction g s el name f) := by
  cases hl : aget s.lookup el with
  | none =>
    have e : markForExtraction g s el name f = s := by
      unfold markForExtraction; simp only [hl]
    rw [e]; exact h
  | some st =>
    rw [mark_eq g s el name f st hl]
    have h1 : RInv root (setL s s.index el { st with extract := true, name := markName g st el name }) :=
      RInv_setL s s.index el _ h h.idx
        ⟨fun e => ⟨((h.lk el st hl).1 e).1, markName_isSome g st el name⟩, (h.lk el st hl).2⟩
    split
    · exact RInv_extract _ el h1
    · exact h1

theorem RInv_register {root : Nat} (g : Grammar) (s : St) (el : Nat) (n : Node) (parent : Option Nat)
    (index : Nat) (pn : PNode) (h : RInv root s) (hne : el ≠ root) :
    RInv root (register g s el n parent index pn).2 := by
  have h1 : RInv root (setL (s.alloc pn).2 (s.index + 1) el
      { converted := s.heap.length, parent := parent, parentIndex := index, number := s.index + 1 }) :=
    RInv_setL _ _ el _ (RInv_tables h rfl rfl rfl) (by omega)
      ⟨fun e => absurd e hne, fun _ => by have := h.idx; show 2 ≤ s.index + 1; omega⟩
  unfold register
  simp only
  split
  · exact RInv_mark g _ el _ false h1
  · exact h1

theorem seenOf_root_not_fresh {root : Nat} (g : Grammar) (s : St) (h : RInv root s)
    (hw : worth g root = true) : seenOf g s root ≠ .fresh := by
  unfold seenOf
  simp only [hw, if_true]
  cases hl : aget s.lookup root with
  | some st =>
    simp only [((h.lk root st hl).1 rfl).2, if_true]
    simp
  | none =>
    simp only
    rcases h.known with ⟨st, hst⟩ | ⟨d, hd⟩
    · rw [hl] at hst; exact absurd hst (by simp)
    · simp [hd]

theorem RInv_pre_ret {root : Nat} (g : Grammar) (o : Opts) (el : Nat) (n : Node) (p : Option Nat) (i : Nat)
    (h : Option String) (s : St) (r : Option Nat) (s' : St) (hI : RInv root s)
    (hp : pre g o el n p i h s = .ret r s') : RInv root s' := by
  unfold pre at hp
  split at hp
  · exact absurd hp (by simp)
  · split at hp
    · simp only [newNT, Pre.ret.injEq] at hp
      obtain ⟨_, rfl⟩ := hp
      exact RInv_tables (RInv_mark g s el h false hI) rfl rfl rfl
    · simp only [newNT, Pre.ret.injEq] at hp
      obtain ⟨_, rfl⟩ := hp
      exact RInv_tables hI rfl rfl rfl
    · unfold preFresh at hp
      split at hp
      · simp only [Pre.ret.injEq] at hp
        obtain ⟨_, rfl⟩ := hp
        exact hI
      · split at hp
        · simp only [Pre.ret.injEq] at hp
          obtain ⟨_, rfl⟩ := hp
          exact hI
        · exact absurd hp (by simp)

theorem RInv_pre_loop {root : Nat} (g : Grammar) (o : Opts) (el : Nat) (n : Node) (p : Option Nat) (i : Nat)
    (h : Option String) (s : St) (r : Nat) (s' : St) (hw : worth g root = true) (hI : RInv root s)
    (hp : pre g o el n p i h s = .loop r s') : RInv root s' := by
  unfold pre at hp
  split at hp
  · exact absurd hp (by simp)
  · split at hp
    · exact absurd hp (by simp)
    · exact absurd hp (by simp)
    · rename_i hseen
      have hne : el ≠ root := by
        rintro rfl
        exact seenOf_root_not_fresh g s hI hw hseen
      unfold preFresh at hp
      split at hp
      · exact absurd hp (by simp)
      · split at hp
        · exact absurd hp (by simp)
        · rename_i pn hd
          simp only [Pre.loop.injEq] at hp
          obtain ⟨_, rfl⟩ := hp
          exact RInv_register g s el n p i pn hI hne

theorem RInv_setComplete {root : Nat} (s : St) (el : Nat) (h : RInv root s) : RInv root (setComplete s el) := by
  unfold setComplete
  cases hl : aget s.lookup el with
  | none => exact h
  | some st =>
    exact RInv_setL s s.index el { st with complete := true } h h.idx (h.lk el st hl)

theorem RInv_post {root : Nat} (el : Nat) (n : Node) (hint : Option String) (ret : Nat) (s : St)
    (h : RInv root s) : RInv root (post el n hint ret s).2 := by
  have h1 : RInv root (post1 n hint ret s).2 := by
    unfold post1
    split
    · exact RInv_tables h rfl rfl rfl
    · exact h
  have h2 := RInv_setComplete _ el h1
  unfold post
  simp only
  split
  · split
    · exact RInv_tables (RInv_extract _ el h2) rfl rfl rfl
    · exact h2
  · exact h2

theorem RInv_annotate {root : Nat} (o : Opts) (n : Node) (r : Option Nat) (s : St) (h : RInv root s) :
    RInv root (annotate o n r s).2 := by
  unfold annotate
  split
  · exact h
  · split
    · exact RInv_tables h rfl rfl rfl
    · exact h

theorem conv_RInv (g : Grammar) (o : Opts) (root : Nat) (hw : worth g root = true) :
    ∀ fuel el p i h s r s', RInv root s → conv g o fuel el p i h s = some (r, s') → RInv root s' :=
  conv_inv g o (RInv root)
    (fun s r kw h => RInv_tables h rfl rfl rfl)
    (fun el n p i h s r s' _ hI hp => RInv_pre_ret g o el n p i h s r s' hI hp)
    (fun el n p i h s r s' _ hI hp => RInv_pre_loop g o el n p i h s r s' hw hI hp)
    (fun el n h ret s _ hI => RInv_post el n h ret s hI)
    (fun n r s hI => RInv_annotate o n r s hI)

/-! ### the first call (at the root, on the empty state) -/

theorem dispatch_some_of_kids (g : Grammar) (o : Opts) (n : Node) (name : String)
    (hk : n.kids.isEmpty = false) (ht : truthy n.custom = true) : (dispatch g o n name).isSome = true := by
  unfold dispatch
  simp only [apply_ite Option.isSome]
  simp [hk, ht]

theorem register_truthy (g : Grammar) (s : St) (el : Nat) (n : Node) (parent : Option Nat) (index : Nat)
    (pn : PNode) (ht : truthy n.custom = true) :
    (register g s el n parent index pn).2 =
      setL (s.alloc pn).2 (s.index + 1) el
        { converted := s.heap.length, parent := parent, parentIndex := index, number := s.index + 1,
          extract := true, name := n.custom } := by
  let es : EState := { converted := s.heap.length, parent := parent, parentIndex := index, number := s.index + 1 }
  have e0 : (register g s el n parent index pn).2 =
      markForExtraction g (setL (s.alloc pn).2 (s.index + 1) el es) el n.custom false := by
    unfold register
    simp only [ht, if_true]
    rfl
  rw [e0, mark_eq g _ el n.custom false es (by simp only [setL]; exact aget_aset_same _ _ _)]
  have : markName g es el n.custom = n.custom := by
    unfold markName
    have : truthy es.name = false := rfl
    simp only [this, ht, if_true]
    rfl
  rw [this]
  simp only [Bool.false_or, show es.complete = false from rfl, Bool.false_and]
  exact setL_setL _ _ _ _ _ _

/-- the root is shown (`show_in_diagram` or `show_hidden`) -/
def rootVisible (g : Grammar) (o : Opts) (root : Nat) : Bool :=
  match g[root]? with
  | some n => n.shown || o.showHidden
  | none => false

theorem conv_root_RInv (g : Grammar) (o : Opts) (fuel root : Nat) (r : Option Nat) (s' : St)
    (hcut : cut g root = true) (hvis : rootVisible g o root = true)
    (hc : conv g o fuel root none 0 none {} = some (r, s')) : RInv root s' := by
  unfold cut at hcut
  simp only [Bool.and_eq_true] at hcut
  obtain ⟨hcu, hw⟩ := hcut
  cases fuel with
  | zero => simp [conv] at hc
  | succ f =>
    unfold conv at hc
    cases hg : g[root]? with
    | none => simp [customOf, hg, truthy] at hcu
    | some n =>
      have hcustom : truthy n.custom = true := by rw [← customOf_eq hg]; exact hcu
      have hk : n.kids.isEmpty = false := by
        have : kidsOf g root = n.kids := by unfold kidsOf; rw [hg]
        unfold worth at hw
        rw [this] at hw
        cases hkk : n.kids with
        | nil => rw [hkk] at hw; simp at hw
        | cons a as => rfl
      have hv : (!n.shown && !o.showHidden) = false := by
        unfold rootVisible at hvis
        rw [hg] at hvis
        simp only at hvis
        cases hs : n.shown <;> cases hh : o.showHidden <;> simp_all
      obtain ⟨pn, hd⟩ := Option.isSome_iff_exists.mp (dispatch_some_of_kids g o n (nameOf n none) hk hcustom)
      have hp : ∃ r0, pre g o root n none 0 none {} = .loop r0 (register g {} root n none 0 pn).2 := by
        have h1 : isPass n = false := by simp [isPass, hcustom]
        have h2 : seenOf g {} root = .fresh := by simp [seenOf, hw]
        unfold pre
        simp only [h1, h2, Bool.false_eq_true, if_false]
        unfold preFresh
        simp only [hv, hd, Bool.false_eq_true, if_false]
        exact ⟨_, rfl⟩
      obtain ⟨r0, hp⟩ := hp
      have hI0 : RInv root (register g {} root n none 0 pn).2 := by
        rw [register_truthy g {} root n none 0 pn hcustom]
        refine RInv_setL' _ _ root _ ?_ ?_ (Or.inl rfl) ?_ (by omega) ⟨fun _ => ⟨rfl, truthy_isSome hcustom⟩, fun h => absurd rfl h⟩
        · intro u st hu; exact absurd hu (by simp [St.alloc])
        · intro u d hu; exact absurd hu (by simp [St.alloc])
        · simp [St.alloc]
      simp only [hg] at hc
      cases hb : convBody g o (conv g o f) root n none 0 none {} with
      | none => simp [hb] at hc
      | some rs =>
        obtain ⟨r1, s1⟩ := rs
        simp only [hb, Option.some.injEq] at hc
        have e : (annotate o n r1 s1).2 = s' := by rw [hc]
        refine e ▸ RInv_annotate o n r1 s1 ?_
        unfold convBody at hb
        simp only [hp] at hb
        cases hl : loopKids (conv g o f) r0 n.kids 0 (register g {} root n none 0 pn).2 with
        | none => simp [hl] at hb
        | some s2 =>
          simp only [hl, Option.some.injEq] at hb
          have hI1 := loopKids_inv (RInv root) (conv g o f) r0 (fun s r kw h => RInv_tables h rfl rfl rfl)
            (fun c p i h s r s' a b => conv_RInv g o root hw f c p i h s r s' a b) _ _ _ _ hI0 hl
          have e2 : (post root n none r0 s2).2 = s1 := by rw [hb]
          exact e2 ▸ RInv_post root n none r0 s2 hI1

/-! ### output stage -/

theorem sorted_head_min : ∀ (rest : List Named) (a : Named), SortedIdx (a :: rest) → ∀ y ∈ rest, a.index ≤ y.index := by
  intro rest
  induction rest with
  | nil => intro a _ y hy; exact absurd hy (by simp)
  | cons b r ih =>
    intro a hs y hy
    obtain ⟨h1, h2⟩ := hs
    rcases List.mem_cons.mp hy with rfl | hy
    · exact h1
    · exact Nat.le_trans h1 (ih b h2 y hy)

theorem mem_aget {α} (l : List (Nat × α)) (k : Nat) (v : α) (hn : (l.map (·.1)).Nodup) (h : (k, v) ∈ l) :
    aget l k = some v := by
  induction l with
  | nil => exact absurd h (by simp)
  | cons p rest ih =>
    obtain ⟨k', v'⟩ := p
    simp only [List.map_cons, List.nodup_cons] at hn
    unfold aget
    rcases List.mem_cons.mp h with he | he
    · simp only [Prod.mk.injEq] at he
      simp [he.1, he.2]
    · have : k' ≠ k := by
        rintro rfl
        exact hn.1 (List.mem_map.mpr ⟨(k', v), he, rfl⟩)
      simp only [this, if_false]
      exact ih hn.2 he

theorem dedupe_sub : ∀ (l : List DEntry) (seen : List (Option String)) (d : DEntry), d ∈ dedupe l seen → d ∈ l := by
  intro l
  induction l with
  | nil => intro seen d hd; simp [dedupe] at hd
  | cons x xs ih =>
    intro seen d hd
    unfold dedupe at hd
    split at hd
    · exact List.mem_cons_of_mem _ (ih _ _ hd)
    · split at hd
      · rcases List.mem_cons.mp hd with rfl | hd
        · exact List.mem_cons_self ..
        · exact List.mem_cons_of_mem _ (ih _ _ hd)
      · exact List.mem_cons_of_mem _ (ih _ _ hd)

theorem dedupe_keeps : ∀ (l : List DEntry) (seen : List (Option String)) (d : DEntry), d ∈ l →
    d.name.isSome → d.name ≠ some "..." → d.name ∉ seen → (∀ e ∈ l, e.name = d.name → e = d) →
    d ∈ dedupe l seen := by
  intro l
  induction l with
  | nil => intro seen d hd; exact absurd hd (by simp)
  | cons x xs ih =>
    intro seen d hd hs hne hseen huniq
    by_cases hx : x.name = d.name
    · have hxd : x = d := huniq x (List.mem_cons_self ..) hx
      subst hxd
      unfold dedupe
      split
      · rename_i h1; simp only [beq_iff_eq] at h1; exact absurd h1 hne
      · split
        · exact List.mem_cons_self ..
        · rename_i h2
          simp only [hs, Bool.true_and, Bool.not_eq_true', List.contains_eq_mem, decide_eq_false_iff_not,
            Decidable.not_not] at h2
          exact absurd h2 hseen
    · have hd' : d ∈ xs := by
        rcases List.mem_cons.mp hd with rfl | hd
        · exact absurd rfl hx
        · exact hd
      have hu' : ∀ e ∈ xs, e.name = d.name → e = d := fun e he => huniq e (List.mem_cons_of_mem _ he)
      unfold dedupe
      split
      · exact ih seen d hd' hs hne hseen hu'
      · split
        · refine List.mem_cons_of_mem _ (ih _ d hd' hs hne ?_ hu')
          intro hm
          rcases List.mem_cons.mp hm with hm | hm
          · exact hx hm.symm
          · exact hseen hm
        · exact ih seen d hd' hs hne hseen hu'

/-- no other element has the custom name of the root -/
def nameUniqueAt (g : Grammar) (root : Nat) : Bool :=
  (List.range g.length).all (fun u => u == root || customOf g u != customOf g root)

theorem nameUniqueAt_spec {g : Grammar} {root : Nat} (h : nameUniqueAt g root = true)
    (ht : truthy (customOf g root) = true) (u : Nat) (hu : customOf g u = customOf g root) : u = root := by
  by_cases hlt : u < g.length
  · unfold nameUniqueAt at h
    rw [List.all_eq_true] at h
    have := h u (List.mem_range.mpr hlt)
    simp only [Bool.or_eq_true, beq_iff_eq, bne_iff_ne, ne_eq] at this
    rcases this with h1 | h1
    · exact h1
    · exact absurd hu h1
  · have : customOf g u = none := by
      unfold customOf
      rw [List.getElem?_eq_none (by omega)]
      rfl
    rw [← hu, this] at ht
    simp [truthy] at ht

end PP.Diagram
