import PPProofs.Lemmas.DiagramLinks
/-! Helper lemmas for C20 (root_first): a custom-named, extraction-worthy root is registered exactly once,
    with the index 1; every other element gets an index ≥ 2; the keys of `diagrams` are distinct. -/
namespace PP.Diagram

structure RInv (root : Nat) (s : St) : Prop where
  lk : ∀ u st, aget s.lookup u = some st →
    (u = root → st.number = 1 ∧ st.name.isSome) ∧ (u ≠ root → 2 ≤ st.number)
  dg : ∀ u d, aget s.diagrams u = some d → (u = root → d.index = 1) ∧ (u ≠ root → 2 ≤ d.index)
  known : (∃ st, aget s.lookup root = some st) ∨ (∃ d, aget s.diagrams root = some d)
  idx : 1 ≤ s.index
  dk : (s.diagrams.map (·.1)).Nodup

theorem RInv_tables {root : Nat} {s s' : St} (h : RInv root s) (h1 : s'.lookup = s.lookup)
    (h2 : s'.diagrams = s.diagrams) (h3 : s'.index = s.index) : RInv root s' :=
  ⟨by rw [h1]; exact h.lk, by rw [h2]; exact h.dg, by rw [h1, h2]; exact h.known, by rw [h3]; exact h.idx,
   by rw [h2]; exact h.dk⟩

theorem RInv_setL' {root : Nat} (s : St) (idx el : Nat) (st' : EState)
    (hlk : ∀ u st, aget s.lookup u = some st →
      (u = root → st.number = 1 ∧ st.name.isSome) ∧ (u ≠ root → 2 ≤ st.number))
    (hdg : ∀ u d, aget s.diagrams u = some d → (u = root → d.index = 1) ∧ (u ≠ root → 2 ≤ d.index))
    (hk : el = root ∨ (∃ st, aget s.lookup root = some st) ∨ (∃ d, aget s.diagrams root = some d))
    (hdk : (s.diagrams.map (·.1)).Nodup)
    (hi : 1 ≤ idx)
    (hst : (el = root → st'.number = 1 ∧ st'.name.isSome) ∧ (el ≠ root → 2 ≤ st'.number)) :
    RInv root (setL s idx el st') := by
  refine ⟨?_, hdg, ?_, hi, hdk⟩
  · intro u st hu
    by_cases hu' : u = el
    · subst hu'
      simp only [setL, aget_aset_same, Option.some.injEq] at hu
      subst hu; exact hst
    · simp only [setL, aget_aset_ne _ _ _ _ hu'] at hu
      exact hlk u st hu
  · by_cases he : el = root
    · subst he; exact Or.inl ⟨st', aget_aset_same _ _ _⟩
    · rcases hk with hk | hk | hk
      · exact absurd hk he
      · left
        simp only [setL, aget_aset_ne _ _ _ _ (Ne.symm he)]
        exact hk
      · exact Or.inr hk

theorem RInv_setL {root : Nat} (s : St) (idx el : Nat) (st' : EState) (h : RInv root s) (hi : 1 ≤ idx)
    (hst : (el = root → st'.number = 1 ∧ st'.name.isSome) ∧ (el ≠ root → 2 ≤ st'.number)) :
    RInv root (setL s idx el st') :=
  RInv_setL' s idx el st' h.lk h.dg (Or.inr h.known) h.dk hi hst

theorem aset_keys {α} (l : List (Nat × α)) (k : Nat) (v : α) :
    (aset l k v).map (·.1) = if k ∈ l.map (·.1) then l.map (·.1) else l.map (·.1) ++ [k] := by
  induction l with
  | nil => simp [aset]
  | cons p rest ih =>
    obtain ⟨k', v'⟩ := p
    unfold aset
    by_cases h : k' = k
    · subst h; simp
    · simp only [h, if_false, List.map_cons, ih, List.mem_cons]
      have : ¬ k = k' := fun e => h e.symm
      simp only [this, false_or]
      split <;> simp

theorem aset_keys_nodup {α} (l : List (Nat × α)) (k : Nat) (v : α) (h : (l.map (·.1)).Nodup) :
    ((aset l k v).map (·.1)).Nodup := by
  rw [aset_keys]
  split
  · exact h
  · rename_i hk
    rw [List.nodup_append]
    refine ⟨h, by simp, ?_⟩
    intro a ha b hb
    simp only [List.mem_singleton] at hb
    subst hb
    intro e; subst e; exact hk ha

theorem exNT_index (s : St) (pos : EState) : (exNT s pos).index = s.index := by
  unfold exNT
  split
  · unfold St.putChild; split <;> rfl
  · rfl

theorem RInv_exFin {root : Nat} (s1 : St) (el : Nat) (pos : EState) (c : Slot) (h : RInv root s1)
    (hpos : aget s1.lookup el = some pos) : RInv root (exFin s1 el pos c) := by
  refine ⟨?_, ?_, ?_, h.idx, aset_keys_nodup _ _ _ h.dk⟩
  · intro u st hu
    by_cases hu' : u = el
    · subst hu'; simp [exFin, aget_adel_same] at hu
    · simp only [exFin, aget_adel_ne _ _ _ hu'] at hu
      exact h.lk u st hu
  · intro u d hu
    by_cases hu' : u = el
    · subst hu'
      simp only [exFin, aget_aset_same, Option.some.injEq] at hu
      subst hu
      exact ⟨fun e => ((h.lk u pos hpos).1 e).1, (h.lk u pos hpos).2⟩
    · simp only [exFin, aget_aset_ne _ _ _ _ hu'] at hu
      exact h.dg u d hu
  · by_cases he : el = root
    · subst he; exact Or.inr ⟨_, aget_aset_same _ _ _⟩
    · have he' : root ≠ el := Ne.symm he
      simp only [exFin, aget_aset_ne _ _ _ _ he', aget_adel_ne _ _ _ he']
      exact h.known

theorem RInv_extract {root : Nat} (s : St) (el : Nat) (h : RInv root s) :
    RInv root (extractIntoDiagram s el) := by
  cases hl : aget s.lookup el with
  | none => rw [extract_none s el hl]; exact h
  | some pos =>
    obtain ⟨c, e⟩ := extract_eq s el pos hl
    rw [e]
    exact RInv_exFin _ el pos c (RInv_tables h (exNT_lookup s pos) (exNT_diagrams s pos) (exNT_index s pos))
      (by rw [exNT_lookup]; exact hl)

theorem markName_isSome (g : Grammar) (st : EState) (el : Nat) (name : Option String) :
    (markName g st el name).isSome := by
  unfold markName
  split
  · rename_i h; exact truthy_isSome h
  · split
    · rename_i h; exact truthy_isSome h
    · split
      · rename_i h; exact truthy_isSome h
      · rfl

theorem RInv_mark {root : Nat} (g : Grammar) (s : St) (el : Nat) (name : Option String) (f : Bool)
    (h : RInv root s) : RInv root (markForExtraction g s el name f) := by
  cases hl : aget s.lookup el with
  | none =>
    have e : markForExtraction g s el name f = s := by
      unfold markForExtraction; simp only [hl]
    rw [e]; exact h
  | some st =>
    rw [mark_eq g s el name f st hl]
    have h1 : RInv root (setL s s.index el { st with extract := true, name := markName g st el name }) :=
      RInv_setL s s.index el _ h h.idx
        ⟨fun e => ⟨((h.lk el st hl).1 e).1, markName_isSome g st el name⟩, (h.lk el st hl).2⟩
    split
    · exact RInv_extract _ el h1
    · exact h1

theorem RInv_register {root : Nat} (g : Grammar) (s : St) (el : Nat) (n : Node) (parent : Option Nat)
    (index : Nat) (pn : PNode) (h : RInv root s) (hne : el ≠ root) :
    RInv root (register g s el n parent index pn).2 := by
  have h1 : RInv root (setL (s.alloc pn).2 (s.index + 1) el
      { converted := s.heap.length, parent := parent, parentIndex := index, number := s.index + 1 }) :=
    RInv_setL _ _ el _ (RInv_tables h rfl rfl rfl) (by omega)
      ⟨fun e => absurd e hne, fun _ => by have := h.idx; show 2 ≤ s.index + 1; omega⟩
  unfold register
  simp only
  split
  · exact RInv_mark g _ el _ false h1
  · exact h1

theorem seenOf_root_not_fresh {root : Nat} (g : Grammar) (s : St) (h : RInv root s)
    (hw : worth g root = true) : seenOf g s root ≠ .fresh := by
  unfold seenOf
  simp only [hw, if_true]
  cases hl : aget s.lookup root with
  | some st =>
    simp only [((h.lk root st hl).1 rfl).2, if_true]
    simp
  | none =>
    simp only
    rcases h.known with ⟨st, hst⟩ | ⟨d, hd⟩
    · rw [hl] at hst; exact absurd hst (by simp)
    · simp [hd]

theorem RInv_pre_ret {root : Nat} (g : Grammar) (o : Opts) (el : Nat) (n : Node) (p : Option Nat) (i : Nat)
    (h : Option String) (s : St) (r : Option Nat) (s' : St) (hI : RInv root s)
    (hp : pre g o el n p i h s = .ret r s') : RInv root s' := by
  unfold pre at hp
  split at hp
  · exact absurd hp (by simp)
  · split at hp
    · simp only [newNT, Pre.ret.injEq] at hp
      obtain ⟨_, rfl⟩ := hp
      exact RInv_tables (RInv_mark g s el h false hI) rfl rfl rfl
    · simp only [newNT, Pre.ret.injEq] at hp
      obtain ⟨_, rfl⟩ := hp
      exact RInv_tables hI rfl rfl rfl
    · unfold preFresh at hp
      split at hp
      · simp only [Pre.ret.injEq] at hp
        obtain ⟨_, rfl⟩ := hp
        exact hI
      · split at hp
        · simp only [Pre.ret.injEq] at hp
          obtain ⟨_, rfl⟩ := hp
          exact hI
        · exact absurd hp (by simp)

theorem RInv_pre_loop {root : Nat} (g : Grammar) (o : Opts) (el : Nat) (n : Node) (p : Option Nat) (i : Nat)
    (h : Option String) (s : St) (r : Nat) (s' : St) (hw : worth g root = true) (hI : RInv root s)
    (hp : pre g o el n p i h s = .loop r s') : RInv root s' := by
  unfold pre at hp
  split at hp
  · exact absurd hp (by simp)
  · split at hp
    · exact absurd hp (by simp)
    · exact absurd hp (by simp)
    · rename_i hseen
      have hne : el ≠ root := by
        rintro rfl
        exact seenOf_root_not_fresh g s hI hw hseen
      unfold preFresh at hp
      split at hp
      · exact absurd hp (by simp)
      · split at hp
        · exact absurd hp (by simp)
        · rename_i pn hd
          simp only [Pre.loop.injEq] at hp
          obtain ⟨_, rfl⟩ := hp
          exact RInv_register g s el n p i pn hI hne

theorem RInv_setComplete {root : Nat} (s : St) (el : Nat) (h : RInv root s) : RInv root (setComplete s el) := by
  unfold setComplete
  cases hl : aget s.lookup el with
  | none => exact h
  | some st =>
    exact RInv_setL s s.index el { st with complete := true } h h.idx (h.lk el st hl)

theorem RInv_post {root : Nat} (el : Nat) (n : Node) (hint : Option String) (ret : Nat) (s : St)
    (h : RInv root s) : RInv root (post el n hint ret s).2 := by
  have h1 : RInv root (post1 n hint ret s).2 := by
    unfold post1
    split
    · exact RInv_tables h rfl rfl rfl
    · exact h
  have h2 := RInv_setComplete _ el h1
  unfold post
  simp only
  split
  · split
    · exact RInv_tables (RInv_extract _ el h2) rfl rfl rfl
    · exact h2
  · exact h2

theorem RInv_annotate {root : Nat} (o : Opts) (n : Node) (r : Option Nat) (s : St) (h : RInv root s) :
    RInv root (annotate o n r s).2 := by
  unfold annotate
  split
  · exact h
  · split
    · exact RInv_tables h rfl rfl rfl
    · exact h

theorem conv_RInv (g : Grammar) (o : Opts) (root : Nat) (hw : worth g root = true) :
    ∀ fuel el p i h s r s', RInv root s → conv g o fuel el p i h s = some (r, s') → RInv root s' :=
  conv_inv g o (RInv root)
    (fun s r kw h => RInv_tables h rfl rfl rfl)
    (fun el n p i h s r s' _ hI hp => RInv_pre_ret g o el n p i h s r s' hI hp)
    (fun el n p i h s r s' _ hI hp => RInv_pre_loop g o el n p i h s r s' hw hI hp)
    (fun el n h ret s _ hI => RInv_post el n h ret s hI)
    (fun n r s hI => RInv_annotate o n r s hI)

end PP.Diagram
