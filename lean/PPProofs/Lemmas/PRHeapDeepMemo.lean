import PPModel.Mod.PRHeapDeep
import PPProofs.Props.C11Heap
/-!
  Invariant of the memoised deep copy `deepObjN` (`copy.deepcopy` / pickle of nested results): everything the memo
  maps to is an object (or occurrence-list cell) allocated at or above `b`, whose cells are at or above `b`, and whose
  tokens / named values / occurrence lists refer to memo values only.  Nothing below the allocation pointer of the
  state a call starts from is written.
-/
namespace PP.PRHeap
open PP.PyDict

variable {α : Type}

def InVals (m : List (Nat × Nat)) (v : Nat) : Prop := ∃ k, (k, v) ∈ m

theorem mget_some {m : List (Nat × Nat)} {k v : Nat} (h : mget m k = some v) : InVals m v := by
  induction m with
  | nil => simp [mget] at h
  | cons p m ih =>
    obtain ⟨k', v'⟩ := p
    simp only [mget] at h
    split at h
    · cases h; exact ⟨k', List.mem_cons_self ..⟩
    · obtain ⟨k2, hk⟩ := ih h; exact ⟨k2, List.mem_cons_of_mem _ hk⟩

theorem InVals.mono {m m' : List (Nat × Nat)} (hm : ∀ p, p ∈ m → p ∈ m') {v : Nat} (h : InVals m v) : InVals m' v :=
  h.elim fun k hk => ⟨k, hm _ hk⟩

def VOk (mo : List (Nat × Nat)) (v : HVal α) : Prop := ∀ n, v = .ref n → InVals mo n

theorem VOk.mono {m m' : List (Nat × Nat)} (hm : ∀ p, p ∈ m → p ∈ m') {v : HVal α} (h : VOk m v) : VOk m' v :=
  fun n hn => (h n hn).mono hm

def ObjOk (b : Nat) (s : DS α) (c : Nat) : Prop :=
  (b ≤ c ∧ c < s.h.next) ∧ (b ≤ (s.h.objs c).lst ∧ (s.h.objs c).lst < s.h.next) ∧
  (b ≤ (s.h.objs c).dct ∧ (s.h.objs c).dct < s.h.next) ∧
  (∀ v ∈ s.h.lists (s.h.objs c).lst, VOk s.mo v) ∧
  (∀ e ∈ s.h.dicts (s.h.objs c).dct, InVals s.mc e.2)

def OccOk (b : Nat) (s : DS α) (cell : Nat) : Prop :=
  (b ≤ cell ∧ cell < s.h.next) ∧ ∀ vp ∈ s.h.occs cell, VOk s.mo vp.1

structure Inv (b : Nat) (s : DS α) : Prop where
  obj : ∀ c, InVals s.mo c → ObjOk b s c
  occ : ∀ c, InVals s.mc c → OccOk b s c

/-- nothing allocated in `s` is written on the way to `s'`; the memos only grow -/
structure Grow (s s' : DS α) : Prop where
  next : s.h.next ≤ s'.h.next
  lists : ∀ i, i < s.h.next → s'.h.lists i = s.h.lists i
  dicts : ∀ i, i < s.h.next → s'.h.dicts i = s.h.dicts i
  occs : ∀ i, i < s.h.next → s'.h.occs i = s.h.occs i
  objs : ∀ i, i < s.h.next → s'.h.objs i = s.h.objs i
  mo : ∀ p, p ∈ s.mo → p ∈ s'.mo
  mc : ∀ p, p ∈ s.mc → p ∈ s'.mc

theorem Grow.refl (s : DS α) : Grow s s :=
  ⟨Nat.le_refl _, fun _ _ => rfl, fun _ _ => rfl, fun _ _ => rfl, fun _ _ => rfl, fun _ h => h, fun _ h => h⟩

theorem Grow.trans {s1 s2 s3 : DS α} (a : Grow s1 s2) (b : Grow s2 s3) : Grow s1 s3 :=
  ⟨Nat.le_trans a.next b.next,
   fun i hi => (b.lists i (Nat.lt_of_lt_of_le hi a.next)).trans (a.lists i hi),
   fun i hi => (b.dicts i (Nat.lt_of_lt_of_le hi a.next)).trans (a.dicts i hi),
   fun i hi => (b.occs i (Nat.lt_of_lt_of_le hi a.next)).trans (a.occs i hi),
   fun i hi => (b.objs i (Nat.lt_of_lt_of_le hi a.next)).trans (a.objs i hi),
   fun p hp => b.mo p (a.mo p hp), fun p hp => b.mc p (a.mc p hp)⟩

theorem ObjOk.grow {b : Nat} {s s' : DS α} (g : Grow s s') {c : Nat} (h : ObjOk b s c) : ObjOk b s' c := by
  obtain ⟨⟨a1, a2⟩, ⟨b1, b2⟩, ⟨c1, c2⟩, hl, hd⟩ := h
  have e := g.objs c a2
  have := g.next
  refine ⟨⟨a1, by omega⟩, ?_, ?_, ?_, ?_⟩
  · rw [e]; exact ⟨b1, by omega⟩
  · rw [e]; exact ⟨c1, by omega⟩
  · rw [e, g.lists _ b2]; exact fun v hv => (hl v hv).mono g.mo
  · rw [e, g.dicts _ c2]; exact fun v hv => (hd v hv).mono g.mc

theorem OccOk.grow {b : Nat} {s s' : DS α} (g : Grow s s') {c : Nat} (h : OccOk b s c) : OccOk b s' c := by
  obtain ⟨⟨a1, a2⟩, hl⟩ := h
  have := g.next
  refine ⟨⟨a1, by omega⟩, ?_⟩
  rw [g.occs _ a2]; exact fun v hv => (hl v hv).mono g.mo

theorem Inv.grow_same_memo {b : Nat} {s s' : DS α} (g : Grow s s') (hmo : s'.mo = s.mo) (hmc : s'.mc = s.mc)
    (h : Inv b s) : Inv b s' :=
  ⟨fun c hc => (h.obj c (hmo ▸ hc)).grow g, fun c hc => (h.occ c (hmc ▸ hc)).grow g⟩

/-- the part of the heap below `b` is that of the original heap `h0` -/
def Below (b : Nat) (h0 h : Heap α) : Prop :=
  b ≤ h.next ∧ ∀ i, i < b →
    h.lists i = h0.lists i ∧ h.dicts i = h0.dicts i ∧ h.occs i = h0.occs i ∧ h.objs i = h0.objs i

theorem Below.grow {b : Nat} {h0 : Heap α} {s s' : DS α} (g : Grow s s') (h : Below b h0 s.h) : Below b h0 s'.h := by
  obtain ⟨hb, hi⟩ := h
  refine ⟨Nat.le_trans hb g.next, fun i hib => ?_⟩
  have hlt : i < s.h.next := by omega
  obtain ⟨a1, a2, a3, a4⟩ := hi i hib
  exact ⟨(g.lists i hlt).trans a1, (g.dicts i hlt).trans a2, (g.occs i hlt).trans a3, (g.objs i hlt).trans a4⟩

/-- everything reachable from `o` — through tokens and through named values — lies below `b` and the reachability
    tree has depth < `d` (Python's recursion terminates on exactly such structures, memo aside) -/
def FD (b : Nat) (h0 : Heap α) : Nat → Nat → Prop
  | 0, _ => False
  | d + 1, o => o < b ∧ (h0.objs o).lst < b ∧ (h0.objs o).dct < b ∧
      (∀ n, HVal.ref n ∈ h0.lists (h0.objs o).lst → FD b h0 d n) ∧
      (∀ e ∈ h0.dicts (h0.objs o).dct, e.2 < b ∧ ∀ vp ∈ h0.occs e.2, ∀ n, vp.1 = HVal.ref n → FD b h0 d n)

def RecSpec (b : Nat) (h0 : Heap α) (f : Nat) (rec : DS α → Nat → DS α × Nat) : Prop :=
  ∀ s o, Inv b s → Below b h0 s.h → FD b h0 f o →
    Inv b (rec s o).1 ∧ Grow s (rec s o).1 ∧ InVals (rec s o).1.mo (rec s o).2

theorem dvals_spec {b : Nat} {h0 : Heap α} {f : Nat} {rec : DS α → Nat → DS α × Nat} (hrec : RecSpec b h0 f rec) :
    ∀ (ts : List (HVal α)) (s : DS α), Inv b s → Below b h0 s.h → (∀ n, HVal.ref n ∈ ts → FD b h0 f n) →
      Inv b (dvals rec s ts).1 ∧ Grow s (dvals rec s ts).1 ∧ ∀ v ∈ (dvals rec s ts).2, VOk (dvals rec s ts).1.mo v := by
  intro ts
  induction ts with
  | nil => intro s hI _ _; exact ⟨hI, Grow.refl s, fun v hv => by cases hv⟩
  | cons t ts ih =>
    intro s hI hB hF
    cases t with
    | atom a =>
      obtain ⟨i1, i2, i3⟩ := ih s hI hB (fun n hn => hF n (List.mem_cons_of_mem _ hn))
      refine ⟨i1, i2, fun v hv => ?_⟩
      rcases List.mem_cons.mp hv with e | e
      · subst e; intro n hn; cases hn
      · exact i3 v e
    | ref n =>
      obtain ⟨r1, r2, r3⟩ := hrec s n hI hB (hF n (List.mem_cons_self ..))
      obtain ⟨i1, i2, i3⟩ := ih (rec s n).1 r1 (hB.grow r2) (fun m hm => hF m (List.mem_cons_of_mem _ hm))
      refine ⟨i1, r2.trans i2, fun v hv => ?_⟩
      rcases List.mem_cons.mp hv with e | e
      · subst e; intro m hm; cases hm; exact r3.mono i2.mo
      · exact i3 v e

theorem doccs_spec {b : Nat} {h0 : Heap α} {f : Nat} {rec : DS α → Nat → DS α × Nat} (hrec : RecSpec b h0 f rec) :
    ∀ (ts : List (HVal α × Int)) (s : DS α), Inv b s → Below b h0 s.h →
      (∀ vp ∈ ts, ∀ n, vp.1 = HVal.ref n → FD b h0 f n) →
      Inv b (doccs rec s ts).1 ∧ Grow s (doccs rec s ts).1 ∧
      ∀ vp ∈ (doccs rec s ts).2, VOk (doccs rec s ts).1.mo vp.1 := by
  intro ts
  induction ts with
  | nil => intro s hI _ _; exact ⟨hI, Grow.refl s, fun v hv => by cases hv⟩
  | cons t ts ih =>
    intro s hI hB hF
    obtain ⟨v, p⟩ := t
    cases v with
    | atom a =>
      obtain ⟨i1, i2, i3⟩ := ih s hI hB (fun vp hvp => hF vp (List.mem_cons_of_mem _ hvp))
      refine ⟨i1, i2, fun vp hvp => ?_⟩
      rcases List.mem_cons.mp hvp with e | e
      · subst e; intro n hn; cases hn
      · exact i3 vp e
    | ref n =>
      obtain ⟨r1, r2, r3⟩ := hrec s n hI hB (hF _ (List.mem_cons_self ..) n rfl)
      obtain ⟨i1, i2, i3⟩ := ih (rec s n).1 r1 (hB.grow r2) (fun vp hvp => hF vp (List.mem_cons_of_mem _ hvp))
      refine ⟨i1, r2.trans i2, fun vp hvp => ?_⟩
      rcases List.mem_cons.mp hvp with e | e
      · subst e; intro m hm; cases hm; exact r3.mono i2.mo
      · exact i3 vp e

theorem deepOcc_spec {b : Nat} {h0 : Heap α} {f : Nat} {rec : DS α → Nat → DS α × Nat} (hrec : RecSpec b h0 f rec)
    (s : DS α) (cell : Nat) (hI : Inv b s) (hB : Below b h0 s.h) (hc : cell < b)
    (hF : ∀ vp ∈ h0.occs cell, ∀ n, vp.1 = HVal.ref n → FD b h0 f n) :
    Inv b (deepOcc rec s cell).1 ∧ Grow s (deepOcc rec s cell).1 ∧
      InVals (deepOcc rec s cell).1.mc (deepOcc rec s cell).2 := by
  unfold deepOcc
  split
  · rename_i c hm
    exact ⟨hI, Grow.refl s, mget_some hm⟩
  · have eo : s.h.occs cell = h0.occs cell := (hB.2 cell hc).2.2.1
    have R := doccs_spec hrec (s.h.occs cell) s hI hB (by rw [eo]; exact hF)
    generalize doccs rec s (s.h.occs cell) = r at R
    obtain ⟨r1, r2, r3⟩ := R
    have hb : b ≤ r.1.h.next := (hB.grow r2).1
    have g : Grow r.1 { h := { r.1.h with occs := upd r.1.h.occs r.1.h.next r.2, next := r.1.h.next + 1 },
                        mo := r.1.mo, mc := (cell, r.1.h.next) :: r.1.mc } :=
      ⟨Nat.le_succ _, fun _ _ => rfl, fun _ _ => rfl, fun i hi => upd_ne _ _ (Nat.ne_of_lt hi), fun _ _ => rfl,
       fun _ hp => hp, fun _ hp => List.mem_cons_of_mem _ hp⟩
    refine ⟨⟨fun c hc' => (r1.obj c hc').grow g, fun c hc' => ?_⟩, r2.trans g, ⟨cell, List.mem_cons_self ..⟩⟩
    obtain ⟨k, hk⟩ := hc'
    rcases List.mem_cons.mp hk with e | e
    · cases e
      refine ⟨⟨hb, Nat.lt_succ_self _⟩, ?_⟩
      show ∀ vp ∈ upd r.1.h.occs r.1.h.next r.2 r.1.h.next, _
      rw [upd_same]; exact r3
    · exact (r1.occ c ⟨k, e⟩).grow g

theorem ddict_spec {b : Nat} {h0 : Heap α} {f : Nat} {rec : DS α → Nat → DS α × Nat} (hrec : RecSpec b h0 f rec) :
    ∀ (es : Dict Nat) (s : DS α), Inv b s → Below b h0 s.h →
      (∀ e ∈ es, e.2 < b ∧ ∀ vp ∈ h0.occs e.2, ∀ n, vp.1 = HVal.ref n → FD b h0 f n) →
      Inv b (ddict rec s es).1 ∧ Grow s (ddict rec s es).1 ∧
      ∀ e ∈ (ddict rec s es).2, InVals (ddict rec s es).1.mc e.2 := by
  intro es
  induction es with
  | nil => intro s hI _ _; exact ⟨hI, Grow.refl s, fun v hv => by cases hv⟩
  | cons e es ih =>
    intro s hI hB hF
    obtain ⟨k, cell⟩ := e
    obtain ⟨h1, h2⟩ := hF (k, cell) (List.mem_cons_self ..)
    obtain ⟨r1, r2, r3⟩ := deepOcc_spec hrec s cell hI hB h1 h2
    obtain ⟨i1, i2, i3⟩ := ih (deepOcc rec s cell).1 r1 (hB.grow r2) (fun e he => hF e (List.mem_cons_of_mem _ he))
    refine ⟨i1, r2.trans i2, fun e he => ?_⟩
    rcases List.mem_cons.mp he with e' | e'
    · subst e'; exact r3.mono i2.mc
    · exact i3 e e'

theorem newObj_spec {b : Nat} (s : DS α) (o : Nat) (toks : List (HVal α)) (all : List String) (hI : Inv b s)
    (hb : b ≤ s.h.next) (ht : ∀ v ∈ toks, VOk s.mo v) :
    Inv b (newObj s o toks all).1 ∧ Grow s (newObj s o toks all).1 ∧
      InVals (newObj s o toks all).1.mo (newObj s o toks all).2 ∧
      (newObj s o toks all).2 = s.h.next + 2 ∧ (newObj s o toks all).1.h.next = s.h.next + 3 := by
  have g : Grow s (newObj s o toks all).1 :=
    ⟨by show s.h.next ≤ s.h.next + 3; omega, fun i hi => upd_ne _ _ (by omega), fun i hi => upd_ne _ _ (by omega),
     fun _ _ => rfl, fun i hi => upd_ne _ _ (by omega), fun _ hp => List.mem_cons_of_mem _ hp, fun _ hp => hp⟩
  refine ⟨⟨fun c hc => ?_, fun c hc => (hI.occ c hc).grow g⟩, g, ⟨o, List.mem_cons_self ..⟩, rfl, rfl⟩
  obtain ⟨k, hk⟩ := hc
  rcases List.mem_cons.mp hk with e | e
  · cases e
    have ho : (newObj s o toks all).1.h.objs (s.h.next + 2) = ⟨s.h.next, s.h.next + 1, all⟩ := upd_same _ _ _
    refine ⟨?_, ?_, ?_, ?_, ?_⟩
    · show b ≤ s.h.next + 2 ∧ s.h.next + 2 < s.h.next + 3; omega
    · rw [ho]; show b ≤ s.h.next ∧ s.h.next < s.h.next + 3; omega
    · rw [ho]; show b ≤ s.h.next + 1 ∧ s.h.next + 1 < s.h.next + 3; omega
    · rw [ho]
      show ∀ v ∈ upd s.h.lists s.h.next toks s.h.next, _
      rw [upd_same]; exact fun v hv => (ht v hv).mono g.mo
    · rw [ho]
      show ∀ e ∈ upd s.h.dicts (s.h.next + 1) [] (s.h.next + 1), _
      rw [upd_same]; intro e he; cases he
  · exact (hI.obj c ⟨k, e⟩).grow g

theorem setState_spec {b : Nat} (s : DS α) (c : Nat) (toks : List (HVal α)) (dict : Dict Nat) (all : List String)
    (hI : Inv b s) (hb : b ≤ s.h.next) (hc : b ≤ c ∧ c < s.h.next) (ht : ∀ v ∈ toks, VOk s.mo v)
    (hd : ∀ e ∈ dict, InVals s.mc e.2) : Inv b (setState s c toks dict all) := by
  have ho : ∀ i, i ≠ c → (setState s c toks dict all).h.objs i = s.h.objs i := fun i hi => upd_ne _ _ hi
  have hoc : (setState s c toks dict all).h.objs c = ⟨s.h.next, s.h.next + 1, all⟩ := upd_same _ _ _
  have hl : ∀ i, i < s.h.next → (setState s c toks dict all).h.lists i = s.h.lists i :=
    fun i hi => upd_ne _ _ (by omega)
  have hdd : ∀ i, i < s.h.next → (setState s c toks dict all).h.dicts i = s.h.dicts i :=
    fun i hi => upd_ne _ _ (by omega)
  have hn : (setState s c toks dict all).h.next = s.h.next + 2 := rfl
  refine ⟨fun v hv => ?_, fun v hv => ?_⟩
  · by_cases e : v = c
    · subst e
      refine ⟨⟨hc.1, by rw [hn]; omega⟩, ?_, ?_, ?_, ?_⟩
      · rw [hoc, hn]; simp only; omega
      · rw [hoc, hn]; simp only; omega
      · rw [hoc]
        show ∀ v ∈ upd s.h.lists s.h.next toks s.h.next, _
        rw [upd_same]; exact ht
      · rw [hoc]
        show ∀ e ∈ upd s.h.dicts (s.h.next + 1) dict (s.h.next + 1), _
        rw [upd_same]; exact hd
    · obtain ⟨⟨a1, a2⟩, ⟨b1, b2⟩, ⟨c1, c2⟩, q1, q2⟩ := hI.obj v hv
      refine ⟨⟨a1, by rw [hn]; omega⟩, ?_, ?_, ?_, ?_⟩
      · rw [ho v e, hn]; omega
      · rw [ho v e, hn]; omega
      · rw [ho v e, hl _ b2]; exact q1
      · rw [ho v e, hdd _ c2]; exact q2
  · obtain ⟨⟨a1, a2⟩, q⟩ := hI.occ v hv
    exact ⟨⟨a1, by rw [hn]; omega⟩, q⟩

/-- **the invariant of the memoised deep copy** -/
theorem deepObjN_spec (b : Nat) (h0 : Heap α) : ∀ f, RecSpec b h0 f (deepObjN f) := by
  intro f
  induction f with
  | zero => intro s o _ _ hF; exact hF.elim
  | succ f ih =>
    intro s o hI hB hF
    obtain ⟨w1, w2, w3, w4, w5⟩ := hF
    have eo : s.h.objs o = h0.objs o := (hB.2 o w1).2.2.2
    simp only [deepObjN]
    split
    · rename_i c hm
      exact ⟨hI, Grow.refl s, mget_some hm⟩
    · -- args
      have A := dvals_spec ih (s.h.lists (s.h.objs o).lst) s hI hB (by rw [eo, (hB.2 _ w2).1]; exact w4)
      generalize dvals (deepObjN f) s (s.h.lists (s.h.objs o).lst) = a at A ⊢
      obtain ⟨a1, a2, a3⟩ := A
      have aB := hB.grow a2
      -- __new__ + memo
      have Y := newObj_spec a.1 o a.2 (s.h.objs o).all a1 aB.1 a3
      generalize newObj a.1 o a.2 (s.h.objs o).all = y at Y ⊢
      obtain ⟨y1, y2, y3, y4, y5⟩ := Y
      have yB := aB.grow y2
      -- state: tokens
      have T := dvals_spec ih (y.1.h.lists (s.h.objs o).lst) y.1 y1 yB (by rw [eo, (yB.2 _ w2).1]; exact w4)
      generalize dvals (deepObjN f) y.1 (y.1.h.lists (s.h.objs o).lst) = t at T ⊢
      obtain ⟨t1, t2, t3⟩ := T
      have tB := yB.grow t2
      -- state: name table
      have D := ddict_spec ih (t.1.h.dicts (s.h.objs o).dct) t.1 t1 tB (by rw [eo, (tB.2 _ w3).2.1]; exact w5)
      generalize ddict (deepObjN f) t.1 (t.1.h.dicts (s.h.objs o).dct) = d at D ⊢
      obtain ⟨d1, d2, d3⟩ := D
      have dB := tB.grow d2
      have g : Grow s d.1 := a2.trans (y2.trans (t2.trans d2))
      have hyn : y.2 < d.1.h.next := by
        have := (t2.trans d2).next; omega
      have hsy : s.h.next ≤ y.2 := by have := a2.next; omega
      have hby : b ≤ y.2 := by have := hB.1; omega
      refine ⟨setState_spec d.1 y.2 t.2 d.2 _ d1 dB.1 ⟨hby, hyn⟩ (fun v hv => (t3 v hv).mono d2.mo) d3, ?_,
        y3.mono (t2.trans d2).mo⟩
      exact ⟨Nat.le_trans g.next (by show d.1.h.next ≤ d.1.h.next + 2; omega),
        fun i hi => (upd_ne _ _ (by have := g.next; omega)).trans (g.lists i hi),
        fun i hi => (upd_ne _ _ (by have := g.next; omega)).trans (g.dicts i hi),
        g.occs,
        fun i hi => (upd_ne _ _ (by omega)).trans (g.objs i hi),
        g.mo, g.mc⟩

end PP.PRHeap
