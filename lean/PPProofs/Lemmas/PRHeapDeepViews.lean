import PPProofs.Lemmas.PRHeapDeep
import PPProofs.Lemmas.PRHeapDeepMemoNames
/-!
  Both views (`dumpN`) under `ParseResults.deepcopy()`: the copy's tokens are related to the original's (`Corr`), its
  name tables are the original's (same occurrence lists, whose nested values are original objects, untouched).
-/
namespace PP.PRHeap
open PP.PyDict

variable {α : Type}

theorem flatMap_congr_mem {β γ : Type} (l : List β) (f g : β → List γ) (h : ∀ x ∈ l, f x = g x) :
    l.flatMap f = l.flatMap g := by
  rw [List.flatMap_def, List.flatMap_def]
  congr 1
  exact List.map_congr_left h

/-- `dumpN` of an object whose whole reachable structure is allocated is the same in every extension of the heap -/
theorem dumpN_ext {h h' : Heap α} (e : Ext h h') : ∀ k d o, FD h.next h d o → dumpN k h' o = dumpN k h o := by
  intro k
  induction k with
  | zero => intro d o _; rfl
  | succ k ih =>
    intro d o hd
    cases d with
    | zero => exact hd.elim
    | succ d =>
      obtain ⟨w1, w2, w3, w4, w5⟩ := hd
      simp only [dumpN]
      rw [e.objs o w1, e.lists _ w2, e.dicts _ w3, e.occs]
      have app2 : ∀ {a a' b b' : List (Dk α)}, a = a' → b = b' → a ++ b = a' ++ b' := by
        intro a a' b b' h1 h2; rw [h1, h2]
      refine congrArg (List.cons _) (app2 (app2 ?_ ?_) rfl)
      · apply flatMap_congr_mem
        intro v hv
        cases v with
        | atom a => rfl
        | ref n => exact ih d n (w4 n hv)
      · apply flatMap_congr_mem
        intro en hen
        refine congrArg (List.cons _) ?_
        apply flatMap_congr_mem
        intro vp hvp
        refine congrArg (List.cons _) ?_
        obtain ⟨v, p⟩ := vp
        cases v with
        | atom a => rfl
        | ref n => exact ih d n ((w5 en hen).2 _ hvp n rfl)

/-- both views, nested, of a `deepcopy()` copy are those of the original -/
theorem Corr.dump {b : Nat} {h h' : Heap α} (e : Ext h h') : ∀ k d dd o c, Corr b h h' d o c →
    FD h.next h dd o → dumpN k h' c = dumpN k h o := by
  intro k
  induction k with
  | zero => intro d dd o c _ _; rfl
  | succ k ih =>
    intro d dd o c hc hd
    cases dd with
    | zero => exact hd.elim
    | succ dd =>
      obtain ⟨_, _, w3, w4, w5⟩ := hd
      obtain ⟨_, _, _, q1, q2⟩ := hc.node
      simp only [dumpN]
      rw [q1, q2, e.occs]
      have app2 : ∀ {a a' b b' : List (Dk α)}, a = a' → b = b' → a ++ b = a' ++ b' := by
        intro a a' b b' h1 h2; rw [h1, h2]
      refine congrArg (List.cons _) (app2 (app2 ?_ ?_) rfl)
      · cases d with
        | zero => exact RelL.flatMapG _ _ _ _ _ hc.2 (fun _ _ hf => hf.elim)
        | succ d =>
          have hr := RelL.mono_mem (R' := fun n n' => Corr b h h' d n n' ∧ FD h.next h dd n) _ _
            (fun n n' hn hcn => ⟨hcn, w4 n hn⟩) hc.2
          exact RelL.flatMapG _ _ _ _ _ hr (fun n n' hcn => ih d dd n n' hcn.1 hcn.2)
      · apply flatMap_congr_mem
        intro en hen
        refine congrArg (List.cons _) ?_
        apply flatMap_congr_mem
        intro vp hvp
        refine congrArg (List.cons _) ?_
        obtain ⟨v, p⟩ := vp
        cases v with
        | atom a => rfl
        | ref n => exact dumpN_ext e k dd n ((w5 en hen).2 _ hvp n rfl)

/-- every group of the copy's token tree has the name-table entries of some group of the original's token tree -/
theorem Corr.dict_shared_rev {b : Nat} {h h' : Heap α} {c x' : Nat} (hr : TReach h' c x') :
    ∀ d o, Corr b h h' d o c → ∃ x, TReach h o x ∧
      h'.dicts (h'.objs x').dct = h.dicts (h.objs x).dct := by
  induction hr with
  | refl c => intro d o hc; exact ⟨o, TReach.refl o, hc.node.2.2.2.1⟩
  | step hm _ ih =>
    intro d o hc
    cases d with
    | zero => obtain ⟨_, _, hf⟩ := RelL.mem_right _ _ _ hc.2 hm; exact hf.elim
    | succ d =>
      obtain ⟨n, hn, hcn⟩ := RelL.mem_right _ _ _ hc.2 hm
      obtain ⟨x, r1, r2⟩ := ih d n hcn
      exact ⟨x, TReach.step hn r1, r2⟩

/-- the occurrence lists of everything token-reachable from an `FD` object are allocated -/
theorem FD.entries {b : Nat} {h : Heap α} {o x : Nat} (hr : TReach h o x) :
    ∀ d, FD b h d o → ∀ e ∈ h.dicts (h.objs x).dct, e.2 < b := by
  induction hr with
  | refl o => intro d hd; cases d with
    | zero => exact hd.elim
    | succ d => exact fun e he => (hd.2.2.2.2 e he).1
  | step hm _ ih => intro d hd; cases d with
    | zero => exact hd.elim
    | succ d => exact ih d (hd.2.2.2.1 _ hm)

end PP.PRHeap
