import PPModel.Base.Regex
/-! Helper lemmas about the regex model (`PPModel/Base/Regex.lean`): fuel irrelevance of repetition,
    closed forms for repetitions of a one-character set, suffix property. -/
namespace PP.Regex
open Re

/-- repetition of a one-character set, without fuel (structural on the text) -/
def repSet (C : Char → Bool) : Nat → Option Nat → List Char → List (List Char)
  | mn, _, [] => if mn = 0 then [[]] else []
  | mn, mx, c :: t =>
    (if C c ∧ mx ≠ some 0 then repSet C (mn - 1) (mx.map (· - 1)) t else [])
      ++ (if mn = 0 then [c :: t] else [])

theorem repEnds_set (C : Char → Bool) (step : List Char → List (List Char))
    (h0 : step [] = []) (h1 : ∀ c t, step (c :: t) = if C c = true then [t] else []) :
    ∀ (f mn : Nat) (mx : Option Nat) (s : List Char), s.length < f →
    repEnds step true f mn mx s = repSet C mn mx s := by
  intro f
  induction f with
  | zero => intro mn mx s h; omega
  | succ f ih =>
    intro mn mx s h
    cases s with
    | nil =>
      simp only [repEnds, repSet, h0]
      cases mx <;> simp
    | cons c t =>
      simp only [repEnds, repSet, h1]
      by_cases hc : C c = true
      · by_cases hm : mx = some 0
        · simp [hm]
        · have hlt : t.length < f := by simp at h; omega
          simp [hc, hm, ih _ _ t hlt]
      · simp [hc]

theorem ends_rep_set (cs : CSet) (mn : Nat) (mx : Option Nat) (s : List Char) :
    Re.ends (.rep (.set cs) mn mx true) s = repSet cs.has mn mx s := by
  simp only [Re.ends]
  exact repEnds_set cs.has _ (by simp [Re.ends]) (by intro c t; simp [Re.ends]) _ _ _ _ (by omega)

/-- unbounded greedy repetition of a set: the preferred result is the maximal run -/
theorem repSet_none_head (C : Char → Bool) : ∀ (s : List Char) (mn : Nat),
    (repSet C mn none s).head? =
      if mn ≤ (s.takeWhile C).length then some (s.dropWhile C) else none := by
  intro s
  induction s with
  | nil => intro mn; cases mn <;> simp [repSet]
  | cons c t ih =>
    intro mn
    by_cases hc : C c = true
    · simp only [repSet, hc, List.takeWhile_cons, List.dropWhile_cons]
      simp only [Option.map_none, ne_eq, reduceCtorEq, not_false_eq_true, and_self, ↓reduceIte,
        List.length_cons]
      have := ih (mn - 1)
      by_cases h1 : mn - 1 ≤ (t.takeWhile C).length
      · rw [if_pos h1] at this
        have hne : repSet C (mn - 1) none t ≠ [] := by
          intro h; rw [h] at this; simp at this
        obtain ⟨a, l, hal⟩ := List.exists_cons_of_ne_nil hne
        rw [hal] at this
        rw [hal]; simp only [List.cons_append, List.head?_cons] at this ⊢
        rw [this, if_pos (by omega)]
      · rw [if_neg h1] at this
        have : repSet C (mn - 1) none t = [] := by
          cases h : repSet C (mn - 1) none t with
          | nil => rfl
          | cons a b => rw [h] at this; simp at this
        rw [this]
        have : mn ≠ 0 := by omega
        simp [this]; omega
    · cases mn <;> simp [repSet, hc]

theorem dropWhile_eq_nil_iff (C : Char → Bool) (s : List Char) :
    s.dropWhile C = [] ↔ ∀ c ∈ s, C c = true := by
  induction s with
  | nil => simp
  | cons c t ih =>
    by_cases hc : C c = true <;> simp [List.dropWhile_cons, hc, ih]

theorem takeWhile_length_of_all (C : Char → Bool) (s : List Char) (h : ∀ c ∈ s, C c = true) :
    (s.takeWhile C).length = s.length := by
  induction s with
  | nil => rfl
  | cons c t ih =>
    have hc : C c = true := h c (by simp)
    simp [List.takeWhile_cons, hc, ih (fun x hx => h x (by simp [hx]))]

/-- a greedy unbounded repetition of a set accepts exactly the runs of at least `mn` members -/
theorem accepts_rep_set (cs : CSet) (mn : Nat) (s : List Char) :
    (Re.rep (.set cs) mn none true).Accepts s ↔ mn ≤ s.length ∧ ∀ c ∈ s, cs.has c = true := by
  unfold Re.Accepts
  rw [ends_rep_set, repSet_none_head]
  constructor
  · intro h
    split at h
    · rename_i hle
      have hd : s.dropWhile cs.has = [] := by simpa using h
      have hall := (dropWhile_eq_nil_iff _ _).1 hd
      rw [takeWhile_length_of_all _ _ hall] at hle
      exact ⟨hle, hall⟩
    · simp at h
  · rintro ⟨hle, hall⟩
    rw [takeWhile_length_of_all _ _ hall, if_pos hle, (dropWhile_eq_nil_iff _ _).2 hall]

/-- optional one-character set followed by `b`: the preferred match takes the character if `b` can go on -/
theorem ends_opt_set (cs : CSet) (s : List Char) :
    Re.ends (Re.opt (.set cs)) s =
      match s with
      | [] => [[]]
      | c :: t => if cs.has c = true then [t, c :: t] else [c :: t] := by
  unfold Re.opt
  rw [ends_rep_set]
  cases s with
  | nil => simp [repSet]
  | cons c t =>
    by_cases hc : cs.has c = true
    · cases t <;> simp [repSet, hc]
    · simp [repSet, hc]

theorem accepts_seq_opt_set (cs : CSet) (b : Re) (s : List Char) :
    (Re.seq (Re.opt (.set cs)) b).Accepts s ↔
      match s with
      | [] => b.Accepts []
      | c :: t => if cs.has c = true then ((b.ends t).head?.or (b.ends (c :: t)).head?) = some []
                  else b.Accepts (c :: t) := by
  unfold Re.Accepts
  simp only [Re.ends]
  rw [ends_opt_set]
  cases s with
  | nil => simp
  | cons c t =>
    by_cases hc : cs.has c = true
    · simp [hc, List.head?_append]
    · simp [hc]

/-- greedy unbounded repetition of a set followed by something that cannot start with a member of the set:
    only the maximal run survives (no backtracking into the run can succeed) -/
theorem repSet_flatMap_noStart (C : Char → Bool) (k : List Char → List (List Char))
    (hk : ∀ c t, C c = true → k (c :: t) = []) : ∀ (s : List Char) (mn : Nat),
    (repSet C mn none s).flatMap k =
      if mn ≤ (s.takeWhile C).length then k (s.dropWhile C) else [] := by
  intro s
  induction s with
  | nil => intro mn; cases mn <;> simp [repSet]
  | cons c t ih =>
    intro mn
    by_cases hc : C c = true
    · simp only [repSet, hc, List.takeWhile_cons, List.dropWhile_cons]
      simp only [Option.map_none, ne_eq, reduceCtorEq, not_false_eq_true, and_self, ↓reduceIte,
        List.length_cons, List.flatMap_append]
      rw [ih (mn - 1)]
      have h2 : (if mn = 0 then [c :: t] else []).flatMap k = [] := by
        split <;> simp [hk c t hc]
      rw [h2, List.append_nil]
      by_cases h1 : mn - 1 ≤ (t.takeWhile C).length
      · rw [if_pos h1, if_pos (by omega)]
      · rw [if_neg h1, if_neg (by omega)]
    · cases mn <;> simp [repSet, hc]

theorem ends_seq_rep_set_noStart (cs : CSet) (b : Re) (mn : Nat) (s : List Char)
    (hb : ∀ c t, cs.has c = true → b.ends (c :: t) = []) :
    (Re.seq (.rep (.set cs) mn none true) b).ends s =
      if mn ≤ (s.takeWhile cs.has).length then b.ends (s.dropWhile cs.has) else [] := by
  show (Re.ends (.rep (.set cs) mn none true) s).flatMap (fun e => b.ends e) = _
  rw [ends_rep_set]
  exact repSet_flatMap_noStart cs.has (fun e => b.ends e) hb s mn

theorem ends_seq_set (cs : CSet) (b : Re) (s : List Char) :
    (Re.seq (.set cs) b).ends s =
      match s with
      | [] => []
      | c :: t => if cs.has c = true then b.ends t else [] := by
  cases s with
  | nil => simp [Re.ends]
  | cons c t => by_cases hc : cs.has c = true <;> simp [Re.ends, hc]

theorem mem_takeWhile_sat (p : Char → Bool) : ∀ (l : List Char) (y : Char), y ∈ l.takeWhile p → p y = true := by
  intro l
  induction l with
  | nil => intro y h; simp at h
  | cons c t ih =>
    intro y h
    by_cases hc : p c = true
    · simp [List.takeWhile_cons, hc] at h
      rcases h with rfl | h
      · exact hc
      · exact ih y h
    · simp [List.takeWhile_cons, hc] at h

theorem ends_set (cs : CSet) (s : List Char) :
    (Re.set cs).ends s =
      match s with
      | [] => []
      | c :: t => if cs.has c = true then [t] else [] := by
  cases s <;> simp [Re.ends]

/-! ## general facts: results are never longer than the input; fuel irrelevance; bounded repetitions -/

theorem flatMap_congr_mem {α β : Type} (l : List α) (f g : α → List β) (h : ∀ a ∈ l, f a = g a) :
    l.flatMap f = l.flatMap g := by
  induction l with
  | nil => rfl
  | cons a t ih =>
    simp only [List.flatMap_cons]
    rw [h a (by simp), ih (fun x hx => h x (by simp [hx]))]

theorem repEnds_length_le (step : List Char → List (List Char)) (g : Bool)
    (hstep : ∀ s e, e ∈ step s → e.length ≤ s.length) :
    ∀ (f mn : Nat) (mx : Option Nat) (s e : List Char), e ∈ repEnds step g f mn mx s → e.length ≤ s.length := by
  intro f
  induction f with
  | zero => intro mn mx s e h; simp [repEnds] at h
  | succ f ih =>
    intro mn mx s e h
    simp only [repEnds] at h
    have hmore : ∀ e, e ∈ (if (mx == some 0) = true then ([] : List (List Char)) else
        (step s).flatMap (fun e' => if e'.length < s.length then repEnds step g f (mn - 1) (mx.map (· - 1)) e'
          else [e'])) → e.length ≤ s.length := by
      intro e he
      split at he
      · simp at he
      · rw [List.mem_flatMap] at he
        obtain ⟨e', he', hin⟩ := he
        have h1 := hstep s e' he'
        split at hin
        · have := ih _ _ _ _ hin; omega
        · simp at hin; subst hin; exact h1
    have hstop : ∀ e, e ∈ (if (mn == 0) = true then [s] else ([] : List (List Char))) → e.length ≤ s.length := by
      intro e he; split at he <;> simp at he; subst he; exact Nat.le_refl _
    cases g
    · simp only [Bool.false_eq_true, ↓reduceIte, List.mem_append] at h
      rcases h with h | h
      · exact hstop e h
      · exact hmore e h
    · simp only [↓reduceIte, List.mem_append] at h
      rcases h with h | h
      · exact hmore e h
      · exact hstop e h

theorem ends_length_le : ∀ (r : Re) (s e : List Char), e ∈ r.ends s → e.length ≤ s.length := by
  intro r
  induction r with
  | eps => intro s e h; simp [Re.ends] at h; subst h; exact Nat.le_refl _
  | set cs =>
    intro s e h
    cases s with
    | nil => simp [Re.ends] at h
    | cons c t =>
      simp only [Re.ends] at h
      split at h <;> simp at h
      subst h; simp
  | seq a b iha ihb =>
    intro s e h
    simp only [Re.ends, List.mem_flatMap] at h
    obtain ⟨e', h1, h2⟩ := h
    have := iha _ _ h1; have := ihb _ _ h2; omega
  | alt a b iha ihb =>
    intro s e h
    simp only [Re.ends, List.mem_append] at h
    rcases h with h | h
    · exact iha _ _ h
    · exact ihb _ _ h
  | rep r mn mx g ih =>
    intro s e h
    simp only [Re.ends] at h
    exact repEnds_length_le _ g (fun s e he => ih s e he) _ _ _ _ _ h
  | grp i r ih => intro s e h; simp only [Re.ends] at h; exact ih _ _ h
  | bref i ci => intro s e h; simp [Re.ends] at h
  | look neg r ih =>
    intro s e h
    simp only [Re.ends] at h
    split at h <;> split at h <;> simp at h <;> (subst h; exact Nat.le_refl _)
  | bol ml => intro s e h; simp [Re.ends] at h
  | eol ml => intro s e h; simp [Re.ends] at h
  | wordb neg => intro s e h; simp [Re.ends] at h

/-- a pattern that starts with a one-character set always makes progress -/
theorem seq_set_progress (cs : CSet) (y : Re) (s e : List Char) (h : e ∈ (Re.seq (.set cs) y).ends s) :
    e.length < s.length := by
  rw [ends_seq_set] at h
  cases s with
  | nil => simp at h
  | cons c t =>
    simp only at h
    split at h
    · have := ends_length_le y t e h; simp; omega
    · simp at h

theorem repEnds_fuel (step : List Char → List (List Char)) (g : Bool) :
    ∀ (f f' mn : Nat) (mx : Option Nat) (s : List Char), s.length < f → s.length < f' →
      repEnds step g f mn mx s = repEnds step g f' mn mx s := by
  intro f
  induction f with
  | zero => intro f' mn mx s h; omega
  | succ f ih =>
    intro f' mn mx s h h'
    cases f' with
    | zero => omega
    | succ f' =>
      simp only [repEnds]
      have : (step s).flatMap (fun e' => if e'.length < s.length then repEnds step g f (mn - 1) (mx.map (· - 1)) e'
            else [e']) =
          (step s).flatMap (fun e' => if e'.length < s.length then repEnds step g f' (mn - 1) (mx.map (· - 1)) e'
            else [e']) := by
        apply flatMap_congr_mem
        intro e' _
        by_cases hl : e'.length < s.length
        · rw [if_pos hl, if_pos hl]; exact ih f' _ _ e' (by omega) (by omega)
        · rw [if_neg hl, if_neg hl]
      rw [this]

theorem repEnds_exact_step (step : List Char → List (List Char)) (g : Bool) (f k : Nat) (s : List Char) :
    repEnds step g (f + 1) (k + 1) (some (k + 1)) s =
      (step s).flatMap (fun e' => if e'.length < s.length then repEnds step g f k (some k) e' else [e']) := by
  simp only [repEnds]; cases g <;> simp

theorem repEnds_opt_step (step : List Char → List (List Char)) (f : Nat) (s : List Char) :
    repEnds step true (f + 1) 0 (some 1) s =
      (step s).flatMap (fun e' => if e'.length < s.length then repEnds step true f 0 (some 0) e' else [e']) ++ [s] := by
  simp only [repEnds]; simp

theorem flatMap_singleton' {α : Type} (l : List α) : l.flatMap (fun e => [e]) = l := by
  induction l with
  | nil => rfl
  | cons a t ih => simp [List.flatMap_cons, ih]

/-- `x?` (greedy) when every match of `x` consumes something: the matches of `x`, then the empty match -/
theorem ends_opt_progress (x : Re) (s : List Char) (hp : ∀ e ∈ x.ends s, e.length < s.length) :
    (Re.opt x).ends s = x.ends s ++ [s] := by
  unfold Re.opt
  simp only [Re.ends]
  rw [repEnds_opt_step]
  have h2 : (x.ends s).flatMap (fun e' => if e'.length < s.length then
        repEnds (fun y => x.ends y) true s.length 0 (some 0) e' else [e']) =
        (x.ends s).flatMap (fun e' => [e']) := by
    apply flatMap_congr_mem
    intro e' he'
    have hl := hp e' he'
    rw [if_pos hl]
    cases hs : s.length with
    | zero => omega
    | succ n => simp [repEnds]
  rw [h2, flatMap_singleton']

theorem ends_rep_exact_zero (r : Re) (g : Bool) (s : List Char) : (Re.rep r 0 (some 0) g).ends s = [s] := by
  simp only [Re.ends, repEnds]; cases g <;> simp

theorem ends_rep_exact_succ (r : Re) (g : Bool) (k : Nat) (s : List Char)
    (hp : ∀ e ∈ r.ends s, e.length < s.length) :
    (Re.rep r (k + 1) (some (k + 1)) g).ends s = (r.ends s).flatMap (fun e => (Re.rep r k (some k) g).ends e) := by
  simp only [Re.ends]
  rw [repEnds_exact_step]
  apply flatMap_congr_mem
  intro e' he'
  have hl := hp e' he'
  rw [if_pos hl]
  exact repEnds_fuel _ g _ _ _ _ _ hl (by omega)

/-! ## deterministic pieces: patterns with at most one way to match -/

/-- exactly `n` members of `C` -/
def takeN (C : Char → Bool) : Nat → List Char → Option (List Char)
  | 0, s => some s
  | _+1, [] => none
  | n+1, c :: t => if C c = true then takeN C n t else none

theorem repSet_exact (C : Char → Bool) : ∀ (n : Nat) (s : List Char),
    repSet C n (some n) s = (takeN C n s).toList := by
  intro n
  induction n with
  | zero => intro s; cases s <;> simp [repSet, takeN]
  | succ n ih =>
    intro s
    cases s with
    | nil => simp [repSet, takeN]
    | cons c t =>
      by_cases hc : C c = true
      · simp [repSet, takeN, hc, ih t]
      · simp [repSet, takeN, hc]

theorem takeN_some (C : Char → Bool) : ∀ (n : Nat) (s e : List Char),
    takeN C n s = some e ↔ ∃ w, s = w ++ e ∧ w.length = n ∧ ∀ c ∈ w, C c = true := by
  intro n
  induction n with
  | zero =>
    intro s e
    simp only [takeN, Option.some.injEq]
    constructor
    · rintro rfl; exact ⟨[], rfl, rfl, by simp⟩
    · rintro ⟨w, h, hl, _⟩
      have : w = [] := List.eq_nil_of_length_eq_zero hl
      subst this; simpa using h
  | succ n ih =>
    intro s e
    cases s with
    | nil =>
      simp only [takeN]
      constructor
      · intro h; simp at h
      · rintro ⟨w, h, hl, _⟩
        have := congrArg List.length h; simp at this; omega
    | cons c t =>
      simp only [takeN]
      by_cases hc : C c = true
      · rw [if_pos hc, ih]
        constructor
        · rintro ⟨w, h, hl, hw⟩
          refine ⟨c :: w, by simp [h], by simp [hl], ?_⟩
          intro x hx; simp at hx; rcases hx with rfl | hx
          · exact hc
          · exact hw x hx
        · rintro ⟨w, h, hl, hw⟩
          cases w with
          | nil => simp at hl
          | cons a w' =>
            simp at h
            exact ⟨w', h.2, by simpa using hl, fun x hx => hw x (by simp [hx])⟩
      · rw [if_neg hc]
        constructor
        · intro h; simp at h
        · rintro ⟨w, h, hl, hw⟩
          cases w with
          | nil => simp at hl
          | cons a w' =>
            simp at h
            exact absurd (h.1 ▸ hw a (by simp)) hc

/-- `r` has at most one match at every position, given by `f` -/
def Det (r : Re) (f : List Char → Option (List Char)) : Prop := ∀ s, r.ends s = (f s).toList

theorem det_exact_set (cs : CSet) (n : Nat) : Det (Re.exactly n (.set cs)) (takeN cs.has n) := by
  intro s; unfold Re.exactly; rw [ends_rep_set, repSet_exact]

def expect (C : Char → Bool) : List Char → Option (List Char)
  | [] => none
  | c :: t => if C c = true then some t else none

theorem det_set (cs : CSet) : Det (.set cs) (expect cs.has) := by
  intro s; cases s with
  | nil => simp [Re.ends, expect]
  | cons c t => by_cases hc : cs.has c = true <;> simp [Re.ends, expect, hc]

theorem expect_some (C : Char → Bool) (s e : List Char) :
    expect C s = some e ↔ ∃ c, s = c :: e ∧ C c = true := by
  cases s with
  | nil => simp [expect]
  | cons c t =>
    by_cases hc : C c = true
    · simp only [expect, if_pos hc, Option.some.injEq]
      constructor
      · rintro rfl; exact ⟨c, rfl, hc⟩
      · rintro ⟨c', h, _⟩; simp at h; exact h.2
    · simp only [expect, if_neg hc]
      constructor
      · intro h; simp at h
      · rintro ⟨c', h, hc'⟩; simp at h; exact absurd (h.1 ▸ hc') hc

theorem det_seq {a b : Re} {fa fb} (ha : Det a fa) (hb : Det b fb) :
    Det (.seq a b) (fun s => (fa s).bind fb) := by
  intro s
  simp only [Re.ends, ha s]
  cases fa s with
  | none => simp
  | some e => simp [hb e]

theorem det_grp {r : Re} {f} (i : Nat) (h : Det r f) : Det (.grp i r) f := by
  intro s; simp only [Re.ends]; exact h s

def iter (f : List Char → Option (List Char)) : Nat → List Char → Option (List Char)
  | 0, s => some s
  | k+1, s => (f s).bind (iter f k)

theorem det_exact {r : Re} {f} (h : Det r f) (hp : ∀ s e, f s = some e → e.length < s.length) (g : Bool) :
    ∀ k, Det (.rep r k (some k) g) (iter f k) := by
  intro k
  induction k with
  | zero => intro s; rw [ends_rep_exact_zero]; simp [iter]
  | succ k ih =>
    intro s
    rw [ends_rep_exact_succ r g k s (by intro e he; rw [h s] at he; exact hp s e (by simpa using he))]
    rw [h s]
    cases hf : f s with
    | none => simp [iter, hf]
    | some e => simp [iter, hf, ih e]

theorem det_accepts {r : Re} {f} (h : Det r f) (s : List Char) : r.Accepts s ↔ f s = some [] := by
  unfold Re.Accepts; rw [h s]; cases f s <;> simp

theorem takeN_length (C : Char → Bool) (n : Nat) (s e : List Char) (h : takeN C n s = some e) :
    e.length + n = s.length := by
  obtain ⟨w, rfl, hl, _⟩ := (takeN_some C n s e).1 h
  simp; omega

/-! ## continuations that always match: the preferred path is the greedy one -/

def Total (r : Re) : Prop := ∀ s, r.ends s ≠ []

theorem head?_flatMap_total {l : List (List Char)} {k : List Char → List (List Char)} (hk : ∀ a, k a ≠ []) :
    (l.flatMap k).head? = l.head?.bind (fun a => (k a).head?) := by
  cases l with
  | nil => rfl
  | cons a t =>
    obtain ⟨b, bs, hb⟩ := List.exists_cons_of_ne_nil (hk a)
    simp [List.flatMap_cons, hb]

theorem head_seq_total (a b : Re) (hb : Total b) (s : List Char) :
    ((Re.seq a b).ends s).head? = (a.ends s).head?.bind (fun e => (b.ends e).head?) := by
  simp only [Re.ends]; exact head?_flatMap_total hb

theorem total_seq {a b : Re} (ha : Total a) (hb : Total b) : Total (.seq a b) := by
  intro s h
  simp only [Re.ends] at h
  obtain ⟨e, es, he⟩ := List.exists_cons_of_ne_nil (ha s)
  rw [he] at h
  simp at h
  exact hb e h.1

theorem total_star_set (cs : CSet) : Total (Re.star (.set cs)) := by
  intro s
  unfold Re.star
  rw [ends_rep_set]
  cases s <;> simp [repSet]

theorem total_opt_set (cs : CSet) : Total (Re.opt (.set cs)) := by
  intro s
  rw [ends_opt_set]
  cases s with
  | nil => simp
  | cons c t => by_cases hc : cs.has c = true <;> simp [hc]

theorem total_opt_progress (x : Re) (hp : ∀ s e, e ∈ x.ends s → e.length < s.length) : Total (Re.opt x) := by
  intro s
  rw [ends_opt_progress x s (hp s)]
  simp

theorem dropWhile_append_stop (p : Char → Bool) (b ex : List Char) (hb : ∀ c ∈ b, p c = true)
    (hex : ex = [] ∨ ∃ c t, ex = c :: t ∧ p c = false) :
    (b ++ ex).dropWhile p = ex ∧ (b ++ ex).takeWhile p = b := by
  have h1 : ex.dropWhile p = ex ∧ ex.takeWhile p = [] := by
    rcases hex with rfl | ⟨c, t, rfl, hc⟩
    · simp
    · simp [List.dropWhile_cons, List.takeWhile_cons, hc]
  constructor
  · rw [List.dropWhile_append_of_pos hb, h1.1]
  · rw [List.takeWhile_append_of_pos hb, h1.2, List.append_nil]

theorem dropWhile_head_not (p : Char → Bool) (x : List Char) :
    x.dropWhile p = [] ∨ ∃ c t, x.dropWhile p = c :: t ∧ p c = false := by
  induction x with
  | nil => left; rfl
  | cons a t ih =>
    by_cases ha : p a = true
    · simpa [List.dropWhile_cons, ha] using ih
    · right; exact ⟨a, t, by simp [List.dropWhile_cons, ha], by simpa using ha⟩

end PP.Regex
