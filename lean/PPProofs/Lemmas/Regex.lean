import PPModel.Base.Regex
/-! Helper lemmas about the regex model (`PPModel/Base/Regex.lean`): fuel irrelevance of repetition,
    closed forms for repetitions of a one-character set, suffix property. -/
namespace PP.Regex
open Re

/-- repetition of a one-character set, without fuel (structural on the text) -/
def repSet (C : Char → Bool) : Nat → Option Nat → List Char → List (List Char)
  | mn, _, [] => if mn = 0 then [[]] else []
  | mn, mx, c :: t =>
    (if C c ∧ mx ≠ some 0 then repSet C (mn - 1) (mx.map (· - 1)) t else [])
      ++ (if mn = 0 then [c :: t] else [])

theorem repEnds_set (C : Char → Bool) (step : List Char → List (List Char))
    (h0 : step [] = []) (h1 : ∀ c t, step (c :: t) = if C c = true then [t] else []) :
    ∀ (f mn : Nat) (mx : Option Nat) (s : List Char), s.length < f →
    repEnds step true f mn mx s = repSet C mn mx s := by
  intro f
  induction f with
  | zero => intro mn mx s h; omega
  | succ f ih =>
    intro mn mx s h
    cases s with
    | nil =>
      simp only [repEnds, repSet, h0]
      cases mx <;> simp
    | cons c t =>
      simp only [repEnds, repSet, h1]
      by_cases hc : C c = true
      · by_cases hm : mx = some 0
        · simp [hm]
        · have hlt : t.length < f := by simp at h; omega
          simp [hc, hm, ih _ _ t hlt]
      · simp [hc]

theorem ends_rep_set (cs : CSet) (mn : Nat) (mx : Option Nat) (s : List Char) :
    Re.ends (.rep (.set cs) mn mx true) s = repSet cs.has mn mx s := by
  simp only [Re.ends]
  exact repEnds_set cs.has _ (by simp [Re.ends]) (by intro c t; simp [Re.ends]) _ _ _ _ (by omega)

/-- unbounded greedy repetition of a set: the preferred result is the maximal run -/
theorem repSet_none_head (C : Char → Bool) : ∀ (s : List Char) (mn : Nat),
    (repSet C mn none s).head? =
      if mn ≤ (s.takeWhile C).length then some (s.dropWhile C) else none := by
  intro s
  induction s with
  | nil => intro mn; cases mn <;> simp [repSet]
  | cons c t ih =>
    intro mn
    by_cases hc : C c = true
    · simp only [repSet, hc, List.takeWhile_cons, List.dropWhile_cons]
      simp only [Option.map_none, ne_eq, reduceCtorEq, not_false_eq_true, and_self, ↓reduceIte,
        List.length_cons]
      have := ih (mn - 1)
      by_cases h1 : mn - 1 ≤ (t.takeWhile C).length
      · rw [if_pos h1] at this
        have hne : repSet C (mn - 1) none t ≠ [] := by
          intro h; rw [h] at this; simp at this
        obtain ⟨a, l, hal⟩ := List.exists_cons_of_ne_nil hne
        rw [hal] at this
        rw [hal]; simp only [List.cons_append, List.head?_cons] at this ⊢
        rw [this, if_pos (by omega)]
      · rw [if_neg h1] at this
        have : repSet C (mn - 1) none t = [] := by
          cases h : repSet C (mn - 1) none t with
          | nil => rfl
          | cons a b => rw [h] at this; simp at this
        rw [this]
        have : mn ≠ 0 := by omega
        simp [this]; omega
    · cases mn <;> simp [repSet, hc]

theorem dropWhile_eq_nil_iff (C : Char → Bool) (s : List Char) :
    s.dropWhile C = [] ↔ ∀ c ∈ s, C c = true := by
  induction s with
  | nil => simp
  | cons c t ih =>
    by_cases hc : C c = true <;> simp [List.dropWhile_cons, hc, ih]

theorem takeWhile_length_of_all (C : Char → Bool) (s : List Char) (h : ∀ c ∈ s, C c = true) :
    (s.takeWhile C).length = s.length := by
  induction s with
  | nil => rfl
  | cons c t ih =>
    have hc : C c = true := h c (by simp)
    simp [List.takeWhile_cons, hc, ih (fun x hx => h x (by simp [hx]))]

/-- a greedy unbounded repetition of a set accepts exactly the runs of at least `mn` members -/
theorem accepts_rep_set (cs : CSet) (mn : Nat) (s : List Char) :
    (Re.rep (.set cs) mn none true).Accepts s ↔ mn ≤ s.length ∧ ∀ c ∈ s, cs.has c = true := by
  unfold Re.Accepts
  rw [ends_rep_set, repSet_none_head]
  constructor
  · intro h
    split at h
    · rename_i hle
      have hd : s.dropWhile cs.has = [] := by simpa using h
      have hall := (dropWhile_eq_nil_iff _ _).1 hd
      rw [takeWhile_length_of_all _ _ hall] at hle
      exact ⟨hle, hall⟩
    · simp at h
  · rintro ⟨hle, hall⟩
    rw [takeWhile_length_of_all _ _ hall, if_pos hle, (dropWhile_eq_nil_iff _ _).2 hall]

/-- optional one-character set followed by `b`: the preferred match takes the character if `b` can go on -/
theorem ends_opt_set (cs : CSet) (s : List Char) :
    Re.ends (Re.opt (.set cs)) s =
      match s with
      | [] => [[]]
      | c :: t => if cs.has c = true then [t, c :: t] else [c :: t] := by
  unfold Re.opt
  rw [ends_rep_set]
  cases s with
  | nil => simp [repSet]
  | cons c t =>
    by_cases hc : cs.has c = true
    · cases t <;> simp [repSet, hc]
    · simp [repSet, hc]

theorem accepts_seq_opt_set (cs : CSet) (b : Re) (s : List Char) :
    (Re.seq (Re.opt (.set cs)) b).Accepts s ↔
      match s with
      | [] => b.Accepts []
      | c :: t => if cs.has c = true then ((b.ends t).head?.or (b.ends (c :: t)).head?) = some []
                  else b.Accepts (c :: t) := by
  unfold Re.Accepts
  simp only [Re.ends]
  rw [ends_opt_set]
  cases s with
  | nil => simp
  | cons c t =>
    by_cases hc : cs.has c = true
    · simp [hc, List.head?_append]
    · simp [hc]

/-- greedy unbounded repetition of a set followed by something that cannot start with a member of the set:
    only the maximal run survives (no backtracking into the run can succeed) -/
theorem repSet_flatMap_noStart (C : Char → Bool) (k : List Char → List (List Char))
    (hk : ∀ c t, C c = true → k (c :: t) = []) : ∀ (s : List Char) (mn : Nat),
    (repSet C mn none s).flatMap k =
      if mn ≤ (s.takeWhile C).length then k (s.dropWhile C) else [] := by
  intro s
  induction s with
  | nil => intro mn; cases mn <;> simp [repSet]
  | cons c t ih =>
    intro mn
    by_cases hc : C c = true
    · simp only [repSet, hc, List.takeWhile_cons, List.dropWhile_cons]
      simp only [Option.map_none, ne_eq, reduceCtorEq, not_false_eq_true, and_self, ↓reduceIte,
        List.length_cons, List.flatMap_append]
      rw [ih (mn - 1)]
      have h2 : (if mn = 0 then [c :: t] else []).flatMap k = [] := by
        split <;> simp [hk c t hc]
      rw [h2, List.append_nil]
      by_cases h1 : mn - 1 ≤ (t.takeWhile C).length
      · rw [if_pos h1, if_pos (by omega)]
      · rw [if_neg h1, if_neg (by omega)]
    · cases mn <;> simp [repSet, hc]

theorem ends_seq_rep_set_noStart (cs : CSet) (b : Re) (mn : Nat) (s : List Char)
    (hb : ∀ c t, cs.has c = true → b.ends (c :: t) = []) :
    (Re.seq (.rep (.set cs) mn none true) b).ends s =
      if mn ≤ (s.takeWhile cs.has).length then b.ends (s.dropWhile cs.has) else [] := by
  show (Re.ends (.rep (.set cs) mn none true) s).flatMap (fun e => b.ends e) = _
  rw [ends_rep_set]
  exact repSet_flatMap_noStart cs.has (fun e => b.ends e) hb s mn

theorem ends_seq_set (cs : CSet) (b : Re) (s : List Char) :
    (Re.seq (.set cs) b).ends s =
      match s with
      | [] => []
      | c :: t => if cs.has c = true then b.ends t else [] := by
  cases s with
  | nil => simp [Re.ends]
  | cons c t => by_cases hc : cs.has c = true <;> simp [Re.ends, hc]

theorem mem_takeWhile_sat (p : Char → Bool) : ∀ (l : List Char) (y : Char), y ∈ l.takeWhile p → p y = true := by
  intro l
  induction l with
  | nil => intro y h; simp at h
  | cons c t ih =>
    intro y h
    by_cases hc : p c = true
    · simp [List.takeWhile_cons, hc] at h
      rcases h with rfl | h
      · exact hc
      · exact ih y h
    · simp [List.takeWhile_cons, hc] at h

theorem ends_set (cs : CSet) (s : List Char) :
    (Re.set cs).ends s =
      match s with
      | [] => []
      | c :: t => if cs.has c = true then [t] else [] := by
  cases s <;> simp [Re.ends]

end PP.Regex
