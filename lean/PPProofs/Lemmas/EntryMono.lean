import PPProofs.Lemmas.ParseMono
/-! Entry points are monotone in the parse function they run on. -/
namespace PP.Parse

theorem parseString_mono {p q : P} (hle : Le p q) (g : Grammar) (root : Nat) (dw s : List Char) (pa : Bool)
    (h : parseString p g root dw s pa ≠ .hang) :
    parseString q g root dw s pa = parseString p g root dw s pa := by
  unfold parseString at h ⊢
  by_cases hh : p root 0 true true = .hang
  · simp [hh] at h
  · rw [hle.eq hh]
    generalize p root 0 true true = r at h hh
    cases r with
    | ok l ts =>
      simp only at h ⊢
      split
      · rename_i hpa
        simp only [hpa, if_true] at h
        cases hg : g[root]? with
        | none => rfl
        | some nd =>
          simp only [hg] at h ⊢
          have hp : (preParse p nd s l).isHang = false := by
            cases hpr : preParse p nd s l with
            | «at» l => rfl
            | abort o => rw [hpr] at h; cases o <;> simp [PreR.isHang] at h ⊢
          rw [preParse_mono hle _ _ _ hp]
      · rfl
    | fail c l => rfl
    | idx => rfl
    | hang => exact absurd rfl hh

def ScanR.isHang (r : ScanR) : Bool :=
  match r.exc with
  | some .hang => true
  | _ => false

theorem scanPre_mono {p q : P} (hle : Le p q) (nd : Node) (sk : Bool) (s : List Char) (loc : Nat)
    (h : (scanPre p nd sk s loc).isHang = false) : scanPre q nd sk s loc = scanPre p nd sk s loc := by
  unfold scanPre at h ⊢
  split
  · rename_i hs; simp only [hs, if_true] at h; exact preParse_mono hle _ _ _ h
  · rename_i hs; simp only [hs] at h; exact preParse_mono hle _ _ _ h

theorem scanLoop_mono {p q : P} (hle : Le p q) (nd : Node) (root : Nat) (s : List Char) (sk ov : Bool) :
    ∀ k loc left acc, (scanLoop p nd root s sk ov k loc left acc).isHang = false →
      scanLoop q nd root s sk ov k loc left acc = scanLoop p nd root s sk ov k loc left acc := by
  intro k
  induction k with
  | zero => intro loc left acc h; simp [scanLoop, ScanR.isHang] at h
  | succ k ih =>
    intro loc left acc h
    unfold scanLoop at h ⊢
    by_cases hc : (decide (loc > s.length) || left == 0) = true
    · simp only [hc, if_true]
    · simp only [hc, if_false, Bool.false_eq_true] at h ⊢
      have hp : (scanPre p nd sk s loc).isHang = false := by
        cases hpr : scanPre p nd sk s loc with
        | «at» l => rfl
        | abort o => rw [hpr] at h; cases o <;> (try (rename_i c l; cases c)) <;> simp [PreR.isHang, ScanR.isHang] at h ⊢
      rw [scanPre_mono hle _ _ _ _ hp]
      generalize scanPre p nd sk s loc = pr at h hp
      cases pr with
      | abort o => cases o <;> first | rfl | (rename_i c l; cases c <;> rfl)
      | «at» preloc =>
        simp only at h ⊢
        by_cases hh : p root preloc true false = .hang
        · simp [hh, ScanR.isHang] at h
        · rw [hle.eq hh]
          generalize p root preloc true false = r at h hh
          cases r with
          | ok nl ts =>
            simp only at h ⊢
            by_cases hgt : nl > loc
            · simp only [hgt, if_true] at h ⊢
              cases ov with
              | false => simp only [Bool.false_eq_true, if_false] at h ⊢; exact ih _ _ _ h
              | true => simp only [if_true] at h ⊢; exact ih _ _ _ h
            · simp only [hgt, if_false] at h ⊢; exact ih _ _ _ h
          | fail c l => cases c <;> first | rfl | exact ih _ _ _ h
          | idx => rfl
          | hang => exact absurd rfl hh

theorem scanString_mono {p q : P} (hle : Le p q) (g : Grammar) (root : Nat) (s : List Char) (mm : Nat)
    (sk ov : Bool) (h : (scanString p g root s mm sk ov).isHang = false) :
    scanString q g root s mm sk ov = scanString p g root s mm sk ov := by
  unfold scanString at h ⊢
  cases hg : g[root]? with
  | none => rfl
  | some nd => simp only [hg] at h ⊢; exact scanLoop_mono hle _ _ _ _ _ _ _ _ _ h

end PP.Parse
