import PPModel.Mod.Entry
/-!
# Fuel monotonicity of the parse model

`Le p q`: wherever `p` gives a non-`hang` outcome, `q` gives the same one.  Every helper of the model
is monotone in its closure argument; hence `parse g s f ≤ parse g s (f+1)` and a non-`hang` outcome is
independent of the fuel (`parse_mono`, `parse_fuel_irrelevant`).
-/
namespace PP.Parse

def Le (p q : P) : Prop := ∀ e loc a c o, p e loc a c = o → o ≠ .hang → q e loc a c = o

theorem Le.refl (p : P) : Le p p := fun _ _ _ _ _ h _ => h

theorem Le.trans {p q r : P} (h1 : Le p q) (h2 : Le q r) : Le p r :=
  fun e loc a c o h hn => h2 e loc a c o (h1 e loc a c o h hn) hn

theorem tryParse_mono {p q : P} (hle : Le p q) (e loc : Nat) (rf da : Bool) (o : Out)
    (h : tryParse p e loc rf da = o) (hn : o ≠ .hang) : tryParse q e loc rf da = o := by
  unfold tryParse at h ⊢
  cases hp : p e loc da true with
  | hang => rw [hp] at h; subst h; exact absurd rfl hn
  | ok l ts => rw [hle _ _ _ _ _ hp (by simp)]; rw [hp] at h; exact h
  | fail c l => rw [hle _ _ _ _ _ hp (by simp)]; rw [hp] at h; exact h
  | idx => rw [hle _ _ _ _ _ hp (by simp)]; rw [hp] at h; exact h

theorem canParseNext_mono {p q : P} (hle : Le p q) (e loc : Nat) (da : Bool) (b : Bool)
    (h : canParseNext p e loc da = some b) : canParseNext q e loc da = some b := by
  unfold canParseNext at h ⊢
  cases ht : tryParse p e loc false da with
  | hang => rw [ht] at h; simp at h
  | ok l ts => rw [tryParse_mono hle _ _ _ _ _ ht (by simp)]; rw [ht] at h; exact h
  | fail c l => rw [tryParse_mono hle _ _ _ _ _ ht (by simp)]; rw [ht] at h; exact h
  | idx => rw [tryParse_mono hle _ _ _ _ _ ht (by simp)]; rw [ht] at h; exact h

end PP.Parse

namespace PP.Parse

theorem Le.eq {p q : P} (hle : Le p q) {e loc : Nat} {a c : Bool} (hh : p e loc a c ≠ .hang) :
    q e loc a c = p e loc a c := hle _ _ _ _ _ rfl hh

def PreR.isHang : PreR → Bool
  | .abort .hang => true
  | _ => false

theorem ignoreOne_mono {p q : P} (hle : Le p q) (e : Nat) :
    ∀ k loc found, (ignoreOne p e k loc found).1.isHang = false →
      ignoreOne q e k loc found = ignoreOne p e k loc found := by
  intro k
  induction k with
  | zero => intro loc found h; simp [ignoreOne, PreR.isHang] at h
  | succ k ih =>
    intro loc found h
    unfold ignoreOne at h ⊢
    by_cases hh : p e loc true true = .hang
    · simp [hh, PreR.isHang] at h
    · rw [hle.eq hh]
      generalize p e loc true true = r at h hh
      cases r with
      | ok l ts =>
        simp only at h ⊢
        split
        · rfl
        · rename_i hl; simp only [hl, if_false] at h; exact ih _ _ h
      | fail c l => cases c <;> rfl
      | idx => rfl
      | hang => exact absurd rfl hh

end PP.Parse

namespace PP.Parse

theorem ignorePass_mono {p q : P} (hle : Le p q) (slen : Nat) :
    ∀ es loc found, (ignorePass p slen es loc found).1.isHang = false →
      ignorePass q slen es loc found = ignorePass p slen es loc found := by
  intro es
  induction es with
  | nil => intro loc found _; rfl
  | cons e es ih =>
    intro loc found h
    unfold ignorePass at h ⊢
    by_cases hh : (ignoreOne p e (slen + 2) loc found).1.isHang = false
    · rw [ignoreOne_mono hle e _ _ _ hh]
      generalize ignoreOne p e (slen + 2) loc found = r at h hh
      rcases r with ⟨r, f⟩
      cases r with
      | «at» l => exact ih _ _ h
      | abort o => rfl
    · generalize ignoreOne p e (slen + 2) loc found = r at h hh
      rcases r with ⟨r, f⟩
      cases r with
      | «at» l => simp [PreR.isHang] at hh
      | abort o => simp only at h; exact absurd h hh

theorem skipIgnorables_mono {p q : P} (hle : Le p q) (slen : Nat) (ign : List Nat) :
    ∀ k loc, (skipIgnorables p slen ign k loc).isHang = false →
      skipIgnorables q slen ign k loc = skipIgnorables p slen ign k loc := by
  intro k
  induction k with
  | zero => intro loc h; simp [skipIgnorables, PreR.isHang] at h
  | succ k ih =>
    intro loc h
    unfold skipIgnorables at h ⊢
    by_cases hh : (ignorePass p slen ign loc false).1.isHang = false
    · rw [ignorePass_mono hle slen _ _ _ hh]
      generalize ignorePass p slen ign loc false = r at h hh
      rcases r with ⟨r, f⟩
      cases r with
      | «at» l =>
        simp only at h ⊢
        split
        · rfl
        · rename_i hc; simp only [hc] at h; exact ih _ h
      | abort o => rfl
    · generalize ignorePass p slen ign loc false = r at h hh
      rcases r with ⟨r, f⟩
      cases r with
      | «at» l => simp [PreR.isHang] at hh
      | abort o => simp only at h; exact absurd h hh

theorem preParse_mono {p q : P} (hle : Le p q) (nd : Node) (s : List Char) (loc : Nat)
    (h : (preParse p nd s loc).isHang = false) : preParse q nd s loc = preParse p nd s loc := by
  unfold preParse at h ⊢
  split
  · rfl
  · by_cases hi : nd.ignore.isEmpty = true
    · simp only [hi, if_true]
    · simp only [hi] at h ⊢
      by_cases hh : (skipIgnorables p s.length nd.ignore (s.length + 2) loc).isHang = false
      · rw [skipIgnorables_mono hle _ _ _ _ hh]
      · generalize skipIgnorables p s.length nd.ignore (s.length + 2) loc = r at h hh
        cases r with
        | «at» l => simp [PreR.isHang] at hh
        | abort o => exact absurd h hh

end PP.Parse

namespace PP.Parse

theorem tryParse_eq {p q : P} (hle : Le p q) {e loc : Nat} {rf da : Bool}
    (h : tryParse p e loc rf da ≠ .hang) : tryParse q e loc rf da = tryParse p e loc rf da :=
  tryParse_mono hle _ _ _ _ _ rfl h

theorem canParseNext_eq {p q : P} (hle : Le p q) {e loc : Nat} {da : Bool}
    (h : canParseNext p e loc da ≠ none) : canParseNext q e loc da = canParseNext p e loc da := by
  cases hc : canParseNext p e loc da with
  | none => exact absurd hc h
  | some b => exact canParseNext_mono hle _ _ _ _ hc

theorem andRest_mono {p q : P} (hle : Le p q) (isStop : Nat → Bool) (acts : Bool) (slen : Nat) :
    ∀ es stop loc acc, andRest p isStop acts slen es stop loc acc ≠ .hang →
      andRest q isStop acts slen es stop loc acc = andRest p isStop acts slen es stop loc acc := by
  intro es
  induction es with
  | nil => intro _ _ _ _; rfl
  | cons e es ih =>
    intro stop loc acc h
    unfold andRest at h ⊢
    split
    · rename_i hs; simp only [hs, if_true] at h; exact ih _ _ _ h
    · rename_i hs
      simp only [hs] at h
      by_cases hh : p e loc acts true = .hang
      · simp [hh] at h
      · rw [hle.eq hh]
        generalize p e loc acts true = r at h hh
        cases r with
        | ok l ts => exact ih _ _ _ h
        | fail c l => cases c <;> rfl
        | idx => rfl
        | hang => exact absurd rfl hh

theorem andImpl_mono {p q : P} (hle : Le p q) (isStop : Nat → Bool) (acts : Bool) (slen : Nat)
    (es : List Nat) (loc : Nat) (h : andImpl p isStop acts slen es loc ≠ .hang) :
    andImpl q isStop acts slen es loc = andImpl p isStop acts slen es loc := by
  unfold andImpl at h ⊢
  cases es with
  | nil => rfl
  | cons e0 rest =>
    simp only at h ⊢
    by_cases hh : p e0 loc acts false = .hang
    · simp [hh] at h
    · rw [hle.eq hh]
      generalize p e0 loc acts false = r at h hh
      cases r with
      | ok l ts => exact andRest_mono hle _ _ _ _ _ _ _ h
      | fail c l => cases c <;> rfl
      | idx => rfl
      | hang => exact absurd rfl hh

theorem mfGo_mono {p q : P} (hle : Le p q) (acts : Bool) (slen loc : Nat) :
    ∀ es mx, mfGo p acts slen loc es mx ≠ .hang → mfGo q acts slen loc es mx = mfGo p acts slen loc es mx := by
  intro es
  induction es with
  | nil => intro mx _; cases mx <;> rfl
  | cons e es ih =>
    intro mx h
    unfold mfGo at h ⊢
    by_cases hh : p e loc acts true = .hang
    · simp [hh] at h
    · rw [hle.eq hh]
      generalize p e loc acts true = r at h hh
      cases r with
      | ok l ts => rfl
      | fail c l => cases c <;> first | rfl | exact ih _ h
      | idx => exact ih _ h
      | hang => exact absurd rfl hh

end PP.Parse

namespace PP.Parse

theorem orPass1_mono {p q : P} (hle : Le p q) (nameLen : Nat → Nat) (slen loc : Nat) :
    ∀ es a, orPass1 p nameLen slen loc es a ≠ none →
      orPass1 q nameLen slen loc es a = orPass1 p nameLen slen loc es a := by
  intro es
  induction es with
  | nil => intro a _; rfl
  | cons e es ih =>
    intro a h
    unfold orPass1 at h ⊢
    by_cases hh : tryParse p e loc true false = .hang
    · simp [hh] at h
    · rw [tryParse_eq hle hh]
      generalize tryParse p e loc true false = r at h hh
      cases r with
      | ok l ts => exact ih _ h
      | fail c l =>
        simp only at h ⊢
        split
        · rename_i hc; simp only [hc, if_true] at h; exact ih _ h
        · rename_i hc
          simp only [hc] at h
          split
          · rename_i hf; simp only [hf, if_true] at h; exact ih _ h
          · rename_i hf; simp only [hf] at h; exact ih _ h
      | idx => exact ih _ h
      | hang => exact absurd rfl hh

theorem orPass2_mono {p q : P} (hle : Le p q) (loc : Nat) :
    ∀ ms longest mx, orPass2 p loc ms longest mx ≠ .inl .hang →
      orPass2 q loc ms longest mx = orPass2 p loc ms longest mx := by
  intro ms
  induction ms with
  | nil => intro _ _ _; unfold orPass2; rfl
  | cons m ms ih =>
    intro longest mx h
    rcases m with ⟨loc1, e⟩
    have step : orPass2.orStep p loc loc1 e ms longest mx ≠ .inl .hang →
        orPass2.orStep q loc loc1 e ms longest mx = orPass2.orStep p loc loc1 e ms longest mx := by
      intro hs
      unfold orPass2.orStep at hs ⊢
      by_cases hh : p e loc true true = .hang
      · simp [hh] at hs
      · rw [hle.eq hh]
        generalize p e loc true true = r at hs hh
        cases r with
        | ok l2 ts =>
          simp only at hs ⊢
          split
          · rfl
          · rename_i hc; simp only [hc] at hs; exact ih _ _ hs
        | fail c l => cases c <;> first | rfl | exact ih _ _ hs
        | idx => rfl
        | hang => exact absurd rfl hh
    unfold orPass2 at h ⊢
    cases longest with
    | none => exact step h
    | some ll =>
      rcases ll with ⟨ll, lt⟩
      simp only at h ⊢
      split
      · rfl
      · rename_i hc; simp only [hc] at h; exact step h

end PP.Parse

namespace PP.Parse

theorem orAt_mono {p q : P} (hle : Le p q) (nameLen : Nat → Nat) (slen : Nat) (acts : Bool)
    (es : List Nat) (loc : Nat) (h : orAt p nameLen slen acts es loc ≠ .hang) :
    orAt q nameLen slen acts es loc = orAt p nameLen slen acts es loc := by
  unfold orAt at h ⊢
  by_cases h1 : orPass1 p nameLen slen loc es {} = none
  · simp [h1] at h
  · rw [orPass1_mono hle _ _ _ _ _ h1]
    generalize orPass1 p nameLen slen loc es {} = r1 at h h1
    cases r1 with
    | none => exact absurd rfl h1
    | some a =>
      simp only at h ⊢
      split
      · rfl
      · rename_i hm
        simp only [hm] at h
        split
        · rename_i ha
          simp only [ha] at h
          generalize sortDesc a.cands = sorted at h
          cases sorted with
          | nil => rfl
          | cons m ms => rcases m with ⟨l1, e⟩; exact hle.eq h
        · rename_i ha
          simp only [ha] at h
          by_cases h2 : orPass2 p loc (sortDesc a.cands) none a.mx = .inl .hang
          · simp [h2] at h
          · rw [orPass2_mono hle _ _ _ _ h2]

theorem PreR.isHang_of_ne {pr : PreR} (h : (match pr with | .abort o => o | .at _ => Out.idx) ≠ .hang) :
    pr.isHang = false := by
  cases pr with
  | «at» l => rfl
  | abort o => cases o <;> simp [PreR.isHang] at h ⊢

theorem orImpl_mono {p q : P} (hle : Le p q) (g : Grammar) (nd : Node) (s : List Char) (acts : Bool)
    (es : List Nat) (loc : Nat) (h : orImpl p g nd s acts es loc ≠ .hang) :
    orImpl q g nd s acts es loc = orImpl p g nd s acts es loc := by
  unfold orImpl at h ⊢
  by_cases hall : es.all (callPreOf g) = true
  · simp only [hall, if_true] at h ⊢
    have hp : (preParse p nd s loc).isHang = false := by
      cases hpr : preParse p nd s loc with
      | «at» l => rfl
      | abort o => rw [hpr] at h; cases o <;> simp [PreR.isHang] at h ⊢
    rw [preParse_mono hle _ _ _ hp]
    generalize preParse p nd s loc = pr at h hp
    cases pr with
    | abort o => rfl
    | «at» l => exact orAt_mono hle _ _ _ _ _ h
  · simp only [hall] at h ⊢
    exact orAt_mono hle _ _ _ _ _ h

end PP.Parse

namespace PP.Parse

theorem stopCheck_mono {p q : P} (hle : Le p q) (ne : Option Nat) (loc : Nat)
    (h : stopCheck p ne loc ≠ none) : stopCheck q ne loc = stopCheck p ne loc := by
  unfold stopCheck at h ⊢
  cases ne with
  | none => rfl
  | some n =>
    simp only at h ⊢
    by_cases ht : tryParse p n loc false false = .hang
    · simp [ht] at h
    · rw [tryParse_eq hle ht]

theorem manyPre_mono {p q : P} (hle : Le p q) (nd : Node) (slen loc : Nat)
    (h : (manyPre p nd slen loc).isHang = false) : manyPre q nd slen loc = manyPre p nd slen loc := by
  unfold manyPre at h ⊢
  by_cases hi : nd.ignore.isEmpty = true
  · simp only [hi, if_true]
  · simp only [hi] at h ⊢
    exact skipIgnorables_mono hle _ _ _ _ h

theorem manyLoop_mono {p q : P} (hle : Le p q) (nd : Node) (acts : Bool) (slen e : Nat) (ne : Option Nat) :
    ∀ k loc acc, manyLoop p nd acts slen e ne k loc acc ≠ .hang →
      manyLoop q nd acts slen e ne k loc acc = manyLoop p nd acts slen e ne k loc acc := by
  intro k
  induction k with
  | zero => intro loc acc h; simp [manyLoop] at h
  | succ k ih =>
    intro loc acc h
    unfold manyLoop at h ⊢
    by_cases hs : stopCheck p ne loc = none
    · simp [hs] at h
    · rw [stopCheck_mono hle _ _ hs]
      generalize stopCheck p ne loc = st at h hs
      cases st with
      | none => exact absurd rfl hs
      | some b =>
        cases b with
        | true => rfl
        | false =>
          simp only at h ⊢
          have hp : (manyPre p nd slen loc).isHang = false := by
            cases hpr : manyPre p nd slen loc with
            | «at» l => rfl
            | abort o => rw [hpr] at h; cases o <;> simp [PreR.isHang] at h ⊢
          rw [manyPre_mono hle _ _ _ hp]
          generalize manyPre p nd slen loc = pr at h hp
          cases pr with
          | abort o => cases o <;> first | rfl | (rename_i c l; cases c <;> rfl)
          | «at» preloc =>
            simp only at h ⊢
            by_cases hh : p e preloc acts true = .hang
            · simp [hh] at h
            · rw [hle.eq hh]
              generalize p e preloc acts true = r at h hh
              cases r with
              | ok l ts =>
                simp only at h ⊢
                split
                · rfl
                · rename_i hc; simp only [hc] at h; exact ih _ _ h
              | fail c l => cases c <;> rfl
              | idx => rfl
              | hang => exact absurd rfl hh

theorem manyImpl_mono {p q : P} (hle : Le p q) (nd : Node) (acts : Bool) (slen e : Nat) (ne : Option Nat)
    (loc : Nat) (h : manyImpl p nd acts slen e ne loc ≠ .hang) :
    manyImpl q nd acts slen e ne loc = manyImpl p nd acts slen e ne loc := by
  unfold manyImpl at h ⊢
  have body : (match p e loc acts true with
      | .ok l ts => manyLoop p nd acts slen e ne (slen + 2) l ts
      | o => o) ≠ .hang →
      (match q e loc acts true with
      | .ok l ts => manyLoop q nd acts slen e ne (slen + 2) l ts
      | o => o) = (match p e loc acts true with
      | .ok l ts => manyLoop p nd acts slen e ne (slen + 2) l ts
      | o => o) := by
    intro hb
    by_cases hh : p e loc acts true = .hang
    · simp [hh] at hb
    · rw [hle.eq hh]
      generalize p e loc acts true = r at hb hh
      cases r with
      | ok l ts => exact manyLoop_mono hle _ _ _ _ _ _ _ _ hb
      | fail c l => cases c <;> rfl
      | idx => rfl
      | hang => exact absurd rfl hh
  cases ne with
  | none => exact body h
  | some n =>
    simp only at h ⊢
    by_cases ht : tryParse p n loc false false = .hang
    · simp [ht] at h
    · rw [tryParse_eq hle ht]
      generalize tryParse p n loc false false = r at h ht
      cases r with
      | ok l ts => exact body h
      | fail c l => cases c <;> rfl
      | idx => rfl
      | hang => exact absurd rfl ht

end PP.Parse

namespace PP.Parse

theorem ignLoop_mono {p q : P} (hle : Le p q) (i : Nat) :
    ∀ k t, ignLoop p i k t ≠ .inl .hang → ignLoop q i k t = ignLoop p i k t := by
  intro k
  induction k with
  | zero => intro t h; simp [ignLoop] at h
  | succ k ih =>
    intro t h
    unfold ignLoop at h ⊢
    by_cases ht : tryParse p i t false false = .hang
    · simp [ht] at h
    · rw [tryParse_eq hle ht]
      generalize tryParse p i t false false = r at h ht
      cases r with
      | ok l ts =>
        simp only at h ⊢
        split
        · rfl
        · rename_i hc; simp only [hc] at h; exact ih _ h
      | fail c l => rfl
      | idx => rfl
      | hang => exact absurd rfl ht

theorem failOnCheck_mono {p q : P} (hle : Le p q) (fo : Option Nat) (t : Nat)
    (h : failOnCheck p fo t ≠ none) : failOnCheck q fo t = failOnCheck p fo t := by
  unfold failOnCheck at h ⊢
  cases fo with
  | none => rfl
  | some f => exact canParseNext_eq hle h

theorem ignStep_mono {p q : P} (hle : Le p q) (slen : Nat) (ig : Option Nat) (t : Nat)
    (h : ignStep p slen ig t ≠ .inl .hang) : ignStep q slen ig t = ignStep p slen ig t := by
  unfold ignStep at h ⊢
  cases ig with
  | none => rfl
  | some i => exact ignLoop_mono hle _ _ _ h

theorem skipScan_mono {p q : P} (hle : Le p q) (slen e : Nat) (fo ig : Option Nat) (loc0 : Nat) :
    ∀ k t, skipScan p slen e fo ig loc0 k t ≠ .inl .hang →
      skipScan q slen e fo ig loc0 k t = skipScan p slen e fo ig loc0 k t := by
  intro k
  induction k with
  | zero => intro t _; rfl
  | succ k ih =>
    intro t h
    unfold skipScan at h ⊢
    split
    · rfl
    · rename_i hgt
      simp only [hgt, if_false] at h
      by_cases hf : failOnCheck p fo t = none
      · simp [hf] at h
      · rw [failOnCheck_mono hle _ _ hf]
        generalize failOnCheck p fo t = fc at h hf
        cases fc with
        | none => exact absurd rfl hf
        | some b =>
          cases b with
          | true => rfl
          | false =>
            simp only at h ⊢
            by_cases hi : ignStep p slen ig t = .inl .hang
            · simp [hi] at h
            · rw [ignStep_mono hle _ _ _ hi]
              generalize ignStep p slen ig t = r at h hi
              cases r with
              | inl o => rfl
              | inr t' =>
                simp only at h ⊢
                by_cases hh : p e t' false false = .hang
                · simp [hh] at h
                · rw [hle.eq hh]
                  generalize p e t' false false = r at h hh
                  cases r with
                  | ok l ts => rfl
                  | fail c l => cases c <;> first | rfl | exact ih _ h
                  | idx => exact ih _ h
                  | hang => exact absurd rfl hh

theorem skipToImpl_mono {p q : P} (hle : Le p q) (s : List Char) (acts : Bool) (e : Nat) (incl : Bool)
    (fo ig : Option Nat) (loc : Nat) (h : skipToImpl p s acts e incl fo ig loc ≠ .hang) :
    skipToImpl q s acts e incl fo ig loc = skipToImpl p s acts e incl fo ig loc := by
  unfold skipToImpl at h ⊢
  by_cases hs : skipScan p s.length e fo ig loc (s.length + 2) loc = .inl .hang
  · simp [hs] at h
  · rw [skipScan_mono hle _ _ _ _ _ _ _ hs]
    generalize skipScan p s.length e fo ig loc (s.length + 2) loc = r at h hs
    cases r with
    | inl o => rfl
    | inr t =>
      simp only at h ⊢
      split
      · rename_i hi
        simp only [hi, if_true] at h
        by_cases hh : p e t acts false = .hang
        · simp [hh] at h
        · rw [hle.eq hh]
      · rfl

theorem enhanceImpl_mono {p q : P} (hle : Le p q) (acts : Bool) (e : Option Nat) (loc : Nat)
    (h : enhanceImpl p acts e loc ≠ .hang) : enhanceImpl q acts e loc = enhanceImpl p acts e loc := by
  unfold enhanceImpl at h ⊢
  cases e with
  | none => rfl
  | some e =>
    simp only at h ⊢
    by_cases hh : p e loc acts false = .hang
    · simp [hh] at h
    · rw [hle.eq hh]

end PP.Parse

namespace PP.Parse

theorem parseImpl_mono {p q : P} (hle : Le p q) (g : Grammar) (nd : Node) (s : List Char) (loc : Nat)
    (acts : Bool) (h : parseImpl g p nd s loc acts ≠ .hang) :
    parseImpl g q nd s loc acts = parseImpl g p nd s loc acts := by
  unfold parseImpl at h ⊢
  cases hk : nd.kind <;> simp only [hk] at h ⊢
  case stringStart =>
    split
    · rfl
    · rename_i hl
      simp only [hl, if_false] at h
      have hp : (preParse p nd s 0).isHang = false := by
        cases hpr : preParse p nd s 0 with
        | «at» l => rfl
        | abort o => rw [hpr] at h; cases o <;> simp [PreR.isHang] at h ⊢
      rw [preParse_mono hle _ _ _ hp]
  case and es => exact andImpl_mono hle _ _ _ _ _ h
  case matchFirst es => exact mfGo_mono hle _ _ _ _ _ h
  case or es => exact orImpl_mono hle _ _ _ _ _ _ h
  case opt e dflt =>
    by_cases hh : p e loc acts false = .hang
    · simp [hh] at h
    · rw [hle.eq hh]
  case many e ne one =>
    split
    · rename_i ho; simp only [ho, if_true] at h; exact manyImpl_mono hle _ _ _ _ _ _ h
    · rename_i ho
      simp only [ho] at h
      by_cases hm : manyImpl p nd acts s.length e ne loc = .hang
      · simp [hm] at h
      · rw [manyImpl_mono hle _ _ _ _ _ _ hm]
  case notAny e =>
    by_cases hc : canParseNext p e loc acts = none
    · simp [hc] at h
    · rw [canParseNext_eq hle hc]
  case followedBy e =>
    by_cases hh : p e loc acts true = .hang
    · simp [hh] at h
    · rw [hle.eq hh]
  case located e =>
    by_cases hh : p e loc acts false = .hang
    · simp [hh] at h
    · rw [hle.eq hh]
  case group e => exact enhanceImpl_mono hle _ _ _ h
  case suppress e => exact enhanceImpl_mono hle _ _ _ h
  case combine e j => exact enhanceImpl_mono hle _ _ _ h
  case enhance e => exact enhanceImpl_mono hle _ _ _ h
  case forward e => exact enhanceImpl_mono hle _ _ _ h
  case skipTo e incl fo ig => exact skipToImpl_mono hle _ _ _ _ _ _ _ h

/-- the parse step is monotone in the closure used for nested calls -/
theorem parseStep_mono (g : Grammar) (s : List Char) {p q : P} (hle : Le p q) :
    Le (parseStep g s p) (parseStep g s q) := by
  intro e loc a c o h hn
  subst h
  unfold parseStep at hn ⊢
  cases hg : g[e]? with
  | none => simp [hg] at hn
  | some nd =>
    simp only [hg] at hn ⊢
    have hp : (if (c && nd.callPre) = true then preParse p nd s loc else PreR.at loc).isHang = false := by
      generalize hpr : (if (c && nd.callPre) = true then preParse p nd s loc else PreR.at loc) = pr at hn
      cases pr with
      | «at» l => rfl
      | abort o => cases o <;> simp [PreR.isHang] at hn ⊢
    have hpre : (if (c && nd.callPre) = true then preParse q nd s loc else PreR.at loc)
        = (if (c && nd.callPre) = true then preParse p nd s loc else PreR.at loc) := by
      by_cases hc : (c && nd.callPre) = true
      · simp only [hc, if_true] at hp ⊢; exact preParse_mono hle _ _ _ hp
      · simp [hc]
    rw [hpre]
    generalize (if (c && nd.callPre) = true then preParse p nd s loc else PreR.at loc) = pr at hn hp
    cases pr with
    | abort o => rfl
    | «at» pre =>
      simp only at hn ⊢
      by_cases hi : parseImpl g p nd s pre a = .hang
      · simp [hi] at hn
      · rw [parseImpl_mono hle _ _ _ _ _ hi]

/-- one more unit of fuel never changes a non-`hang` outcome -/
theorem parse_step_mono (g : Grammar) (s : List Char) : ∀ f, Le (parse g s f) (parse g s (f + 1)) := by
  intro f
  induction f with
  | zero => intro e loc a c o h hn; simp [parse] at h; exact absurd h.symm hn
  | succ f ih => exact parseStep_mono g s ih

theorem parse_mono (g : Grammar) (s : List Char) (f k : Nat) : Le (parse g s f) (parse g s (f + k)) := by
  induction k with
  | zero => exact Le.refl _
  | succ k ih => exact Le.trans ih (parse_step_mono g s (f + k))

/-- a non-`hang` outcome does not depend on the fuel -/
theorem parse_fuel_irrelevant (g : Grammar) (s : List Char) (f1 f2 e loc : Nat) (a c : Bool)
    (h1 : parse g s f1 e loc a c ≠ .hang) (h2 : parse g s f2 e loc a c ≠ .hang) :
    parse g s f1 e loc a c = parse g s f2 e loc a c := by
  rcases Nat.le_total f1 f2 with hle | hle
  · obtain ⟨k, rfl⟩ := Nat.exists_eq_add_of_le hle
    exact (parse_mono g s f1 k e loc a c _ rfl h1).symm
  · obtain ⟨k, rfl⟩ := Nat.exists_eq_add_of_le hle
    exact parse_mono g s f2 k e loc a c _ rfl h2

end PP.Parse
