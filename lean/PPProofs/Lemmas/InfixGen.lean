import PPProofs.Lemmas.InfixLeft
/-!
# C16 — the general class: LEFT/RIGHT binary, prefix and POSTFIX levels, suppressed or kept parentheses

`ClassG` extends `ClassTL` (InfixLeft.lean) by POSTFIX levels (arity 1, LEFT:
`_FB(lastExpr + opExpr) + Group(lastExpr + opExpr[1, ...])`, helpers.py) and drops the requirement that the parentheses
are `Suppress`ed (`t.lsup`, `t.rsup` arbitrary: a kept parenthesis adds a group with the paren tokens, as `nest` says).
`WFG` is the matching normal form: a postfix chain `a op op … op` is the left-nested `Ex.post`, its operand from a
tighter level.  `FollowG`/`GoalG` are `Follow`/`Goal` with postfix operators added to what must not follow a tree.

The class-dependent lemmas are re-proved (namespace `PP.Infix.Gen`, same names); `post_parse`/`goal_post` are new.
-/
namespace PP.Infix
open PP.Parse

/-- class TL extended by postfix levels, parentheses suppressed or kept -/
structure ClassG (t : Table) (cs : List Char) (re : Bool) : Prop where
  /-- the operand is `Word(cs)` with default whitespace handling -/
  base : t.base = mkNode t.white (.word cs cs 1 none false false re) false true
  /-- operand characters are not blanks -/
  csW : ∀ c ∈ cs, c ∉ t.white
  /-- levels: binary of either associativity, prefix, or postfix; no parse actions -/
  kinds : ∀ lv ∈ t.levels, lv.acts = [] ∧
    ((lv.arity = 2 ∧ lv.right = true) ∨ (lv.arity = 1 ∧ lv.right = true) ∨ (lv.arity = 2 ∧ lv.right = false) ∨
      (lv.arity = 1 ∧ lv.right = false) ∨ (lv.arity = 3 ∧ lv.right = true) ∨ (lv.arity = 3 ∧ lv.right = false))
  lparOk : t.lpar ≠ [] ∧ ∀ c, t.lpar.head? = some c → c ∉ t.white ∧ c ∉ cs
  rparOk : t.rpar ≠ [] ∧ ∀ c, t.rpar.head? = some c → c ∉ t.white ∧ c ∉ cs
  opOk : ∀ lv ∈ t.levels, lv.op1 ≠ [] ∧ ∀ c, lv.op1.head? = some c → c ∉ t.white ∧ c ∉ cs
  /-- spellings are pairwise prefix-incomparable -/
  opsInc : ∀ (i j : Nat) (lvi lvj : Level), t.levels[i]? = some lvi → t.levels[j]? = some lvj → i ≠ j → ¬ lvi.op1 <+: lvj.op1
  parInc : ∀ lv ∈ t.levels, ¬ lv.op1 <+: t.lpar ∧ ¬ t.lpar <+: lv.op1 ∧ ¬ lv.op1 <+: t.rpar ∧ ¬ t.rpar <+: lv.op1
  /-- the second operator of a ternary level: non-empty, does not start with a blank or operand character -/
  op2Ok : ∀ lv ∈ t.levels, lv.arity = 3 → lv.op2 ≠ [] ∧ ∀ c, lv.op2.head? = some c → c ∉ t.white ∧ c ∉ cs
  /-- … and is prefix-incomparable with every first operator (its own level's included) -/
  op2Inc : ∀ lvi ∈ t.levels, ∀ lvj ∈ t.levels, lvi.arity = 3 → ¬ lvj.op1 <+: lvi.op2 ∧ ¬ lvi.op2 <+: lvj.op1

/-- every table of class TL is of class G -/
theorem ClassTL.toG {t : Table} {cs : List Char} {re : Bool} (h : ClassTL t cs re) : ClassG t cs re where
  base := h.base
  csW := h.csW
  kinds := fun lv hlv => ⟨(h.kinds lv hlv).1, by rcases (h.kinds lv hlv).2 with x | x | x <;> simp [x]⟩
  lparOk := h.lparOk
  rparOk := h.rparOk
  opOk := h.opOk
  opsInc := h.opsInc
  parInc := h.parInc
  op2Ok := fun lv hlv h3 => by rcases (h.kinds lv hlv).2 with x | x | x <;> (rw [x.1] at h3; cases h3)
  op2Inc := fun lv hlv _ _ h3 => by rcases (h.kinds lv hlv).2 with x | x | x <;> (rw [x.1] at h3; cases h3)

/-- trees in the normal form of a class-G table: as `WFL`, plus postfix applications whose operand may be of the same
    level (the chain `a op op`) -/
def WFG (t : Table) (cs : List Char) : Ex → Prop
  | .atom ws w => White t.white ws ∧ w ≠ [] ∧ ∀ c ∈ w, c ∈ cs
  | .paren wl e wr => White t.white wl ∧ White t.white wr ∧ WFG t cs e
  | .pre k wo e => ∃ lv, 1 ≤ k ∧ t.levels[k - 1]? = some lv ∧ lv.arity = 1 ∧ lv.right = true ∧
      White t.white wo ∧ WFG t cs e ∧ e.lvl ≤ k
  | .bin k a wo b => ∃ lv, 1 ≤ k ∧ t.levels[k - 1]? = some lv ∧ lv.arity = 2 ∧
      White t.white wo ∧ WFG t cs a ∧ WFG t cs b ∧
      ((lv.right = true ∧ a.lvl < k ∧ b.lvl ≤ k) ∨ (lv.right = false ∧ a.lvl ≤ k ∧ b.lvl < k))
  | .post k e wo => ∃ lv, 1 ≤ k ∧ t.levels[k - 1]? = some lv ∧ lv.arity = 1 ∧ lv.right = false ∧
      White t.white wo ∧ WFG t cs e ∧ e.lvl ≤ k
  | .tern k a w1 b w2 c => ∃ lv, 1 ≤ k ∧ t.levels[k - 1]? = some lv ∧ lv.arity = 3 ∧
      White t.white w1 ∧ White t.white w2 ∧ WFG t cs a ∧ WFG t cs b ∧ WFG t cs c ∧
      ((lv.right = true ∧ a.lvl < k ∧ b.lvl ≤ k ∧ c.lvl ≤ k) ∨ (lv.right = false ∧ a.lvl ≤ k ∧ b.lvl < k ∧ c.lvl < k))

/-- `WFL` trees are `WFG` trees -/
theorem WFL.toWFG {t : Table} {cs : List Char} : ∀ e, WFL t cs e → WFG t cs e := by
  intro e
  induction e with
  | atom ws w => exact id
  | paren wl e wr ih => intro h; exact ⟨h.1, h.2.1, ih h.2.2⟩
  | pre k wo e ih =>
    intro h
    obtain ⟨lv, h1, h2, h3, h4, h5, h6, h7⟩ := h
    exact ⟨lv, h1, h2, h3, h4, h5, ih h6, h7⟩
  | post k e wo ih => intro h; exact absurd h id
  | bin k a wo b iha ihb =>
    intro h
    obtain ⟨lv, h1, h2, h3, h4, h5, h6, h7⟩ := h
    exact ⟨lv, h1, h2, h3, h4, iha h5, ihb h6, h7⟩
  | tern k a w1 b w2 c iha ihb ihc => intro h; exact absurd h id

/-- what may follow a tree parsed at level `k`: not an operand character, and (after blanks) not the operator of a
    non-prefix (infix or postfix) level `≤ k` -/
def FollowG (t : Table) (cs s : List Char) (k pos : Nat) : Prop :=
  (∀ ch, s[pos]? = some ch → ch ∉ cs) ∧
  ∀ j lv, 1 ≤ j → j ≤ k → t.levels[j - 1]? = some lv → ¬ (lv.arity = 1 ∧ lv.right = true) →
    ¬ lv.op1 <+: s.drop (skipWhite t.white s pos)

/-- level `k` parses the spelling of `e` to its documented nesting, wherever it stands and whatever the flags -/
def GoalG (t : Table) (cs s : List Char) (e : Ex) (k : Nat) : Prop :=
  ∀ q suf, s.drop q = renderB t e ++ suf → skipWhite t.white s q = q →
    FollowG t cs s k (q + (renderB t e).length) →
    ∀ a c loc, preOf t.white s c true loc = q →
      Holds t s (E k) loc a c (.ok (q + (renderB t e).length) [nest t e])

theorem FollowG.mono {t : Table} {cs s : List Char} {k k' pos : Nat} (h : FollowG t cs s k pos) (hk : k' ≤ k) :
    FollowG t cs s k' pos :=
  ⟨h.1, fun j lv h1 h2 h3 h4 => h.2 j lv h1 (by omega) h3 h4⟩

namespace Gen


section facts
variable {t : Table} {cs : List Char} {re : Bool} (hT : ClassG t cs re)
include hT

theorem lead_white : ∀ e, WFG t cs e → White t.white (lead e) := by
  intro e
  induction e with
  | atom ws w => intro h; exact h.1
  | paren wl e wr ih => intro h; exact h.1
  | pre k wo e ih => intro h; obtain ⟨lv, _, _, _, _, hw, _⟩ := h; exact hw
  | post k e wo ih => intro h; obtain ⟨lv, _, _, _, _, _, he, _⟩ := h; exact ih he
  | bin k a wo b iha ihb => intro h; obtain ⟨lv, _, _, _, _, ha, _⟩ := h; exact iha ha
  | tern k a w1 b w2 c iha ihb ihc => intro h; obtain ⟨lv, _, _, _, _, _, ha, _⟩ := h; exact iha ha

/-- the first character of the spelling proper is neither a blank nor an operand character, unless it is an atom -/
theorem renderB_head : ∀ e, WFG t cs e → ∃ c r, renderB t e = c :: r ∧ c ∉ t.white := by
  intro e
  induction e with
  | atom ws w =>
    intro h
    obtain ⟨c, r, rfl⟩ := List.exists_cons_of_ne_nil h.2.1
    exact ⟨c, r, rfl, hT.csW c (h.2.2 c (by simp))⟩
  | paren wl e wr ih =>
    intro h
    obtain ⟨c, r, hr⟩ := List.exists_cons_of_ne_nil hT.lparOk.1
    refine ⟨c, r ++ render t e ++ wr ++ t.rpar, by simp [renderB, hr], (hT.lparOk.2 c (by simp [hr])).1⟩
  | pre k wo e ih =>
    intro h
    obtain ⟨lv, _, hlv, _, _, _, _⟩ := h
    obtain ⟨c, r, hr⟩ := List.exists_cons_of_ne_nil (hT.opOk lv (lv_mem hlv)).1
    refine ⟨c, r ++ render t e, by simp [renderB, opOf_eq hlv, hr], ((hT.opOk lv (lv_mem hlv)).2 c (by simp [hr])).1⟩
  | post k e wo ih =>
    intro h
    obtain ⟨lv, _, _, _, _, _, he, _⟩ := h
    obtain ⟨c, r, hr, hc⟩ := ih he
    exact ⟨c, r ++ wo ++ opOf t k, by simp [renderB, hr], hc⟩
  | bin k a wo b iha ihb =>
    intro h
    obtain ⟨lv, _, _, _, _, ha, _⟩ := h
    obtain ⟨c, r, hr, hc⟩ := iha ha
    exact ⟨c, r ++ wo ++ opOf t k ++ render t b, by simp [renderB, hr], hc⟩
  | tern k a w1 b w2 c iha ihb ihc =>
    intro h
    obtain ⟨lv, _, _, _, _, _, ha, _⟩ := h
    obtain ⟨c0, r, hr, hc⟩ := iha ha
    exact ⟨c0, r ++ w1 ++ opOf t k ++ render t b ++ w2 ++ op2Of t k ++ render t c, by simp [renderB, hr], hc⟩

/-- an operator of a level above the tree's is not a prefix of its spelling -/
theorem op_not_prefix {k' : Nat} {lv' : Level} (hk' : 1 ≤ k') (hlv' : t.levels[k' - 1]? = some lv') :
    ∀ e, WFG t cs e → e.lvl < k' → ∀ suf, ¬ lv'.op1 <+: renderB t e ++ suf := by
  have hop := hT.opOk lv' (lv_mem hlv')
  intro e
  induction e with
  | atom ws w =>
    intro h _ suf
    obtain ⟨c, r, rfl⟩ := List.exists_cons_of_ne_nil h.2.1
    apply not_prefix_of_head hop.1 _ (by simp [renderB])
    intro c' hc' d hd e
    simp [renderB] at hd
    subst hd; subst e
    exact (hop.2 c' hc').2 (h.2.2 c' (by simp))
  | paren wl e wr ih =>
    intro h _ suf
    have hp := hT.parInc lv' (lv_mem hlv')
    simp only [renderB, List.append_assoc]
    exact not_prefix_append _ hp.1 hp.2.1
  | pre k wo e ih =>
    intro h hl suf
    obtain ⟨lv, hk, hlv, _, _, _, _⟩ := h
    simp only [Ex.lvl] at hl
    simp only [renderB, opOf_eq hlv, List.append_assoc]
    exact not_prefix_append _ (hT.opsInc _ _ _ _ hlv' hlv (by omega)) (hT.opsInc _ _ _ _ hlv hlv' (by omega))
  | post k e wo ih =>
    intro h hl suf
    obtain ⟨lv, hk, hlv, _, _, _, he, hle⟩ := h
    simp only [Ex.lvl] at hl
    simp only [renderB, List.append_assoc]
    exact ih he (by omega) _
  | bin k a wo b iha ihb =>
    intro h hl suf
    obtain ⟨lv, hk, hlv, _, _, ha, _, hla⟩ := h
    simp only [Ex.lvl] at hl
    simp only [renderB, List.append_assoc]
    exact iha ha (by omega) _
  | tern k a w1 b w2 c iha ihb ihc =>
    intro h hl suf
    obtain ⟨lv, hk, hlv, _, _, _, ha, _, _, hcase⟩ := h
    have hla : a.lvl ≤ k := by obtain ⟨_, h, _⟩ | ⟨_, h, _⟩ := hcase <;> omega
    simp only [Ex.lvl] at hl
    simp only [renderB, List.append_assoc]
    exact iha ha (by omega) _

end facts
section levels
variable {t : Table} {cs : List Char} {re : Bool} (hT : ClassG t cs re) (s : List Char)
include hT

theorem g_base : (infixGrammar t)[2]? = some (mkNode t.white (.word cs cs 1 none false false re) false true) := by
  rw [gram_header t (by omega)]
  simp [header, hT.base]

theorem hns : ∀ (i : Nat) (nd : Node), (infixGrammar t)[i]? = some nd → nd.kind ≠ Kind.errorStop :=
  noStop t (by rw [hT.base]; simp [mkNode])

/-- atoms at level 0 (`lastExpr = base | nested`) -/
theorem goal_atom {ws w : List Char} (h : WFG t cs (.atom ws w)) : GoalG t cs s (.atom ws w) 0 := by
  intro q suf hs hq hf a c loc hloc
  have hg0 : (infixGrammar t)[E 0]? = some (mkNode t.white (.matchFirst [2, nestedId t]) true false) := by
    rw [show E 0 = 0 from rfl, gram_header t (by omega)]; simp [header]
  apply H_mf_ok t s (fb_header t (by unfold E lvlSize; omega)) hg0
  apply HMf.head
  have hrest : ∀ d, suf.head? = some d → d ∉ cs := by
    intro d hd
    apply hf.1 d
    have := drop_add hs
    cases suf with
    | nil => simp at hd
    | cons x xs => simp at hd; subst hd; exact getElem?_of_drop this
  have := H_word_ok t s (a := a) (c := true) (loc := match c with | true => loc | false => q)
    (fb_header t (by omega : 2 < 14)) (g_base hT) (q := q) ?_ h.2.1 hs h.2.2 hrest
  · cases c
    · simp only [preOf_false] at hloc; subst hloc; exact this
    · -- MatchFirst does no pre-parse: its alternatives are called at `loc` itself, with pre-parse on
      exact this
  · cases c
    · simp only [preOf_false] at hloc; subst hloc; rw [preOf_true]; exact hq
    · simpa using hloc

end levels
section lift
variable {t : Table} {cs : List Char} {re : Bool} (hT : ClassG t cs re) (s : List Char)
include hT

/-- the alternatives after `matchExpr` in the MatchFirst of level `K`, given that level `K-1` succeeds -/
theorem tail_ok {K loc l : Nat} {a : Bool} {ts : List Tok} (hK : 1 ≤ K)
    (h : Holds t s (E (K - 1)) loc a true (.ok l ts)) : HMf t s a (tailOf t K) loc (.ok l ts) := by
  unfold tailOf
  by_cases h1 : K = 1
  · subst h1
    simp only [if_true]
    have hg0 : (infixGrammar t)[E 0]? = some (mkNode t.white (.matchFirst [2, nestedId t]) true false) := by
      rw [show E 0 = 0 from rfl, gram_header t (by omega)]; simp [header]
    exact H_mf_inv t s (fb_header t (by unfold E lvlSize; omega)) hg0 h
  · simp only [h1, if_false]
    exact HMf.head t s _ h

/-- a tree of a tighter level passes through level `K` unchanged: `matchExpr` fails in its lookahead -/
theorem goal_lift {e : Ex} {K : Nat} {lv : Level} (hK : 1 ≤ K) (hlv : t.levels[K - 1]? = some lv)
    (hwf : WFG t cs e) (hl : e.lvl < K) (ih : GoalG t cs s e (K - 1)) : GoalG t cs s e K := by
  intro q suf hs hq hf a c loc hloc
  have hKn : K ≤ t.levels.length := by
    have := (List.getElem?_eq_some_iff.mp hlv).1; omega
  have hkind := hT.kinds lv (lv_mem hlv)
  have hop := hT.opOk lv (lv_mem hlv)
  have hfbF : ∀ j, j < 14 → j ≠ 3 → (fbIds t).elem (E K + j) = false := by
    intro j hj h3; rw [fb_level t hK hKn hj]; simp [h3]
  have hfbT : (fbIds t).elem (E K + 3) = true := by rw [fb_level t hK hKn (by omega)]; simp
  have g0 : (infixGrammar t)[E K + 0]? = some (mkNode t.white (.forward (some (E K + 1))) true true) := by
    rw [gram_level t hK hlv (by omega)]; simp [levelNodes]
  have g1 : (infixGrammar t)[E K + 1]? = some (mkNode t.white (.matchFirst ((E K + 2) :: tailOf t K)) true false) := by
    rw [gram_level t hK hlv (by omega)]; simp [levelNodes]
  have g2 : (infixGrammar t)[E K + 2]? = some (mkNode t.white (.and [E K + 3, E K + 4]) true true) := by
    rw [gram_level t hK hlv (by omega)]; simp [levelNodes, hkind.1, mkNode]
  have g3 : (infixGrammar t)[E K + 3]? = some (mkNode t.white (.followedBy (E K + 5)) true true) := by
    rw [gram_level t hK hlv (by omega)]; simp [levelNodes]
  have g7 : (infixGrammar t)[E K + 7]? = some (mkNode t.white (litKind lv.op1) false true) := by
    rw [gram_level t hK hlv (by omega)]; simp [levelNodes]
  -- level K-1 on e, for any flags
  have hsub := fun a' c' loc' h' => ih q suf hs hq (hf.mono (by omega)) a' c' loc' h'
  -- the lookahead body fails
  have hbody : ∃ l, Holds t s (E K + 5) q false true (.fail .parse l) := by
    rcases hkind.2 with ⟨ha, hr⟩ | ⟨ha, hr⟩ | ⟨ha, hr⟩ | ⟨ha, hr⟩ | ⟨ha, hr⟩ | ⟨ha, hr⟩
    · have g5 : (infixGrammar t)[E K + 5]? = some (mkNode t.white (.and [E (K - 1), E K + 7, E K]) true true) := by
        rw [gram_level t hK hlv (by omega)]; simp [levelNodes, ha, hr]
      have hopf : ¬ lv.op1 <+: s.drop (skipWhite t.white s (q + (renderB t e).length)) :=
        hf.2 K lv hK (Nat.le_refl _) hlv (by simp [ha])
      obtain ⟨l, hl⟩ := H_lit_fail t s (a := false) (c := true) (hfbF 7 (by omega) (by omega)) g7 (preOf_true _ _ _) hop.1 hopf
      refine ⟨l, H_and t s (hfbF 5 (by omega) (by omega)) g5 (hns hT) (hsub false false _ ?_) (HRest.cons_fail t s _ hl) (Or.inr ⟨l, rfl⟩)⟩
      rw [preOf_false, preOf_true, hq]
    · have g5 : (infixGrammar t)[E K + 5]? = some (mkNode t.white (.and [E K + 7, E K]) true true) := by
        rw [gram_level t hK hlv (by omega)]; simp [levelNodes, ha, hr]
      have hopf : ¬ lv.op1 <+: s.drop q := by rw [hs]; exact op_not_prefix hT hK hlv e hwf hl suf
      obtain ⟨l, hl⟩ := H_lit_fail t s (a := false) (c := false) (loc := q) (hfbF 7 (by omega) (by omega)) g7 (preOf_false _ _ _) hop.1 hopf
      refine ⟨l, H_and_fail0 t s (hfbF 5 (by omega) (by omega)) g5 (hns hT) ?_⟩
      rw [preOf_true, hq]; exact hl
    · have g5 : (infixGrammar t)[E K + 5]? = some (mkNode t.white (.and [E (K - 1), E K + 7, E (K - 1)]) true true) := by
        rw [gram_level t hK hlv (by omega)]; simp [levelNodes, ha, hr]
      have hopf : ¬ lv.op1 <+: s.drop (skipWhite t.white s (q + (renderB t e).length)) :=
        hf.2 K lv hK (Nat.le_refl _) hlv (by simp [ha])
      obtain ⟨l, hl⟩ := H_lit_fail t s (a := false) (c := true) (hfbF 7 (by omega) (by omega)) g7 (preOf_true _ _ _) hop.1 hopf
      refine ⟨l, H_and t s (hfbF 5 (by omega) (by omega)) g5 (hns hT) (hsub false false _ ?_) (HRest.cons_fail t s _ hl) (Or.inr ⟨l, rfl⟩)⟩
      rw [preOf_false, preOf_true, hq]
    · have g5 : (infixGrammar t)[E K + 5]? = some (mkNode t.white (.and [E (K - 1), E K + 7]) true true) := by
        rw [gram_level t hK hlv (by omega)]; simp [levelNodes, ha, hr]
      have hopf : ¬ lv.op1 <+: s.drop (skipWhite t.white s (q + (renderB t e).length)) :=
        hf.2 K lv hK (Nat.le_refl _) hlv (by simp [hr])
      obtain ⟨l, hl⟩ := H_lit_fail t s (a := false) (c := true) (hfbF 7 (by omega) (by omega)) g7 (preOf_true _ _ _) hop.1 hopf
      refine ⟨l, H_and t s (hfbF 5 (by omega) (by omega)) g5 (hns hT) (hsub false false _ ?_) (HRest.cons_fail t s _ hl) (Or.inr ⟨l, rfl⟩)⟩
      rw [preOf_false, preOf_true, hq]
    · have g5 : (infixGrammar t)[E K + 5]? = some (mkNode t.white (.and [E (K - 1), E K + 7, E K, E K + 8, E K]) true true) := by
        rw [gram_level t hK hlv (by omega)]; simp [levelNodes, ha, hr]
      have hopf : ¬ lv.op1 <+: s.drop (skipWhite t.white s (q + (renderB t e).length)) :=
        hf.2 K lv hK (Nat.le_refl _) hlv (by simp [ha])
      obtain ⟨l, hl⟩ := H_lit_fail t s (a := false) (c := true) (hfbF 7 (by omega) (by omega)) g7 (preOf_true _ _ _) hop.1 hopf
      refine ⟨l, H_and t s (hfbF 5 (by omega) (by omega)) g5 (hns hT) (hsub false false _ ?_) (HRest.cons_fail t s _ hl) (Or.inr ⟨l, rfl⟩)⟩
      rw [preOf_false, preOf_true, hq]
    · have g5 : (infixGrammar t)[E K + 5]? = some (mkNode t.white (.and [E (K - 1), E K + 7, E (K - 1), E K + 8, E (K - 1)]) true true) := by
        rw [gram_level t hK hlv (by omega)]; simp [levelNodes, ha, hr]
      have hopf : ¬ lv.op1 <+: s.drop (skipWhite t.white s (q + (renderB t e).length)) :=
        hf.2 K lv hK (Nat.le_refl _) hlv (by simp [ha])
      obtain ⟨l, hl⟩ := H_lit_fail t s (a := false) (c := true) (hfbF 7 (by omega) (by omega)) g7 (preOf_true _ _ _) hop.1 hopf
      refine ⟨l, H_and t s (hfbF 5 (by omega) (by omega)) g5 (hns hT) (hsub false false _ ?_) (HRest.cons_fail t s _ hl) (Or.inr ⟨l, rfl⟩)⟩
      rw [preOf_false, preOf_true, hq]
  obtain ⟨l, hbody⟩ := hbody
  have hm : Holds t s (E K + 2) q a true (.fail .parse l) := by
    apply H_and_fail0 t s (hfbF 2 (by omega) (by omega)) g2 (hns hT)
    rw [preOf_true, hq]
    apply H_fb_fail t s hfbT g3
    rw [preOf_false]; exact hbody
  have htail := tail_ok hT s (a := a) hK (hsub a true q (by rw [preOf_true, hq]))
  have hmf : Holds t s (E K + 1) q a false (.ok (q + (renderB t e).length) [nest t e]) :=
    H_mf_ok t s (hfbF 1 (by omega) (by omega)) g1 (HMf.skip t s hm htail)
  have := H_forward_ok t s (a := a) (c := c) (loc := loc) (hfbF 0 (by omega) (by omega)) g0 (by rw [hloc]; exact hmf)
  simpa using this

end lift
section apps
variable {t : Table} {cs : List Char} {re : Bool} (hT : ClassG t cs re) (s : List Char)
include hT

theorem white_not_cs {ws : List Char} (hw : White t.white ws) : ∀ c ∈ ws, c ∉ cs :=
  fun c hc hcs => hT.csW c hcs (hw c hc)

/-- `skipWhite` at the start of a spelling proper is the identity -/
theorem skip_at_body {e : Ex} (hwf : WFG t cs e) {q : Nat} {suf : List Char} (h : s.drop q = renderB t e ++ suf) :
    skipWhite t.white s q = q := by
  obtain ⟨c, r, hr, hc⟩ := renderB_head hT e hwf
  have := skipWhite_eq (W := t.white) (ws := []) (x := renderB t e ++ suf) (by simpa using h) (by simp)
    (by intro d hd; rw [hr] at hd; simp at hd; subst hd; exact hc)
  simpa using this

theorem skip_lead {e : Ex} (hwf : WFG t cs e) {q : Nat} {suf : List Char} (h : s.drop q = lead e ++ (renderB t e ++ suf)) :
    skipWhite t.white s q = q + (lead e).length := by
  obtain ⟨c, r, hr, hc⟩ := renderB_head hT e hwf
  exact skipWhite_eq h (lead_white hT e hwf) (by intro d hd; rw [hr] at hd; simp at hd; subst hd; exact hc)

/-- parenthesised expressions at level 0 -/
theorem goal_paren {wl wr : List Char} {e : Ex} (h : WFG t cs (.paren wl e wr))
    (ih : GoalG t cs s e t.levels.length) : GoalG t cs s (.paren wl e wr) 0 := by
  intro q suf hs hq hf a c loc hloc
  obtain ⟨_, hwr, hwf⟩ := h
  have hs0 : s.drop q = t.lpar ++ (lead e ++ (renderB t e ++ (wr ++ (t.rpar ++ suf)))) := by
    rw [hs]; simp [renderB, render_eq, List.append_assoc]
  have h1 := drop_add hs0
  have h2 := drop_add h1
  have h3 := drop_add h2
  have h4 := drop_add h3
  have hg0 : (infixGrammar t)[E 0]? = some (mkNode t.white (.matchFirst [2, nestedId t]) true false) := by
    rw [show E 0 = 0 from rfl, gram_header t (by omega)]; simp [header]
  have hg1 : (infixGrammar t)[1]? = some (mkNode t.white (.forward (some (E t.levels.length))) true true) := by
    rw [gram_header t (by omega)]; simp [header]
  have hg3 : (infixGrammar t)[3]? = some (mkNode t.white (litKind t.lpar) false true) := by
    rw [gram_header t (by omega)]; simp [header]
  have hg4 : (infixGrammar t)[4]? = some (mkNode t.white (.suppress 3) false true) := by
    rw [gram_header t (by omega)]; simp [header]
  have hg5 : (infixGrammar t)[5]? = some (mkNode t.white (litKind t.rpar) false true) := by
    rw [gram_header t (by omega)]; simp [header]
  have hg6 : (infixGrammar t)[6]? = some (mkNode t.white (.suppress 5) false true) := by
    rw [gram_header t (by omega)]; simp [header]
  have hg7 : (infixGrammar t)[7]? = some (mkNode t.white (.and [if t.lsup then 4 else 3, 1, if t.rsup then 6 else 5]) true true) := by
    rw [gram_header t (by omega)]; simp [header]
  have hg8 : (infixGrammar t)[8]? = some (mkNode t.white (.group 7) true true) := by
    rw [gram_header t (by omega)]; simp [header]
  have hfbh : ∀ j, j < 14 → (fbIds t).elem j = false := fun j hj => fb_header t hj
  obtain ⟨lc, lr, hlr⟩ := List.exists_cons_of_ne_nil hT.lparOk.1
  obtain ⟨rc, rr, hrr⟩ := List.exists_cons_of_ne_nil hT.rparOk.1
  have hlc := hT.lparOk.2 lc (by simp [hlr])
  have hrc := hT.rparOk.2 rc (by simp [hrr])
  -- base fails on the opening parenthesis
  obtain ⟨l0, hbase⟩ := H_word_fail t s (a := a) (c := true) (loc := loc) (fb_header t (by omega : 2 < 14)) (g_base hT)
    (pre_true_of hloc hq) (by intro d hd; rw [hs0, hlr] at hd; simp at hd; subst hd; exact hlc.2)
  -- positions
  have hq1 : skipWhite t.white s (q + t.lpar.length) = q + t.lpar.length + (lead e).length := skip_lead hT s hwf h1
  have hq2 : skipWhite t.white s (q + t.lpar.length + (lead e).length) = q + t.lpar.length + (lead e).length :=
    skip_at_body hT s hwf h2
  have hq3 : skipWhite t.white s (q + t.lpar.length + (lead e).length + (renderB t e).length)
      = q + t.lpar.length + (lead e).length + (renderB t e).length + wr.length :=
    skipWhite_eq h3 hwr (by intro d hd; rw [hrr] at hd; simp at hd; subst hd; exact hrc.1)
  -- what follows the inner expression
  have hfol : FollowG t cs s t.levels.length (q + t.lpar.length + (lead e).length + (renderB t e).length) := by
    constructor
    · exact next_not_cs h3 hrr hrc.2 (white_not_cs hT hwr)
    · intro j lv hj1 hjn hlv _
      rw [hq3, h4]
      have hp := hT.parInc lv (lv_mem hlv)
      exact not_prefix_append _ hp.2.2.1 hp.2.2.2
  -- the three elements of nested_expr; a kept parenthesis leaves its token
  have hLk : Holds t s 3 q a false (.ok (q + t.lpar.length) [.s t.lpar]) :=
    H_lit_ok t s (hfbh 3 (by omega)) hg3 (preOf_false _ _ _) hT.lparOk.1 hs0
  have hLs : Holds t s 4 q a false (.ok (q + t.lpar.length) []) := by
    apply H_suppress_ok t s (hfbh 4 (by omega)) hg4
    rw [preOf_false]; exact hLk
  have hM : Holds t s 1 (q + t.lpar.length) a true
      (.ok (q + t.lpar.length + (lead e).length + (renderB t e).length) [nest t e]) := by
    apply H_forward_ok t s (hfbh 1 (by omega)) hg1
    rw [preOf_true, hq1]
    exact ih _ _ h2 hq2 hfol a false _ (preOf_false _ _ _)
  have hRk : Holds t s 5 (q + t.lpar.length + (lead e).length + (renderB t e).length) a true
      (.ok (q + t.lpar.length + (lead e).length + (renderB t e).length + wr.length + t.rpar.length) [.s t.rpar]) :=
    H_lit_ok t s (hfbh 5 (by omega)) hg5 (by rw [preOf_true, hq3]) hT.rparOk.1 h4
  have hRs : Holds t s 6 (q + t.lpar.length + (lead e).length + (renderB t e).length) a true
      (.ok (q + t.lpar.length + (lead e).length + (renderB t e).length + wr.length + t.rpar.length) []) := by
    apply H_suppress_ok t s (hfbh 6 (by omega)) hg6
    rw [preOf_true, hq3]
    exact H_lit_ok t s (hfbh 5 (by omega)) hg5 (preOf_false _ _ _) hT.rparOk.1 h4
  have hN : ∀ (i1 i3 : Nat) (t1 t3 : List Tok),
      (infixGrammar t)[7]? = some (mkNode t.white (.and [i1, 1, i3]) true true) →
      Holds t s i1 q a false (.ok (q + t.lpar.length) t1) →
      Holds t s i3 (q + t.lpar.length + (lead e).length + (renderB t e).length) a true
        (.ok (q + t.lpar.length + (lead e).length + (renderB t e).length + wr.length + t.rpar.length) t3) →
      ∀ c' loc', preOf t.white s c' true loc' = q →
        Holds t s 7 loc' a c'
          (.ok (q + t.lpar.length + (lead e).length + (renderB t e).length + wr.length + t.rpar.length)
            (t1 ++ [nest t e] ++ t3)) := by
    intro i1 i3 t1 t3 g7 h1' h3' c' loc' hl'
    exact H_and t s (hfbh 7 (by omega)) g7 (hns hT) (by rw [hl']; exact h1')
      (HRest.cons_ok t s hM (HRest.cons_ok t s h3' (HRest.nil t s a _ _))) (Or.inl ⟨_, _, rfl⟩)
  have hlen : q + (renderB t (.paren wl e wr)).length
      = q + t.lpar.length + (lead e).length + (renderB t e).length + wr.length + t.rpar.length := by
    simp [renderB, render_eq, List.length_append]; omega
  rw [hlen]
  have hloc1 := pre_true_of hloc hq
  have hloc2 : preOf t.white s false true (preOf t.white s true true loc) = q := by rw [preOf_false]; exact hloc1
  have hfin : HMf t s a [nestedId t] loc
      (.ok (q + t.lpar.length + (lead e).length + (renderB t e).length + wr.length + t.rpar.length) [nest t (.paren wl e wr)]) := by
    cases hls : t.lsup <;> cases hrs : t.rsup <;> simp only [hls, hrs, Bool.false_eq_true, if_false, if_true] at hg7
    · have hn := hN 3 5 _ _ hg7 hLk hRk false _ hloc2
      have := H_group_ok t s (a := a) (c := true) (loc := loc) (hfbh 8 (by omega)) hg8 hn
      simpa [nest, nestedId, hls, hrs] using HMf.head t s [] this
    · have hn := hN 3 6 _ _ hg7 hLk hRs false _ hloc2
      have := H_group_ok t s (a := a) (c := true) (loc := loc) (hfbh 8 (by omega)) hg8 hn
      simpa [nest, nestedId, hls, hrs] using HMf.head t s [] this
    · have hn := hN 4 5 _ _ hg7 hLs hRk false _ hloc2
      have := H_group_ok t s (a := a) (c := true) (loc := loc) (hfbh 8 (by omega)) hg8 hn
      simpa [nest, nestedId, hls, hrs] using HMf.head t s [] this
    · have hn := hN 4 6 _ _ hg7 hLs hRs true loc hloc1
      simpa [nest, nestedId, hls, hrs] using HMf.head t s [] hn
  exact H_mf_ok t s (a := a) (c := c) (loc := loc) (hfbh 0 (by omega)) hg0 (HMf.skip t s hbase hfin)

end apps
section apps2
variable {t : Table} {cs : List Char} {re : Bool} (hT : ClassG t cs re) (s : List Char)
include hT

/-- a prefix operator application at its own level -/
theorem goal_pre {k : Nat} {wo : List Char} {e : Ex} (h : WFG t cs (.pre k wo e))
    (ih : GoalG t cs s e k) : GoalG t cs s (.pre k wo e) k := by
  intro q suf hs hq hf a c loc hloc
  obtain ⟨lv, hK, hlv, ha, hr, _, hwf, _⟩ := h
  have hKn : k ≤ t.levels.length := by
    have := (List.getElem?_eq_some_iff.mp hlv).1; omega
  have hkind := hT.kinds lv (lv_mem hlv)
  have hop := hT.opOk lv (lv_mem hlv)
  have hfbF : ∀ j, j < 14 → j ≠ 3 → (fbIds t).elem (E k + j) = false := by
    intro j hj h3; rw [fb_level t hK hKn hj]; simp [h3]
  have hfbT : (fbIds t).elem (E k + 3) = true := by rw [fb_level t hK hKn (by omega)]; simp
  have g0 : (infixGrammar t)[E k + 0]? = some (mkNode t.white (.forward (some (E k + 1))) true true) := by
    rw [gram_level t hK hlv (by omega)]; simp [levelNodes]
  have g1 : (infixGrammar t)[E k + 1]? = some (mkNode t.white (.matchFirst ((E k + 2) :: tailOf t k)) true false) := by
    rw [gram_level t hK hlv (by omega)]; simp [levelNodes]
  have g2 : (infixGrammar t)[E k + 2]? = some (mkNode t.white (.and [E k + 3, E k + 4]) true true) := by
    rw [gram_level t hK hlv (by omega)]; simp [levelNodes, hkind.1, mkNode]
  have g3 : (infixGrammar t)[E k + 3]? = some (mkNode t.white (.followedBy (E k + 5)) true true) := by
    rw [gram_level t hK hlv (by omega)]; simp [levelNodes]
  have g4 : (infixGrammar t)[E k + 4]? = some (mkNode t.white (.group (E k + 6)) true true) := by
    rw [gram_level t hK hlv (by omega)]; simp [levelNodes]
  have g5 : (infixGrammar t)[E k + 5]? = some (mkNode t.white (.and [E k + 7, E k]) true true) := by
    rw [gram_level t hK hlv (by omega)]; simp [levelNodes, ha, hr]
  have g6 : (infixGrammar t)[E k + 6]? = some (mkNode t.white (.and [E k + 8, E k]) true true) := by
    rw [gram_level t hK hlv (by omega)]; simp [levelNodes, ha, hr]
  have g7 : (infixGrammar t)[E k + 7]? = some (mkNode t.white (litKind lv.op1) false true) := by
    rw [gram_level t hK hlv (by omega)]; simp [levelNodes]
  have g8 : (infixGrammar t)[E k + 8]? = some (mkNode t.white (.opt (E k + 7) none) false true) := by
    rw [gram_level t hK hlv (by omega)]; simp [levelNodes, ha, hr]
  have hs0 : s.drop q = lv.op1 ++ (lead e ++ (renderB t e ++ suf)) := by
    rw [hs]; simp [renderB, render_eq, opOf_eq hlv, List.append_assoc]
  have h1 := drop_add hs0
  have h2 := drop_add h1
  have hq1 : skipWhite t.white s (q + lv.op1.length) = q + lv.op1.length + (lead e).length := skip_lead hT s hwf h1
  have hq2 := skip_at_body hT s hwf h2
  have hlen : q + (renderB t (.pre k wo e)).length = q + lv.op1.length + (lead e).length + (renderB t e).length := by
    simp [renderB, render_eq, opOf_eq hlv, List.length_append]; omega
  rw [hlen] at hf ⊢
  have hsub : ∀ a', Holds t s (E k) (q + lv.op1.length) a' true
      (.ok (q + lv.op1.length + (lead e).length + (renderB t e).length) [nest t e]) :=
    fun a' => ih _ _ h2 hq2 hf a' true _ (by rw [preOf_true, hq1])
  have hlit : ∀ a', Holds t s (E k + 7) q a' false (.ok (q + lv.op1.length) [.s lv.op1]) :=
    fun a' => H_lit_ok t s (hfbF 7 (by omega) (by omega)) g7 (preOf_false _ _ _) hop.1 hs0
  have hbody : Holds t s (E k + 5) q false true
      (.ok (q + lv.op1.length + (lead e).length + (renderB t e).length) ([.s lv.op1] ++ [nest t e])) :=
    H_and t s (hfbF 5 (by omega) (by omega)) g5 (hns hT) (by rw [preOf_true, hq]; exact hlit false)
      (HRest.cons_ok t s (hsub false) (HRest.nil t s _ _ _)) (Or.inl ⟨_, _, rfl⟩)
  have hfb : Holds t s (E k + 3) q a false (.ok q []) := by
    have := H_fb_ok t s (a := a) (c := false) (loc := q) hfbT g3 (by rw [preOf_false]; exact hbody)
    simpa [preOf_false] using this
  have hopt : Holds t s (E k + 8) q a false (.ok (q + lv.op1.length) [.s lv.op1]) :=
    H_opt_ok t s (hfbF 8 (by omega) (by omega)) g8 (by rw [preOf_false]; exact hlit a)
  have hgb : Holds t s (E k + 6) q a false
      (.ok (q + lv.op1.length + (lead e).length + (renderB t e).length) ([.s lv.op1] ++ [nest t e])) :=
    H_and t s (hfbF 6 (by omega) (by omega)) g6 (hns hT) (by rw [preOf_false]; exact hopt)
      (HRest.cons_ok t s (hsub a) (HRest.nil t s _ _ _)) (Or.inl ⟨_, _, rfl⟩)
  have hgrp : Holds t s (E k + 4) q a true
      (.ok (q + lv.op1.length + (lead e).length + (renderB t e).length) [.g ([.s lv.op1] ++ [nest t e])]) :=
    H_group_ok t s (hfbF 4 (by omega) (by omega)) g4 (by rw [preOf_true, hq]; exact hgb)
  have hm : Holds t s (E k + 2) q a true
      (.ok (q + lv.op1.length + (lead e).length + (renderB t e).length) ([] ++ [.g ([.s lv.op1] ++ [nest t e])])) :=
    H_and t s (hfbF 2 (by omega) (by omega)) g2 (hns hT) (by rw [preOf_true, hq]; exact hfb)
      (HRest.cons_ok t s hgrp (HRest.nil t s _ _ _)) (Or.inl ⟨_, _, rfl⟩)
  have hmf : Holds t s (E k + 1) q a false _ :=
    H_mf_ok t s (hfbF 1 (by omega) (by omega)) g1 (HMf.head t s _ hm)
  have := H_forward_ok t s (a := a) (c := c) (loc := loc) (hfbF 0 (by omega) (by omega)) g0 (by rw [hloc]; exact hmf)
  simpa [nest, opOf_eq hlv] using this

end apps2
section apps3
variable {t : Table} {cs : List Char} {re : Bool} (hT : ClassG t cs re) (s : List Char)
include hT

/-- a right-associative binary application at its own level -/
theorem goal_binR {k : Nat} {wo : List Char} {ea eb : Ex} (h : WFG t cs (.bin k ea wo eb))
    {lv : Level} (hlv : t.levels[k - 1]? = some lv) (hr : lv.right = true)
    (iha : GoalG t cs s ea (k - 1)) (ihb : GoalG t cs s eb k) : GoalG t cs s (.bin k ea wo eb) k := by
  intro q suf hs hq hf a c loc hloc
  obtain ⟨lv', hK, hlv', ha, hwo, hwa, hwb, _⟩ := h
  obtain rfl : lv = lv' := by rw [hlv] at hlv'; exact Option.some.inj hlv'
  have hKn : k ≤ t.levels.length := by
    have := (List.getElem?_eq_some_iff.mp hlv).1; omega
  have hkind := hT.kinds lv (lv_mem hlv)
  have hop := hT.opOk lv (lv_mem hlv)
  obtain ⟨oc, or', hor⟩ := List.exists_cons_of_ne_nil hop.1
  have hoc := hop.2 oc (by simp [hor])
  have hfbF : ∀ j, j < 14 → j ≠ 3 → (fbIds t).elem (E k + j) = false := by
    intro j hj h3; rw [fb_level t hK hKn hj]; simp [h3]
  have hfbT : (fbIds t).elem (E k + 3) = true := by rw [fb_level t hK hKn (by omega)]; simp
  have g0 : (infixGrammar t)[E k + 0]? = some (mkNode t.white (.forward (some (E k + 1))) true true) := by
    rw [gram_level t hK hlv (by omega)]; simp [levelNodes]
  have g1 : (infixGrammar t)[E k + 1]? = some (mkNode t.white (.matchFirst ((E k + 2) :: tailOf t k)) true false) := by
    rw [gram_level t hK hlv (by omega)]; simp [levelNodes]
  have g2 : (infixGrammar t)[E k + 2]? = some (mkNode t.white (.and [E k + 3, E k + 4]) true true) := by
    rw [gram_level t hK hlv (by omega)]; simp [levelNodes, hkind.1, mkNode]
  have g3 : (infixGrammar t)[E k + 3]? = some (mkNode t.white (.followedBy (E k + 5)) true true) := by
    rw [gram_level t hK hlv (by omega)]; simp [levelNodes]
  have g4 : (infixGrammar t)[E k + 4]? = some (mkNode t.white (.group (E k + 6)) true true) := by
    rw [gram_level t hK hlv (by omega)]; simp [levelNodes]
  have g5 : (infixGrammar t)[E k + 5]? = some (mkNode t.white (.and [E (k - 1), E k + 7, E k]) true true) := by
    rw [gram_level t hK hlv (by omega)]; simp [levelNodes, ha, hr]
  have g6 : (infixGrammar t)[E k + 6]? = some (mkNode t.white (.and [E (k - 1), E k + 9]) true true) := by
    rw [gram_level t hK hlv (by omega)]; simp [levelNodes, ha, hr]
  have g7 : (infixGrammar t)[E k + 7]? = some (mkNode t.white (litKind lv.op1) false true) := by
    rw [gram_level t hK hlv (by omega)]; simp [levelNodes]
  have g9 : (infixGrammar t)[E k + 9]? = some (mkNode t.white (.many (E k + 10) none true) true true) := by
    rw [gram_level t hK hlv (by omega)]; simp [levelNodes, ha, hr]
  have g10 : (infixGrammar t)[E k + 10]? = some (mkNode t.white (.and [E k + 7, E k]) true true) := by
    rw [gram_level t hK hlv (by omega)]; simp [levelNodes, ha, hr]
  have hs0 : s.drop q = renderB t ea ++ (wo ++ (lv.op1 ++ (lead eb ++ (renderB t eb ++ suf)))) := by
    rw [hs]; simp [renderB, render_eq, opOf_eq hlv, List.append_assoc]
  have h1 := drop_add hs0
  have h2 := drop_add h1
  have h3 := drop_add h2
  have h4 := drop_add h3
  have hpa : skipWhite t.white s (q + (renderB t ea).length) = q + (renderB t ea).length + wo.length :=
    skipWhite_eq h1 hwo (by intro d hd; rw [hor] at hd; simp at hd; subst hd; exact hoc.1)
  have hqo : skipWhite t.white s (q + (renderB t ea).length + wo.length) = q + (renderB t ea).length + wo.length := by
    have := skipWhite_eq (W := t.white) (ws := []) (x := lv.op1 ++ (lead eb ++ (renderB t eb ++ suf))) (by simpa using h2)
      (by simp) (by intro d hd; rw [hor] at hd; simp at hd; subst hd; exact hoc.1)
    simpa using this
  have hq1 := skip_lead hT s hwb h3
  have hq2 := skip_at_body hT s hwb h4
  have hlen : q + (renderB t (.bin k ea wo eb)).length
      = q + (renderB t ea).length + wo.length + lv.op1.length + (lead eb).length + (renderB t eb).length := by
    simp [renderB, render_eq, opOf_eq hlv, List.length_append]; omega
  rw [hlen] at hf ⊢
  have hfolA : FollowG t cs s (k - 1) (q + (renderB t ea).length) := by
    constructor
    · exact next_not_cs h1 hor hoc.2 (white_not_cs hT hwo)
    · intro j lvj hj1 hjk hlvj _
      rw [hpa, h2]
      exact not_prefix_append _ (hT.opsInc _ _ _ _ hlvj hlv (by omega)) (hT.opsInc _ _ _ _ hlv hlvj (by omega))
  have hA : ∀ a', Holds t s (E (k - 1)) q a' false (.ok (q + (renderB t ea).length) [nest t ea]) :=
    fun a' => iha q _ hs0 hq hfolA a' false q (preOf_false _ _ _)
  have hOp : ∀ a', Holds t s (E k + 7) (q + (renderB t ea).length) a' true
      (.ok (q + (renderB t ea).length + wo.length + lv.op1.length) [.s lv.op1]) :=
    fun a' => H_lit_ok t s (hfbF 7 (by omega) (by omega)) g7 (by rw [preOf_true, hpa]) hop.1 h2
  have hOp' : ∀ a', Holds t s (E k + 7) (q + (renderB t ea).length + wo.length) a' false
      (.ok (q + (renderB t ea).length + wo.length + lv.op1.length) [.s lv.op1]) :=
    fun a' => H_lit_ok t s (hfbF 7 (by omega) (by omega)) g7 (preOf_false _ _ _) hop.1 h2
  have hB : ∀ a', Holds t s (E k) (q + (renderB t ea).length + wo.length + lv.op1.length) a' true
      (.ok (q + (renderB t ea).length + wo.length + lv.op1.length + (lead eb).length + (renderB t eb).length) [nest t eb]) :=
    fun a' => ihb _ _ h4 hq2 hf a' true _ (by rw [preOf_true, hq1])
  have hbody : Holds t s (E k + 5) q false true
      (.ok (q + (renderB t ea).length + wo.length + lv.op1.length + (lead eb).length + (renderB t eb).length)
        ([nest t ea] ++ [.s lv.op1] ++ [nest t eb])) :=
    H_and t s (hfbF 5 (by omega) (by omega)) g5 (hns hT) (by rw [preOf_true, hq]; exact hA false)
      (HRest.cons_ok t s (hOp false) (HRest.cons_ok t s (hB false) (HRest.nil t s _ _ _))) (Or.inl ⟨_, _, rfl⟩)
  have hfb : Holds t s (E k + 3) q a false (.ok q []) := by
    have := H_fb_ok t s (a := a) (c := false) (loc := q) hfbT g3 (by rw [preOf_false]; exact hbody)
    simpa [preOf_false] using this
  -- one turn of the repetition, then the operator is missing
  have hturn : Holds t s (E k + 10) (q + (renderB t ea).length + wo.length) a true
      (.ok (q + (renderB t ea).length + wo.length + lv.op1.length + (lead eb).length + (renderB t eb).length)
        ([.s lv.op1] ++ [nest t eb])) :=
    H_and t s (hfbF 10 (by omega) (by omega)) g10 (hns hT) (by rw [preOf_true, hqo]; exact hOp' a)
      (HRest.cons_ok t s (hB a) (HRest.nil t s _ _ _)) (Or.inl ⟨_, _, rfl⟩)
  obtain ⟨lf, hfail⟩ := H_lit_fail t s (a := a) (c := false)
    (loc := skipWhite t.white s (q + (renderB t ea).length + wo.length + lv.op1.length + (lead eb).length + (renderB t eb).length))
    (hfbF 7 (by omega) (by omega)) g7 (preOf_false _ _ _) hop.1 (hf.2 k lv hK (Nat.le_refl _) hlv (by simp [ha]))
  have hstop : Holds t s (E k + 10)
      (q + (renderB t ea).length + wo.length + lv.op1.length + (lead eb).length + (renderB t eb).length) a true
      (.fail .parse lf) :=
    H_and_fail0 t s (hfbF 10 (by omega) (by omega)) g10 (hns hT) (by rw [preOf_true]; exact hfail)
  have hend : q + (renderB t ea).length + wo.length + lv.op1.length + (lead eb).length + (renderB t eb).length ≤ s.length := by
    obtain ⟨c0, r0, hr0, _⟩ := renderB_head hT eb hwb
    have := len_le_of_drop h4 (by rw [hr0]; simp)
    omega
  have hmany : Holds t s (E k + 9) (q + (renderB t ea).length) a true
      (.ok (q + (renderB t ea).length + wo.length + lv.op1.length + (lead eb).length + (renderB t eb).length)
        ([.s lv.op1] ++ [nest t eb])) :=
    H_many t s (hfbF 9 (by omega) (by omega)) g9 (by rw [preOf_true, hpa]; exact hturn) hend
      (HLoop.stop t s _ (by simp [mkNode]) hstop)
  have hgb : Holds t s (E k + 6) q a false
      (.ok (q + (renderB t ea).length + wo.length + lv.op1.length + (lead eb).length + (renderB t eb).length)
        ([nest t ea] ++ ([.s lv.op1] ++ [nest t eb]))) :=
    H_and t s (hfbF 6 (by omega) (by omega)) g6 (hns hT) (by rw [preOf_false]; exact hA a)
      (HRest.cons_ok t s hmany (HRest.nil t s _ _ _)) (Or.inl ⟨_, _, rfl⟩)
  have hgrp := H_group_ok t s (a := a) (c := true) (loc := q) (hfbF 4 (by omega) (by omega)) g4 (by rw [preOf_true, hq]; exact hgb)
  have hm := H_and t s (a := a) (c := true) (loc := q) (hfbF 2 (by omega) (by omega)) g2 (hns hT) (by rw [preOf_true, hq]; exact hfb)
      (HRest.cons_ok t s hgrp (HRest.nil t s _ _ _)) (Or.inl ⟨_, _, rfl⟩)
  have hmf := H_mf_ok t s (a := a) (c := false) (loc := q) (hfbF 1 (by omega) (by omega)) g1 (HMf.head t s _ hm)
  have := H_forward_ok t s (a := a) (c := c) (loc := loc) (hfbF 0 (by omega) (by omega)) g0 (by rw [hloc]; exact hmf)
  simpa [nest, rightOf, hlv, hr, opOf_eq hlv] using this

end apps3

/-- an operand of a chain of level `k`: a tree of a tighter level that level `k-1` parses -/
def OperandOK (t : Table) (cs s : List Char) (k : Nat) (x : Ex) : Prop :=
  WFG t cs x ∧ x.lvl < k ∧ GoalG t cs s x (k - 1)

def ChainOK (t : Table) (cs s : List Char) (k : Nat) (h : Ex) (rest : List (List Char × Ex)) : Prop :=
  OperandOK t cs s k h ∧ ∀ x ∈ rest, White t.white x.1 ∧ OperandOK t cs s k x.2

section binL
variable {t : Table} {cs : List Char} {re : Bool} (hT : ClassG t cs re) (s : List Char)
include hT

/-- inside a chain of level `k`, an operand is followed by nothing that level `k-1` could continue with -/
theorem follow_rest {k : Nat} {lv : Level} (hK : 1 ≤ k) (hlv : t.levels[k - 1]? = some lv)
    {p : Nat} {rest : List (List Char × Ex)} {suf : List Char}
    (hs : s.drop p = Left.restR t lv.op1 rest ++ suf) (hw : ∀ x ∈ rest, White t.white x.1)
    (hf : FollowG t cs s k (p + (Left.restR t lv.op1 rest).length)) : FollowG t cs s (k - 1) p := by
  cases rest with
  | nil => simpa [Left.restR] using hf.mono (k' := k - 1) (by omega)
  | cons x r =>
    have hop := hT.opOk lv (lv_mem hlv)
    obtain ⟨oc, or', hor⟩ := List.exists_cons_of_ne_nil hop.1
    have hoc := hop.2 oc (by simp [hor])
    have hwx := hw x (by simp)
    have hs0 : s.drop p = x.1 ++ (lv.op1 ++ (lead x.2 ++ (renderB t x.2 ++ (Left.restR t lv.op1 r ++ suf)))) := by
      rw [hs]; simp [Left.restR, List.append_assoc]
    have hpa : skipWhite t.white s p = p + x.1.length :=
      skipWhite_eq hs0 hwx (by intro d hd; rw [hor] at hd; simp at hd; subst hd; exact hoc.1)
    constructor
    · exact next_not_cs hs0 hor hoc.2 (white_not_cs hT hwx)
    · intro j lvj hj1 hjk hlvj _
      rw [hpa, drop_add hs0]
      exact not_prefix_append _ (hT.opsInc _ _ _ _ hlvj hlv (by omega)) (hT.opsInc _ _ _ _ hlv hlvj (by omega))

/-- a chain `h op x1 op … ` of a LEFT-associative binary level `k` at that level: the `_FB` lookahead succeeds on
    `h op x1`, then `Group(lastExpr + (opExpr + lastExpr)[1, ...])` collects the whole chain into ONE flat group; the
    repetition stops where the operator literal does not match -/
theorem chain_parse {k : Nat} {lv : Level} (hK : 1 ≤ k) (hlv : t.levels[k - 1]? = some lv)
    (ha : lv.arity = 2) (hr : lv.right = false) {h : Ex} {x1 : List Char × Ex} {r : List (List Char × Ex)}
    (hch : ChainOK t cs s k h (x1 :: r)) :
    ∀ q suf, s.drop q = renderB t h ++ (Left.restR t lv.op1 (x1 :: r) ++ suf) → skipWhite t.white s q = q →
      FollowG t cs s k (q + (renderB t h).length + (Left.restR t lv.op1 (x1 :: r)).length) →
      ∀ a c loc, preOf t.white s c true loc = q →
        Holds t s (E k) loc a c (.ok (q + (renderB t h).length + (Left.restR t lv.op1 (x1 :: r)).length)
          [.g (nest t h :: Left.restN t lv.op1 (x1 :: r))]) := by
  intro q suf hs hq hf a c loc hloc
  have hKn : k ≤ t.levels.length := by
    have := (List.getElem?_eq_some_iff.mp hlv).1; omega
  have hkind := hT.kinds lv (lv_mem hlv)
  have hop := hT.opOk lv (lv_mem hlv)
  obtain ⟨oc, or', hor⟩ := List.exists_cons_of_ne_nil hop.1
  have hoc := hop.2 oc (by simp [hor])
  have hfbF : ∀ j, j < 14 → j ≠ 3 → (fbIds t).elem (E k + j) = false := by
    intro j hj h3; rw [fb_level t hK hKn hj]; simp [h3]
  have hfbT : (fbIds t).elem (E k + 3) = true := by rw [fb_level t hK hKn (by omega)]; simp
  have g0 : (infixGrammar t)[E k + 0]? = some (mkNode t.white (.forward (some (E k + 1))) true true) := by
    rw [gram_level t hK hlv (by omega)]; simp [levelNodes]
  have g1 : (infixGrammar t)[E k + 1]? = some (mkNode t.white (.matchFirst ((E k + 2) :: tailOf t k)) true false) := by
    rw [gram_level t hK hlv (by omega)]; simp [levelNodes]
  have g2 : (infixGrammar t)[E k + 2]? = some (mkNode t.white (.and [E k + 3, E k + 4]) true true) := by
    rw [gram_level t hK hlv (by omega)]; simp [levelNodes, hkind.1, mkNode]
  have g3 : (infixGrammar t)[E k + 3]? = some (mkNode t.white (.followedBy (E k + 5)) true true) := by
    rw [gram_level t hK hlv (by omega)]; simp [levelNodes]
  have g4 : (infixGrammar t)[E k + 4]? = some (mkNode t.white (.group (E k + 6)) true true) := by
    rw [gram_level t hK hlv (by omega)]; simp [levelNodes]
  have g5 : (infixGrammar t)[E k + 5]? = some (mkNode t.white (.and [E (k - 1), E k + 7, E (k - 1)]) true true) := by
    rw [gram_level t hK hlv (by omega)]; simp [levelNodes, ha, hr]
  have g6 : (infixGrammar t)[E k + 6]? = some (mkNode t.white (.and [E (k - 1), E k + 9]) true true) := by
    rw [gram_level t hK hlv (by omega)]; simp [levelNodes, ha, hr]
  have g7 : (infixGrammar t)[E k + 7]? = some (mkNode t.white (litKind lv.op1) false true) := by
    rw [gram_level t hK hlv (by omega)]; simp [levelNodes]
  have g9 : (infixGrammar t)[E k + 9]? = some (mkNode t.white (.many (E k + 10) none true) true true) := by
    rw [gram_level t hK hlv (by omega)]; simp [levelNodes, ha, hr]
  have g10 : (infixGrammar t)[E k + 10]? = some (mkNode t.white (.and [E k + 7, E (k - 1)]) true true) := by
    rw [gram_level t hK hlv (by omega)]; simp [levelNodes, ha, hr]
  -- the operator and the operand after it, wherever they stand in the chain
  have piece : ∀ (p : Nat) (x : List Char × Ex) (suf' : List Char),
      s.drop p = x.1 ++ (lv.op1 ++ (lead x.2 ++ (renderB t x.2 ++ suf'))) →
      White t.white x.1 → OperandOK t cs s k x.2 →
      FollowG t cs s (k - 1) (p + x.1.length + lv.op1.length + (lead x.2).length + (renderB t x.2).length) →
      (∀ a' c' loc', preOf t.white s c' true loc' = p + x.1.length →
        Holds t s (E k + 7) loc' a' c' (.ok (p + x.1.length + lv.op1.length) [.s lv.op1])) ∧
      (∀ a', Holds t s (E (k - 1)) (p + x.1.length + lv.op1.length) a' true
        (.ok (p + x.1.length + lv.op1.length + (lead x.2).length + (renderB t x.2).length) [nest t x.2])) ∧
      skipWhite t.white s p = p + x.1.length ∧
      skipWhite t.white s (p + x.1.length) = p + x.1.length ∧
      p + x.1.length + lv.op1.length + (lead x.2).length + (renderB t x.2).length ≤ s.length := by
    intro p x suf' hs0 hwx hx hfx
    have h1 := drop_add hs0
    have h2 := drop_add h1
    have h3 := drop_add h2
    have hpa : skipWhite t.white s p = p + x.1.length :=
      skipWhite_eq hs0 hwx (by intro d hd; rw [hor] at hd; simp at hd; subst hd; exact hoc.1)
    have hqo : skipWhite t.white s (p + x.1.length) = p + x.1.length := by
      have := skipWhite_eq (W := t.white) (ws := []) (x := lv.op1 ++ (lead x.2 ++ (renderB t x.2 ++ suf'))) (by simpa using h1)
        (by simp) (by intro d hd; rw [hor] at hd; simp at hd; subst hd; exact hoc.1)
      simpa using this
    have hq1 := skip_lead hT s hx.1 h2
    have hq2 := skip_at_body hT s hx.1 h3
    refine ⟨?_, ?_, hpa, hqo, ?_⟩
    · intro a' c' loc' hl'
      exact H_lit_ok t s (hfbF 7 (by omega) (by omega)) g7 hl' hop.1 h1
    · intro a'
      exact hx.2.2 _ _ h3 hq2 hfx a' true _ (by rw [preOf_true, hq1])
    · obtain ⟨c0, r0, hr0, _⟩ := renderB_head hT x.2 hx.1
      have := len_le_of_drop h3 (by rw [hr0]; simp)
      omega
  -- one turn of the repetition
  have turn : ∀ (p : Nat) (x : List Char × Ex) (suf' : List Char),
      s.drop p = x.1 ++ (lv.op1 ++ (lead x.2 ++ (renderB t x.2 ++ suf'))) →
      White t.white x.1 → OperandOK t cs s k x.2 →
      FollowG t cs s (k - 1) (p + x.1.length + lv.op1.length + (lead x.2).length + (renderB t x.2).length) →
      ∀ a' loc', skipWhite t.white s loc' = p + x.1.length →
        Holds t s (E k + 10) loc' a' true
          (.ok (p + x.1.length + lv.op1.length + (lead x.2).length + (renderB t x.2).length) ([.s lv.op1] ++ [nest t x.2])) := by
    intro p x suf' hs0 hwx hx hfx a' loc' hl'
    obtain ⟨hOp, hB, _, _, _⟩ := piece p x suf' hs0 hwx hx hfx
    exact H_and t s (hfbF 10 (by omega) (by omega)) g10 (hns hT)
      (hOp a' false _ (by rw [preOf_false, preOf_true, hl']))
      (HRest.cons_ok t s (hB a') (HRest.nil t s _ _ _)) (Or.inl ⟨_, _, rfl⟩)
  -- the loop over the rest of the chain
  have loop : ∀ (r : List (List Char × Ex)) (p : Nat) (acc : List Tok) (suf' : List Char) (a' : Bool),
      s.drop p = Left.restR t lv.op1 r ++ suf' →
      (∀ x ∈ r, White t.white x.1 ∧ OperandOK t cs s k x.2) →
      FollowG t cs s k (p + (Left.restR t lv.op1 r).length) →
      HLoop t s (mkNode t.white (.many (E k + 10) none true) true true) a' (E k + 10) p acc
        (.ok (p + (Left.restR t lv.op1 r).length) (acc ++ Left.restN t lv.op1 r)) := by
    intro r
    induction r with
    | nil =>
      intro p acc suf' a' hsr _ hfr
      simp only [Left.restR, Left.restN, List.length_nil, Nat.add_zero, List.append_nil] at hfr ⊢
      obtain ⟨lf, hfail⟩ := H_lit_fail t s (a := a') (c := false) (loc := skipWhite t.white s p)
        (hfbF 7 (by omega) (by omega)) g7 (preOf_false _ _ _) hop.1 (hfr.2 k lv hK (Nat.le_refl _) hlv (by simp [ha]))
      exact HLoop.stop t s _ (by simp [mkNode])
        (H_and_fail0 t s (hfbF 10 (by omega) (by omega)) g10 (hns hT) (by rw [preOf_true]; exact hfail))
    | cons x r ih =>
      intro p acc suf' a' hsr hxr hfr
      have hs0 : s.drop p = x.1 ++ (lv.op1 ++ (lead x.2 ++ (renderB t x.2 ++ (Left.restR t lv.op1 r ++ suf')))) := by
        rw [hsr]; simp [Left.restR, List.append_assoc]
      have h4 := drop_add (drop_add (drop_add (drop_add hs0)))
      have hlen : p + (Left.restR t lv.op1 (x :: r)).length
          = p + x.1.length + lv.op1.length + (lead x.2).length + (renderB t x.2).length + (Left.restR t lv.op1 r).length := by
        simp [Left.restR, List.length_append]; omega
      rw [hlen] at hfr ⊢
      have hxr' : ∀ y ∈ r, White t.white y.1 ∧ OperandOK t cs s k y.2 := fun y hy => hxr y (by simp [hy])
      have hfx := follow_rest hT s hK hlv h4 (fun y hy => (hxr' y hy).1) hfr
      have hx := hxr x (by simp)
      obtain ⟨_, _, hpa, _, hle⟩ := piece p x _ hs0 hx.1 hx.2 hfx
      have ht := turn p x _ hs0 hx.1 hx.2 hfx a' p hpa
      have hpos : 0 < lv.op1.length := List.length_pos_iff.mpr hop.1
      have := ih _ (acc ++ ([.s lv.op1] ++ [nest t x.2])) suf' a' h4 hxr' hfr
      have e : acc ++ ([Tok.s lv.op1] ++ [nest t x.2]) ++ Left.restN t lv.op1 r = acc ++ Left.restN t lv.op1 (x :: r) := by
        simp [Left.restN]
      rw [e] at this
      exact HLoop.step t s (by simp [mkNode]) ht (by omega) hle this
  -- the chain
  have hs0 : s.drop q = renderB t h ++ (x1.1 ++ (lv.op1 ++ (lead x1.2 ++ (renderB t x1.2 ++ (Left.restR t lv.op1 r ++ suf))))) := by
    rw [hs]; simp [Left.restR, List.append_assoc]
  have h1 := drop_add hs0
  have h5 := drop_add (drop_add (drop_add (drop_add h1)))
  have hlen : q + (renderB t h).length + (Left.restR t lv.op1 (x1 :: r)).length
      = q + (renderB t h).length + x1.1.length + lv.op1.length + (lead x1.2).length + (renderB t x1.2).length
        + (Left.restR t lv.op1 r).length := by
    simp [Left.restR, List.length_append]; omega
  have hx1 := hch.2 x1 (by simp)
  have hxr : ∀ y ∈ r, White t.white y.1 ∧ OperandOK t cs s k y.2 := fun y hy => hch.2 y (by simp [hy])
  have hfolH : FollowG t cs s (k - 1) (q + (renderB t h).length) :=
    follow_rest hT s hK hlv (rest := x1 :: r) (suf := suf) (by rw [h1]; simp [Left.restR, List.append_assoc])
      (fun y hy => (hch.2 y hy).1) hf
  rw [hlen] at hf ⊢
  have hfol1 := follow_rest hT s hK hlv h5 (fun y hy => (hxr y hy).1) hf
  obtain ⟨hOp, hB, hpa, hqo, hle⟩ := piece _ x1 _ h1 hx1.1 hx1.2 hfol1
  have hA : ∀ a', Holds t s (E (k - 1)) q a' false (.ok (q + (renderB t h).length) [nest t h]) :=
    fun a' => hch.1.2.2 q _ hs0 hq hfolH a' false q (preOf_false _ _ _)
  have hbody : Holds t s (E k + 5) q false true
      (.ok (q + (renderB t h).length + x1.1.length + lv.op1.length + (lead x1.2).length + (renderB t x1.2).length)
        ([nest t h] ++ [.s lv.op1] ++ [nest t x1.2])) :=
    H_and t s (hfbF 5 (by omega) (by omega)) g5 (hns hT) (by rw [preOf_true, hq]; exact hA false)
      (HRest.cons_ok t s (hOp false true _ (by rw [preOf_true, hpa]))
        (HRest.cons_ok t s (hB false) (HRest.nil t s _ _ _))) (Or.inl ⟨_, _, rfl⟩)
  have hfb : Holds t s (E k + 3) q a false (.ok q []) := by
    have := H_fb_ok t s (a := a) (c := false) (loc := q) hfbT g3 (by rw [preOf_false]; exact hbody)
    simpa [preOf_false] using this
  have hturn := turn _ x1 _ h1 hx1.1 hx1.2 hfol1 a _ hqo
  have hloop := loop r _ ([.s lv.op1] ++ [nest t x1.2]) suf a h5 hxr hf
  have hmany : Holds t s (E k + 9) (q + (renderB t h).length) a true _ :=
    H_many t s (hfbF 9 (by omega) (by omega)) g9 (by rw [preOf_true, hpa]; exact hturn) hle hloop
  have hgb := H_and t s (a := a) (c := false) (loc := q) (hfbF 6 (by omega) (by omega)) g6 (hns hT)
      (by rw [preOf_false]; exact hA a) (HRest.cons_ok t s hmany (HRest.nil t s _ _ _)) (Or.inl ⟨_, _, rfl⟩)
  have hgrp := H_group_ok t s (a := a) (c := true) (loc := q) (hfbF 4 (by omega) (by omega)) g4 (by rw [preOf_true, hq]; exact hgb)
  have hm := H_and t s (a := a) (c := true) (loc := q) (hfbF 2 (by omega) (by omega)) g2 (hns hT) (by rw [preOf_true, hq]; exact hfb)
      (HRest.cons_ok t s hgrp (HRest.nil t s _ _ _)) (Or.inl ⟨_, _, rfl⟩)
  have hmf := H_mf_ok t s (a := a) (c := false) (loc := q) (hfbF 1 (by omega) (by omega)) g1 (HMf.head t s _ hm)
  have := H_forward_ok t s (a := a) (c := c) (loc := loc) (hfbF 0 (by omega) (by omega)) g0 (by rw [hloc]; exact hmf)
  simpa [Left.restN] using this

end binL


/-! ### postfix chains -/

/-- operand of the postfix chain of level `k` that `e` is (or `e` itself) -/
def pHead (k : Nat) : Ex → Ex
  | .post k' e wo => if k' = k then pHead k e else .post k' e wo
  | e => e

/-- the blanks before each postfix operator of the chain, front to back -/
def pRest (k : Nat) : Ex → List (List Char)
  | .post k' e wo => if k' = k then pRest k e ++ [wo] else []
  | _ => []

/-- spelling of the operators of the chain -/
def pR (op : List Char) : List (List Char) → List Char
  | [] => []
  | w :: r => w ++ (op ++ pR op r)

/-- their tokens in the flat group -/
def pN (op : List Char) : List (List Char) → List Tok
  | [] => []
  | _ :: r => .s op :: pN op r

theorem pR_append (op : List Char) (r1 r2 : List (List Char)) : pR op (r1 ++ r2) = pR op r1 ++ pR op r2 := by
  induction r1 with
  | nil => rfl
  | cons x r ih => simp [pR, ih, List.append_assoc]

theorem pN_append (op : List Char) (r1 r2 : List (List Char)) : pN op (r1 ++ r2) = pN op r1 ++ pN op r2 := by
  induction r1 with
  | nil => rfl
  | cons x r ih => simp [pN, ih]

theorem p_low {k : Nat} : ∀ e : Ex, e.lvl < k → pHead k e = e ∧ pRest k e = [] := by
  intro e h
  cases e with
  | post k' e wo =>
    simp only [Ex.lvl] at h
    have : k' ≠ k := by omega
    simp [pHead, pRest, this]
  | _ => simp [pHead, pRest]

theorem p_renderB (t : Table) (k : Nat) : ∀ e,
    renderB t e = renderB t (pHead k e) ++ pR (opOf t k) (pRest k e) := by
  intro e
  induction e with
  | post k' e wo ih =>
    by_cases h : k' = k
    · subst h
      simp only [pHead, pRest, if_true, renderB, pR_append, pR]
      rw [ih]
      simp [List.append_assoc]
    · simp [pHead, pRest, h, pR]
  | _ => simp [pHead, pRest, pR]

/-- the documented nesting of a postfix chain: one flat group -/
theorem p_nest (t : Table) (k : Nat) : ∀ (e : Ex) (wo : List Char),
    nest t (.post k e wo) = .g (nest t (pHead k e) :: pN (opOf t k) (pRest k e ++ [wo])) := by
  intro e
  induction e with
  | post k' e' w' ih =>
    intro wo
    by_cases h : k' = k
    · subst h
      conv => lhs; unfold nest
      rw [ih w']
      simp [pHead, pRest, pN_append, pN]
    · conv => lhs; unfold nest
      simp only [pHead, pRest, h, if_false, List.nil_append, pN]
      split
      · simp_all
      · rfl
  | _ => intro wo; simp [nest, pHead, pRest, pN]

section postL
variable {t : Table} {cs : List Char} {re : Bool} (hT : ClassG t cs re) (s : List Char)
include hT

theorem p_follow {k : Nat} {lv : Level} (hK : 1 ≤ k) (hlv : t.levels[k - 1]? = some lv)
    {p : Nat} {rest : List (List Char)} {suf : List Char}
    (hs : s.drop p = pR lv.op1 rest ++ suf) (hw : ∀ x ∈ rest, White t.white x)
    (hf : FollowG t cs s k (p + (pR lv.op1 rest).length)) : FollowG t cs s (k - 1) p := by
  cases rest with
  | nil => simpa [pR] using hf.mono (k' := k - 1) (by omega)
  | cons x r =>
    have hop := hT.opOk lv (lv_mem hlv)
    obtain ⟨oc, or', hor⟩ := List.exists_cons_of_ne_nil hop.1
    have hoc := hop.2 oc (by simp [hor])
    have hwx := hw x (by simp)
    have hs0 : s.drop p = x ++ (lv.op1 ++ (pR lv.op1 r ++ suf)) := by
      rw [hs]; simp [pR, List.append_assoc]
    have hpa : skipWhite t.white s p = p + x.length :=
      skipWhite_eq hs0 hwx (by intro d hd; rw [hor] at hd; simp at hd; subst hd; exact hoc.1)
    constructor
    · exact next_not_cs hs0 hor hoc.2 (white_not_cs hT hwx)
    · intro j lvj hj1 hjk hlvj _
      rw [hpa, drop_add hs0]
      exact not_prefix_append _ (hT.opsInc _ _ _ _ hlvj hlv (by omega)) (hT.opsInc _ _ _ _ hlv hlvj (by omega))

/-- a postfix chain `h op op …` of a POSTFIX level `k` at that level: the `_FB(lastExpr + opExpr)` lookahead succeeds,
    then `Group(lastExpr + opExpr[1, ...])` collects all the operators into ONE flat group; the repetition stops where
    the operator literal does not match -/
theorem post_parse {k : Nat} {lv : Level} (hK : 1 ≤ k) (hlv : t.levels[k - 1]? = some lv)
    (ha : lv.arity = 1) (hr : lv.right = false) {h : Ex} {w1 : List Char} {r : List (List Char)}
    (hh : OperandOK t cs s k h) (hw : ∀ w ∈ w1 :: r, White t.white w) :
    ∀ q suf, s.drop q = renderB t h ++ (pR lv.op1 (w1 :: r) ++ suf) → skipWhite t.white s q = q →
      FollowG t cs s k (q + (renderB t h).length + (pR lv.op1 (w1 :: r)).length) →
      ∀ a c loc, preOf t.white s c true loc = q →
        Holds t s (E k) loc a c (.ok (q + (renderB t h).length + (pR lv.op1 (w1 :: r)).length)
          [.g (nest t h :: pN lv.op1 (w1 :: r))]) := by
  intro q suf hs hq hf a c loc hloc
  have hKn : k ≤ t.levels.length := by
    have := (List.getElem?_eq_some_iff.mp hlv).1; omega
  have hkind := hT.kinds lv (lv_mem hlv)
  have hop := hT.opOk lv (lv_mem hlv)
  obtain ⟨oc, or', hor⟩ := List.exists_cons_of_ne_nil hop.1
  have hoc := hop.2 oc (by simp [hor])
  have hpos : 0 < lv.op1.length := List.length_pos_iff.mpr hop.1
  have hfbF : ∀ j, j < 14 → j ≠ 3 → (fbIds t).elem (E k + j) = false := by
    intro j hj h3; rw [fb_level t hK hKn hj]; simp [h3]
  have hfbT : (fbIds t).elem (E k + 3) = true := by rw [fb_level t hK hKn (by omega)]; simp
  have g0 : (infixGrammar t)[E k + 0]? = some (mkNode t.white (.forward (some (E k + 1))) true true) := by
    rw [gram_level t hK hlv (by omega)]; simp [levelNodes]
  have g1 : (infixGrammar t)[E k + 1]? = some (mkNode t.white (.matchFirst ((E k + 2) :: tailOf t k)) true false) := by
    rw [gram_level t hK hlv (by omega)]; simp [levelNodes]
  have g2 : (infixGrammar t)[E k + 2]? = some (mkNode t.white (.and [E k + 3, E k + 4]) true true) := by
    rw [gram_level t hK hlv (by omega)]; simp [levelNodes, hkind.1, mkNode]
  have g3 : (infixGrammar t)[E k + 3]? = some (mkNode t.white (.followedBy (E k + 5)) true true) := by
    rw [gram_level t hK hlv (by omega)]; simp [levelNodes]
  have g4 : (infixGrammar t)[E k + 4]? = some (mkNode t.white (.group (E k + 6)) true true) := by
    rw [gram_level t hK hlv (by omega)]; simp [levelNodes]
  have g5 : (infixGrammar t)[E k + 5]? = some (mkNode t.white (.and [E (k - 1), E k + 7]) true true) := by
    rw [gram_level t hK hlv (by omega)]; simp [levelNodes, ha, hr]
  have g6 : (infixGrammar t)[E k + 6]? = some (mkNode t.white (.and [E (k - 1), E k + 9]) true true) := by
    rw [gram_level t hK hlv (by omega)]; simp [levelNodes, ha, hr]
  have g7 : (infixGrammar t)[E k + 7]? = some (mkNode t.white (litKind lv.op1) false true) := by
    rw [gram_level t hK hlv (by omega)]; simp [levelNodes]
  have g9 : (infixGrammar t)[E k + 9]? = some (mkNode t.white (.many (E k + 7) none true) false true) := by
    rw [gram_level t hK hlv (by omega)]; simp [levelNodes, ha, hr]
  -- one operator of the chain, wherever it stands
  have piece : ∀ (p : Nat) (w suf' : List Char), s.drop p = w ++ (lv.op1 ++ suf') → White t.white w →
      (∀ a' c' loc', preOf t.white s c' true loc' = p + w.length →
        Holds t s (E k + 7) loc' a' c' (.ok (p + w.length + lv.op1.length) [.s lv.op1])) ∧
      skipWhite t.white s p = p + w.length ∧
      skipWhite t.white s (p + w.length) = p + w.length ∧
      p + w.length + lv.op1.length ≤ s.length := by
    intro p w suf' hs0 hwx
    have h1 := drop_add hs0
    have hpa : skipWhite t.white s p = p + w.length :=
      skipWhite_eq hs0 hwx (by intro d hd; rw [hor] at hd; simp at hd; subst hd; exact hoc.1)
    have hqo : skipWhite t.white s (p + w.length) = p + w.length := by
      have := skipWhite_eq (W := t.white) (ws := []) (x := lv.op1 ++ suf') (by simpa using h1)
        (by simp) (by intro d hd; rw [hor] at hd; simp at hd; subst hd; exact hoc.1)
      simpa using this
    refine ⟨?_, hpa, hqo, len_le_of_drop h1 hop.1⟩
    intro a' c' loc' hl'
    exact H_lit_ok t s (hfbF 7 (by omega) (by omega)) g7 hl' hop.1 h1
  -- the loop over the rest of the chain
  have loop : ∀ (r : List (List Char)) (p : Nat) (acc : List Tok) (suf' : List Char) (a' : Bool),
      s.drop p = pR lv.op1 r ++ suf' → (∀ w ∈ r, White t.white w) →
      FollowG t cs s k (p + (pR lv.op1 r).length) →
      HLoop t s (mkNode t.white (.many (E k + 7) none true) false true) a' (E k + 7) p acc
        (.ok (p + (pR lv.op1 r).length) (acc ++ pN lv.op1 r)) := by
    intro r
    induction r with
    | nil =>
      intro p acc suf' a' hsr _ hfr
      simp only [pR, pN, List.length_nil, Nat.add_zero, List.append_nil] at hfr ⊢
      obtain ⟨lf, hfail⟩ := H_lit_fail t s (a := a') (c := true) (loc := p)
        (hfbF 7 (by omega) (by omega)) g7 (preOf_true _ _ _) hop.1 (hfr.2 k lv hK (Nat.le_refl _) hlv (by simp [hr]))
      exact HLoop.stop t s _ (by simp [mkNode]) hfail
    | cons w r ih =>
      intro p acc suf' a' hsr hxr hfr
      have hs0 : s.drop p = w ++ (lv.op1 ++ (pR lv.op1 r ++ suf')) := by
        rw [hsr]; simp [pR, List.append_assoc]
      have h2 := drop_add (drop_add hs0)
      have hlen : p + (pR lv.op1 (w :: r)).length = p + w.length + lv.op1.length + (pR lv.op1 r).length := by
        simp [pR, List.length_append]; omega
      rw [hlen] at hfr ⊢
      have hxr' : ∀ y ∈ r, White t.white y := fun y hy => hxr y (by simp [hy])
      obtain ⟨hOp, hpa, _, hle⟩ := piece p w _ hs0 (hxr w (by simp))
      have := ih _ (acc ++ [.s lv.op1]) suf' a' h2 hxr' hfr
      have e : acc ++ [Tok.s lv.op1] ++ pN lv.op1 r = acc ++ pN lv.op1 (w :: r) := by simp [pN]
      rw [e] at this
      exact HLoop.step t s (by simp [mkNode]) (hOp a' true p (by rw [preOf_true, hpa])) (by omega) hle this
  -- the chain
  have hs0 : s.drop q = renderB t h ++ (w1 ++ (lv.op1 ++ (pR lv.op1 r ++ suf))) := by
    rw [hs]; simp [pR, List.append_assoc]
  have h1 := drop_add hs0
  have h3 := drop_add (drop_add h1)
  have hlen : q + (renderB t h).length + (pR lv.op1 (w1 :: r)).length
      = q + (renderB t h).length + w1.length + lv.op1.length + (pR lv.op1 r).length := by
    simp [pR, List.length_append]; omega
  have hwr : ∀ y ∈ r, White t.white y := fun y hy => hw y (by simp [hy])
  have hfolH : FollowG t cs s (k - 1) (q + (renderB t h).length) :=
    p_follow hT s hK hlv (rest := w1 :: r) (suf := suf) (by rw [h1]; simp [pR, List.append_assoc]) hw hf
  rw [hlen] at hf ⊢
  obtain ⟨hOp, hpa, hqo, hle⟩ := piece _ w1 _ h1 (hw w1 (by simp))
  have hA : ∀ a', Holds t s (E (k - 1)) q a' false (.ok (q + (renderB t h).length) [nest t h]) :=
    fun a' => hh.2.2 q _ hs0 hq hfolH a' false q (preOf_false _ _ _)
  have hbody : Holds t s (E k + 5) q false true
      (.ok (q + (renderB t h).length + w1.length + lv.op1.length) ([nest t h] ++ [.s lv.op1])) :=
    H_and t s (hfbF 5 (by omega) (by omega)) g5 (hns hT) (by rw [preOf_true, hq]; exact hA false)
      (HRest.cons_ok t s (hOp false true _ (by rw [preOf_true, hpa])) (HRest.nil t s _ _ _)) (Or.inl ⟨_, _, rfl⟩)
  have hfb : Holds t s (E k + 3) q a false (.ok q []) := by
    have := H_fb_ok t s (a := a) (c := false) (loc := q) hfbT g3 (by rw [preOf_false]; exact hbody)
    simpa [preOf_false] using this
  have hloop := loop r _ [.s lv.op1] suf a h3 hwr hf
  have hmany : Holds t s (E k + 9) (q + (renderB t h).length) a true _ :=
    H_many t s (hfbF 9 (by omega) (by omega)) g9
      (by rw [preOf_true, hpa]; exact hOp a true _ (by rw [preOf_true, hqo])) hle hloop
  have hgb := H_and t s (a := a) (c := false) (loc := q) (hfbF 6 (by omega) (by omega)) g6 (hns hT)
      (by rw [preOf_false]; exact hA a) (HRest.cons_ok t s hmany (HRest.nil t s _ _ _)) (Or.inl ⟨_, _, rfl⟩)
  have hgrp := H_group_ok t s (a := a) (c := true) (loc := q) (hfbF 4 (by omega) (by omega)) g4 (by rw [preOf_true, hq]; exact hgb)
  have hm := H_and t s (a := a) (c := true) (loc := q) (hfbF 2 (by omega) (by omega)) g2 (hns hT) (by rw [preOf_true, hq]; exact hfb)
      (HRest.cons_ok t s hgrp (HRest.nil t s _ _ _)) (Or.inl ⟨_, _, rfl⟩)
  have hmf := H_mf_ok t s (a := a) (c := false) (loc := q) (hfbF 1 (by omega) (by omega)) g1 (HMf.head t s _ hm)
  have := H_forward_ok t s (a := a) (c := c) (loc := loc) (hfbF 0 (by omega) (by omega)) g0 (by rw [hloc]; exact hmf)
  simpa [pN] using this

end postL

/-! ### right-associative ternary levels -/

theorem op2Of_eq {t : Table} {k : Nat} {lv : Level} (h : t.levels[k - 1]? = some lv) : op2Of t k = lv.op2 := by
  simp [op2Of, h]

section ternR
variable {t : Table} {cs : List Char} {re : Bool} (hT : ClassG t cs re) (s : List Char)
include hT

/-- a RIGHT-associative ternary application `a op1 b op2 c` at its own level:
    `_FB(lastExpr + op1 + thisExpr + op2 + thisExpr) + Group(lastExpr + op1 + thisExpr + op2 + thisExpr)` -/
theorem goal_ternR {k : Nat} {w1 w2 : List Char} {ea eb ec : Ex} (h : WFG t cs (.tern k ea w1 eb w2 ec))
    {lv : Level} (hlv : t.levels[k - 1]? = some lv) (hr : lv.right = true)
    (iha : GoalG t cs s ea (k - 1)) (ihb : GoalG t cs s eb k) (ihc : GoalG t cs s ec k) :
    GoalG t cs s (.tern k ea w1 eb w2 ec) k := by
  intro q suf hs hq hf a c loc hloc
  obtain ⟨lv', hK, hlv', ha, hw1, hw2, hwa, hwb, hwc, _⟩ := h
  obtain rfl : lv = lv' := by rw [hlv] at hlv'; exact Option.some.inj hlv'
  have hKn : k ≤ t.levels.length := by
    have := (List.getElem?_eq_some_iff.mp hlv).1; omega
  have hkind := hT.kinds lv (lv_mem hlv)
  have hop := hT.opOk lv (lv_mem hlv)
  have hop2 := hT.op2Ok lv (lv_mem hlv) ha
  obtain ⟨oc, or', hor⟩ := List.exists_cons_of_ne_nil hop.1
  have hoc := hop.2 oc (by simp [hor])
  obtain ⟨pc, pr', hpr⟩ := List.exists_cons_of_ne_nil hop2.1
  have hpc := hop2.2 pc (by simp [hpr])
  have hfbF : ∀ j, j < 14 → j ≠ 3 → (fbIds t).elem (E k + j) = false := by
    intro j hj h3; rw [fb_level t hK hKn hj]; simp [h3]
  have hfbT : (fbIds t).elem (E k + 3) = true := by rw [fb_level t hK hKn (by omega)]; simp
  have g0 : (infixGrammar t)[E k + 0]? = some (mkNode t.white (.forward (some (E k + 1))) true true) := by
    rw [gram_level t hK hlv (by omega)]; simp [levelNodes]
  have g1 : (infixGrammar t)[E k + 1]? = some (mkNode t.white (.matchFirst ((E k + 2) :: tailOf t k)) true false) := by
    rw [gram_level t hK hlv (by omega)]; simp [levelNodes]
  have g2 : (infixGrammar t)[E k + 2]? = some (mkNode t.white (.and [E k + 3, E k + 4]) true true) := by
    rw [gram_level t hK hlv (by omega)]; simp [levelNodes, hkind.1, mkNode]
  have g3 : (infixGrammar t)[E k + 3]? = some (mkNode t.white (.followedBy (E k + 5)) true true) := by
    rw [gram_level t hK hlv (by omega)]; simp [levelNodes]
  have g4 : (infixGrammar t)[E k + 4]? = some (mkNode t.white (.group (E k + 6)) true true) := by
    rw [gram_level t hK hlv (by omega)]; simp [levelNodes]
  have g5 : (infixGrammar t)[E k + 5]? = some (mkNode t.white (.and [E (k - 1), E k + 7, E k, E k + 8, E k]) true true) := by
    rw [gram_level t hK hlv (by omega)]; simp [levelNodes, ha, hr]
  have g6 : (infixGrammar t)[E k + 6]? = some (mkNode t.white (.and [E (k - 1), E k + 11, E k, E k + 12, E k]) true true) := by
    rw [gram_level t hK hlv (by omega)]; simp [levelNodes, ha, hr]
  have g7 : (infixGrammar t)[E k + 7]? = some (mkNode t.white (litKind lv.op1) false true) := by
    rw [gram_level t hK hlv (by omega)]; simp [levelNodes]
  have g8 : (infixGrammar t)[E k + 8]? = some (mkNode t.white (litKind lv.op2) false true) := by
    rw [gram_level t hK hlv (by omega)]; simp [levelNodes, ha, hr]
  have g11 : (infixGrammar t)[E k + 11]? = some (mkNode t.white (litKind lv.op1) false true) := by
    rw [gram_level t hK hlv (by omega)]; simp [levelNodes, ha]
  have g12 : (infixGrammar t)[E k + 12]? = some (mkNode t.white (litKind lv.op2) false true) := by
    rw [gram_level t hK hlv (by omega)]; simp [levelNodes, ha]
  have hs0 : s.drop q = renderB t ea ++ (w1 ++ (lv.op1 ++ (lead eb ++ (renderB t eb ++
      (w2 ++ (lv.op2 ++ (lead ec ++ (renderB t ec ++ suf)))))))) := by
    rw [hs]; simp [renderB, render_eq, opOf_eq hlv, op2Of_eq hlv, List.append_assoc]
  have h1 := drop_add hs0
  have h2 := drop_add h1
  have h3 := drop_add h2
  have h4 := drop_add h3
  have h5 := drop_add h4
  have h6 := drop_add h5
  have h7 := drop_add h6
  have h8 := drop_add h7
  have hpa : skipWhite t.white s (q + (renderB t ea).length) = q + (renderB t ea).length + w1.length :=
    skipWhite_eq h1 hw1 (by intro d hd; rw [hor] at hd; simp at hd; subst hd; exact hoc.1)
  have hqb1 := skip_lead hT s hwb h3
  have hqb2 := skip_at_body hT s hwb h4
  have hpb := skipWhite_eq h5 hw2 (by intro d hd; rw [hpr] at hd; simp at hd; subst hd; exact hpc.1)
  have hqc1 := skip_lead hT s hwc h7
  have hqc2 := skip_at_body hT s hwc h8
  have hlen : q + (renderB t (.tern k ea w1 eb w2 ec)).length
      = q + (renderB t ea).length + w1.length + lv.op1.length + (lead eb).length + (renderB t eb).length
        + w2.length + lv.op2.length + (lead ec).length + (renderB t ec).length := by
    simp [renderB, render_eq, opOf_eq hlv, op2Of_eq hlv, List.length_append]; omega
  rw [hlen] at hf ⊢
  have hfolA : FollowG t cs s (k - 1) (q + (renderB t ea).length) := by
    constructor
    · exact next_not_cs h1 hor hoc.2 (white_not_cs hT hw1)
    · intro j lvj hj1 hjk hlvj _
      rw [hpa, h2]
      exact not_prefix_append _ (hT.opsInc _ _ _ _ hlvj hlv (by omega)) (hT.opsInc _ _ _ _ hlv hlvj (by omega))
  have hfolB : FollowG t cs s k
      (q + (renderB t ea).length + w1.length + lv.op1.length + (lead eb).length + (renderB t eb).length) := by
    constructor
    · exact next_not_cs h5 hpr hpc.2 (white_not_cs hT hw2)
    · intro j lvj hj1 hjk hlvj _
      rw [hpb, h6]
      have := hT.op2Inc lv (lv_mem hlv) lvj (lv_mem hlvj) ha
      exact not_prefix_append _ this.1 this.2
  have hA : ∀ a', Holds t s (E (k - 1)) q a' false (.ok (q + (renderB t ea).length) [nest t ea]) :=
    fun a' => iha q _ hs0 hq hfolA a' false q (preOf_false _ _ _)
  have hOp1 : ∀ id, id = 7 ∨ id = 11 → ∀ a', Holds t s (E k + id) (q + (renderB t ea).length) a' true
      (.ok (q + (renderB t ea).length + w1.length + lv.op1.length) [.s lv.op1]) := by
    intro id hid a'
    rcases hid with rfl | rfl
    · exact H_lit_ok t s (hfbF 7 (by omega) (by omega)) g7 (by rw [preOf_true, hpa]) hop.1 h2
    · exact H_lit_ok t s (hfbF 11 (by omega) (by omega)) g11 (by rw [preOf_true, hpa]) hop.1 h2
  have hB : ∀ a', Holds t s (E k) (q + (renderB t ea).length + w1.length + lv.op1.length) a' true
      (.ok (q + (renderB t ea).length + w1.length + lv.op1.length + (lead eb).length + (renderB t eb).length) [nest t eb]) :=
    fun a' => ihb _ _ h4 hqb2 hfolB a' true _ (by rw [preOf_true, hqb1])
  have hOp2 : ∀ id, id = 8 ∨ id = 12 → ∀ a', Holds t s (E k + id)
      (q + (renderB t ea).length + w1.length + lv.op1.length + (lead eb).length + (renderB t eb).length) a' true
      (.ok (q + (renderB t ea).length + w1.length + lv.op1.length + (lead eb).length + (renderB t eb).length
        + w2.length + lv.op2.length) [.s lv.op2]) := by
    intro id hid a'
    rcases hid with rfl | rfl
    · exact H_lit_ok t s (hfbF 8 (by omega) (by omega)) g8 (by rw [preOf_true, hpb]) hop2.1 h6
    · exact H_lit_ok t s (hfbF 12 (by omega) (by omega)) g12 (by rw [preOf_true, hpb]) hop2.1 h6
  have hC : ∀ a', Holds t s (E k) (q + (renderB t ea).length + w1.length + lv.op1.length + (lead eb).length + (renderB t eb).length
        + w2.length + lv.op2.length) a' true
      (.ok (q + (renderB t ea).length + w1.length + lv.op1.length + (lead eb).length + (renderB t eb).length
        + w2.length + lv.op2.length + (lead ec).length + (renderB t ec).length) [nest t ec]) :=
    fun a' => ihc _ _ h8 hqc2 hf a' true _ (by rw [preOf_true, hqc1])
  have hbody := H_and t s (a := false) (c := true) (loc := q) (hfbF 5 (by omega) (by omega)) g5 (hns hT)
      (by rw [preOf_true, hq]; exact hA false)
      (HRest.cons_ok t s (hOp1 7 (Or.inl rfl) false) (HRest.cons_ok t s (hB false)
        (HRest.cons_ok t s (hOp2 8 (Or.inl rfl) false) (HRest.cons_ok t s (hC false) (HRest.nil t s _ _ _)))))
      (Or.inl ⟨_, _, rfl⟩)
  have hfb : Holds t s (E k + 3) q a false (.ok q []) := by
    have := H_fb_ok t s (a := a) (c := false) (loc := q) hfbT g3 (by rw [preOf_false]; exact hbody)
    simpa [preOf_false] using this
  have hgb := H_and t s (a := a) (c := false) (loc := q) (hfbF 6 (by omega) (by omega)) g6 (hns hT)
      (by rw [preOf_false]; exact hA a)
      (HRest.cons_ok t s (hOp1 11 (Or.inr rfl) a) (HRest.cons_ok t s (hB a)
        (HRest.cons_ok t s (hOp2 12 (Or.inr rfl) a) (HRest.cons_ok t s (hC a) (HRest.nil t s _ _ _)))))
      (Or.inl ⟨_, _, rfl⟩)
  have hgrp := H_group_ok t s (a := a) (c := true) (loc := q) (hfbF 4 (by omega) (by omega)) g4 (by rw [preOf_true, hq]; exact hgb)
  have hm := H_and t s (a := a) (c := true) (loc := q) (hfbF 2 (by omega) (by omega)) g2 (hns hT) (by rw [preOf_true, hq]; exact hfb)
      (HRest.cons_ok t s hgrp (HRest.nil t s _ _ _)) (Or.inl ⟨_, _, rfl⟩)
  have hmf := H_mf_ok t s (a := a) (c := false) (loc := q) (hfbF 1 (by omega) (by omega)) g1 (HMf.head t s _ hm)
  have := H_forward_ok t s (a := a) (c := c) (loc := loc) (hfbF 0 (by omega) (by omega)) g0 (by rw [hloc]; exact hmf)
  simpa [nest, rightOf, hlv, hr, opOf_eq hlv, op2Of_eq hlv] using this

end ternR

/-! ### left-associative ternary chains -/

/-- one turn of a ternary chain: blanks, middle operand, blanks, last operand -/
abbrev TItem := List Char × Ex × List Char × Ex

def tHead (k : Nat) : Ex → Ex
  | .tern k' a w1 b w2 c => if k' = k then tHead k a else .tern k' a w1 b w2 c
  | e => e

def tRest (k : Nat) : Ex → List TItem
  | .tern k' a w1 b w2 c => if k' = k then tRest k a ++ [(w1, b, w2, c)] else []
  | _ => []

def tR (t : Table) (op1 op2 : List Char) : List TItem → List Char
  | [] => []
  | x :: r => x.1 ++ (op1 ++ (lead x.2.1 ++ (renderB t x.2.1 ++ (x.2.2.1 ++ (op2 ++ (lead x.2.2.2 ++
      (renderB t x.2.2.2 ++ tR t op1 op2 r)))))))

def tN (t : Table) (op1 op2 : List Char) : List TItem → List Tok
  | [] => []
  | x :: r => .s op1 :: nest t x.2.1 :: .s op2 :: nest t x.2.2.2 :: tN t op1 op2 r

theorem tR_append (t : Table) (op1 op2 : List Char) (r1 r2 : List TItem) :
    tR t op1 op2 (r1 ++ r2) = tR t op1 op2 r1 ++ tR t op1 op2 r2 := by
  induction r1 with
  | nil => rfl
  | cons x r ih => simp [tR, ih, List.append_assoc]

theorem tN_append (t : Table) (op1 op2 : List Char) (r1 r2 : List TItem) :
    tN t op1 op2 (r1 ++ r2) = tN t op1 op2 r1 ++ tN t op1 op2 r2 := by
  induction r1 with
  | nil => rfl
  | cons x r ih => simp [tN, ih]

theorem t_low {k : Nat} : ∀ e : Ex, e.lvl < k → tHead k e = e ∧ tRest k e = [] := by
  intro e h
  cases e with
  | tern k' a w1 b w2 c =>
    simp only [Ex.lvl] at h
    have : k' ≠ k := by omega
    simp [tHead, tRest, this]
  | _ => simp [tHead, tRest]

theorem t_renderB (t : Table) (k : Nat) : ∀ e,
    renderB t e = renderB t (tHead k e) ++ tR t (opOf t k) (op2Of t k) (tRest k e) := by
  intro e
  induction e with
  | tern k' a w1 b w2 c iha ihb ihc =>
    by_cases h : k' = k
    · subst h
      simp only [tHead, tRest, if_true, renderB, tR_append, tR]
      rw [iha]
      simp [render_eq, List.append_assoc]
    · simp [tHead, tRest, h, tR]
  | _ => simp [tHead, tRest, tR]

/-- the documented nesting of a left-associative ternary chain: one flat group -/
theorem t_nest (t : Table) (k : Nat) (hr : rightOf t k = false) : ∀ (a : Ex) (w1 : List Char) (b : Ex) (w2 : List Char) (c : Ex),
    nest t (.tern k a w1 b w2 c)
      = .g (nest t (tHead k a) :: tN t (opOf t k) (op2Of t k) (tRest k a ++ [(w1, b, w2, c)])) := by
  intro a
  induction a with
  | tern k' a' v1 b' v2 c' iha ihb ihc =>
    intro w1 b w2 c
    by_cases h : k' = k
    · subst h
      conv => lhs; unfold nest
      simp only [hr, Bool.false_eq_true, if_false]
      rw [iha v1 b' v2 c']
      simp [tHead, tRest, tN_append, tN]
    · conv => lhs; unfold nest
      simp only [hr, Bool.false_eq_true, if_false]
      simp only [tHead, tRest, h, if_false, List.nil_append, tN]
      split
      · simp_all
      · rfl
  | _ => intro w1 b w2 c; simp [nest, hr, tHead, tRest, tN]

def TChainOK (t : Table) (cs s : List Char) (k : Nat) (h : Ex) (rest : List TItem) : Prop :=
  OperandOK t cs s k h ∧ ∀ x ∈ rest, White t.white x.1 ∧ OperandOK t cs s k x.2.1 ∧
    White t.white x.2.2.1 ∧ OperandOK t cs s k x.2.2.2

section ternL
variable {t : Table} {cs : List Char} {re : Bool} (hT : ClassG t cs re) (s : List Char)
include hT

theorem t_follow {k : Nat} {lv : Level} (hK : 1 ≤ k) (hlv : t.levels[k - 1]? = some lv)
    {p : Nat} {rest : List TItem} {suf : List Char}
    (hs : s.drop p = tR t lv.op1 lv.op2 rest ++ suf) (hw : ∀ x ∈ rest, White t.white x.1)
    (hf : FollowG t cs s k (p + (tR t lv.op1 lv.op2 rest).length)) : FollowG t cs s (k - 1) p := by
  cases rest with
  | nil => simpa [tR] using hf.mono (k' := k - 1) (by omega)
  | cons x r =>
    have hop := hT.opOk lv (lv_mem hlv)
    obtain ⟨oc, or', hor⟩ := List.exists_cons_of_ne_nil hop.1
    have hoc := hop.2 oc (by simp [hor])
    have hwx := hw x (by simp)
    obtain ⟨rest', hs0⟩ : ∃ rest', s.drop p = x.1 ++ (lv.op1 ++ rest') := ⟨_, by rw [hs]; simp [tR, List.append_assoc]; rfl⟩
    have hpa : skipWhite t.white s p = p + x.1.length :=
      skipWhite_eq hs0 hwx (by intro d hd; rw [hor] at hd; simp at hd; subst hd; exact hoc.1)
    constructor
    · exact next_not_cs hs0 hor hoc.2 (white_not_cs hT hwx)
    · intro j lvj hj1 hjk hlvj _
      rw [hpa, drop_add hs0]
      exact not_prefix_append _ (hT.opsInc _ _ _ _ hlvj hlv (by omega)) (hT.opsInc _ _ _ _ hlv hlvj (by omega))

/-- a chain `h op1 b1 op2 c1 op1 b2 op2 c2 …` of a LEFT-associative ternary level `k` at that level: the `_FB`
    lookahead succeeds on `h op1 b1 op2 c1`, then `Group(lastExpr + (op1 + lastExpr + op2 + lastExpr)[1, ...])`
    collects the whole chain into ONE flat group -/
theorem tern_parse {k : Nat} {lv : Level} (hK : 1 ≤ k) (hlv : t.levels[k - 1]? = some lv)
    (ha : lv.arity = 3) (hr : lv.right = false) {h : Ex} {x1 : TItem} {r : List TItem}
    (hch : TChainOK t cs s k h (x1 :: r)) :
    ∀ q suf, s.drop q = renderB t h ++ (tR t lv.op1 lv.op2 (x1 :: r) ++ suf) → skipWhite t.white s q = q →
      FollowG t cs s k (q + (renderB t h).length + (tR t lv.op1 lv.op2 (x1 :: r)).length) →
      ∀ a c loc, preOf t.white s c true loc = q →
        Holds t s (E k) loc a c (.ok (q + (renderB t h).length + (tR t lv.op1 lv.op2 (x1 :: r)).length)
          [.g (nest t h :: tN t lv.op1 lv.op2 (x1 :: r))]) := by
  intro q suf hs hq hf a c loc hloc
  have hKn : k ≤ t.levels.length := by
    have := (List.getElem?_eq_some_iff.mp hlv).1; omega
  have hkind := hT.kinds lv (lv_mem hlv)
  have hop := hT.opOk lv (lv_mem hlv)
  have hop2 := hT.op2Ok lv (lv_mem hlv) ha
  obtain ⟨oc, or', hor⟩ := List.exists_cons_of_ne_nil hop.1
  have hoc := hop.2 oc (by simp [hor])
  obtain ⟨pc, pr', hpr⟩ := List.exists_cons_of_ne_nil hop2.1
  have hpc := hop2.2 pc (by simp [hpr])
  have hfbF : ∀ j, j < 14 → j ≠ 3 → (fbIds t).elem (E k + j) = false := by
    intro j hj h3; rw [fb_level t hK hKn hj]; simp [h3]
  have hfbT : (fbIds t).elem (E k + 3) = true := by rw [fb_level t hK hKn (by omega)]; simp
  have g0 : (infixGrammar t)[E k + 0]? = some (mkNode t.white (.forward (some (E k + 1))) true true) := by
    rw [gram_level t hK hlv (by omega)]; simp [levelNodes]
  have g1 : (infixGrammar t)[E k + 1]? = some (mkNode t.white (.matchFirst ((E k + 2) :: tailOf t k)) true false) := by
    rw [gram_level t hK hlv (by omega)]; simp [levelNodes]
  have g2 : (infixGrammar t)[E k + 2]? = some (mkNode t.white (.and [E k + 3, E k + 4]) true true) := by
    rw [gram_level t hK hlv (by omega)]; simp [levelNodes, hkind.1, mkNode]
  have g3 : (infixGrammar t)[E k + 3]? = some (mkNode t.white (.followedBy (E k + 5)) true true) := by
    rw [gram_level t hK hlv (by omega)]; simp [levelNodes]
  have g4 : (infixGrammar t)[E k + 4]? = some (mkNode t.white (.group (E k + 6)) true true) := by
    rw [gram_level t hK hlv (by omega)]; simp [levelNodes]
  have g5 : (infixGrammar t)[E k + 5]? = some (mkNode t.white (.and [E (k - 1), E k + 7, E (k - 1), E k + 8, E (k - 1)]) true true) := by
    rw [gram_level t hK hlv (by omega)]; simp [levelNodes, ha, hr]
  have g6 : (infixGrammar t)[E k + 6]? = some (mkNode t.white (.and [E (k - 1), E k + 9]) true true) := by
    rw [gram_level t hK hlv (by omega)]; simp [levelNodes, ha, hr]
  have g7 : (infixGrammar t)[E k + 7]? = some (mkNode t.white (litKind lv.op1) false true) := by
    rw [gram_level t hK hlv (by omega)]; simp [levelNodes]
  have g8 : (infixGrammar t)[E k + 8]? = some (mkNode t.white (litKind lv.op2) false true) := by
    rw [gram_level t hK hlv (by omega)]; simp [levelNodes, ha, hr]
  have g9 : (infixGrammar t)[E k + 9]? = some (mkNode t.white (.many (E k + 10) none true) true true) := by
    rw [gram_level t hK hlv (by omega)]; simp [levelNodes, ha, hr]
  have g10 : (infixGrammar t)[E k + 10]? = some (mkNode t.white (.and [E k + 11, E (k - 1), E k + 12, E (k - 1)]) true true) := by
    rw [gram_level t hK hlv (by omega)]; simp [levelNodes, ha, hr]
  have g11 : (infixGrammar t)[E k + 11]? = some (mkNode t.white (litKind lv.op1) false true) := by
    rw [gram_level t hK hlv (by omega)]; simp [levelNodes, ha]
  have g12 : (infixGrammar t)[E k + 12]? = some (mkNode t.white (litKind lv.op2) false true) := by
    rw [gram_level t hK hlv (by omega)]; simp [levelNodes, ha]
  -- one turn `op1 b op2 c`, wherever it stands in the chain
  have piece : ∀ (p : Nat) (x : TItem) (suf' : List Char),
      s.drop p = x.1 ++ (lv.op1 ++ (lead x.2.1 ++ (renderB t x.2.1 ++ (x.2.2.1 ++ (lv.op2 ++ (lead x.2.2.2 ++
        (renderB t x.2.2.2 ++ suf'))))))) →
      White t.white x.1 → OperandOK t cs s k x.2.1 → White t.white x.2.2.1 → OperandOK t cs s k x.2.2.2 →
      FollowG t cs s (k - 1) (p + x.1.length + lv.op1.length + (lead x.2.1).length + (renderB t x.2.1).length
        + x.2.2.1.length + lv.op2.length + (lead x.2.2.2).length + (renderB t x.2.2.2).length) →
      (∀ id, id = 7 ∨ id = 11 → ∀ a' c' loc', preOf t.white s c' true loc' = p + x.1.length →
        Holds t s (E k + id) loc' a' c' (.ok (p + x.1.length + lv.op1.length) [.s lv.op1])) ∧
      (∀ a', Holds t s (E (k - 1)) (p + x.1.length + lv.op1.length) a' true
        (.ok (p + x.1.length + lv.op1.length + (lead x.2.1).length + (renderB t x.2.1).length) [nest t x.2.1])) ∧
      (∀ id, id = 8 ∨ id = 12 → ∀ a', Holds t s (E k + id)
        (p + x.1.length + lv.op1.length + (lead x.2.1).length + (renderB t x.2.1).length) a' true
        (.ok (p + x.1.length + lv.op1.length + (lead x.2.1).length + (renderB t x.2.1).length
          + x.2.2.1.length + lv.op2.length) [.s lv.op2])) ∧
      (∀ a', Holds t s (E (k - 1)) (p + x.1.length + lv.op1.length + (lead x.2.1).length + (renderB t x.2.1).length
          + x.2.2.1.length + lv.op2.length) a' true
        (.ok (p + x.1.length + lv.op1.length + (lead x.2.1).length + (renderB t x.2.1).length
          + x.2.2.1.length + lv.op2.length + (lead x.2.2.2).length + (renderB t x.2.2.2).length) [nest t x.2.2.2])) ∧
      skipWhite t.white s p = p + x.1.length ∧
      skipWhite t.white s (p + x.1.length) = p + x.1.length ∧
      p + x.1.length + lv.op1.length + (lead x.2.1).length + (renderB t x.2.1).length
          + x.2.2.1.length + lv.op2.length + (lead x.2.2.2).length + (renderB t x.2.2.2).length ≤ s.length := by
    intro p x suf' hs0 hw1 hb hw2 hc hfx
    have h1 := drop_add hs0
    have h2 := drop_add h1
    have h3 := drop_add h2
    have h4 := drop_add h3
    have h5 := drop_add h4
    have h6 := drop_add h5
    have h7 := drop_add h6
    have hpa : skipWhite t.white s p = p + x.1.length :=
      skipWhite_eq hs0 hw1 (by intro d hd; rw [hor] at hd; simp at hd; subst hd; exact hoc.1)
    have hqo : skipWhite t.white s (p + x.1.length) = p + x.1.length := by
      have := skipWhite_eq (W := t.white) (ws := []) (by simpa using h1)
        (by simp) (by intro d hd; rw [hor] at hd; simp at hd; subst hd; exact hoc.1)
      simpa using this
    have hqb1 := skip_lead hT s hb.1 h2
    have hqb2 := skip_at_body hT s hb.1 h3
    have hpb := skipWhite_eq h4 hw2 (by intro d hd; rw [hpr] at hd; simp at hd; subst hd; exact hpc.1)
    have hqc1 := skip_lead hT s hc.1 h6
    have hqc2 := skip_at_body hT s hc.1 h7
    have hfolB : FollowG t cs s (k - 1)
        (p + x.1.length + lv.op1.length + (lead x.2.1).length + (renderB t x.2.1).length) := by
      constructor
      · exact next_not_cs h4 hpr hpc.2 (white_not_cs hT hw2)
      · intro j lvj hj1 hjk hlvj _
        rw [hpb, h5]
        have := hT.op2Inc lv (lv_mem hlv) lvj (lv_mem hlvj) ha
        exact not_prefix_append _ this.1 this.2
    refine ⟨?_, ?_, ?_, ?_, hpa, hqo, ?_⟩
    · intro id hid a' c' loc' hl'
      rcases hid with rfl | rfl
      · exact H_lit_ok t s (hfbF 7 (by omega) (by omega)) g7 hl' hop.1 h1
      · exact H_lit_ok t s (hfbF 11 (by omega) (by omega)) g11 hl' hop.1 h1
    · intro a'
      exact hb.2.2 _ _ h3 hqb2 hfolB a' true _ (by rw [preOf_true, hqb1])
    · intro id hid a'
      rcases hid with rfl | rfl
      · exact H_lit_ok t s (hfbF 8 (by omega) (by omega)) g8 (by rw [preOf_true, hpb]) hop2.1 h5
      · exact H_lit_ok t s (hfbF 12 (by omega) (by omega)) g12 (by rw [preOf_true, hpb]) hop2.1 h5
    · intro a'
      exact hc.2.2 _ _ h7 hqc2 hfx a' true _ (by rw [preOf_true, hqc1])
    · obtain ⟨c0, r0, hr0, _⟩ := renderB_head hT x.2.2.2 hc.1
      have := len_le_of_drop h7 (by rw [hr0]; simp)
      omega
  -- the loop over the rest of the chain
  have loop : ∀ (r : List TItem) (p : Nat) (acc : List Tok) (suf' : List Char) (a' : Bool),
      s.drop p = tR t lv.op1 lv.op2 r ++ suf' →
      (∀ x ∈ r, White t.white x.1 ∧ OperandOK t cs s k x.2.1 ∧ White t.white x.2.2.1 ∧ OperandOK t cs s k x.2.2.2) →
      FollowG t cs s k (p + (tR t lv.op1 lv.op2 r).length) →
      HLoop t s (mkNode t.white (.many (E k + 10) none true) true true) a' (E k + 10) p acc
        (.ok (p + (tR t lv.op1 lv.op2 r).length) (acc ++ tN t lv.op1 lv.op2 r)) := by
    intro r
    induction r with
    | nil =>
      intro p acc suf' a' hsr _ hfr
      simp only [tR, tN, List.length_nil, Nat.add_zero, List.append_nil] at hfr ⊢
      obtain ⟨lf, hfail⟩ := H_lit_fail t s (a := a') (c := false) (loc := skipWhite t.white s p)
        (hfbF 11 (by omega) (by omega)) g11 (preOf_false _ _ _) hop.1 (hfr.2 k lv hK (Nat.le_refl _) hlv (by simp [ha]))
      exact HLoop.stop t s _ (by simp [mkNode])
        (H_and_fail0 t s (hfbF 10 (by omega) (by omega)) g10 (hns hT) (by rw [preOf_true]; exact hfail))
    | cons x r ih =>
      intro p acc suf' a' hsr hxr hfr
      have hs0 : s.drop p = x.1 ++ (lv.op1 ++ (lead x.2.1 ++ (renderB t x.2.1 ++ (x.2.2.1 ++ (lv.op2 ++ (lead x.2.2.2 ++
          (renderB t x.2.2.2 ++ (tR t lv.op1 lv.op2 r ++ suf')))))))) := by
        rw [hsr]; simp [tR, List.append_assoc]
      have h8 := drop_add (drop_add (drop_add (drop_add (drop_add (drop_add (drop_add (drop_add hs0)))))))
      have hlen : p + (tR t lv.op1 lv.op2 (x :: r)).length
          = p + x.1.length + lv.op1.length + (lead x.2.1).length + (renderB t x.2.1).length
            + x.2.2.1.length + lv.op2.length + (lead x.2.2.2).length + (renderB t x.2.2.2).length
            + (tR t lv.op1 lv.op2 r).length := by
        simp [tR, List.length_append]; omega
      rw [hlen] at hfr ⊢
      have hxr' : ∀ y ∈ r, White t.white y.1 ∧ OperandOK t cs s k y.2.1 ∧ White t.white y.2.2.1 ∧ OperandOK t cs s k y.2.2.2 :=
        fun y hy => hxr y (by simp [hy])
      have hfx := t_follow hT s hK hlv h8 (fun y hy => (hxr' y hy).1) hfr
      have hx := hxr x (by simp)
      obtain ⟨hOp1, hB, hOp2, hC, hpa, _, hle⟩ := piece p x _ hs0 hx.1 hx.2.1 hx.2.2.1 hx.2.2.2 hfx
      have ht := H_and t s (a := a') (c := true) (loc := p) (hfbF 10 (by omega) (by omega)) g10 (hns hT)
        (hOp1 11 (Or.inr rfl) a' false _ (by rw [preOf_false, preOf_true, hpa]))
        (HRest.cons_ok t s (hB a') (HRest.cons_ok t s (hOp2 12 (Or.inr rfl) a') (HRest.cons_ok t s (hC a') (HRest.nil t s _ _ _))))
        (Or.inl ⟨_, _, rfl⟩)
      have hpos : 0 < lv.op1.length := List.length_pos_iff.mpr hop.1
      have := ih _ (acc ++ ([.s lv.op1] ++ [nest t x.2.1] ++ [.s lv.op2] ++ [nest t x.2.2.2])) suf' a' h8 hxr' hfr
      have e : acc ++ ([Tok.s lv.op1] ++ [nest t x.2.1] ++ [Tok.s lv.op2] ++ [nest t x.2.2.2]) ++ tN t lv.op1 lv.op2 r
          = acc ++ tN t lv.op1 lv.op2 (x :: r) := by
        simp [tN]
      rw [e] at this
      exact HLoop.step t s (by simp [mkNode]) ht (by omega) hle this
  -- the chain
  have hs0 : s.drop q = renderB t h ++ (x1.1 ++ (lv.op1 ++ (lead x1.2.1 ++ (renderB t x1.2.1 ++ (x1.2.2.1 ++ (lv.op2 ++
      (lead x1.2.2.2 ++ (renderB t x1.2.2.2 ++ (tR t lv.op1 lv.op2 r ++ suf))))))))) := by
    rw [hs]; simp [tR, List.append_assoc]
  have h1 := drop_add hs0
  have h9 := drop_add (drop_add (drop_add (drop_add (drop_add (drop_add (drop_add (drop_add h1)))))))
  have hlen : q + (renderB t h).length + (tR t lv.op1 lv.op2 (x1 :: r)).length
      = q + (renderB t h).length + x1.1.length + lv.op1.length + (lead x1.2.1).length + (renderB t x1.2.1).length
        + x1.2.2.1.length + lv.op2.length + (lead x1.2.2.2).length + (renderB t x1.2.2.2).length
        + (tR t lv.op1 lv.op2 r).length := by
    simp [tR, List.length_append]; omega
  have hx1 := hch.2 x1 (by simp)
  have hxr : ∀ y ∈ r, White t.white y.1 ∧ OperandOK t cs s k y.2.1 ∧ White t.white y.2.2.1 ∧ OperandOK t cs s k y.2.2.2 :=
    fun y hy => hch.2 y (by simp [hy])
  have hfolH : FollowG t cs s (k - 1) (q + (renderB t h).length) :=
    t_follow hT s hK hlv (rest := x1 :: r) (suf := suf) (by rw [h1]; simp [tR, List.append_assoc])
      (fun y hy => (hch.2 y hy).1) hf
  rw [hlen] at hf ⊢
  have hfol1 := t_follow hT s hK hlv h9 (fun y hy => (hxr y hy).1) hf
  obtain ⟨hOp1, hB, hOp2, hC, hpa, hqo, hle⟩ := piece _ x1 _ h1 hx1.1 hx1.2.1 hx1.2.2.1 hx1.2.2.2 hfol1
  have hA : ∀ a', Holds t s (E (k - 1)) q a' false (.ok (q + (renderB t h).length) [nest t h]) :=
    fun a' => hch.1.2.2 q _ hs0 hq hfolH a' false q (preOf_false _ _ _)
  have hbody := H_and t s (a := false) (c := true) (loc := q) (hfbF 5 (by omega) (by omega)) g5 (hns hT)
      (by rw [preOf_true, hq]; exact hA false)
      (HRest.cons_ok t s (hOp1 7 (Or.inl rfl) false true _ (by rw [preOf_true, hpa])) (HRest.cons_ok t s (hB false)
        (HRest.cons_ok t s (hOp2 8 (Or.inl rfl) false) (HRest.cons_ok t s (hC false) (HRest.nil t s _ _ _)))))
      (Or.inl ⟨_, _, rfl⟩)
  have hfb : Holds t s (E k + 3) q a false (.ok q []) := by
    have := H_fb_ok t s (a := a) (c := false) (loc := q) hfbT g3 (by rw [preOf_false]; exact hbody)
    simpa [preOf_false] using this
  have hturn := H_and t s (a := a) (c := true) (loc := q + (renderB t h).length + x1.1.length)
      (hfbF 10 (by omega) (by omega)) g10 (hns hT)
      (hOp1 11 (Or.inr rfl) a false _ (by rw [preOf_false, preOf_true, hqo]))
      (HRest.cons_ok t s (hB a) (HRest.cons_ok t s (hOp2 12 (Or.inr rfl) a) (HRest.cons_ok t s (hC a) (HRest.nil t s _ _ _))))
      (Or.inl ⟨_, _, rfl⟩)
  have hloop := loop r _ ([.s lv.op1] ++ [nest t x1.2.1] ++ [.s lv.op2] ++ [nest t x1.2.2.2]) suf a h9 hxr hf
  have hmany : Holds t s (E k + 9) (q + (renderB t h).length) a true _ :=
    H_many t s (hfbF 9 (by omega) (by omega)) g9 (by rw [preOf_true, hpa]; exact hturn) hle hloop
  have hgb := H_and t s (a := a) (c := false) (loc := q) (hfbF 6 (by omega) (by omega)) g6 (hns hT)
      (by rw [preOf_false]; exact hA a) (HRest.cons_ok t s hmany (HRest.nil t s _ _ _)) (Or.inl ⟨_, _, rfl⟩)
  have hgrp := H_group_ok t s (a := a) (c := true) (loc := q) (hfbF 4 (by omega) (by omega)) g4 (by rw [preOf_true, hq]; exact hgb)
  have hm := H_and t s (a := a) (c := true) (loc := q) (hfbF 2 (by omega) (by omega)) g2 (hns hT) (by rw [preOf_true, hq]; exact hfb)
      (HRest.cons_ok t s hgrp (HRest.nil t s _ _ _)) (Or.inl ⟨_, _, rfl⟩)
  have hmf := H_mf_ok t s (a := a) (c := false) (loc := q) (hfbF 1 (by omega) (by omega)) g1 (HMf.head t s _ hm)
  have := H_forward_ok t s (a := a) (c := c) (loc := loc) (hfbF 0 (by omega) (by omega)) g0 (by rw [hloc]; exact hmf)
  simpa [tN] using this

end ternL

end Gen
end PP.Infix
