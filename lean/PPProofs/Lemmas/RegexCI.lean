import PPProofs.Lemmas.Regex
/-! Helper lemmas for case-insensitive patterns (`ieee_float`): `ends` depends on a character set only through
    `CSet.has`; the model's case folding (`lowerC`/`upperC`, ASCII) moves only the 52 ASCII letters;
    case-insensitive literal words. -/
namespace PP.Regex
open Re

/-- same shape, character sets with the same members -/
inductive Sim : Re → Re → Prop
  | refl (r : Re) : Sim r r
  | set (a b : CSet) (h : ∀ c, a.has c = b.has c) : Sim (.set a) (.set b)
  | seq {a a' b b' : Re} : Sim a a' → Sim b b' → Sim (.seq a b) (.seq a' b')
  | alt {a a' b b' : Re} : Sim a a' → Sim b b' → Sim (.alt a b) (.alt a' b')
  | rep {r r' : Re} (mn : Nat) (mx : Option Nat) (g : Bool) : Sim r r' → Sim (.rep r mn mx g) (.rep r' mn mx g)

theorem Sim.ends_eq {r r' : Re} (h : Sim r r') : ∀ s, r.ends s = r'.ends s := by
  induction h with
  | refl r => intro s; rfl
  | set a b h =>
    intro s
    cases s with
    | nil => simp [Re.ends]
    | cons c t => simp [Re.ends, h c]
  | seq _ _ iha ihb =>
    intro s
    simp only [Re.ends]
    rw [iha s, funext ihb]
  | alt _ _ iha ihb =>
    intro s
    simp only [Re.ends]
    rw [iha s, ihb s]
  | rep mn mx g _ ih =>
    intro s
    simp only [Re.ends]
    rw [funext ih]

theorem Sim.accepts_iff {r r' : Re} (h : Sim r r') (s : List Char) : r.Accepts s ↔ r'.Accepts s := by
  unfold Re.Accepts; rw [h.ends_eq s]

def charRange (lo hi : Char) : List Char :=
  (List.range (hi.toNat - lo.toNat + 1)).map (fun i => Char.ofNat (lo.toNat + i))

theorem char_le_toNat {a b : Char} (h : a ≤ b) : a.toNat ≤ b.toNat := by
  have := Char.le_def.1 h; simpa [UInt32.le_iff_toNat_le] using this

theorem mem_charRange (lo hi c : Char) (h1 : lo ≤ c) (h2 : c ≤ hi) : c ∈ charRange lo hi := by
  unfold charRange
  rw [List.mem_map]
  have a := char_le_toNat h1
  have b := char_le_toNat h2
  refine ⟨c.toNat - lo.toNat, List.mem_range.2 (by omega), ?_⟩
  have : lo.toNat + (c.toNat - lo.toNat) = c.toNat := by omega
  rw [this]; exact Char.ofNat_toNat c

def asciiLetters : List Char := charRange 'A' 'Z' ++ charRange 'a' 'z'

/-- the model's case folding only moves the 52 ASCII letters -/
theorem ci_cases (c : Char) : c ∈ asciiLetters ∨ (c ∉ asciiLetters ∧ lowerC c = c ∧ upperC c = c) := by
  by_cases hm : c ∈ asciiLetters
  · exact Or.inl hm
  · right
    have h1 : ¬ ('A' ≤ c ∧ c ≤ 'Z') := by
      rintro ⟨a, b⟩; exact hm (List.mem_append_left _ (mem_charRange _ _ c a b))
    have h2 : ¬ ('a' ≤ c ∧ c ≤ 'z') := by
      rintro ⟨a, b⟩; exact hm (List.mem_append_right _ (mem_charRange _ _ c a b))
    exact ⟨hm, by simp [lowerC, h1], by simp [upperC, h2]⟩

/-- the case-insensitive literals that occur in the built-in patterns -/
def ciLetters : List Char := ['n', 'a', 'i', 'f', 't', 'y', 'e']

theorem has_ci_letter_enum : ∀ a ∈ ciLetters, ∀ c ∈ asciiLetters,
    (CSet.mk false [.c a] true).has c = (lowerC c == a) := by decide +kernel

theorem has_ci_letter (a : Char) (ha : a ∈ ciLetters) (c : Char) :
    (CSet.mk false [.c a] true).has c = (lowerC c == a) := by
  rcases ci_cases c with hm | ⟨_, hl, hu⟩
  · exact has_ci_letter_enum a ha c hm
  · simp [CSet.has, Item.has, hl, hu]

theorem has_ci_dot_enum : ∀ c ∈ asciiLetters,
    (CSet.mk false [.c '.'] true).has c = (CSet.mk false [.c '.'] false).has c := by decide +kernel
theorem has_ci_dot (c : Char) : (CSet.mk false [.c '.'] true).has c = (CSet.mk false [.c '.'] false).has c := by
  rcases ci_cases c with hm | ⟨_, hl, hu⟩
  · exact has_ci_dot_enum c hm
  · simp [CSet.has, Item.has, hl, hu]

theorem has_ci_sign_enum : ∀ c ∈ asciiLetters,
    (CSet.mk false [.c '+', .c '-'] true).has c = (CSet.mk false [.c '+', .c '-'] false).has c := by decide +kernel
theorem has_ci_sign (c : Char) :
    (CSet.mk false [.c '+', .c '-'] true).has c = (CSet.mk false [.c '+', .c '-'] false).has c := by
  rcases ci_cases c with hm | ⟨_, hl, hu⟩
  · exact has_ci_sign_enum c hm
  · simp [CSet.has, Item.has, hl, hu]

theorem has_ci_e_enum : ∀ c ∈ asciiLetters,
    (CSet.mk false [.c 'e'] true).has c = (CSet.mk false [.c 'e', .c 'E'] false).has c := by decide +kernel
theorem has_ci_e (c : Char) :
    (CSet.mk false [.c 'e'] true).has c = (CSet.mk false [.c 'e', .c 'E'] false).has c := by
  rcases ci_cases c with hm | ⟨hn, hl, hu⟩
  · exact has_ci_e_enum c hm
  · have h1 : c ≠ 'E' := by rintro rfl; exact hn (by decide +kernel)
    simp [CSet.has, Item.has, hl, hu, h1]

/-- strip a word given in lower case, comparing case-insensitively (ASCII folding) -/
def stripCI : List Char → List Char → Option (List Char)
  | [], s => some s
  | _ :: _, [] => none
  | a :: w, c :: t => if lowerC c = a then stripCI w t else none

theorem stripCI_some : ∀ (w s e : List Char),
    stripCI w s = some e ↔ ∃ p, s = p ++ e ∧ p.map lowerC = w := by
  intro w
  induction w with
  | nil =>
    intro s e
    simp only [stripCI, Option.some.injEq]
    constructor
    · rintro rfl; exact ⟨[], rfl, rfl⟩
    · rintro ⟨p, h, hp⟩
      have : p = [] := by simpa using hp
      subst this; simpa using h
  | cons a w ih =>
    intro s e
    cases s with
    | nil =>
      simp only [stripCI]
      constructor
      · intro h; simp at h
      · rintro ⟨p, h, hp⟩
        have : p = [] := by
          have := congrArg List.length h; simp at this; exact List.eq_nil_of_length_eq_zero (by omega)
        subst this; simp at hp
    | cons c t =>
      simp only [stripCI]
      by_cases hc : lowerC c = a
      · rw [if_pos hc, ih]
        constructor
        · rintro ⟨p, h, hp⟩; exact ⟨c :: p, by simp [h], by simp [hc, hp]⟩
        · rintro ⟨p, h, hp⟩
          cases p with
          | nil => simp at hp
          | cons x p' =>
            simp at h hp
            exact ⟨p', h.2, hp.2⟩
      · rw [if_neg hc]
        constructor
        · intro h; simp at h
        · rintro ⟨p, h, hp⟩
          cases p with
          | nil => simp at hp
          | cons x p' =>
            simp at h hp
            exact absurd (h.1 ▸ hp.1) hc

theorem stripCI_length (w s e : List Char) (h : stripCI w s = some e) : e.length + w.length = s.length := by
  obtain ⟨p, rfl, hp⟩ := (stripCI_some w s e).1 h
  subst hp; simp; omega

/-- `w` spelled with case-insensitive literals, then `b` -/
def ciWordThen (w : List Char) (b : Re) : Re := w.foldr (fun a r => Re.seq (.set ⟨false, [.c a], true⟩) r) b

theorem ends_ciWordThen (b : Re) : ∀ (w : List Char), (∀ a ∈ w, a ∈ ciLetters) → ∀ s,
    (ciWordThen w b).ends s = match stripCI w s with
      | none => []
      | some e => b.ends e := by
  intro w
  induction w with
  | nil => intro _ s; simp [ciWordThen, stripCI]
  | cons a w ih =>
    intro hw s
    have ha := hw a (by simp)
    show (Re.seq (.set ⟨false, [.c a], true⟩) (ciWordThen w b)).ends s = _
    rw [ends_seq_set]
    cases s with
    | nil => simp [stripCI]
    | cons c t =>
      simp only [stripCI]
      rw [has_ci_letter a ha c]
      by_cases hc : lowerC c = a
      · simp only [hc, beq_self_eq_true, if_true]
        exact ih (fun x hx => hw x (by simp [hx])) t
      · have : (lowerC c == a) = false := by simpa using hc
        simp [this, hc]

theorem ends_ci_letter (a : Char) (ha : a ∈ ciLetters) (s : List Char) :
    (Re.set ⟨false, [.c a], true⟩).ends s = (stripCI [a] s).toList := by
  cases s with
  | nil => simp [Re.ends, stripCI]
  | cons c t =>
    simp only [Re.ends, stripCI]
    rw [has_ci_letter a ha c]
    by_cases hc : lowerC c = a
    · simp [hc]
    · have : (lowerC c == a) = false := by simpa using hc
      simp [this, hc]

theorem stripCI_append : ∀ (w v s : List Char), stripCI (w ++ v) s = (stripCI w s).bind (stripCI v) := by
  intro w
  induction w with
  | nil => intro v s; simp [stripCI]
  | cons a w ih =>
    intro v s
    cases s with
    | nil => simp [stripCI]
    | cons c t =>
      simp only [List.cons_append, stripCI]
      by_cases hc : lowerC c = a
      · rw [if_pos hc, if_pos hc, ih]
      · rw [if_neg hc, if_neg hc]; rfl

end PP.Regex
