import PPProofs.Lemmas.LRFrame
import PPProofs.Lemmas.LRIter
/-!
# The body that `parseLR` hands to the growth loop for a direct left-recursive rule is `lrBody`

Node table: `E = Forward(m)`, `m = MatchFirst [sq, b]`, `sq = And (E :: ts)`; `b` and `ts` lie in a Forward-free part.
-/
namespace PP.Parse

/-! ### the environment of in-growth entries -/

theorem Env.get_set_same (env : Env) (k : LKey) (v : Out) : (env.set k v).get k = some v := by
  simp [Env.get, Env.set]

theorem find?_filter_of_imp {α : Type} (p q : α → Bool) (hpq : ∀ x, q x = true → p x = true) :
    ∀ xs : List α, (xs.filter p).find? q = xs.find? q := by
  intro xs
  induction xs with
  | nil => rfl
  | cons x xs ih =>
    by_cases hq : q x = true
    · have hp := hpq x hq
      rw [List.filter_cons_of_pos hp, List.find?_cons_of_pos hq, List.find?_cons_of_pos hq]
    · by_cases hp : p x = true
      · rw [List.filter_cons_of_pos hp, List.find?_cons_of_neg hq, List.find?_cons_of_neg hq, ih]
      · rw [List.filter_cons_of_neg hp, List.find?_cons_of_neg hq, ih]

theorem Env.get_set_other (env : Env) (k k' : LKey) (v : Out) (h : k' ≠ k) : (env.set k' v).get k = env.get k := by
  unfold Env.get Env.set
  have h1 : ¬ (k' = k) := h
  rw [List.find?_cons_of_neg (by simpa using h1)]
  rw [find?_filter_of_imp]
  intro x hx
  have : x.1 = k := by simpa using hx
  simp [this]
  exact fun h2 => h h2.symm

/-! ### `And`: the accumulator is a prefix -/

theorem andRest_acc (p : P) (isStop : Nat → Bool) (a : Bool) (slen : Nat) :
    ∀ es stop loc acc, andRest p isStop a slen es stop loc acc =
      (match andRest p isStop a slen es stop loc [] with
        | .ok e ts => .ok e (acc ++ ts)
        | o => o) := by
  intro es
  induction es with
  | nil => intro stop loc acc; simp [andRest]
  | cons e es ih =>
    intro stop loc acc
    unfold andRest
    by_cases hs : isStop e = true
    · simp only [hs, if_true]; exact ih true loc acc
    · simp only [hs, if_false, Bool.false_eq_true]
      cases hp : p e loc a true with
      | ok l ts =>
        simp only
        rw [ih stop l (acc ++ ts), ih stop l ([] ++ ts)]
        cases andRest p isStop a slen es stop l [] <;> simp
      | fail c l => by_cases hst : stop = true <;> simp [hst]
      | idx => by_cases hst : stop = true <;> simp [hst]
      | hang => rfl

/-! ### nodes whose `_parseNoCache` wrapper adds nothing (no actions / names, identity `postParse`) -/

def idxConv (nd : Node) (slen pre : Nat) : Out → Out
  | .idx => if nd.mayIdx || pre ≥ slen then .fail .parse slen else .idx
  | r => r

theorem parseStepWith_plain (g : Grammar) (s : List Char) (p : P) (impl : Node → Nat → Bool → Out) (id : Nat)
    (nd : Node) (loc pre : Nat) (a c : Bool) (h : g[id]? = some nd) (hacts : nd.acts = [])
    (hpost : ∀ ts, postParse nd ts = ts)
    (hpre : (if c && nd.callPre then preParse p nd s loc else PreR.at loc) = .at pre) :
    parseStepWith g s p impl id loc a c = idxConv nd s.length pre (impl nd pre a) := by
  unfold parseStepWith
  simp only [h, hpre]
  generalize impl nd pre a = r
  cases r with
  | ok e ts => simp [idxConv, hacts, hpost]
  | fail c l => simp [idxConv]
  | idx =>
    simp only [idxConv]
    by_cases hc : (nd.mayIdx || decide (pre ≥ s.length)) = true <;> simp [hc]
  | hang => simp [idxConv]

/-- the values the growth loop ever stores under the in-growth keys: the failure seed or a match -/
def LRVal : Out → Prop
  | .ok _ _ => True
  | .fail .parse _ => True
  | _ => False

/-- `ParseElementEnhance.parseImpl`'s `pbe.loc = pbe.loc or loc` applied to an outcome -/
def enhFix (pre : Nat) : Out → Out
  | .fail .syntax l => .fail .syntax l
  | .fail c l => .fail c (if l == 0 then pre else l)
  | o => o

/-- the shape of a direct left-recursive rule in the node table, with the flags the proof needs: no parse actions /
    results names on `E`, `m`, `sq` (their `_parseNoCache` wrappers then add nothing) -/
structure DirectLR (g : Grammar) (E m sq b : Nat) (ts : List Nat) (nE nm nsq : Node) : Prop where
  hE : g[E]? = some nE
  kE : nE.kind = .forward (some m)
  aE : nE.acts = []
  hm : g[m]? = some nm
  km : nm.kind = .matchFirst [sq, b]
  am : nm.acts = []
  hsq : g[sq]? = some nsq
  ksq : nsq.kind = .and (E :: ts)
  asq : nsq.acts = []

/-- a memo hit on the Forward returns the stored value -/
theorem parseLR_memo_hit {g : Grammar} {E m sq b : Nat} {ts : List Nat} {nE nm nsq : Node}
    (h : DirectLR g E m sq b ts nE nm nsq) (s : List Char) (f : Nat) (env : Env) (pre : Nat) (a : Bool) (v : Out)
    (hget : env.get ⟨E, pre, a⟩ = some v) (hv : LRVal v) :
    parseLR g s (f + 1) env E pre a false = v := by
  simp only [parseLR]
  rw [parseStepWith_plain g s _ _ E nE pre pre a false h.hE h.aE (by intro ts; simp [postParse, h.kE]) (by simp)]
  simp only [h.kE, hget]
  cases v with
  | ok e ts => rfl
  | fail c l => rfl
  | idx => exact absurd hv (by simp [LRVal])
  | hang => rfl

/-- the rest of the `And`, started at the end `e` of the memo entry (tokens of the rest only), by the plain parser -/
def tailOf (g : Grammar) (s : List Char) (f : Nat) (ts : List Nat) : Bool → Nat → Out := fun a e =>
  andRest (parse g s f) (isStopOf g) a s.length ts false e []

/-- the `And [E, t…]` alternative: the memo value, continued by the rest of the sequence -/
theorem parseLR_sq_step {g : Grammar} {E m sq b : Nat} {ts : List Nat} {nE nm nsq : Node}
    (h : DirectLR g E m sq b ts nE nm nsq) (s : List Char) {D : Nat → Prop} (hD : FwdFree g D) (hts : ∀ t ∈ ts, D t)
    (f : Nat) (env : Env) (pre : Nat) (a : Bool) (v : Out)
    (hget : env.get ⟨E, pre, a⟩ = some v) (hv : LRVal v)
    (hpre : ∀ p, (if nsq.callPre then preParse p nsq s pre else PreR.at pre) = .at pre) :
    parseLR g s (f + 2) env sq pre a true =
      idxConv nsq s.length pre
        (match (generalizing := false) v with
         | .ok e tsv => (match tailOf g s (f + 1) ts a e with
            | .ok e' ts' => .ok e' (tsv ++ ts')
            | o => o)
         | o => o) := by
  rw [parseLR]
  dsimp only
  rw [parseStepWith_plain g s _ _ sq nsq pre pre a true h.hsq h.asq (by intro ts; simp [postParse, h.ksq])
    (by simpa using hpre _)]
  simp only [h.ksq, parseImpl, andImpl]
  rw [parseLR_memo_hit h s f env pre a v hget hv]
  cases v with
  | ok e tsv =>
    simp only
    have := andRest_rename (parseLR_frame g s hD (f + 1) env) (isStopOf g) (isStopOf g) a s.length ts hts
      (fun _ _ => rfl) false e tsv
    rw [List.map_id] at this
    change idxConv nsq s.length pre (andRest (parseLR g s (f + 1) env) (isStopOf g) a s.length ts false e tsv) = _
    rw [this, andRest_acc]
    rfl
  | fail c l => rfl
  | idx => rfl
  | hang => rfl

/-- the second alternative, by the plain parser -/
def baseOf (g : Grammar) (s : List Char) (f : Nat) (b pre : Nat) : Bool → Out := fun a => parse g s f b pre a true

/-- the environment under which the growth loop evaluates the Forward's expression (LeftRec.lean, `parseLR`) -/
def growEnv (env : Env) (E pre : Nat) (a : Bool) (pk ak : Out) : Env :=
  let env1 := env.set ⟨E, pre, false⟩ pk
  if a then env1.set ⟨E, pre, true⟩ ak else env1

theorem growEnv_get (env : Env) (E pre : Nat) (a a' : Bool) (pk ak : Out) (ha : a' = true → a = true) :
    (growEnv env E pre a pk ak).get ⟨E, pre, a'⟩ = some (if a' then ak else pk) := by
  unfold growEnv
  cases a <;> cases a'
  · simp [Env.get_set_same]
  · exact absurd (ha rfl) (by simp)
  · simp only [if_true, Bool.false_eq_true, if_false]
    rw [Env.get_set_other _ _ _ _ (by simp), Env.get_set_same]
  · simp [Env.get_set_same]

theorem mfGo_two (p : P) (a : Bool) (slen loc sq b : Nat) :
    mfGo p a slen loc [sq, b] none =
      (match p sq loc a true with
        | .ok l ts => .ok l ts
        | .fail .parse l => mfSecond slen l (p b loc a true)
        | .fail c l => .fail c l
        | .idx => mfSecond slen slen (p b loc a true)
        | .hang => .hang) := by
  simp only [mfGo]
  cases p sq loc a true with
  | ok l ts => rfl
  | fail c l =>
    cases c with
    | parse =>
      simp only
      cases p b loc a true with
      | ok l2 t2 => rfl
      | fail c2 l2 =>
        cases c2 with
        | parse => by_cases hl : l2 > l <;> simp [mfSecond, mfGo, hl]
        | fatal => rfl
        | «syntax» => rfl
      | idx => by_cases hl : slen > l <;> simp [mfSecond, mfGo, hl]
      | hang => rfl
    | fatal => rfl
    | «syntax» => rfl
  | idx =>
    simp only
    cases p b loc a true with
    | ok l2 t2 => rfl
    | fail c2 l2 =>
      cases c2 with
      | parse => by_cases hl : l2 > slen <;> simp [mfSecond, mfGo, hl]
      | fatal => rfl
      | «syntax» => rfl
    | idx => simp [mfSecond, mfGo]
    | hang => rfl
  | hang => rfl

/-- the wrappers of `sq` and `m` (a raw IndexError turned into a ParseException at `len`) do not show in the result -/
theorem body_alg (nsq nm : Node) (slen pre : Nat) (R B : Out) :
    (match idxConv nm slen pre
        (match idxConv nsq slen pre R with
          | .ok l ts => .ok l ts
          | .fail .parse l => mfSecond slen l B
          | .fail c l => .fail c l
          | .idx => mfSecond slen slen B
          | .hang => .hang) with
      | .fail .syntax l => Out.fail .syntax l
      | .fail c l => .fail c (if l == 0 then pre else l)
      | o => o)
    = enhFix pre (match R with
        | .ok e tv => .ok e tv
        | .fail .parse l => mfSecond slen l B
        | .idx => mfSecond slen slen B
        | o => o) := by
  cases R with
  | ok e tv => rfl
  | fail c l =>
    cases c with
    | parse =>
      cases B with
      | ok e t => rfl
      | fail c2 l2 => cases c2 <;> rfl
      | idx => rfl
      | hang => rfl
    | fatal => rfl
    | «syntax» => rfl
  | idx =>
    by_cases hc : (nsq.mayIdx || decide (pre ≥ slen)) = true
    · simp only [idxConv, hc, if_true]
      cases B with
      | ok e t => rfl
      | fail c2 l2 => cases c2 <;> rfl
      | idx => rfl
      | hang => rfl
    · simp only [idxConv, hc]
      cases B with
      | ok e t => rfl
      | fail c2 l2 => cases c2 <;> rfl
      | idx => rfl
      | hang => rfl
  | hang => rfl

/-- **the body `parseLR` passes to the growth loop is `lrBody`** (up to `ParseElementEnhance`'s location fix-up), with
    `base` / `tail` the plain model parser on the Forward-free sub-grammars -/
theorem parseLR_body_eq_lrBody {g : Grammar} {E m sq b : Nat} {ts : List Nat} {nE nm nsq : Node}
    (h : DirectLR g E m sq b ts nE nm nsq) (s : List Char) {D : Nat → Prop} (hD : FwdFree g D) (hb : D b)
    (hts : ∀ t ∈ ts, D t) (f : Nat) (env : Env) (pre : Nat) (a a' : Bool) (pk ak : Out)
    (hpre : ∀ p, (if nsq.callPre then preParse p nsq s pre else PreR.at pre) = .at pre)
    (hv : LRVal (if a' then ak else pk)) (ha : a' = true → a = true) :
    enhanceImpl (parseLR g s (f + 3) (growEnv env E pre a pk ak)) a' (some m) pre
      = enhFix pre (lrBody s.length (baseOf g s (f + 2) b pre) (tailOf g s (f + 1) ts) a' pk ak) := by
  have hget := growEnv_get env E pre a a' pk ak ha
  generalize growEnv env E pre a pk ak = env2 at hget
  unfold enhanceImpl
  rw [parseLR]
  dsimp only
  rw [parseStepWith_plain g s _ _ m nm pre pre a' false h.hm h.am (by intro ts; simp [postParse, h.km]) (by simp)]
  simp only [h.km, parseImpl]
  rw [mfGo_two, parseLR_sq_step h s hD hts f env2 pre a' _ hget hv hpre]
  have hbase := parseLR_frame g s hD (f + 2) env2 b hb pre a' true
  simp only [id] at hbase
  rw [hbase]
  exact body_alg nsq nm s.length pre _ _

end PP.Parse
