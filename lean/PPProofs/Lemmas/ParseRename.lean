import PPModel.Mod.Sugar
/-!
# Renaming of node ids preserves parsing

`Sim g1 g2 ρ D`: `ρ` maps the closed part `D` of table `g1` into table `g2`, the image of every node being
the node with its ids renamed.  Then `parse g1 s f i = parse g2 s f (ρ i)` for every `i ∈ D` (`parse_rename`).
One lemma per helper of the model: the closure `p` on the `g1` side and `q` on the `g2` side agree along `ρ`.
-/
namespace PP.Parse

def Agree (p q : P) (ρ : Nat → Nat) (D : Nat → Prop) : Prop :=
  ∀ e, D e → ∀ loc a c, p e loc a c = q (ρ e) loc a c

/-- what `n2.eraseNL = (n1.mapIds ρ).eraseNL` says, field by field -/
structure NRel (n1 n2 : Node) (ρ : Nat → Nat) : Prop where
  kind : n2.kind = n1.kind.mapIds ρ
  ignore : n2.ignore = n1.ignore.map ρ
  skipWs : n2.skipWs = n1.skipWs
  white : n2.white = n1.white
  callPre : n2.callPre = n1.callPre
  mayIdx : n2.mayIdx = n1.mayIdx
  acts : n2.acts = n1.acts
  callDuringTry : n2.callDuringTry = n1.callDuringTry
  hasName : n2.hasName = n1.hasName

theorem NRel.of_eq {n1 n2 : Node} {ρ : Nat → Nat} (h : n2.eraseNL = (n1.mapIds ρ).eraseNL) :
    NRel n1 n2 ρ := by
  cases n1; cases n2
  simp only [Node.eraseNL, Node.mapIds, Node.mk.injEq] at h
  obtain ⟨h1, h2, h3, h4, h5, h6, h7, h8, _, h9⟩ := h
  exact ⟨h1, h6, h2, h3, h4, h5, h7, h8, h9⟩

section
variable {p q : P} {ρ : Nat → Nat} {D : Nat → Prop}

theorem tryParse_rename (hA : Agree p q ρ D) {e : Nat} (he : D e) (loc : Nat) (rf da : Bool) :
    tryParse p e loc rf da = tryParse q (ρ e) loc rf da := by
  unfold tryParse; rw [hA e he]

theorem canParseNext_rename (hA : Agree p q ρ D) {e : Nat} (he : D e) (loc : Nat) (da : Bool) :
    canParseNext p e loc da = canParseNext q (ρ e) loc da := by
  unfold canParseNext; rw [tryParse_rename hA he]

theorem ignoreOne_rename (hA : Agree p q ρ D) {e : Nat} (he : D e) :
    ∀ k loc found, ignoreOne p e k loc found = ignoreOne q (ρ e) k loc found := by
  intro k
  induction k with
  | zero => intro loc found; rfl
  | succ k ih =>
    intro loc found
    simp only [ignoreOne]
    rw [hA e he]
    simp only [ih]

theorem ignorePass_rename (hA : Agree p q ρ D) (slen : Nat) :
    ∀ es, (∀ e ∈ es, D e) → ∀ loc found,
      ignorePass p slen es loc found = ignorePass q slen (es.map ρ) loc found := by
  intro es
  induction es with
  | nil => intro _ loc found; rfl
  | cons e es ih =>
    intro hes loc found
    simp only [List.map_cons, ignorePass]
    rw [ignoreOne_rename hA (hes e (by simp))]
    simp only [ih (fun x hx => hes x (by simp [hx]))]

theorem skipIgnorables_rename (hA : Agree p q ρ D) (slen : Nat) {ign : List Nat} (hes : ∀ e ∈ ign, D e) :
    ∀ k loc, skipIgnorables p slen ign k loc = skipIgnorables q slen (ign.map ρ) k loc := by
  intro k
  induction k with
  | zero => intro loc; rfl
  | succ k ih =>
    intro loc
    simp only [skipIgnorables]
    rw [ignorePass_rename hA slen ign hes]
    simp only [ih]

theorem preParse_rename (hA : Agree p q ρ D) {n1 n2 : Node} (R : NRel n1 n2 ρ)
    (hes : ∀ e ∈ n1.ignore, D e) (s : List Char) (loc : Nat) :
    preParse p n1 s loc = preParse q n2 s loc := by
  unfold preParse
  rw [R.kind, R.ignore, R.skipWs, R.white]
  cases hk : n1.kind <;>
    simp only [Kind.mapIds, List.isEmpty_map, skipIgnorables_rename hA s.length hes]

theorem andRest_rename (hA : Agree p q ρ D) (is1 is2 : Nat → Bool) (acts : Bool) (slen : Nat) :
    ∀ es, (∀ e ∈ es, D e) → (∀ e ∈ es, is1 e = is2 (ρ e)) → ∀ stop loc acc,
      andRest p is1 acts slen es stop loc acc = andRest q is2 acts slen (es.map ρ) stop loc acc := by
  intro es
  induction es with
  | nil => intro _ _ stop loc acc; rfl
  | cons e es ih =>
    intro hes his stop loc acc
    have ih' := ih (fun x hx => hes x (by simp [hx])) (fun x hx => his x (by simp [hx]))
    simp only [List.map_cons, andRest]
    rw [hA e (hes e (by simp)), his e (by simp)]
    simp only [ih']

theorem andImpl_rename (hA : Agree p q ρ D) (is1 is2 : Nat → Bool) (acts : Bool) (slen : Nat)
    (es : List Nat) (hes : ∀ e ∈ es, D e) (his : ∀ e ∈ es, is1 e = is2 (ρ e)) (loc : Nat) :
    andImpl p is1 acts slen es loc = andImpl q is2 acts slen (es.map ρ) loc := by
  cases es with
  | nil => rfl
  | cons e0 rest =>
    simp only [List.map_cons, andImpl]
    rw [hA e0 (hes e0 (by simp))]
    simp only [andRest_rename hA is1 is2 acts slen rest (fun x hx => hes x (by simp [hx]))
      (fun x hx => his x (by simp [hx]))]

theorem mfGo_rename (hA : Agree p q ρ D) (acts : Bool) (slen loc : Nat) :
    ∀ es, (∀ e ∈ es, D e) → ∀ mx, mfGo p acts slen loc es mx = mfGo q acts slen loc (es.map ρ) mx := by
  intro es
  induction es with
  | nil => intro _ mx; cases mx <;> rfl
  | cons e es ih =>
    intro hes mx
    have ih' := ih (fun x hx => hes x (by simp [hx]))
    simp only [List.map_cons, mfGo]
    rw [hA e (hes e (by simp))]
    simp only [ih']

/-! ### Or -/

def renC (ρ : Nat → Nat) (x : Nat × Nat) : Nat × Nat := (x.1, ρ x.2)

theorem insDesc_map (ρ : Nat → Nat) (x : Nat × Nat) :
    ∀ l, insDesc (renC ρ x) (l.map (renC ρ)) = (insDesc x l).map (renC ρ) := by
  intro l
  induction l with
  | nil => rfl
  | cons y ys ih =>
    simp only [List.map_cons, insDesc, renC]
    split
    · simp only [List.map_cons, renC]; rw [← ih]; rfl
    · rfl

theorem sortDesc_map (ρ : Nat → Nat) :
    ∀ l, sortDesc (l.map (renC ρ)) = (sortDesc l).map (renC ρ) := by
  intro l
  induction l with
  | nil => rfl
  | cons x xs ih => simp only [List.map_cons, sortDesc, ih, insDesc_map]

theorem mem_insDesc {x y : Nat × Nat} : ∀ {l}, y ∈ insDesc x l → y = x ∨ y ∈ l := by
  intro l
  induction l with
  | nil => intro h; simp [insDesc] at h; exact Or.inl h
  | cons z zs ih =>
    intro h
    simp only [insDesc] at h
    split at h
    · rcases List.mem_cons.1 h with h | h
      · exact Or.inr (by simp [h])
      · rcases ih h with h | h
        · exact Or.inl h
        · exact Or.inr (by simp [h])
    · rcases List.mem_cons.1 h with h | h
      · exact Or.inl h
      · exact Or.inr h

theorem mem_sortDesc {y : Nat × Nat} : ∀ {l}, y ∈ sortDesc l → y ∈ l := by
  intro l
  induction l with
  | nil => intro h; exact h
  | cons x xs ih =>
    intro h
    simp only [sortDesc] at h
    rcases mem_insDesc h with h | h
    · simp [h]
    · simp [ih h]

def OrAcc.ren (ρ : Nat → Nat) (a : OrAcc) : OrAcc := { a with cands := a.cands.map (renC ρ) }

theorem orPass1_rename (hA : Agree p q ρ D) (nl1 nl2 : Nat → Nat) (slen loc : Nat) :
    ∀ es, (∀ e ∈ es, D e) → (∀ e ∈ es, nl1 e = nl2 (ρ e)) → ∀ a,
      orPass1 q nl2 slen loc (es.map ρ) (a.ren ρ) = (orPass1 p nl1 slen loc es a).map (OrAcc.ren ρ) := by
  intro es
  induction es with
  | nil => intro _ _ a; rfl
  | cons e es ih =>
    intro hes hnl a
    have ih' := ih (fun x hx => hes x (by simp [hx])) (fun x hx => hnl x (by simp [hx]))
    rcases a with ⟨cs, fs, mx⟩
    simp only [List.map_cons, orPass1, OrAcc.ren]
    rw [tryParse_rename hA (hes e (by simp)), hnl e (by simp)]
    cases tryParse q (ρ e) loc true false with
    | ok l ts =>
      simp only
      rw [← ih']
      simp [OrAcc.ren, renC]
    | fail c l =>
      simp only
      by_cases hc : c.isFatal = true <;> by_cases hf : (!fs.isEmpty) = true <;>
        simp only [hc, hf, Bool.false_eq_true, ↓reduceIte] <;> rw [← ih'] <;> rfl
    | idx => simp only; rw [← ih']; rfl
    | hang => rfl

theorem orPass1_cands (nl : Nat → Nat) (slen loc : Nat) :
    ∀ es, (∀ e ∈ es, D e) → ∀ a a', (∀ x ∈ a.cands, D x.2) → orPass1 p nl slen loc es a = some a' →
      ∀ x ∈ a'.cands, D x.2 := by
  intro es
  induction es with
  | nil => intro _ a a' ha h; simp only [orPass1, Option.some.injEq] at h; subst h; exact ha
  | cons e es ih =>
    intro hes a a' ha h
    have ih' := ih (fun x hx => hes x (by simp [hx]))
    simp only [orPass1] at h
    split at h
    · refine ih' _ a' ?_ h
      intro x hx
      simp only [List.mem_append, List.mem_singleton] at hx
      rcases hx with hx | hx
      · exact ha x hx
      · subst hx; exact hes e (by simp)
    · split at h
      · refine ih' _ a' ?_ h; exact ha
      · split at h
        · exact ih' _ a' ha h
        · refine ih' _ a' ?_ h; exact ha
    · refine ih' _ a' ?_ h; exact ha
    · exact absurd h (by simp)

theorem orPass2_rename (hA : Agree p q ρ D) (loc : Nat) :
    ∀ ms, (∀ m ∈ ms, D m.2) → ∀ longest mx,
      orPass2 p loc ms longest mx = orPass2 q loc (ms.map (renC ρ)) longest mx := by
  intro ms
  induction ms with
  | nil => intro _ longest mx; simp only [List.map_nil, orPass2]
  | cons m ms ih =>
    intro hms longest mx
    rcases m with ⟨loc1, e⟩
    have ih' := ih (fun x hx => hms x (by simp [hx]))
    have he : D e := hms (loc1, e) (by simp)
    have step : ∀ longest mx, orPass2.orStep p loc loc1 e ms longest mx
        = orPass2.orStep q loc loc1 (ρ e) (ms.map (renC ρ)) longest mx := by
      intro longest mx
      simp only [orPass2.orStep]
      rw [hA e he]
      simp only [ih']
    cases longest with
    | none => simp only [List.map_cons, renC, orPass2, step]
    | some ll =>
      rcases ll with ⟨ll, lt⟩
      simp only [List.map_cons, renC, orPass2, step]

theorem orAt_rename (hA : Agree p q ρ D) (nl1 nl2 : Nat → Nat) (slen : Nat) (acts : Bool)
    (es : List Nat) (hes : ∀ e ∈ es, D e) (hnl : ∀ e ∈ es, nl1 e = nl2 (ρ e)) (loc : Nat) :
    orAt p nl1 slen acts es loc = orAt q nl2 slen acts (es.map ρ) loc := by
  unfold orAt
  have h1 := orPass1_rename hA nl1 nl2 slen loc es hes hnl {}
  have h0 : (({} : OrAcc).ren ρ) = {} := rfl
  rw [h0] at h1
  rw [h1]
  cases hp : orPass1 p nl1 slen loc es {} with
  | none => rfl
  | some a =>
    have hc : ∀ x ∈ (sortDesc a.cands), D x.2 := fun x hx =>
      orPass1_cands nl1 slen loc es hes {} a (by intro x hx; cases hx) hp x (mem_sortDesc hx)
    simp only [Option.map, OrAcc.ren, List.isEmpty_map, sortDesc_map]
    rw [← orPass2_rename hA loc _ hc]
    cases hs : sortDesc a.cands with
    | nil => rfl
    | cons m ms =>
      rcases m with ⟨l1, e⟩
      simp only [List.map_cons, renC]
      rw [hA e (hc (l1, e) (by simp [hs]))]

theorem all_map_rename {f1 f2 : Nat → Bool} :
    ∀ es : List Nat, (∀ e ∈ es, f1 e = f2 (ρ e)) → es.all f1 = (es.map ρ).all f2 := by
  intro es
  induction es with
  | nil => intro _; rfl
  | cons e es ih =>
    intro h
    simp only [List.map_cons, List.all_cons, h e (by simp), ih (fun x hx => h x (by simp [hx]))]

theorem orImpl_rename (hA : Agree p q ρ D) (g1 g2 : Grammar) {n1 n2 : Node} (R : NRel n1 n2 ρ)
    (hign : ∀ e ∈ n1.ignore, D e) (s : List Char) (acts : Bool)
    (es : List Nat) (hes : ∀ e ∈ es, D e) (hnl : ∀ e ∈ es, nameLenOf g1 e = nameLenOf g2 (ρ e))
    (hcp : ∀ e ∈ es, callPreOf g1 e = callPreOf g2 (ρ e)) (loc : Nat) :
    orImpl p g1 n1 s acts es loc = orImpl q g2 n2 s acts (es.map ρ) loc := by
  unfold orImpl
  rw [← all_map_rename es hcp, preParse_rename hA R hign]
  simp only [orAt_rename hA (nameLenOf g1) (nameLenOf g2) s.length acts es hes hnl]

/-! ### repetition, SkipTo, enhance -/

theorem stopCheck_rename (hA : Agree p q ρ D) {ne : Option Nat} (hne : ∀ x, ne = some x → D x) (loc : Nat) :
    stopCheck p ne loc = stopCheck q (ne.map ρ) loc := by
  cases ne with
  | none => rfl
  | some n => simp only [Option.map, stopCheck]; rw [tryParse_rename hA (hne n rfl)]

theorem manyPre_rename (hA : Agree p q ρ D) {n1 n2 : Node} (hi : n2.ignore = n1.ignore.map ρ)
    (hes : ∀ e ∈ n1.ignore, D e) (slen loc : Nat) : manyPre p n1 slen loc = manyPre q n2 slen loc := by
  unfold manyPre
  rw [hi, List.isEmpty_map, skipIgnorables_rename hA slen hes]

theorem manyLoop_rename (hA : Agree p q ρ D) {n1 n2 : Node} (hi : n2.ignore = n1.ignore.map ρ)
    (hes : ∀ e ∈ n1.ignore, D e) (acts : Bool) (slen : Nat) {e : Nat} (he : D e)
    {ne : Option Nat} (hne : ∀ x, ne = some x → D x) :
    ∀ k loc acc, manyLoop p n1 acts slen e ne k loc acc = manyLoop q n2 acts slen (ρ e) (ne.map ρ) k loc acc := by
  intro k
  induction k with
  | zero => intro loc acc; rfl
  | succ k ih =>
    intro loc acc
    simp only [manyLoop]
    rw [stopCheck_rename hA hne, manyPre_rename hA hi hes]
    simp only [hA e he, ih]

theorem manyImpl_rename (hA : Agree p q ρ D) {n1 n2 : Node} (hi : n2.ignore = n1.ignore.map ρ)
    (hes : ∀ e ∈ n1.ignore, D e) (acts : Bool) (slen : Nat) {e : Nat} (he : D e)
    {ne : Option Nat} (hne : ∀ x, ne = some x → D x) (loc : Nat) :
    manyImpl p n1 acts slen e ne loc = manyImpl q n2 acts slen (ρ e) (ne.map ρ) loc := by
  unfold manyImpl
  simp only [hA e he, manyLoop_rename hA hi hes acts slen he hne]
  cases ne with
  | none => rfl
  | some n => simp only [Option.map]; rw [tryParse_rename hA (hne n rfl)]

theorem ignLoop_rename (hA : Agree p q ρ D) {i : Nat} (hi : D i) :
    ∀ k t, ignLoop p i k t = ignLoop q (ρ i) k t := by
  intro k
  induction k with
  | zero => intro t; rfl
  | succ k ih =>
    intro t
    simp only [ignLoop]
    rw [tryParse_rename hA hi]
    simp only [ih]

theorem failOnCheck_rename (hA : Agree p q ρ D) {fo : Option Nat} (hfo : ∀ x, fo = some x → D x) (t : Nat) :
    failOnCheck p fo t = failOnCheck q (fo.map ρ) t := by
  cases fo with
  | none => rfl
  | some f => simp only [Option.map, failOnCheck]; exact canParseNext_rename hA (hfo f rfl) _ _

theorem ignStep_rename (hA : Agree p q ρ D) (slen : Nat) {ig : Option Nat} (hig : ∀ x, ig = some x → D x)
    (t : Nat) : ignStep p slen ig t = ignStep q slen (ig.map ρ) t := by
  cases ig with
  | none => rfl
  | some i => simp only [Option.map, ignStep]; exact ignLoop_rename hA (hig i rfl) _ _

theorem skipScan_rename (hA : Agree p q ρ D) (slen : Nat) {e : Nat} (he : D e) {fo ig : Option Nat}
    (hfo : ∀ x, fo = some x → D x) (hig : ∀ x, ig = some x → D x) (loc0 : Nat) :
    ∀ k t, skipScan p slen e fo ig loc0 k t = skipScan q slen (ρ e) (fo.map ρ) (ig.map ρ) loc0 k t := by
  intro k
  induction k with
  | zero => intro t; rfl
  | succ k ih =>
    intro t
    simp only [skipScan]
    rw [failOnCheck_rename hA hfo, ignStep_rename hA slen hig]
    simp only [hA e he, ih]

theorem skipToImpl_rename (hA : Agree p q ρ D) (s : List Char) (acts : Bool) {e : Nat} (he : D e) (incl : Bool)
    {fo ig : Option Nat} (hfo : ∀ x, fo = some x → D x) (hig : ∀ x, ig = some x → D x) (loc : Nat) :
    skipToImpl p s acts e incl fo ig loc = skipToImpl q s acts (ρ e) incl (fo.map ρ) (ig.map ρ) loc := by
  unfold skipToImpl
  rw [skipScan_rename hA s.length he hfo hig]
  simp only [hA e he]

theorem enhanceImpl_rename (hA : Agree p q ρ D) (acts : Bool) {e : Option Nat} (he : ∀ x, e = some x → D x)
    (loc : Nat) : enhanceImpl p acts e loc = enhanceImpl q acts (e.map ρ) loc := by
  cases e with
  | none => rfl
  | some e => simp only [Option.map, enhanceImpl]; rw [hA e (he e rfl)]

/-! ### dispatch -/

theorem postParse_rename {n1 n2 : Node} (R : NRel n1 n2 ρ) (ts : List Tok) :
    postParse n1 ts = postParse n2 ts := by
  unfold postParse combineKeep
  rw [R.kind, R.hasName]
  cases n1.kind <;> rfl

theorem isStop_rename {g1 g2 : Grammar} (h : Sim g1 g2 ρ D) {e : Nat} (he : D e) :
    (match g1[e]? with
      | some n => (match n.kind with
        | .errorStop => true
        | _ => false)
      | none => false) =
    (match g2[ρ e]? with
      | some n => (match n.kind with
        | .errorStop => true
        | _ => false)
      | none => false) := by
  obtain ⟨n1, n2, h1, h2, hn⟩ := h.node e he
  rw [h1, h2]
  simp only [(NRel.of_eq hn).kind]
  cases n1.kind <;> rfl

theorem callPreOf_rename {g1 g2 : Grammar} (h : Sim g1 g2 ρ D) {e : Nat} (he : D e) :
    callPreOf g1 e = callPreOf g2 (ρ e) := by
  obtain ⟨n1, n2, h1, h2, hn⟩ := h.node e he
  unfold callPreOf
  rw [h1, h2]
  exact (NRel.of_eq hn).callPre.symm

theorem optDefault_rename {g1 g2 : Grammar} (h : Sim g1 g2 ρ D) {e : Nat} (he : D e) (d : Option (List Char)) :
    optDefault g1 e d = optDefault g2 (ρ e) d := by
  obtain ⟨n1, n2, h1, h2, hn⟩ := h.node e he
  unfold optDefault
  cases d with
  | none => rfl
  | some v => simp only [h1, h2, (NRel.of_eq hn).acts]

theorem parseImpl_rename {g1 g2 : Grammar} (h : Sim g1 g2 ρ D) (hA : Agree p q ρ D) {n1 n2 : Node}
    (R : NRel n1 n2 ρ) (hch : ∀ c ∈ n1.children, D c)
    (hnl : ∀ es, n1.kind = .or es → ∀ e ∈ es, nameLenOf g1 e = nameLenOf g2 (ρ e))
    (s : List Char) (loc : Nat) (acts : Bool) :
    parseImpl g1 p n1 s loc acts = parseImpl g2 q n2 s loc acts := by
  have hign : ∀ e ∈ n1.ignore, D e := fun e he => hch e (by simp [Node.children, he])
  have hkid : ∀ e ∈ n1.kind.children, D e := fun e he => hch e (by simp [Node.children, he])
  unfold parseImpl
  rw [R.kind]
  cases hk : n1.kind <;> rw [hk] at hkid <;> simp only [Kind.mapIds, Kind.children] at hkid ⊢
  case stringStart => rw [preParse_rename hA R hign]
  case and es =>
    exact andImpl_rename hA _ _ acts s.length es hkid (fun e he => isStop_rename h (hkid e he)) loc
  case matchFirst es => exact mfGo_rename hA acts s.length loc es hkid none
  case or es =>
    exact orImpl_rename hA g1 g2 R hign s acts es hkid (hnl es hk)
      (fun e he => callPreOf_rename h (hkid e he)) loc
  case opt e dflt =>
    rw [hA e (hkid e (by simp)), optDefault_rename h (hkid e (by simp))]
    simp only [optNoMatch, R.acts]
  case many e ne one =>
    have he : D e := hkid e (by simp)
    have hne : ∀ x, ne = some x → D x := fun x hx => hkid x (by simp [hx])
    rw [manyImpl_rename hA R.ignore hign acts s.length he hne]
  case notAny e => rw [canParseNext_rename hA (hkid e (by simp))]
  case followedBy e => rw [hA e (hkid e (by simp))]
  case located e => rw [hA e (hkid e (by simp)), R.hasName]
  case group e => exact enhanceImpl_rename hA acts (e := some e) (fun x hx => hkid x (by simp_all)) loc
  case suppress e => exact enhanceImpl_rename hA acts (e := some e) (fun x hx => hkid x (by simp_all)) loc
  case combine e j => exact enhanceImpl_rename hA acts (e := some e) (fun x hx => hkid x (by simp_all)) loc
  case enhance e => exact enhanceImpl_rename hA acts (e := some e) (fun x hx => hkid x (by simp_all)) loc
  case forward e => exact enhanceImpl_rename hA acts (e := e) (fun x hx => hkid x (by simp [hx])) loc
  case skipTo e incl fo ig =>
    exact skipToImpl_rename hA s acts (hkid e (by simp)) incl (fun x hx => hkid x (by simp [hx]))
      (fun x hx => hkid x (by simp [hx])) loc

theorem parseStep_rename {g1 g2 : Grammar} (h : Sim g1 g2 ρ D) (s : List Char) (hA : Agree p q ρ D) :
    Agree (parseStep g1 s p) (parseStep g2 s q) ρ D := by
  intro i hi loc a c
  obtain ⟨n1, n2, h1, h2, hn⟩ := h.node i hi
  have R := NRel.of_eq hn
  have hch := h.closed i n1 hi h1
  have hign : ∀ e ∈ n1.ignore, D e := fun e he => hch e (by simp [Node.children, he])
  unfold parseStep
  simp only [h1, h2]
  rw [R.callPre, ← preParse_rename hA R hign, R.mayIdx, R.acts, R.callDuringTry]
  simp only [← postParse_rename R,
    ← parseImpl_rename h hA R hch (fun es hk => h.orKids i n1 es hi h1 hk) s]

end

theorem parse_rename {g1 g2 : Grammar} {ρ : Nat → Nat} {D : Nat → Prop} (h : Sim g1 g2 ρ D) (s : List Char) :
    ∀ f i, D i → ∀ loc a c, parse g1 s f i loc a c = parse g2 s f (ρ i) loc a c := by
  intro f
  induction f with
  | zero => intro i _ loc a c; rfl
  | succ f ih => exact parseStep_rename h s ih

end PP.Parse
