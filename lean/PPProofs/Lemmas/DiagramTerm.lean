import PPProofs.Lemmas.DiagramUnnamed
/-! C20 helper: termination of `_to_diagram_element` when every cycle passes through a custom-named
    element that is worth extracting (a "cut" element), with an explicit recursion-depth bound. -/
namespace PP.Diagram


/-- edges into elements that are not cuts decrease `rank`: the grammar without its cut elements'
    incoming edges is acyclic, i.e. every cycle passes through a cut element -/
def Ranked (g : Grammar) (rank : Nat → Nat) : Prop :=
  ∀ u n, g[u]? = some n → ∀ c, c ∈ n.kids → cut g c = false → rank c < rank u

def cuts (g : Grammar) : List Nat := (List.range g.length).filter (cut g)

/-- number of cut elements that are not in progress -/
def free (g : Grammar) (B : List Nat) : Nat := ((cuts g).filter (fun c => !B.contains c)).length

theorem free_le (g : Grammar) (B : List Nat) : free g B ≤ g.length := by
  unfold free cuts
  calc _ ≤ ((List.range g.length).filter (cut g)).length := List.length_filter_le _ _
    _ ≤ (List.range g.length).length := List.length_filter_le _ _
    _ = g.length := List.length_range

theorem filter_len_mono (l : List Nat) (p q : Nat → Bool) (h : ∀ x, p x = true → q x = true) :
    (l.filter p).length ≤ (l.filter q).length := by
  induction l with
  | nil => simp
  | cons x xs ih =>
    simp only [List.filter_cons]
    cases hp : p x with
    | true => simp only [h x hp, if_true, List.length_cons]; omega
    | false =>
      simp only [Bool.false_eq_true, if_false]
      split
      · simp only [List.length_cons]; omega
      · exact ih

theorem filter_remove_lt (l : List Nat) (p : Nat → Bool) (u : Nat) (hu : u ∈ l) (hp : p u = true) :
    (l.filter (fun c => !(c == u) && p c)).length + 1 ≤ (l.filter p).length := by
  induction l with
  | nil => exact absurd hu (by simp)
  | cons x xs ih =>
    have hle : (xs.filter (fun c => !(c == u) && p c)).length ≤ (xs.filter p).length := by
      apply filter_len_mono
      intro c hc
      simp only [Bool.and_eq_true] at hc
      exact hc.2
    by_cases hx : x = u
    · subst hx
      simp only [List.filter_cons, beq_self_eq_true, Bool.not_true, Bool.false_and, Bool.false_eq_true,
        if_false, hp, if_true, List.length_cons]
      omega
    · have hmem : u ∈ xs := by
        rcases List.mem_cons.mp hu with e | e
        · exact absurd e.symm hx
        · exact e
      have := ih hmem
      have hxu : (x == u) = false := by simp [hx]
      simp only [List.filter_cons, hxu, Bool.not_false, Bool.true_and]
      cases p x with
      | true => simp only [if_true, List.length_cons]; omega
      | false => simpa using this

theorem filter_cons_lt (l : List Nat) (B : List Nat) (u : Nat) (hu : u ∈ l) (hB : B.contains u = false) :
    (l.filter (fun c => !(u :: B).contains c)).length + 1 ≤ (l.filter (fun c => !B.contains c)).length := by
  have e : (fun c => !(u :: B).contains c) = (fun c => !(c == u) && !B.contains c) := by
    funext c
    rw [List.contains_cons]
    cases (c == u) <;> rfl
  rw [e]
  exact filter_remove_lt l (fun c => !B.contains c) u hu (by simp only [hB]; rfl)

theorem free_cons_lt (g : Grammar) (B : List Nat) (u : Nat) (n : Node) (hg : g[u]? = some n)
    (hc : cut g u = true) (hB : B.contains u = false) : free g (u :: B) + 1 ≤ free g B := by
  unfold free
  apply filter_cons_lt _ _ _ _ hB
  unfold cuts
  rw [List.mem_filter]
  refine ⟨List.mem_range.mpr ?_, hc⟩
  have := List.getElem?_eq_some_iff.mp hg
  exact this.1

/-- the in-progress cut elements are recorded, named and not complete -/
def BInv (B : List Nat) (s : St) : Prop :=
  ∀ b, b ∈ B → ∃ st, aget s.lookup b = some st ∧ st.name.isSome = true ∧ st.complete = false

theorem BInv_tables {B : List Nat} {s s' : St} (h1 : s'.lookup = s.lookup) (h : BInv B s) : BInv B s' := by
  intro b hb; rw [h1]; exact h b hb

/-- marking an incomplete element (without `force`) keeps its entry: named, still incomplete -/
theorem mark_lookup_incomplete (g : Grammar) (s : St) (el : Nat) (nm : Option String) (st : EState)
    (hl : aget s.lookup el = some st) (hc : st.complete = false) :
    ∃ st', aget (markForExtraction g s el nm false).lookup el = some st' ∧ st'.name.isSome = true ∧
      st'.complete = false := by
  rcases mark_lookup_same g s el nm false with h | ⟨st0, st', h0, h1, h2, _, h4, _⟩
  · exfalso
    unfold markForExtraction at h
    simp only [hl, hc, Bool.false_and, Bool.or_self, Bool.false_eq_true, if_false] at h
    rw [aget_aset_same] at h
    exact absurd h (by simp)
  · rw [hl] at h0
    cases h0
    exact ⟨st', h1, h2, by rw [h4, hc]⟩

theorem BInv_mark_other {g : Grammar} {B : List Nat} {s : St} {el : Nat} (nm : Option String) (f : Bool)
    (hel : el ∉ B) (h : BInv B s) : BInv B (markForExtraction g s el nm f) := by
  intro b hb
  have hne : b ≠ el := fun e => hel (e ▸ hb)
  rw [mark_lookup_ne _ _ _ _ _ _ hne]
  exact h b hb

theorem BInv_mark_inprogress {g : Grammar} {B : List Nat} {s : St} {el : Nat} (nm : Option String)
    (h : BInv B s) : BInv B (markForExtraction g s el nm false) := by
  intro b hb
  by_cases hne : b = el
  · subst hne
    obtain ⟨st, hl, _, hc⟩ := h b hb
    exact mark_lookup_incomplete g s b nm st hl hc
  · rw [mark_lookup_ne _ _ _ _ _ _ hne]
    exact h b hb

theorem BInv_post {B : List Nat} (el : Nat) (n : Node) (hint : Option String) (ret : Nat) (s : St)
    (hel : el ∉ B) (h : BInv B s) : BInv B (post el n hint ret s).2 := by
  have key : ∀ b, b ∈ B → aget (post el n hint ret s).2.lookup b = aget s.lookup b := by
    intro b hb
    have hne : b ≠ el := fun e => hel (e ▸ hb)
    unfold post
    simp only
    split
    · split
      · simp only [newNT_lookup]
        rw [extract_lookup_ne _ _ _ hne, setComplete_lookup_ne _ _ _ hne, post1_lookup]
      · rw [setComplete_lookup_ne _ _ _ hne, post1_lookup]
    · rw [setComplete_lookup_ne _ _ _ hne, post1_lookup]
  intro b hb
  rw [key b hb]
  exact h b hb

theorem BInv_annotate {B : List Nat} (o : Opts) (n : Node) (r : Option Nat) (s : St) (h : BInv B s) :
    BInv B (annotate o n r s).2 := by
  unfold annotate
  split
  · exact h
  · split
    · exact BInv_tables rfl h
    · exact h

/-- the loop over the children terminates if every child does -/
theorem loopKids_total (B : List Nat) (rec : Rec) (ret : Nat) :
    ∀ kids : List Nat,
    (∀ c, c ∈ kids → ∀ p i h s, BInv B s → ∃ r s', rec c p i h s = some (r, s') ∧ BInv B s') →
    ∀ i s, BInv B s → ∃ s', loopKids rec ret kids i s = some s' ∧ BInv B s' := by
  intro kids
  induction kids with
  | nil => intro _ i s h; exact ⟨s, rfl, h⟩
  | cons c cs ih =>
    intro hk i s h
    have h1 : BInv B (addPlaceholder s ret i) := by
      unfold addPlaceholder; split
      · exact BInv_tables rfl h
      · exact h
    obtain ⟨r, s2, hr, h2⟩ := hk c (List.mem_cons_self ..) (some ret) i none _ h1
    have : ∃ i' s', stepKid rec ret c i s = some (i', s') ∧ BInv B s' := by
      unfold stepKid
      rw [hr]
      simp only
      split
      · exact ⟨_, _, rfl, BInv_tables rfl h2⟩
      · exact ⟨_, _, rfl, BInv_tables rfl h2⟩
      · exact ⟨_, _, rfl, h2⟩
      · exact ⟨_, _, rfl, BInv_tables rfl h2⟩
      · exact ⟨_, _, rfl, h2⟩
    obtain ⟨i', s', hs, h3⟩ := this
    unfold loopKids
    rw [hs]
    exact ih (fun c hc => hk c (List.mem_cons_of_mem _ hc)) i' s' h3

/-- recursion budget that suffices for element `u` while the cut elements `B` are in progress -/
def FuelOK (g : Grammar) (rank : Nat → Nat) (R : Nat) (fuel u : Nat) (B : List Nat) : Prop :=
  (cut g u = true ∧ B.contains u = true ∧ 1 ≤ fuel) ∨
  (cut g u = true ∧ B.contains u = false ∧ free g B * (R + 3) ≤ fuel ∧ 1 ≤ fuel) ∨
  (cut g u = false ∧ free g B * (R + 3) + rank u + 2 ≤ fuel)

theorem seenOf_named_of_BInv {g : Grammar} {B : List Nat} {s : St} {u : Nat} (h : BInv B s)
    (hu : u ∈ B) (hw : worth g u = true) : ∃ st, seenOf g s u = .named st ∧ aget s.lookup u = some st := by
  obtain ⟨st, hl, hn, _⟩ := h u hu
  refine ⟨st, ?_, hl⟩
  unfold seenOf
  simp [hw, hl, hn]

theorem conv_total (g : Grammar) (o : Opts) (rank : Nat → Nat) (R : Nat)
    (hrank : Ranked g rank) (hR : ∀ u, rank u ≤ R) :
    ∀ fuel u B p i h s, (∀ b, b ∈ B → cut g b = true) → BInv B s → FuelOK g rank R fuel u B →
      ∃ r s', conv g o fuel u p i h s = some (r, s') ∧ BInv B s' := by
  intro fuel
  induction fuel with
  | zero =>
    intro u B p i h s _ _ hf
    rcases hf with ⟨_, _, h1⟩ | ⟨_, _, _, h1⟩ | ⟨_, h1⟩ <;> omega
  | succ f ih =>
    intro u B p i h s hB hI hf
    unfold conv
    cases hg : g[u]? with
    | none => exact ⟨_, _, rfl, hI⟩
    | some n =>
      simp only
      -- a child of `u` gets enough fuel, with `B' ⊇ B` in progress
      have kidFuel : ∀ (B' : List Nat) c, c ∈ n.kids →
          ((cut g u = false ∧ B' = B) ∨ (cut g u = true ∧ B.contains u = false ∧ B' = u :: B)) →
          FuelOK g rank R f c B' := by
        intro B' c hc hcase
        have hfree : free g B' * (R + 3) + R + 2 ≤ f ∨ (cut g u = false ∧ B' = B) := by
          rcases hcase with h1 | ⟨h1, h2, h3⟩
          · exact Or.inr h1
          · left
            rcases hf with ⟨_, hb, _⟩ | ⟨_, _, h4, _⟩ | ⟨hcu, _⟩
            · rw [h2] at hb; exact absurd hb (by simp)
            · have := free_cons_lt g B u n hg h1 h2
              subst h3
              have h5 : (free g (u :: B) + 1) * (R + 3) ≤ free g B * (R + 3) := Nat.mul_le_mul_right _ this
              rw [Nat.add_mul] at h5
              omega
            · rw [h1] at hcu; exact absurd hcu (by simp)
        cases hcc : cut g c with
        | true =>
          cases hbc : B'.contains c with
          | true =>
            left
            refine ⟨hcc, hbc, ?_⟩
            rcases hfree with h1 | ⟨h1, _⟩
            · omega
            · rcases hf with ⟨hcu, _, _⟩ | ⟨hcu, _, _, _⟩ | ⟨_, h2⟩
              · rw [h1] at hcu; exact absurd hcu (by simp)
              · rw [h1] at hcu; exact absurd hcu (by simp)
              · omega
          | false =>
            right; left
            refine ⟨hcc, hbc, ?_⟩
            rcases hfree with h1 | ⟨h1, h3⟩
            · omega
            · rcases hf with ⟨hcu, _, _⟩ | ⟨hcu, _, _, _⟩ | ⟨_, h2⟩
              · rw [h1] at hcu; exact absurd hcu (by simp)
              · rw [h1] at hcu; exact absurd hcu (by simp)
              · subst h3; omega
        | false =>
          right; right
          refine ⟨hcc, ?_⟩
          have hr := hrank u n hg c hc hcc
          have := hR c
          rcases hfree with h1 | ⟨h1, h3⟩
          · omega
          · rcases hf with ⟨hcu, _, _⟩ | ⟨hcu, _, _, _⟩ | ⟨_, h2⟩
            · rw [h1] at hcu; exact absurd hcu (by simp)
            · rw [h1] at hcu; exact absurd hcu (by simp)
            · subst h3; omega
      have hcustom : customOf g u = n.custom := by unfold customOf; rw [hg]; rfl
      -- finish: annotate
      suffices hmain : ∃ r s', convBody g o (conv g o f) u n p i h s = some (r, s') ∧ BInv B s' by
        obtain ⟨r, s', he, hI'⟩ := hmain
        rw [he]
        exact ⟨_, _, rfl, BInv_annotate o n r s' hI'⟩
      unfold convBody
      unfold pre
      cases hpass : isPass n with
      | true =>
        simp only [if_true]
        -- unnamed Forward / Located: not a cut; the child is `kids[0]`
        have hnc : cut g u = false := by
          unfold cut; rw [hcustom]
          unfold isPass at hpass
          simp only [Bool.and_eq_true, Bool.not_eq_true'] at hpass
          simp [hpass.1.1]
        have hkid : n.kids.headD 0 ∈ n.kids := by
          unfold isPass at hpass
          simp only [Bool.and_eq_true, Bool.not_eq_true'] at hpass
          cases hk : n.kids with
          | nil => rw [hk] at hpass; simp at hpass
          | cons a as => simp
        exact ih _ B p i _ s hB hI (kidFuel B _ hkid (Or.inl ⟨hnc, rfl⟩))
      | false =>
        simp only [Bool.false_eq_true, if_false]
        cases hs : seenOf g s u with
        | named st =>
          simp only
          exact ⟨_, _, rfl, BInv_tables rfl (BInv_mark_inprogress h hI)⟩
        | inDiagram d =>
          simp only
          exact ⟨_, _, rfl, BInv_tables rfl hI⟩
        | fresh =>
          simp only
          have hpf : preFresh g o u n p i h s = .ret none s ∨
              ∃ pn, preFresh g o u n p i h s =
                .loop (register g s u n p i pn).1 (register g s u n p i pn).2 := by
            unfold preFresh
            split
            · left; rfl
            · cases hd : dispatch g o n (nameOf n h) with
              | none => left; rfl
              | some pn => right; exact ⟨pn, rfl⟩
          rcases hpf with e | ⟨pn, e⟩
          · rw [e]; exact ⟨_, _, rfl, hI⟩
          · rw [e]
            simp only
            show ∃ r s', (match loopKids (conv g o f) (register g s u n p i pn).1 n.kids 0
                (register g s u n p i pn).2 with
              | none => none
              | some s'' => some (post u n h (register g s u n p i pn).1 s'')) = some (r, s') ∧ BInv B s'
            -- `u` is not in progress (else it would have been seen as named)
            have huB : B.contains u = false := by
              cases hbc : B.contains u with
              | false => rfl
              | true =>
                exfalso
                have hmem : u ∈ B := by simpa using hbc
                have hcu := hB u hmem
                unfold cut at hcu
                simp only [Bool.and_eq_true] at hcu
                obtain ⟨st, hsn, _⟩ := seenOf_named_of_BInv hI hmem hcu.2
                rw [hs] at hsn
                exact absurd hsn (by simp)
            have huB' : u ∉ B := by
              intro hm
              have : B.contains u = true := by simpa using hm
              rw [huB] at this
              exact absurd this (by simp)
            -- registration
            have hreg0 : BInv B (register g s u n p i pn).2 := by
              unfold register
              simp only
              have hbase : BInv B { (s.alloc pn).2 with
                  index := (s.alloc pn).2.index + 1,
                  lookup := aset (s.alloc pn).2.lookup u
                    { converted := (s.alloc pn).1, parent := p, parentIndex := i,
                      number := (s.alloc pn).2.index + 1 } } := by
                intro b hb
                have hne : b ≠ u := fun e => huB' (e ▸ hb)
                simp only [aget_aset_ne _ _ _ _ hne]
                exact hI b hb
              split
              · exact BInv_mark_other _ _ huB' hbase
              · exact hbase
            cases hcu : cut g u with
            | false =>
              obtain ⟨s1, hl, hI1⟩ := loopKids_total B (conv g o f) (register g s u n p i pn).1 n.kids
                (fun c hc p i h s hs => ih c B p i h s hB hs (kidFuel B c hc (Or.inl ⟨hcu, rfl⟩)))
                0 _ hreg0
              rw [hl]
              exact ⟨_, _, rfl, BInv_post u n h _ s1 huB' hI1⟩
            | true =>
              have hB' : ∀ b, b ∈ u :: B → cut g b = true := by
                intro b hb
                rcases List.mem_cons.mp hb with e | e
                · rw [e]; exact hcu
                · exact hB b e
              have hreg1 : BInv (u :: B) (register g s u n p i pn).2 := by
                intro b hb
                rcases List.mem_cons.mp hb with e | e
                · subst e
                  unfold register
                  simp only
                  have hnamed : truthy n.custom = true := by
                    unfold cut at hcu
                    rw [hcustom] at hcu
                    simp only [Bool.and_eq_true] at hcu
                    exact hcu.1
                  rw [if_pos hnamed]
                  exact mark_lookup_incomplete g _ b n.custom _ (aget_aset_same _ _ _) rfl
                · exact hreg0 b e
              obtain ⟨s1, hl, hI1⟩ := loopKids_total (u :: B) (conv g o f) (register g s u n p i pn).1 n.kids
                (fun c hc p i h s hs => ih c (u :: B) p i h s hB' hs
                  (kidFuel (u :: B) c hc (Or.inr ⟨hcu, huB, rfl⟩)))
                0 _ hreg1
              rw [hl]
              have hI1' : BInv B s1 := fun b hb => hI1 b (List.mem_cons_of_mem _ hb)
              exact ⟨_, _, rfl, BInv_post u n h _ s1 huB' hI1'⟩

end PP.Diagram
