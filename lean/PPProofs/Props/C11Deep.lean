import PPProofs.Lemmas.PRHeapDeep
import PPProofs.Lemmas.PRHeapDeepMemo
import PPProofs.Lemmas.PRHeapDeepMemoRel
import PPProofs.Lemmas.PRHeapDeepMemoNames
import PPProofs.Lemmas.PRHeapDeepViews
import PPProofs.Lemmas.PRHeapDeepLoop
/-!
# C11 — `ParseResults.deepcopy()` of NESTED groups, at every depth (heap model)

Model: `PPModel/Mod/PRHeapDeep.lean` — `deepcopyN fuel h o` transcribes pyparsing/results.py:587-606 (`deepcopy`:
`ret = self.copy()`, then for every token that is a `ParseResults`: `ret._toklist[i] = obj.deepcopy()`; the name table
is what `copy()` made, results.py:581), on the heap of `PPModel/Mod/PRHeap.lean`.  `asListN k h o` is `as_list()`
(results.py:541-544) to observation depth `k`.

Hypothesis of the theorems: `TWF h f o` — the token tree of `o` is allocated and has depth ≤ `f` (the fuel).  Python's
recursion terminates exactly on finite token trees, and on them the result does not depend on the fuel left over, so
this is `deepcopy()` for every heap, every object and every nesting depth.

What is proved, for ALL heaps / objects / depths / mutation sequences:
* `deepcopyLoop_eq` — the loop as written (store after every recursive call) is `deepcopyN`.
* `deepcopy_tokens_fresh` — every group reachable through the token lists of the copy is a new object with a new list
  cell and a new dict cell, is not in the token tree of the original, and `as_list()` of the copy = `as_list()` of the
  original to every depth; the original still shows what it showed.  `deepcopy_tokens_fresh_full`: not reachable from
  the original by any route (hypothesis `FD`: everything the original reaches, names included, is allocated, acyclic).
* `deepcopy_views` — both views (`dumpN`: tokens, names with all occurrences, list-all names, nested) are preserved.
* `deepcopy_frame_tokens` — any sequence of own mutations (tokens *or* names: all of `Mut`) of any group in the copy's
  token tree leaves the original's `as_list()` unchanged, and vice versa.
* `deepcopy_frame_tokens_many` — the same for sequences that mutate many different groups of the copy's token tree.
* `deepcopy_frame_views` — the same at the level of `view` (tokens and names) of every well-formed original object.
* `deepcopy_names_shared` — the finding `deepcopy_named_group_aliased`, general form: at EVERY depth the copy of a group
  has the very same name-table entries (occurrence-list cells) as the original group, and no occurrence list is
  touched: every named nested value of the copy *is* the original's object.
* `deepcopy_named_alias_any_depth` — for every depth a concrete heap (`chainHeap`) where that happens.
* `copy.deepcopy` / pickle (model `deepObjN` / `copyModuleDeep`, the memoised graph copy), section (5):
  `copyModule_deep_fresh` (full separation, names included), `copyModule_deep_frame` (view-level frames both ways),
  `copyModule_deep_as_list`, `copyModule_deep_views` (both views preserved at every depth).

Not modelled here: container tokens (results.py:598-605: a `MutableMapping`/`Iterable` token is rebuilt, groups in it
deep-copied) — `HVal` has scalars and references only; cyclic structures (Python: RecursionError through tokens; the
memo of `copy.deepcopy` would handle cycles through names, hypothesis `FD` excludes them).
-/
namespace PP.PRHeap

variable {α : Type}

/-- **(1) the model is the loop as written**: `deepcopyLoop` — results.py:591-606 statement by statement,
    `ret._toklist[i] = obj.deepcopy()` stored after every recursive call — is `deepcopyN` (rebuilt list stored once) on
    every well-formed token tree, at every depth.  So every theorem below is a theorem about `deepcopyLoop`. -/
theorem deepcopyLoop_eq (f : Nat) (h : Heap α) (o : Nat) (hw : TWF h f o) : deepcopyLoop f h o = deepcopyN f h o :=
  deepcopyLoop_eq_N f h o hw

/-- **(2) `deepcopy()`: the copy's token tree is fresh at every depth and shows the original's nested list.** -/
theorem deepcopy_tokens_fresh (f : Nat) (h : Heap α) (o : Nat) (hw : TWF h f o) :
    (∀ x, TReach (deepcopyN f h o).1 (deepcopyN f h o).2 x →
        (h.next ≤ x ∧ h.next ≤ ((deepcopyN f h o).1.objs x).lst ∧ h.next ≤ ((deepcopyN f h o).1.objs x).dct) ∧
        ¬ TReach h o x) ∧
    (∀ y, TReach h o y → y < h.next ∧ (h.objs y).lst < h.next ∧ (h.objs y).dct < h.next) ∧
    (∀ k, asListN k (deepcopyN f h o).1 (deepcopyN f h o).2 = asListN k h o) ∧
    (∀ k, asListN k (deepcopyN f h o).1 o = asListN k h o) := by
  have hc := deepcopyN_corr f h o hw
  have e := deepcopyN_ext f h o
  refine ⟨fun x hx => ?_, fun y hy => TIn.reach hy f hw, fun k => Corr.asList k f o _ hc, fun k => ?_⟩
  · obtain ⟨a, b, c⟩ := TIn.reach hx f (Corr.fresh f o _ hc)
    refine ⟨⟨a.1, b.1, c.1⟩, fun ho => ?_⟩
    have := (TIn.reach ho f hw).1
    omega
  · exact asListN_agree (fun i hi => e.objs i hi) (fun i hi => e.lists i hi) k f o hw

/-- **(3) frames through the token tree**: after `d = r.deepcopy()`, whatever own mutations are applied to a group
    `x` anywhere in `d`'s token tree, `r.as_list()` is what it was; whatever is applied to a group `y` anywhere in
    `r`'s token tree, `d.as_list()` is what `r.as_list()` was when the copy was made. -/
theorem deepcopy_frame_tokens (f : Nat) (h : Heap α) (o : Nat) (hw : TWF h f o) (ms : List (Mut α)) :
    (∀ x, TReach (deepcopyN f h o).1 (deepcopyN f h o).2 x →
        ∀ k, asListN k (mutateAll (deepcopyN f h o).1 x ms) o = asListN k h o) ∧
    (∀ y, TReach h o y →
        ∀ k, asListN k (mutateAll (deepcopyN f h o).1 y ms) (deepcopyN f h o).2 = asListN k h o) := by
  have hc := deepcopyN_corr f h o hw
  have e := deepcopyN_ext f h o
  have hfresh := Corr.fresh f o _ hc
  refine ⟨fun x hx k => ?_, fun y hy k => ?_⟩
  · obtain ⟨_, b, _⟩ := TIn.reach hx f hfresh
    obtain ⟨A, B⟩ := mutateAll_objs_lists ms (deepcopyN f h o).1 x
    have hw' : TIn (· < h.next) (· < h.next) (deepcopyN f h o).1 f o :=
      TIn.agree (fun i hi => e.objs i hi) (fun i hi => e.lists i hi) (fun _ hi => hi) (fun _ hi => hi) f o hw
    rw [asListN_agree (fun i _ => congrFun A i) (fun i (hi : i < h.next) => B i (by omega)) k f o hw']
    exact asListN_agree (fun i hi => e.objs i hi) (fun i hi => e.lists i hi) k f o hw
  · obtain ⟨a, b, _⟩ := TIn.reach hy f hw
    obtain ⟨A, B⟩ := mutateAll_objs_lists ms (deepcopyN f h o).1 y
    have hb : ((deepcopyN f h o).1.objs y).lst < h.next := by rw [e.objs y a]; exact b
    rw [asListN_agree (fun i _ => congrFun A i)
      (fun i (hi : h.next ≤ i ∧ i < (deepcopyN f h o).1.next) => B i (by omega)) k f _ hfresh]
    exact Corr.asList k f o _ hc

/-- a sequence of own mutations of *several* objects -/
def mutateMany (h : Heap α) : List (Nat × List (Mut α)) → Heap α
  | [] => h
  | (x, ms) :: rest => mutateMany (mutateAll h x ms) rest

theorem mutateMany_objs_lists (b : Nat) : ∀ (steps : List (Nat × List (Mut α))) (h : Heap α),
    (∀ s ∈ steps, b ≤ (h.objs s.1).lst) →
    (mutateMany h steps).objs = h.objs ∧ ∀ i, i < b → (mutateMany h steps).lists i = h.lists i := by
  intro steps
  induction steps with
  | nil => intro h _; exact ⟨rfl, fun _ _ => rfl⟩
  | cons s rest ih =>
    intro h hs
    obtain ⟨A, B⟩ := mutateAll_objs_lists s.2 h s.1
    obtain ⟨C, D⟩ := ih (mutateAll h s.1 s.2) (fun t ht => by rw [A]; exact hs t (List.mem_cons_of_mem _ ht))
    have := hs s (List.mem_cons_self ..)
    exact ⟨C.trans A, fun i hi => (D i hi).trans (B i (by omega))⟩

/-- **(3′) many groups**: any sequence of own mutations of any groups of the copy's token tree (the groups the tree
    had when the copy was made) leaves the original's `as_list()` unchanged. -/
theorem deepcopy_frame_tokens_many (f : Nat) (h : Heap α) (o : Nat) (hw : TWF h f o)
    (steps : List (Nat × List (Mut α)))
    (hs : ∀ s ∈ steps, TReach (deepcopyN f h o).1 (deepcopyN f h o).2 s.1) :
    ∀ k, asListN k (mutateMany (deepcopyN f h o).1 steps) o = asListN k h o := by
  intro k
  have hc := deepcopyN_corr f h o hw
  have e := deepcopyN_ext f h o
  have hfresh := Corr.fresh f o _ hc
  obtain ⟨A, B⟩ := mutateMany_objs_lists h.next steps (deepcopyN f h o).1
    (fun s hm => (TIn.reach (hs s hm) f hfresh).2.1.1)
  have hw' : TIn (· < h.next) (· < h.next) (deepcopyN f h o).1 f o :=
    TIn.agree (fun i hi => e.objs i hi) (fun i hi => e.lists i hi) (fun _ hi => hi) (fun _ hi => hi) f o hw
  rw [asListN_agree (fun i _ => congrFun A i) (fun i (hi : i < h.next) => B i hi) k f o hw']
  exact asListN_agree (fun i hi => e.objs i hi) (fun i hi => e.lists i hi) k f o hw

/-- **(4) the finding `deepcopy_named_group_aliased`, general form**: for every group `x` of the original's token
    tree — at any depth — the copy's token tree has a new group `x'` whose name table has exactly `x`'s entries,
    i.e. refers to the same occurrence-list cells, and `deepcopy()` writes to no occurrence list.  So every named
    value of `x'` is the identical object the original names: named nested groups are shared, never re-pointed. -/
theorem deepcopy_names_shared (f : Nat) (h : Heap α) (o : Nat) (hw : TWF h f o) :
    (deepcopyN f h o).1.occs = h.occs ∧
    ∀ x, TReach h o x → ∃ x', TReach (deepcopyN f h o).1 (deepcopyN f h o).2 x' ∧ h.next ≤ x' ∧
      (deepcopyN f h o).1.dicts ((deepcopyN f h o).1.objs x').dct = h.dicts (h.objs x).dct ∧
      (view (deepcopyN f h o).1 x').2.1 = (view h x).2.1 :=
  ⟨(deepcopyN_ext f h o).occs, fun x hx => by
    obtain ⟨x', a, b, c⟩ := Corr.dict_shared hx f _ (deepcopyN_corr f h o hw)
    refine ⟨x', a, b, c, ?_⟩
    simp only [view, c, (deepcopyN_ext f h o).occs]⟩

/-! ### the chain of groups: a named group shared at every depth -/

theorem chain_objs (d i : Nat) : (chainHeap d).objs i = ⟨i - 2, i - 1, []⟩ := rfl

theorem chain_lists_succ (d j : Nat) (hj : j < d) : (chainHeap d).lists (3 * j + 3) = [.ref (3 * j + 2)] := by
  have h1 : ¬ (3 * j + 3 = 0) := by omega
  have h2 : (3 * j + 3) % 3 = 0 ∧ 3 * j + 3 < 3 * d + 3 := by omega
  simp only [chainHeap, h1, h2, if_false, if_true, and_self]
  rfl

theorem chain_twf (d : Nat) : ∀ j, j ≤ d → TWF (chainHeap d) j (3 * j + 2) := by
  intro j
  induction j with
  | zero =>
    intro _
    refine ⟨?_, ?_, ?_, ?_⟩
    · show 2 < 3 * d + 4; omega
    · show 0 < 3 * d + 4; omega
    · show 1 < 3 * d + 4; omega
    · intro n hn
      have : (chainHeap d).lists ((chainHeap d).objs (3 * 0 + 2)).lst = [.atom "a"] := rfl
      rw [this] at hn
      simp at hn
  | succ j ih =>
    intro hj
    refine ⟨?_, ?_, ?_, ?_⟩
    · show 3 * (j + 1) + 2 < 3 * d + 4; omega
    · show 3 * (j + 1) + 2 - 2 < 3 * d + 4; omega
    · show 3 * (j + 1) + 2 - 1 < 3 * d + 4; omega
    · intro n hn
      have : (chainHeap d).lists ((chainHeap d).objs (3 * (j + 1) + 2)).lst = [.ref (3 * j + 2)] := by
        rw [chain_objs]; exact chain_lists_succ d j (by omega)
      rw [this] at hn
      simp only [List.mem_singleton, HVal.ref.injEq] at hn
      subst hn
      exact ih (by omega)

theorem chain_reach (d : Nat) (t : Nat) : ∀ j, t ≤ j → j ≤ d → TReach (chainHeap d) (3 * j + 2) (3 * t + 2) := by
  intro j
  induction j with
  | zero => intro ht _; have : t = 0 := by omega
            subst this; exact TReach.refl _
  | succ j ih =>
    intro ht hj
    by_cases he : t = j + 1
    · subst he; exact TReach.refl _
    · refine TReach.step (n := 3 * j + 2) ?_ (ih (by omega) (by omega))
      have : (chainHeap d).lists ((chainHeap d).objs (3 * (j + 1) + 2)).lst = [.ref (3 * j + 2)] := by
        rw [chain_objs]; exact chain_lists_succ d j (by omega)
      rw [this]; simp

/-- **(4′) for every nesting depth `d + 1` there is a heap where a named nested group is shared between the copy
    and the original through the name table** (generalises `deepcopy_named_group_aliased_witness`, depth 1).
    `chainHeap (d+1)`: `d + 2` groups nested in each other, the innermost (object 2, at depth `d + 1` of the token
    tree of the outermost, object `3(d+1)+2`) is named `g` in its parent (object 5, depth `d`).  After
    `c = r.deepcopy()`: the copy's token tree contains a new group `x'` (the copy of object 5) with `x'['g']` = object 2
    = the original's innermost group; appending to `x'['g']` appends to the original's innermost group. -/
theorem deepcopy_named_alias_any_depth (d : Nat) :
    TWF (chainHeap (d + 1)) (d + 1) (3 * (d + 1) + 2) ∧
    TReach (chainHeap (d + 1)) (3 * (d + 1) + 2) 2 ∧
    ∃ x', TReach (deepcopyN (d + 1) (chainHeap (d + 1)) (3 * (d + 1) + 2)).1
              (deepcopyN (d + 1) (chainHeap (d + 1)) (3 * (d + 1) + 2)).2 x' ∧
      (chainHeap (d + 1)).next ≤ x' ∧
      (view (deepcopyN (d + 1) (chainHeap (d + 1)) (3 * (d + 1) + 2)).1 x').2.1 = [("g", [.ref 2])] ∧
      (view (mutate (deepcopyN (d + 1) (chainHeap (d + 1)) (3 * (d + 1) + 2)).1 2 (.append (.atom "z"))) 2).1
        = [.atom "a", .atom "z"] := by
  have hw := chain_twf (d + 1) (d + 1) (Nat.le_refl _)
  refine ⟨hw, chain_reach (d + 1) 0 (d + 1) (by omega) (Nat.le_refl _), ?_⟩
  obtain ⟨_, hs⟩ := deepcopy_names_shared (d + 1) (chainHeap (d + 1)) (3 * (d + 1) + 2) hw
  obtain ⟨x', a, b, _, c⟩ := hs 5 (chain_reach (d + 1) 1 (d + 1) (by omega) (Nat.le_refl _))
  refine ⟨x', a, b, ?_, ?_⟩
  · rw [c]; simp [view, chainHeap]
  · have e := deepcopyN_ext (d + 1) (chainHeap (d + 1)) (3 * (d + 1) + 2)
    have e2 : (deepcopyN (d + 1) (chainHeap (d + 1)) (3 * (d + 1) + 2)).1.objs 2 = ⟨0, 1, []⟩ :=
      e.objs 2 (by show 2 < 3 * (d + 1) + 4; omega)
    have e0 : (deepcopyN (d + 1) (chainHeap (d + 1)) (3 * (d + 1) + 2)).1.lists 0 = [.atom "a"] :=
      e.lists 0 (by show 0 < 3 * (d + 1) + 4; omega)
    simp only [view, mutate, e2, upd_same, e0]
    rfl

/-! ### (5) `copy.deepcopy(r)` / pickle round trip of nested results: full separation, names included

Model: `deepObjN` / `copyModuleDeep` in `PPModel/Mod/PRHeapDeep.lean` (the memoised graph copy the standard library
performs through `__getnewargs__` / `__getstate__` / `__setstate__`, results.py:758-775).  Hypothesis `FD h.next h f o`:
everything reachable from `o` through tokens and names is allocated and the reachability tree has depth < `f`. -/

/-- reachability through tokens AND through named values -/
inductive FReach (h : Heap α) : Nat → Nat → Prop where
  | refl (o : Nat) : FReach h o o
  | tok {o n x : Nat} : HVal.ref n ∈ h.lists (h.objs o).lst → FReach h n x → FReach h o x
  | name {o n x : Nat} (e : String × Nat) (vp : HVal α × Int) : e ∈ h.dicts (h.objs o).dct → vp ∈ h.occs e.2 →
      vp.1 = HVal.ref n → FReach h n x → FReach h o x

theorem Inv.reach {b : Nat} {s : DS α} (hI : Inv b s) {c x : Nat} (hr : FReach s.h c x) :
    InVals s.mo c → InVals s.mo x := by
  induction hr with
  | refl o => exact fun hc => hc
  | tok hm _ ih => exact fun hc => ih ((hI.obj _ hc).2.2.2.1 _ hm _ rfl)
  | name e vp he hvp hn _ ih =>
    exact fun hc => ih ((hI.occ _ ((hI.obj _ hc).2.2.2.2 e he)).2 vp hvp _ hn)

theorem FD.reach {b : Nat} {h : Heap α} {o x : Nat} (hr : FReach h o x) :
    ∀ d, FD b h d o → x < b ∧ (h.objs x).lst < b ∧ (h.objs x).dct < b := by
  induction hr with
  | refl o => intro d hd; cases d with
    | zero => exact hd.elim
    | succ d => exact ⟨hd.1, hd.2.1, hd.2.2.1⟩
  | tok hm _ ih => intro d hd; cases d with
    | zero => exact hd.elim
    | succ d => exact ih d (hd.2.2.2.1 _ hm)
  | name e vp he hvp hn _ ih => intro d hd; cases d with
    | zero => exact hd.elim
    | succ d => exact ih d ((hd.2.2.2.2 e he).2 vp hvp _ hn)

/-- **(2′)** when everything the original reaches by any route (tokens, named values) is allocated (`FD`), no group
    of the token tree of `r.deepcopy()` is reachable from the original by ANY route — the named values of the copy
    (`deepcopy_names_shared`) are the only link between the two. -/
theorem deepcopy_tokens_fresh_full (f : Nat) (h : Heap α) (o : Nat) (hw : TWF h f o) (d : Nat)
    (hd : FD h.next h d o) (x : Nat) (hx : TReach (deepcopyN f h o).1 (deepcopyN f h o).2 x) : ¬ FReach h o x := by
  intro ho
  have h1 := ((deepcopy_tokens_fresh f h o hw).1 x hx).1.1
  have h2 := (FD.reach ho d hd).1
  omega

/-- **(2″) `deepcopy()` preserves BOTH views at every depth**: when everything the original reaches by any route is
    allocated (`FD`), `dumpN` — tokens, names in order with all occurrences, list-all names, nested results expanded,
    to every observation depth — of `r.deepcopy()` is that of `r`.  (The named values it shows are the original's
    own objects, `deepcopy_names_shared`; they show what they showed because `deepcopy()` writes to nothing that
    exists.) -/
theorem deepcopy_views (f : Nat) (h : Heap α) (o : Nat) (hw : TWF h f o) (d : Nat) (hd : FD h.next h d o) (k : Nat) :
    dumpN k (deepcopyN f h o).1 (deepcopyN f h o).2 = dumpN k h o ∧
    dumpN k (deepcopyN f h o).1 o = dumpN k h o :=
  ⟨Corr.dump (deepcopyN_ext f h o) k f d o _ (deepcopyN_corr f h o hw) hd,
   dumpN_ext (deepcopyN_ext f h o) k d o hd⟩

/-- **(3″) frames of `deepcopy()` at the level of both views**: after `c = r.deepcopy()`, own mutations (tokens or
    names) of any group `x` of `c`'s token tree leave the view — tokens, names with all values, list-all names — of
    EVERY well-formed object of the original heap unchanged; own mutations of any well-formed original object `y`
    leave the view of every group of `c`'s token tree unchanged (positions inside the shared occurrence lists may be
    rewritten, the values are not). -/
theorem deepcopy_frame_views (f : Nat) (h : Heap α) (o : Nat) (hw : TWF h f o) (d : Nat) (hd : FD h.next h d o)
    (x y : Nat) (hx : TReach (deepcopyN f h o).1 (deepcopyN f h o).2 x) (hy : WF h y) (ms : List (Mut α)) :
    view (mutateAll (deepcopyN f h o).1 x ms) y = view h y ∧
    view (mutateAll (deepcopyN f h o).1 y ms) x = view (deepcopyN f h o).1 x := by
  have hc := deepcopyN_corr f h o hw
  have e := deepcopyN_ext f h o
  obtain ⟨_, b1, c1⟩ := TIn.reach hx f (Corr.fresh f o _ hc)
  obtain ⟨x0, rx0, ex0⟩ := Corr.dict_shared_rev hx f o hc
  obtain ⟨wl, wd, wo, wa⟩ := hy
  have eo := e.objs y wo
  have el := e.lists _ wl
  have ed := e.dicts _ wd
  have v0 : view (deepcopyN f h o).1 y = view h y := by simp only [view, eo, el, ed, e.occs]
  have s1 : Sep (deepcopyN f h o).1 x y := by
    refine ⟨?_, ?_, ?_⟩
    · rw [eo]; omega
    · rw [eo]; omega
    · rw [eo, ed]; intro en hen; have := wa en hen; have := e.next; omega
  have s2 : Sep (deepcopyN f h o).1 y x := by
    refine ⟨?_, ?_, ?_⟩
    · rw [eo]; omega
    · rw [eo]; omega
    · rw [ex0]; intro en hen; have := FD.entries rx0 d hd en hen; have := e.next; omega
  exact ⟨by rw [frame_all ms _ _ _ s1, v0], frame_all ms _ _ _ s2⟩

/-- **(5) `copy.deepcopy` / pickle of nested results rebuilds every reachable object**: no allocated cell or object
    of the original heap is written; every object reachable from the copy by ANY route (tokens, named values, at any
    depth) is a new object with a new list cell, a new dict cell and new occurrence lists; everything reachable
    from the original is old — so the two object graphs are disjoint. -/
theorem copyModule_deep_fresh (f : Nat) (h : Heap α) (o : Nat) (hd : FD h.next h f o) :
    (h.next ≤ (copyModuleDeep f h o).1.next ∧ ∀ i, i < h.next →
        (copyModuleDeep f h o).1.lists i = h.lists i ∧ (copyModuleDeep f h o).1.dicts i = h.dicts i ∧
        (copyModuleDeep f h o).1.occs i = h.occs i ∧ (copyModuleDeep f h o).1.objs i = h.objs i) ∧
    (∀ x, FReach (copyModuleDeep f h o).1 (copyModuleDeep f h o).2 x →
        h.next ≤ x ∧ h.next ≤ ((copyModuleDeep f h o).1.objs x).lst ∧
        h.next ≤ ((copyModuleDeep f h o).1.objs x).dct ∧
        (∀ e ∈ (copyModuleDeep f h o).1.dicts ((copyModuleDeep f h o).1.objs x).dct,
            h.next ≤ e.2 ∧ e.2 < (copyModuleDeep f h o).1.next) ∧
        ¬ FReach h o x) ∧
    (∀ y, FReach h o y → y < h.next ∧ (h.objs y).lst < h.next ∧ (h.objs y).dct < h.next) := by
  have hI0 : Inv h.next (⟨h, [], []⟩ : DS α) :=
    ⟨fun c hc => (by obtain ⟨_, hk⟩ := hc; cases hk), fun c hc => (by obtain ⟨_, hk⟩ := hc; cases hk)⟩
  have hB0 : Below h.next h (⟨h, [], []⟩ : DS α).h := ⟨Nat.le_refl _, fun _ _ => ⟨rfl, rfl, rfl, rfl⟩⟩
  obtain ⟨r1, r2, r3⟩ := deepObjN_spec h.next h f ⟨h, [], []⟩ o hI0 hB0 hd
  refine ⟨⟨r2.next, fun i hi => ⟨r2.lists i hi, r2.dicts i hi, r2.occs i hi, r2.objs i hi⟩⟩, fun x hx => ?_,
    fun y hy => FD.reach hy f hd⟩
  have hxm := r1.reach hx r3
  obtain ⟨⟨a1, _⟩, ⟨b1, _⟩, ⟨c1, _⟩, _, q2⟩ := r1.obj x hxm
  refine ⟨a1, b1, c1, fun e he => (r1.occ _ (q2 e he)).1, fun ho => ?_⟩
  have := (FD.reach ho f hd).1
  omega

/-- **(5″) the list view survives `copy.deepcopy` / pickle at every depth**: `as_list()` of the copy is `as_list()`
    of the original, to every observation depth; and the original still shows what it showed. -/
theorem copyModule_deep_as_list (f : Nat) (h : Heap α) (o : Nat) (hd : FD h.next h f o) (k : Nat) :
    asListN k (copyModuleDeep f h o).1 (copyModuleDeep f h o).2 = asListN k h o ∧
    ∀ y d, TWF h d y → asListN k (copyModuleDeep f h o).1 y = asListN k h y := by
  have hI0 : Inv h.next (⟨h, [], []⟩ : DS α) :=
    ⟨fun c hc => (by obtain ⟨_, hk⟩ := hc; cases hk), fun c hc => (by obtain ⟨_, hk⟩ := hc; cases hk)⟩
  have hB0 : Below h.next h (⟨h, [], []⟩ : DS α).h := ⟨Nat.le_refl _, fun _ _ => ⟨rfl, rfl, rfl, rfl⟩⟩
  have hM0 : MRel h.next h (⟨h, [], []⟩ : DS α) := ⟨fun _ _ _ hk => (by cases hk), fun _ _ hk => (by cases hk)⟩
  obtain ⟨m1, m2⟩ := deepObjN_rel h.next h f ⟨h, [], []⟩ o hI0 hB0 hd hM0
  obtain ⟨_, r2, _⟩ := deepObjN_spec h.next h f ⟨h, [], []⟩ o hI0 hB0 hd
  exact ⟨m1.asList k o _ m2, fun y d hw => asListN_agree (fun i hi => r2.objs i hi) (fun i hi => r2.lists i hi) k d y hw⟩

/-- **(5‴) BOTH views survive `copy.deepcopy` / pickle at every depth**: `dumpN` — tokens, names in order with all
    occurrences (positions and values), list-all names, nested results expanded, to every observation depth `k` — of
    the copy is that of the original.  (`as_list`, `as_dict`, `dump`, `keys`, `len` are functions of it.) -/
theorem copyModule_deep_views (f : Nat) (h : Heap α) (o : Nat) (hd : FD h.next h f o) (k : Nat) :
    dumpN k (copyModuleDeep f h o).1 (copyModuleDeep f h o).2 = dumpN k h o := by
  have hI0 : Inv h.next (⟨h, [], []⟩ : DS α) :=
    ⟨fun c hc => (by obtain ⟨_, hk⟩ := hc; cases hk), fun c hc => (by obtain ⟨_, hk⟩ := hc; cases hk)⟩
  have hB0 : Below h.next h (⟨h, [], []⟩ : DS α).h := ⟨Nat.le_refl _, fun _ _ => ⟨rfl, rfl, rfl, rfl⟩⟩
  have hM0 : MRel h.next h (⟨h, [], []⟩ : DS α) := ⟨fun _ _ _ hk => (by cases hk), fun _ _ hk => (by cases hk)⟩
  have hD0 : DRel h.next h (⟨h, [], []⟩ : DS α) (fun _ => False) :=
    ⟨fun _ _ hk => (by cases hk), fun _ _ hk => (by cases hk)⟩
  obtain ⟨m1, m2⟩ := deepObjN_rel h.next h f ⟨h, [], []⟩ o hI0 hB0 hd hM0
  exact (deepObjN_drel h.next h f (fun _ => False) ⟨h, [], []⟩ o hI0 hB0 hd hM0 hD0).dump m1 k o _ m2

/-- **(5′) frames, names included**: after `c = copy.deepcopy(r)` (or a pickle round trip), any sequence of own
    mutations — tokens or names — of any object reachable from `c` by any route leaves the view (tokens, names,
    list-all names) of every well-formed object of the original heap unchanged; and any sequence of own mutations
    of any well-formed original object leaves the view of every object reachable from `c` unchanged. -/
theorem copyModule_deep_frame (f : Nat) (h : Heap α) (o : Nat) (hd : FD h.next h f o) (x y : Nat)
    (hx : FReach (copyModuleDeep f h o).1 (copyModuleDeep f h o).2 x) (hy : WF h y) (ms : List (Mut α)) :
    view (mutateAll (copyModuleDeep f h o).1 x ms) y = view h y ∧
    view (mutateAll (copyModuleDeep f h o).1 y ms) x = view (copyModuleDeep f h o).1 x := by
  obtain ⟨⟨hn, hlow⟩, hfr, _⟩ := copyModule_deep_fresh f h o hd
  obtain ⟨a1, b1, c1, q, _⟩ := hfr x hx
  obtain ⟨wl, wd, wo, wa⟩ := hy
  have eo := (hlow y wo).2.2.2
  have el := (hlow _ wl).1
  have ed := (hlow _ wd).2.1
  have v0 : view (copyModuleDeep f h o).1 y = view h y := by
    simp only [view, eo, el, ed]
    congr 2
    apply List.map_congr_left
    intro e he
    rw [(hlow e.2 (wa e he)).2.2.1]
  have s1 : Sep (copyModuleDeep f h o).1 x y := by
    refine ⟨?_, ?_, ?_⟩
    · rw [eo]; omega
    · rw [eo]; omega
    · rw [eo, ed]; intro e he; have := wa e he; omega
  have s2 : Sep (copyModuleDeep f h o).1 y x := by
    refine ⟨?_, ?_, ?_⟩
    · rw [eo]; omega
    · rw [eo]; omega
    · intro e he; exact (q e he).2
  exact ⟨by rw [frame_all ms _ _ _ s1, v0], frame_all ms _ _ _ s2⟩

/-- non-vacuity of (5): the outer result of `C11Heap.exHeap` (`[<inner>, 'b']`, `g ↦ <inner>`, `x ↦ 'b'`) -/
example : FD exHeap.next exHeap 2 5 := by
  refine ⟨by decide, by decide, by decide, ?_, ?_⟩
  · intro n hn
    have : n = 2 := by simpa [exHeap] using hn
    subst this
    exact ⟨by decide, by decide, by decide, fun n hn => by simp [exHeap] at hn, fun e he => by simp [exHeap] at he⟩
  · intro e he
    have : e = ("g", 6) ∨ e = ("x", 7) := by simpa [exHeap] using he
    rcases this with rfl | rfl
    · refine ⟨by decide, fun vp hvp n hn => ?_⟩
      have : vp = (.ref 2, 0) := by simpa [exHeap] using hvp
      subst this
      cases hn
      exact ⟨by decide, by decide, by decide, fun n hn => by simp [exHeap] at hn, fun e he => by simp [exHeap] at he⟩
    · refine ⟨by decide, fun vp hvp n hn => ?_⟩
      have : vp = (.atom "b", 1) := by simpa [exHeap] using hvp
      subst this
      cases hn

/-- … and its token tree has depth 1: the hypotheses of `deepcopy_views`, `deepcopy_frame_views`,
    `deepcopy_tokens_fresh_full` hold together on it -/
example : TWF exHeap 1 5 := by
  refine ⟨by decide, by decide, by decide, ?_⟩
  intro n hn
  have : n = 2 := by simpa [exHeap] using hn
  subst this
  exact ⟨by decide, by decide, by decide, fun n hn => by simp [exHeap] at hn⟩

/-- … its deep copy is object 15 = `[<object 10>, 'b']` with `g ↦ <object 10>` (the memo keeps `c['g'] is c[0]`),
    `x ↦ 'b'`; object 10 = `['a']` -/
example :
    (copyModuleDeep 2 exHeap 5).2 = 15 ∧
    view (copyModuleDeep 2 exHeap 5).1 15 = ([.ref 10, .atom "b"], [("g", [.ref 10]), ("x", [.atom "b"])], []) ∧
    (view (copyModuleDeep 2 exHeap 5).1 10).1 = [.atom "a"] ∧
    -- `c['g'].append('z')` is seen through `c[0]`, not by the original
    (view (mutate (copyModuleDeep 2 exHeap 5).1 10 (.append (.atom "z"))) 2).1 = [.atom "a"] := by decide +kernel

/-- `deepcopy()` of the same result shows the same (its `g` is the original's inner group, object 2) -/
example : dumpN 3 (deepcopyN 1 exHeap 5).1 (deepcopyN 1 exHeap 5).2 = dumpN 3 exHeap 5 ∧
    (view (deepcopyN 1 exHeap 5).1 (deepcopyN 1 exHeap 5).2).2.1 = [("g", [.ref 2]), ("x", [.atom "b"])] := by
  decide +kernel

/-- … and both show `[['a'], 'b']`, `g: [(0, ['a'])]`, `x: [(1, 'b')]` -/
example : dumpN 3 (copyModuleDeep 2 exHeap 5).1 15 = dumpN 3 exHeap 5 ∧
    dumpN 3 exHeap 5 = [.lb, .lb, .a "a", .rb, .a "b", .key "g", .pos 0, .lb, .a "a", .rb, .key "x", .pos 1, .a "b", .rb] := by
  decide +kernel

/-! ### non-vacuity: concrete nested instances, computed -/

/-- three groups nested in each other (depth 2), `g` names the innermost in its parent -/
example : TWF (chainHeap 2) 2 8 := chain_twf 2 2 (Nat.le_refl _)

example : deepcopyLoop 2 (chainHeap 2) 8 = deepcopyN 2 (chainHeap 2) 8 :=
  deepcopyLoop_eq 2 (chainHeap 2) 8 (chain_twf 2 2 (Nat.le_refl _))

/-- the deep copy (object 12) shows `[[['a']]]`; its groups are the new objects 12, 15, 18 -/
example : asListN 5 (deepcopyN 2 (chainHeap 2) 8).1 (deepcopyN 2 (chainHeap 2) 8).2
      = [.lb, .lb, .lb, .a "a", .rb, .rb, .rb] ∧
    (deepcopyN 2 (chainHeap 2) 8).2 = 12 ∧
    (view (deepcopyN 2 (chainHeap 2) 8).1 12).1 = [.ref 15] ∧
    (view (deepcopyN 2 (chainHeap 2) 8).1 15).1 = [.ref 18] ∧
    (view (deepcopyN 2 (chainHeap 2) 8).1 18).1 = [.atom "a"] := by decide +kernel

/-- mutate the innermost group of the copy (18) through its tokens, and the middle one (15): the original (8) still
    shows `[[['a']]]`, the copy shows the changes -/
example :
    let h := mutateMany (deepcopyN 2 (chainHeap 2) 8).1
      [(18, [.append (.atom "z"), .delTok 0]), (15, [.insert 0 (.atom "y"), .setName "n" (.atom "v")])]
    asListN 5 h 8 = [.lb, .lb, .lb, .a "a", .rb, .rb, .rb] ∧
    asListN 5 h 12 = [.lb, .lb, .a "y", .lb, .a "z", .rb, .rb, .rb] := by decide +kernel

/-- … whereas through the name `g` of the copied middle group (15) one reaches the original's innermost group (2):
    `c[0]['g'].append('z')` shows up in the original's `as_list()` -/
example :
    (view (deepcopyN 2 (chainHeap 2) 8).1 15).2.1 = [("g", [.ref 2])] ∧
    asListN 5 (mutate (deepcopyN 2 (chainHeap 2) 8).1 2 (.append (.atom "z"))) 8
      = [.lb, .lb, .lb, .a "a", .a "z", .rb, .rb, .rb] := by decide +kernel

end PP.PRHeap
