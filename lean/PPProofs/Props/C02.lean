import PPProofs.Lemmas.EntryMono
import PPModel.Mod.Cache
/-!
# C02 — packrat memoization never changes a parse outcome

Model: `PPModel/Mod/Cache.lean`.  `parseH g s h` is `_parseCache` all the way down, with the cache abstracted as an
oracle `h` that may answer *any* call with *whatever it holds*; `Oracle.Sound` says an entry can only hold the outcome
of a completed `_parseNoCache` run for its own key (that is what lines 992-998 store: `(value[0], value[1].copy(), loc)`
or `pe.__class__(*pe.args)`).  Which keys are present — cache size 0, 1, 2, 128, unbounded, FIFO eviction order,
`reset_cache` — is left arbitrary, so the theorems hold for **every** cache size and eviction policy.

Full-strength clauses proved here (all grammars in the modelled class, all inputs, all cache contents):
* `packrat_transparent`      every `_parse` call that terminates without memoization gives the same outcome
                             (end, tokens | exception class, location) with memoization;
* `packrat_parseString`, `packrat_scanString` the same for parse_string(parse_all) and for the whole match list of
                             scan_string (hence search_string / transform_string / split, functions of that list);
* `fifo_cache_sound`, `fifoSet_ok`  any content reachable by `_FifoCache.set`/`_UnboundedCache.set` from a consistent
                             cache with correct values, for every size, is a sound oracle.
Not proved here (`…_partial` in the sense of the statement): exception *messages* (modelled outcome has class and
location only) and the aliasing clause (copy on store / on hit) — both are checked differentially on the real code.
The abstraction "cache = oracle indexed by (depth, key)" is part of the trusted base (see DESIGN.md §5 C02).
-/
namespace PP.Parse

/-- **C02 core.** With a sound cache, every call that terminates without memoization returns the same outcome with
    memoization — for any cache content whatsoever. -/
theorem packrat_transparent (g : Grammar) (s : List Char) (h : Oracle) (hs : h.Sound g s) :
    ∀ f, Le (parse g s f) (parseH g s h f) := by
  intro f
  induction f with
  | zero => intro e loc a c o ho hn; simp [parse] at ho; exact absurd ho.symm hn
  | succ f ih =>
    intro e loc a c o ho hn
    subst ho
    show parseH g s h (f + 1) e loc a c = _
    unfold parseH
    cases hh : h f e loc a c with
    | none =>
      simp only
      exact parseStep_mono g s ih e loc a c _ rfl hn
    | some v =>
      simp only
      obtain ⟨hv, f', hf'⟩ := hs f e loc a c v hh
      rw [← hf']
      exact parse_fuel_irrelevant g s f' (f + 1) e loc a c (by rw [hf']; exact hv) hn

/-- parse_string (with or without parse_all): same tokens or same exception class and location -/
theorem packrat_parseString (g : Grammar) (s dw : List Char) (h : Oracle) (hs : h.Sound g s) (f root : Nat)
    (pa : Bool) (hn : parseString (parse g s f) g root dw s pa ≠ .hang) :
    parseString (parseH g s h f) g root dw s pa = parseString (parse g s f) g root dw s pa :=
  parseString_mono (packrat_transparent g s h hs f) g root dw s pa hn

/-- scan_string: the same list of (tokens, start, end) and the same escaping exception, if any;
    search_string, transform_string and split are functions of this value. -/
theorem packrat_scanString (g : Grammar) (s : List Char) (h : Oracle) (hs : h.Sound g s) (f root mm : Nat)
    (sk ov : Bool) (hn : (scanString (parse g s f) g root s mm sk ov).isHang = false) :
    scanString (parseH g s h f) g root s mm sk ov = scanString (parse g s f) g root s mm sk ov :=
  scanString_mono (packrat_transparent g s h hs f) g root s mm sk ov hn

theorem packrat_transformString (g : Grammar) (s : List Char) (h : Oracle) (hs : h.Sound g s) (f root : Nat)
    (hn : (scanString (parse g s f) g root s (s.length + 2) true false).isHang = false) :
    transformString s (scanString (parseH g s h f) g root s (s.length + 2) true false)
      = transformString s (scanString (parse g s f) g root s (s.length + 2) true false) := by
  rw [packrat_scanString g s h hs f root _ true false hn]

/-! ### the concrete cache: `_FifoCache` of any size / `_UnboundedCache` -/

/-- every entry of the cache holds the outcome of a completed uncached run for its own key -/
def CacheOk (g : Grammar) (s : List Char) (c : CacheL) : Prop :=
  ∀ kv ∈ c, kv.2 ≠ .hang ∧ ∃ f, parse g s f kv.1.id kv.1.loc kv.1.acts kv.1.callPre = kv.2

theorem CacheL.get_mem {c : CacheL} {k : Key} {v : Out} (h : c.get k = some v) : (k, v) ∈ c := by
  unfold CacheL.get at h
  cases hf : c.find? (fun kv => kv.1 = k) with
  | none => simp [hf] at h
  | some kv =>
    simp [hf] at h
    have hm := List.mem_of_find?_eq_some hf
    have hk := List.find?_some hf
    simp at hk
    subst h
    rcases kv with ⟨k', v'⟩
    simp at hk
    subst hk
    exact hm

/-- a consistent cache content is a sound oracle -/
theorem fifo_cache_sound (g : Grammar) (s : List Char) (c : CacheL) (hc : CacheOk g s c) :
    (oracleOf c).Sound g s := by
  intro f id loc a cp v hv
  have := hc _ (CacheL.get_mem hv)
  exact this

theorem CacheL.mem_assign {c : CacheL} {k : Key} {v : Out} {kv : Key × Out} (h : kv ∈ c.assign k v) :
    kv = (k, v) ∨ kv ∈ c := by
  induction c with
  | nil => simp [CacheL.assign] at h; exact Or.inl h
  | cons hd tl ih =>
    rcases hd with ⟨k', v'⟩
    unfold CacheL.assign at h
    split at h
    · rcases List.mem_cons.mp h with h | h
      · exact Or.inl h
      · exact Or.inr (List.mem_cons_of_mem _ h)
    · rcases List.mem_cons.mp h with h | h
      · exact Or.inr (h ▸ List.mem_cons_self)
      · rcases ih h with h | h
        · exact Or.inl h
        · exact Or.inr (List.mem_cons_of_mem _ h)

/-- `_FifoCache.set` / `_UnboundedCache.set` preserve consistency, for **every** size (0, 1, 2, 128, none):
    eviction only removes entries. -/
theorem fifoSet_ok (g : Grammar) (s : List Char) (size : Option Nat) (c : CacheL) (k : Key) (v : Out)
    (hc : CacheOk g s c) (hv : v ≠ .hang) (hk : ∃ f, parse g s f k.id k.loc k.acts k.callPre = v) :
    CacheOk g s (c.set size k v) := by
  intro kv hmem
  have hmem' : kv ∈ c.assign k v := by
    unfold CacheL.set at hmem
    cases size with
    | none => exact hmem
    | some n => exact List.mem_of_mem_drop hmem
  rcases CacheL.mem_assign hmem' with h | h
  · subst h; exact ⟨hv, hk⟩
  · exact hc _ h

/-- what `_parseCache` stores after a miss is correct: the outcome of the cached run itself (995-998),
    whenever the uncached run terminates -/
theorem stored_value_correct (g : Grammar) (s : List Char) (h : Oracle) (hs : h.Sound g s) (f : Nat) (k : Key)
    (hn : parse g s f k.id k.loc k.acts k.callPre ≠ .hang) :
    parseH g s h f k.id k.loc k.acts k.callPre ≠ .hang ∧
      ∃ f', parse g s f' k.id k.loc k.acts k.callPre = parseH g s h f k.id k.loc k.acts k.callPre := by
  have := packrat_transparent g s h hs f k.id k.loc k.acts k.callPre _ rfl hn
  rw [this]
  exact ⟨hn, f, rfl⟩

/-- size 0 retains nothing (`enable_packrat(0)` "effectively disables" the cache) -/
theorem fifo_size0_empty (c : CacheL) (k : Key) (v : Out) : c.set (some 0) k v = [] := by
  simp [CacheL.set]

/-! ### non-vacuity: a concrete grammar, input and non-empty sound cache on which a hit really happens -/

/-- `Word("ab") + Word("ab") | Word("ab")` : nodes 0 = MatchFirst[1,4], 1 = And[2,3], 2,3,4 = Word -/
def exG : Grammar :=
  let w : Node := { kind := .word ['a','b'] ['a','b'] 1 none false false true, skipWs := true,
                    white := [' ', '\n', '\t', '\r'], callPre := true, mayIdx := false, ignore := [], acts := [],
                    callDuringTry := false, nameLen := 6 }
  [ { w with kind := .matchFirst [1, 4], callPre := false },
    { w with kind := .and [2, 3] }, w, w, w ]

def exC : CacheL := [(⟨2, 0, true, false⟩, .ok 2 [.s ['a','b']])]

example : CacheOk exG ['a', 'b'] exC := by
  intro kv hkv
  simp [exC] at hkv
  subst hkv
  exact ⟨by simp, 2, by rfl⟩

example : parse exG ['a', 'b'] 5 0 0 true true = .ok 2 [.s ['a','b']] := by rfl
example : parseH exG ['a', 'b'] (oracleOf exC) 5 0 0 true true = .ok 2 [.s ['a','b']] := by rfl

end PP.Parse
