import PPProofs.Lemmas.ActionGate
/-!
# C13 — part 2: actions do not run during trial matching unless `call_during_try` is set

Model: `PPModel/Mod/ActionGate.lean` — `parse s fuel e loc do_actions callPreParse` returns the result and the
trace of fired actions `(id, loc)`; it transcribes the gate `if self.parseAction and (do_actions or
self.callDuringTry)` (core.py:870) and the trial-matching constructs (Or/Each first pass, SkipTo scan and fail_on,
stop_on, NotAny/FollowedBy, Opt, ZeroOrMore, And, MatchFirst).
`firable da e` (Lemmas) = ids of actions allowed to fire: own actions when `da || call_during_try`; every
trial-matched position counts with `da = false`.  `hasCdt e` = some element inside `e` has `call_during_try`.
All theorems hold for every expression, input, location, fuel (no bound).
-/
namespace PP.ActionGate

theorem AllIn_nil_eq {tr : List Ev} (h : AllIn tr []) : tr = [] := by
  cases tr with
  | nil => rfl
  | cons ev _ => exact absurd (h ev (List.mem_cons_self ..)) (by simp)

/-- **fired_ids_firable**: whatever fires, fires at a position where `do_actions` is on or under
    `call_during_try` — in particular an action sitting only in trial-matched positions never fires. -/
theorem fired_ids_firable (s : List Char) (fuel : Nat) (e : E) (loc : Nat) (da cp : Bool) :
    ∀ ev ∈ (parse s fuel e loc da cp).2, ev.1 ∈ firable da e :=
  parse_sound s fuel e loc da cp

/-- **no_actions_when_trying**: `do_actions = False` and no `call_during_try` anywhere inside ⇒ no action
    fires at all (this is what `try_parse` / `can_parse_next` rely on). -/
theorem no_actions_when_trying (s : List Char) (fuel : Nat) (e : E) (loc : Nat) (cp : Bool)
    (h : hasCdt e = false) : (parse s fuel e loc false cp).2 = [] := by
  apply AllIn_nil_eq
  have := parse_sound s fuel e loc false cp
  rwa [firable_false_of_noCdt e h] at this

/-- Or: the first pass (core.py:4286-4311) fires nothing; every event of an `Or` comes from its second pass -/
theorem or_first_pass_fires_nothing (s : List Char) (fuel : Nat) (es : List E) (loc : Nat)
    (h : hasCdtL es = false) : (orFirst (parse s fuel) loc es).tr = [] := by
  apply AllIn_nil_eq
  have := (orFirst_sound (parse_sound s fuel) loc es).1
  rwa [firableL_false_of_noCdt es h] at this

/-- Each: the matching-order loop (core.py:4629-4653) fires nothing; events come from the final ordered pass -/
theorem each_first_pass_fires_nothing (s : List Char) (fuel : Nat) (es : List E) (n loc : Nat)
    (h : hasCdtL es = false) : (eachLoop (parse s fuel) n es loc []).2 = [] := by
  apply AllIn_nil_eq
  have := (eachLoop_sound (parse_sound s fuel) es n es loc [] (fun _ h => h) (fun _ h => by cases h)).1
  rwa [firableL_false_of_noCdt es h] at this

/-- SkipTo: scanning for the target and testing `fail_on` (core.py:5519-5547) fires nothing -/
theorem skipTo_scan_fires_nothing (s : List Char) (fuel : Nat) (t : E) (fo : Option E) (n loc : Nat)
    (ht : hasCdt t = false) (hf : hasCdtO fo = false) : (skipScan (parse s fuel) t fo n loc).2 = [] := by
  apply AllIn_nil_eq
  have := skipScan_sound (parse_sound s fuel) t fo n loc
  rwa [firable_false_of_noCdt t ht, firableO_false_of_noCdt fo hf] at this

/-- SkipTo without `include`: the target's actions never fire, even with `do_actions = True` -/
theorem skipTo_without_include_is_silent (s : List Char) (fuel : Nat) (t : E) (fo : Option E) (loc : Nat)
    (da cp : Bool) (ht : hasCdt t = false) (hf : hasCdtO fo = false) :
    (parse s fuel (.skipTo t fo false) loc da cp).2 = [] := by
  apply AllIn_nil_eq
  have := parse_sound s fuel (.skipTo t fo false) loc da cp
  simpa [firable, firable_false_of_noCdt t ht, firableO_false_of_noCdt fo hf] using this

/-- stop_on: the sentinel test (core.py:5147, 5153) fires nothing -/
theorem stop_on_check_fires_nothing (s : List Char) (fuel : Nat) (st : Option E) (loc : Nat)
    (h : hasCdtO st = false) : (enderCheck (parse s fuel) st loc).2 = [] := by
  apply AllIn_nil_eq
  have := enderCheck_sound (parse_sound s fuel) st loc
  rwa [firableO_false_of_noCdt st h] at this

/-- hence in `OneOrMore(e, stop_on=st)` / SkipTo / Or / Each every fired action belongs to the part that is
    parsed "for real" -/
theorem or_each_skipto_stopon_fire_only_real (s : List Char) (fuel : Nat) (loc : Nat) (da cp : Bool) :
    (∀ e st, hasCdtO st = false → ∀ ev ∈ (parse s fuel (.many e st) loc da cp).2, ev.1 ∈ firable da e) ∧
    (∀ es, hasCdtL es = false → ∀ ev ∈ (parse s fuel (.or es) loc da cp).2, ev.1 ∈ firableL da es) ∧
    (∀ es, hasCdtL es = false → ∀ ev ∈ (parse s fuel (.each es) loc da cp).2, ev.1 ∈ firableL da es) ∧
    (∀ t fo, hasCdt t = false → hasCdtO fo = false →
      ∀ ev ∈ (parse s fuel (.skipTo t fo true) loc da cp).2, ev.1 ∈ firable da t) := by
  refine ⟨fun e st h ev hev => ?_, fun es h ev hev => ?_, fun es h ev hev => ?_, fun t fo ht hf ev hev => ?_⟩
  · have := parse_sound s fuel (.many e st) loc da cp ev hev
    simpa [firable, firableO_false_of_noCdt st h] using this
  · have := parse_sound s fuel (.or es) loc da cp ev hev
    simpa [firable, firableL_false_of_noCdt es h] using this
  · have := parse_sound s fuel (.each es) loc da cp ev hev
    simpa [firable, firableL_false_of_noCdt es h] using this
  · have := parse_sound s fuel (.skipTo t fo true) loc da cp ev hev
    simpa [firable, firable_false_of_noCdt t ht, firableO_false_of_noCdt fo hf] using this

/-- **action_loc_is_prestart_partial**: the `loc` every action of an element receives is that element's
    `tokens_start = pre_loc` (core.py:856, 898).
    PARTIAL: that `pre_loc` is the position after whitespace skipping is by the definition of `preLoc`
    (`skipWs` when `callPreParse`, the element's `callPreparse` and `skipWhitespace` hold); no separate
    characterisation of `skipWs` is proved. -/
theorem action_loc_is_prestart_partial (start en : Nat) (as : List Act) :
    ∀ ev ∈ (fireActs start en as).2, ev.2 = start := by
  induction as with
  | nil => intro ev h; simp [fireActs] at h
  | cons a as ih =>
    intro ev h
    simp only [fireActs] at h
    cases hk : a.kind <;> simp only [hk] at h
    · rcases List.mem_cons.mp h with h | h
      · subst h; rfl
      · exact ih ev h
    all_goals
      simp only [List.mem_singleton] at h
      subst h; rfl

/-! ## the element's action configuration over histories of operations

`runOps ops` (Model) = (`parseAction`, `callDuringTry`) after the operations `ops` on a fresh element;
`E.ofHist ops e` = the element `e` carrying that configuration.  All statements are for every history. -/

/-- operations that REPLACE the configuration: `set_parse_action(*fns)` and `set_parse_action(None)` -/
def Op.isSet : Op → Bool
  | .setAct _ _ => true
  | .clear => true
  | _ => false

/-- the `call_during_try` keyword the operation was given (default `False`; none for clear / copy) -/
def Op.kwArg : Op → Bool
  | .setAct _ k => kw k
  | .addAct _ k => kw k
  | .addCond _ k => kw k
  | _ => false

/-- the callables an operation appends -/
def Op.added : Op → List Act
  | .addAct as _ => as
  | .addCond as _ => as
  | _ => []

theorem runOpsFrom_append (c : ACfg) (a b : List Op) : runOpsFrom c (a ++ b) = runOpsFrom (runOpsFrom c a) b := by
  simp [runOpsFrom, List.foldl_append]

theorem runOpsFrom_cons (c : ACfg) (o : Op) (os : List Op) : runOpsFrom c (o :: os) = runOpsFrom (applyOp c o) os := rfl

/-- **set_parse_action_replaces**: `set_parse_action(*fns, call_during_try=k)` REPLACES the configuration — after
    it the actions are exactly `fns` and the gate flag is exactly `k` (default `False`), whatever the element's
    earlier actions, conditions and flags were. -/
theorem set_parse_action_replaces (pre : List Op) (as : List Act) (k : Option Bool) :
    runOps (pre ++ [.setAct as k]) = ⟨as, kw k⟩ := by
  simp [runOps, runOpsFrom_append, runOpsFrom, applyOp]

/-- **clear_resets_flag** (core.py:700-703, since the fix 7688521 of the former finding
    `call_during_try_survives_clear`): `set_parse_action(None)` is `set_parse_action()` — no actions, flag off —
    whatever came before. -/
theorem clear_resets_flag (pre : List Op) : runOps (pre ++ [.clear]) = ⟨[], false⟩ := by
  simp [runOps, runOpsFrom_append, runOpsFrom, applyOp]

/-- the flag after operations none of which replaces the configuration: or-accumulated -/
theorem flag_from (c : ACfg) (ops : List Op) (h : ∀ op ∈ ops, op.isSet = false) :
    (runOpsFrom c ops).cdt = (c.cdt || ops.any Op.kwArg) := by
  induction ops generalizing c with
  | nil => simp [runOpsFrom]
  | cons o os ih =>
    rw [runOpsFrom_cons, ih _ (fun op hop => h op (List.mem_cons_of_mem _ hop))]
    have ho := h o (List.mem_cons_self ..)
    cases o <;> simp_all [applyOp, Op.kwArg, Op.isSet, Bool.or_assoc]

/-- **add_never_clears**: `add_parse_action` / `add_condition` (and `copy()`) never take the flag away -/
theorem add_never_clears (c : ACfg) (ops : List Op) (h : ∀ op ∈ ops, op.isSet = false) (hc : c.cdt = true) :
    (runOpsFrom c ops).cdt = true := by
  rw [flag_from c ops h, hc]; rfl

/-- **flag_after_history** (full characterisation): the gate flag is the keyword of the LAST replacing operation
    (`set_parse_action(fns, k)`: `k`; `set_parse_action(None)`: `False`) or-ed with the keywords of the `add_*`
    operations after it; nothing before that operation matters. -/
theorem flag_after_history (pre post : List Op) (o : Op) (ho : o.isSet = true)
    (h : ∀ op ∈ post, op.isSet = false) :
    (runOps (pre ++ o :: post)).cdt = (o.kwArg || post.any Op.kwArg) := by
  simp only [runOps, runOpsFrom_append, runOpsFrom_cons]
  rw [flag_from _ post h]
  cases o <;> simp_all [applyOp, Op.kwArg, Op.isSet]

/-- without any replacing operation: the or of all keywords -/
theorem flag_without_set (ops : List Op) (h : ∀ op ∈ ops, op.isSet = false) :
    (runOps ops).cdt = ops.any Op.kwArg := by
  simp [runOps, flag_from _ ops h, ACfg.init]

theorem acts_from (c : ACfg) (ops : List Op) (h : ∀ op ∈ ops, op.isSet = false) :
    (runOpsFrom c ops).acts = c.acts ++ ops.flatMap Op.added := by
  induction ops generalizing c with
  | nil => simp [runOpsFrom]
  | cons o os ih =>
    rw [runOpsFrom_cons, ih _ (fun op hop => h op (List.mem_cons_of_mem _ hop))]
    have ho := h o (List.mem_cons_self ..)
    cases o <;> simp_all [applyOp, Op.added, Op.isSet]

/-- the callables a replacing operation installs -/
def Op.installs : Op → List Act
  | .setAct as _ => as
  | _ => []

/-- **acts_after_history**: the actions installed before the last replacing operation are gone -/
theorem acts_after_history (pre post : List Op) (o : Op) (ho : o.isSet = true)
    (h : ∀ op ∈ post, op.isSet = false) :
    (runOps (pre ++ o :: post)).acts = o.installs ++ post.flatMap Op.added := by
  simp only [runOps, runOpsFrom_append, runOpsFrom_cons]
  rw [acts_from _ post h]
  cases o <;> simp_all [applyOp, Op.installs, Op.isSet]

theorem hasCdt_ofHist (ops : List Op) (e : E) : hasCdt (E.ofHist ops e) = ((runOps ops).cdt || hasCdt e) := by
  simp [E.ofHist, hasCdt]

/-- **replaced_action_silent_when_trying**: an element whose last replacing operation (`set_parse_action(fns)` or
    `set_parse_action(None)`) came without `call_during_try` (and whose later `add_*` came without it too) fires
    nothing when it is matched on trial (`do_actions = False`: Or / Each first pass, SkipTo scan and fail_on,
    stop_on, lookaheads) — although an EARLIER action or condition of the element had `call_during_try=True`. -/
theorem replaced_action_silent_when_trying (s : List Char) (fuel : Nat) (pre post : List Op) (o : Op)
    (e : E) (loc : Nat) (cp : Bool) (ho : o.isSet = true)
    (hk : o.kwArg = false) (hpost : ∀ op ∈ post, op.isSet = false ∧ op.kwArg = false) (he : hasCdt e = false) :
    (parse s fuel (E.ofHist (pre ++ o :: post) e) loc false cp).2 = [] := by
  apply no_actions_when_trying
  rw [hasCdt_ofHist, flag_after_history pre post o ho (fun op hop => (hpost op hop).1), hk, he]
  have : post.any Op.kwArg = false := by
    rw [List.any_eq_false]; intro op hop; simp [(hpost op hop).2]
  simp [this]

/-- … and with `do_actions = True` it fires only the actions installed by that operation and after -/
theorem history_fires_only_current_actions (s : List Char) (fuel : Nat) (pre post : List Op) (o : Op)
    (e : E) (loc : Nat) (da cp : Bool) (ho : o.isSet = true)
    (hpost : ∀ op ∈ post, op.isSet = false) :
    ∀ ev ∈ (parse s fuel (E.ofHist (pre ++ o :: post) e) loc da cp).2,
      ev.1 ∈ (o.installs ++ post.flatMap Op.added).map (·.id) ∨ ev.1 ∈ firable da e := by
  intro ev hev
  have := parse_sound s fuel _ loc da cp ev hev
  simp only [E.ofHist, firable, acts_after_history pre post o ho hpost, List.mem_append] at this
  rcases this with h | h
  · split at h
    · exact Or.inl h
    · cases h
  · exact Or.inr h

/-! ## the debugging branch of `_parseNoCache` (set_debug / set_debug_actions / set_fail_action)

`parseNoCache` (Model) transcribes both branches of core.py:820-912 with their own assignments of `tokens_start`.
For every element (any `preParse`, any `parseImpl`, any actions), input length, location and flags: -/

/-- `pre_loc`: the start of the match after skipping -/
def preLocOf (x : DElem) (loc : Nat) (cp : Bool) : Nat := if cp && x.callPre then x.pre loc else loc

theorem fireD_acts (start e t : Nat) (as : List Act) :
    (fireD start e t as).2.filter DEv.isAct = (fireD start e t as).2 ∧
    ∀ ev ∈ (fireD start e t as).2, ∃ i, ev = .act i start := by
  induction as with
  | nil => simp [fireD]
  | cons a as ih =>
    simp only [fireD]
    cases a.kind with
    | keep =>
      refine ⟨?_, fun ev hev => ?_⟩
      · show List.filter DEv.isAct (DEv.act a.id start :: (fireD start e t as).2) = _
        rw [List.filter_cons_of_pos (by rfl), ih.1]
      rcases List.mem_cons.mp hev with h | h
      · exact ⟨a.id, h⟩
      · exact ih.2 ev h
    | fail => simp [DEv.isAct]
    | fatal => simp [DEv.isAct]
    | err => simp [DEv.isAct]

theorem fireD_ok_endLoc (start e t : Nat) (as : List Act) (e' t' : Nat)
    (h : (fireD start e t as).1 = .ok e' t') : e' = e ∧ t' = t := by
  induction as with
  | nil => simp [fireD] at h; exact ⟨h.1.symm, h.2.symm⟩
  | cons a as ih =>
    simp only [fireD] at h
    cases hk : a.kind <;> simp [hk] at h
    exact ih h

theorem head_debug_spec (len : Nat) (x : DElem) (loc : Nat) (da cp : Bool) :
    (headDebug len x loc da cp).tokensStart = preLocOf x loc cp ∧
    (headDebug len x loc da cp).res = implGuard len x (preLocOf x loc cp) da ∧
    (headDebug len x loc da cp).evs.filter DEv.isAct = [] := by
  simp only [headDebug, preLocOf]
  rcases implGuard len x (if (cp && x.callPre) = true then x.pre loc else loc) da with ⟨e, t⟩ | _ | _ | _ <;>
    cases x.dTry <;> cases x.dFail <;> cases x.failAction <;> simp [DEv.isAct]

theorem head_plain_spec (len : Nat) (x : DElem) (loc : Nat) (da cp : Bool) :
    (headPlain len x loc da cp).tokensStart = preLocOf x loc cp ∧
    (headPlain len x loc da cp).res = implGuard len x (preLocOf x loc cp) da ∧
    (headPlain len x loc da cp).evs = [] := by
  simp [headPlain, preLocOf]

/-- the tail does the same with the debug settings as without, up to the callbacks -/
theorem actionTail_agrees (x : DElem) (h1 h2 : Head) (da : Bool)
    (hs : h1.tokensStart = h2.tokensStart) (hr : h1.res = h2.res)
    (h1e : h1.evs.filter DEv.isAct = []) (h2e : h2.evs = []) :
    (actionTail x h1 da).1 = (actionTail x.plain h2 da).1 ∧
    (actionTail x h1 da).2.filter DEv.isAct = (actionTail x.plain h2 da).2 := by
  rcases h1 with ⟨ts, res, ev1⟩
  rcases h2 with ⟨ts2, res2, ev2⟩
  simp only at hs hr h1e h2e
  subst hs hr h2e
  cases res with
  | ok e t =>
    simp only [actionTail, DElem.plain]
    by_cases hfire : (!x.acts.isEmpty && (da || x.cdt)) = true
    · simp only [hfire, if_true]
      have hf := (fireD_acts ts e t x.acts).1
      rcases hq : (fireD ts e t x.acts).1 with ⟨e', t'⟩ | _ | _ | _ <;>
        cases x.debug <;> cases x.dFail <;> cases x.dMatch <;>
        simp [hq, List.filter_append, hf, h1e, DEv.isAct]
    · simp only [hfire]
      cases x.debug <;> cases x.dMatch <;> simp [h1e, DEv.isAct]
  | fail => simp [actionTail, h1e]
  | fatal => simp [actionTail, h1e]
  | err => simp [actionTail, h1e]

/-- **debug_branch_agrees**: the element with `set_debug` / `set_debug_actions` / `set_fail_action` and the same
    element without them are the same function of (string, loc, do_actions, callPreParse) up to the debug callbacks:
    same result (end location, tokens, or the same exception class) and the same parse-action calls — same actions,
    same order, same `loc` arguments. -/
theorem debug_branch_agrees (len : Nat) (x : DElem) (loc : Nat) (da cp : Bool) :
    (parseNoCache len x loc da cp).1 = (parseNoCache len x.plain loc da cp).1 ∧
    (parseNoCache len x loc da cp).2.filter DEv.isAct = (parseNoCache len x.plain loc da cp).2 := by
  have hp : parseNoCache len x.plain loc da cp = actionTail x.plain (headPlain len x loc da cp) da := by
    simp [parseNoCache, DElem.plain, headPlain, implGuard]
  rw [hp]
  have hP := head_plain_spec len x loc da cp
  simp only [parseNoCache]
  split
  · have hD := head_debug_spec len x loc da cp
    exact actionTail_agrees x _ _ da (hD.1.trans hP.1.symm) (hD.2.1.trans hP.2.1.symm) hD.2.2 hP.2.2
  · exact actionTail_agrees x _ _ da rfl rfl (by simp [hP.2.2]) hP.2.2

/-- the plain element's trace consists of the action calls alone, all with `loc = pre_loc` -/
theorem plain_trace (len : Nat) (x : DElem) (loc : Nat) (da cp : Bool) :
    ∀ ev ∈ (parseNoCache len x.plain loc da cp).2, ∃ i, ev = .act i (preLocOf x loc cp) := by
  have hp : parseNoCache len x.plain loc da cp = actionTail x.plain (headPlain len x loc da cp) da := by
    simp [parseNoCache, DElem.plain, headPlain, implGuard]
  rw [hp]
  have hP := head_plain_spec len x loc da cp
  rcases hh : headPlain len x loc da cp with ⟨ts, res, evs⟩
  rw [hh] at hP
  simp only at hP
  obtain ⟨hts, _, hevs⟩ := hP
  subst hts hevs
  intro ev hin
  cases res with
  | ok e t =>
    simp only [actionTail, DElem.plain] at hin
    by_cases hfire : (!x.acts.isEmpty && (da || x.cdt)) = true
    · simp only [hfire, if_true] at hin
      have hf := (fireD_acts (preLocOf x loc cp) e t x.acts).2
      rcases hq : (fireD (preLocOf x loc cp) e t x.acts).1 with ⟨e', t'⟩ | _ | _ | _ <;>
        simp [hq] at hin <;> exact hf ev hin
    · simp [hfire] at hin
  | fail => simp [actionTail] at hin
  | fatal => simp [actionTail] at hin
  | err => simp [actionTail] at hin

/-- **action_loc_is_match_start**: with or without `set_debug` / `set_debug_actions` / `set_fail_action`, every parse
    action / condition is called with `loc = pre_loc`: the location after `preParse` skipped ignorables and
    whitespace (the incoming `loc` when the caller passed `callPreParse=False`). -/
theorem action_loc_is_match_start (len : Nat) (x : DElem) (loc : Nat) (da cp : Bool) (i l : Nat)
    (h : DEv.act i l ∈ (parseNoCache len x loc da cp).2) : l = preLocOf x loc cp := by
  have hmem : DEv.act i l ∈ (parseNoCache len x loc da cp).2.filter DEv.isAct :=
    List.mem_filter.mpr ⟨h, rfl⟩
  rw [(debug_branch_agrees len x loc da cp).2] at hmem
  obtain ⟨j, hj⟩ := plain_trace len x loc da cp _ hmem
  cases hj; rfl

/-- **debug_settings_keep_the_firing_rule**: an action of an element with debug settings fires only where
    `do_actions` is on or the element has `call_during_try` -/
theorem debug_settings_keep_the_firing_rule (len : Nat) (x : DElem) (loc : Nat) (cp : Bool)
    (hc : x.cdt = false) : (parseNoCache len x loc false cp).2.filter DEv.isAct = [] := by
  rw [(debug_branch_agrees len x loc false cp).2]
  have hp : parseNoCache len x.plain loc false cp = actionTail x.plain (headPlain len x loc false cp) false := by
    simp [parseNoCache, DElem.plain, headPlain, implGuard]
  rw [hp]
  have hP := head_plain_spec len x loc false cp
  rcases hh : headPlain len x loc false cp with ⟨ts, res, evs⟩
  rw [hh] at hP
  simp only at hP
  cases res <;> simp [actionTail, DElem.plain, hc, hP.2.2]

/-! ## non-vacuity -/

/-- `Or([a1:'a', a2:'a'+'b'])` on `" a b"`: both alternatives match on trial, only the longer one is parsed
    with actions: action 2 fires once at the post-whitespace location 1, action 1 never. -/
def exOr : E := .or [.act [⟨1, .keep⟩] false (.lit 'a'),
                     .act [⟨2, .keep⟩] false (.seq (.lit 'a') (.lit 'b'))]
example : parse " a b".toList 10 exOr 0 true true = (.ok 4, [(2, 1)]) := by decide
example : hasCdt exOr = false := by decide
example : parse " a b".toList 10 exOr 0 false true = (.ok 4, []) := by decide

/-- with `call_during_try` the same action also fires during the trial pass (and again in the real one) -/
def exCdt : E := .skipTo (.act [⟨1, .keep⟩] true (.lit 'b')) none true
example : parse "aab".toList 10 exCdt 0 true true = (.ok 3, [(1, 2), (1, 2)]) := by decide
example : hasCdt exCdt = true := by decide

/-- stop_on / fail_on positions: action 9 (in stop_on) never fires, action 1 fires per repetition -/
def exStop : E := .many (.act [⟨1, .keep⟩] false (.lit 'a')) (some (.act [⟨9, .keep⟩] false (.seq (.lit 'a') (.lit 'b'))))
example : parse "a a a b".toList 10 exStop 0 true true = (.ok 3, [(1, 0), (1, 2)]) := by decide

/-- history: a condition with `call_during_try=True`, then `set_parse_action(fn)` without it: the flag is off, and as
    the target of a SkipTo scan the new action (id 2) fires once (the included match), not at every scan position -/
def exHist : List Op := [.addCond [⟨1, .keep⟩] (some true), .setAct [⟨2, .keep⟩] none]
example : runOps exHist = ⟨[⟨2, .keep⟩], false⟩ := by decide
example : parse "aab".toList 10 (.skipTo (E.ofHist exHist (.lit 'b')) none true) 0 true true = (.ok 3, [(2, 2)]) := by
  decide
/-- the same history with the operations the other way round keeps the flag: `add_*` or-accumulates -/
example : (runOps [.setAct [⟨2, .keep⟩] none, .addCond [⟨1, .keep⟩] (some true)]).cdt = true := by decide
/-- the former finding `call_during_try_survives_clear` (fixed in 7688521): an action added after
    `set_parse_action(None)` is a plain one; as the target of a SkipTo scan it fires nothing -/
def exClear : List Op := [.addAct [⟨1, .keep⟩] (some true), .clear, .addAct [⟨2, .keep⟩] none]
example : runOps exClear = ⟨[⟨2, .keep⟩], false⟩ := by decide
example : parse "aab".toList 10 (.skipTo (E.ofHist exClear (.lit 'b')) none false) 0 true true = (.ok 2, []) := by
  decide
example : (parse "b".toList 10 (E.ofHist exClear (.lit 'b')) 0 false true).2 = [] :=
  replaced_action_silent_when_trying "b".toList 10 [.addAct [⟨1, .keep⟩] (some true)] [.addAct [⟨2, .keep⟩] none]
    .clear (.lit 'b') 0 true rfl rfl (by decide) rfl

/-- `Literal('a')` with action 1, `set_debug_actions(...)` and `set_fail_action(...)` on `"  a"`, entered at 0:
    the action (and every callback) gets 2, the start of the match, not the incoming 0 -/
def exDbg : DElem :=
  { pre := skipWs "  a".toList, callPre := true, mayIndexError := false,
    impl := fun p _ => if "  a".toList[p]? == some 'a' then .ok (p + 1) 0 else .fail,
    acts := [⟨1, .keep⟩], cdt := false, debug := true, dTry := true, dMatch := true, dFail := true, failAction := true }
example : parseNoCache 3 exDbg 0 true true = (.ok 3 0, [.dbgTry 2, .act 1 2, .dbgMatch 2 3]) := by decide
example : parseNoCache 3 exDbg.plain 0 true true = (.ok 3 0, [.act 1 2]) := by decide
example : parseNoCache 3 exDbg 0 false true = (.ok 3 0, [.dbgTry 2, .dbgMatch 2 3]) := by decide
example : parseNoCache 3 exDbg 1 true false = (.fail, [.dbgTry 1, .dbgFail 1, .failAct 1]) := by decide

end PP.ActionGate
