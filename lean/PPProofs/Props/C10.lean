import PPProofs.Lemmas.PR
/-!
# C10 — `ParseResults` behaves as a list plus an ordered multimap of names

Model: `PPModel/Mod/PR.lean` (`step`: results.py transcribed operation by operation, with positions,
occurrence records, `pop`'s dispatch, `__iadd__`'s loop and shortcut).
Specification: `PPModel/Mod/PRSpec.lean` (`specStep` on `Abs` = plain list + `String → List α` multimap with key
order + list-all predicate).  Everything below is for an arbitrary value type `α`, an arbitrary state satisfying
`PRInv`, an arbitrary operation / history: no bound anywhere.
-/
namespace PP.PR
open PP.PyList PP.PyDict

variable {α : Type}

/-- close `A ∧ B` goals after `simp only` may have erased a trivially true conjunct -/
local macro "fin " x:term : tactic =>
  `(tactic| try (first | exact ⟨$x, rfl⟩ | exact $x | exact ⟨$x, trivial⟩ | trivial))

/-- **Refinement, one operation.**  From a well-formed state, every operation leaves the model in a state
    whose abstraction is what the list+multimap specification computes, and returns the same value / raises the
    same exception class.  (`OpOk` only constrains a `ParseResults` argument of `+=`/`extend`, see `OtherOk`.) -/
theorem refines_step (s : PR α) (op : Op α (PR α)) (h : PRInv s) (hok : OpOk s op) :
    abs (step s op).1 = (specStep (abs s) (op.map abs)).1 ∧
    (step s op).2 = (specStep (abs s) (op.map abs)).2 := by
  have hk : ∀ n, dhas s.dict n = true ↔ n ∈ (abs s).order := fun n => dhas_iff s.dict n
  cases op with
  | getInt i =>
    have e : getIdx (abs s).toks i = getIdx s.toks i := rfl
    cases hg : getIdx s.toks i <;> simp only [step, specStep, Op.map, e, hg] <;> fin rfl
  | getSlice sl =>
    have e : getSlice (abs s).toks sl = getSlice s.toks sl := rfl
    cases hg : getSlice s.toks sl <;> simp only [step, specStep, Op.map, e, hg] <;> fin rfl
  | getName n => simp only [step, specStep, Op.map, getName_abs s h]; fin rfl
  | getAttr n =>
    simp only [step, specStep, Op.map, getName_abs s h]
    by_cases hn : n ∈ (abs s).order
    · simp only [hn, if_true]
      obtain ⟨w, hw⟩ := lookup_ok_of_mem h hn
      simp only [hw]; fin rfl
    · have : (abs s).lookup n = .error .key := by simp [Abs.lookup, hn]
      simp only [this, hn, if_false]
      split <;> fin rfl
  | get n d =>
    simp only [step, specStep, Op.map, getName_abs s h]
    by_cases hn : n ∈ (abs s).order
    · simp only [(hk n).mpr hn, hn, if_true]; fin rfl
    · have : ¬ dhas s.dict n = true := fun e => hn ((hk n).mp e)
      simp only [this, hn, if_false]
      cases d <;> fin rfl
  | setInt i v =>
    have e : setIdx (abs s).toks i v = setIdx s.toks i v := rfl
    cases hg : setIdx s.toks i v <;> simp only [step, specStep, Op.map, e, hg] <;> fin rfl
  | setSlice sl vs =>
    have e : setSlice (abs s).toks sl vs = setSlice s.toks sl vs := rfl
    cases hg : setSlice s.toks sl vs <;> simp only [step, specStep, Op.map, e, hg] <;> fin rfl
  | setName n v => simp only [step, specStep, Op.map]; fin (abs_setOcc s n (v, 0))
  | delInt i =>
    simp only [step, specStep, Op.map]
    cases hd : delIdx s.toks i with
    | none => rw [delInt_none hd]; simp only [abs, hd]; fin rfl
    | some t =>
      obtain ⟨R, hR⟩ := delInt_some hd
      rw [hR]
      have : delIdx (abs s).toks i = some t := hd
      simp only [this]
      fin (abs_fixDel s t R)
  | delSlice sl =>
    simp only [step, specStep, Op.map]
    cases hd : delSlice s.toks sl with
    | none => rw [delSliceOp_none hd]; simp only [abs, hd]; fin rfl
    | some t =>
      obtain ⟨R, hR⟩ := delSliceOp_some hd
      rw [hR]
      have : delSlice (abs s).toks sl = some t := hd
      simp only [this]
      fin (abs_fixDel s t R)
  | delName n =>
    simp only [step, specStep, Op.map]
    by_cases hn : n ∈ (abs s).order
    · simp only [(hk n).mpr hn, hn, if_true]; fin (abs_ddel s n)
    · have : ¬ dhas s.dict n = true := fun e => hn ((hk n).mp e)
      simp only [this, hn, if_false]; fin rfl
  | pop0 =>
    simp only [step, specStep, Op.map, Abs.popAt]
    have e1 : getIdx (abs s).toks (-1) = getIdx s.toks (-1) := rfl
    have e2 : delIdx (abs s).toks (-1) = delIdx s.toks (-1) := rfl
    rw [e1, e2]
    cases hg : getIdx s.toks (-1) with
    | none => fin rfl
    | some v =>
      cases hd : delIdx s.toks (-1) with
      | none => rw [delInt_none hd]; fin rfl
      | some t =>
        obtain ⟨R, hR⟩ := delInt_some hd
        rw [hR]; fin (abs_fixDel s t R)
  | popInt i d =>
    simp only [step, specStep, Op.map, Abs.popAt]
    have e1 : getIdx (abs s).toks i = getIdx s.toks i := rfl
    have e2 : delIdx (abs s).toks i = delIdx s.toks i := rfl
    rw [e1, e2]
    cases hg : getIdx s.toks i with
    | none => cases delIdx s.toks i <;> fin rfl
    | some v =>
      cases hd : delIdx s.toks i with
      | none => rw [delInt_none hd]; fin rfl
      | some t =>
        obtain ⟨R, hR⟩ := delInt_some hd
        rw [hR]; fin (abs_fixDel s t R)
  | popName n d =>
    simp only [step, specStep, Op.map, getName_abs s h]
    by_cases hn : n ∈ (abs s).order
    · simp only [(hk n).mpr hn, hn, if_true, Bool.or_true]
      cases (abs s).lookup n with
      | ok w => fin (abs_ddel s n)
      | error e => fin rfl
    · have hf : dhas s.dict n = false := by
        cases hh : dhas s.dict n with
        | false => rfl
        | true => exact absurd ((hk n).mp hh) hn
      have hl : (abs s).lookup n = .error .key := by simp [Abs.lookup, hn]
      simp only [hf, hn, if_false, hl, Bool.or_false]
      cases d <;> simp <;> fin rfl
  | insert i v =>
    simp only [step, specStep, Op.map]
    fin (abs_fixIns s _ i)
  | append v => simp only [step, specStep, Op.map]; fin rfl
  | extendList vs => simp only [step, specStep, Op.map]; fin rfl
  | extendPR o => simp only [step, specStep, Op.map]; fin (abs_iadd s o hok)
  | iadd o => simp only [step, specStep, Op.map]; fin (abs_iadd s o hok)
  | clear =>
    refine ⟨Abs.ext' rfl rfl (fun k => by simp [step, specStep, Op.map, abs, dget]) (fun k => rfl), rfl⟩
  | contains n =>
    refine ⟨rfl, ?_⟩
    simp only [step, specStep, Op.map]
    by_cases hn : n ∈ (abs s).order
    · simp [(hk n).mpr hn, hn]
    · have : dhas s.dict n = false := by
        cases hh : dhas s.dict n with
        | false => rfl
        | true => exact absurd ((hk n).mp hh) hn
      simp [this, hn]
  | len => fin rfl
  | bool => simp only [step, specStep, Op.map, truthy_abs]; fin rfl
  | iter => fin rfl
  | reversed => fin rfl
  | keys => fin rfl
  | values =>
    simp only [step, specStep, Op.map, viewsOf_abs s h]
    have : dkeys s.dict = (abs s).order := rfl
    rw [this]
    cases (abs s).lookups (abs s).order <;> fin rfl
  | items =>
    simp only [step, specStep, Op.map, viewsOf_abs s h]
    have : dkeys s.dict = (abs s).order := rfl
    rw [this]
    cases (abs s).lookups (abs s).order <;> fin rfl
  | haskeys =>
    refine ⟨rfl, ?_⟩
    simp [step, specStep, Op.map, abs, dkeys]

end PP.PR
