import PPProofs.Lemmas.PR
/-!
# C10 — `ParseResults` behaves as a list plus an ordered multimap of names

Model: `PPModel/Mod/PR.lean` (`step`: results.py transcribed operation by operation, with positions,
occurrence records, `pop`'s dispatch, `__iadd__`'s loop and shortcut).
Specification: `PPModel/Mod/PRSpec.lean` (`specStep` on `Abs` = plain list + `String → List α` multimap with key
order + list-all predicate).  Everything below is for an arbitrary value type `α`, an arbitrary state satisfying
`PRInv`, an arbitrary operation / history: no bound anywhere.
-/
namespace PP.PR
open PP.PyList PP.PyDict

variable {α : Type}

/-- close `A ∧ B` goals after `simp only` may have erased a trivially true conjunct -/
local macro "fin " x:term : tactic =>
  `(tactic| try (first | exact ⟨$x, rfl⟩ | exact $x | exact ⟨$x, trivial⟩ | trivial))

/-- **Refinement, one operation.**  From a well-formed state, every operation leaves the model in a state
    whose abstraction is what the list+multimap specification computes, and returns the same value / raises the
    same exception class.  (`OpOk op` only says that a `ParseResults` *argument* of `+=`/`extend` is itself well formed.) -/
theorem refines_step (s : PR α) (op : Op α (PR α)) (h : PRInv s) (hok : OpOk op) :
    abs (step s op).1 = (specStep (abs s) (op.map abs)).1 ∧
    (step s op).2 = (specStep (abs s) (op.map abs)).2 := by
  have hk : ∀ n, dhas s.dict n = true ↔ n ∈ (abs s).order := fun n => dhas_iff s.dict n
  cases op with
  | getInt i =>
    have e : getIdx (abs s).toks i = getIdx s.toks i := rfl
    cases hg : getIdx s.toks i <;> simp only [step, specStep, Op.map, e, hg] <;> fin rfl
  | getSlice sl =>
    have e : getSlice (abs s).toks sl = getSlice s.toks sl := rfl
    cases hg : getSlice s.toks sl <;> simp only [step, specStep, Op.map, e, hg] <;> fin rfl
  | getName n => simp only [step, specStep, Op.map, getName_abs s h]; fin rfl
  | getAttr n =>
    simp only [step, specStep, Op.map, getName_abs s h]
    by_cases hn : n ∈ (abs s).order
    · simp only [hn, if_true]
      obtain ⟨w, hw⟩ := lookup_ok_of_mem h hn
      simp only [hw]; fin rfl
    · have : (abs s).lookup n = .error .key := by simp [Abs.lookup, hn]
      simp only [this, hn, if_false]
      split <;> fin rfl
  | get n d =>
    simp only [step, specStep, Op.map, getName_abs s h]
    by_cases hn : n ∈ (abs s).order
    · simp only [(hk n).mpr hn, hn, if_true]; fin rfl
    · have : ¬ dhas s.dict n = true := fun e => hn ((hk n).mp e)
      simp only [this, hn, if_false]
      cases d <;> fin rfl
  | setInt i v =>
    have e : setIdx (abs s).toks i v = setIdx s.toks i v := rfl
    cases hg : setIdx s.toks i v <;> simp only [step, specStep, Op.map, e, hg] <;> fin rfl
  | setSlice sl vs =>
    have e : setSlice (abs s).toks sl vs = setSlice s.toks sl vs := rfl
    cases hg : setSlice s.toks sl vs <;> simp only [step, specStep, Op.map, e, hg] <;> fin rfl
  | setName n v => simp only [step, specStep, Op.map]; fin (abs_setOcc s n (v, 0))
  | delInt i =>
    simp only [step, specStep, Op.map]
    cases hd : delIdx s.toks i with
    | none => rw [delInt_none hd]; simp only [abs, hd]; fin rfl
    | some t =>
      obtain ⟨R, hR⟩ := delInt_some hd
      rw [hR]
      have : delIdx (abs s).toks i = some t := hd
      simp only [this]
      fin (abs_fixDel s t R)
  | delSlice sl =>
    simp only [step, specStep, Op.map]
    cases hd : delSlice s.toks sl with
    | none => rw [delSliceOp_none hd]; simp only [abs, hd]; fin rfl
    | some t =>
      obtain ⟨R, hR⟩ := delSliceOp_some hd
      rw [hR]
      have : delSlice (abs s).toks sl = some t := hd
      simp only [this]
      fin (abs_fixDel s t R)
  | delName n =>
    simp only [step, specStep, Op.map]
    by_cases hn : n ∈ (abs s).order
    · simp only [(hk n).mpr hn, hn, if_true]; fin (abs_ddel s n)
    · have : ¬ dhas s.dict n = true := fun e => hn ((hk n).mp e)
      simp only [this, hn, if_false]; fin rfl
  | pop0 =>
    simp only [step, specStep, Op.map, Abs.popAt]
    have e1 : getIdx (abs s).toks (-1) = getIdx s.toks (-1) := rfl
    have e2 : delIdx (abs s).toks (-1) = delIdx s.toks (-1) := rfl
    rw [e1, e2]
    cases hg : getIdx s.toks (-1) with
    | none => fin rfl
    | some v =>
      cases hd : delIdx s.toks (-1) with
      | none => rw [delInt_none hd]; fin rfl
      | some t =>
        obtain ⟨R, hR⟩ := delInt_some hd
        rw [hR]; fin (abs_fixDel s t R)
  | popInt i d =>
    simp only [step, specStep, Op.map, Abs.popAt]
    have e1 : getIdx (abs s).toks i = getIdx s.toks i := rfl
    have e2 : delIdx (abs s).toks i = delIdx s.toks i := rfl
    rw [e1, e2]
    cases hg : getIdx s.toks i with
    | none => cases delIdx s.toks i <;> fin rfl
    | some v =>
      cases hd : delIdx s.toks i with
      | none => rw [delInt_none hd]; fin rfl
      | some t =>
        obtain ⟨R, hR⟩ := delInt_some hd
        rw [hR]; fin (abs_fixDel s t R)
  | popName n d =>
    simp only [step, specStep, Op.map, getName_abs s h]
    by_cases hn : n ∈ (abs s).order
    · simp only [(hk n).mpr hn, hn, if_true, Bool.or_true]
      cases (abs s).lookup n with
      | ok w => fin (abs_ddel s n)
      | error e => fin rfl
    · have hf : dhas s.dict n = false := by
        cases hh : dhas s.dict n with
        | false => rfl
        | true => exact absurd ((hk n).mp hh) hn
      have hl : (abs s).lookup n = .error .key := by simp [Abs.lookup, hn]
      simp only [hf, hn, if_false, hl, Bool.or_false]
      cases d <;> simp <;> fin rfl
  | popBadKw => fin rfl
  | setSliceScalar sl =>
    have e : sl.indices (abs s).toks.length = sl.indices s.toks.length := rfl
    cases hg : sl.indices s.toks.length <;> simp only [step, specStep, Op.map, e, hg] <;> fin rfl
  | insert i v =>
    simp only [step, specStep, Op.map]
    fin (abs_fixIns s _ i)
  | append v => simp only [step, specStep, Op.map]; fin rfl
  | extendList vs => simp only [step, specStep, Op.map]; fin rfl
  | extendPR o => simp only [step, specStep, Op.map]; fin (abs_iadd s o hok)
  | iadd o => simp only [step, specStep, Op.map]; fin (abs_iadd s o hok)
  | clear =>
    refine ⟨Abs.ext' rfl rfl (fun k => by simp [step, specStep, Op.map, abs, dget]) (fun k => rfl), rfl⟩
  | contains n =>
    refine ⟨rfl, ?_⟩
    simp only [step, specStep, Op.map]
    by_cases hn : n ∈ (abs s).order
    · simp [(hk n).mpr hn, hn]
    · have : dhas s.dict n = false := by
        cases hh : dhas s.dict n with
        | false => rfl
        | true => exact absurd ((hk n).mp hh) hn
      simp [this, hn]
  | len => fin rfl
  | bool => simp only [step, specStep, Op.map, truthy_abs]; fin rfl
  | iter => fin rfl
  | reversed => fin rfl
  | keys => fin rfl
  | values =>
    simp only [step, specStep, Op.map, viewsOf_abs s h]
    have : dkeys s.dict = (abs s).order := rfl
    rw [this]
    cases (abs s).lookups (abs s).order <;> fin rfl
  | items =>
    simp only [step, specStep, Op.map, viewsOf_abs s h]
    have : dkeys s.dict = (abs s).order := rfl
    rw [this]
    cases (abs s).lookups (abs s).order <;> fin rfl
  | haskeys =>
    refine ⟨rfl, ?_⟩
    simp [step, specStep, Op.map, abs, dkeys]

/-- **The invariant is kept by every operation** (no side condition at all). -/
theorem prinv_step (s : PR α) (op : Op α (PR α)) (h : PRInv s) : PRInv (step s op).1 := by
  cases op with
  | getInt i => simp only [step]; split <;> exact h
  | getSlice sl => simp only [step]; split <;> exact h
  | getName n => exact h
  | getAttr n => simp only [step]; split <;> (try split) <;> exact h
  | get n d => simp only [step]; split <;> (try split) <;> exact h
  | setInt i v => simp only [step]; split <;> first | exact prinv_toks h _ | exact h
  | setSlice sl vs => simp only [step]; split <;> first | exact prinv_toks h _ | exact h
  | setName n v => exact prinv_setOcc h _ _
  | delInt i =>
    simp only [step]
    cases hd : delIdx s.toks i with
    | none => rw [delInt_none hd]; exact h
    | some t => obtain ⟨R, hR⟩ := delInt_some hd; rw [hR]; exact prinv_fixDel h t R
  | delSlice sl =>
    simp only [step]
    cases hd : delSlice s.toks sl with
    | none => rw [delSliceOp_none hd]; exact h
    | some t => obtain ⟨R, hR⟩ := delSliceOp_some hd; rw [hR]; exact prinv_fixDel h t R
  | delName n => simp only [step]; split <;> first | exact prinv_ddel h n | exact h
  | pop0 =>
    simp only [step]
    split
    · exact h
    · cases hd : delIdx s.toks (-1) with
      | none => rw [delInt_none hd]; exact h
      | some t => obtain ⟨R, hR⟩ := delInt_some hd; rw [hR]; exact prinv_fixDel h t R
  | popInt i d =>
    simp only [step]
    split
    · exact h
    · cases hd : delIdx s.toks i with
      | none => rw [delInt_none hd]; exact h
      | some t => obtain ⟨R, hR⟩ := delInt_some hd; rw [hR]; exact prinv_fixDel h t R
  | popName n d =>
    simp only [step]
    split
    · split
      · exact h
      · split <;> first | exact prinv_ddel h n | exact h
    · split <;> exact h
  | popBadKw => exact h
  | setSliceScalar sl => simp only [step]; split <;> exact h
  | insert i v => exact prinv_fixIns h _ i
  | append v => exact prinv_toks h _
  | extendList vs => exact prinv_toks h _
  | extendPR o => exact prinv_iadd h
  | iadd o => exact prinv_iadd h
  | clear => exact ⟨by simp [step, dkeys], by simp [step]⟩
  | contains n => exact h
  | len => exact h
  | bool => exact h
  | iter => exact h
  | reversed => exact h
  | keys => exact h
  | values => simp only [step]; split <;> exact h
  | items => simp only [step]; split <;> exact h
  | haskeys => exact h

/-- a history is admissible when every `ParseResults` argument in it is a well-formed object
    (a condition on the arguments only, not on the states passed through) -/
def Admissible (ops : List (Op α (PR α))) : Prop := ∀ op ∈ ops, OpOk op

/-- **Refinement, all histories.**  Any finite sequence of operations from a well-formed state: the final
    abstract state and the whole sequence of return values / exception classes are those of the plain list +
    ordered multimap put through the same operations. -/
theorem refines_history (ops : List (Op α (PR α))) (s : PR α) (h : PRInv s) (hadm : Admissible ops) :
    abs (run s ops).1 = (specRun (abs s) (ops.map (Op.map abs))).1 ∧
    (run s ops).2 = (specRun (abs s) (ops.map (Op.map abs))).2 ∧
    PRInv (run s ops).1 := by
  induction ops generalizing s with
  | nil => exact ⟨rfl, rfl, h⟩
  | cons op ops ih =>
    have hop : OpOk op := hadm op (by simp)
    have hrest : Admissible ops := fun o ho => hadm o (List.mem_cons_of_mem _ ho)
    obtain ⟨h1, h2⟩ := refines_step s op h hop
    obtain ⟨i1, i2, i3⟩ := ih (step s op).1 (prinv_step s op h) hrest
    simp only [run, specRun, List.map_cons]
    rw [← h1, ← h2]
    exact ⟨i1, by rw [i2], i3⟩

/-- non-vacuity: a state with an ordinary name, a twice-bound name and a list-all flag; a history with a
    negative index, a reversed extended slice, a name assignment, a `+=` with offsets, pops with defaults -/
def exS : PR String :=
  { toks := ["a", "0", "b"], dict := [("x", [("a", 0), ("b", 2)]), ("y", [("0", 1)])], all := ["x"] }
def exO : PR String := { toks := ["c"], dict := [("z", [("c", 0)]), ("x", [("c", -1)])], all := ["z"] }
def exOps : List (Op String (PR String)) :=
  [.delInt (-3), .insert (-1) "i", .setName "y" "1", .iadd exO, .getName "x", .getName "y", .popName "q" (some "d"),
   .getSlice ⟨none, none, some (-2)⟩, .delSlice ⟨some 0, none, some 2⟩, .pop0, .popInt 7 none, .getAttr "nope", .items]

example : PRInv exS := ⟨by decide, by decide⟩
example : Admissible exOps := by
  intro op hop
  simp only [exOps, List.mem_cons, List.not_mem_nil, or_false] at hop
  rcases hop with h | h | h | h | h | h | h | h | h | h | h | h | h <;> subst h <;>
    first | trivial | exact ⟨by decide, by decide⟩
example : (run exS exOps).1.toks = ["i"] := by decide +kernel
example : ((run exS exOps).2.drop 4).take 3 =
    [.view (.many ["a", "b", "c"]), .view (.one "1"), .val "d"] := by decide +kernel
example : (run exS [.pop0, .popInt 7 none, .getAttr "nope", .getAttr "__nope"]).2 =
    [.val "b", .err .index, .empty, .err .attribute] := by decide +kernel

/-! ### the constructor establishes the invariant -/

/-- every object built by `ParseResults(toklist, name, asList, modal)` (modelled argument shapes) is well formed -/
theorem prinv_of_ctor (wrap : α → α) (arg : CtorArg α) (name : Option String) (asList modal : Bool)
    (s : PR α) (hs : ctor wrap arg name asList modal = .ok s) : PRInv s := by
  have h0 : ∀ (t : List α) (a : List String) (nm : Option String) (m : Bool),
      PRInv ({ toks := t, dict := [], all := a, name := nm, modal := m } : PR α) :=
    fun _ _ _ _ => ⟨by simp [dkeys], by simp⟩
  unfold ctor at hs
  cases name with
  | none => simp only [Except.ok.injEq] at hs; subst hs; exact h0 _ _ _ _
  | some nm =>
    simp only at hs
    split at hs
    · simp only [Except.ok.injEq] at hs; subst hs; exact h0 _ _ _ _
    · split at hs
      · simp only [Except.ok.injEq] at hs; subst hs; exact h0 _ _ _ _
      · simp only [Except.ok.injEq] at hs; subst hs; exact h0 _ _ _ _
      · split at hs <;> (simp only [Except.ok.injEq] at hs; subst hs; exact prinv_setOcc (h0 _ _ _ _) _ _)
      · split at hs <;> (simp only [Except.ok.injEq] at hs; subst hs; exact prinv_setOcc (h0 _ _ _ _) _ _)
      · split at hs
        · simp at hs
        · simp only [Except.ok.injEq] at hs; subst hs; exact prinv_setOcc (h0 _ _ _ _) _ _

/-- `ParseResults(existing, name, asList, modal)` (how the parser attaches a results name) keeps it -/
theorem prinv_of_reinit (mk : List α → α) (s : PR α) (name : Option String) (asList modal : Bool)
    (h : PRInv s) : PRInv (reinit mk s name asList modal) := by
  have hm : ∀ (a : List String) (nm : Option String) (m : Bool),
      PRInv ({ s with all := a, name := nm, modal := m } : PR α) := fun _ _ _ => ⟨h.nodup, h.nonempty⟩
  unfold reinit
  cases name with
  | none => exact hm _ _ _
  | some nm =>
    simp only
    split
    · exact hm _ _ _
    · split
      · exact prinv_setOcc (hm _ _ _) _ _
      · split
        · exact prinv_setOcc (hm _ _ _) _ _
        · exact hm _ _ _

/-- **Naming an existing result** refines the specification: one more value for the name, list-all iff not modal,
    all other names and list-all flags untouched (pyparsing aa3fe24; before it a list-all name *replaced* the set). -/
theorem reinit_refines (mk : List α → α) (s : PR α) (name : Option String) (asList modal : Bool) :
    abs (reinit mk s name asList modal) = (abs s).reinit mk name asList modal := by
  have hla : ∀ (nm : String) (t : List α) (d : Dict (List (α × Int))),
      abs ({ toks := t, dict := d,
             all := if modal then s.all else (if nm ∈ s.all then s.all else s.all ++ [nm]),
             name := some nm, modal := modal } : PR α)
      = { toks := t, order := dkeys d, vals := fun k => ((dget d k).getD []).map (·.1),
          la := fun k => (abs s).la k || (!modal && decide (k = nm)) } := by
    intro nm t d
    refine Abs.ext' rfl rfl (fun _ => rfl) (fun k => ?_)
    simp only [abs]
    cases modal
    · by_cases h1 : nm ∈ s.all <;> by_cases h2 : k = nm <;> by_cases h3 : k ∈ s.all <;> simp_all
    · simp
  unfold reinit Abs.reinit
  cases name with
  | none => rfl
  | some nm =>
    simp only
    by_cases hn : nm = ""
    · simp only [hn, if_true]; rfl
    · simp only [hn, if_false]
      cases asList
      · simp only [Bool.false_eq_true, if_false]
        cases ht : s.toks with
        | nil =>
          have : (abs s).toks = [] := ht
          simp only [this]
          rw [← ht]; exact hla nm s.toks s.dict
        | cons v vs =>
          have : (abs s).toks = v :: vs := ht
          simp only [this]
          rw [abs_setOcc, ← ht, hla nm s.toks s.dict]; rfl
      · simp only [if_true]
        rw [abs_setOcc, hla nm s.toks s.dict]; rfl

example : ∃ s, ctor (fun v => v ++ "!") (.list ["a", "b"]) (some "n") true false = .ok s ∧ s.all = ["n"] ∧
    (step s (.getName "n")).2 = .view (.many ["a!"]) := ⟨_, rfl, rfl, by decide +kernel⟩

/-! ### corollaries named in the property statement -/

/-- the operations that only touch the token list -/
def Op.listOnly : Op α (PR α) → Prop
  | .delInt _ | .delSlice _ | .insert _ _ | .append _ | .extendList _ | .setInt _ _ | .setSlice _ _
  | .pop0 | .popInt _ _ => True
  | _ => False

/-- **Deleting or inserting list items never removes or alters named values**: after `del r[i]`, `del r[a:b:c]`,
    `insert`, `append`, `extend(list)`, `r[i] = v`, `r[a:b:c] = vs`, `pop()`, `pop(i)` — whether they succeed or
    raise — the key order, every name's values and the list-all flags are exactly what they were.
    No hypothesis on the state. -/
theorem list_ops_keep_names (s : PR α) (op : Op α (PR α)) (hop : op.listOnly) :
    (abs (step s op).1).order = (abs s).order ∧ (abs (step s op).1).vals = (abs s).vals ∧
    (abs (step s op).1).la = (abs s).la := by
  have key : ∀ t R, (abs ({ s with toks := t, dict := fixDel R s.dict } : PR α)).order = (abs s).order ∧
      (abs ({ s with toks := t, dict := fixDel R s.dict } : PR α)).vals = (abs s).vals ∧
      (abs ({ s with toks := t, dict := fixDel R s.dict } : PR α)).la = (abs s).la := by
    intro t R; rw [abs_fixDel]; exact ⟨rfl, rfl, rfl⟩
  cases op with
  | delInt i =>
    simp only [step]
    cases hd : delIdx s.toks i with
    | none => rw [delInt_none hd]; exact ⟨rfl, rfl, rfl⟩
    | some t => obtain ⟨R, hR⟩ := delInt_some hd; rw [hR]; exact key t R
  | delSlice sl =>
    simp only [step]
    cases hd : delSlice s.toks sl with
    | none => rw [delSliceOp_none hd]; exact ⟨rfl, rfl, rfl⟩
    | some t => obtain ⟨R, hR⟩ := delSliceOp_some hd; rw [hR]; exact key t R
  | insert i v => simp only [step]; rw [abs_fixIns]; exact ⟨rfl, rfl, rfl⟩
  | append v => exact ⟨rfl, rfl, rfl⟩
  | extendList vs => exact ⟨rfl, rfl, rfl⟩
  | setInt i v => simp only [step]; split <;> exact ⟨rfl, rfl, rfl⟩
  | setSlice sl vs => simp only [step]; split <;> exact ⟨rfl, rfl, rfl⟩
  | pop0 =>
    simp only [step]
    split
    · exact ⟨rfl, rfl, rfl⟩
    · cases hd : delIdx s.toks (-1) with
      | none => rw [delInt_none hd]; exact ⟨rfl, rfl, rfl⟩
      | some t => obtain ⟨R, hR⟩ := delInt_some hd; rw [hR]; exact key t R
  | popInt i d =>
    simp only [step]
    split
    · exact ⟨rfl, rfl, rfl⟩
    · cases hd : delIdx s.toks i with
      | none => rw [delInt_none hd]; exact ⟨rfl, rfl, rfl⟩
      | some t => obtain ⟨R, hR⟩ := delInt_some hd; rw [hR]; exact key t R
  | _ => exact absurd hop (by simp [Op.listOnly])

/-- the form quoted in the property: `results[n]` is unchanged by `del` and `insert` -/
theorem del_insert_keep_names (s : PR α) (n : String) (i : Int) (v : α) (sl : Slice) :
    getName (step s (.delInt i)).1 n = getName s n ∧
    getName (step s (.delSlice sl)).1 n = getName s n ∧
    getName (step s (.insert i v)).1 n = getName s n := by
  have aux : ∀ s' : PR α, (abs s').order = (abs s).order → (abs s').vals = (abs s).vals →
      (abs s').la = (abs s).la → s'.all = s.all → getName s' n = getName s n := by
    intro s' h1 h2 h3 h4
    have hv := congrFun h2 n
    simp only [abs] at hv
    unfold getName
    rw [h4]
    have hnone : dget s'.dict n = none ↔ dget s.dict n = none := by
      rw [dget_none_iff, dget_none_iff]
      have : dkeys s'.dict = dkeys s.dict := h1
      rw [this]
    cases hd' : dget s'.dict n with
    | none => rw [hnone.mp hd']
    | some occ' =>
      cases hd : dget s.dict n with
      | none => rw [hnone.mpr hd] at hd'; exact absurd hd' (by simp)
      | some occ =>
        rw [hd', hd] at hv
        simp only [Option.getD_some] at hv
        have hl : (occ'.getLast?).map (·.1) = (occ.getLast?).map (·.1) := by
          rw [← List.getLast?_map, ← List.getLast?_map, hv]
        simp only [hv]
        cases h1' : occ'.getLast? <;> cases h2' : occ.getLast? <;> simp_all
  refine ⟨?_, ?_, ?_⟩
  · obtain ⟨a, b, c⟩ := list_ops_keep_names s (.delInt i) trivial
    refine aux _ a b c ?_
    simp only [step]
    cases hd : delIdx s.toks i with
    | none => rw [delInt_none hd]
    | some t => obtain ⟨R, hR⟩ := delInt_some hd; rw [hR]
  · obtain ⟨a, b, c⟩ := list_ops_keep_names s (.delSlice sl) trivial
    refine aux _ a b c ?_
    simp only [step]
    cases hd : delSlice s.toks sl with
    | none => rw [delSliceOp_none hd]
    | some t => obtain ⟨R, hR⟩ := delSliceOp_some hd; rw [hR]
  · obtain ⟨a, b, c⟩ := list_ops_keep_names s (.insert i v) trivial
    exact aux _ a b c rfl

/-- **Attribute access to an unknown name returns `''`** (for a name that has no value; dunder names raise
    AttributeError as the code says).  Hypothesis outside the model: `n` is not an attribute of the class, otherwise
    Python never calls `__getattr__`. -/
theorem unknown_attr_empty (s : PR α) (n : String) (hn : n ∉ dkeys s.dict) (hd : n.startsWith "__" = false) :
    step s (.getAttr n) = (s, .empty) := by
  have : dget s.dict n = none := (dget_none_iff _ _).mpr hn
  have hg : getName s n = .error .key := by
    unfold getName; rw [this]; split <;> rfl
  simp only [step, hg, hd]
  rfl

example : step exS (.getAttr "nope") = (exS, .empty) := unknown_attr_empty exS "nope" (by decide) (by decide +kernel)

/-! ### where the code leaves the list + multimap reading -/

/-- **`+=` is the merge of list and multimap for every well-formed argument**, empty or not (since pyparsing
    448d339; before it `__iadd__` returned early on a falsy `other` and dropped the list-all names it carried). -/
theorem iadd_is_merge (s o : PR α) (ho : PRInv o) : abs (iadd s o) = (abs s).merge (abs o) :=
  abs_iadd s o ho

/-- the formerly excluded point (regression witness of finding `iadd_falsy_other_drops_listall`, fixed): `x` is an
    ordinary name of `s`; `o` is an empty result carrying the list-all flag of `x` (what `Opt(...)("x*")` returns when
    it matches nothing).  After `s += o`, model and specification both answer `s["x"]` with the list of all values. -/
theorem iadd_falsy_keeps_listall :
    ∃ s o : PR String, PRInv s ∧ PRInv o ∧ o.truthy = false ∧
      (step (step s (.iadd o)).1 (.getName "x")).2 = .view (.many ["b"]) ∧
      (specStep (specStep (abs s) (.iadd (abs o))).1 (.getName "x")).2 = .view (.many ["b"]) :=
  ⟨{ toks := ["b"], dict := [("x", [("b", 0)])], all := [] }, { toks := [], dict := [], all := ["x"] },
   ⟨by decide, by decide⟩, ⟨by decide, by decide⟩, by decide, by decide +kernel, by decide +kernel⟩

/-- the statement lists `in` among the *list* operations; the class implements (and documents) it as *name*
    membership: a token that is not a name is not `in` the result.  The specification follows the code here. -/
theorem contains_is_not_list_membership :
    ∃ s : PR String, PRInv s ∧ "a" ∈ s.toks ∧ (step s (.contains "a")).2 = .bool false :=
  ⟨{ toks := ["a"], dict := [], all := [] }, ⟨by decide, by decide⟩, by decide, by decide +kernel⟩

end PP.PR
