import PPProofs.Lemmas.ParseTermRec
import PPProofs.Props.C06Term
/-!
# C06 — termination on RECURSIVE grammars whose every cycle passes through a consuming step

Measure: (remaining input, rank), lexicographically.  `leftRankOk g r k R` is an executable test on the node table:
every reference of a node that can be entered WITHOUT prior consumption — the first operand of an `And` and the following
ones up to and including the first that `consumes` (PPModel/Mod/TermCheck.lean), every alternative, wrapper child,
`Forward` target, stop_on, ignorables — goes to a smaller rank `r`, while the operands of an `And` after a consuming one
may refer anywhere in the table (this is where `Forward` cycles are allowed: `expr := "(" expr ")" | atom`).
`recursive_terminates_partial`: under that test and `Advancing g s`, `parse g s fuel id loc … ≠ .hang` for every
`fuel > (len s + 1 - loc) · (R + 1) + r id`.

PARTIAL (hence the name): a `StringStart` must carry no ignorables (it pre-parses from location 0, i.e. BEFORE the
current location, where the lexicographic induction has nothing to offer); cycles that consume only through something
other than an `And` operand recognised by `consumes` (e.g. a consuming `Opt`-free wrapper inside a `MatchFirst` is fine,
but consumption established only semantically is not) are not accepted by the test.  Left recursion (a cycle without
consumption) is rightly outside: there the real code recurses for ever.
-/
namespace PP.Parse

/-- **the test**: closed table, left references decrease the rank, ranks `≤ R`, StringStart without ignorables -/
def leftRankOk (g : Grammar) (r : Nat → Nat) (k R : Nat) : Bool :=
  (List.range g.length).all fun i =>
    match g[i]? with
    | none => true
    | some nd =>
      nd.children.all (fun c => decide (c < g.length)) &&
      (leftChildren g k nd).all (fun c => decide (r c < r i)) &&
      decide (r i ≤ R) &&
      (match nd.kind with
       | .stringStart => nd.ignore.isEmpty
       | _ => true)

theorem leftRankOk_spec {g : Grammar} {r : Nat → Nat} {k R : Nat} (h : leftRankOk g r k R = true) {i : Nat} {nd : Node}
    (hg : g[i]? = some nd) :
    (∀ c ∈ nd.children, c < g.length) ∧ (∀ c ∈ leftChildren g k nd, r c < r i) ∧ r i ≤ R ∧
    (nd.kind = .stringStart → nd.ignore = []) := by
  unfold leftRankOk at h
  rw [List.all_eq_true] at h
  have hi : i < g.length := (List.getElem?_eq_some_iff.mp hg).1
  have := h i (List.mem_range.mpr hi)
  rw [hg] at this
  simp only [Bool.and_eq_true, List.all_eq_true, decide_eq_true_eq] at this
  obtain ⟨⟨⟨h1, h2⟩, h3⟩, h4⟩ := this
  refine ⟨h1, h2, h3, ?_⟩
  intro hk; rw [hk] at h4; simpa using h4

theorem leftChildren_not_and {g : Grammar} {k : Nat} {nd : Node} (h : ∀ es, nd.kind ≠ .and es) :
    leftChildren g k nd = nd.kind.children ++ nd.ignore := by
  unfold leftChildren
  split
  · rename_i e0 rest hk; exact absurd hk (h _)
  · rfl

/-- **C06 termination, recursive grammars** (all kinds of the model; partial only in what the test accepts, see above). -/
theorem recursive_terminates_partial (g : Grammar) (r : Nat → Nat) (k R : Nat) (hr : leftRankOk g r k R = true)
    (s : List Char) (ha : Advancing g s) :
    ∀ fuel id loc, id < g.length → (s.length + 1 - loc) * (R + 1) + r id < fuel →
      ∀ a c, parse g s fuel id loc a c ≠ .hang := by
  intro fuel
  induction fuel with
  | zero => intro id loc _ h; omega
  | succ f ih =>
    intro id loc hid hm a c
    have hg : g[id]? = some g[id] := List.getElem?_eq_getElem hid
    obtain ⟨hcl, hleft, hR, hss⟩ := leftRankOk_spec hr hg
    have hA := ha f id g[id] hg
    -- smaller rank, same or later location
    have key1 : ∀ x, x < g.length → r x < r id → NHge (parse g s f) x loc := by
      intro x hx hrx l hl a' c'
      have hmul : (s.length + 1 - l) * (R + 1) ≤ (s.length + 1 - loc) * (R + 1) :=
        Nat.mul_le_mul_right _ (Nat.sub_le_sub_left hl _)
      exact ih x l hx (by omega) a' c'
    -- any element of the table, strictly later location inside the string
    have key2 : ∀ x, x < g.length → ∀ l, loc ≤ l → l ≤ s.length → NHge (parse g s f) x (l + 1) := by
      intro x hx l hl hls l' hl' a' c'
      have hrx : r x ≤ R := by
        have hgx : g[x]? = some g[x] := List.getElem?_eq_getElem hx
        exact (leftRankOk_spec hr hgx).2.2.1
      have h1 : (s.length + 1 - l') * (R + 1) ≤ (s.length - l) * (R + 1) :=
        Nat.mul_le_mul_right _ (by omega)
      have h2 : (s.length + 1 - l) * (R + 1) = (s.length - l) * (R + 1) + (R + 1) := by
        have : s.length + 1 - l = (s.length - l) + 1 := by omega
        rw [this, Nat.succ_mul]
      have h3 : (s.length + 1 - l) * (R + 1) ≤ (s.length + 1 - loc) * (R + 1) :=
        Nat.mul_le_mul_right _ (Nat.sub_le_sub_left hl _)
      exact ih x l' hx (by omega) a' c'
    have hAndOk : ∀ rest, (∀ y ∈ rest, y < g.length) → (∀ y ∈ andLeft g k rest, r y < r id) →
        AndOk (parse g s f) (stopFn g) s.length rest loc := by
      intro rest
      induction rest with
      | nil => intro _ _; trivial
      | cons e es ihr =>
        intro hlen hrk
        unfold AndOk
        unfold andLeft at hrk
        split
        · rename_i hst
          simp only [hst, if_true] at hrk
          exact ihr (fun y hy => hlen y (List.mem_cons_of_mem _ hy)) hrk
        · rename_i hst
          simp only [hst] at hrk
          have he : e < g.length := hlen e (by simp)
          refine ⟨?_, ?_, ?_⟩
          · apply key1 e he
            apply hrk
            by_cases hc : consumes g k e = true <;> simp [hc]
          · intro _ hle y hy
            exact key2 y (hlen y (List.mem_cons_of_mem _ hy)) loc (Nat.le_refl _) hle
          · intro hns'
            have hcf : consumes g k e = false := by
              cases hc : consumes g k e with
              | false => rfl
              | true => exact absurd (consumes_sound g s k e hc f) hns'
            simp only [hcf] at hrk
            exact ihr (fun y hy => hlen y (List.mem_cons_of_mem _ hy))
              (fun y hy => hrk y (by simp [hy]))
    show parseStep g s (parse g s f) id loc a c ≠ .hang
    refine parseStep_nohang_ge g s (parse_adv g s f) (parse_bndAll g s f) hg loc ⟨?_, ?_, ?_, hA.2, hss⟩ a c
    · intro e he
      have hc : e ∈ (g[id]).children := by simp [Node.children, he]
      have hl : e ∈ leftChildren g k g[id] := by unfold leftChildren; simp [he]
      exact ⟨key1 e (hcl e hc) (hleft e hl), hA.1 e he⟩
    · intro hna x hx
      have hc : x ∈ (g[id]).children := by simp [Node.children, hx]
      have hl : x ∈ leftChildren g k g[id] := by rw [leftChildren_not_and hna]; simp [hx]
      exact key1 x (hcl x hc) (hleft x hl)
    · intro e0 rest hk
      have hch : ∀ y ∈ e0 :: rest, y < g.length := by
        intro y hy
        exact hcl y (by simp only [Node.children, hk, Kind.children, List.mem_append]; exact Or.inl hy)
      have hlc : ∀ y ∈ e0 :: (if consumes g k e0 then [] else andLeft g k rest), r y < r id := by
        intro y hy
        apply hleft y
        unfold leftChildren
        rw [hk]
        simp only [List.mem_append]
        exact Or.inl hy
      refine ⟨key1 e0 (hch e0 (by simp)) (hlc e0 (by simp)), ?_, ?_⟩
      · intro _ l hl hls y hy
        exact key2 y (hch y (List.mem_cons_of_mem _ hy)) l hl hls
      · intro hns'
        have hcf : consumes g k e0 = false := by
          cases hc : consumes g k e0 with
          | false => rfl
          | true => exact absurd (consumes_sound g s k e0 hc f) hns'
        apply hAndOk rest (fun y hy => hch y (List.mem_cons_of_mem _ hy))
        intro y hy
        exact hlc y (by simp [hcf, hy])

theorem recTableOk_spec {g : Grammar} {k D : Nat} (h : recTableOk g k D = true) {i : Nat} {nd : Node}
    (hg : g[i]? = some nd) :
    (∀ c ∈ nd.children, c < g.length) ∧ leftDepthOk g k D i = true ∧ (nd.kind = .stringStart → nd.ignore = []) := by
  unfold recTableOk at h
  rw [List.all_eq_true] at h
  have hi : i < g.length := (List.getElem?_eq_some_iff.mp hg).1
  have := h i (List.mem_range.mpr hi)
  rw [hg] at this
  simp only [Bool.and_eq_true, List.all_eq_true, decide_eq_true_eq] at this
  obtain ⟨⟨h1, h2⟩, h4⟩ := this
  refine ⟨h1, h2, ?_⟩
  intro hk; rw [hk] at h4; simpa using h4

/-- **the same with the rank computed** (`recTableOk g k D`: from every node the left references are well-founded of
    height `< D`): an element of left-height `< d ≤ D` entered at `loc` does not hang with fuel
    `> (len + 1 - loc)·(D + 1) + d`.  This is the form the driver evaluates (entry `termcheck`). -/
theorem recursive_terminates_depth_partial (g : Grammar) (k D : Nat) (ht : recTableOk g k D = true)
    (s : List Char) (ha : Advancing g s) :
    ∀ fuel id loc d, id < g.length → d ≤ D → leftDepthOk g k d id = true →
      (s.length + 1 - loc) * (D + 1) + d < fuel → ∀ a c, parse g s fuel id loc a c ≠ .hang := by
  intro fuel
  induction fuel with
  | zero => intro id loc d _ _ _ h; omega
  | succ f ih =>
    intro id loc d hid hdD hd hm a c
    have hg : g[id]? = some g[id] := List.getElem?_eq_getElem hid
    obtain ⟨hcl, _, hss⟩ := recTableOk_spec ht hg
    have hA := ha f id g[id] hg
    cases d with
    | zero => simp [leftDepthOk] at hd
    | succ d' =>
    unfold leftDepthOk at hd
    rw [hg] at hd
    simp only [List.all_eq_true] at hd
    have hleft : ∀ c ∈ leftChildren g k g[id], leftDepthOk g k d' c = true := hd
    have key1 : ∀ x, x < g.length → leftDepthOk g k d' x = true → NHge (parse g s f) x loc := by
      intro x hx hdx l hl a' c'
      have hmul : (s.length + 1 - l) * (D + 1) ≤ (s.length + 1 - loc) * (D + 1) :=
        Nat.mul_le_mul_right _ (Nat.sub_le_sub_left hl _)
      exact ih x l d' hx (by omega) hdx (by omega) a' c'
    have key2 : ∀ x, x < g.length → ∀ l, loc ≤ l → l ≤ s.length → NHge (parse g s f) x (l + 1) := by
      intro x hx l hl hls l' hl' a' c'
      have hdx : leftDepthOk g k D x = true :=
        (recTableOk_spec ht (List.getElem?_eq_getElem hx)).2.1
      have h1 : (s.length + 1 - l') * (D + 1) ≤ (s.length - l) * (D + 1) :=
        Nat.mul_le_mul_right _ (by omega)
      have h2 : (s.length + 1 - l) * (D + 1) = (s.length - l) * (D + 1) + (D + 1) := by
        have : s.length + 1 - l = (s.length - l) + 1 := by omega
        rw [this, Nat.succ_mul]
      have h3 : (s.length + 1 - l) * (D + 1) ≤ (s.length + 1 - loc) * (D + 1) :=
        Nat.mul_le_mul_right _ (Nat.sub_le_sub_left hl _)
      exact ih x l' D hx (Nat.le_refl _) hdx (by omega) a' c'
    have hAndOk : ∀ rest, (∀ y ∈ rest, y < g.length) → (∀ y ∈ andLeft g k rest, leftDepthOk g k d' y = true) →
        AndOk (parse g s f) (stopFn g) s.length rest loc := by
      intro rest
      induction rest with
      | nil => intro _ _; trivial
      | cons e es ihr =>
        intro hlen hrk
        unfold AndOk
        unfold andLeft at hrk
        split
        · rename_i hst
          simp only [hst, if_true] at hrk
          exact ihr (fun y hy => hlen y (List.mem_cons_of_mem _ hy)) hrk
        · rename_i hst
          simp only [hst] at hrk
          have he : e < g.length := hlen e (by simp)
          refine ⟨?_, ?_, ?_⟩
          · apply key1 e he
            apply hrk
            by_cases hc : consumes g k e = true <;> simp [hc]
          · intro _ hle y hy
            exact key2 y (hlen y (List.mem_cons_of_mem _ hy)) loc (Nat.le_refl _) hle
          · intro hns'
            have hcf : consumes g k e = false := by
              cases hc : consumes g k e with
              | false => rfl
              | true => exact absurd (consumes_sound g s k e hc f) hns'
            simp only [hcf] at hrk
            exact ihr (fun y hy => hlen y (List.mem_cons_of_mem _ hy))
              (fun y hy => hrk y (by simp [hy]))
    show parseStep g s (parse g s f) id loc a c ≠ .hang
    refine parseStep_nohang_ge g s (parse_adv g s f) (parse_bndAll g s f) hg loc ⟨?_, ?_, ?_, hA.2, hss⟩ a c
    · intro e he
      have hc : e ∈ (g[id]).children := by simp [Node.children, he]
      have hl : e ∈ leftChildren g k g[id] := by unfold leftChildren; simp [he]
      exact ⟨key1 e (hcl e hc) (hleft e hl), hA.1 e he⟩
    · intro hna x hx
      have hc : x ∈ (g[id]).children := by simp [Node.children, hx]
      have hl : x ∈ leftChildren g k g[id] := by rw [leftChildren_not_and hna]; simp [hx]
      exact key1 x (hcl x hc) (hleft x hl)
    · intro e0 rest hk
      have hch : ∀ y ∈ e0 :: rest, y < g.length := by
        intro y hy
        exact hcl y (by simp only [Node.children, hk, Kind.children, List.mem_append]; exact Or.inl hy)
      have hlc : ∀ y ∈ e0 :: (if consumes g k e0 then [] else andLeft g k rest), leftDepthOk g k d' y = true := by
        intro y hy
        apply hleft y
        unfold leftChildren
        rw [hk]
        simp only [List.mem_append]
        exact Or.inl hy
      refine ⟨key1 e0 (hch e0 (by simp)) (hlc e0 (by simp)), ?_, ?_⟩
      · intro _ l hl hls y hy
        exact key2 y (hch y (List.mem_cons_of_mem _ hy)) l hl hls
      · intro hns'
        have hcf : consumes g k e0 = false := by
          cases hc : consumes g k e0 with
          | false => rfl
          | true => exact absurd (consumes_sound g s k e0 hc f) hns'
        apply hAndOk rest (fun y hy => hch y (List.mem_cons_of_mem _ hy))
        intro y hy
        exact hlc y (by simp [hcf, hy])

/-- **entry points, recursive tables — the theorem the harness instantiates**: if the extracted table passes `recTableOk g k D`
    and `advOk g ka`, then for every root of the table and every input, with fuel `> (len + 1)·(D + 1) + D`, neither
    parse_string (incl. parse_all) nor scan_string answers `hang`. -/
theorem entry_points_terminate_rec_partial (g : Grammar) (k ka D : Nat) (ht : recTableOk g k D = true)
    (hk : advOk g ka = true) (s dw : List Char) (root : Nat) (hroot : root < g.length) (fuel : Nat)
    (hf : (s.length + 1) * (D + 1) + D < fuel) :
    (∀ pa, parseString (parse g s fuel) g root dw s pa ≠ .hang) ∧
    (∀ mm sk ov, (scanString (parse g s fuel) g root s mm sk ov).exc ≠ some .hang) := by
  have ha := advancing_of_advOk g ka hk s
  have hg : g[root]? = some g[root] := List.getElem?_eq_getElem hroot
  have hall : ∀ x, x < g.length → NH (parse g s fuel) x := by
    intro x hx loc a c
    have hdx := (recTableOk_spec ht (List.getElem?_eq_getElem hx)).2.1
    have hmul : (s.length + 1 - loc) * (D + 1) ≤ (s.length + 1) * (D + 1) :=
      Nat.mul_le_mul_right _ (Nat.sub_le _ _)
    exact recursive_terminates_depth_partial g k D ht s ha fuel x loc D hx (Nat.le_refl _) hdx (by omega) a c
  have hig : ∀ e ∈ (g[root]).ignore, NH (parse g s fuel) e ∧ IgnAdv (parse g s fuel) e := by
    intro e he
    have hc : e ∈ (g[root]).children := by simp [Node.children, he]
    exact ⟨hall e ((recTableOk_spec ht hg).1 e hc), (ha fuel root g[root] hg).1 e he⟩
  exact ⟨fun pa => parseString_nohang g root dw s pa hg (parse_bndAll g s fuel) hig (hall root hroot),
         fun mm sk ov => scanString_nohang g root s mm sk ov hg (parse_bndAll g s fuel) hig (hall root hroot)⟩

/-- the same with the side condition decided by `advOk` -/
theorem recursive_terminates_checked_partial (g : Grammar) (r : Nat → Nat) (k ka R : Nat)
    (hr : leftRankOk g r k R = true) (hk : advOk g ka = true) (s : List Char) :
    ∀ fuel id loc, id < g.length → (s.length + 1 - loc) * (R + 1) + r id < fuel →
      ∀ a c, parse g s fuel id loc a c ≠ .hang :=
  recursive_terminates_partial g r k R hr s (advancing_of_advOk g ka hk s)

/-! ### non-vacuity -/

section Example

private def lf (k : Kind) : Node :=
  { kind := k, skipWs := true, white := [' '], callPre := true, mayIdx := true, ignore := [],
    acts := [], callDuringTry := false, nameLen := 1 }

/-- `expr = Forward(); expr <<= ("(" + expr + ")") | "a"` — a genuinely recursive table:
    0 "(", 1 ")", 2 "a", 3 And[0, 5, 1], 4 MatchFirst[3, 2], 5 Forward → 4 -/
def recG : Grammar :=
  [ lf (.lit1 '('), lf (.lit1 ')'), lf (.lit1 'a'),
    { lf (.and [0, 5, 1]) with mayIdx := false }, { lf (.matchFirst [3, 2]) with mayIdx := false },
    { lf (.forward (some 4)) with mayIdx := false } ]

def recRank (i : Nat) : Nat := [0, 0, 0, 1, 2, 3].getD i 0

/-- the cycle 5 → 4 → 3 → 5 passes through the consuming operand "(" of the And: the test accepts it
    (and the acyclic tests reject the table) -/
example : leftRankOk recG recRank 1 3 = true ∧ advOk recG 1 = true ∧ depthOk recG 50 5 = false := by decide

/-- the computed form: left-height 4 everywhere -/
example : recTableOk recG 1 4 = true ∧ recTableOk recG 1 3 = false := by decide

/-- hence parsing from the Forward terminates on every input, with fuel `4·(len + 1) + 4` -/
example (s : List Char) (a c : Bool) : parse recG s ((s.length + 1) * 4 + 4) 5 0 a c ≠ .hang :=
  recursive_terminates_checked_partial recG recRank 1 1 3 (by decide) (by decide) s _ 5 0 (by decide)
    (by simp [recRank]) a c

/-- a left-recursive table (`expr <<= expr + "a" | "a"`) is rejected for the rank above — and for every rank, since
    the And's first operand is the Forward itself -/
example : leftRankOk [ lf (.lit1 'a'), { lf (.and [3, 0]) with mayIdx := false },
    { lf (.matchFirst [1, 0]) with mayIdx := false }, { lf (.forward (some 2)) with mayIdx := false } ]
    (fun i => [0, 1, 2, 3].getD i 0) 1 3 = false := by decide

end Example

end PP.Parse
