import PPProofs.Props.C18
/-!
# C18 (continued) — `iso8601_datetime`

`(?P<year>\d{4})-(?P<month>\d\d)-(?P<day>\d\d)[T ](?P<hour>\d\d):(?P<minute>\d\d)(:(?P<second>\d\d(\.\d*)?)?)?(?P<tz>Z|[+-]\d\d:?\d\d)?`

The fixed prefix is deterministic; the two optional tails always match (possibly empty), so the preferred match is
the greedy one: `secFn` / `tzFn` compute what it leaves.  The AST is the one pinned by `iso8601_datetime_pattern_ast`.
-/
namespace PP.C18
open PP.Regex PP.Regex.Re

abbrev colons : CSet := ⟨false, [.c ':'], false⟩
abbrev dots : CSet := ⟨false, [.c '.'], false⟩
abbrev zs : CSet := ⟨false, [.c 'Z'], false⟩
abbrev signs : CSet := ⟨false, [.c '+', .c '-'], false⟩
abbrev tsep : CSet := ⟨false, [.c 'T', .c ' '], false⟩

def fracPart : Re := grp 8 (seq (lit '.') (star digit))
def secDigits : Re := grp 7 (seq digit (seq digit (opt fracPart)))
def secPart : Re := grp 6 (seq (lit ':') (opt secDigits))
def tzOff : Re := seq (cls [.c '+', .c '-']) (seq digit (seq digit (seq (opt (lit ':')) dd)))
def tzPart : Re := grp 9 (alt (lit 'Z') tzOff)

theorem isoDatetimeAst_eq : isoDatetimeAst =
    seq (grp 1 (exactly 4 digit)) (seq (lit '-') (seq (grp 2 dd) (seq (lit '-') (seq (grp 3 dd)
      (seq (cls [.c 'T', .c ' ']) (seq (grp 4 dd) (seq (lit ':') (seq (grp 5 dd)
        (seq (opt secPart) (opt tzPart)))))))))) := rfl

theorem ends_grp (i : Nat) (r : Re) (s : List Char) : (grp i r).ends s = r.ends s := by simp only [Re.ends]

theorem ends_alt' (a b : Re) (s : List Char) : (alt a b).ends s = a.ends s ++ b.ends s := by simp only [Re.ends]

theorem head?_append_singleton (l : List (List Char)) (x : List Char) :
    (l ++ [x]).head? = l.head?.or (some x) := by
  rw [List.head?_append]; rfl

/-! ### the optional seconds -/

def fracFn : List Char → List Char
  | [] => []
  | c :: t => if c = '.' then t.dropWhile dset.has else c :: t

def sdFn (t : List Char) : List Char :=
  match takeN dset.has 2 t with
  | some t2 => fracFn t2
  | none => t

def secFn : List Char → List Char
  | [] => []
  | c :: t => if c = ':' then sdFn t else c :: t

theorem frac_progress (s e : List Char) (h : e ∈ fracPart.ends s) : e.length < s.length := by
  unfold fracPart lit at h; rw [ends_grp] at h; exact seq_set_progress _ _ s e h

theorem frac_head (t : List Char) : ((opt fracPart).ends t).head? = some (fracFn t) := by
  rw [ends_opt_progress fracPart t (frac_progress t), head?_append_singleton]
  unfold fracPart lit
  rw [ends_grp, ends_seq_set]
  cases t with
  | nil => simp [fracFn]
  | cons c u =>
    simp only [fracFn]
    by_cases hc : c = '.'
    · rw [if_pos ((has_lit _ _).2 hc), if_pos hc, star_digit_head]; rfl
    · rw [if_neg (fun h => hc ((has_lit _ _).1 h)), if_neg hc]; rfl

theorem secDigits_ends (t : List Char) :
    secDigits.ends t = match takeN dset.has 2 t with
      | none => []
      | some t2 => (opt fracPart).ends t2 := by
  unfold secDigits
  rw [ends_grp, ends_seq_assoc]
  exact ends_seq_det det_dd _ t

theorem secDigits_progress (s e : List Char) (h : e ∈ secDigits.ends s) : e.length < s.length := by
  unfold secDigits digit at h; rw [ends_grp] at h; exact seq_set_progress _ _ s e h

theorem sd_head (t : List Char) : ((opt secDigits).ends t).head? = some (sdFn t) := by
  rw [ends_opt_progress secDigits t (secDigits_progress t), head?_append_singleton, secDigits_ends]
  unfold sdFn
  cases takeN dset.has 2 t with
  | none => rfl
  | some t2 => simp only [frac_head]; rfl

theorem sec_progress (s e : List Char) (h : e ∈ secPart.ends s) : e.length < s.length := by
  unfold secPart lit at h; rw [ends_grp] at h; exact seq_set_progress _ _ s e h

theorem sec_head (e : List Char) : ((opt secPart).ends e).head? = some (secFn e) := by
  rw [ends_opt_progress secPart e (sec_progress e), head?_append_singleton]
  unfold secPart lit
  rw [ends_grp, ends_seq_set]
  cases e with
  | nil => simp [secFn]
  | cons c u =>
    simp only [secFn]
    by_cases hc : c = ':'
    · rw [if_pos ((has_lit _ _).2 hc), if_pos hc, sd_head]; rfl
    · rw [if_neg (fun h => hc ((has_lit _ _).1 h)), if_neg hc]; rfl

/-! ### the optional time zone -/

def colonDD : List Char → Option (List Char)
  | [] => none
  | c :: u => if c = ':' then takeN dset.has 2 u else takeN dset.has 2 (c :: u)

theorem det_colonDD : Det (seq (opt (lit ':')) dd) colonDD := by
  intro s
  unfold lit
  show ((opt (Re.set colons)).ends s).flatMap (fun e => dd.ends e) = _
  rw [ends_opt_set]
  cases s with
  | nil => simp [colonDD, det_dd [], takeN]
  | cons c u =>
    simp only [colonDD]
    by_cases hc : c = ':'
    · subst hc
      have h1 : colons.has ':' = true := by decide
      have h2 : dset.has ':' = false := by decide
      simp [h1, det_dd u, det_dd (':' :: u), takeN, h2]
    · rw [if_neg (fun h => hc ((has_lit _ _).1 h)), if_neg hc]
      simp [det_dd (c :: u)]

def offFn : List Char → Option (List Char) :=
  fun s => (expect signs.has s).bind (fun s => (expect dset.has s).bind (fun s => (expect dset.has s).bind colonDD))

theorem det_tzOff : Det tzOff offFn :=
  det_seq (det_set signs) (det_seq (det_set dset) (det_seq (det_set dset) det_colonDD))

def tzFn (e : List Char) : List Char :=
  match expect zs.has e with
  | some t => t
  | none => match offFn e with
    | some t => t
    | none => e

theorem tzPart_ends (e : List Char) : tzPart.ends e = (expect zs.has e).toList ++ (offFn e).toList := by
  unfold tzPart lit
  rw [ends_grp, ends_alt', det_set zs e, det_tzOff e]

theorem tz_progress (s e : List Char) (h : e ∈ tzPart.ends s) : e.length < s.length := by
  unfold tzPart lit at h
  rw [ends_grp, ends_alt', List.mem_append] at h
  rcases h with h | h
  · obtain ⟨c, rfl, _⟩ := (mem_set_ends _ _ _).1 h; simp
  · unfold tzOff cls at h; exact seq_set_progress _ _ s e h

theorem tz_head (e : List Char) : ((opt tzPart).ends e).head? = some (tzFn e) := by
  rw [ends_opt_progress tzPart e (tz_progress e), head?_append_singleton, tzPart_ends]
  unfold tzFn
  cases expect zs.has e with
  | some t => simp
  | none =>
    cases offFn e with
    | some t => simp
    | none => simp

theorem tail_head (e : List Char) : ((seq (opt secPart) (opt tzPart)).ends e).head? = some (tzFn (secFn e)) := by
  rw [head_seq_total _ _ (total_opt_progress _ tz_progress), sec_head]
  simp only [Option.bind_some, tz_head]

/-! ### the fixed prefix -/

def preFn : List Char → Option (List Char) :=
  fun s => (takeN dset.has 4 s).bind (fun s => (expect dashs.has s).bind (fun s => (takeN dset.has 2 s).bind
    (fun s => (expect dashs.has s).bind (fun s => (takeN dset.has 2 s).bind (fun s => (expect tsep.has s).bind
      (fun s => (takeN dset.has 2 s).bind (fun s => (expect colons.has s).bind (takeN dset.has 2))))))))

theorem head_seq_det {a : Re} {fa} (ha : Det a fa) (b : Re) (s : List Char) :
    ((seq a b).ends s).head? = (fa s).bind (fun e => (b.ends e).head?) := by
  rw [ends_seq_det ha]; cases fa s <;> simp

theorem isoDatetime_head (s : List Char) :
    (isoDatetimeAst.ends s).head? = (preFn s).map (fun e => tzFn (secFn e)) := by
  have hY : Det (grp 1 (exactly 4 digit)) (takeN dset.has 4) := det_grp 1 (det_exact_set dset 4)
  have h2 : Det (grp 2 dd) (takeN dset.has 2) := det_grp 2 det_dd
  have h3 : Det (grp 3 dd) (takeN dset.has 2) := det_grp 3 det_dd
  have h4 : Det (grp 4 dd) (takeN dset.has 2) := det_grp 4 det_dd
  have h5 : Det (grp 5 dd) (takeN dset.has 2) := det_grp 5 det_dd
  have hd : Det (lit '-') (expect dashs.has) := det_set dashs
  have hc : Det (lit ':') (expect colons.has) := det_set colons
  have ht : Det (cls [.c 'T', .c ' ']) (expect tsep.has) := det_set tsep
  rw [isoDatetimeAst_eq]
  simp only [head_seq_det hY, head_seq_det h2, head_seq_det h3, head_seq_det h4, head_seq_det h5, head_seq_det hd,
    head_seq_det hc, head_seq_det ht, tail_head]
  unfold preFn
  cases takeN dset.has 4 s with
  | none => rfl
  | some e1 =>
    simp only [Option.bind_some]
    cases expect dashs.has e1 with
    | none => rfl
    | some e2 =>
      simp only [Option.bind_some]
      cases takeN dset.has 2 e2 with
      | none => rfl
      | some e3 =>
        simp only [Option.bind_some]
        cases expect dashs.has e3 with
        | none => rfl
        | some e4 =>
          simp only [Option.bind_some]
          cases takeN dset.has 2 e4 with
          | none => rfl
          | some e5 =>
            simp only [Option.bind_some]
            cases expect tsep.has e5 with
            | none => rfl
            | some e6 =>
              simp only [Option.bind_some]
              cases takeN dset.has 2 e6 with
              | none => rfl
              | some e7 =>
                simp only [Option.bind_some]
                cases expect colons.has e7 with
                | none => rfl
                | some e8 =>
                  simp only [Option.bind_some]
                  cases takeN dset.has 2 e8 <;> rfl

/-! ### the documented syntax -/

/-- optional seconds: nothing, `:`, `:ss`, or `:ss.` followed by any number of digits -/
def IsSec (w : List Char) : Prop :=
  w = [] ∨ w = [':'] ∨ ∃ a b, IsDigit a ∧ IsDigit b ∧
    (w = [':', a, b] ∨ ∃ fr, (∀ c ∈ fr, IsDigit c) ∧ w = ':' :: a :: b :: '.' :: fr)

/-- optional time zone: nothing, `Z`, `±hhmm` or `±hh:mm` -/
def IsTz (w : List Char) : Prop :=
  w = [] ∨ w = ['Z'] ∨ ∃ sg a b c d, IsSign sg ∧ IsDigit a ∧ IsDigit b ∧ IsDigit c ∧ IsDigit d ∧
    (w = [sg, a, b, c, d] ∨ w = [sg, a, b, ':', c, d])

/-- documented syntax: `yyyy-mm-dd`, `T` or a blank, `hh:mm`, optional seconds, optional time zone -/
def IsIsoDatetime (s : List Char) : Prop :=
  ∃ y1 y2 y3 y4 m1 m2 d1 d2 sep h1 h2 n1 n2 sec tz,
    s = y1 :: y2 :: y3 :: y4 :: '-' :: m1 :: m2 :: '-' :: d1 :: d2 :: sep :: h1 :: h2 :: ':' :: n1 :: n2 :: (sec ++ tz) ∧
    IsDigit y1 ∧ IsDigit y2 ∧ IsDigit y3 ∧ IsDigit y4 ∧ IsDigit m1 ∧ IsDigit m2 ∧ IsDigit d1 ∧ IsDigit d2 ∧
    (sep = 'T' ∨ sep = ' ') ∧ IsDigit h1 ∧ IsDigit h2 ∧ IsDigit n1 ∧ IsDigit n2 ∧ IsSec sec ∧ IsTz tz

theorem take2_some (s e : List Char) :
    takeN dset.has 2 s = some e ↔ ∃ a b, s = a :: b :: e ∧ IsDigit a ∧ IsDigit b := by
  rw [takeN_some]
  constructor
  · rintro ⟨w, rfl, hl, hw⟩
    match w, hl, hw with
    | [a, b], _, hw =>
      exact ⟨a, b, rfl, (has_digit a).1 (hw a (by simp)), (has_digit b).1 (hw b (by simp))⟩
  · rintro ⟨a, b, rfl, ha, hb⟩
    refine ⟨[a, b], rfl, rfl, ?_⟩
    intro c hc; simp at hc
    rcases hc with rfl | rfl
    · exact (has_digit _).2 ha
    · exact (has_digit _).2 hb

theorem take4_some (s e : List Char) :
    takeN dset.has 4 s = some e ↔
      ∃ a b c d, s = a :: b :: c :: d :: e ∧ IsDigit a ∧ IsDigit b ∧ IsDigit c ∧ IsDigit d := by
  rw [takeN_some]
  constructor
  · rintro ⟨w, rfl, hl, hw⟩
    match w, hl, hw with
    | [a, b, c, d], _, hw =>
      exact ⟨a, b, c, d, rfl, (has_digit a).1 (hw a (by simp)), (has_digit b).1 (hw b (by simp)),
        (has_digit c).1 (hw c (by simp)), (has_digit d).1 (hw d (by simp))⟩
  · rintro ⟨a, b, c, d, rfl, ha, hb, hc, hd⟩
    refine ⟨[a, b, c, d], rfl, rfl, ?_⟩
    intro x hx; simp at hx
    rcases hx with rfl | rfl | rfl | rfl
    · exact (has_digit _).2 ha
    · exact (has_digit _).2 hb
    · exact (has_digit _).2 hc
    · exact (has_digit _).2 hd

theorem expect_lit_some (a : Char) (s e : List Char) :
    expect (CSet.mk false [.c a] false).has s = some e ↔ s = a :: e := by
  rw [expect_some]
  constructor
  · rintro ⟨c, rfl, hc⟩; rw [(has_lit a c).1 hc]
  · rintro rfl; exact ⟨a, rfl, (has_lit a a).2 rfl⟩

theorem has_tsep (c : Char) : tsep.has c = true ↔ (c = 'T' ∨ c = ' ') := by
  simp [CSet.has, Item.has]

theorem preFn_some (s e : List Char) : preFn s = some e ↔
    ∃ y1 y2 y3 y4 m1 m2 d1 d2 sep h1 h2 n1 n2,
      s = y1 :: y2 :: y3 :: y4 :: '-' :: m1 :: m2 :: '-' :: d1 :: d2 :: sep :: h1 :: h2 :: ':' :: n1 :: n2 :: e ∧
      IsDigit y1 ∧ IsDigit y2 ∧ IsDigit y3 ∧ IsDigit y4 ∧ IsDigit m1 ∧ IsDigit m2 ∧ IsDigit d1 ∧ IsDigit d2 ∧
      (sep = 'T' ∨ sep = ' ') ∧ IsDigit h1 ∧ IsDigit h2 ∧ IsDigit n1 ∧ IsDigit n2 := by
  unfold preFn
  constructor
  · intro h
    obtain ⟨e1, h1, h⟩ := Option.bind_eq_some_iff.1 h
    obtain ⟨e2, h2, h⟩ := Option.bind_eq_some_iff.1 h
    obtain ⟨e3, h3, h⟩ := Option.bind_eq_some_iff.1 h
    obtain ⟨e4, h4, h⟩ := Option.bind_eq_some_iff.1 h
    obtain ⟨e5, h5, h⟩ := Option.bind_eq_some_iff.1 h
    obtain ⟨e6, h6, h⟩ := Option.bind_eq_some_iff.1 h
    obtain ⟨e7, h7, h⟩ := Option.bind_eq_some_iff.1 h
    obtain ⟨e8, h8, h9⟩ := Option.bind_eq_some_iff.1 h
    obtain ⟨y1, y2, y3, y4, rfl, a1, a2, a3, a4⟩ := (take4_some _ _).1 h1
    have := (expect_lit_some '-' _ _).1 h2; subst this
    obtain ⟨m1, m2, rfl, b1, b2⟩ := (take2_some _ _).1 h3
    have := (expect_lit_some '-' _ _).1 h4; subst this
    obtain ⟨d1, d2, rfl, c1, c2⟩ := (take2_some _ _).1 h5
    obtain ⟨sep, rfl, hsep⟩ := (expect_some _ _ _).1 h6
    obtain ⟨g1, g2, rfl, f1, f2⟩ := (take2_some _ _).1 h7
    have := (expect_lit_some ':' _ _).1 h8; subst this
    obtain ⟨n1, n2, rfl, k1, k2⟩ := (take2_some _ _).1 h9
    exact ⟨y1, y2, y3, y4, m1, m2, d1, d2, sep, g1, g2, n1, n2, rfl, a1, a2, a3, a4, b1, b2, c1, c2,
      (has_tsep sep).1 hsep, f1, f2, k1, k2⟩
  · rintro ⟨y1, y2, y3, y4, m1, m2, d1, d2, sep, g1, g2, n1, n2, rfl, a1, a2, a3, a4, b1, b2, c1, c2, hsep,
      f1, f2, k1, k2⟩
    rw [(take4_some _ _).2 ⟨y1, y2, y3, y4, rfl, a1, a2, a3, a4⟩]
    simp only [Option.bind_some]
    rw [(expect_lit_some '-' _ _).2 rfl]
    simp only [Option.bind_some]
    rw [(take2_some _ _).2 ⟨m1, m2, rfl, b1, b2⟩]
    simp only [Option.bind_some]
    rw [(expect_lit_some '-' _ _).2 rfl]
    simp only [Option.bind_some]
    rw [(take2_some _ _).2 ⟨d1, d2, rfl, c1, c2⟩]
    simp only [Option.bind_some]
    rw [(expect_some _ _ _).2 ⟨sep, rfl, (has_tsep sep).2 hsep⟩]
    simp only [Option.bind_some]
    rw [(take2_some _ _).2 ⟨g1, g2, rfl, f1, f2⟩]
    simp only [Option.bind_some]
    rw [(expect_lit_some ':' _ _).2 rfl]
    simp only [Option.bind_some]
    exact (take2_some _ _).2 ⟨n1, n2, rfl, k1, k2⟩

theorem tz_start {tz : List Char} (h : IsTz tz) :
    tz = [] ∨ ∃ c t, tz = c :: t ∧ c ≠ ':' ∧ c ≠ '.' ∧ dset.has c = false := by
  rcases h with rfl | rfl | ⟨sg, a, b, c, d, hsg, _, _, _, _, rfl | rfl⟩
  · exact Or.inl rfl
  · exact Or.inr ⟨'Z', [], rfl, by decide, by decide, by decide⟩
  · right; refine ⟨sg, _, rfl, ?_⟩; rcases hsg with rfl | rfl <;> decide
  · right; refine ⟨sg, _, rfl, ?_⟩; rcases hsg with rfl | rfl <;> decide

theorem sec_then_tz {sec tz : List Char} (hsec : IsSec sec) (htz : IsTz tz) : secFn (sec ++ tz) = tz := by
  have hstart := tz_start htz
  have hfrac : fracFn tz = tz := by
    rcases hstart with rfl | ⟨c, t, rfl, _, h2, _⟩
    · rfl
    · simp [fracFn, h2]
  rcases hsec with rfl | rfl | ⟨a, b, ha, hb, rfl | ⟨fr, hfr, rfl⟩⟩
  · rcases hstart with rfl | ⟨c, t, rfl, h1, _, _⟩
    · rfl
    · simp [secFn, h1]
  · have : takeN dset.has 2 tz = none := by
      rcases hstart with rfl | ⟨c, t, rfl, _, _, h3⟩
      · rfl
      · simp [takeN, h3]
    simp [secFn, sdFn, this]
  · have : takeN dset.has 2 (a :: b :: tz) = some tz := (take2_some _ _).2 ⟨a, b, rfl, ha, hb⟩
    simp [secFn, sdFn, this, hfrac]
  · have : takeN dset.has 2 (a :: b :: '.' :: (fr ++ tz)) = some ('.' :: (fr ++ tz)) :=
      (take2_some _ _).2 ⟨a, b, rfl, ha, hb⟩
    have hstop : tz = [] ∨ ∃ c t, tz = c :: t ∧ dset.has c = false := by
      rcases hstart with h | ⟨c, t, h, _, _, h3⟩
      · exact Or.inl h
      · exact Or.inr ⟨c, t, h, h3⟩
    have hd := (dropWhile_append_stop dset.has fr tz (dset_all hfr) hstop).1
    simp [secFn, sdFn, this, fracFn, hd]

theorem digit_ne_colon {c : Char} (h : IsDigit c) : c ≠ ':' := by
  rintro rfl; revert h; unfold IsDigit; decide

theorem offFn_intro {sg a b : Char} {r e : List Char} (hsg : IsSign sg) (ha : IsDigit a) (hb : IsDigit b)
    (h : colonDD r = some e) : offFn (sg :: a :: b :: r) = some e := by
  have h1 : signs.has sg = true := (has_sign sg).2 hsg
  have h2 : dset.has a = true := (has_digit a).2 ha
  have h3 : dset.has b = true := (has_digit b).2 hb
  simp [offFn, expect, h1, h2, h3, h]

theorem tz_full {tz : List Char} (h : IsTz tz) : tzFn tz = [] := by
  rcases h with rfl | rfl | ⟨sg, a, b, c, d, hsg, ha, hb, hc, hd, rfl | rfl⟩
  · simp [tzFn, expect, offFn]
  · have : zs.has 'Z' = true := by decide
    simp [tzFn, expect, this]
  · have hz : zs.has sg = false := by rcases hsg with rfl | rfl <;> decide
    have h2 : colonDD [c, d] = some [] := by
      simp only [colonDD, if_neg (digit_ne_colon hc)]
      exact (take2_some _ _).2 ⟨c, d, rfl, hc, hd⟩
    simp [tzFn, expect, hz, offFn_intro hsg ha hb h2]
  · have hz : zs.has sg = false := by rcases hsg with rfl | rfl <;> decide
    have h2 : colonDD [':', c, d] = some [] := by
      simp only [colonDD, if_true]
      exact (take2_some _ _).2 ⟨c, d, rfl, hc, hd⟩
    simp [tzFn, expect, hz, offFn_intro hsg ha hb h2]

theorem colonDD_nil (r : List Char) (h : colonDD r = some []) :
    ∃ c d, IsDigit c ∧ IsDigit d ∧ (r = [c, d] ∨ r = [':', c, d]) := by
  cases r with
  | nil => simp [colonDD] at h
  | cons x u =>
    simp only [colonDD] at h
    by_cases hx : x = ':'
    · rw [if_pos hx] at h
      obtain ⟨c, d, rfl, hc, hd⟩ := (take2_some _ _).1 h
      exact ⟨c, d, hc, hd, Or.inr (by rw [hx])⟩
    · rw [if_neg hx] at h
      obtain ⟨c, d, h', hc, hd⟩ := (take2_some _ _).1 h
      exact ⟨c, d, hc, hd, Or.inl h'⟩

theorem offFn_nil (e : List Char) (h : offFn e = some []) :
    ∃ sg a b c d, IsSign sg ∧ IsDigit a ∧ IsDigit b ∧ IsDigit c ∧ IsDigit d ∧
      (e = [sg, a, b, c, d] ∨ e = [sg, a, b, ':', c, d]) := by
  unfold offFn at h
  obtain ⟨e1, h1, h⟩ := Option.bind_eq_some_iff.1 h
  obtain ⟨e2, h2, h⟩ := Option.bind_eq_some_iff.1 h
  obtain ⟨e3, h3, h4⟩ := Option.bind_eq_some_iff.1 h
  obtain ⟨sg, rfl, hsg⟩ := (expect_some _ _ _).1 h1
  obtain ⟨a, rfl, ha⟩ := (expect_some _ _ _).1 h2
  obtain ⟨b, rfl, hb⟩ := (expect_some _ _ _).1 h3
  obtain ⟨c, d, hc, hd, hr⟩ := colonDD_nil _ h4
  refine ⟨sg, a, b, c, d, (has_sign sg).1 hsg, (has_digit a).1 ha, (has_digit b).1 hb, hc, hd, ?_⟩
  rcases hr with rfl | rfl
  · exact Or.inl rfl
  · exact Or.inr rfl

theorem tz_nil (e : List Char) (h : tzFn e = []) : IsTz e := by
  unfold tzFn at h
  cases hz : expect zs.has e with
  | some t =>
    rw [hz] at h; simp only at h; subst h
    exact Or.inr (Or.inl ((expect_lit_some 'Z' _ _).1 hz))
  | none =>
    rw [hz] at h; simp only at h
    cases ho : offFn e with
    | some t =>
      rw [ho] at h; simp only at h; subst h
      exact Or.inr (Or.inr (offFn_nil e ho))
    | none =>
      rw [ho] at h; simp only at h
      exact Or.inl h

theorem sec_split (e : List Char) : ∃ sec, IsSec sec ∧ e = sec ++ secFn e := by
  cases e with
  | nil => exact ⟨[], Or.inl rfl, rfl⟩
  | cons c t =>
    by_cases hc : c = ':'
    · subst hc
      simp only [secFn, if_true]
      unfold sdFn
      cases h2 : takeN dset.has 2 t with
      | none => exact ⟨[':'], Or.inr (Or.inl rfl), rfl⟩
      | some t2 =>
        obtain ⟨a, b, rfl, ha, hb⟩ := (take2_some _ _).1 h2
        simp only
        cases t2 with
        | nil => exact ⟨[':', a, b], Or.inr (Or.inr ⟨a, b, ha, hb, Or.inl rfl⟩), rfl⟩
        | cons c2 t3 =>
          by_cases hd : c2 = '.'
          · subst hd
            simp only [fracFn, if_true]
            refine ⟨':' :: a :: b :: '.' :: t3.takeWhile dset.has,
              Or.inr (Or.inr ⟨a, b, ha, hb, Or.inr ⟨_, ?_, rfl⟩⟩), ?_⟩
            · intro x hx; exact (has_digit x).1 (mem_takeWhile_sat _ _ x hx)
            · simp [List.takeWhile_append_dropWhile]
          · simp only [fracFn, if_neg hd]
            exact ⟨[':', a, b], Or.inr (Or.inr ⟨a, b, ha, hb, Or.inl rfl⟩), rfl⟩
    · simp only [secFn, if_neg hc]
      exact ⟨[], Or.inl rfl, rfl⟩

theorem iso8601_datetime_language (s : List Char) : isoDatetimeAst.Accepts s ↔ IsIsoDatetime s := by
  unfold Re.Accepts
  rw [isoDatetime_head]
  constructor
  · intro h
    obtain ⟨e, hp, he⟩ := Option.map_eq_some_iff.1 h
    obtain ⟨y1, y2, y3, y4, m1, m2, d1, d2, sep, g1, g2, n1, n2, rfl, hh⟩ := (preFn_some _ _).1 hp
    obtain ⟨sec, hsec, hsplit⟩ := sec_split e
    exact ⟨y1, y2, y3, y4, m1, m2, d1, d2, sep, g1, g2, n1, n2, sec, secFn e, by rw [← hsplit],
      hh.1, hh.2.1, hh.2.2.1, hh.2.2.2.1, hh.2.2.2.2.1, hh.2.2.2.2.2.1, hh.2.2.2.2.2.2.1, hh.2.2.2.2.2.2.2.1,
      hh.2.2.2.2.2.2.2.2.1, hh.2.2.2.2.2.2.2.2.2.1, hh.2.2.2.2.2.2.2.2.2.2.1, hh.2.2.2.2.2.2.2.2.2.2.2.1,
      hh.2.2.2.2.2.2.2.2.2.2.2.2, hsec, tz_nil _ he⟩
  · rintro ⟨y1, y2, y3, y4, m1, m2, d1, d2, sep, g1, g2, n1, n2, sec, tz, rfl, a1, a2, a3, a4, b1, b2, c1, c2, hsep,
      f1, f2, k1, k2, hsec, htz⟩
    rw [(preFn_some _ _).2 ⟨y1, y2, y3, y4, m1, m2, d1, d2, sep, g1, g2, n1, n2, rfl, a1, a2, a3, a4, b1, b2, c1, c2,
      hsep, f1, f2, k1, k2⟩]
    simp only [Option.map_some]
    rw [sec_then_tz hsec htz, tz_full htz]

example : isoDatetimeAst.Accepts "1999-12-31T23:59".toList := by decide +kernel
example : isoDatetimeAst.Accepts "1999-12-31 23:59:".toList := by decide +kernel
example : isoDatetimeAst.Accepts "1999-12-31T23:59:58.125+05:30".toList := by decide +kernel
example : IsIsoDatetime "1999-12-31T23:59:58.Z".toList := (iso8601_datetime_language _).1 (by decide +kernel)
example : IsIsoDatetime "1999-12-31 23:59-0800".toList := (iso8601_datetime_language _).1 (by decide +kernel)
example : ¬ IsIsoDatetime "1999-12-31T23:59:5".toList :=
  fun h => absurd ((iso8601_datetime_language _).2 h) (by decide +kernel)
example : ¬ IsIsoDatetime "1999-12-31T23:59+05:3".toList :=
  fun h => absurd ((iso8601_datetime_language _).2 h) (by decide +kernel)
example : ¬ IsIsoDatetime "1999-12-31x23:59".toList :=
  fun h => absurd ((iso8601_datetime_language _).2 h) (by decide +kernel)
example : ¬ IsIsoDatetime "1999-12-31T23:59ZZ".toList :=
  fun h => absurd ((iso8601_datetime_language _).2 h) (by decide +kernel)
/-- the hypothesis of the `←` direction is satisfiable directly -/
example : IsIsoDatetime "2024-02-29T01:02:03.5Z".toList :=
  ⟨'2', '0', '2', '4', '0', '2', '2', '9', 'T', '0', '1', '0', '2', ":03.5".toList, ['Z'], by decide,
    by decide, by decide, by decide, by decide, by decide, by decide, by decide, by decide, Or.inl rfl,
    by decide, by decide, by decide, by decide,
    Or.inr (Or.inr ⟨'0', '3', by decide, by decide, Or.inr ⟨['5'], by decide, by decide⟩⟩), Or.inr (Or.inl rfl)⟩

end PP.C18
