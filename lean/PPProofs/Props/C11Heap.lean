import PPModel.Mod.PRHeap
/-!
# C11 — aliasing: a mutation of a copy never reaches the original (and vice versa)

Heap model: `PPModel/Mod/PRHeap.lean`.  `view h o` is what object `o` shows one level deep (tokens; for every name
the values in order; list-all names); nested results are references, and the frame theorem below applies to *every*
object whose list cell and dict cell are not those of the mutated object — in particular to all nested groups — so
the deep views (`as_list`, `as_dict`, `dump`) of such objects are unchanged as well.

Nested groups at every depth (`deepcopy()`, `copy.deepcopy`, pickle): `PPProofs/Props/C11Deep.lean`.
-/
namespace PP.PRHeap
open PP.PyList PP.PyDict

variable {α : Type}

theorem upd_ne {β : Type} (f : Nat → β) {i j : Nat} (v : β) (h : j ≠ i) : upd f i v j = f j := by
  simp [upd, h]

theorem upd_same {β : Type} (f : Nat → β) (i : Nat) (v : β) : upd f i v i = v := by simp [upd]

/-- position fix-ups never change the values recorded in any occurrence list -/
theorem fixOccs_fst (occs : Nat → List (HVal α × Int)) (cells : List Nat) (f : Int → Int) (i : Nat) :
    (fixOccs occs cells f i).map (·.1) = (occs i).map (·.1) := by
  induction cells generalizing occs with
  | nil => rfl
  | cons c cs ih =>
    simp only [fixOccs, List.foldl_cons] at ih ⊢
    rw [ih]
    by_cases hc : i = c
    · subst hc; simp [upd, List.map_map, Function.comp_def]
    · simp [upd, hc]

/-- `x`'s cells are not `o`'s, and `x`'s dict only refers to allocated occurrence lists -/
structure Sep (h : Heap α) (o x : Nat) : Prop where
  lst : (h.objs x).lst ≠ (h.objs o).lst
  dct : (h.objs x).dct ≠ (h.objs o).dct
  alloc : ∀ e ∈ h.dicts (h.objs x).dct, e.2 < h.next

/-- **Frame, one mutation**: any own-token / own-name mutation of `o` leaves the view of every separate object
    `x` unchanged, and keeps it separate. -/
theorem frame_step (h : Heap α) (o x : Nat) (m : Mut α) (hs : Sep h o x) :
    view (mutate h o m) x = view h x ∧ Sep (mutate h o m) o x := by
  obtain ⟨hl, hd, ha⟩ := hs
  have vw : ∀ h' : Heap α, h'.objs = h.objs → h'.lists (h.objs x).lst = h.lists (h.objs x).lst →
      h'.dicts (h.objs x).dct = h.dicts (h.objs x).dct →
      (∀ e ∈ h.dicts (h.objs x).dct, (h'.occs e.2).map (·.1) = (h.occs e.2).map (·.1)) →
      h.next ≤ h'.next → view h' x = view h x ∧ Sep h' o x := by
    intro h' ho hli hdi hoc hn
    refine ⟨?_, ?_⟩
    · simp only [view, ho, hli, hdi]
      congr 2
      apply List.map_congr_left
      intro e he
      rw [hoc e he]
    · refine ⟨by rw [ho]; exact hl, by rw [ho]; exact hd, ?_⟩
      rw [ho, hdi]
      intro e he
      exact Nat.lt_of_lt_of_le (ha e he) hn
  cases m with
  | append v => exact vw _ rfl (upd_ne _ _ hl) rfl (fun _ _ => rfl) (Nat.le_refl _)
  | setTok i v =>
    simp only [mutate]
    split
    · exact vw _ rfl (upd_ne _ _ hl) rfl (fun _ _ => rfl) (Nat.le_refl _)
    · exact vw _ rfl rfl rfl (fun _ _ => rfl) (Nat.le_refl _)
  | insert i v =>
    exact vw _ rfl (upd_ne _ _ hl) rfl
      (fun e _ => by simp only [mutate]; exact fixOccs_fst _ _ _ _) (Nat.le_refl _)
  | delTok i =>
    simp only [mutate]
    split
    · exact vw _ rfl rfl rfl (fun _ _ => rfl) (Nat.le_refl _)
    · exact vw _ rfl (upd_ne _ _ hl) rfl (fun e _ => by simp only; exact fixOccs_fst _ _ _ _) (Nat.le_refl _)
  | setName k v =>
    refine vw _ rfl rfl (upd_ne _ _ hd) (fun e he => ?_) (Nat.le_succ _)
    have : e.2 ≠ h.next := Nat.ne_of_lt (ha e he)
    simp [mutate, upd, this]
  | addOcc k v p =>
    refine vw _ rfl rfl (upd_ne _ _ hd) (fun e he => ?_) (Nat.le_succ _)
    have : e.2 ≠ h.next := Nat.ne_of_lt (ha e he)
    simp [mutate, upd, this]
  | extendToks vs => exact vw _ rfl (upd_ne _ _ hl) rfl (fun _ _ => rfl) (Nat.le_refl _)
  | delName k => exact vw _ rfl rfl (upd_ne _ _ hd) (fun _ _ => rfl) (Nat.le_refl _)
  | clear => exact vw _ rfl (upd_ne _ _ hl) (upd_ne _ _ hd) (fun _ _ => rfl) (Nat.le_refl _)

/-- **Frame, any sequence of mutations.** -/
theorem frame_all (ms : List (Mut α)) (h : Heap α) (o x : Nat) (hs : Sep h o x) :
    view (mutateAll h o ms) x = view h x := by
  induction ms generalizing h with
  | nil => rfl
  | cons m ms ih =>
    obtain ⟨h1, h2⟩ := frame_step h o x m hs
    simp only [mutateAll]
    rw [ih _ h2, h1]

/-- well-formedness of an object: its cells and the occurrence lists of its dict are allocated -/
structure WF (h : Heap α) (o : Nat) : Prop where
  lst : (h.objs o).lst < h.next
  dct : (h.objs o).dct < h.next
  obj : o < h.next
  alloc : ∀ e ∈ h.dicts (h.objs o).dct, e.2 < h.next

/-- **`copy()`**: the copy shows what the original shows; whatever is then done to the copy's own tokens and names,
    the original is unchanged; whatever is done to the original's, the copy is unchanged. -/
theorem copy_frame (h : Heap α) (o : Nat) (hw : WF h o) (ms : List (Mut α)) :
    view (copy h o).1 (copy h o).2 = view h o ∧
    view (mutateAll (copy h o).1 (copy h o).2 ms) o = view h o ∧
    view (mutateAll (copy h o).1 o ms) (copy h o).2 = view h o := by
  obtain ⟨wl, wd, wo, wa⟩ := hw
  have ho : (copy h o).1.objs o = h.objs o := upd_ne _ _ (by omega)
  have hc : (copy h o).1.objs (copy h o).2 = ⟨h.next, h.next + 1, (h.objs o).all⟩ := upd_same _ _ _
  have hl : (copy h o).1.lists (h.objs o).lst = h.lists (h.objs o).lst := upd_ne _ _ (by omega)
  have hd : (copy h o).1.dicts (h.objs o).dct = h.dicts (h.objs o).dct := upd_ne _ _ (by omega)
  have hl' : (copy h o).1.lists h.next = h.lists (h.objs o).lst := upd_same _ _ _
  have hd' : (copy h o).1.dicts (h.next + 1) = h.dicts (h.objs o).dct := upd_same _ _ _
  have v0 : view (copy h o).1 o = view h o := by simp only [view, ho, hl, hd]; rfl
  have v1 : view (copy h o).1 (copy h o).2 = view h o := by simp only [view, hc, hl', hd']; rfl
  have s1 : Sep (copy h o).1 (copy h o).2 o := by
    refine ⟨?_, ?_, ?_⟩
    · rw [ho, hc]; simp only; omega
    · rw [ho, hc]; simp only; omega
    · rw [ho, hd]; intro e he; have := wa e he; show e.2 < h.next + 3; omega
  have s2 : Sep (copy h o).1 o (copy h o).2 := by
    refine ⟨?_, ?_, ?_⟩
    · rw [ho, hc]; simp only; omega
    · rw [ho, hc]; simp only; omega
    · rw [hc]; simp only; rw [hd']; intro e he; have := wa e he; show e.2 < h.next + 3; omega
  exact ⟨v1, by rw [frame_all ms _ _ _ s1, v0], by rw [frame_all ms _ _ _ s2, v1]⟩

/-- **`copy.copy` / the pickle protocol as the class defines it now** (`__getstate__` copies the list and the dict):
    same three statements. -/
theorem copyModule_frame (h : Heap α) (o : Nat) (hw : WF h o) (ms : List (Mut α)) :
    view (copyModule h o).1 (copyModule h o).2 = view h o ∧
    view (mutateAll (copyModule h o).1 (copyModule h o).2 ms) o = view h o ∧
    view (mutateAll (copyModule h o).1 o ms) (copyModule h o).2 = view h o := by
  obtain ⟨wl, wd, wo, wa⟩ := hw
  have ho : (copyModule h o).1.objs o = h.objs o := upd_ne _ _ (by omega)
  have hc : (copyModule h o).1.objs (copyModule h o).2 = ⟨h.next, h.next + 1, (h.objs o).all⟩ := upd_same _ _ _
  have hl : (copyModule h o).1.lists (h.objs o).lst = h.lists (h.objs o).lst := by
    simp only [copyModule]; rw [upd_ne _ _ (by omega), upd_ne _ _ (by omega)]
  have hd : (copyModule h o).1.dicts (h.objs o).dct = h.dicts (h.objs o).dct := by
    simp only [copyModule]; rw [upd_ne _ _ (by omega), upd_ne _ _ (by omega)]
  have hl' : (copyModule h o).1.lists h.next = h.lists (h.objs o).lst := by
    simp only [copyModule]; rw [upd_ne _ _ (by omega), upd_same]
  have hd' : (copyModule h o).1.dicts (h.next + 1) = h.dicts (h.objs o).dct := by
    simp only [copyModule]; rw [upd_ne _ _ (by omega), upd_same]
  have v0 : view (copyModule h o).1 o = view h o := by simp only [view, ho, hl, hd]; rfl
  have v1 : view (copyModule h o).1 (copyModule h o).2 = view h o := by simp only [view, hc, hl', hd']; rfl
  have s1 : Sep (copyModule h o).1 (copyModule h o).2 o := by
    refine ⟨?_, ?_, ?_⟩
    · rw [ho, hc]; simp only; omega
    · rw [ho, hc]; simp only; omega
    · rw [ho, hd]; intro e he; have := wa e he; show e.2 < h.next + 5; omega
  have s2 : Sep (copyModule h o).1 o (copyModule h o).2 := by
    refine ⟨?_, ?_, ?_⟩
    · rw [ho, hc]; simp only; omega
    · rw [ho, hc]; simp only; omega
    · rw [hc]; simp only; rw [hd']; intro e he; have := wa e he; show e.2 < h.next + 5; omega
  exact ⟨v1, by rw [frame_all ms _ _ _ s1, v0], by rw [frame_all ms _ _ _ s2, v1]⟩

/-! ### the shapes used as witnesses (also run on the real class by harness/props/c11.py) -/

/-- object 2 = inner group `['a']`; object 5 = outer result `[<inner>, 'b']` with name `g ↦ <inner>`, `x ↦ 'b'`
    (what `Group(Word('a'))('g') + Word('b')('x')` returns).  cells: 0,1 = inner's list/dict; 3,4 = outer's;
    6,7 = occurrence lists of `g`, `x`. -/
def exHeap : Heap String :=
  { lists := fun i => if i = 0 then [.atom "a"] else if i = 3 then [.ref 2, .atom "b"] else [],
    dicts := fun i => if i = 4 then [("g", 6), ("x", 7)] else [],
    occs := fun i => if i = 6 then [(.ref 2, 0)] else if i = 7 then [(.atom "b", 1)] else [],
    objs := fun i => if i = 2 then ⟨0, 1, []⟩ else ⟨3, 4, []⟩,
    next := 8 }

example : WF exHeap 5 := ⟨by decide, by decide, by decide, by decide⟩

/-- non-vacuity of `copy_frame`: copy the outer result, then on the copy: rebind `x`, delete token 0 (position
    fix-up on the *shared* occurrence lists), clear — the original still shows what it showed -/
example : view (mutateAll (copy exHeap 5).1 (copy exHeap 5).2
      [.setName "x" (.atom "new"), .delTok 0, .append (.atom "z"), .clear]) 5
    = ([.ref 2, .atom "b"], [("g", [.ref 2]), ("x", [.atom "b"])], []) := by decide +kernel

/-- `c = r.copy(); c += other` where `other` binds names the source already has (`x`, `g`): the copy sees the merged
    values, the source keeps showing its own — because `__setitem__` builds a new occurrence list (`addOcc`) instead
    of appending to the one the copy shares with its source.  (Seeded change C10-1 replaces exactly that by an in-place
    append; the sharing table of harness/props/c11.py then differs from this model.) -/
example :
    let h := mutateAll (copy exHeap 5).1 (copy exHeap 5).2
      (iaddMuts 2 [("x", (.atom "new", 0)), ("g", (.atom "new", 0))] [.atom "new"])
    view h 5 = ([.ref 2, .atom "b"], [("g", [.ref 2]), ("x", [.atom "b"])], []) ∧
    (view h (copy exHeap 5).2).2.1 = [("g", [.ref 2, .atom "new"]), ("x", [.atom "b", .atom "new"])] := by
  decide +kernel

/-- **`ParseResults.deepcopy()` leaves named nested groups shared with the original** (the finding
    `deepcopy_named_group_aliased`): after `d = r.deepcopy()` the copy's token 0 is a new group (object 13) but its name
    `g` still refers to the original inner group (object 2); appending to `d['g']` is appending to `r[0]`. -/
theorem deepcopy_named_group_aliased_witness :
    let r := deepcopy1 exHeap 5
    let d := r.2
    (view r.1 d).1 = [.ref 13, .atom "b"] ∧                     -- d[0] is a fresh group …
    (view r.1 d).2.1 = [("g", [.ref 2]), ("x", [.atom "b"])] ∧    -- … but d['g'] is the original's
    (view (mutate r.1 2 (.append (.atom "z"))) 2).1 = [.atom "a", .atom "z"] := by  -- so d['g'].append('z') changes r[0]
  decide +kernel

end PP.PRHeap
