import PPProofs.Props.C18
import PPProofs.Lemmas.RegexIpv4
import PPProofs.Lemmas.RegexCI
/-!
# C18 (continued) — language theorems for `identifier` and `ipv4_address`

Same style as `Props/C18.lean`: `ast.Accepts s ↔ <documented syntax> s` for **all** strings `s`, where `Accepts` is
about the *preferred* match of `re.match` consuming the whole string.  The ASTs are the ones pinned to the live
patterns by `identifier_pattern_ast` / `ipv4_address_pattern_ast`.
-/
namespace PP.C18
open PP.Regex PP.Regex.Re

/-! ## identifier  (`Word(identchars, identbodychars)`; reString `[A-Z_a-zªµºÀ-ÖØ-öø-ÿ][0-9A-Z_a-zªµ·ºÀ-ÖØ-öø-ÿ]*`) -/

/-- the pattern's initial class: ASCII letters, `_`, and the Latin-1 letters
    (U+00AA, U+00B5, U+00BA, U+00C0–U+00D6, U+00D8–U+00F6, U+00F8–U+00FF) -/
def IsIdentStart (c : Char) : Prop :=
  ('A' ≤ c ∧ c ≤ 'Z') ∨ c = '_' ∨ ('a' ≤ c ∧ c ≤ 'z') ∨ c = 'ª' ∨ c = 'µ' ∨ c = 'º' ∨
    ('À' ≤ c ∧ c ≤ 'Ö') ∨ ('Ø' ≤ c ∧ c ≤ 'ö') ∨ ('ø' ≤ c ∧ c ≤ 'ÿ')

/-- the pattern's body class: the initial class plus the decimal digits and U+00B7 (middle dot) -/
def IsIdentBody (c : Char) : Prop := IsIdentStart c ∨ IsDigit c ∨ c = '·'

instance (c : Char) : Decidable (IsIdentStart c) := by unfold IsIdentStart; infer_instance
instance (c : Char) : Decidable (IsIdentBody c) := by unfold IsIdentBody; infer_instance

abbrev identStartSet : CSet :=
  ⟨false, [.r 'A' 'Z', .c '_', .r 'a' 'z', .c 'ª', .c 'µ', .c 'º', .r 'À' 'Ö', .r 'Ø' 'ö', .r 'ø' 'ÿ'], false⟩
abbrev identBodySet : CSet :=
  ⟨false, [.r '0' '9', .r 'A' 'Z', .c '_', .r 'a' 'z', .c 'ª', .c 'µ', .c '·', .c 'º', .r 'À' 'Ö', .r 'Ø' 'ö',
    .r 'ø' 'ÿ'], false⟩

theorem has_identStart (c : Char) : identStartSet.has c = true ↔ IsIdentStart c := by
  simp only [CSet.has, Item.has, IsIdentStart]
  simp

theorem has_identBody (c : Char) : identBodySet.has c = true ↔ IsIdentBody c := by
  simp only [CSet.has, Item.has, IsIdentBody, IsIdentStart, IsDigit]
  simp
  grind

/-- documented syntax: one character of the initial class followed by any number of body-class characters -/
def IsIdentifier (s : List Char) : Prop := ∃ c t, s = c :: t ∧ IsIdentStart c ∧ ∀ x ∈ t, IsIdentBody x

theorem identifier_language (s : List Char) : identifierAst.Accepts s ↔ IsIdentifier s := by
  have hdef : identifierAst = seq (.set identStartSet) (.rep (.set identBodySet) 0 none true) := rfl
  rw [hdef]
  unfold Re.Accepts
  rw [ends_seq_set]
  cases s with
  | nil => simp [IsIdentifier]
  | cons c t =>
    simp only
    by_cases hc : identStartSet.has c = true
    · rw [if_pos hc]
      have := accepts_rep_set identBodySet 0 t
      unfold Re.Accepts at this
      rw [this]
      simp only [has_identBody, Nat.zero_le, true_and]
      constructor
      · intro h; exact ⟨c, t, rfl, (has_identStart c).1 hc, h⟩
      · rintro ⟨c', t', h, _, hb⟩
        obtain ⟨rfl, rfl⟩ := List.cons.inj h
        exact hb
    · rw [if_neg hc]
      simp only [List.head?_nil, reduceCtorEq, false_iff]
      rintro ⟨c', t', h, hs, _⟩
      obtain ⟨rfl, rfl⟩ := List.cons.inj h
      exact hc ((has_identStart c).2 hs)

example : identifierAst.Accepts "_fooBar9·é".toList := by decide +kernel
example : IsIdentifier "_fooBar9·é".toList := (identifier_language _).1 (by decide +kernel)
example : ¬ identifierAst.Accepts "9lives".toList := by decide +kernel
example : ¬ IsIdentifier "9lives".toList := fun h => absurd ((identifier_language _).2 h) (by decide +kernel)
example : ¬ identifierAst.Accepts "a-b".toList := by decide +kernel
example : ¬ identifierAst.Accepts "a×b".toList := by decide +kernel
example : ¬ identifierAst.Accepts "".toList := by decide +kernel

/-! ## ipv4_address  (`(25[0-5]|2[0-4][0-9]|1?[0-9]{1,2})(\.(25[0-5]|2[0-4][0-9]|1?[0-9]{1,2})){3}`)

`ipv4_language_partial` (in `Props/C18.lean`) is the direction `Accepts → IsIpv4`.  The converse needs the
preferred-match argument: for the first three octets every intermediate position other than "just before the dot"
makes the continuation (`\.` …) fail, so the preferred overall match goes through the full octet; for the last octet
the preferred octet match is the whole octet (checked for all 1110 digit strings of length ≤ 3 by kernel evaluation). -/

theorem between12_one (cs : CSet) (c : Char) (e : List Char) (h : cs.has c = true) :
    e ∈ (between 1 2 (.set cs)).ends (c :: e) := by
  unfold between
  rw [ends_rep_set]
  cases e with
  | nil => simp [repSet, h]
  | cons c2 t =>
    by_cases h2 : cs.has c2 = true
    · simp [repSet, h, h2, repSet_zero_zero]
    · simp [repSet, h, h2]

theorem between12_two (cs : CSet) (c1 c2 : Char) (e : List Char) (h1 : cs.has c1 = true) (h2 : cs.has c2 = true) :
    e ∈ (between 1 2 (.set cs)).ends (c1 :: c2 :: e) := by
  unfold between
  rw [ends_rep_set]
  simp [repSet, h1, h2, repSet_zero_zero]

/-- every octet of the pattern's policy is *a* way of matching the octet sub-pattern (any continuation) -/
theorem mem_octet_complete (o e : List Char) (ho : IsOctet o) : e ∈ octetAst.ends (o ++ e) := by
  obtain ⟨hd, hshape⟩ := ho
  have hdig : ∀ c ∈ o, (CSet.mk false [.r '0' '9'] false).has c = true := fun c hc => (has_range _ _ _).2 (hd c hc)
  unfold octetAst
  simp only [seqs]
  rw [mem_alt_ends, mem_alt_ends]
  have skip1 : ∀ x, x ∈ (between 1 2 (cls [.r '0' '9'])).ends (o ++ e) →
      x ∈ (seq (opt (lit '1')) (between 1 2 (cls [.r '0' '9']))).ends (o ++ e) := by
    intro x hx
    rw [mem_seq_ends]
    exact ⟨o ++ e, by unfold lit; rw [mem_opt_set_ends]; exact Or.inl rfl, hx⟩
  rcases hshape with h1 | h2 | ⟨d1, d2, rfl⟩ | ⟨d1, d2, rfl, hp⟩
  · -- one digit
    match o, h1, hdig with
    | [c], _, hdig =>
      right; right
      apply skip1
      exact between12_one _ c e (hdig c (by simp))
  · match o, h2, hdig with
    | [c1, c2], _, hdig =>
      right; right
      apply skip1
      exact between12_two _ c1 c2 e (hdig c1 (by simp)) (hdig c2 (by simp))
  · right; right
    rw [mem_seq_ends]
    refine ⟨d1 :: d2 :: e, ?_, between12_two _ d1 d2 e (hdig d1 (by simp)) (hdig d2 (by simp))⟩
    unfold lit; rw [mem_opt_set_ends]
    exact Or.inr ⟨'1', rfl, by decide⟩
  · rcases hp with hp | ⟨rfl, hp⟩
    · right; left
      unfold lit cls
      rw [mem_seq_ends]
      refine ⟨d1 :: d2 :: e, (mem_set_ends _ _ _).2 ⟨'2', rfl, by decide⟩, ?_⟩
      rw [mem_seq_ends]
      refine ⟨d2 :: e, (mem_set_ends _ _ _).2 ⟨d1, rfl, ?_⟩, (mem_set_ends _ _ _).2 ⟨d2, rfl, hdig d2 (by simp)⟩⟩
      exact (has_range _ _ _).2 ⟨(hd d1 (by simp)).1, hp⟩
    · left
      unfold lit cls
      rw [mem_seq_ends]
      refine ⟨'5' :: d2 :: e, (mem_set_ends _ _ _).2 ⟨'2', rfl, by decide⟩, ?_⟩
      rw [mem_seq_ends]
      refine ⟨d2 :: e, (mem_set_ends _ _ _).2 ⟨'5', rfl, by decide⟩, (mem_set_ends _ _ _).2 ⟨d2, rfl, ?_⟩⟩
      exact (has_range _ _ _).2 ⟨(hd d2 (by simp)).1, hp⟩

/-- at the end of the text the preferred match of the octet sub-pattern is the whole octet:
    kernel evaluation over all digit strings of length ≤ 3 -/
theorem octet_head_enum : ∀ a ∈ digitChars, ∀ b ∈ digitChars, ∀ c ∈ digitChars,
    (octetAst.ends [a]).head? = some [] ∧ (octetAst.ends [a, b]).head? = some [] ∧
      ((a = '1' ∨ (a = '2' ∧ (b ≤ '4' ∨ (b = '5' ∧ c ≤ '5')))) → (octetAst.ends [a, b, c]).head? = some []) := by
  decide +kernel

theorem octet_head_last (o : List Char) (ho : IsOctet o) : (octetAst.ends o).head? = some [] := by
  obtain ⟨hd, hshape⟩ := ho
  have hm : ∀ c ∈ o, c ∈ digitChars := fun c hc => mem_digitChars c (hd c hc).1 (hd c hc).2
  have z : '0' ∈ digitChars := by decide
  rcases hshape with h1 | h2 | ⟨d1, d2, rfl⟩ | ⟨d1, d2, rfl, hp⟩
  · match o, h1, hm with
    | [c], _, hm => exact (octet_head_enum c (hm c (by simp)) '0' z '0' z).1
  · match o, h2, hm with
    | [c1, c2], _, hm => exact (octet_head_enum c1 (hm c1 (by simp)) c2 (hm c2 (by simp)) '0' z).2.1
  · exact (octet_head_enum '1' (by decide) d1 (hm d1 (by simp)) d2 (hm d2 (by simp))).2.2 (Or.inl rfl)
  · exact (octet_head_enum '2' (by decide) d1 (hm d1 (by simp)) d2 (hm d2 (by simp))).2.2 (Or.inr ⟨rfl, hp⟩)

theorem dotOctet_ends (s : List Char) :
    dotOctet.ends s = match s with
      | [] => []
      | c :: t => if c = '.' then octetAst.ends t else [] := by
  have : dotOctet.ends s = (seq (.set ⟨false, [.c '.'], false⟩) octetAst).ends s := by
    unfold dotOctet lit; simp [Re.ends]
  rw [this, ends_seq_set]
  cases s with
  | nil => rfl
  | cons c t =>
    simp only
    by_cases hc : c = '.'
    · rw [if_pos hc, if_pos ((has_lit _ _).2 hc)]
    · rw [if_neg hc, if_neg (fun h => hc ((has_lit _ _).1 h))]

/-- the preferred way through an octet that is followed by a dot, for a continuation that needs the dot -/
theorem octet_then_dot (o rest : List Char) (ho : IsOctet o) (k : List Char → List (List Char))
    (hk : ∀ c t, IsDigit c → k (c :: t) = []) :
    ((octetAst.ends (o ++ '.' :: rest)).flatMap k).head? = (k ('.' :: rest)).head? := by
  apply head?_flatMap_unique k ('.' :: rest) _ (mem_octet_complete o _ ho)
  intro e he
  obtain ⟨w, hw, hwo⟩ := mem_octet _ _ he
  have hnd : ¬ IsDigit '.' := by unfold IsDigit; decide
  rcases List.append_eq_append_iff.1 hw with ⟨a', h1, h2⟩ | ⟨c', h1, h2⟩
  · -- w = o ++ a', '.' :: rest = a' ++ e
    cases a' with
    | nil => left; simpa using h2.symm
    | cons x a'' =>
      simp at h2
      have : x = '.' := h2.1.symm
      subst this
      exact absurd (hwo.1 '.' (by rw [h1]; simp)) hnd
  · -- o = w ++ c', e = c' ++ '.' :: rest
    cases c' with
    | nil => left; simpa using h2
    | cons x c'' =>
      right
      rw [h2]
      exact hk x _ (ho.1 x (by rw [h1]; simp))

theorem dotOctet_noDigit : ∀ c t, IsDigit c → dotOctet.ends (c :: t) = [] := by
  intro c t h
  rw [dotOctet_ends]
  have : c ≠ '.' := by rintro rfl; revert h; unfold IsDigit; decide
  simp [this]

theorem ipv4_complete (s : List Char) (h : IsIpv4 s) : ipv4Ast.Accepts s := by
  obtain ⟨o1, o2, o3, o4, rfl, h1, h2, h3, h4⟩ := h
  unfold Re.Accepts
  have hdef : ipv4Ast = seq (grp 1 octetAst) (.rep dotOctet 3 (some 3) true) := rfl
  have e3 : ∀ x, (Re.rep dotOctet 3 (some 3) true).ends x =
      (dotOctet.ends x).flatMap (fun e => (Re.rep dotOctet 2 (some 2) true).ends e) :=
    fun x => ends_rep_exact_succ dotOctet true 2 x (dotOctet_progress x)
  have e2 : ∀ x, (Re.rep dotOctet 2 (some 2) true).ends x =
      (dotOctet.ends x).flatMap (fun e => (Re.rep dotOctet 1 (some 1) true).ends e) :=
    fun x => ends_rep_exact_succ dotOctet true 1 x (dotOctet_progress x)
  have e1 : ∀ x, (Re.rep dotOctet 1 (some 1) true).ends x =
      (dotOctet.ends x).flatMap (fun e => (Re.rep dotOctet 0 (some 0) true).ends e) :=
    fun x => ends_rep_exact_succ dotOctet true 0 x (dotOctet_progress x)
  have k3 : ∀ c t, IsDigit c → (Re.rep dotOctet 3 (some 3) true).ends (c :: t) = [] := by
    intro c t hc; rw [e3, dotOctet_noDigit c t hc]; rfl
  have k2 : ∀ c t, IsDigit c → (Re.rep dotOctet 2 (some 2) true).ends (c :: t) = [] := by
    intro c t hc; rw [e2, dotOctet_noDigit c t hc]; rfl
  have k1 : ∀ c t, IsDigit c → (Re.rep dotOctet 1 (some 1) true).ends (c :: t) = [] := by
    intro c t hc; rw [e1, dotOctet_noDigit c t hc]; rfl
  have hg : ∀ x, (grp 1 octetAst).ends x = octetAst.ends x := fun x => by simp [Re.ends]
  rw [hdef]
  show (((grp 1 octetAst).ends _).flatMap (fun e => (Re.rep dotOctet 3 (some 3) true).ends e)).head? = _
  rw [hg, octet_then_dot o1 _ h1 _ k3]
  rw [e3, dotOctet_ends]
  simp only [if_true]
  rw [octet_then_dot o2 _ h2 _ k2]
  rw [e2, dotOctet_ends]
  simp only [if_true]
  rw [octet_then_dot o3 _ h3 _ k1]
  rw [e1, dotOctet_ends]
  simp only [if_true]
  have : (fun e => (Re.rep dotOctet 0 (some 0) true).ends e) = fun e => [e] := by
    funext e; exact ends_rep_exact_zero _ _ _
  rw [this, flatMap_singleton']
  exact octet_head_last o4 h4

/-- documented syntax (with the pattern's leading-zero policy) — full strength, both directions -/
theorem ipv4_language (s : List Char) : ipv4Ast.Accepts s ↔ IsIpv4 s :=
  ⟨ipv4_language_partial s, ipv4_complete s⟩

example : IsIpv4 "25.1.1.1".toList := (ipv4_language _).1 (by decide +kernel)
example : ipv4Ast.Accepts "255.255.255.255".toList := by decide +kernel
example : ¬ IsIpv4 "256.1.1.1".toList := fun h => absurd ((ipv4_language _).2 h) (by decide +kernel)
example : ¬ IsIpv4 "1.2.3.45x".toList := fun h => absurd ((ipv4_language _).2 h) (by decide +kernel)
example : ¬ IsIpv4 "1.2.3".toList := fun h => absurd ((ipv4_language _).2 h) (by decide +kernel)
/-- the hypothesis of the `←` direction is satisfiable directly (not through the theorem) -/
example : IsIpv4 "192.168.0.25".toList :=
  ⟨"192".toList, "168".toList, "0".toList, "25".toList, by decide,
    ⟨by decide, Or.inr (Or.inr (Or.inl ⟨'9', '2', rfl⟩))⟩, ⟨by decide, Or.inr (Or.inr (Or.inl ⟨'6', '8', rfl⟩))⟩,
    ⟨by decide, Or.inl rfl⟩, ⟨by decide, Or.inr (Or.inl rfl)⟩⟩
example : ipv4Ast.Accepts "192.168.0.25".toList := (ipv4_language _).2
  ⟨"192".toList, "168".toList, "0".toList, "25".toList, by decide,
    ⟨by decide, Or.inr (Or.inr (Or.inl ⟨'9', '2', rfl⟩))⟩, ⟨by decide, Or.inr (Or.inr (Or.inl ⟨'6', '8', rfl⟩))⟩,
    ⟨by decide, Or.inl rfl⟩, ⟨by decide, Or.inr (Or.inl rfl)⟩⟩

/-! ## ieee_float  (`(?i:[+-]?(?:(?:\d+\.?\d*(?:e[+-]?\d+)?)|nan|inf(?:inity)?))`)

The numeric alternative is `fnumber`'s body up to the spelling of the character sets (`Sim`), so
`fnumber_body_language` is reused; `nan` / `inf` / `infinity` are case-insensitive words.  Case folding is the
model's (`lowerC`: ASCII only — CPython's extra IGNORECASE equivalences such as U+0131 for `i` are not modelled). -/

def ieeeNum : Re :=
  seq (plus digit) (seq (opt (liti '.')) (seq (star digit) (opt (seq (liti 'e') (seq signOptI (plus digit))))))
def ieeeNan : Re := ciWordThen ['n', 'a'] (liti 'n')
def ieeeInity : Re := ciWordThen ['i', 'n', 'i', 't'] (liti 'y')
def ieeeInf : Re := ciWordThen ['i', 'n', 'f'] (opt ieeeInity)
def ieeeBody : Re := alt fnumberBody (alt ieeeNan ieeeInf)

theorem ieeeFloatAst_eq : ieeeFloatAst = seq signOptI (alt ieeeNum (alt ieeeNan ieeeInf)) := rfl

theorem ieeeNum_sim : Sim ieeeNum fnumberBody := by
  unfold ieeeNum fnumberBody expoPart signOpt signOptI opt liti lit cls
  exact .seq (.refl _) (.seq (.rep _ _ _ (.set _ _ has_ci_dot)) (.seq (.refl _)
    (.rep _ _ _ (.seq (.set _ _ has_ci_e) (.seq (.rep _ _ _ (.set _ _ has_ci_sign)) (.refl _))))))

theorem ieee_sim : Sim ieeeFloatAst (seq signOpt ieeeBody) := by
  rw [ieeeFloatAst_eq]
  unfold ieeeBody
  refine .seq ?_ (.alt ieeeNum_sim (.refl _))
  unfold signOptI signOpt opt cls
  exact .rep _ _ _ (.set _ _ has_ci_sign)

theorem ends_ciWord (w : List Char) (a : Char) (hw : ∀ x ∈ w, x ∈ ciLetters) (ha : a ∈ ciLetters) (s : List Char) :
    (ciWordThen w (liti a)).ends s = (stripCI (w ++ [a]) s).toList := by
  unfold liti
  rw [ends_ciWordThen _ w hw, stripCI_append]
  cases stripCI w s <;> simp [ends_ci_letter a ha]

theorem nan_ends (s : List Char) : ieeeNan.ends s = (stripCI ['n', 'a', 'n'] s).toList :=
  ends_ciWord ['n', 'a'] 'n' (by decide) (by decide) s

theorem inity_ends (s : List Char) : ieeeInity.ends s = (stripCI ['i', 'n', 'i', 't', 'y'] s).toList :=
  ends_ciWord ['i', 'n', 'i', 't'] 'y' (by decide) (by decide) s

theorem inf_ends (s : List Char) :
    ieeeInf.ends s = match stripCI ['i', 'n', 'f'] s with
      | none => []
      | some e => (stripCI ['i', 'n', 'i', 't', 'y'] e).toList ++ [e] := by
  unfold ieeeInf
  rw [ends_ciWordThen _ _ (by decide)]
  cases stripCI ['i', 'n', 'f'] s with
  | none => rfl
  | some e =>
    simp only
    rw [ends_opt_progress ieeeInity e, inity_ends]
    intro e' he'
    rw [inity_ends] at he'
    have : stripCI ['i', 'n', 'i', 't', 'y'] e = some e' := by
      cases h : stripCI ['i', 'n', 'i', 't', 'y'] e with
      | none => rw [h] at he'; simp at he'
      | some z => rw [h] at he'; simp at he'; rw [he']
    have := stripCI_length _ _ _ this
    simp at this; omega

theorem fnumber_noStart (c : Char) (t : List Char) (h : dset.has c = false) : fnumberBody.ends (c :: t) = [] := by
  unfold fnumberBody plus digit
  simp only [Re.ends]
  have h0 : repEnds (fun x => Re.ends (.set dset) x) true ((c :: t).length + 1) 1 none (c :: t) = [] := by
    rw [repEnds_set dset.has _ (by simp [Re.ends]) (by intro c t; simp [Re.ends]) _ _ _ _ (by omega)]
    simp [repSet, h]
  simp only [Re.ends] at h0
  rw [h0]; rfl

theorem lowerC_digit (c : Char) (h : IsDigit c) : lowerC c = c := by
  unfold lowerC
  rw [if_neg]
  rintro ⟨a, _⟩
  have := char_le_toNat a
  have := char_le_toNat h.2
  simp at *
  omega

theorem notDigit_of_lower (c a : Char) (h : lowerC c = a) (ha : dset.has a = false) : dset.has c = false := by
  cases hh : dset.has c with
  | false => rfl
  | true =>
    have := lowerC_digit c ((has_digit c).1 hh)
    rw [this] at h; subst h; rw [hh] at ha; exact absurd ha (by simp)

/-- the unsigned part: an `fnumber` body, or one of the words nan / inf / infinity in any letter case -/
def IsIeeeBody (x : List Char) : Prop :=
  IsUFnumber x ∨ x.map lowerC = ['n', 'a', 'n'] ∨ x.map lowerC = ['i', 'n', 'f'] ∨
    x.map lowerC = ['i', 'n', 'f', 'i', 'n', 'i', 't', 'y']

/-- documented syntax: optional sign, then a number (digits, optional `.` digits*, optional exponent with `e`/`E`)
    or nan / inf / infinity case-insensitively -/
def IsIeeeFloat (s : List Char) : Prop :=
  ∃ sg x, s = sg ++ x ∧ (sg = [] ∨ ∃ c, IsSign c ∧ sg = [c]) ∧ IsIeeeBody x

theorem ends_alt (a b : Re) (s : List Char) : (alt a b).ends s = a.ends s ++ b.ends s := by simp only [Re.ends]

theorem map_lower_cons (x : List Char) (a : Char) (w : List Char) (h : x.map lowerC = a :: w) :
    ∃ c t, x = c :: t ∧ lowerC c = a ∧ t.map lowerC = w := by
  cases x with
  | nil => simp at h
  | cons c t => simp at h; exact ⟨c, t, rfl, h.1, h.2⟩

theorem ieee_body_language (x : List Char) : ieeeBody.Accepts x ↔ IsIeeeBody x := by
  unfold ieeeBody Re.Accepts
  rw [ends_alt, ends_alt, nan_ends, inf_ends]
  constructor
  · intro h
    rw [List.head?_append] at h
    cases hA : (fnumberBody.ends x).head? with
    | some e =>
      rw [hA] at h; simp at h; subst h
      exact Or.inl ((fnumber_body_language x).1 hA)
    | none =>
      rw [hA] at h
      simp only [Option.none_or] at h
      cases hN : stripCI ['n', 'a', 'n'] x with
      | some e =>
        rw [hN] at h; simp at h; subst h
        obtain ⟨p, hp, hl⟩ := (stripCI_some _ _ _).1 hN
        right; left; rw [hp]; simpa using hl
      | none =>
        rw [hN] at h
        simp only [Option.toList_none, List.nil_append] at h
        cases hI : stripCI ['i', 'n', 'f'] x with
        | none => rw [hI] at h; simp at h
        | some e =>
          rw [hI] at h
          simp only at h
          obtain ⟨p, hp, hl⟩ := (stripCI_some _ _ _).1 hI
          cases hY : stripCI ['i', 'n', 'i', 't', 'y'] e with
          | some e' =>
            rw [hY] at h; simp at h; subst h
            obtain ⟨p', hp', hl'⟩ := (stripCI_some _ _ _).1 hY
            right; right; right
            rw [hp, hp']; simp [hl, hl']
          | none =>
            rw [hY] at h; simp at h; subst h
            right; right; left
            rw [hp]; simpa using hl
  · have hn : dset.has 'n' = false := by decide
    have hi : dset.has 'i' = false := by decide
    rintro (h | h | h | h)
    · have := (fnumber_body_language x).2 h
      unfold Re.Accepts at this
      rw [List.head?_append, this]; rfl
    · obtain ⟨c1, t1, rfl, h1, h⟩ := map_lower_cons _ _ _ h
      obtain ⟨c2, t2, rfl, h2, h⟩ := map_lower_cons _ _ _ h
      obtain ⟨c3, t3, rfl, h3, h⟩ := map_lower_cons _ _ _ h
      have : t3 = [] := by simpa using h
      subst this
      rw [fnumber_noStart c1 _ (notDigit_of_lower c1 _ h1 hn)]
      simp [stripCI, h1, h2, h3]
    · obtain ⟨c1, t1, rfl, h1, h⟩ := map_lower_cons _ _ _ h
      obtain ⟨c2, t2, rfl, h2, h⟩ := map_lower_cons _ _ _ h
      obtain ⟨c3, t3, rfl, h3, h⟩ := map_lower_cons _ _ _ h
      have : t3 = [] := by simpa using h
      subst this
      rw [fnumber_noStart c1 _ (notDigit_of_lower c1 _ h1 hi)]
      simp [stripCI, h1, h2, h3]
    · obtain ⟨c1, t1, rfl, h1, h⟩ := map_lower_cons _ _ _ h
      obtain ⟨c2, t2, rfl, h2, h⟩ := map_lower_cons _ _ _ h
      obtain ⟨c3, t3, rfl, h3, h⟩ := map_lower_cons _ _ _ h
      obtain ⟨c4, t4, rfl, h4, h⟩ := map_lower_cons _ _ _ h
      obtain ⟨c5, t5, rfl, h5, h⟩ := map_lower_cons _ _ _ h
      obtain ⟨c6, t6, rfl, h6, h⟩ := map_lower_cons _ _ _ h
      obtain ⟨c7, t7, rfl, h7, h⟩ := map_lower_cons _ _ _ h
      obtain ⟨c8, t8, rfl, h8, h⟩ := map_lower_cons _ _ _ h
      have : t8 = [] := by simpa using h
      subst this
      rw [fnumber_noStart c1 _ (notDigit_of_lower c1 _ h1 hi)]
      simp [stripCI, h1, h2, h3, h4, h5, h6, h7, h8]

theorem ieee_noSign : ∀ c t, IsSign c → ieeeBody.ends (c :: t) = [] := by
  intro c t h
  unfold ieeeBody
  rw [ends_alt, ends_alt, nan_ends, inf_ends, fnumber_noSign c t h]
  have a1 : lowerC '+' ≠ 'n' := by decide
  have a2 : lowerC '+' ≠ 'i' := by decide
  have a3 : lowerC '-' ≠ 'n' := by decide
  have a4 : lowerC '-' ≠ 'i' := by decide
  rcases h with rfl | rfl <;> simp [stripCI, a1, a2, a3, a4]

theorem ieee_float_language (s : List Char) : ieeeFloatAst.Accepts s ↔ IsIeeeFloat s := by
  rw [ieee_sim.accepts_iff, accepts_signOpt _ ieee_noSign]
  unfold IsIeeeFloat
  simp only [ieee_body_language]

example : ieeeFloatAst.Accepts "-12.5E+3".toList := by decide +kernel
example : ieeeFloatAst.Accepts "NaN".toList := by decide +kernel
example : IsIeeeFloat "-iNfInItY".toList := (ieee_float_language _).1 (by decide +kernel)
example : IsIeeeFloat "+inf".toList := ⟨['+'], ['i', 'n', 'f'], by decide, Or.inr ⟨'+', Or.inl rfl, rfl⟩, Or.inr (Or.inr (Or.inl (by decide)))⟩
example : ¬ IsIeeeFloat "infinit".toList := fun h => absurd ((ieee_float_language _).2 h) (by decide +kernel)
example : ¬ IsIeeeFloat "nan1".toList := fun h => absurd ((ieee_float_language _).2 h) (by decide +kernel)
example : ¬ IsIeeeFloat ".5".toList := fun h => absurd ((ieee_float_language _).2 h) (by decide +kernel)
example : ¬ IsIeeeFloat "1e".toList := fun h => absurd ((ieee_float_language _).2 h) (by decide +kernel)

end PP.C18
