import PPProofs.Props.C18
/-!
# C18 (continued) — language theorems for `identifier` and `ipv4_address`

Same style as `Props/C18.lean`: `ast.Accepts s ↔ <documented syntax> s` for **all** strings `s`, where `Accepts` is
about the *preferred* match of `re.match` consuming the whole string.  The ASTs are the ones pinned to the live
patterns by `identifier_pattern_ast` / `ipv4_address_pattern_ast`.
-/
namespace PP.C18
open PP.Regex PP.Regex.Re

/-! ## identifier  (`Word(identchars, identbodychars)`; reString `[A-Z_a-zªµºÀ-ÖØ-öø-ÿ][0-9A-Z_a-zªµ·ºÀ-ÖØ-öø-ÿ]*`) -/

/-- the pattern's initial class: ASCII letters, `_`, and the Latin-1 letters
    (U+00AA, U+00B5, U+00BA, U+00C0–U+00D6, U+00D8–U+00F6, U+00F8–U+00FF) -/
def IsIdentStart (c : Char) : Prop :=
  ('A' ≤ c ∧ c ≤ 'Z') ∨ c = '_' ∨ ('a' ≤ c ∧ c ≤ 'z') ∨ c = 'ª' ∨ c = 'µ' ∨ c = 'º' ∨
    ('À' ≤ c ∧ c ≤ 'Ö') ∨ ('Ø' ≤ c ∧ c ≤ 'ö') ∨ ('ø' ≤ c ∧ c ≤ 'ÿ')

/-- the pattern's body class: the initial class plus the decimal digits and U+00B7 (middle dot) -/
def IsIdentBody (c : Char) : Prop := IsIdentStart c ∨ IsDigit c ∨ c = '·'

instance (c : Char) : Decidable (IsIdentStart c) := by unfold IsIdentStart; infer_instance
instance (c : Char) : Decidable (IsIdentBody c) := by unfold IsIdentBody; infer_instance

abbrev identStartSet : CSet :=
  ⟨false, [.r 'A' 'Z', .c '_', .r 'a' 'z', .c 'ª', .c 'µ', .c 'º', .r 'À' 'Ö', .r 'Ø' 'ö', .r 'ø' 'ÿ'], false⟩
abbrev identBodySet : CSet :=
  ⟨false, [.r '0' '9', .r 'A' 'Z', .c '_', .r 'a' 'z', .c 'ª', .c 'µ', .c '·', .c 'º', .r 'À' 'Ö', .r 'Ø' 'ö',
    .r 'ø' 'ÿ'], false⟩

theorem has_identStart (c : Char) : identStartSet.has c = true ↔ IsIdentStart c := by
  simp only [CSet.has, Item.has, IsIdentStart]
  simp

theorem has_identBody (c : Char) : identBodySet.has c = true ↔ IsIdentBody c := by
  simp only [CSet.has, Item.has, IsIdentBody, IsIdentStart, IsDigit]
  simp
  grind

/-- documented syntax: one character of the initial class followed by any number of body-class characters -/
def IsIdentifier (s : List Char) : Prop := ∃ c t, s = c :: t ∧ IsIdentStart c ∧ ∀ x ∈ t, IsIdentBody x

theorem identifier_language (s : List Char) : identifierAst.Accepts s ↔ IsIdentifier s := by
  have hdef : identifierAst = seq (.set identStartSet) (.rep (.set identBodySet) 0 none true) := rfl
  rw [hdef]
  unfold Re.Accepts
  rw [ends_seq_set]
  cases s with
  | nil => simp [IsIdentifier]
  | cons c t =>
    simp only
    by_cases hc : identStartSet.has c = true
    · rw [if_pos hc]
      have := accepts_rep_set identBodySet 0 t
      unfold Re.Accepts at this
      rw [this]
      simp only [has_identBody, Nat.zero_le, true_and]
      constructor
      · intro h; exact ⟨c, t, rfl, (has_identStart c).1 hc, h⟩
      · rintro ⟨c', t', h, _, hb⟩
        obtain ⟨rfl, rfl⟩ := List.cons.inj h
        exact hb
    · rw [if_neg hc]
      simp only [List.head?_nil, reduceCtorEq, false_iff]
      rintro ⟨c', t', h, hs, _⟩
      obtain ⟨rfl, rfl⟩ := List.cons.inj h
      exact hc ((has_identStart c).2 hs)

example : identifierAst.Accepts "_fooBar9·é".toList := by decide +kernel
example : IsIdentifier "_fooBar9·é".toList := (identifier_language _).1 (by decide +kernel)
example : ¬ identifierAst.Accepts "9lives".toList := by decide +kernel
example : ¬ IsIdentifier "9lives".toList := fun h => absurd ((identifier_language _).2 h) (by decide +kernel)
example : ¬ identifierAst.Accepts "a-b".toList := by decide +kernel
example : ¬ identifierAst.Accepts "a×b".toList := by decide +kernel
example : ¬ identifierAst.Accepts "".toList := by decide +kernel

end PP.C18
