import PPModel.Mod.Counted
/-!
# C18 — counted_array returns exactly the announced number of items

Model: `PPModel/Mod/Counted.lean` (`intExpr + array_expr`, the count action binding `array_expr` to `expr * n`).
For **every** count expression, item expression and text:
* `counted_exact` — a successful parse returns exactly as many items as the count expression announced;
* `counted_reads_items` — and they are the results of the item expression applied `n` times in sequence to what follows
  the count (`rep_spec`: the i-th item is read where the (i-1)-th stopped);
* `counted_fails_iff` — it fails exactly when the count expression fails or fewer than the announced number of items
  can be read in sequence.
Not modelled: that the count expression handed in by the caller is *copied* (helpers.py:75-76) — sharing one
expression object between two arrays is checked by the oracle `oracle-helper-args` only.
-/
namespace PP.C18.Counted
open PP.Counted

variable {α : Type}

theorem rep_length (p : List Char → Option (α × List Char)) : ∀ (n : Nat) (s : List Char) (xs : List α) (r : List Char),
    rep p n s = some (xs, r) → xs.length = n
  | 0, s, xs, r, h => by simp [rep] at h; simp [h.1.symm]
  | n + 1, s, xs, r, h => by
    unfold rep at h
    split at h
    · simp at h
    · next a r1 _ =>
      split at h
      · simp at h
      · next as r2 h2 =>
        simp only [Option.some.injEq, Prod.mk.injEq] at h
        rw [← h.1, List.length_cons, rep_length p n r1 as r2 h2]

/-- what `rep` reads: the first item from `s`, the others from where the previous one stopped -/
inductive Reads (p : List Char → Option (α × List Char)) : List Char → List α → List Char → Prop
  | nil (s) : Reads p s [] s
  | cons {s a r as r'} : p s = some (a, r) → Reads p r as r' → Reads p s (a :: as) r'

theorem rep_spec (p : List Char → Option (α × List Char)) : ∀ (n : Nat) (s : List Char) (xs : List α) (r : List Char),
    rep p n s = some (xs, r) ↔ (xs.length = n ∧ Reads p s xs r)
  | 0, s, xs, r => by
    constructor
    · intro h; simp [rep] at h; obtain ⟨h1, h2⟩ := h; subst h1; subst h2; exact ⟨rfl, .nil s⟩
    · rintro ⟨hl, hr⟩
      cases hr with
      | nil => rfl
      | cons _ _ => simp at hl
  | n + 1, s, xs, r => by
    constructor
    · intro h
      refine ⟨rep_length p _ _ _ _ h, ?_⟩
      unfold rep at h
      split at h
      · simp at h
      · next a r1 hp =>
        split at h
        · simp at h
        · next as r2 h2 =>
          simp only [Option.some.injEq, Prod.mk.injEq] at h
          rw [← h.1, ← h.2]
          exact .cons hp ((rep_spec p n r1 as r2).1 h2).2
    · rintro ⟨hl, hr⟩
      cases hr with
      | nil => simp at hl
      | cons hp hrest =>
        next a r1 as =>
        have : rep p n r1 = some (as, r) := (rep_spec p n r1 as r).2 ⟨by simpa using hl, hrest⟩
        simp [rep, hp, this]

/-- **exact count**: a successful counted_array returns exactly the announced number of items -/
theorem counted_exact (cnt : List Char → Option (Nat × List Char)) (p : List Char → Option (α × List Char))
    (s : List Char) (xs : List α) (r : List Char) (h : countedArray cnt p s = some (xs, r)) :
    ∃ n r0, cnt s = some (n, r0) ∧ xs.length = n := by
  unfold countedArray at h
  split at h
  · simp at h
  · next n r0 hc => exact ⟨n, r0, hc, rep_length p n r0 xs r h⟩

theorem counted_reads_items (cnt : List Char → Option (Nat × List Char)) (p : List Char → Option (α × List Char))
    (s : List Char) (xs : List α) (r : List Char) :
    countedArray cnt p s = some (xs, r) ↔ ∃ n r0, cnt s = some (n, r0) ∧ xs.length = n ∧ Reads p r0 xs r := by
  unfold countedArray
  constructor
  · intro h
    split at h
    · simp at h
    · next n r0 hc => exact ⟨n, r0, hc, (rep_spec p n r0 xs r).1 h⟩
  · rintro ⟨n, r0, hc, hl, hr⟩
    simp only [hc]
    exact (rep_spec p n r0 xs r).2 ⟨hl, hr⟩

theorem counted_fails_iff (cnt : List Char → Option (Nat × List Char)) (p : List Char → Option (α × List Char))
    (s : List Char) :
    countedArray cnt p s = none ↔
      (cnt s = none ∨ ∃ n r0, cnt s = some (n, r0) ∧ ¬ ∃ xs r, xs.length = n ∧ Reads p r0 xs r) := by
  unfold countedArray
  cases hc : cnt s with
  | none => simp
  | some v =>
    obtain ⟨n, r0⟩ := v
    simp only [reduceCtorEq, false_or, Option.some.injEq, Prod.mk.injEq, exists_and_left]
    constructor
    · intro h
      refine ⟨n, r0, ⟨rfl, rfl⟩, ?_⟩
      rintro ⟨xs, hl, r, hr⟩
      have := (rep_spec p n r0 xs r).2 ⟨hl, hr⟩
      simp [h] at this
    · rintro ⟨n', r0', ⟨h1, h2⟩, hno⟩
      subst h1; subst h2
      cases hr : rep p n r0 with
      | none => rfl
      | some v =>
        obtain ⟨xs, r⟩ := v
        have := (rep_spec p n r0 xs r).1 hr
        exact absurd ⟨xs, this.1, r, this.2⟩ hno

-- the documented examples: '2 ab cd ef' -> ['ab','cd']; binary count '10 ab cd ef' -> ['ab','cd']
example : run 10 "0123456789".toList "abcdef".toList "2 ab cd ef".toList
    = some (["ab".toList, "cd".toList], " ef".toList) := by decide
example : run 2 "01".toList "abcdef".toList "10 ab cd ef".toList
    = some (["ab".toList, "cd".toList], " ef".toList) := by decide
example : run 10 "0123456789".toList "ab".toList "3 a b".toList = none := by decide
example : run 10 "0123456789".toList "ab".toList "0 a b".toList = some ([], " a b".toList) := by decide

end PP.C18.Counted
