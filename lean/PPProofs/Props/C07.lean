import PPProofs.Lemmas.ParseMono
import PPProofs.Lemmas.ParseFwd
/-!
# C07 — error stops and fatal exceptions are never backtracked over

Model: `PPModel/Mod/Parse.lean` (transcription of And/MatchFirst/Or/Opt/_MultipleMatch/ZeroOrMore/
ParseElementEnhance/FollowedBy/NotAny `parseImpl`, `try_parse`, `can_parse_next`).  Exception classes:
`Exc.parse` (ParseException), `Exc.fatal` (ParseFatalException), `Exc.syntax` (ParseSyntaxException ⊑ fatal).

Every theorem quantifies over **all** closures `p` (= behaviour of the sub-expressions), all inputs, locations and
list shapes; none is restricted to a sample.
-/
namespace PP.Parse

/-! ### error stop -/

/-- Once the `-` has been passed (`stop = true`), *any* failure of the rest of the sequence is a
    `ParseSyntaxException` — whatever class the failing element raised. -/
theorem errorstop_any_failure_is_syntax (p : P) (isStop : Nat → Bool) (acts : Bool) (slen : Nat) :
    ∀ es loc acc c l, andRest p isStop acts slen es true loc acc = .fail c l → c = .syntax := by
  intro es
  induction es with
  | nil => intro loc acc c l h; simp [andRest] at h
  | cons e es ih =>
    intro loc acc c l h
    unfold andRest at h
    split at h
    · exact ih _ _ _ _ h
    · cases hp : p e loc acts true with
      | ok l' ts => rw [hp] at h; exact ih _ _ _ _ h
      | fail c' l' => rw [hp] at h; simp at h; exact h.1.symm
      | idx => rw [hp] at h; simp at h; exact h.1.symm
      | hang => rw [hp] at h; simp at h

/-- … and it is raised at the location where the failing element failed. -/
theorem errorstop_raises_at_failing_loc (p : P) (isStop : Nat → Bool) (acts : Bool) (slen : Nat)
    (e : Nat) (es : List Nat) (loc : Nat) (acc : List Tok) (c : Exc) (l : Nat)
    (he : isStop e = false) (hf : p e loc acts true = .fail c l) :
    andRest p isStop acts slen (e :: es) true loc acc = .fail .syntax l := by
  simp [andRest, he, hf]

/-- passing an error stop switches the flag on, and it stays on for the rest of the sequence -/
theorem errorstop_switches_on (p : P) (isStop : Nat → Bool) (acts : Bool) (slen : Nat)
    (e : Nat) (es : List Nat) (stop : Bool) (loc : Nat) (acc : List Tok) (he : isStop e = true) :
    andRest p isStop acts slen (e :: es) stop loc acc = andRest p isStop acts slen es true loc acc := by
  simp [andRest, he]

/-- before the stop, a failing element's exception leaves the sequence unchanged (class and location) -/
theorem and_failure_passes_through (p : P) (isStop : Nat → Bool) (acts : Bool) (slen : Nat)
    (e : Nat) (es : List Nat) (loc : Nat) (acc : List Tok) (c : Exc) (l : Nat)
    (he : isStop e = false) (hf : p e loc acts true = .fail c l) :
    andRest p isStop acts slen (e :: es) false loc acc = .fail c l := by
  simp [andRest, he, hf]

/-! ### fatal exceptions are not swallowed -/

/-- MatchFirst: the first alternative that does anything other than fail softly decides — in particular a fatal
    exception from alternative `e` is re-raised at once, and no later alternative is tried. -/
theorem matchfirst_never_swallows_fatal (p : P) (acts : Bool) (slen loc : Nat) :
    ∀ (pre : List Nat) (e : Nat) (post : List Nat) (mx : Option Nat) (c : Exc) (l : Nat),
      (∀ x ∈ pre, (p x loc acts true).soft = true) → p e loc acts true = .fail c l → c.isFatal = true →
      mfGo p acts slen loc (pre ++ e :: post) mx = .fail c l := by
  intro pre
  induction pre with
  | nil =>
    intro e post mx c l _ hf hc
    cases c <;> simp [Exc.isFatal] at hc <;> simp [mfGo, hf]
  | cons x pre ih =>
    intro e post mx c l hpre hf hc
    have hx := hpre x List.mem_cons_self
    have hrest : ∀ y ∈ pre, (p y loc acts true).soft = true := fun y hy => hpre y (List.mem_cons_of_mem _ hy)
    simp only [List.cons_append, mfGo]
    cases hpx : p x loc acts true with
    | ok l' ts => rw [hpx] at hx; simp [Out.soft] at hx
    | hang => rw [hpx] at hx; simp [Out.soft] at hx
    | idx => simp only; exact ih _ _ _ _ _ hrest hf hc
    | fail c' l' =>
      cases c' with
      | parse => simp only; exact ih _ _ _ _ _ hrest hf hc
      | fatal => rw [hpx] at hx; simp [Out.soft] at hx
      | «syntax» => rw [hpx] at hx; simp [Out.soft] at hx

/-- Opt passes every fatal exception of its body through (only `ParseException`/`IndexError` give the default) -/
theorem opt_never_swallows_fatal (g : Grammar) (p : P) (nd : Node) (s : List Char) (loc : Nat) (acts : Bool)
    (e : Nat) (d : Option (List Char)) (c : Exc) (l : Nat) (hk : nd.kind = .opt e d)
    (hf : p e loc acts false = .fail c l) (hc : c.isFatal = true) :
    parseImpl g p nd s loc acts = .fail c l := by
  unfold parseImpl
  cases c <;> simp [Exc.isFatal] at hc <;> simp [hk, hf]

/-- the repetition loop ends quietly only on a soft failure of the body: a fatal exception in any iteration
    aborts the repetition with that exception -/
theorem repetition_never_swallows_fatal (p : P) (nd : Node) (acts : Bool) (slen e : Nat) (ne : Option Nat)
    (k loc preloc : Nat) (acc : List Tok) (c : Exc) (l : Nat)
    (hs : stopCheck p ne loc = some false) (hpre : manyPre p nd slen loc = .at preloc)
    (hf : p e preloc acts true = .fail c l) (hc : c.isFatal = true) :
    manyLoop p nd acts slen e ne (k + 1) loc acc = .fail c l := by
  cases c <;> simp [Exc.isFatal] at hc <;> simp [manyLoop, hs, hpre, hf]

/-- … including in its first, mandatory iteration -/
theorem repetition_first_never_swallows_fatal (p : P) (nd : Node) (acts : Bool) (slen e : Nat)
    (loc : Nat) (c : Exc) (l : Nat) (hf : p e loc acts true = .fail c l) :
    manyImpl p nd acts slen e none loc = .fail c l := by
  simp [manyImpl, hf]

/-- ZeroOrMore turns only soft failures of the repetition into the empty match -/
theorem zeroOrMore_never_swallows_fatal (g : Grammar) (p : P) (nd : Node) (s : List Char) (loc : Nat)
    (acts : Bool) (e : Nat) (ne : Option Nat) (c : Exc) (l : Nat) (hk : nd.kind = .many e ne false)
    (hf : manyImpl p nd acts s.length e ne loc = .fail c l) (hc : c.isFatal = true) :
    parseImpl g p nd s loc acts = .fail c l := by
  unfold parseImpl
  cases c <;> simp [Exc.isFatal] at hc <;> simp [hk, hf]

/-- Group / Suppress / Combine / Forward / DelimitedList and every other ParseElementEnhance: a fatal exception of
    the contained expression leaves with its class unchanged (and its location, except that
    `pbe.loc = pbe.loc or loc` replaces a location 0 of a non-syntax exception by the current one) -/
theorem enhance_never_swallows_fatal (p : P) (acts : Bool) (e loc : Nat) (c : Exc) (l : Nat)
    (hf : p e loc acts false = .fail c l) :
    ∃ l', enhanceImpl p acts (some e) loc = .fail c l' ∧ (c = .syntax ∨ l ≠ 0 → l' = l) := by
  unfold enhanceImpl
  cases c with
  | «syntax» => exact ⟨l, by simp [hf], fun _ => rfl⟩
  | parse =>
    refine ⟨if l == 0 then loc else l, by simp [hf], ?_⟩
    intro h; rcases h with h | h
    · cases h
    · simp [h]
  | fatal =>
    refine ⟨if l == 0 then loc else l, by simp [hf], ?_⟩
    intro h; rcases h with h | h
    · cases h
    · simp [h]

/-- FollowedBy passes every failure of its expression through -/
theorem followedBy_never_swallows (g : Grammar) (p : P) (nd : Node) (s : List Char) (loc : Nat) (acts : Bool)
    (e : Nat) (c : Exc) (l : Nat) (hk : nd.kind = .followedBy e) (hf : p e loc acts true = .fail c l) :
    parseImpl g p nd s loc acts = .fail c l := by
  unfold parseImpl
  simp [hk, hf]

/-- `_parseNoCache` never turns a failure of `parseImpl` into a success: no post-processing, no action runs -/
theorem parseStep_failure_passes (g : Grammar) (s : List Char) (p : P) (id loc : Nat) (a cp : Bool) (nd : Node)
    (pre : Nat) (c : Exc) (l : Nat) (hg : g[id]? = some nd)
    (hpre : (if cp && nd.callPre then preParse p nd s loc else PreR.at loc) = .at pre)
    (hf : parseImpl g p nd s pre a = .fail c l) :
    parseStep g s p id loc a cp = .fail c l := by
  unfold parseStep
  simp only [hg, hpre, hf]

/-! ### the two places where a fatal exception *is* a non-match -/

/-- `try_parse` (used by every lookahead) converts a fatal exception into a plain ParseException at the
    location it was asked to parse at -/
theorem tryParse_converts_fatal (p : P) (e loc : Nat) (da : Bool) (c : Exc) (l : Nat)
    (hf : p e loc da true = .fail c l) (hc : c.isFatal = true) :
    tryParse p e loc false da = .fail .parse loc := by
  simp [tryParse, hf, hc]

/-- negative lookahead: a fatal exception inside `~expr` counts as "expr does not match", so NotAny succeeds -/
theorem notany_treats_fatal_as_nonmatch (g : Grammar) (p : P) (nd : Node) (s : List Char) (loc : Nat)
    (acts : Bool) (e : Nat) (c : Exc) (l : Nat) (hk : nd.kind = .notAny e)
    (hf : p e loc acts true = .fail c l) :
    parseImpl g p nd s loc acts = .ok loc [] := by
  unfold parseImpl
  have : canParseNext p e loc acts = some false := by
    unfold canParseNext tryParse
    rw [hf]
    cases hc : c.isFatal <;> simp [hc]
  simp [hk, this]

/-! ### Or: a fatal exception of one alternative is raised only when no alternative matched -/

/-- if some alternative matched in the trial pass and actions are off, Or returns the re-parse of the best
    alternative: the fatal exceptions collected in the trial pass are discarded -/
theorem or_fatal_only_if_none_matched (p : P) (nameLen : Nat → Nat) (slen : Nat) (es : List Nat) (loc : Nat)
    (a : OrAcc) (h1 : orPass1 p nameLen slen loc es {} = some a) (hne : a.cands.isEmpty = false)
    (e l : Nat) (rest : List (Nat × Nat)) (hs : sortDesc a.cands = (l, e) :: rest) :
    orAt p nameLen slen false es loc = p e loc false true := by
  simp [orAt, h1, hne, hs]

/-- and when none matched, the farthest fatal (ties: longest element text) is raised rather than a ParseException -/
theorem or_raises_fatal_when_none_matched (p : P) (nameLen : Nat → Nat) (slen : Nat) (acts : Bool)
    (es : List Nat) (loc : Nat) (a : OrAcc) (f : Fatal) (h1 : orPass1 p nameLen slen loc es {} = some a)
    (he : a.cands.isEmpty = true) (hf : pickFatal a.fatals = some f) :
    orAt p nameLen slen acts es loc = .fail f.c f.loc := by
  simp [orAt, h1, he, orAfter, hf]

/-! ### non-vacuity -/

example : (Out.fail .fatal 3).soft = false ∧ (Out.fail .parse 3).soft = true := by decide

/-- `"a" - "b"` on `"ac"`: the And is node 0 = And[1, 2, 3], 2 = _ErrorStop -/
def exStop : Grammar :=
  let l (c : Char) : Node := { kind := .lit1 c, skipWs := true, white := [' '], callPre := true, mayIdx := false,
                               ignore := [], acts := [], callDuringTry := false, nameLen := 3 }
  [ { l 'a' with kind := .and [1, 2, 3] }, l 'a', { l 'a' with kind := .errorStop }, l 'b' ]

example : parse exStop ['a', 'c'] 4 0 0 true true = .fail .syntax 1 := by rfl
example : parse exStop ['a', 'b'] 4 0 0 true true = .ok 2 [.s ['a'], .s ['b']] := by rfl

end PP.Parse
