import PPProofs.Props.C01
/-!
# C09 — results are insensitive to inter-token whitespace and ignored comments

What is proved (all strings, all gaps, all whitespace sets):
* `gap_size_irrelevant` / `skipWhite_append_gap` — after skipping a gap, a whitespace-skipping element sees exactly the
  same remaining text whatever the (all-blank) gap was: `drop (skipWhite …)` of `pre ++ ws ++ rest` and of
  `pre ++ ws' ++ rest` are both `rest` without its leading blanks;
* `lit_local`, `lit1_local`, `charsNotIn_local` (bounded) — these token leaves are *forward
  local*: their outcome at the end of a prefix depends only on the text that follows, shifted by the prefix length; so a
  leaf matched right after a gap yields the same token for every gap;
* `preParse_noskip` — an element that leaves whitespace (Combine(adjacent) contents, leave_whitespace regions) is parsed
  exactly where it is called: inserted whitespace is never skipped there (the converse clause).
PARTIAL: the global statement (same token list and names for the whole grammar, by simulation along the order-isomorphism
of non-gap positions) is not a Lean theorem; it is decided by the metamorphic oracle on the real code (gap variation,
fresh gaps at separated token boundaries, comment insertion after `ignore`, the JSON and arithmetic example grammars)
and, for the model, by the correspondence run on the same variants.  Look-behind leaves (Keyword, WordStart, as_keyword,
StringStart, LineStart) are not forward local; the literal universal reading is false for any PEG (ordered choice can flip
when a blank splits a Word) — `ordered_choice_flips_witness`.
-/
namespace PP.Parse

theorem takeWhile_append_all {α} (f : α → Bool) (ws rest : List α) (h : ∀ c ∈ ws, f c = true) :
    (ws ++ rest).takeWhile f = ws ++ rest.takeWhile f := by
  induction ws with
  | nil => rfl
  | cons x xs ih =>
    have hx := h x List.mem_cons_self
    simp only [List.cons_append, List.takeWhile, hx]
    rw [ih (fun c hc => h c (List.mem_cons_of_mem _ hc))]

theorem drop_takeWhile_length {α} (f : α → Bool) (l : List α) : l.drop (l.takeWhile f).length = l.dropWhile f := by
  induction l with
  | nil => rfl
  | cons x xs ih => by_cases hx : f x = true <;> simp [List.takeWhile, List.dropWhile, hx, ih]

/-- skipping from the start of an all-blank gap ends after the gap and after the blanks that begin `rest` -/
theorem skipWhite_append_gap (w pre ws rest : List Char) (h : ∀ c ∈ ws, mem c w = true) :
    skipWhite w (pre ++ ws ++ rest) pre.length = pre.length + ws.length + (rest.takeWhile (mem · w)).length := by
  unfold skipWhite
  rw [List.append_assoc, List.drop_left, takeWhile_append_all _ _ _ h]
  simp [Nat.add_assoc]

/-- **the gap does not matter**: what the next whitespace-skipping element sees after the gap is the same text for any
    two all-blank gaps (including the empty one) -/
theorem gap_size_irrelevant (w pre ws ws' rest : List Char) (h : ∀ c ∈ ws, mem c w = true)
    (h' : ∀ c ∈ ws', mem c w = true) :
    (pre ++ ws ++ rest).drop (skipWhite w (pre ++ ws ++ rest) pre.length)
      = (pre ++ ws' ++ rest).drop (skipWhite w (pre ++ ws' ++ rest) pre.length) := by
  have key : ∀ g : List Char, (∀ c ∈ g, mem c w = true) →
      (pre ++ g ++ rest).drop (skipWhite w (pre ++ g ++ rest) pre.length) = rest.dropWhile (mem · w) := by
    intro g hg
    rw [skipWhite_append_gap w pre g rest hg]
    have : pre ++ g ++ rest = (pre ++ g) ++ rest := rfl
    rw [Nat.add_assoc, ← List.drop_drop, List.append_assoc, List.drop_left, ← List.drop_drop, List.drop_left]
    exact drop_takeWhile_length _ _
  rw [key ws h, key ws' h']

/-- outcome of a leaf moved right by `k` characters -/
def Out.shift (k : Nat) : Out → Out
  | .ok e ts => .ok (e + k) ts
  | .fail c l => .fail c (l + k)
  | o => o

theorem startsWithAt_append (pre t m : List Char) (i : Nat) :
    startsWithAt (pre ++ t) m (pre.length + i) = startsWithAt t m i := by
  unfold startsWithAt
  rw [List.drop_append, List.drop_eq_nil_of_le (Nat.le_add_right _ _)]
  simp

theorem getElem?_append_shift {α} (pre t : List α) (i : Nat) : (pre ++ t)[pre.length + i]? = t[i]? := by
  rw [List.getElem?_append_right (Nat.le_add_right _ _)]
  simp

/-- Literal is forward local -/
theorem lit_local (m pre t : List Char) (i : Nat) :
    litImpl m (pre ++ t) (pre.length + i) = (litImpl m t i).shift pre.length := by
  unfold litImpl
  rw [getElem?_append_shift, startsWithAt_append]
  cases t[i]? with
  | none => rfl
  | some c => simp only; split <;> simp [Out.shift] <;> omega

theorem lit1_local (ch : Char) (pre t : List Char) (i : Nat) :
    lit1Impl ch (pre ++ t) (pre.length + i) = (lit1Impl ch t i).shift pre.length := by
  unfold lit1Impl
  rw [getElem?_append_shift]
  cases t[i]? with
  | none => rfl
  | some c => simp only; split <;> simp [Out.shift] <;> omega

theorem drop_append_shift {α} (pre t : List α) (i : Nat) : (pre ++ t).drop (pre.length + i) = t.drop i := by
  rw [List.drop_append, List.drop_eq_nil_of_le (Nat.le_add_right _ _)]
  simp

theorem runLen_local (ok : Char → Bool) (pre t : List Char) (i cap : Nat) :
    runLen ok (pre ++ t) (pre.length + i) cap = runLen ok t i cap := by
  unfold runLen
  rw [drop_append_shift]

theorem slice_local (pre t : List Char) (a b : Nat) :
    slice (pre ++ t) (pre.length + a) (pre.length + b) = slice t a b := by
  unfold slice
  rw [List.take_append, List.take_of_length_le (Nat.le_add_right _ _), drop_append_shift]
  simp

/-- CharsNotIn is forward local -/
theorem charsNotIn_local (notc : List Char) (mn : Nat) (mx : Option Nat) (pre t : List Char) (i : Nat)
    (hmx : mx ≠ none) :
    charsNotInImpl notc mn mx (pre ++ t) (pre.length + i) = (charsNotInImpl notc mn mx t i).shift pre.length := by
  unfold charsNotInImpl
  rw [getElem?_append_shift]
  cases t[i]? with
  | none => rfl
  | some c =>
    simp only
    split
    · simp [Out.shift]; omega
    · cases mx with
      | none => exact absurd rfl hmx
      | some k =>
        simp only
        have e1 : pre.length + i + 1 = pre.length + (i + 1) := by omega
        rw [e1, runLen_local]
        have e2 : pre.length + (i + 1) + runLen (fun d => !mem d notc) t (i + 1) (k - 1)
            = pre.length + (i + 1 + runLen (fun d => !mem d notc) t (i + 1) (k - 1)) := by omega
        rw [e2, slice_local]
        split
        · rename_i h
          have : i + 1 + runLen (fun d => !mem d notc) t (i + 1) (k - 1) - i < mn := by omega
          simp [this, Out.shift]; omega
        · rename_i h
          have : ¬ (i + 1 + runLen (fun d => !mem d notc) t (i + 1) (k - 1) - i < mn) := by omega
          simp [this, Out.shift]; omega

/-- an element that leaves whitespace and has no ignorables is parsed exactly where it is called -/
theorem preParse_noskip (p : P) (nd : Node) (s : List Char) (loc : Nat)
    (hk : ∀ w nl, nd.kind ≠ .lineStart w nl) (hi : nd.ignore = []) (hs : nd.skipWs = false) :
    preParse p nd s loc = .at loc := by
  unfold preParse
  split
  · rename_i w nl h; exact absurd h (hk w nl)
  · simp [hi, hs]

/-! ### the literal universal reading is false for any PEG: a blank that splits a Word can flip an ordered choice -/

/-- `Group(Word("ab") + Word("ab")) + "!" | "a" + "b" + "!"`: nodes 0 = MatchFirst[1,6], 1 = And[2,5], 2 = Group 3,
    3 = And[4,4], 4 = Word, 5 = '!', 6 = And[7,8,5], 7 = 'a', 8 = 'b' -/
def flipG : Grammar :=
  let w : Node := { kind := .word ['a','b'] ['a','b'] 1 none false false true, skipWs := true,
                    white := [' ', '\n', '\t', '\r'], callPre := true, mayIdx := false, ignore := [], acts := [],
                    callDuringTry := false, nameLen := 6 }
  [ { w with kind := .matchFirst [1, 6], callPre := false }, { w with kind := .and [2, 5] }, { w with kind := .group 3 },
    { w with kind := .and [4, 4] }, w, { w with kind := .lit1 '!' }, { w with kind := .and [7, 8, 5] },
    { w with kind := .lit1 'a' }, { w with kind := .lit1 'b' } ]

theorem ordered_choice_flips_witness :
    parse flipG ['a', 'b', '!'] 8 0 0 true true = .ok 3 [.s ['a'], .s ['b'], .s ['!']] ∧
    parse flipG ['a', ' ', 'b', '!'] 8 0 0 true true = .ok 4 [.g [.s ['a'], .s ['b']], .s ['!']] := by
  constructor <;> rfl

example : skipWhite [' '] (['a'] ++ [' ', ' '] ++ [' ', 'b']) 1 = 4 := by decide

end PP.Parse
