import PPProofs.Lemmas.DiagramOut
import PPProofs.Lemmas.DiagramDiverge
import PPProofs.Props.Gen.C20Witness
/-!
# C20 — railroad diagram generation terminates and is referentially intact

Model: `PPModel/Mod/Diagram.lean` (transcription of `pyparsing/diagram/__init__.py:223-282, 320-347,
400-432, 504-754`).  `toRailroad g o fuel root = none` means: the recursion of `_to_diagram_element`
is deeper than `fuel`; `∀ fuel, … = none` is non-termination (RecursionError in CPython).

Full statement of C20 (properties.jsonl): for ANY grammar, `to_railroad` terminates, yields a non-empty
list of named diagrams, root first, with distinct bookmarks; every link resolves inside the output; no
empty placeholder; every visible token element is drawn; `railroad_to_html` renders the list.

What is proved here about the model, for all grammars / options / fuel unless said otherwise:
* `bookmarks_distinct`              full strength (names, hence bookmarks, of the output are distinct)
* `unnamed_never_extracted`         full strength lemma: an element without custom name is never named,
                                    marked or extracted (the reason for the next one)
* `diverges_of_unnamed_loop`        full strength NEGATIVE: any grammar whose root lies on a cycle of
                                    unnamed elements makes `to_railroad` recurse for ever
* `diverges_unnamed_cycle`          its instance for `E <<= Word(nums) | '(' + E + ')'`, for every fuel and
                                    every option setting - the termination clause of C20 is false
* `empty_placeholder_witness`, `dangling_link_witness`, `unnamed_forward_root_witness`,
  `root_not_first_witness`          concrete grammars on which other clauses fail (registered findings)
* `named_cycle_ok`                  non-vacuity: the same recursive grammar with a named Forward
                                    terminates and satisfies every clause
The clauses links_resolve / no_empty_placeholder / root_first / tokens_covered are not proved in general
(they are false without further hypotheses, see the witnesses); they are decided by the oracle on the
real code.
-/
namespace PP.Diagram

/-! ## bookmarks are distinct -/

/-- **bookmarks_distinct**: whatever the grammar, the options and the recursion budget, the diagrams
    returned by `to_railroad` have pairwise distinct names (`_make_bookmark` maps distinct names to
    distinct bookmarks, so the bookmarks are distinct).  When more than one diagram is returned none of
    the names is `None`. -/
theorem bookmarks_distinct (g : Grammar) (o : Opts) (fuel root : Nat) (ds : List Named)
    (h : toRailroad g o fuel root = some ds) : (names ds).Nodup := by
  unfold toRailroad at h
  split at h
  · exact absurd h (by simp)
  · rename_i s _
    simp only [Option.some.injEq] at h
    subst h
    have hperm := sortByIndex_perm ((selected s).map (entryTree s))
    unfold names
    rw [(hperm.map (·.name)).nodup_iff]
    have : ((selected s).map (entryTree s)).map (·.name) = (selected s).map (·.name) := by
      simp [entryTree, List.map_map, Function.comp_def]
    rw [this]
    unfold selected
    simp only
    split
    · exact (dedupe_spec _ []).1
    · rename_i hlen
      generalize s.diagrams.map (·.2) = l at hlen
      match l, hlen with
      | [], _ => exact List.nodup_nil
      | [_], _ => simp
      | _ :: _ :: _, hlen => simp at hlen

/-- the output is sorted by the index at which the element was first registered -/
theorem output_sorted (g : Grammar) (o : Opts) (fuel root : Nat) (ds : List Named)
    (h : toRailroad g o fuel root = some ds) : SortedIdx ds := by
  unfold toRailroad at h
  split at h
  · exact absurd h (by simp)
  · simp only [Option.some.injEq] at h
    subst h
    exact sortByIndex_sorted _

/-! ## unnamed cycles: the conversion does not terminate -/

/-- elements without a custom name are never given a name, marked for extraction or extracted into
    a diagram by `_to_diagram_element`; a later visit therefore converts them again from scratch -/
theorem unnamed_never_extracted (g : Grammar) (o : Opts) (fuel el : Nat) (p : Option Nat) (i : Nat)
    (h : Option String) (r : Option Nat) (s' : St)
    (hc : conv g o fuel el p i h {} = some (r, s')) (u : Nat) (hu : truthy (customOf g u) = false) :
    aget s'.diagrams u = none ∧ ∀ st, aget s'.lookup u = some st → st.name = none ∧ st.extract = false :=
  let h' := conv_UInv g o fuel el p i h {} r s' (UInv_init g) hc u hu
  ⟨h'.2, h'.1⟩

/-- **every grammar whose root lies on a cycle of unnamed elements hangs**: `U` is any set of unnamed
    elements closed under "hands the conversion to a member" (see `UnnamedLoop`). -/
theorem diverges_of_unnamed_loop (g : Grammar) (o : Opts) (U : Nat → Prop) (hU : UnnamedLoop g o U)
    (root : Nat) (hr : U root) : ∀ fuel, toRailroad g o fuel root = none := by
  intro fuel
  unfold toRailroad convertRoot
  rw [conv_diverges g o U hU fuel root hr none 0 none {} (UInv_init g)]

/-! The grammars `gUnnamed`, `gEmptyOpt`, `gSkip`, `gFwdRoot`, `gRootOnCycle`, `gNamed` are GENERATED
    (`Props/Gen/C20Witness.lean`) from the live element graphs of
    `E <<= Word("01") | '(' + E + ')'` (unnamed / named "E"), `Opt(Empty()) + Word("01")`,
    `Word("01") + ... + 'y'`, `F <<= Word("01") + 'x'`, `root = '(' + E + ')'; E <<= Word("01") | root`. -/

theorem gUnnamed_loop (o : Opts) : UnnamedLoop gUnnamed o (fun u => u = 0 ∨ u = 1 ∨ u = 3) := by
  constructor
  intro u hu
  rcases hu with rfl | rfl | rfl
  · exact ⟨_, rfl, rfl, Or.inl ⟨rfl, Or.inr (Or.inl rfl)⟩⟩
  · refine ⟨_, rfl, rfl, Or.inr ⟨rfl, rfl, Or.inl rfl, ?_, 3, by simp, Or.inr (Or.inr rfl)⟩⟩
    intro name
    exact dispatch_alt_some _ _ _ _ rfl rfl rfl
  · refine ⟨_, rfl, rfl, Or.inr ⟨rfl, rfl, Or.inl rfl, ?_, 0, by simp, Or.inl rfl⟩⟩
    intro name
    exact dispatch_and_some _ _ _ _ rfl rfl

/-- **diverges_unnamed_cycle**: for the minimal unnamed recursive grammar the conversion exceeds every
    recursion budget, for every option setting (the real code raises RecursionError: registered finding
    `diagram_unnamed_cycle`).  So the termination clause of C20 does not hold for the current code. -/
theorem diverges_unnamed_cycle (o : Opts) : ∀ fuel, toRailroad gUnnamed o fuel 0 = none :=
  diverges_of_unnamed_loop gUnnamed o _ (gUnnamed_loop o) 0 (Or.inl rfl)

/-! ## concrete grammars on which other clauses fail (each is replayed on the real code by the check) -/

def opts0 : Opts := { vertical := some 3, showNames := false, showGroups := false, showHidden := false }

/-- **empty_placeholder_witness**: the diagram of `Opt(Empty()) + Word(nums)` keeps the `""` that was put
    in the `Optional` as a placeholder (finding `diagram_empty_placeholder`). -/
theorem empty_placeholder_witness :
    ∃ ds, toRailroad gEmptyOpt opts0 10 0 = some ds ∧ noEmptyPlaceholder ds = false := by
  refine ⟨_, rfl, ?_⟩
  decide +kernel

/-- **dangling_link_witness**: the link to the diagram named "..." stays although `to_railroad` drops
    that diagram (finding `diagram_dangling_skipto`). -/
theorem dangling_link_witness :
    ∃ ds, toRailroad gSkip opts0 10 0 = some ds ∧ linksResolve ds = false := by
  refine ⟨_, rfl, ?_⟩
  decide +kernel

/-- **unnamed_forward_root_witness**: an unnamed Forward as root yields no diagram at all
    (finding `diagram_unnamed_forward_root`). -/
theorem unnamed_forward_root_witness : (toRailroad gFwdRoot opts0 10 0).map names = some [] := by
  decide +kernel

/-- **root_not_first_witness**: an unnamed root that is reached again through a named cycle is
    registered a second time; its diagram gets the later index and is sorted behind `E`
    (finding `diagram_root_revisited`). -/
theorem root_not_first_witness :
    ∃ ds, toRailroad gRootOnCycle opts0 20 0 = some ds ∧ (names ds).head? = some (some "E") := by
  refine ⟨_, rfl, ?_⟩
  decide +kernel

/-! ## non-vacuity: the named variant satisfies every clause -/

/-- **named_cycle_ok**: with a custom name on the Forward the same recursive grammar converts within
    fuel 6 to one diagram `E` (the root, first), whose link resolves, without placeholders, showing all
    three tokens. -/
theorem named_cycle_ok :
    ∃ ds, toRailroad gNamed opts0 6 0 = some ds ∧ names ds = [some "E"] ∧ linksResolve ds = true ∧
      noEmptyPlaceholder ds = true ∧
      (ds.flatMap (·.tree.terminals)) = ["W:(0-9)", "'('", "')'"] := by
  refine ⟨_, rfl, ?_⟩
  decide +kernel

end PP.Diagram
