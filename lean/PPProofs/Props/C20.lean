import PPProofs.Lemmas.DiagramOut
import PPProofs.Lemmas.DiagramDiverge
import PPProofs.Lemmas.DiagramTerm
import PPProofs.Props.Gen.C20Witness
/-!
# C20 — railroad diagram generation terminates and is referentially intact

Model: `PPModel/Mod/Diagram.lean` (transcription of `pyparsing/diagram/__init__.py:223-282, 320-347,
400-432, 504-754`).  `toRailroad g o fuel root = none` means: the recursion of `_to_diagram_element`
is deeper than `fuel`; `∀ fuel, … = none` is non-termination (RecursionError in CPython).

Full statement of C20 (properties.jsonl): for ANY grammar, `to_railroad` terminates, yields a non-empty
list of named diagrams, root first, with distinct bookmarks; every link resolves inside the output; no
empty placeholder; every visible token element is drawn; `railroad_to_html` renders the list.

What is proved here about the model, for all grammars / options / fuel unless said otherwise:
* `bookmarks_distinct`              full strength (names, hence bookmarks, of the output are distinct)
* `unnamed_never_extracted`         full strength lemma: an element without custom name is never named,
                                    marked or extracted (the reason for the next one)
* `diverges_of_unnamed_loop`        full strength NEGATIVE: any grammar whose root lies on a cycle of
                                    unnamed elements makes `to_railroad` recurse for ever
* `diverges_unnamed_cycle`          its instance for `E <<= Word(nums) | '(' + E + ')'`, for every fuel and
                                    every option setting - the termination clause of C20 is false
* `terminates_partial`               PARTIAL: termination with the explicit depth bound |g|·(R+3)+R+2 for
                                    grammars in which every cycle passes through a custom-named element
                                    (`Ranked`, read by `ranked_cycle_has_cut`); the full clause also covers
                                    unnamed cycles, where it is false
* `empty_placeholder_witness`, `dangling_link_witness`, `unnamed_forward_root_witness`,
  `root_not_first_witness`          concrete grammars on which other clauses fail (registered findings)
* `named_cycle_ok`                  non-vacuity: the same recursive grammar with a named Forward
                                    terminates and satisfies every clause
The clauses links_resolve / no_empty_placeholder / root_first / tokens_covered are not proved in general
(they are false without further hypotheses, see the witnesses); they are decided by the oracle on the
real code.  `Props/C20Links.lean` proves links_resolve and root_first for all grammars under decidable
hypotheses on the node table that exclude the witnessed shapes (`links_resolve_partial`,
`root_first_partial`), and the heap-level part of no_empty_placeholder (`no_empty_placeholder_partial`).
-/
namespace PP.Diagram

/-! ## bookmarks are distinct -/

/-- **bookmarks_distinct**: whatever the grammar, the options and the recursion budget, the diagrams
    returned by `to_railroad` have pairwise distinct names (`_make_bookmark` maps distinct names to
    distinct bookmarks, so the bookmarks are distinct).  When more than one diagram is returned none of
    the names is `None`. -/
theorem bookmarks_distinct (g : Grammar) (o : Opts) (fuel root : Nat) (ds : List Named)
    (h : toRailroad g o fuel root = some ds) : (names ds).Nodup := by
  unfold toRailroad at h
  split at h
  · exact absurd h (by simp)
  · rename_i s _
    simp only [Option.some.injEq] at h
    subst h
    have hperm := sortByIndex_perm ((selected s).map (entryTree s))
    unfold names
    rw [(hperm.map (·.name)).nodup_iff]
    have : ((selected s).map (entryTree s)).map (·.name) = (selected s).map (·.name) := by
      simp [entryTree, List.map_map, Function.comp_def]
    rw [this]
    unfold selected
    simp only
    split
    · exact (dedupe_spec _ []).1
    · rename_i hlen
      generalize s.diagrams.map (·.2) = l at hlen
      match l, hlen with
      | [], _ => exact List.nodup_nil
      | [_], _ => simp
      | _ :: _ :: _, hlen => simp at hlen

/-- the output is sorted by the index at which the element was first registered -/
theorem output_sorted (g : Grammar) (o : Opts) (fuel root : Nat) (ds : List Named)
    (h : toRailroad g o fuel root = some ds) : SortedIdx ds := by
  unfold toRailroad at h
  split at h
  · exact absurd h (by simp)
  · simp only [Option.some.injEq] at h
    subst h
    exact sortByIndex_sorted _

/-! ## unnamed cycles: the conversion does not terminate -/

/-- elements without a custom name are never given a name, marked for extraction or extracted into
    a diagram by `_to_diagram_element`; a later visit therefore converts them again from scratch -/
theorem unnamed_never_extracted (g : Grammar) (o : Opts) (fuel el : Nat) (p : Option Nat) (i : Nat)
    (h : Option String) (r : Option Nat) (s' : St)
    (hc : conv g o fuel el p i h {} = some (r, s')) (u : Nat) (hu : truthy (customOf g u) = false) :
    aget s'.diagrams u = none ∧ ∀ st, aget s'.lookup u = some st → st.name = none ∧ st.extract = false :=
  let h' := conv_UInv g o fuel el p i h {} r s' (UInv_init g) hc u hu
  ⟨h'.2, h'.1⟩

/-- **every grammar whose root lies on a cycle of unnamed elements hangs**: `U` is any set of unnamed
    elements closed under "hands the conversion to a member" (see `UnnamedLoop`). -/
theorem diverges_of_unnamed_loop (g : Grammar) (o : Opts) (U : Nat → Prop) (hU : UnnamedLoop g o U)
    (root : Nat) (hr : U root) : ∀ fuel, toRailroad g o fuel root = none := by
  intro fuel
  unfold toRailroad convertRoot
  rw [conv_diverges g o U hU fuel root hr none 0 none {} (UInv_init g)]

/-! The grammars `gUnnamed`, `gEmptyOpt`, `gSkip`, `gFwdRoot`, `gRootOnCycle`, `gNamed` are GENERATED
    (`Props/Gen/C20Witness.lean`) from the live element graphs of
    `E <<= Word("01") | '(' + E + ')'` (unnamed / named "E"), `Opt(Empty()) + Word("01")`,
    `Word("01") + ... + 'y'`, `F <<= Word("01") + 'x'`, `root = '(' + E + ')'; E <<= Word("01") | root`. -/

theorem gUnnamed_loop (o : Opts) : UnnamedLoop gUnnamed o (fun u => u = 0 ∨ u = 1 ∨ u = 3) := by
  constructor
  intro u hu
  rcases hu with rfl | rfl | rfl
  · exact ⟨_, rfl, rfl, Or.inl ⟨rfl, Or.inr (Or.inl rfl)⟩⟩
  · refine ⟨_, rfl, rfl, Or.inr ⟨rfl, rfl, Or.inl rfl, ?_, 3, by simp, Or.inr (Or.inr rfl)⟩⟩
    intro name
    exact dispatch_alt_some _ _ _ _ rfl rfl rfl
  · refine ⟨_, rfl, rfl, Or.inr ⟨rfl, rfl, Or.inl rfl, ?_, 0, by simp, Or.inl rfl⟩⟩
    intro name
    exact dispatch_and_some _ _ _ _ rfl rfl

/-- **diverges_unnamed_cycle**: for the minimal unnamed recursive grammar the conversion exceeds every
    recursion budget, for every option setting (the real code raises RecursionError: registered finding
    `diagram_unnamed_cycle`).  So the termination clause of C20 does not hold for the current code. -/
theorem diverges_unnamed_cycle (o : Opts) : ∀ fuel, toRailroad gUnnamed o fuel 0 = none :=
  diverges_of_unnamed_loop gUnnamed o _ (gUnnamed_loop o) 0 (Or.inl rfl)

/-! ## termination when every cycle passes through a custom-named element -/

/-- a path (at least one edge) that never *enters* a cut element (custom-named and worth extracting;
    on a cycle every element is worth extracting, so there "cut" = "has a custom name") -/
inductive UncutPath (g : Grammar) : Nat → Nat → Prop where
  | step {u c : Nat} : c ∈ kidsOf g u → cut g c = false → UncutPath g u c
  | trans {u v w : Nat} : UncutPath g u v → UncutPath g v w → UncutPath g u w

theorem ranked_path_decreases {g : Grammar} {rank : Nat → Nat} (hr : Ranked g rank) {u v : Nat}
    (h : UncutPath g u v) : rank v < rank u := by
  induction h with
  | step hc hcut =>
    rename_i u c
    unfold kidsOf at hc
    cases hg : g[u]? with
    | none => rw [hg] at hc; exact absurd hc (by simp)
    | some n => rw [hg] at hc; exact hr u n hg c hc hcut
  | trans _ _ ih1 ih2 => exact Nat.lt_trans ih2 ih1

/-- **reading of the hypothesis `Ranked`**: a ranked grammar has no cycle that avoids the cut elements,
    i.e. every cycle passes through a custom-named element. (Conversely every finite grammar with that
    property has a rank function - longest uncut path - so the hypothesis is not stronger; that direction
    is not formalised, the check computes such a rank for its generated grammars.) -/
theorem ranked_cycle_has_cut {g : Grammar} {rank : Nat → Nat} (hr : Ranked g rank) (u : Nat) :
    ¬ UncutPath g u u :=
  fun h => Nat.lt_irrefl _ (ranked_path_decreases hr h)

/-- `rankedB` (PPModel/Mod/Diagram.lean) is the executable form of `Ranked` -/
theorem ranked_of_rankedB {g : Grammar} {rank : Nat → Nat} (h : rankedB g rank = true) : Ranked g rank := by
  intro u n hg c hc hcut
  unfold rankedB at h
  rw [List.all_eq_true] at h
  have hu : u ∈ List.range g.length := List.mem_range.mpr (List.getElem?_eq_some_iff.mp hg).1
  have h1 := h u hu
  rw [List.all_eq_true] at h1
  have h2 := h1 c (by unfold kidsOf; rw [hg]; exact hc)
  rw [hcut] at h2
  simpa using h2

/-- **terminates_partial** (full statement of C20: termination for ANY grammar - false, see
    `diverges_of_unnamed_loop`; proved part:) if every cycle of the grammar passes through a custom-named
    element worth extracting (`Ranked`: edges into other elements decrease `rank ≤ R`), then for every
    option setting `to_railroad` returns with recursion depth at most `|g|·(R+3) + R + 2`
    (with `R ≤ |g|`: quadratic in the number of elements; two Python frames per level).
    Not covered: grammars using `stop_on` repetitions (not in the model). -/
theorem terminates_partial (g : Grammar) (o : Opts) (rank : Nat → Nat) (R root : Nat)
    (hrank : Ranked g rank) (hR : ∀ u, rank u ≤ R) :
    ∀ fuel, fuelBound g R ≤ fuel → ∃ ds, toRailroad g o fuel root = some ds := by
  intro fuel hf
  unfold fuelBound at hf
  have hfree := free_le g []
  have hmul : free g [] * (R + 3) ≤ g.length * (R + 3) := Nat.mul_le_mul_right _ hfree
  have hfuel : FuelOK g rank R fuel root [] := by
    cases hc : cut g root with
    | true => right; left; exact ⟨hc, rfl, by omega, by omega⟩
    | false => right; right; exact ⟨hc, by have := hR root; omega⟩
  obtain ⟨r, s', hconv, _⟩ := conv_total g o rank R hrank hR fuel root [] none 0 none {}
    (fun b hb => absurd hb (by simp)) (fun b hb => absurd hb (by simp)) hfuel
  have hcr : ∃ s, convertRoot g o fuel root = some s := by
    unfold convertRoot
    rw [hconv]
    simp only
    split <;> exact ⟨_, rfl⟩
  obtain ⟨s, hs⟩ := hcr
  unfold toRailroad
  rw [hs]
  exact ⟨_, rfl⟩

/-! ## concrete grammars on which other clauses fail (each is replayed on the real code by the check) -/

def opts0 : Opts := { vertical := some 3, showNames := false, showGroups := false, showHidden := false }

/-- **empty_placeholder_witness**: the diagram of `Opt(Empty()) + Word(nums)` keeps the `""` that was put
    in the `Optional` as a placeholder (finding `diagram_empty_placeholder`). -/
theorem empty_placeholder_witness :
    ∃ ds, toRailroad gEmptyOpt opts0 10 0 = some ds ∧ noEmptyPlaceholder ds = false := by
  refine ⟨_, rfl, ?_⟩
  decide +kernel

/-- **dangling_link_witness**: the link to the diagram named "..." stays although `to_railroad` drops
    that diagram (finding `diagram_dangling_skipto`). -/
theorem dangling_link_witness :
    ∃ ds, toRailroad gSkip opts0 10 0 = some ds ∧ linksResolve ds = false := by
  refine ⟨_, rfl, ?_⟩
  decide +kernel

/-- **unnamed_forward_root_witness**: an unnamed Forward as root yields no diagram at all
    (finding `diagram_unnamed_forward_root`). -/
theorem unnamed_forward_root_witness : (toRailroad gFwdRoot opts0 10 0).map names = some [] := by
  decide +kernel

/-- **root_not_first_witness**: an unnamed root that is reached again through a named cycle is
    registered a second time; its diagram gets the later index and is sorted behind `E`
    (finding `diagram_root_revisited`). -/
theorem root_not_first_witness :
    ∃ ds, toRailroad gRootOnCycle opts0 20 0 = some ds ∧ (names ds).head? = some (some "E") := by
  refine ⟨_, rfl, ?_⟩
  decide +kernel

/-! ## non-vacuity: the named variant satisfies every clause -/

/-- **named_cycle_ok**: with a custom name on the Forward the same recursive grammar converts within
    fuel 6 to one diagram `E` (the root, first), whose link resolves, without placeholders, showing all
    three tokens. -/
theorem named_cycle_ok :
    ∃ ds, toRailroad gNamed opts0 6 0 = some ds ∧ names ds = [some "E"] ∧ linksResolve ds = true ∧
      noEmptyPlaceholder ds = true ∧
      (ds.flatMap (·.tree.terminals)) = ["W:(0-9)", "'('", "')'"] := by
  refine ⟨_, rfl, ?_⟩
  decide +kernel

/-- non-vacuity of `terminates_partial`: the named recursive grammar is ranked (Forward E ↦ 3,
    MatchFirst ↦ 2, And ↦ 1, tokens ↦ 0; the edge And → E enters the cut element E) -/
def rankNamed : Nat → Nat
  | 0 => 3 | 1 => 2 | 3 => 1 | _ => 0

example : Ranked gNamed rankNamed ∧ (∀ u, rankNamed u ≤ 3) ∧ cut gNamed 0 = true :=
  ⟨ranked_of_rankedB (by decide +kernel), fun u => by unfold rankNamed; split <;> omega, by decide +kernel⟩

/-- the unnamed variant admits no rank function at all (it has an uncut cycle 0 → 1 → 3 → 0) -/
example : ¬ ∃ rank, Ranked gUnnamed rank := by
  rintro ⟨rank, hr⟩
  have p01 : UncutPath gUnnamed 0 1 := .step (by decide +kernel) (by decide +kernel)
  have p13 : UncutPath gUnnamed 1 3 := .step (by decide +kernel) (by decide +kernel)
  have p30 : UncutPath gUnnamed 3 0 := .step (by decide +kernel) (by decide +kernel)
  exact ranked_cycle_has_cut hr 0 (.trans p01 (.trans p13 p30))

end PP.Diagram
