import PPProofs.Props.C04
import PPProofs.Lemmas.LRIter
import PPProofs.Lemmas.LRGrow
import PPProofs.Lemmas.LRIterG
import PPProofs.Lemmas.LRIterWs
import PPProofs.Lemmas.ParseMono
import PPProofs.Lemmas.ParseAdv
/-!
# C04 — a DIRECT left-recursive rule `E <<= (E + tail) | base` parses as the iterative grammar `base (tail)*`

Abstract level: `lrBody slen base tail` (PPProofs/Lemmas/LRIter.lean) is what `MatchFirst [And [E, t…], base]` computes when
the nested `E` is a memo hit, for ARBITRARY sub-parsers `base a : Out` (second alternative, at the Forward's location) and
`tail a e : Out` (rest of the `And` from the memo entry's end `e`); `a` = `do_actions`.  `iterRef` is the iterative
reference: parse `base`, then apply `tail` greedily while it matches (shape of `manyLoop`), concatenating tokens.

The theorems hold for every `base`, `tail`, location and round budget; the two sides consume the budget in lock-step
(one growth round = one repetition), so they agree even on an exhausted budget (`.hang` on both sides);
`lr_direct_eq_iterative_budget` removes the coupling for budgets that suffice.

Hypotheses, all forced by the proof:
* `hge`  a match of `base` ends at or after the Forward's location (else the first round is "not better" than the failure
         seed and the Forward fails, while the iterative grammar would go on);
* `hadv` a successful `tail` strictly advances — the property's own exclusion of empty repetition bodies (the real
         `ZeroOrMore` loops for ever there, the growth loop just stops);
* acts:  the action run and the trial run of `base` / `tail` agree on success and end positions (`AgreeOut`; tokens may
         differ) — the loop decides on the trial run and returns the action run.
How the other outcomes go (no hypothesis): a fatal error / `.hang` of `tail` propagates on both sides; a ParseException or
a raw IndexError of `tail` ends the growth / the repetition; when `base` does not match, the result is `mfSecond slen loc`
of its outcome — the ParseException is raised at the farther of `loc` (the seed's location) and its own location, a raw
IndexError becomes a ParseException at `max slen loc` (this is `MatchFirst`, visible in `iterRef`; `iterRef_plain` shows
it is the plain outcome when the failure location is ≥ `loc`).
-/
namespace PP.Parse

/-- the iterative reference `base (tail)*` with `k` repetition rounds of budget -/
def iterRef (slen loc : Nat) (base : Bool → Out) (tail : Bool → Nat → Out) (a : Bool) (k : Nat) : Out :=
  match base a with
  | .ok e0 ts0 => iterLoop tail a k e0 ts0
  | o => mfSecond slen loc o

/-- a non-match of `base` is reported unchanged when it is a ParseException at or after `loc` / a fatal error -/
theorem iterRef_plain (slen loc : Nat) (base : Bool → Out) (tail : Bool → Nat → Out) (a : Bool) (k : Nat)
    (hne : ∀ e ts, base a ≠ .ok e ts) (hidx : base a ≠ .idx) (hl : ∀ l, base a = .fail .parse l → loc ≤ l) :
    iterRef slen loc base tail a k = base a := by
  unfold iterRef
  cases hb : base a with
  | ok e ts => exact absurd hb (hne e ts)
  | idx => exact absurd hb hidx
  | hang => rfl
  | fail c l =>
    cases c with
    | parse =>
      have := hl l hb
      simp only [mfSecond]
      by_cases h : l > loc
      · simp [h]
      · have : l = loc := by omega
        simp [this]
    | fatal => rfl
    | «syntax» => rfl

/-- **C04, trial run / no actions**: the growth loop over the direct-left-recursive body equals the iterative grammar -/
theorem lr_direct_eq_iterative (slen loc : Nat) (base : Bool → Out) (tail : Bool → Nat → Out) (k : Nat)
    (hge : ∀ e0 ts0, base false = .ok e0 ts0 → loc ≤ e0)
    (hadv : ∀ e e' ts', loc ≤ e → tail false e = .ok e' ts' → e < e') :
    growLoop (lrBody slen base tail) false loc (k + 1) (seedAt loc) (seedAt loc)
      = iterRef slen loc base tail false k := by
  unfold growLoop iterRef
  rw [lrBody_seed slen base tail false (seedAt loc) (seedAt loc) loc rfl]
  cases hb : base false with
  | ok e0 ts0 =>
    have h0 := hge e0 ts0 hb
    have hnb : notBetter e0 loc (seedAt loc) = false := by simp [notBetter, seedAt]; omega
    simp only [mfSecond, hnb, Bool.false_eq_true, if_false]
    exact growLoop_lrBody_loop slen loc base tail false e0 ts0 hb
      (fun e e' ts' he h => hadv e e' ts' (by omega) h) (by intro h; cases h) k e0 ts0 _ ts0 (Nat.le_refl _) (by simp)
  | fail c l => cases c <;> simp [mfSecond, seedAt]
  | idx => simp [mfSecond, seedAt]
  | hang => simp [mfSecond]

/-- **C04, with actions**: the same with `do_actions = True`, when the action run and the trial run of `base` and `tail`
    agree on success and end positions — the result is the iterative grammar evaluated with actions -/
theorem lr_direct_eq_iterative_acts (slen loc : Nat) (base : Bool → Out) (tail : Bool → Nat → Out) (k : Nat)
    (hge : ∀ e0 ts0, base false = .ok e0 ts0 → loc ≤ e0)
    (hadv : ∀ e e' ts', loc ≤ e → tail false e = .ok e' ts' → e < e')
    (hbase : AgreeOut (base false) (base true))
    (htail : ∀ e, loc ≤ e → AgreeOut (tail false e) (tail true e)) :
    growLoop (lrBody slen base tail) true loc (k + 1) (seedAt loc) (seedAt loc)
      = iterRef slen loc base tail true k := by
  unfold growLoop iterRef
  rw [lrBody_seed slen base tail false (seedAt loc) (seedAt loc) loc rfl,
      lrBody_seed slen base tail true (seedAt loc) (seedAt loc) loc rfl]
  cases hb : base false with
  | ok e0 ts0 =>
    have h0 := hge e0 ts0 hb
    have hnb : notBetter e0 loc (seedAt loc) = false := by simp [notBetter, seedAt]; omega
    obtain ⟨tsA, hba⟩ := hbase.1 e0 ts0 hb
    rw [hba]
    simp only [mfSecond, hnb, Bool.false_eq_true, if_false, if_true]
    exact growLoop_lrBody_loop slen loc base tail true e0 ts0 hb
      (fun e e' ts' he h => hadv e e' ts' (by omega) h) (fun _ e he => htail e (by omega)) k e0 ts0 _ tsA
      (Nat.le_refl _) (by simp)
  | fail c l =>
    have hba := hbase.2 (by intro e t h; rw [hb] at h; cases h)
    rw [hba, hb]
    cases c <;> simp [mfSecond, seedAt]
  | idx =>
    have hba := hbase.2 (by intro e t h; rw [hb] at h; cases h)
    rw [hba, hb]
    simp [mfSecond, seedAt]
  | hang =>
    have hba := hbase.2 (by intro e t h; rw [hb] at h; cases h)
    rw [hba, hb]
    simp [mfSecond]

/-- the repetition loop does not depend on its budget once the budget suffices (ends are bounded by `bound`) -/
theorem iterLoop_budget (tail : Bool → Nat → Out) (a : Bool) (bound : Nat)
    (hbd : ∀ e e' ts', tail a e = .ok e' ts' → e' ≤ bound) :
    ∀ k k' e acc, e ≤ bound → bound + 1 ≤ k + e → bound + 1 ≤ k' + e →
      iterLoop tail a k e acc = iterLoop tail a k' e acc := by
  intro k
  induction k with
  | zero => intro k' e acc h1 h2 _; omega
  | succ k ih =>
    intro k' e acc h1 h2 h3
    cases k' with
    | zero => omega
    | succ k' =>
      unfold iterLoop
      cases ht : tail a e with
      | ok e' ts' =>
        have := hbd e e' ts' ht
        simp only
        by_cases hle : e' ≤ e
        · simp [hle]
        · simp only [hle, if_false]
          exact ih k' e' _ this (by omega) (by omega)
      | fail c l => cases c <;> rfl
      | idx => rfl
      | hang => rfl

/-- and with a sufficient budget it never reports `.hang` of its own (only a `.hang` of `tail` itself) -/
theorem iterLoop_no_hang (tail : Bool → Nat → Out) (a : Bool) (bound : Nat)
    (hbd : ∀ e e' ts', tail a e = .ok e' ts' → e' ≤ bound)
    (hadv : ∀ e e' ts', tail a e = .ok e' ts' → e < e')
    (hnh : ∀ e, tail a e ≠ .hang) :
    ∀ k e acc, e ≤ bound → bound + 1 ≤ k + e → iterLoop tail a k e acc ≠ .hang := by
  intro k
  induction k with
  | zero => intro e acc h1 h2; omega
  | succ k ih =>
    intro e acc h1 h2
    unfold iterLoop
    cases ht : tail a e with
    | ok e' ts' =>
      have := hbd e e' ts' ht
      have := hadv e e' ts' ht
      have hle : ¬ e' ≤ e := by omega
      simp only [hle, if_false]
      exact ih e' _ (by omega) (by omega)
    | fail c l => cases c <;> simp
    | idx => simp
    | hang => exact absurd ht (hnh e)

/-- **budget-free form**: when all ends are ≤ `bound` (and `loc ≤ bound`), any growth budget `k ≥ bound + 2 - loc` and any repetition budget
    `k' ≥ bound + 1 - loc` give the same result (`parseLR` uses `len + 2` growth rounds, `manyLoop` `len + 2` repetitions) -/
theorem lr_direct_eq_iterative_budget (slen loc bound : Nat) (base : Bool → Out) (tail : Bool → Nat → Out) (acts : Bool)
    (k k' : Nat)
    (hge : ∀ e0 ts0, base false = .ok e0 ts0 → loc ≤ e0)
    (hadv : ∀ e e' ts', loc ≤ e → tail false e = .ok e' ts' → e < e')
    (hbase : acts = true → AgreeOut (base false) (base true))
    (htail : acts = true → ∀ e, loc ≤ e → AgreeOut (tail false e) (tail true e))
    (hbb : ∀ e0 ts0, base acts = .ok e0 ts0 → e0 ≤ bound)
    (hbd : ∀ e e' ts', tail acts e = .ok e' ts' → e' ≤ bound)
    (hlb : loc ≤ bound) (hk : bound + 2 ≤ k + loc) (hk' : bound + 1 ≤ k' + loc) :
    growLoop (lrBody slen base tail) acts loc k (seedAt loc) (seedAt loc) = iterRef slen loc base tail acts k' := by
  obtain ⟨k1, rfl⟩ : ∃ k1, k = k1 + 1 := ⟨k - 1, by omega⟩
  have h1 : growLoop (lrBody slen base tail) acts loc (k1 + 1) (seedAt loc) (seedAt loc)
      = iterRef slen loc base tail acts k1 := by
    cases acts with
    | false => exact lr_direct_eq_iterative slen loc base tail k1 hge hadv
    | true => exact lr_direct_eq_iterative_acts slen loc base tail k1 hge hadv (hbase rfl) (htail rfl)
  rw [h1]
  unfold iterRef
  cases hb : base acts with
  | ok e0 ts0 =>
    have hb0 := hbb e0 ts0 hb
    have hl : loc ≤ e0 := by
      cases acts with
      | false => exact hge e0 ts0 hb
      | true =>
        have hag := hbase rfl
        cases hf : base false with
        | ok e1 ts1 =>
          obtain ⟨t, ht⟩ := hag.1 e1 ts1 hf
          rw [hb] at ht
          cases ht
          exact hge e0 ts1 hf
        | fail c l =>
          have := hag.2 (by intro e t h; rw [hf] at h; cases h)
          rw [hb, hf] at this; cases this
        | idx =>
          have := hag.2 (by intro e t h; rw [hf] at h; cases h)
          rw [hb, hf] at this; cases this
        | hang =>
          have := hag.2 (by intro e t h; rw [hf] at h; cases h)
          rw [hb, hf] at this; cases this
    simp only
    by_cases hle : e0 ≤ bound
    · exact iterLoop_budget tail acts bound hbd k1 k' e0 ts0 hle (by omega) (by omega)
    · omega
  | fail c l => rfl
  | idx => rfl
  | hang => rfl

/-! ### non-vacuity: `E <<= E + '+' + n | n` on "1+1+1" with `base` / `tail` as functions
    (`n` has a parse action that converts to a number: the action run's tokens differ from the trial run's) -/
def exBase : Bool → Out := fun a => .ok 1 [if a then .n 1 else .s ['1']]

def exTail : Bool → Nat → Out := fun a e =>
  if e = 1 ∨ e = 3 then .ok (e + 2) [.s ['+'], if a then .n 1 else .s ['1']] else .fail .parse e

example : growLoop (lrBody 5 exBase exTail) false 0 7 (seedAt 0) (seedAt 0)
    = .ok 5 [.s ['1'], .s ['+'], .s ['1'], .s ['+'], .s ['1']] := by rfl

example : iterRef 5 0 exBase exTail false 6 = .ok 5 [.s ['1'], .s ['+'], .s ['1'], .s ['+'], .s ['1']] := by rfl

example : growLoop (lrBody 5 exBase exTail) true 0 7 (seedAt 0) (seedAt 0)
    = .ok 5 [.n 1, .s ['+'], .n 1, .s ['+'], .n 1] := by rfl

theorem exTail_adv : ∀ e e' ts', 0 ≤ e → exTail false e = .ok e' ts' → e < e' := by
  intro e e' ts' _ h
  unfold exTail at h
  split at h
  · cases h; omega
  · cases h

theorem exTail_agree : ∀ e, 0 ≤ e → AgreeOut (exTail false e) (exTail true e) := by
  intro e _
  unfold exTail
  by_cases h : e = 1 ∨ e = 3
  · simp only [h, if_true]
    exact ⟨fun e1 t1 h1 => by cases h1; exact ⟨_, rfl⟩, fun hn => absurd rfl (hn _ _)⟩
  · simp only [h, if_false]
    exact AgreeOut.refl _

/-- the hypotheses of both theorems hold for the example (so they are satisfiable by a grammar that really recurses) -/
example : growLoop (lrBody 5 exBase exTail) false 0 7 (seedAt 0) (seedAt 0) = iterRef 5 0 exBase exTail false 6 :=
  lr_direct_eq_iterative 5 0 exBase exTail 6 (fun _ _ _ => Nat.zero_le _) exTail_adv

example : growLoop (lrBody 5 exBase exTail) true 0 7 (seedAt 0) (seedAt 0) = iterRef 5 0 exBase exTail true 6 :=
  lr_direct_eq_iterative_acts 5 0 exBase exTail 6 (fun _ _ _ => Nat.zero_le _) exTail_adv
    ⟨fun e1 t1 h1 => by cases h1; exact ⟨_, rfl⟩, fun hn => absurd rfl (hn _ _)⟩ exTail_agree

/-- and of the budget-free form: `parseLR`'s `len + 2 = 7` growth rounds against `manyLoop`'s `len + 2 = 7` repetitions -/
example : growLoop (lrBody 5 exBase exTail) true 0 7 (seedAt 0) (seedAt 0) = iterRef 5 0 exBase exTail true 7 :=
  lr_direct_eq_iterative_budget 5 0 5 exBase exTail true 7 7 (fun _ _ _ => Nat.zero_le _) exTail_adv
    (fun _ => ⟨fun e1 t1 h1 => by cases h1; exact ⟨_, rfl⟩, fun hn => absurd rfl (hn _ _)⟩) (fun _ => exTail_agree)
    (by intro e0 ts0 h; cases h; omega)
    (by intro e e' ts' h; unfold exTail at h; split at h
        · cases h; omega
        · cases h)
    (by omega) (by omega) (by omega)

example : iterLoop exTail true 7 1 [.n 1] ≠ .hang :=
  iterLoop_no_hang exTail true 5
    (by intro e e' ts' h; unfold exTail at h; split at h
        · cases h; omega
        · cases h)
    (by intro e e' ts' h; unfold exTail at h; split at h
        · cases h; omega
        · cases h)
    (by intro e h; unfold exTail at h; split at h <;> cases h) 7 1 _ (by omega) (by omega)

/-! ## The transcribed parser: `parseLR` on `E = Forward(MatchFirst [And (E :: t…), b])`

`DirectLR` (PPProofs/Lemmas/LRBody.lean) fixes the shape in the node table and the flags: no parse actions / results names
on `E`, `m`, `sq`.  `b` and `t…` lie in a part `D` of the table that is closed, present and Forward-free (`FwdFree`), so
they are parsed by the plain model parser whatever the in-growth entries are (`parseLR_frame`):
`baseOf g s f b pre a = parse g s f b pre a true`, `tailOf g s f ts a e = andRest (parse g s f) … ts false e []`.
`enhFix pre` is `ParseElementEnhance.parseImpl`'s `pbe.loc = pbe.loc or loc` on the Forward. -/

theorem idxConv_of_ne (nd : Node) (slen pre : Nat) (o : Out) (h : o ≠ .idx) : idxConv nd slen pre o = o := by
  cases o with
  | idx => exact absurd rfl h
  | ok e ts => rfl
  | fail c l => rfl
  | hang => rfl

theorem iterRef_ne_idx (slen loc : Nat) (base : Bool → Out) (tail : Bool → Nat → Out) (a : Bool) (k : Nat) :
    iterRef slen loc base tail a k ≠ .idx := by
  unfold iterRef
  cases hb : base a with
  | ok e ts => exact iterLoop_ne_idx tail a k e ts
  | fail c l => exact mfSecond_ne_idx slen loc _
  | idx => exact mfSecond_ne_idx slen loc _
  | hang => exact mfSecond_ne_idx slen loc _

/-- **C04 on the model parser (first half)**: `parseLR` on a direct left-recursive rule whose base and tail are
    Forward-free equals the iterative reference `base (tail)*` evaluated with the plain model parser.
    `pre` is where the Forward's own pre-parse (whitespace / ignorables) ends; `hpre` says the pre-parse of the `And` does
    not move from there (it repeats the Forward's own skipping, or `callPreparse` is off); `henv`: no growth of `E` is in
    progress at `pre` (the outermost visit).  That a base match ends at or after `pre` is a theorem here (`parse_adv`).

    NAMED `_partial` because the second half is missing: `iterRef … (baseOf …) (tailOf …)` is not yet shown equal to the
    model's `parse` of a node table for `And [b, ZeroOrMore (And [t…])]` (that needs: the wrappers of those three nodes
    — pre-parse of the `And`s / `ZeroOrMore`, IndexError conversion — and `manyLoop`'s `len+2` budget vs `iterLoop`'s;
    `iterLoop` has the shape of `manyLoop` with `stop_on = None` and no ignorables).  Also not covered: parse actions /
    results names on `E`, `m`, `sq`; base / tail that contain Forwards (e.g. a parenthesised recursion). -/
theorem parseLR_direct_eq_iterative_partial {g : Grammar} {E m sq b : Nat} {ts : List Nat} {nE nm nsq : Node}
    (h : DirectLR g E m sq b ts nE nm nsq) (s : List Char) {D : Nat → Prop} (hD : FwdFree g D) (hb : D b)
    (hts : ∀ t ∈ ts, D t) (f : Nat) (env : Env) (loc pre : Nat) (acts callPre : Bool)
    (hpreE : (if callPre && nE.callPre then preParse (parseLR g s (f + 3) env) nE s loc else PreR.at loc) = .at pre)
    (hpre : ∀ p, (if nsq.callPre then preParse p nsq s pre else PreR.at pre) = .at pre)
    (henv : env.get ⟨E, pre, acts⟩ = none)
    (hadv : ∀ e e' ts', pre ≤ e → tailOf g s (f + 1) ts false e = .ok e' ts' → e < e')
    (hbase : acts = true → AgreeOut (baseOf g s (f + 2) b pre false) (baseOf g s (f + 2) b pre true))
    (htail : acts = true → ∀ e, pre ≤ e → AgreeOut (tailOf g s (f + 1) ts false e) (tailOf g s (f + 1) ts true e)) :
    parseLR g s (f + 4) env E loc acts callPre
      = enhFix pre (iterRef s.length pre (baseOf g s (f + 2) b pre) (tailOf g s (f + 1) ts) acts (s.length + 1)) := by
  have hge : ∀ e0 ts0, baseOf g s (f + 2) b pre false = .ok e0 ts0 → pre ≤ e0 :=
    fun e0 ts0 h0 => parse_adv g s (f + 2) b pre false true e0 ts0 h0
  rw [parseLR]
  dsimp only
  rw [parseStepWith_plain g s _ _ E nE loc pre acts callPre h.hE h.aE (by intro ts; simp [postParse, h.kE]) hpreE]
  simp only [h.kE, henv]
  have key : growLoop (fun a' pk ak => enhanceImpl (parseLR g s (f + 3) (growEnv env E pre acts pk ak)) a' (some m) pre)
      acts pre (s.length + 2) (.fail .parse pre) (.fail .parse pre)
      = enhFix pre (iterRef s.length pre (baseOf g s (f + 2) b pre) (tailOf g s (f + 1) ts) acts (s.length + 1)) := by
    rw [growLoop_congr _ (fun a' pk ak => enhFix pre (lrBody s.length (baseOf g s (f + 2) b pre) (tailOf g s (f + 1) ts) a' pk ak))
      acts pre (by
        intro a' pk ak ha hpk hak
        exact parseLR_body_eq_lrBody h s hD hb hts f env pre acts a' pk ak hpre (by cases a' <;> simpa) ha)
      (s.length + 2) (.fail .parse pre) (.fail .parse pre) trivial trivial]
    rw [growLoop_enhFix (lrBody s.length (baseOf g s (f + 2) b pre) (tailOf g s (f + 1) ts)) acts pre pre
      (s.length + 2) _ _ (enhFix_seed pre) (enhFix_seed pre)]
    congr 1
    cases acts with
    | false => exact lr_direct_eq_iterative s.length pre _ _ (s.length + 1) hge hadv
    | true => exact lr_direct_eq_iterative_acts s.length pre _ _ (s.length + 1) hge hadv (hbase rfl) (htail rfl)
  have key' := key
  unfold growEnv at key'
  rw [key']
  exact idxConv_of_ne nE s.length pre _ (enhFix_ne_idx pre _ (iterRef_ne_idx _ _ _ _ _ _))

/-! ### non-vacuity on a node table: `E <<= E + '+' + '1' | '1'` with the flags of the live objects
    (`skipWhitespace`, `callPreparse` on everywhere), input "1+1 +1" -/
def exNode (k : Kind) : Node :=
  { kind := k, skipWs := true, white := [' ', '\n', '\t', '\r'], callPre := true, mayIdx := false, ignore := [],
    acts := [], callDuringTry := false, nameLen := 1 }

def exG : Grammar :=
  [exNode (.forward (some 1)), exNode (.matchFirst [2, 4]), exNode (.and [0, 3, 4]), exNode (.lit1 '+'), exNode (.lit1 '1')]

def exS : List Char := ['1', '+', '1', ' ', '+', '1']

example : parseLR exG exS 6 [] 0 0 false true = .ok 6 [.s ['1'], .s ['+'], .s ['1'], .s ['+'], .s ['1']] := by rfl

theorem exG_direct : DirectLR exG 0 1 2 4 [3, 4] (exNode (.forward (some 1))) (exNode (.matchFirst [2, 4]))
    (exNode (.and [0, 3, 4])) :=
  ⟨rfl, rfl, rfl, rfl, rfl, rfl, rfl, rfl, rfl⟩

theorem exG_fwdFree : FwdFree exG (fun i => i = 3 ∨ i = 4) where
  present := by intro i hi; rcases hi with rfl | rfl <;> exact ⟨_, rfl⟩
  closed := by
    intro i n hi hn c hc
    rcases hi with rfl | rfl <;> (cases hn; simp [Node.children, Kind.children, exNode] at hc)
  noFwd := by
    intro i n e hi hn
    rcases hi with rfl | rfl <;> (cases hn; simp [exNode])

/-- every hypothesis of `parseLR_direct_eq_iterative_partial` holds for it (the tail starts with the operator literal,
    so it strictly advances: `tailOf_strict`, `parse_lit1_strict`) -/
example : parseLR exG exS 6 [] 0 0 false true
    = enhFix 0 (iterRef exS.length 0 (baseOf exG exS 4 4 0) (tailOf exG exS 3 [3, 4]) false (exS.length + 1)) :=
  parseLR_direct_eq_iterative_partial exG_direct exS exG_fwdFree (Or.inr rfl)
    (by intro t ht; simp at ht; exact ht) 2 [] 0 0 false true rfl (fun _ => rfl) rfl
    (fun e e' ts' _ h => tailOf_strict exG exS 3 3 [4] rfl
      (parse_lit1_strict exG exS 2 3 _ '+' rfl rfl) false e e' ts' h)
    (by intro h; cases h) (by intro h; cases h)

/-! ## Second half: the iterative grammar as a node table, `I = And [b, Z]`, `Z = ZeroOrMore R`, `R = And (t0 :: rest)`
    (same table, same `b` / `t…`; `IterG`, PPProofs/Lemmas/LRIterG.lean) -/

/-- **C04 on the model parser, both halves**: `parseLR` on the direct left-recursive rule `E` equals the model's `parse`
    of the iterative grammar `I = b (t0 rest…)*` at the same (pre-parsed) location, same fuel — tokens AND end location AND
    failures — for every table, input, fuel, location, with or without actions, under the listed hypotheses.

    NAMED `_partial` because of the hypotheses `hpZ`, `hpR`, `ht0`, `hb0` (the pre-parse of `Z` and `R` does not move and
    the first elements `b`, `t0` ignore their `callPreParse` flag: no whitespace / ignorables in front of the operator at
    the positions visited).  They cannot simply be dropped: with whitespace after the last operand the two sides differ in
    the END LOCATION (`ZeroOrMore` returns the pre-parsed location when it matches nothing: `exG2_end_differs` below,
    replayed on the real code: `E._parse("1 ",0)` ends at 1, `(one + ZeroOrMore(plus + one))._parse("1 ",0)` at 2) — the
    tokens agree.  A whitespace-tolerant version (tokens and success only, or ends up to skipped whitespace) is not proved.
    Other hypotheses: as in `parseLR_direct_eq_iterative_partial`; matches end inside the input (`hbb`, `hbd`: budgets
    `len+2` suffice); the base's failure is a ParseException at or after `pre` (else `MatchFirst` reports the seed's
    location), not a raw IndexError, and does not run out of fuel one level earlier (`hnh`). -/
theorem parseLR_direct_eq_parse_iterative_partial {g : Grammar} {E m sq b t0 I Z R : Nat} {rest : List Nat}
    {nE nm nsq nI nZ nR : Node}
    (h : DirectLR g E m sq b (t0 :: rest) nE nm nsq) (hi : IterG g I Z R b t0 rest nI nZ nR)
    (s : List Char) {D : Nat → Prop} (hD : FwdFree g D) (hb : D b)
    (hts : ∀ t ∈ t0 :: rest, D t) (f : Nat) (env : Env) (loc pre : Nat) (acts callPre : Bool)
    (hpreE : (if callPre && nE.callPre then preParse (parseLR g s (f + 3) env) nE s loc else PreR.at loc) = .at pre)
    (hpre : ∀ p, (if nsq.callPre then preParse p nsq s pre else PreR.at pre) = .at pre)
    (henv : env.get ⟨E, pre, acts⟩ = none)
    (hadv : ∀ a e e' ts', tailOf g s (f + 1) (t0 :: rest) a e = .ok e' ts' → e < e')
    (hbase : acts = true → AgreeOut (baseOf g s (f + 2) b pre false) (baseOf g s (f + 2) b pre true))
    (htail : acts = true → ∀ e, pre ≤ e →
      AgreeOut (tailOf g s (f + 1) (t0 :: rest) false e) (tailOf g s (f + 1) (t0 :: rest) true e))
    (hpZ : ∀ p e, (if nZ.callPre then preParse p nZ s e else PreR.at e) = .at e)
    (hpR : ∀ p e, (if nR.callPre then preParse p nR s e else PreR.at e) = .at e)
    (ht0 : ∀ e a, parse g s (f + 1) t0 e a false = parse g s (f + 1) t0 e a true)
    (hb0 : parse g s (f + 3) b pre acts false = parse g s (f + 3) b pre acts true)
    (hnh : baseOf g s (f + 2) b pre acts ≠ .hang)
    (hbidx : baseOf g s (f + 2) b pre acts ≠ .idx)
    (hbl : ∀ l, baseOf g s (f + 2) b pre acts = .fail .parse l → pre ≤ l)
    (hbb : ∀ e0 ts0, baseOf g s (f + 2) b pre acts = .ok e0 ts0 → e0 ≤ s.length)
    (hbd : ∀ e e' ts', tailOf g s (f + 1) (t0 :: rest) acts e = .ok e' ts' → e' ≤ s.length) :
    parseLR g s (f + 4) env E loc acts callPre = enhFix pre (parse g s (f + 4) I pre acts false) := by
  rw [parseLR_direct_eq_iterative_partial h s hD hb hts f env loc pre acts callPre hpreE hpre henv
    (fun e e' ts' _ h1 => hadv false e e' ts' h1) hbase htail]
  rw [parse_I_step hi s (f + 1) hpZ hpR ht0 pre acts hb0 (hadv acts)]
  have hfuel : baseOf g s (f + 1 + 2) b pre acts = baseOf g s (f + 2) b pre acts :=
    parse_step_mono g s (f + 2) b pre acts true _ rfl hnh
  rw [hfuel]
  congr 1
  unfold iterRef
  cases hbv : baseOf g s (f + 2) b pre acts with
  | ok e0 ts0 =>
    have h1 := hbb e0 ts0 hbv
    exact iterLoop_budget _ acts s.length hbd (s.length + 1) (s.length + 3) e0 ts0 h1 (by omega) (by omega)
  | fail c l =>
    cases c with
    | parse =>
      have := hbl l hbv
      simp only [mfSecond, idxConv]
      by_cases hl : l > pre
      · simp [hl]
      · have : l = pre := by omega
        simp [this]
    | fatal => rfl
    | «syntax» => rfl
  | idx => exact absurd hbv hbidx
  | hang => rfl

/-- the example table extended by the iterative grammar: `5 = And [4, 6]`, `6 = ZeroOrMore 7`, `7 = And [3, 4]` -/
def exG2 : Grammar := exG ++ [exNode (.and [4, 6]), exNode (.many 7 none false), exNode (.and [3, 4])]

/-- on "1+1+1" (no whitespace) both sides give the same outcome -/
example : parseLR exG2 ['1', '+', '1', '+', '1'] 6 [] 0 0 false true = parse exG2 ['1', '+', '1', '+', '1'] 6 5 0 false false := by
  rfl

/-- why the whitespace hypotheses cannot be dropped for an equality of outcomes: same tokens, different end -/
theorem exG2_end_differs :
    parseLR exG2 ['1', ' '] 8 [] 0 0 false true = .ok 1 [.s ['1']] ∧
    parse exG2 ['1', ' '] 8 5 0 false true = .ok 2 [.s ['1']] := ⟨rfl, rfl⟩

/-! non-vacuity of `parseLR_direct_eq_parse_iterative_partial`: every hypothesis holds for `exG2` on "1+1+1" -/
def exS5 : List Char := ['1', '+', '1', '+', '1']

theorem exS5_nows : ∀ c ∈ exS5, mem c [' ', '\n', '\t', '\r'] = false := by decide

theorem exG2_pre (k : Kind) (hk : ∀ w o, k ≠ .lineStart w o) (p : P) (e : Nat) :
    (if (exNode k).callPre then preParse p (exNode k) exS5 e else PreR.at e) = .at e := by
  have : preParse p (exNode k) exS5 e = .at e := by
    unfold preParse
    cases k <;> simp [exNode, skipWhite_none _ _ exS5_nows] <;> exact absurd rfl (hk _ _)
  have hc : (exNode k).callPre = true := rfl
  rw [hc, if_pos rfl, this]

theorem exG2_callPre (n t : Nat) (k : Kind) (hk : ∀ w o, k ≠ .lineStart w o) (hg : exG2[t]? = some (exNode k))
    (e : Nat) (a : Bool) :
    parse exG2 exS5 (n + 1) t e a false = parse exG2 exS5 (n + 1) t e a true := by
  simp only [parse]
  apply parseStep_callPre_irrel exG2 exS5 _ t (exNode k) e a hg
  have := exG2_pre k hk (parse exG2 exS5 n) e
  simpa [exNode] using this

example : parseLR exG2 exS5 6 [] 0 0 false true = enhFix 0 (parse exG2 exS5 6 5 0 false false) :=
  parseLR_direct_eq_parse_iterative_partial (g := exG2) (E := 0) (m := 1) (sq := 2) (b := 4) (t0 := 3) (I := 5) (Z := 6)
    (R := 7) (rest := [4])
    ⟨rfl, rfl, rfl, rfl, rfl, rfl, rfl, rfl, rfl⟩ ⟨rfl, rfl, rfl, rfl, rfl, rfl, rfl, rfl, rfl, rfl, rfl⟩
    exS5 (D := fun i => i = 3 ∨ i = 4)
    { present := by intro i hi; rcases hi with rfl | rfl <;> exact ⟨_, rfl⟩
      closed := by
        intro i n hi hn c hc
        rcases hi with rfl | rfl <;> (cases hn; simp [Node.children, Kind.children, exNode] at hc)
      noFwd := by
        intro i n e hi hn
        rcases hi with rfl | rfl <;> (cases hn; simp [exNode]) }
    (Or.inr rfl) (by intro t ht; simp at ht; exact ht) 2 [] 0 0 false true rfl (fun _ => rfl) rfl
    (fun a e e' ts' h1 => tailOf_strict exG2 exS5 3 3 [4] rfl
      (parse_lit1_strict exG2 exS5 2 3 _ '+' rfl rfl) a e e' ts' h1)
    (by intro h; cases h) (by intro h; cases h)
    (exG2_pre _ (by intro w o h; cases h)) (exG2_pre _ (by intro w o h; cases h))
    (exG2_callPre 2 3 (.lit1 '+') (by intro w o h; cases h) rfl)
    (exG2_callPre 4 4 (.lit1 '1') (by intro w o h; cases h) rfl 0 false)
    (by intro h; have e : baseOf exG2 exS5 4 4 0 false = .ok 1 [.s ['1']] := rfl
        rw [e] at h; cases h)
    (by intro h; have e : baseOf exG2 exS5 4 4 0 false = .ok 1 [.s ['1']] := rfl
        rw [e] at h; cases h)
    (by intro l h; have e : baseOf exG2 exS5 4 4 0 false = .ok 1 [.s ['1']] := rfl
        rw [e] at h; cases h)
    (by intro e0 ts0 h; have e : baseOf exG2 exS5 4 4 0 false = .ok 1 [.s ['1']] := rfl
        rw [e] at h; cases h; decide)
    (by
      intro e e' ts' h1
      rw [tailOf_cons exG2 exS5 3 3 [4] false e rfl] at h1
      cases h3 : parse exG2 exS5 3 3 e false true with
      | ok l tk =>
        rw [h3] at h1
        simp only at h1
        rw [andRest] at h1
        have hs4 : isStopOf exG2 4 = false := rfl
        simp only [hs4, Bool.false_eq_true, if_false] at h1
        cases h4 : parse exG2 exS5 3 4 l false true with
        | ok l2 t2 =>
          rw [h4] at h1
          simp [andRest] at h1
          obtain ⟨rfl, _⟩ := h1
          exact parse_lit1_end_le exG2 exS5 2 4 _ '1' rfl rfl _ _ _ _ _ h4
        | fail c l2 => rw [h4] at h1; simp at h1
        | idx => rw [h4] at h1; simp at h1
        | hang => rw [h4] at h1; simp at h1
      | fail c l => rw [h3] at h1; simp at h1
      | idx => rw [h3] at h1; simp at h1
      | hang => rw [h3] at h1; simp at h1)

/-! ## With whitespace skipping: same tokens, same failures; the end may lie after skipped whitespace -/

/-- `y` is `x`, except that a match may end at `z e` instead of `e` (same tokens) -/
def SameButEnd (z : Nat → Nat) (x y : Out) : Prop :=
  match x with
  | .ok e ts => ∃ e', y = .ok e' ts ∧ (e' = e ∨ e' = z e)
  | _ => y = x

theorem SameButEnd.refl (z : Nat → Nat) (x : Out) : SameButEnd z x x := by
  cases x <;> simp [SameButEnd]

/-- **C04 on the model parser with whitespace skipping**: the pre-parse of `Z = ZeroOrMore R` and `R = And (t0 :: rest)`
    may move (to `skZ e` / `skR e`), provided the first tail element `t0` skips at least as much itself (`ht0`, `ht0Z`: its
    outcome with pre-parse at `e` is its outcome at `skZ e`, and without pre-parse at `skR e`) — the situation of the live
    objects (all share the default whitespace characters, `skipWhitespace` on).  Then `parseLR` on `E` and `parse` on the
    iterative grammar `I` give the SAME TOKENS and the same failures; the end locations agree except when the repetition
    matches nothing, where `I` ends at `skZ e` (`exG2_end_differs`).
    `_partial`: still assumed — `b` ignores its `callPreParse` flag at `pre` (`hb0`), no actions / names on the five
    wrapper nodes, Forward-free base / tail, matches end inside the input, base failure at or after `pre`. -/
theorem parseLR_direct_eq_parse_iterative_ws_partial {g : Grammar} {E m sq b t0 I Z R : Nat} {rest : List Nat}
    {nE nm nsq nI nZ nR : Node}
    (h : DirectLR g E m sq b (t0 :: rest) nE nm nsq) (hi : IterG g I Z R b t0 rest nI nZ nR)
    (s : List Char) {D : Nat → Prop} (hD : FwdFree g D) (hb : D b)
    (hts : ∀ t ∈ t0 :: rest, D t) (f : Nat) (env : Env) (loc pre : Nat) (acts callPre : Bool) (skZ skR : Nat → Nat)
    (hpreE : (if callPre && nE.callPre then preParse (parseLR g s (f + 3) env) nE s loc else PreR.at loc) = .at pre)
    (hpre : ∀ p, (if nsq.callPre then preParse p nsq s pre else PreR.at pre) = .at pre)
    (henv : env.get ⟨E, pre, acts⟩ = none)
    (hadv : ∀ a e e' ts', tailOf g s (f + 1) (t0 :: rest) a e = .ok e' ts' → e < e')
    (hbase : acts = true → AgreeOut (baseOf g s (f + 2) b pre false) (baseOf g s (f + 2) b pre true))
    (htail : acts = true → ∀ e, pre ≤ e →
      AgreeOut (tailOf g s (f + 1) (t0 :: rest) false e) (tailOf g s (f + 1) (t0 :: rest) true e))
    (hpZ : ∀ p e, (if nZ.callPre then preParse p nZ s e else PreR.at e) = .at (skZ e))
    (hpR : ∀ p e, (if nR.callPre then preParse p nR s e else PreR.at e) = .at (skR e))
    (ht0 : ∀ e a, parse g s (f + 1) t0 (skR e) a false = parse g s (f + 1) t0 e a true)
    (ht0Z : ∀ e a, parse g s (f + 1) t0 (skZ e) a true = parse g s (f + 1) t0 e a true)
    (hb0 : parse g s (f + 3) b pre acts false = parse g s (f + 3) b pre acts true)
    (hnh : baseOf g s (f + 2) b pre acts ≠ .hang)
    (hbidx : baseOf g s (f + 2) b pre acts ≠ .idx)
    (hbl : ∀ l, baseOf g s (f + 2) b pre acts = .fail .parse l → pre ≤ l)
    (hbb : ∀ e0 ts0, baseOf g s (f + 2) b pre acts = .ok e0 ts0 → e0 ≤ s.length)
    (hbd : ∀ e e' ts', tailOf g s (f + 1) (t0 :: rest) acts e = .ok e' ts' → e' ≤ s.length) :
    ∃ X, parseLR g s (f + 4) env E loc acts callPre = enhFix pre X ∧
      SameButEnd skZ X (parse g s (f + 4) I pre acts false) := by
  refine ⟨_, parseLR_direct_eq_iterative_partial h s hD hb hts f env loc pre acts callPre hpreE hpre henv
    (fun e e' ts' _ h1 => hadv false e e' ts' h1) hbase htail, ?_⟩
  rw [parse_I_step_ws hi s (f + 1) skZ skR hpZ hpR ht0 ht0Z pre acts hb0 (hadv acts)]
  have hfuel : baseOf g s (f + 1 + 2) b pre acts = baseOf g s (f + 2) b pre acts :=
    parse_step_mono g s (f + 2) b pre acts true _ rfl hnh
  rw [hfuel]
  unfold iterRef
  cases hbv : baseOf g s (f + 2) b pre acts with
  | ok e0 ts0 =>
    have h1 := hbb e0 ts0 hbv
    have hbud := iterLoop_budget _ acts s.length hbd (s.length + 1) (s.length + 3) e0 ts0 h1 (by omega) (by omega)
    simp only
    rw [hbud]
    unfold iterLoopZ
    cases ht : tailOf g s (f + 1) (t0 :: rest) acts e0 with
    | ok l ts => exact SameButEnd.refl _ _
    | fail c l =>
      cases c with
      | parse =>
        rw [iterLoop, ht]
        exact ⟨_, rfl, Or.inr rfl⟩
      | fatal => exact SameButEnd.refl _ _
      | «syntax» => exact SameButEnd.refl _ _
    | idx =>
      rw [iterLoop, ht]
      exact ⟨_, rfl, Or.inr rfl⟩
    | hang => exact SameButEnd.refl _ _
  | fail c l =>
    cases c with
    | parse =>
      have := hbl l hbv
      simp only [mfSecond, idxConv, SameButEnd]
      by_cases hl : l > pre
      · simp [hl]
      · have : l = pre := by omega
        simp [this]
    | fatal => exact SameButEnd.refl _ _
    | «syntax» => exact SameButEnd.refl _ _
  | idx => exact absurd hbv hbidx
  | hang => exact SameButEnd.refl _ _

/-! non-vacuity of `parseLR_direct_eq_parse_iterative_ws_partial`: `exG2` (flags of the live objects) on "1 +1 " — whitespace
    before the operator and after the last operand -/
def exSw : List Char := ['1', ' ', '+', '1', ' ']

def exSk (e : Nat) : Nat := skipWhite [' ', '\n', '\t', '\r'] exSw e

example : parseLR exG2 exSw 6 [] 0 0 false true = .ok 4 [.s ['1'], .s ['+'], .s ['1']] ∧
    parse exG2 exSw 6 5 0 false false = .ok 4 [.s ['1'], .s ['+'], .s ['1']] := ⟨rfl, rfl⟩

theorem exG2_tail_end (s : List Char) (a : Bool) :
    ∀ e e' ts', tailOf exG2 s 3 [3, 4] a e = .ok e' ts' → e' ≤ s.length := by
  intro e e' ts' h1
  rw [tailOf_cons exG2 s 3 3 [4] a e rfl] at h1
  cases h3 : parse exG2 s 3 3 e a true with
  | ok l tk =>
    rw [h3] at h1
    simp only at h1
    rw [andRest] at h1
    have hs4 : isStopOf exG2 4 = false := rfl
    simp only [hs4, Bool.false_eq_true, if_false] at h1
    cases h4 : parse exG2 s 3 4 l a true with
    | ok l2 t2 =>
      rw [h4] at h1
      simp [andRest] at h1
      obtain ⟨rfl, _⟩ := h1
      exact parse_lit1_end_le exG2 s 2 4 _ '1' rfl rfl _ _ _ _ _ h4
    | fail c l2 => rw [h4] at h1; simp at h1
    | idx => rw [h4] at h1; simp at h1
    | hang => rw [h4] at h1; simp at h1
  | fail c l => rw [h3] at h1; simp at h1
  | idx => rw [h3] at h1; simp at h1
  | hang => rw [h3] at h1; simp at h1

theorem exG2_t0_shift (e : Nat) (a : Bool) :
    parse exG2 exSw 3 3 e a true = parse exG2 exSw 3 3 (exSk e) a false :=
  parseStep_callPre_shift exG2 exSw (parse exG2 exSw 2) 3 (exNode (.lit1 '+')) e (exSk e) a rfl rfl rfl

example : ∃ X, parseLR exG2 exSw 6 [] 0 0 false true = enhFix 0 X ∧
    SameButEnd exSk X (parse exG2 exSw 6 5 0 false false) :=
  parseLR_direct_eq_parse_iterative_ws_partial (g := exG2) (E := 0) (m := 1) (sq := 2) (b := 4) (t0 := 3) (I := 5)
    (Z := 6) (R := 7) (rest := [4])
    ⟨rfl, rfl, rfl, rfl, rfl, rfl, rfl, rfl, rfl⟩ ⟨rfl, rfl, rfl, rfl, rfl, rfl, rfl, rfl, rfl, rfl, rfl⟩
    exSw (D := fun i => i = 3 ∨ i = 4)
    { present := by intro i hi; rcases hi with rfl | rfl <;> exact ⟨_, rfl⟩
      closed := by
        intro i n hi hn c hc
        rcases hi with rfl | rfl <;> (cases hn; simp [Node.children, Kind.children, exNode] at hc)
      noFwd := by
        intro i n e hi hn
        rcases hi with rfl | rfl <;> (cases hn; simp [exNode]) }
    (Or.inr rfl) (by intro t ht; simp at ht; exact ht) 2 [] 0 0 false true exSk exSk rfl (fun _ => rfl) rfl
    (fun a e e' ts' h1 => tailOf_strict exG2 exSw 3 3 [4] rfl
      (parse_lit1_strict exG2 exSw 2 3 _ '+' rfl rfl) a e e' ts' h1)
    (by intro h; cases h) (by intro h; cases h)
    (fun _ _ => rfl) (fun _ _ => rfl)
    (fun e a => (exG2_t0_shift e a).symm)
    (fun e a => by
      rw [exG2_t0_shift (exSk e) a, exG2_t0_shift e a]
      unfold exSk
      rw [skipWhite_idem])
    rfl
    (by intro h; have e : baseOf exG2 exSw 4 4 0 false = .ok 1 [.s ['1']] := rfl
        rw [e] at h; cases h)
    (by intro h; have e : baseOf exG2 exSw 4 4 0 false = .ok 1 [.s ['1']] := rfl
        rw [e] at h; cases h)
    (by intro l h; have e : baseOf exG2 exSw 4 4 0 false = .ok 1 [.s ['1']] := rfl
        rw [e] at h; cases h)
    (by intro e0 ts0 h; have e : baseOf exG2 exSw 4 4 0 false = .ok 1 [.s ['1']] := rfl
        rw [e] at h; cases h; decide)
    (exG2_tail_end exSw false)

end PP.Parse
