import PPProofs.Lemmas.PegSem
import PPModel.Mod.Entry
/-!
# C01 — closed theorem: the parsing algorithm computes the PEG reading (plain fragment)

`Sem` (Props/C01SemDef.lean) is the PEG reading with pyparsing's whitespace rule as one inductive big-step relation.
For every *plain* node table (`Plain g`: literals, Empty, NoMatch, StringEnd, the character-class terminals, And, MatchFirst, Or, Opt, OneOrMore, ZeroOrMore,
NotAny, FollowedBy, Group, Suppress, Combine, Forward and plain wrappers, any whitespace configuration, arbitrary sharing and
recursion through Forward; no parse actions / results names / ignorables / error stops), every input, every
location, both values of `callPreParse` and of `doActions`, and every fuel:

* `plain_parse_sound`     whatever `_parseNoCache` (the transcribed algorithm `parse`) returns is what the reading says:
                          a match is *the* match of the reading (same end, same tokens), a `ParseException` means the
                          reading has no match, and neither a fatal exception nor an `IndexError` can come out;
* `sem_deterministic`     the reading assigns at most one result to a task (ordered choice, greedy repetition and
                          lookahead leave no freedom);
* `plain_parse_iff_sem`   hence, for every run that returns: `parse … = ok e ts ↔ Sem … (some (e, ts))` and
                          `parse … fails ↔ Sem … none`;
* `plain_parse_stable`    two returning runs (any fuels, any `doActions`) give the same match.

* `plain_parse_complete`  conversely, every result the reading derives (at a location inside the string, `≤ len + 1`) is
                          returned by the algorithm once the fuel is large enough — for both values of `doActions`;
* `plain_parse_eq_sem`    hence the closed statement: `(∃ fuel, parse … = ok e ts) ↔ Sem … (some (e, ts))`,
                          `(∃ fuel l, parse … = fail l) ↔ Sem … none`, and the algorithm returns for some fuel **iff**
                          the reading assigns the task a result at all (`plain_parse_returns_iff`): the runs that never
                          return (a repetition body matching without advancing, a `Forward` recursing without
                          consuming) are exactly the tasks the reading leaves undefined.

* `parse_string_iff_sem` / `parse_string_all_iff_sem`  the same at the entry point the property observes: the transcribed
                          `parse_string(s)` returns `(l, ts)` for some fuel iff the reading derives that match for the root
                          at location 0; with `parse_all=True` iff in addition only skippable whitespace follows.

PARTIAL w.r.t. the whole combinator language: the fragment excludes `Each`, `SkipTo`, `Located`, `Regex` terminals, `stop_on`, parse actions / results names and ignorables, for
which the clause theorems of Props/C01.lean and the reference-interpreter oracle remain the evidence.
-/
namespace PP.Parse

/-- soundness: the algorithm's answer is the reading's answer -/
theorem plain_parse_sound (g : Grammar) (s : List Char) (hg : Plain g) (f id loc : Nat) (a cp : Bool) :
    match parse g s f id loc a cp with
    | .ok e ts => Sem g s (.node id loc cp) (some (e, ts))
    | .fail c _ => c = .parse ∧ Sem g s (.node id loc cp) none
    | .idx => False
    | .hang => True :=
  parse_sound hg f id loc a cp

/-- what the driver answers for entry `plain` is exactly the hypothesis `Plain g` -/
theorem plainTable_iff (g : Grammar) : plainTable g = true ↔ Plain g := by
  simp [plainTable, Plain, List.all_eq_true]

/-- the reading is a partial function of the task -/
theorem sem_deterministic (g : Grammar) (s : List Char) (t : Task) (r1 r2 : Res)
    (h1 : Sem g s t r1) (h2 : Sem g s t r2) : r1 = r2 :=
  Sem.det h1 r2 h2

/-- for every returning run, success and failure of the algorithm are exactly those of the reading -/
theorem plain_parse_iff_sem (g : Grammar) (s : List Char) (hg : Plain g) (f id loc : Nat) (a cp : Bool)
    (hret : parse g s f id loc a cp ≠ .hang) :
    (∀ e ts, parse g s f id loc a cp = .ok e ts ↔ Sem g s (.node id loc cp) (some (e, ts))) ∧
    ((∃ c l, parse g s f id loc a cp = .fail c l) ↔ Sem g s (.node id loc cp) none) := by
  have h := plain_parse_sound g s hg f id loc a cp
  cases hp : parse g s f id loc a cp with
  | ok e0 t0 =>
    rw [hp] at h
    refine ⟨fun e ts => ⟨fun he => (by cases he; exact h), fun hs => ?_⟩, ⟨fun ⟨c, l, hc⟩ => (by cases hc), fun hs => ?_⟩⟩
    · have := sem_deterministic g s _ _ _ h hs
      simp only [Option.some.injEq, Prod.mk.injEq] at this
      rw [this.1, this.2]
    · exact absurd (sem_deterministic g s _ _ _ h hs) (by simp)
  | fail c l =>
    rw [hp] at h
    refine ⟨fun e ts => ⟨fun he => (by cases he), fun hs => ?_⟩, ⟨fun _ => h.2, fun _ => ⟨c, l, rfl⟩⟩⟩
    exact absurd (sem_deterministic g s _ _ _ h.2 hs) (by simp)
  | idx => rw [hp] at h; exact h.elim
  | hang => exact absurd hp hret

/-- a match does not depend on the fuel or on `doActions` (there are no actions to run in the plain fragment) -/
theorem plain_parse_stable (g : Grammar) (s : List Char) (hg : Plain g) (f1 f2 id loc : Nat) (a1 a2 cp : Bool)
    (e1 e2 : Nat) (t1 t2 : List Tok) (h1 : parse g s f1 id loc a1 cp = .ok e1 t1)
    (h2 : parse g s f2 id loc a2 cp = .ok e2 t2) : e1 = e2 ∧ t1 = t2 := by
  have s1 := plain_parse_sound g s hg f1 id loc a1 cp
  have s2 := plain_parse_sound g s hg f2 id loc a2 cp
  rw [h1] at s1; rw [h2] at s2
  have := sem_deterministic g s _ _ _ s1 s2
  simpa using this

/-- … and a match by one run excludes a failure by another -/
theorem plain_parse_ok_excludes_fail (g : Grammar) (s : List Char) (hg : Plain g) (f1 f2 id loc : Nat) (a1 a2 cp : Bool)
    (e1 : Nat) (t1 : List Tok) (c : Exc) (l : Nat) (h1 : parse g s f1 id loc a1 cp = .ok e1 t1)
    (h2 : parse g s f2 id loc a2 cp = .fail c l) : False := by
  have s1 := plain_parse_sound g s hg f1 id loc a1 cp
  have s2 := plain_parse_sound g s hg f2 id loc a2 cp
  rw [h1] at s1; rw [h2] at s2
  exact absurd (sem_deterministic g s _ _ _ s1 s2.2) (by simp)

/-- completeness: what the reading derives, the algorithm returns (for every `doActions`) once the fuel suffices -/
theorem plain_parse_complete (g : Grammar) (s : List Char) (hg : Plain g) (id loc : Nat) (cp : Bool)
    (hl : loc ≤ s.length + 1) (r : Res) (h : Sem g s (.node id loc cp) r) :
    ∃ f, ∀ a, match r with
      | some x => parse g s f id loc a cp = .ok x.1 x.2
      | none => ∃ l, parse g s f id loc a cp = .fail .parse l := by
  obtain ⟨f, hf⟩ := Sem.complete hg h hl
  refine ⟨f, fun a => ?_⟩
  have := hf a
  cases r with
  | some x => exact this
  | none => exact this

/-- the closed statement for the plain fragment: the algorithm (at sufficient fuel) and the reading coincide -/
theorem plain_parse_eq_sem (g : Grammar) (s : List Char) (hg : Plain g) (id loc : Nat) (a cp : Bool)
    (hl : loc ≤ s.length + 1) :
    (∀ e ts, (∃ f, parse g s f id loc a cp = .ok e ts) ↔ Sem g s (.node id loc cp) (some (e, ts))) ∧
    ((∃ f c l, parse g s f id loc a cp = .fail c l) ↔ Sem g s (.node id loc cp) none) := by
  refine ⟨fun e ts => ⟨fun ⟨f, hf⟩ => ?_, fun hs => ?_⟩, ⟨fun ⟨f, c, l, hf⟩ => ?_, fun hs => ?_⟩⟩
  · have := plain_parse_sound g s hg f id loc a cp; rw [hf] at this; exact this
  · obtain ⟨f, h⟩ := plain_parse_complete g s hg id loc cp hl _ hs; exact ⟨f, h a⟩
  · have := plain_parse_sound g s hg f id loc a cp; rw [hf] at this; exact this.2
  · obtain ⟨f, h⟩ := plain_parse_complete g s hg id loc cp hl _ hs
    obtain ⟨l, h⟩ := h a
    exact ⟨f, .parse, l, h⟩

/-- the algorithm returns (for some fuel) exactly on the tasks to which the reading assigns a result -/
theorem plain_parse_returns_iff (g : Grammar) (s : List Char) (hg : Plain g) (id loc : Nat) (a cp : Bool)
    (hl : loc ≤ s.length + 1) :
    (∃ f, parse g s f id loc a cp ≠ .hang) ↔ ∃ r, Sem g s (.node id loc cp) r := by
  constructor
  · rintro ⟨f, hf⟩
    have h := plain_parse_sound g s hg f id loc a cp
    cases hp : parse g s f id loc a cp with
    | ok e ts => rw [hp] at h; exact ⟨_, h⟩
    | fail c l => rw [hp] at h; exact ⟨_, h.2⟩
    | idx => rw [hp] at h; exact h.elim
    | hang => exact absurd hp hf
  · rintro ⟨r, hs⟩
    obtain ⟨f, h⟩ := plain_parse_complete g s hg id loc cp hl r hs
    refine ⟨f, ?_⟩
    have := h a
    cases r with
    | some x => simp only at this; rw [this]; simp
    | none => obtain ⟨l, this⟩ := this; rw [this]; simp

/-! ### the entry point: `parse_string` -/


/-- where the end-of-text test of `parse_all=True` looks: after the root's own skipping and the default whitespace -/
def endProbe (nd : Node) (dw s : List Char) (l : Nat) : Nat :=
  skipWhite dw s (skipWhite dw s (if nd.skipWs then skipWhite nd.white s l else l))

/-- `parse_string(s)` (parse_all=False) of a plain grammar succeeds with end `l` and tokens `ts` — for some fuel — exactly
    when the reading derives that match for the root at location 0 -/
theorem parse_string_iff_sem (g : Grammar) (s dw : List Char) (hg : Plain g) (root l : Nat) (ts : List Tok) :
    (∃ f, parseString (parse g s f) g root dw s false = .ok l ts) ↔ Sem g s (.node root 0 true) (some (l, ts)) := by
  have key := (plain_parse_eq_sem g s hg root 0 true true (by omega)).1 l ts
  have hps : ∀ f, parseString (parse g s f) g root dw s false = parse g s f root 0 true true := by
    intro f; unfold parseString; cases parse g s f root 0 true true <;> simp
  simp only [hps]
  exact key

/-- … and with `parse_all=True` exactly when, in addition, only skippable whitespace follows the match -/
theorem parse_string_all_iff_sem (g : Grammar) (s dw : List Char) (hg : Plain g) (root l : Nat) (ts : List Tok)
    (nd : Node) (hroot : g[root]? = some nd) :
    (∃ f, parseString (parse g s f) g root dw s true = .ok l ts) ↔
      (Sem g s (.node root 0 true) (some (l, ts)) ∧ s.length ≤ endProbe nd dw s l) := by
  have key := (plain_parse_eq_sem g s hg root 0 true true (by omega)).1 l ts
  have hn := hg nd (List.mem_of_getElem? hroot)
  have hps : ∀ f l' ts', parse g s f root 0 true true = .ok l' ts' →
      parseString (parse g s f) g root dw s true =
        (match stringEndImpl s (endProbe nd dw s l') with
         | .ok _ _ => .ok l' ts'
         | o => o) := by
    intro f l' ts' h
    unfold parseString
    simp only [h, if_true, hroot, preParse_plain _ nd hn, stringEndCheck, endProbe]
    rfl
  constructor
  · rintro ⟨f, hf⟩
    cases hp : parse g s f root 0 true true with
    | ok l' ts' =>
      rw [hps f l' ts' hp] at hf
      by_cases hlt : endProbe nd dw s l' < s.length
      · have hse : stringEndImpl s (endProbe nd dw s l') = .fail .parse (endProbe nd dw s l') := by
          simp [stringEndImpl, hlt]
        rw [hse] at hf; simp at hf
      · obtain ⟨e, hse⟩ : ∃ e, stringEndImpl s (endProbe nd dw s l') = .ok e [] := by
          unfold stringEndImpl; simp only [hlt, if_false]; split <;> exact ⟨_, rfl⟩
        rw [hse] at hf
        simp only [Out.ok.injEq] at hf
        obtain ⟨rfl, rfl⟩ := hf
        exact ⟨key.mp ⟨f, hp⟩, by omega⟩
    | fail c l' => unfold parseString at hf; simp [hp] at hf
    | idx => unfold parseString at hf; simp [hp] at hf
    | hang => unfold parseString at hf; simp [hp] at hf
  · rintro ⟨hs, hend⟩
    obtain ⟨f, hf⟩ := key.mpr hs
    refine ⟨f, ?_⟩
    rw [hps f l ts hf]
    obtain ⟨e, hse⟩ : ∃ e, stringEndImpl s (endProbe nd dw s l) = .ok e [] := by
      have : ¬ endProbe nd dw s l < s.length := by omega
      unfold stringEndImpl; simp only [this, if_false]; split <;> exact ⟨_, rfl⟩
    rw [hse]


/-! ### non-vacuity: a concrete plain table with sharing, recursion through a Forward and mixed whitespace settings -/

private def nd (k : Kind) (skip : Bool := true) : Node :=
  { kind := k, skipWs := skip, white := [' ', '\n'], callPre := true, mayIdx := false, ignore := [], acts := [],
    callDuringTry := false, nameLen := 1 }

/-- `F <<= Group('(' + F[...] + ')') | 'ab'` with a non-skipping `')'`; node 6 is `F[1, ...] + StringEnd()` -/
private def gEx : Grammar :=
  [ nd (.lit1 '('), nd (.lit1 ')') false, nd (.lit ['a', 'b']), nd (.forward (some 4)),
    nd (.matchFirst [5, 2]), nd (.group 8), nd (.and [7, 9]), nd (.many 3 none true), nd (.and [0, 10, 1]),
    nd .stringEnd, nd (.many 3 none false) ]

example : Plain gEx := by decide
/-- end position and matched text of a returned match (tokens carry no decidable equality) -/
private def okView : Out → Option (Nat × List Char × Nat)
  | .ok e ts => some (e, strsL ts, (flatL ts).length)
  | _ => none
private def failView : Out → Option Nat
  | .fail .parse l => some l
  | _ => none
example : okView (parse gEx " ( ab (ab))ab".toList 40 6 0 true true) = some (14, "(ab(ab))ab".toList, 2) := by
  decide +kernel
/-- the blank before the non-skipping `')'` makes the algorithm — hence the reading — fail -/
example : failView (parse gEx "(ab )".toList 40 6 0 true true) = some 3 := by decide +kernel
private theorem sem_of_failView (g : Grammar) (s : List Char) (hg : Plain g) (f id loc : Nat) (a cp : Bool) (l : Nat)
    (hv : failView (parse g s f id loc a cp) = some l) : Sem g s (.node id loc cp) none := by
  have h := plain_parse_sound g s hg f id loc a cp
  cases hq : parse g s f id loc a cp with
  | fail c l => rw [hq] at h; exact h.2
  | ok _ _ => rw [hq] at hv; cases hv
  | idx => rw [hq] at hv; cases hv
  | hang => rw [hq] at hv; cases hv
private theorem sem_of_okView (g : Grammar) (s : List Char) (hg : Plain g) (f id loc : Nat) (a cp : Bool)
    (v : Nat × List Char × Nat) (hv : okView (parse g s f id loc a cp) = some v) :
    ∃ ts, Sem g s (.node id loc cp) (some (v.1, ts)) ∧ strsL ts = v.2.1 := by
  have h := plain_parse_sound g s hg f id loc a cp
  cases hq : parse g s f id loc a cp with
  | ok e ts =>
    rw [hq] at h hv
    simp only [okView, Option.some.injEq] at hv
    subst hv
    exact ⟨ts, h, rfl⟩
  | fail _ _ => rw [hq] at hv; cases hv
  | idx => rw [hq] at hv; cases hv
  | hang => rw [hq] at hv; cases hv
/-- `'a' ^ 'ab' ^ 'ab'`: the longest alternative wins although it is not the first -/
private def gOr : Grammar := [nd (.lit1 'a'), nd (.lit ['a', 'b']), nd (.or [0, 1, 1])]
example : Plain gOr := by decide
example : okView (parse gOr " ab".toList 10 2 0 false true) = some (3, "ab".toList, 1) := by decide +kernel
example : ∃ ts, Sem gOr " ab".toList (.node 2 0 true) (some (3, ts)) ∧ strsL ts = "ab".toList :=
  sem_of_okView gOr _ (by decide) 10 2 0 false true (3, "ab".toList, 1) (by decide +kernel)
example : Sem gEx "(ab )".toList (.node 6 0 true) none :=
  sem_of_failView gEx _ (by decide) 40 6 0 true true 3 (by decide +kernel)
example : ∃ ts, Sem gEx " ( ab (ab))ab".toList (.node 6 0 true) (some (14, ts)) ∧ strsL ts = "(ab(ab))ab".toList :=
  sem_of_okView gEx _ (by decide) 40 6 0 true true (14, "(ab(ab))ab".toList, 2) (by decide +kernel)

end PP.Parse
