import PPModel.Mod.Entry
import PPModel.Mod.TermCheck
import PPProofs.Lemmas.ParseTerm
import PPProofs.Lemmas.ParseStrict
/-!
# C06 — termination on non-recursive grammars, with an explicit fuel bound

The parse model (`PPModel/Mod/Parse.lean`) is total by construction and answers `hang` where the real code would loop
for ever or where the model's fuel ran out.  This file proves that, for grammars whose node table is **well-founded**
(no `Forward` cycle — recursive grammars are outside this theorem), under the side condition the property itself
states (repetition bodies and ignorables that cannot match the empty string), **`hang` is never the answer** once the
fuel exceeds the rank of the element called: every `_parse` call returns a match or raises.

* `rankOk g r`    executable test: every id a node refers to (sub-expressions, stop_on / fail_on / ignorer, ignorables:
                  `Node.children`, PPModel/Mod/Sugar.lean) is inside the table and has a smaller rank `r`;
* `Advancing g s` the semantic side condition, stated exactly at the two non-advance tests of the model
                  (`manyLoop`: `if l ≤ loc then hang`, `ignoreOne`: `if l ≤ loc then hang`) for the calls the model makes
                  there.  SkipTo's `ignore=` expression needs no condition: its loop (`ignLoop`) leaves on a zero-width match;
* `acyclic_terminates`   fuel `> r id` suffices, for every input, location and flags;
* `depthOk g k id`, `acyclic_terminates_depth`  the same with the rank computed: fuel `≥` height of the element suffices;
* `parseString_terminates`, `scanString_terminates` the same for parse_string (also with parse_all) and scan_string;
* `advancing_of_nonempty` a simpler sufficient condition for `Advancing`;
* `advOk g k`, `advancing_of_advOk`, `acyclic_terminates_checked`  an executable sufficient test for `Advancing`, and the
                  termination theorem with decidable hypotheses only.
-/
namespace PP.Parse

/-- **well-foundedness test** of a node table against a rank function: every id referenced by node `i` is `< g.length`
    and has a smaller rank than `i`.  A table with a `Forward` cycle fails it for every `r`. -/
def rankOk (g : Grammar) (r : Nat → Nat) : Bool :=
  (List.range g.length).all fun i =>
    match g[i]? with
    | some nd => nd.children.all fun c => decide (c < g.length) && decide (r c < r i)
    | none => true

theorem rankOk_spec {g : Grammar} {r : Nat → Nat} (h : rankOk g r = true) {i : Nat} {nd : Node} (hg : g[i]? = some nd)
    {c : Nat} (hc : c ∈ nd.children) : c < g.length ∧ r c < r i := by
  unfold rankOk at h
  rw [List.all_eq_true] at h
  have hi : i < g.length := by
    rcases List.getElem?_eq_some_iff.mp hg with ⟨hi, _⟩
    exact hi
  have := h i (List.mem_range.mpr hi)
  rw [hg] at this
  simp only [List.all_eq_true] at this
  have := this c hc
  simpa using this

/-- the side condition on one recursive call `p`: in every node of the table, an ignorable that matches consumes
    something (`ignoreOne`'s test), and a repetition body that matches after the loop's `_skipIgnorables` ends strictly
    after the location the loop is at (`manyLoop`'s test) -/
def AdvancingP (g : Grammar) (slen : Nat) (p : P) : Prop :=
  ∀ (i : Nat) (nd : Node), g[i]? = some nd →
    (∀ e ∈ nd.ignore, ∀ loc l ts, p e loc true true = .ok l ts → loc < l) ∧
    (∀ x ne one, nd.kind = .many x ne one →
      ∀ acts loc preloc l ts, manyPre p nd slen loc = .at preloc → p x preloc acts true = .ok l ts → loc < l)

/-- **"repetition bodies that cannot match the empty string"**, for the grammar `g` on the input `s`: the condition
    holds of the model's own recursive calls, at every fuel -/
def Advancing (g : Grammar) (s : List Char) : Prop := ∀ f, AdvancingP g s.length (parse g s f)

/-- **C06 termination, non-recursive grammars.**  For every well-founded node table, every input on which no repetition
    body / ignorable matches the empty string, every element `id` of the table, every location and flags, and every fuel
    above the element's rank: the model's `_parse` does not answer `hang` — it returns a match or raises. -/
theorem acyclic_terminates (g : Grammar) (r : Nat → Nat) (hr : rankOk g r = true) (s : List Char) (ha : Advancing g s) :
    ∀ fuel id, id < g.length → r id < fuel → ∀ loc acts callPre, parse g s fuel id loc acts callPre ≠ .hang := by
  intro fuel
  induction fuel with
  | zero => intro id _ h; omega
  | succ f ih =>
    intro id hid hrk loc acts callPre
    have hg : g[id]? = some g[id] := List.getElem?_eq_getElem hid
    have hA := ha f id g[id] hg
    show parseStep g s (parse g s f) id loc acts callPre ≠ .hang
    refine parseStep_nohang g s (parse_adv g s f) (parse_bndAll g s f) hg ⟨?_, hA.1, hA.2⟩ loc acts callPre
    intro c hc
    have := rankOk_spec hr hg hc
    exact ih c this.1 (by omega)

/-- **fuel ≥ height suffices**: an element whose reachable sub-table has height `< k` does not hang with any fuel `≥ k` -/
theorem acyclic_terminates_depth (g : Grammar) (s : List Char) (ha : Advancing g s) :
    ∀ k id, depthOk g k id = true → ∀ fuel, k ≤ fuel → ∀ loc acts callPre,
      parse g s fuel id loc acts callPre ≠ .hang := by
  intro k
  induction k with
  | zero => intro id h; simp [depthOk] at h
  | succ k ih =>
    intro id h fuel hf loc acts callPre
    cases fuel with
    | zero => omega
    | succ f =>
      unfold depthOk at h
      cases hg : g[id]? with
      | none => rw [hg] at h; simp at h
      | some nd =>
        rw [hg] at h
        simp only [List.all_eq_true] at h
        have hA := ha f id nd hg
        show parseStep g s (parse g s f) id loc acts callPre ≠ .hang
        exact parseStep_nohang g s (parse_adv g s f) (parse_bndAll g s f) hg
          ⟨fun c hc => ih c (h c hc) f (by omega), hA.1, hA.2⟩ loc acts callPre

/-- a uniform fuel: the largest rank plus one serves every element of the table -/
theorem acyclic_terminates_uniform (g : Grammar) (r : Nat → Nat) (hr : rankOk g r = true) (s : List Char)
    (ha : Advancing g s) (bound : Nat) (hb : ∀ id, id < g.length → r id < bound) :
    ∀ fuel, bound ≤ fuel → ∀ id, id < g.length → ∀ loc acts callPre, parse g s fuel id loc acts callPre ≠ .hang :=
  fun fuel hf id hid => acyclic_terminates g r hr s ha fuel id hid (Nat.lt_of_lt_of_le (hb id hid) hf)

/-- **parse_string terminates** (also with parse_all, whose trailing `preParse` runs the root's ignorables once more) -/
theorem parseString_terminates (g : Grammar) (r : Nat → Nat) (hr : rankOk g r = true) (s dw : List Char)
    (ha : Advancing g s) (root : Nat) (hroot : root < g.length) (fuel : Nat) (hf : r root < fuel) (pa : Bool) :
    parseString (parse g s fuel) g root dw s pa ≠ .hang := by
  have h0 := acyclic_terminates g r hr s ha fuel root hroot hf 0 true true
  have hg : g[root]? = some g[root] := List.getElem?_eq_getElem hroot
  unfold parseString
  cases hp : parse g s fuel root 0 true true with
  | ok l ts =>
    simp only
    split
    · rw [hg]
      simp only
      have hA := ha fuel root g[root] hg
      have hpre := preParse_nohang (p := parse g s fuel) g[root] s (parse_bndAll g s fuel) (by
        intro e he
        have hc : e ∈ (g[root]).children := by simp [Node.children, he]
        have := rankOk_spec hr hg hc
        exact ⟨acyclic_terminates g r hr s ha fuel e this.1 (by omega), hA.1 e he⟩) l
      cases hq : preParse (parse g s fuel) g[root] s l with
      | abort o => simp only; intro ho; subst ho; exact hpre hq
      | «at» l1 =>
        simp only
        have : stringEndCheck dw s l1 ≠ .hang := stringEndImpl_nohang _ _
        cases hs : stringEndCheck dw s l1 with
        | ok e ts' => simp
        | fail c l' => simp
        | idx => simp
        | hang => exact absurd hs this
    · simp
  | fail c l => simp
  | idx => simp
  | hang => exact absurd hp h0

/-- **scan_string terminates** (hence search_string / transform_string / split, which drain it): no `hang` escapes the
    generator, for every max_matches, `always_skip_whitespace` and `overlap` -/
theorem scanString_terminates (g : Grammar) (r : Nat → Nat) (hr : rankOk g r = true) (s : List Char)
    (ha : Advancing g s) (root : Nat) (hroot : root < g.length) (fuel : Nat) (hf : r root < fuel) (mm : Nat)
    (sk ov : Bool) : (scanString (parse g s fuel) g root s mm sk ov).exc ≠ some .hang := by
  have hg : g[root]? = some g[root] := List.getElem?_eq_getElem hroot
  unfold scanString
  rw [hg]
  simp only
  have hA := ha fuel root g[root] hg
  refine scanLoop_nohang g[root] root s sk ov (parse_bndAll g s fuel) ?_ ?_ _ _ _ _ (by omega) (by omega)
  · intro e he
    have hc : e ∈ (g[root]).children := by simp [Node.children, he]
    have := rankOk_spec hr hg hc
    exact ⟨acyclic_terminates g r hr s ha fuel e this.1 (by omega), hA.1 e he⟩
  · exact acyclic_terminates g r hr s ha fuel root hroot hf

/-- a simpler sufficient condition: every repetition body and every ignorable of the table, whenever it matches (at any
    fuel, location, flags), ends strictly after the location it was called at -/
theorem advancing_of_nonempty (g : Grammar) (s : List Char)
    (h : ∀ (i : Nat) (nd : Node), g[i]? = some nd → ∀ x, (x ∈ nd.ignore ∨ ∃ ne one, nd.kind = .many x ne one) →
      ∀ f loc a c l ts, parse g s f x loc a c = .ok l ts → loc < l) : Advancing g s := by
  intro f i nd hg
  constructor
  · intro e he loc l ts hp
    exact h i nd hg e (Or.inl he) f loc true true l ts hp
  · intro x ne one hk acts loc preloc l ts hm hp
    have h1 := h i nd hg x (Or.inr ⟨ne, one, hk⟩) f preloc acts true l ts hp
    have h2 : loc ≤ preloc := by
      unfold manyPre at hm
      split at hm
      · simp at hm; omega
      · exact skipIgnorables_ge _ _ _ _ _ _ hm
    omega

/-- the executable test implies the semantic side condition, on every input -/
theorem advancing_of_advOk (g : Grammar) (k : Nat) (h : advOk g k = true) (s : List Char) : Advancing g s := by
  apply advancing_of_nonempty
  intro i nd hg x hx f loc a c l ts hp
  have hmem : nd ∈ g := List.mem_of_getElem? hg
  unfold advOk at h
  rw [List.all_eq_true] at h
  have hnd := h nd hmem
  simp only [Bool.and_eq_true, List.all_eq_true] at hnd
  have hc : consumes g k x = true := by
    rcases hx with hx | ⟨ne, one, hk⟩
    · exact hnd.1 x hx
    · have := hnd.2
      rw [hk] at this
      exact this
  exact consumes_sound g s k x hc f loc a c l ts hp

/-- **C06 termination, fully decidable hypotheses.**  A node table that passes the two executable tests — `rankOk`
    (well-founded) and `advOk` (ignorables and repetition bodies consume something) — terminates on **every** input:
    no `_parse` call with fuel above the element's rank answers `hang`. -/
theorem acyclic_terminates_checked (g : Grammar) (r : Nat → Nat) (k : Nat) (hr : rankOk g r = true)
    (hk : advOk g k = true) (s : List Char) :
    ∀ fuel id, id < g.length → r id < fuel → ∀ loc acts callPre, parse g s fuel id loc acts callPre ≠ .hang :=
  acyclic_terminates g r hr s (advancing_of_advOk g k hk s)

/-- … and so do parse_string (incl. parse_all) and scan_string from any root of such a table -/
theorem entry_points_terminate_checked (g : Grammar) (r : Nat → Nat) (k : Nat) (hr : rankOk g r = true)
    (hk : advOk g k = true) (s dw : List Char) (root : Nat) (hroot : root < g.length) (fuel : Nat) (hf : r root < fuel) :
    (∀ pa, parseString (parse g s fuel) g root dw s pa ≠ .hang) ∧
    (∀ mm sk ov, (scanString (parse g s fuel) g root s mm sk ov).exc ≠ some .hang) :=
  ⟨fun pa => parseString_terminates g r hr s dw (advancing_of_advOk g k hk s) root hroot fuel hf pa,
   fun mm sk ov => scanString_terminates g r hr s (advancing_of_advOk g k hk s) root hroot fuel hf mm sk ov⟩

/-- **the theorem the harness instantiates** (the driver evaluates both tests on every extracted node table, entry
    `termcheck`): if the sub-table reachable from `root` is acyclic of height `< k` (`depthOk g k root`) and every
    ignorable / repetition body of the table consumes something (`advOk g ka`), then on EVERY input, with any fuel `≥ k`,
    neither parse_string (incl. parse_all) nor scan_string answers `hang`. -/
theorem entry_points_terminate_depth (g : Grammar) (k ka root : Nat) (hd : depthOk g k root = true)
    (hk : advOk g ka = true) (s dw : List Char) (fuel : Nat) (hf : k ≤ fuel) :
    (∀ pa, parseString (parse g s fuel) g root dw s pa ≠ .hang) ∧
    (∀ mm sk ov, (scanString (parse g s fuel) g root s mm sk ov).exc ≠ some .hang) := by
  have ha := advancing_of_advOk g ka hk s
  have hroot : NH (parse g s fuel) root := acyclic_terminates_depth g s ha k root hd fuel hf
  cases k with
  | zero => simp [depthOk] at hd
  | succ k =>
    unfold depthOk at hd
    cases hg : g[root]? with
    | none => rw [hg] at hd; simp at hd
    | some nd =>
      rw [hg] at hd
      simp only [List.all_eq_true] at hd
      have hig : ∀ e ∈ nd.ignore, NH (parse g s fuel) e ∧ IgnAdv (parse g s fuel) e := by
        intro e he
        have hc : e ∈ nd.children := by simp [Node.children, he]
        exact ⟨acyclic_terminates_depth g s ha k e (hd e hc) fuel (by omega), (ha fuel root nd hg).1 e he⟩
      exact ⟨fun pa => parseString_nohang g root dw s pa hg (parse_bndAll g s fuel) hig hroot,
             fun mm sk ov => scanString_nohang g root s mm sk ov hg (parse_bndAll g s fuel) hig hroot⟩

/-! ### non-vacuity -/

section Example

private def leaf (k : Kind) : Node :=
  { kind := k, skipWs := true, white := [' ', '\t', '\n', '\r'], callPre := true, mayIdx := true, ignore := [],
    acts := [], callDuringTry := false, nameLen := 1 }

private def endOf : Out → Option Nat
  | .ok e _ => some e
  | _ => none

private def isHang : Out → Bool
  | .hang => true
  | _ => false

/-- `Word("ab") + ZeroOrMore(Literal("xy"))`, as a node table: 0 = Word, 1 = Literal, 2 = ZeroOrMore(1), 3 = And[0, 2] -/
def exG : Grammar :=
  [ leaf (.word ['a', 'b'] ['a', 'b'] 1 none false false false),
    leaf (.lit ['x', 'y']),
    { leaf (.many 1 none false) with mayIdx := false },
    { leaf (.and [0, 2]) with mayIdx := false } ]

/-- the table is well-founded (rank = id: operands are built before the result) -/
example : rankOk exG id = true := by decide

/-- … and has height 3 from the root: fuel 3 is enough for `And[Word, ZeroOrMore(Literal)]` -/
example : depthOk exG 3 3 = true ∧ depthOk exG 2 3 = false := by decide

/-- a table with a Forward cycle is rejected (here for the rank `id`; it is for every rank, since `r 0 < r 0` is false) -/
example : rankOk [leaf (.forward (some 0))] id = false := by decide

theorem exG_no_rank (r : Nat → Nat) : rankOk [leaf (.forward (some 0))] r = false := by
  simp [rankOk, List.range, List.range.loop, leaf, Node.children, Kind.children]

/-- the example passes the executable side-condition test (the body of the ZeroOrMore is a Literal) … -/
example : advOk exG 1 = true := by decide

/-- … hence satisfies `Advancing` on every input -/
theorem exG_advancing (s : List Char) : Advancing exG s := advancing_of_advOk exG 1 (by decide) s

/-- a repetition of a two-token sequence inside a Group, with a comment-like ignorable: both tests pass -/
example :
    let g : Grammar :=
      [ leaf (.lit1 '#'),                                                   -- 0  ignorable
        leaf (.word ['a'] ['a'] 1 none false false false),                  -- 1
        leaf (.lit1 ','),                                                   -- 2
        { leaf (.and [1, 2]) with mayIdx := false },                        -- 3
        { leaf (.group 3) with mayIdx := false },                           -- 4
        { leaf (.many 4 none true) with mayIdx := false, ignore := [0] } ]  -- 5  OneOrMore(Group(Word + ","))
    rankOk g id = true ∧ advOk g 3 = true := by
  decide

/-- `ZeroOrMore(Keyword("if") ^ OneOrMore(CaselessLiteral("x")))` passes; `ZeroOrMore(Opt(Literal))` and
    `ZeroOrMore(Empty)` are (rightly) not accepted by the test -/
example :
    advOk [ leaf (.keyword ['i', 'f'] ['a', 'b'] false), leaf (.caselessLit ['X'] ['x']), leaf (.many 1 none true),
            leaf (.or [0, 2]), leaf (.many 3 none false) ] 3 = true ∧
    advOk [ leaf (.lit ['x', 'y']), leaf (.opt 0 none), leaf (.many 1 none false) ] 5 = false ∧
    advOk [ leaf .empty, leaf (.many 0 none false) ] 5 = false := by
  decide

/-- hence every `_parse` call on the example grammar terminates with fuel 4, on every input -/
example (s : List Char) (i : Nat) (hi : i < 4) (loc : Nat) (a c : Bool) : parse exG s 4 i loc a c ≠ .hang :=
  acyclic_terminates exG id (by decide) s (exG_advancing s) 4 i (by simpa [exG] using hi) (by simpa using hi) loc a c

/-- and so does parse_string(parse_all=True) from the root -/
example (s : List Char) : parseString (parse exG s 4) exG 3 [' ', '\t', '\n', '\r'] s true ≠ .hang :=
  parseString_terminates exG id (by decide) s _ (exG_advancing s) 3 (by decide) 4 (by decide) true

example (s : List Char) (mm : Nat) (sk ov : Bool) : (scanString (parse exG s 4) exG 3 s mm sk ov).exc ≠ some .hang :=
  scanString_terminates exG id (by decide) s (exG_advancing s) 3 (by decide) 4 (by decide) mm sk ov

/-- the form the harness uses: both tests evaluated with bound = size of the table, fuel 1500 -/
example (s : List Char) : parseString (parse exG s 1500) exG 3 [' '] s true ≠ .hang :=
  (entry_points_terminate_depth exG exG.length exG.length 3 (by decide) (by decide) s [' '] 1500 (by decide)).1 true

/-- the model does compute on it: "ab xyxy" is matched up to its end, 7 -/
example : endOf (parse exG "ab xyxy".toList 4 3 0 true true) = some 7 := by
  decide +kernel

/-- the side condition is not idle: with the zero-width body `Empty` the model answers `hang` at every fuel ≥ 3
    (here fuel 5), although the table is well-founded -/
example : rankOk [leaf .empty, leaf (.many 0 none false)] id = true ∧
    isHang (parse [leaf .empty, leaf (.many 0 none false)] "a".toList 5 1 0 true true) = true := by
  decide +kernel

end Example

/-! ### recursive grammars

Tables with `Forward` cycles fail `rankOk` / `depthOk`.  The generalisation to cycles that pass through a consuming `And`
operand — measure (remaining input, rank), explicit fuel bound `(len + 1 - loc)·(R + 1) + r id + 1` — is
`recursive_terminates_partial` in `PPProofs/Props/C06Rec.lean` (location-restricted lemma family
`PPProofs/Lemmas/ParseTermRec.lean`); partial: tables containing `SkipTo` are not covered there. -/

end PP.Parse
