import PPProofs.Lemmas.DiagramLinks
import PPProofs.Props.C20
/-!
# C20 — the clauses links_resolve / root_first / no_empty_placeholder under decidable hypotheses

`Props/C20.lean` shows by witnesses that these clauses are false of the current converter on particular
grammar shapes.  Here each clause is proved for ALL grammars (node tables), all options and every fuel
at which the converter model returns, under a hypothesis on the node table that excludes the
registered shape.
-/
namespace PP.Diagram

/-! ## links_resolve -/

/-- **links_resolve_partial** (full clause: for ANY grammar every link of the output names a diagram
    of the output - false, see `dangling_link_witness`).  Proved: if no element of the grammar has the
    custom name `"..."` (`noEllipsisName`; that is the name of the SkipTo made by `... + expr`, whose
    diagram `to_railroad` drops at :268), then for every option setting, every root and every fuel at
    which the conversion returns, every NonTerminal of every returned diagram carries the name of a
    returned diagram.  No hypothesis on cycles, Forwards, names being distinct, or visibility.
    Not covered: `stop_on` repetitions (not in the model); the href is represented by the name
    (`_make_bookmark` is injective in the name). -/
theorem links_resolve_partial (g : Grammar) (o : Opts) (fuel root : Nat) (ds : List Named)
    (hne : noEllipsisName g = true) (h : toRailroad g o fuel root = some ds) :
    linksResolve ds = true := by
  unfold toRailroad at h
  split at h
  · exact absurd h (by simp)
  · rename_i s hs
    simp only [Option.some.injEq] at h
    subst h
    have hf := convertRoot_fin g o fuel root s hs
    have hperm := sortByIndex_perm ((selected s).map (entryTree s))
    unfold linksResolve
    rw [List.all_eq_true]
    intro d hd
    rw [List.all_eq_true]
    intro t ht
    have hd' := hperm.mem_iff.mp hd
    obtain ⟨e, _, rfl⟩ := List.mem_map.mp hd'
    have ht' : t ∈ (resolve s.heap (s.heap.length + 1) e.content).links := by
      simpa [entryTree, Tree.links, Tree.linksL] using ht
    obtain ⟨nd, hnd, hfn, rfl⟩ := resolve_links _ _ _ _ ht'
    obtain ⟨u, dd, hdd, hname⟩ := hf.fnt nd hnd hfn
    have hsel := selected_names hf hne u dd hdd (by rw [hname]; rfl)
    rw [hname] at hsel
    simp only [List.contains_eq_mem, decide_eq_true_eq]
    unfold names
    rw [(hperm.map (·.name)).mem_iff]
    have : ((selected s).map (entryTree s)).map (·.name) = (selected s).map (·.name) := by
      simp [entryTree, List.map_map, Function.comp_def]
    rw [this]
    exact hsel

/-- the hypothesis is needed: the registered witness `Word("01") + ... + 'y'` violates it, and its
    output has a dangling link (`dangling_link_witness`) -/
example : noEllipsisName gSkip = false ∧
    ∃ ds, toRailroad gSkip opts0 10 0 = some ds ∧ linksResolve ds = false :=
  ⟨by decide +kernel, dangling_link_witness⟩

/-- non-vacuity: the named recursive grammar `E <<= Word(nums) | '(' + E + ')'` satisfies the
    hypothesis, the conversion returns, and the output does contain a link (to "E") -/
example : noEllipsisName gNamed = true ∧
    ∃ ds, toRailroad gNamed opts0 6 0 = some ds ∧ ds.flatMap (·.tree.links) = ["E"] := by
  refine ⟨by decide +kernel, _, rfl, ?_⟩
  decide +kernel

/-- the hypothesis does not exclude the other registered shapes: the revisited unnamed root (whose
    diagram is named "" and linked from inside the cycle) is covered -/
example : noEllipsisName gRootOnCycle = true ∧
    ∃ ds, toRailroad gRootOnCycle opts0 20 0 = some ds ∧ ds.flatMap (·.tree.links) ≠ [] := by
  refine ⟨by decide +kernel, _, rfl, ?_⟩
  decide +kernel

end PP.Diagram
