import PPProofs.Lemmas.DiagramLinks
import PPProofs.Lemmas.DiagramRoot
import PPProofs.Lemmas.DiagramRoot0
import PPProofs.Lemmas.DiagramFilled
import PPProofs.Lemmas.DiagramContent
import PPProofs.Lemmas.DiagramBounds
import PPProofs.Lemmas.DiagramResolve
import PPProofs.Props.C20
/-!
# C20 — the clauses links_resolve / root_first / no_empty_placeholder under decidable hypotheses

`Props/C20.lean` shows by witnesses that these clauses are false of the current converter on particular
grammar shapes.  Here each clause is proved for ALL grammars (node tables), all options and every fuel
at which the converter model returns, under a decidable hypothesis on the node table that excludes the
registered shape (each hypothesis is shown to fail on the corresponding witness):

* `links_resolve_partial`              hypothesis `noEllipsisName g` (no element is custom-named "...")
* `root_first_partial`                 hypothesis `rootFirstHyp g o root` (custom-named root worth extracting,
                                       shown, name not shared and not "...")
* `root_first_unnamed_partial`         hypothesis `offCycleRootHyp g o root Dl` (unnamed, drawn root on no cycle)
* `no_empty_placeholder_partial`,
  `no_empty_placeholder_output_partial`,
  `no_empty_placeholder_tree_partial`  hypothesis `drawsAll g o` (every element draws something): all partials
                                       of the final heap and all diagram contents are filled with references,
                                       no returned tree contains `""`; NOT proved: that the fuel `|heap|+1` of
                                       `resolve` suffices (acyclicity of the heap), so `rawNone` is not excluded
* `no_dangling_reference`              FULL strength (no hypothesis): every reference in the final heap and every
                                       kept diagram content points into the heap
* `no_empty_placeholder_of_acyclic_partial`  the tree-level clause from the one missing fact (decidable check
                                       `heapAcyclicB` of the final state)
Invariants (Lemmas/DiagramLinks, DiagramRoot, DiagramRoot0, DiagramFilled, DiagramContent, DiagramBounds,
DiagramResolve): `conv_B` (no reference leaves the heap), `conv_step`
(every NonTerminal carries the custom name of an extracted or pending element; a returning call leaves
no new pending element), `conv_RInv` / `conv_RInv0_on` (the root keeps index 1, all others ≥ 2, diagram
keys distinct), `conv_HS` (a returning call returns an item, never loses a reference, leaves its partials
filled), `conv_KD` (complete lookup entries point to filled partials; diagram contents are references).
-/
namespace PP.Diagram

/-! ## links_resolve -/

/-- **links_resolve_partial** (full clause: for ANY grammar every link of the output names a diagram
    of the output - false, see `dangling_link_witness`).  Proved: if no element of the grammar has the
    custom name `"..."` (`noEllipsisName`; that is the name of the SkipTo made by `... + expr`, whose
    diagram `to_railroad` drops at :268), then for every option setting, every root and every fuel at
    which the conversion returns, every NonTerminal of every returned diagram carries the name of a
    returned diagram.  No hypothesis on cycles, Forwards, names being distinct, or visibility.
    Not covered: `stop_on` repetitions (not in the model); the href is represented by the name
    (`_make_bookmark` is injective in the name). -/
theorem links_resolve_partial (g : Grammar) (o : Opts) (fuel root : Nat) (ds : List Named)
    (hne : noEllipsisName g = true) (h : toRailroad g o fuel root = some ds) :
    linksResolve ds = true := by
  unfold toRailroad at h
  split at h
  · exact absurd h (by simp)
  · rename_i s hs
    simp only [Option.some.injEq] at h
    subst h
    have hf := convertRoot_fin g o fuel root s hs
    have hperm := sortByIndex_perm ((selected s).map (entryTree s))
    unfold linksResolve
    rw [List.all_eq_true]
    intro d hd
    rw [List.all_eq_true]
    intro t ht
    have hd' := hperm.mem_iff.mp hd
    obtain ⟨e, _, rfl⟩ := List.mem_map.mp hd'
    have ht' : t ∈ (resolve s.heap (s.heap.length + 1) e.content).links := by
      simpa [entryTree, Tree.links, Tree.linksL] using ht
    obtain ⟨nd, hnd, hfn, rfl⟩ := resolve_links _ _ _ _ ht'
    obtain ⟨u, dd, hdd, hname⟩ := hf.fnt nd hnd hfn
    have hsel := selected_names hf hne u dd hdd (by rw [hname]; rfl)
    rw [hname] at hsel
    simp only [List.contains_eq_mem, decide_eq_true_eq]
    unfold names
    rw [(hperm.map (·.name)).mem_iff]
    have : ((selected s).map (entryTree s)).map (·.name) = (selected s).map (·.name) := by
      simp [entryTree, List.map_map, Function.comp_def]
    rw [this]
    exact hsel

/-- the hypothesis is needed: the registered witness `Word("01") + ... + 'y'` violates it, and its
    output has a dangling link (`dangling_link_witness`) -/
example : noEllipsisName gSkip = false ∧
    ∃ ds, toRailroad gSkip opts0 10 0 = some ds ∧ linksResolve ds = false :=
  ⟨by decide +kernel, dangling_link_witness⟩

/-- non-vacuity: the named recursive grammar `E <<= Word(nums) | '(' + E + ')'` satisfies the
    hypothesis, the conversion returns, and the output does contain a link (to "E") -/
example : noEllipsisName gNamed = true ∧
    ∃ ds, toRailroad gNamed opts0 6 0 = some ds ∧ ds.flatMap (·.tree.links) = ["E"] := by
  refine ⟨by decide +kernel, _, rfl, ?_⟩
  decide +kernel

/-- the hypothesis does not exclude the other registered shapes: the revisited unnamed root (whose
    diagram is named "" and linked from inside the cycle) is covered -/
example : noEllipsisName gRootOnCycle = true ∧
    ∃ ds, toRailroad gRootOnCycle opts0 20 0 = some ds ∧ ds.flatMap (·.tree.links) ≠ [] := by
  refine ⟨by decide +kernel, _, rfl, ?_⟩
  decide +kernel

/-! ## root_first -/

/-- the hypothesis of `root_first_partial`, executable: the root has a custom name and is worth
    extracting (`cut`), is shown, no other element has the same custom name, and the name is not "..." -/
def rootFirstHyp (g : Grammar) (o : Opts) (root : Nat) : Bool :=
  cut g root && rootVisible g o root && nameUniqueAt g root && (customOf g root != some "...")

/-- **root_first_partial** (full clause: for ANY grammar the root's diagram is the first of the output -
    false: `unnamed_forward_root_witness` (an unnamed Forward root is bypassed, no diagram at all),
    `root_not_first_witness` (an unnamed root on a named cycle is registered twice)).  Proved: if the
    root has a custom name and is worth extracting, is shown, and its custom name is carried by no
    other element and is not "..." (`rootFirstHyp`), then for all options and every fuel at which the
    conversion returns the output is non-empty and its first diagram is the one named after the root.
    No hypothesis on the rest of the grammar (cycles, unnamed Forwards below the root, duplicates
    among other names).
    Missing from the full clause: roots without custom name that lie on no cycle (they are first as
    well, but that needs the reachability argument "the root is never visited again"), and custom-named
    roots that are not worth extracting (all children are leaves). -/
theorem root_first_partial (g : Grammar) (o : Opts) (fuel root : Nat) (ds : List Named)
    (hyp : rootFirstHyp g o root = true) (h : toRailroad g o fuel root = some ds) :
    (names ds).head? = some (customOf g root) := by
  unfold rootFirstHyp at hyp
  simp only [Bool.and_eq_true, bne_iff_ne, ne_eq] at hyp
  obtain ⟨⟨⟨hcut, hvis⟩, huniq⟩, hne⟩ := hyp
  have htr : truthy (customOf g root) = true := by
    unfold cut at hcut; simp only [Bool.and_eq_true] at hcut; exact hcut.1
  unfold toRailroad at h
  split at h
  · exact absurd h (by simp)
  · rename_i s hs
    simp only [Option.some.injEq] at h
    subst h
    -- the state after the conversion
    have key : RInv root s ∧ LInv g s ∧ aget s.lookup root = none := by
      unfold convertRoot at hs
      split at hs
      · exact absurd hs (by simp)
      · rename_i r s0 hc
        obtain ⟨hl, hp0, _⟩ := conv_step g o fuel root none 0 none {} r s0 hc (LInv_init g)
        have hR := conv_root_RInv g o fuel root r s0 hcut hvis hc
        have hnone : aget s0.lookup root = none := by
          cases hst : aget s0.lookup root with
          | none => rfl
          | some st =>
            have hx := (hl.lk root st hst).1 ((hR.lk root st hst).1 rfl).2
            obtain ⟨_, h0, _⟩ := hp0 root ⟨st, hst, hx⟩
            exact absurd h0 (by simp)
        rw [hnone] at hs
        simp only [Option.some.injEq] at hs
        subst hs
        exact ⟨hR, hl, hnone⟩
    obtain ⟨hR, hl, hnone⟩ := key
    obtain ⟨d, hd⟩ : ∃ d, aget s.diagrams root = some d := by
      rcases hR.known with ⟨st, hst⟩ | hd
      · rw [hnone] at hst; exact absurd hst (by simp)
      · exact hd
    have hdname : d.name = customOf g root := (hl.dg root d hd).1
    have hdidx : d.index = 1 := (hR.dg root d hd).1 rfl
    have hmem : d ∈ s.diagrams.map (·.2) := aget_mem _ _ _ hd
    -- entries of the table are determined by their key
    have hkey : ∀ e ∈ s.diagrams.map (·.2), ∃ u, aget s.diagrams u = some e := by
      intro e he
      obtain ⟨⟨u, e'⟩, hp, rfl⟩ := List.mem_map.mp he
      exact ⟨u, mem_aget _ _ _ hR.dk hp⟩
    have hroot_of_idx : ∀ e ∈ s.diagrams.map (·.2), e.index ≤ 1 → e = d := by
      intro e he hle
      obtain ⟨u, hu⟩ := hkey e he
      by_cases hur : u = root
      · subst hur; rw [hd] at hu; simp only [Option.some.injEq] at hu; exact hu.symm
      · have := (hR.dg u e hu).2 hur; omega
    have huniq' : ∀ e ∈ s.diagrams.map (·.2), e.name = d.name → e = d := by
      intro e he hn
      obtain ⟨u, hu⟩ := hkey e he
      have : customOf g u = customOf g root := by rw [← (hl.dg u e hu).1, hn, hdname]
      have hur := nameUniqueAt_spec huniq htr u this
      subst hur
      rw [hd] at hu; simp only [Option.some.injEq] at hu; exact hu.symm
    have hsel : d ∈ selected s := by
      unfold selected
      simp only
      split
      · exact dedupe_keeps _ [] d hmem (by rw [hdname]; exact truthy_isSome htr) (by rw [hdname]; exact hne)
          (by simp) huniq'
      · exact hmem
    have hsub : ∀ e ∈ selected s, e ∈ s.diagrams.map (·.2) := by
      intro e he
      unfold selected at he
      simp only at he
      split at he
      · exact dedupe_sub _ _ _ he
      · exact he
    have hperm := sortByIndex_perm ((selected s).map (entryTree s))
    have hsorted := sortByIndex_sorted ((selected s).map (entryTree s))
    have hin : entryTree s d ∈ sortByIndex ((selected s).map (entryTree s)) :=
      hperm.mem_iff.mpr (List.mem_map.mpr ⟨d, hsel, rfl⟩)
    cases hds : sortByIndex ((selected s).map (entryTree s)) with
    | nil => rw [hds] at hin; exact absurd hin (by simp)
    | cons a rest =>
      rw [hds] at hin hsorted
      have ha_mem : a ∈ (selected s).map (entryTree s) := hperm.mem_iff.mp (by rw [hds]; exact List.mem_cons_self ..)
      obtain ⟨e, he, rfl⟩ := List.mem_map.mp ha_mem
      have hle : (entryTree s e).index ≤ 1 := by
        rcases List.mem_cons.mp hin with h1 | h1
        · rw [← h1]; show d.index ≤ 1; omega
        · have := sorted_head_min rest _ hsorted _ h1
          have h2 : (entryTree s d).index = 1 := hdidx
          omega
      have hed : e = d := hroot_of_idx e (hsub e he) hle
      subst hed
      simp only [names, List.map_cons, List.head?_cons, Option.some.injEq]
      exact hdname

/-- non-vacuity: the named recursive grammar `E <<= Word(nums) | '(' + E + ')'` with root E -/
example : rootFirstHyp gNamed opts0 0 = true ∧ (toRailroad gNamed opts0 6 0).isSome = true ∧
    customOf gNamed 0 = some "E" :=
  ⟨by decide +kernel, by decide +kernel, by decide +kernel⟩

/-- the hypothesis is needed: both registered witnesses violate it (the roots have no custom name),
    and their outputs are empty resp. start with another diagram -/
example : rootFirstHyp gFwdRoot opts0 0 = false ∧ rootFirstHyp gRootOnCycle opts0 0 = false ∧
    (toRailroad gFwdRoot opts0 10 0).map names = some [] ∧
    ∃ ds, toRailroad gRootOnCycle opts0 20 0 = some ds ∧ (names ds).head? = some (some "E") :=
  ⟨by decide +kernel, by decide +kernel, unnamed_forward_root_witness, root_not_first_witness⟩

/-- the hypothesis of `root_first_unnamed_partial`, executable: the root has no custom name, is not a
    bypassed Forward/Located, is shown, `dispatch` creates a partial for it, and `Dl` is a set of
    elements that contains the root's children, is closed under `recurse()` and does not contain the
    root (i.e. the root lies on no cycle; take for `Dl` the elements reachable from the children) -/
def offCycleRootHyp (g : Grammar) (o : Opts) (root : Nat) (Dl : List Nat) : Bool :=
  match g[root]? with
  | none => false
  | some n =>
    !truthy n.custom && !isPass n && (n.shown || o.showHidden) &&
    (dispatch g o n (nameOf n none)).isSome && n.kids.all Dl.contains &&
    Dl.all (fun u => (kidsOf g u).all Dl.contains) && !Dl.contains root

/-- **root_first_unnamed_partial** - the case of `root_first` that `root_first_partial` leaves out and
    that ordinary use produces (`expr.create_diagram(...)` on an unnamed expression): if the root has
    no custom name, is not an unnamed Forward/Located with an expression (`unnamed_forward_root_witness`),
    is drawn, and lies on no cycle (`root_not_first_witness`) - `offCycleRootHyp`, with the set of
    descendants given as a list - then for all options and every fuel at which the conversion returns
    the output is non-empty and its first diagram is the root's, the one named `""`.  No hypothesis on
    the grammar below the root (named or unnamed cycles among descendants, duplicate names, "...").
    Still missing from the full clause: custom-named roots that are not worth extracting or whose
    name is shared, and roots on a cycle (where the clause is false for unnamed roots). -/
theorem root_first_unnamed_partial (g : Grammar) (o : Opts) (fuel root : Nat) (Dl : List Nat)
    (ds : List Named) (hyp : offCycleRootHyp g o root Dl = true)
    (h : toRailroad g o fuel root = some ds) : (names ds).head? = some (some "") := by
  unfold offCycleRootHyp at hyp
  cases hg : g[root]? with
  | none => rw [hg] at hyp; simp at hyp
  | some n =>
    rw [hg] at hyp
    simp only [Bool.and_eq_true, Bool.not_eq_true', Bool.or_eq_true, List.all_eq_true,
      List.contains_eq_mem, decide_eq_true_eq, decide_eq_false_iff_not] at hyp
    obtain ⟨⟨⟨⟨⟨⟨hcust, hpass⟩, hvis⟩, hdisp⟩, hkids⟩, hclosed⟩, hnroot⟩ := hyp
    obtain ⟨pn, hpn⟩ := Option.isSome_iff_exists.mp hdisp
    have hv : (!n.shown && !o.showHidden) = false := by
      rcases hvis with h1 | h1 <;> simp [h1]
    have hD : ClosedUnder g (fun u => u ∈ Dl) := by
      intro u n' hu hgu c hc
      have := hclosed u hu c (by unfold kidsOf; rw [hgu]; exact hc)
      exact this
    have hcu : truthy (customOf g root) = false := by rw [customOf_eq hg]; exact hcust
    unfold toRailroad at h
    split at h
    · exact absurd h (by simp)
    · rename_i s hs
      simp only [Option.some.injEq] at h
      subst h
      unfold convertRoot at hs
      split at hs
      · exact absurd hs (by simp)
      · rename_i r s0 hc
        obtain ⟨hl, hp0, _⟩ := conv_step g o fuel root none 0 none {} r s0 hc (LInv_init g)
        have hR := conv_root_RInv0 g o fuel root n pn (fun u => u ∈ Dl) hD hnroot hg hkids hpass hv hpn r s0 hc
        obtain ⟨st, hst⟩ : ∃ st, aget s0.lookup root = some st := by
          rcases hR.known with h1 | ⟨d, hd⟩
          · exact h1
          · have := (hl.dg root d hd).2
            rw [hcu] at this; exact absurd this (by simp)
        rw [hst] at hs
        simp only [Option.some.injEq] at hs
        subst hs
        have ht' : truthy ((g[root]?).bind (·.custom)) = false := hcu
        simp only [ht', Bool.not_false, if_true]
        have hl1 : aget (setL s0 s0.index root { st with name := some "" }).lookup root =
            some { st with name := some "" } := aget_aset_same _ _ _
        have e1 : ({ s0 with lookup := aset s0.lookup root { st with name := some "" } } : St) =
            setL s0 s0.index root { st with name := some "" } := rfl
        rw [e1, mark_eq g _ root none true _ hl1]
        simp only [Bool.true_or, if_true]
        rw [setL_setL]
        have t1 : truthy (some "") = false := by decide
        have t2 : truthy none = false := rfl
        have hm : markName g { st with name := some "" } root none = some "" := by
          simp only [markName, t1, t2, ht', Bool.false_eq_true, if_false]
        rw [hm]
        obtain ⟨st2, hst2⟩ : ∃ st2 : EState, st2 = { st with name := some "", extract := true } := ⟨_, rfl⟩
        rw [← hst2]
        have hnum : st2.number = 1 := by rw [hst2]; exact (hR.lk root st hst).1 rfl
        have hname : st2.name = some "" := by rw [hst2]
        have hR1 : RInv0 root (setL s0 (setL s0 s0.index root { st with name := some "" }).index root st2) :=
          RInv0_setL s0 _ root st2 hR hR.idx ⟨fun _ => hnum, fun h => absurd rfl h⟩
        have hR2 := RInv0_extract _ root hR1
        obtain ⟨d, hd, hdn⟩ := extract_diagrams_same
          (setL s0 (setL s0 s0.index root { st with name := some "" }).index root st2) root st2
          (by simp only [setL]; exact aget_aset_same _ _ _)
        rw [hname] at hdn
        have := head_of_index_one _ root d hR2.dk hd ((hR2.dg root d hd).1 rfl)
          (fun u e hu hne => (hR2.dg u e hu).2 hne) (by rw [hdn]; rfl) (by rw [hdn]; decide)
          (fun u e hu hn => by
            by_cases hur : u = root
            · exact hur
            · rw [extract_diagrams_ne _ _ _ hur] at hu
              have hu' : aget s0.diagrams u = some e := hu
              have h2 := hl.dg u e hu'
              rw [hn, hdn] at h2
              rw [← h2.1] at h2
              exact absurd h2.2 (by decide))
        rw [this, hdn]

/-- non-vacuity: `root = '(' + E + ')'` with the named Forward `E <<= Word | '[' + E + ']'`-style
    cycle below it would do; here the registered grammar `Opt(Empty()) + Word("01")` (unnamed And
    root, no cycle): descendants {1, 2, 3} -/
example : offCycleRootHyp gEmptyOpt opts0 0 [1, 2, 3] = true ∧
    (toRailroad gEmptyOpt opts0 10 0).map names = some [some ""] :=
  ⟨by decide +kernel, by decide +kernel⟩

/-- the hypothesis is needed: for the two registered witnesses no such set exists / the root is
    bypassed -/
example : (∀ Dl, offCycleRootHyp gFwdRoot opts0 0 Dl = false) ∧
    offCycleRootHyp gRootOnCycle opts0 0 [1, 2, 3, 4, 5] = false := by
  refine ⟨fun Dl => ?_, by decide +kernel⟩
  unfold offCycleRootHyp
  have : isPass (gFwdRoot[0]) = true := by decide +kernel
  simp [gFwdRoot, isPass] at this ⊢
  simp [isPass, gFwdRoot, Node.isA, truthy]

/-! ## no_empty_placeholder -/

/-- **no_empty_placeholder_partial** (full clause: for ANY grammar no returned diagram contains a
    `None` / `""` where an item should be, i.e. `noEmptyPlaceholder ds = true` - false, see
    `empty_placeholder_witness`).  Proved, for ALL grammars in which every element draws something
    (`drawsAll g o`: each element is shown or `show_hidden` is set, its children exist, `dispatch`
    creates a partial for it - so no unnamed `Empty`, no empty And/Or/Each - and a one-item wrapper
    (Opt, ZeroOrMore, OneOrMore, NotAny, FollowedBy, Group, ...) has at least one child), all options,
    all roots in the table and every fuel at which the conversion returns: in the final converter
    state EVERY EditablePartial has all its `item` / `items` slots filled with references - every
    placeholder (`""`, `None`, the `items.insert(i, None)`) that the converter wrote has been replaced.
    (Lemma `conv_HS`: every returning call of `_to_diagram_element` returns an item, never loses a
    reference in an older partial, and leaves every partial it created filled.)
    Missing for the full clause `noEmptyPlaceholder ds = true`:
    (1) the `content` of a diagram entry is a *copy* of the `item` slot when the extracted partial is a
        `Group` (:420-423); that it is a reference needs "extraction happens only after the element's
        own conversion is complete" (an invariant relating the lookup table to the heap) - proved
        below in `no_empty_placeholder_tree_partial`;
    (2) `resolve` (the model of `resolve_partial`) runs on fuel `|heap|+1` and yields `rawNone` for a
        dangling reference; that neither happens needs the acyclicity / in-bounds invariant of the
        partial heap, not proved.
    The hypothesis is sufficient, not necessary: an undrawn child of a many-item partial (And, Or, ...)
    is simply removed (`del items[i]`) and would be harmless. -/
theorem no_empty_placeholder_partial (g : Grammar) (o : Opts) (fuel root : Nat) (s : St)
    (hd : drawsAll g o = true) (hroot : root < g.length)
    (h : convertRoot g o fuel root = some s) : ∀ nd ∈ s.heap, nd.kw.filled = true :=
  convertRoot_filled g o fuel root s hd hroot h

/-- the same in terms of `to_railroad`: whenever it returns, it returns the resolution of a heap
    without placeholders -/
theorem no_empty_placeholder_output_partial (g : Grammar) (o : Opts) (fuel root : Nat) (ds : List Named)
    (hd : drawsAll g o = true) (hroot : root < g.length) (h : toRailroad g o fuel root = some ds) :
    ∃ s, convertRoot g o fuel root = some s ∧ ds = sortByIndex ((selected s).map (entryTree s)) ∧
      ∀ nd ∈ s.heap, nd.kw.filled = true := by
  unfold toRailroad at h
  split at h
  · exact absurd h (by simp)
  · rename_i s hs
    simp only [Option.some.injEq] at h
    exact ⟨s, hs, h.symm, convertRoot_filled g o fuel root s hd hroot hs⟩

/-- **no_empty_placeholder_tree_partial** - gap (1) above closed, and the `""` half of the clause at
    the level of the returned trees: under the same hypothesis (`drawsAll`), for all options, roots in
    the table and returning fuels, every diagram entry's `content` is a reference (an element is
    extracted only after its own conversion is complete, when its partial is filled: `conv_KD`) and
    NO returned diagram contains the `""` placeholder (`Tree.hasEmptyStr`: the `Optional('')` of the
    registered finding).  Still missing for `noEmptyPlaceholder ds = true`: that `resolve` never yields
    `rawNone`, which on a filled heap can only come from its fuel `|heap|+1` running out or from a
    dangling reference - gap (2), the acyclicity / in-bounds invariant of the partial heap. -/
theorem no_empty_placeholder_tree_partial (g : Grammar) (o : Opts) (fuel root : Nat) (ds : List Named)
    (hd : drawsAll g o = true) (hroot : root < g.length) (h : toRailroad g o fuel root = some ds) :
    (∃ s, convertRoot g o fuel root = some s ∧ (∀ nd ∈ s.heap, nd.kw.filled = true) ∧
      ∀ e ∈ selected s, e.content.isRef = true) ∧
    ∀ d ∈ ds, d.tree.hasEmptyStr = false := by
  unfold toRailroad at h
  split at h
  · exact absurd h (by simp)
  · rename_i s hs
    simp only [Option.some.injEq] at h
    subst h
    obtain ⟨hA, hD⟩ := convertRoot_AD g o fuel root s hd hroot hs
    have hsel : ∀ e ∈ selected s, e.content.isRef = true := by
      intro e he
      have hmem : e ∈ s.diagrams.map (·.2) := by
        unfold selected at he
        simp only at he
        split at he
        · exact dedupe_sub _ _ _ he
        · exact he
      obtain ⟨p, hp, rfl⟩ := List.mem_map.mp hmem
      exact hD p hp
    refine ⟨⟨s, hs, hA, hsel⟩, ?_⟩
    intro d hd'
    have hperm := sortByIndex_perm ((selected s).map (entryTree s))
    obtain ⟨e, he, rfl⟩ := List.mem_map.mp (hperm.mem_iff.mp hd')
    have hne : e.content ≠ .empty := by
      intro e0
      have := hsel e he
      rw [e0] at this; exact absurd this (by simp [Slot.isRef])
    have := resolve_noEmptyStr s.heap hA (s.heap.length + 1) e.content hne
    simp [entryTree, Tree.hasEmptyStr, Tree.hasEmptyStrL, this]

/-- non-vacuity: the named recursive grammar satisfies the hypothesis (and its output has no
    placeholder, `named_cycle_ok`) -/
example : drawsAll gNamed opts0 = true ∧ (convertRoot gNamed opts0 6 0).isSome = true :=
  ⟨by decide +kernel, by decide +kernel⟩

/-- the hypothesis is needed: the registered witness `Opt(Empty()) + Word("01")` violates it (the
    unnamed `Empty` draws nothing), and its output keeps the `""` (`empty_placeholder_witness`) -/
example : drawsAll gEmptyOpt opts0 = false ∧
    ∃ ds, toRailroad gEmptyOpt opts0 10 0 = some ds ∧ noEmptyPlaceholder ds = false :=
  ⟨by decide +kernel, empty_placeholder_witness⟩

/-! ## referential integrity of the heap -/

/-- **no_dangling_reference** (full strength: ALL grammars, options, roots, fuels): when the conversion
    returns, every reference stored in an EditablePartial and the content of every kept diagram entry
    points into the heap of partials - `resolve` never meets a dangling reference.  (With
    `no_empty_placeholder_tree_partial` this leaves exactly one reason for a `rawNone` in a returned
    tree of a `drawsAll` grammar: the fuel `|heap|+1` of `resolve` running out, i.e. a reference
    chain longer than the heap; that the heap is acyclic is not proved.) -/
theorem no_dangling_reference (g : Grammar) (o : Opts) (fuel root : Nat) (s : St)
    (h : convertRoot g o fuel root = some s) :
    (∀ nd ∈ s.heap, nd.kw.inB s.heap.length = true) ∧ ∀ e ∈ selected s, e.content.inB s.heap.length = true := by
  have hB := convertRoot_B g o fuel root s h
  refine ⟨hB.hp, ?_⟩
  intro e he
  have hmem : e ∈ s.diagrams.map (·.2) := by
    unfold selected at he
    simp only at he
    split at he
    · exact dedupe_sub _ _ _ he
    · exact he
  obtain ⟨p, hp, rfl⟩ := List.mem_map.mp hmem
  exact hB.dg p hp

/-- the statement is not vacuous: the conversion of the named recursive grammar returns, with
    references in its heap -/
example : ∃ s, convertRoot gNamed opts0 6 0 = some s ∧ 5 ≤ s.heap.length := by
  refine ⟨_, rfl, ?_⟩
  decide +kernel

/-! ## what is missing for the tree-level clause, isolated -/

/-- the final heap passes the acyclicity check with the rank function `rank`: every stored reference
    decreases `rank`, and `rank` is bounded by the heap size (so the fuel of `resolve` suffices) -/
def heapAcyclicB (s : St) (rank : Nat → Nat) : Bool :=
  rankedHeapB s.heap rank && (List.range s.heap.length).all (fun r => decide (rank r ≤ s.heap.length))

/-- **no_empty_placeholder_of_acyclic_partial**: the tree-level clause `noEmptyPlaceholder ds = true`,
    for ALL `drawsAll` grammars, options, roots in the table and returning fuels, from the single
    fact that is not proved in general - the final heap of partials is acyclic, given as a decidable
    check `heapAcyclicB s rank` of the final converter state (e.g. `rank := heightOf s.heap |heap|`).
    Everything else (all slots and contents are references: `conv_HS`, `conv_KD`; no reference
    dangles: `no_dangling_reference`) is proved. -/
theorem no_empty_placeholder_of_acyclic_partial (g : Grammar) (o : Opts) (fuel root : Nat) (ds : List Named)
    (hd : drawsAll g o = true) (hroot : root < g.length) (h : toRailroad g o fuel root = some ds)
    (rank : Nat → Nat)
    (hac : ∀ s, convertRoot g o fuel root = some s → heapAcyclicB s rank = true) :
    noEmptyPlaceholder ds = true := by
  unfold toRailroad at h
  split at h
  · exact absurd h (by simp)
  · rename_i s hs
    simp only [Option.some.injEq] at h
    subst h
    obtain ⟨hA, hD⟩ := convertRoot_AD g o fuel root s hd hroot hs
    have hB := convertRoot_B g o fuel root s hs
    have hac' := hac s hs
    unfold heapAcyclicB at hac'
    simp only [Bool.and_eq_true, List.all_eq_true, List.mem_range, decide_eq_true_eq] at hac'
    obtain ⟨hrk, hbound⟩ := hac'
    have hperm := sortByIndex_perm ((selected s).map (entryTree s))
    unfold noEmptyPlaceholder
    rw [List.all_eq_true]
    intro d hd'
    obtain ⟨e, he, rfl⟩ := List.mem_map.mp (hperm.mem_iff.mp hd')
    have hmem : e ∈ s.diagrams.map (·.2) := by
      unfold selected at he
      simp only at he
      split at he
      · exact dedupe_sub _ _ _ he
      · exact he
    obtain ⟨p, hp, rfl⟩ := List.mem_map.mp hmem
    have hc1 := hD p hp
    have hc2 := hB.dg p hp
    cases hcont : p.2.content with
    | none => rw [hcont] at hc1; simp [Slot.isRef] at hc1
    | empty => rw [hcont] at hc1; simp [Slot.isRef] at hc1
    | ref c =>
      rw [hcont] at hc2
      have hlt : c < s.heap.length := by simpa [Slot.inB] using hc2
      have := resolve_noRaw s.heap hA hB.hp rank (rankedHeap_of_B hrk) (s.heap.length + 1) c hlt
        (by have := hbound c hlt; omega)
      simp [entryTree, hcont, Tree.hasRaw, Tree.hasRawL, this]

/-- non-vacuity: the final heap of the named recursive grammar passes the check with the computed
    height as rank -/
example : ∃ s, convertRoot gNamed opts0 6 0 = some s ∧ drawsAll gNamed opts0 = true ∧
    heapAcyclicB s (heightOf s.heap s.heap.length) = true := by
  refine ⟨_, rfl, ?_, ?_⟩ <;> decide +kernel

end PP.Diagram
