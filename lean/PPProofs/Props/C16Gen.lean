import PPProofs.Lemmas.InfixGen
import PPProofs.Props.C16Left
/-!
# C16 — `infix_notation`: the general class (binary LEFT/RIGHT, prefix, POSTFIX; kept or suppressed parentheses)

Extends `infix_roundtrip_left_partial` (C16Left.lean) by POSTFIX levels (arity 1, LEFT) and by kept (non-`Suppress`)
parentheses.

PROVED HERE (`infix_roundtrip_general_partial`), for ALL tables in `ClassG` (operand `Word(cs)`; `lpar`/`rpar` each
suppressed or kept; each level a LEFT- or RIGHT-associative binary, a prefix, a postfix or a LEFT- or RIGHT-associative ternary operator without parse action;
spellings non-empty, not starting with a blank/operand character, pairwise prefix-incomparable; any number of levels,
any order) and ALL trees of ALL sizes in the table's normal form `WFG`: `parse_string(render t e ++ blanks,
parse_all=True)` of the model parser on `infixGrammar t` returns exactly `[nest t e]`; a postfix chain `a op op` is ONE
flat group `[a, op, op]` (`p_nest`), a kept parenthesis gives the group `[lpar?, inner, rpar?]`.
`ClassTL ⊆ ClassG`, `WFL ⊆ WFG`, so the statement subsumes `infix_roundtrip_left_partial` and `infix_roundtrip_partial`.

TERNARY levels of either associativity are in the class as well (RIGHT: `a op1 b op2 c` is one group of five nesting to
the right, `goal_ternR`; LEFT: the chain `a op1 b op2 c op1 d op2 e` is ONE flat group, `goal_ternL`/`tern_parse`/`t_nest`;
the second operator non-empty, not starting with a blank/operand character, prefix-incomparable with every first
operator).  So all six level kinds of `infix_notation` (arity 1, 2, 3 × LEFT, RIGHT) are covered.

STILL MISSING (oracle/correspondence only): level parse actions, overlapping spellings, ill-formed
strings, packrat.
-/
namespace PP.Infix.Gen
open PP.Parse

theorem lvl_le_of_WFG {t : Table} {cs : List Char} : ∀ e, WFG t cs e → e.lvl ≤ t.levels.length := by
  intro e
  cases e with
  | atom ws w => intro _; simp [Ex.lvl]
  | paren wl e wr => intro _; simp [Ex.lvl]
  | pre k wo e =>
    intro h
    obtain ⟨lv, hk, hlv, _⟩ := h
    have := (List.getElem?_eq_some_iff.mp hlv).1
    simp only [Ex.lvl]; omega
  | post k e wo =>
    intro h
    obtain ⟨lv, hk, hlv, _⟩ := h
    have := (List.getElem?_eq_some_iff.mp hlv).1
    simp only [Ex.lvl]; omega
  | bin k a wo b =>
    intro h
    obtain ⟨lv, hk, hlv, _⟩ := h
    have := (List.getElem?_eq_some_iff.mp hlv).1
    simp only [Ex.lvl]; omega
  | tern k a w1 b w2 c =>
    intro h
    obtain ⟨lv, hk, hlv, _⟩ := h
    have := (List.getElem?_eq_some_iff.mp hlv).1
    simp only [Ex.lvl]; omega

/-- a tree of a tighter level is a one-element chain of level `k` -/
theorem chain_of_low {t : Table} {cs s : List Char} {e : Ex} {k : Nat} (hwf : WFG t cs e)
    (hall : ∀ d, e.lvl + d ≤ t.levels.length → GoalG t cs s e (e.lvl + d)) (hlt : e.lvl < k)
    (hkn : k ≤ t.levels.length) : ChainOK t cs s k (Left.chainHead k e) (Left.chainRest k e) := by
  obtain ⟨h1, h2⟩ := Left.chain_low e hlt
  rw [h1, h2]
  refine ⟨⟨hwf, hlt, ?_⟩, by simp⟩
  have := hall (k - 1 - e.lvl) (by omega)
  rwa [show e.lvl + (k - 1 - e.lvl) = k - 1 by omega] at this

section main
variable {t : Table} {cs : List Char} {re : Bool} (hT : ClassG t cs re) (s : List Char)
include hT

/-- a LEFT-associative binary application (the whole chain it closes) at its own level: ONE flat group -/
theorem goal_binL {k : Nat} {lv : Level} (hK : 1 ≤ k) (hlv : t.levels[k - 1]? = some lv)
    (ha : lv.arity = 2) (hr : lv.right = false) {ea eb : Ex} {wo : List Char}
    (hch : ChainOK t cs s k (Left.chainHead k ea) (Left.chainRest k ea ++ [(wo, eb)])) :
    GoalG t cs s (.bin k ea wo eb) k := by
  intro q suf hs hq hf a c loc hloc
  obtain ⟨x1, r, hxr⟩ : ∃ x1 r, Left.chainRest k ea ++ [(wo, eb)] = x1 :: r := by
    cases Left.chainRest k ea with
    | nil => exact ⟨_, _, rfl⟩
    | cons y ys => exact ⟨_, _, rfl⟩
  have hrB : renderB t (.bin k ea wo eb) = renderB t (Left.chainHead k ea) ++ Left.restR t lv.op1 (x1 :: r) := by
    have := Left.chain_renderB t k (.bin k ea wo eb)
    simpa [Left.chainHead, Left.chainRest, opOf_eq hlv, hxr] using this
  have hnest : nest t (.bin k ea wo eb) = .g (nest t (Left.chainHead k ea) :: Left.restN t lv.op1 (x1 :: r)) := by
    rw [Left.chain_nest t k (by simp [rightOf, hlv, hr]), opOf_eq hlv, hxr]
  rw [hxr] at hch
  have hl : q + (renderB t (.bin k ea wo eb)).length
      = q + (renderB t (Left.chainHead k ea)).length + (Left.restR t lv.op1 (x1 :: r)).length := by
    rw [hrB, List.length_append, Nat.add_assoc]
  rw [hl] at hf ⊢
  rw [hnest]
  exact chain_parse hT s hK hlv ha hr hch q suf (by rw [hs, hrB, List.append_assoc]) hq hf a c loc hloc

/-- a tree parsed at its own level is parsed, unchanged, at every looser level -/
theorem lift_all {e : Ex} (hwf : WFG t cs e) (h0 : GoalG t cs s e e.lvl) :
    ∀ d, e.lvl + d ≤ t.levels.length → GoalG t cs s e (e.lvl + d) := by
  intro d
  induction d with
  | zero => intro _; exact h0
  | succ d ih =>
    intro hd
    have hlt : e.lvl + (d + 1) - 1 < t.levels.length := by omega
    have hlv : t.levels[e.lvl + (d + 1) - 1]? = some t.levels[e.lvl + (d + 1) - 1] := List.getElem?_eq_getElem hlt
    have := goal_lift hT s (K := e.lvl + (d + 1)) (by omega) hlv hwf (by omega)
      (by have := ih (by omega); simpa [Nat.add_sub_cancel] using this)
    exact this

end main

/-- a tree of a tighter level is a postfix chain of level `k` without operators -/
theorem post_of_low {t : Table} {cs s : List Char} {e : Ex} {k : Nat} (hwf : WFG t cs e)
    (hall : ∀ d, e.lvl + d ≤ t.levels.length → GoalG t cs s e (e.lvl + d)) (hlt : e.lvl < k)
    (hkn : k ≤ t.levels.length) : OperandOK t cs s k (pHead k e) ∧ ∀ w ∈ pRest k e, White t.white w := by
  obtain ⟨h1, h2⟩ := p_low e hlt
  rw [h1, h2]
  refine ⟨⟨hwf, hlt, ?_⟩, by simp⟩
  have := hall (k - 1 - e.lvl) (by omega)
  rwa [show e.lvl + (k - 1 - e.lvl) = k - 1 by omega] at this

/-- a tree of a tighter level is a one-element ternary chain of level `k` -/
theorem tchain_of_low {t : Table} {cs s : List Char} {e : Ex} {k : Nat} (hwf : WFG t cs e)
    (hall : ∀ d, e.lvl + d ≤ t.levels.length → GoalG t cs s e (e.lvl + d)) (hlt : e.lvl < k)
    (hkn : k ≤ t.levels.length) : TChainOK t cs s k (tHead k e) (tRest k e) := by
  obtain ⟨h1, h2⟩ := t_low e hlt
  rw [h1, h2]
  refine ⟨⟨hwf, hlt, ?_⟩, by simp⟩
  have := hall (k - 1 - e.lvl) (by omega)
  rwa [show e.lvl + (k - 1 - e.lvl) = k - 1 by omega] at this

section main2
variable {t : Table} {cs : List Char} {re : Bool} (hT : ClassG t cs re) (s : List Char)
include hT

/-- a POSTFIX application (the whole chain it closes) at its own level: ONE flat group -/
theorem goal_post {k : Nat} {lv : Level} (hK : 1 ≤ k) (hlv : t.levels[k - 1]? = some lv)
    (ha : lv.arity = 1) (hr : lv.right = false) {e : Ex} {wo : List Char}
    (hh : OperandOK t cs s k (pHead k e)) (hw : ∀ w ∈ pRest k e ++ [wo], White t.white w) :
    GoalG t cs s (.post k e wo) k := by
  intro q suf hs hq hf a c loc hloc
  obtain ⟨w1, r, hxr⟩ : ∃ w1 r, pRest k e ++ [wo] = w1 :: r := by
    cases pRest k e with
    | nil => exact ⟨_, _, rfl⟩
    | cons y ys => exact ⟨_, _, rfl⟩
  have hrB : renderB t (.post k e wo) = renderB t (pHead k e) ++ pR lv.op1 (w1 :: r) := by
    have := p_renderB t k (.post k e wo)
    simpa [pHead, pRest, opOf_eq hlv, hxr] using this
  have hnest : nest t (.post k e wo) = .g (nest t (pHead k e) :: pN lv.op1 (w1 :: r)) := by
    rw [p_nest t k, opOf_eq hlv, hxr]
  rw [hxr] at hw
  have hl : q + (renderB t (.post k e wo)).length
      = q + (renderB t (pHead k e)).length + (pR lv.op1 (w1 :: r)).length := by
    rw [hrB, List.length_append, Nat.add_assoc]
  rw [hl] at hf ⊢
  rw [hnest]
  exact post_parse hT s hK hlv ha hr hh hw q suf (by rw [hs, hrB, List.append_assoc]) hq hf a c loc hloc

/-- a LEFT-associative ternary application (the whole chain it closes) at its own level: ONE flat group -/
theorem goal_ternL {k : Nat} {lv : Level} (hK : 1 ≤ k) (hlv : t.levels[k - 1]? = some lv)
    (ha : lv.arity = 3) (hr : lv.right = false) {ea eb ec : Ex} {w1 w2 : List Char}
    (hch : TChainOK t cs s k (tHead k ea) (tRest k ea ++ [(w1, eb, w2, ec)])) :
    GoalG t cs s (.tern k ea w1 eb w2 ec) k := by
  intro q suf hs hq hf a c loc hloc
  obtain ⟨x1, r, hxr⟩ : ∃ x1 r, tRest k ea ++ [(w1, eb, w2, ec)] = x1 :: r := by
    cases tRest k ea with
    | nil => exact ⟨_, _, rfl⟩
    | cons y ys => exact ⟨_, _, rfl⟩
  have hrB : renderB t (.tern k ea w1 eb w2 ec) = renderB t (tHead k ea) ++ tR t lv.op1 lv.op2 (x1 :: r) := by
    have := t_renderB t k (.tern k ea w1 eb w2 ec)
    simpa [tHead, tRest, opOf_eq hlv, op2Of_eq hlv, hxr] using this
  have hnest : nest t (.tern k ea w1 eb w2 ec) = .g (nest t (tHead k ea) :: tN t lv.op1 lv.op2 (x1 :: r)) := by
    rw [t_nest t k (by simp [rightOf, hlv, hr]), opOf_eq hlv, op2Of_eq hlv, hxr]
  rw [hxr] at hch
  have hl : q + (renderB t (.tern k ea w1 eb w2 ec)).length
      = q + (renderB t (tHead k ea)).length + (tR t lv.op1 lv.op2 (x1 :: r)).length := by
    rw [hrB, List.length_append, Nat.add_assoc]
  rw [hl] at hf ⊢
  rw [hnest]
  exact tern_parse hT s hK hlv ha hr hch q suf (by rw [hs, hrB, List.append_assoc]) hq hf a c loc hloc

/-- every level `k ≥ lvl e` parses the spelling of `e` to `nest e`; seen from a LEFT-associative binary level
    `k ≥ lvl e`, `e` is a chain of operands that level `k-1` parses; seen from a POSTFIX level `k ≥ lvl e`, `e` is an
    operand that level `k-1` parses followed by operators -/
theorem goal_all : ∀ e, WFG t cs e →
    (∀ d, e.lvl + d ≤ t.levels.length → GoalG t cs s e (e.lvl + d)) ∧
    (∀ k lv, 1 ≤ k → t.levels[k - 1]? = some lv → lv.arity = 2 → lv.right = false → e.lvl ≤ k →
      ChainOK t cs s k (Left.chainHead k e) (Left.chainRest k e)) ∧
    (∀ k lv, 1 ≤ k → t.levels[k - 1]? = some lv → lv.arity = 1 → lv.right = false → e.lvl ≤ k →
      OperandOK t cs s k (pHead k e) ∧ ∀ w ∈ pRest k e, White t.white w) ∧
    (∀ k lv, 1 ≤ k → t.levels[k - 1]? = some lv → lv.arity = 3 → lv.right = false → e.lvl ≤ k →
      TChainOK t cs s k (tHead k e) (tRest k e)) := by
  intro e
  induction e with
  | atom ws w =>
    intro hwf
    have p1 := lift_all hT s hwf (goal_atom hT s hwf)
    refine ⟨p1, fun k lv hk hlv _ _ _ => ?_, fun k lv hk hlv _ _ _ => ?_, fun k lv hk hlv _ _ _ => ?_⟩ <;>
      have := (List.getElem?_eq_some_iff.mp hlv).1
    · exact chain_of_low hwf p1 (by simp only [Ex.lvl]; omega) (by omega)
    · exact post_of_low hwf p1 (by simp only [Ex.lvl]; omega) (by omega)
    · exact tchain_of_low hwf p1 (by simp only [Ex.lvl]; omega) (by omega)
  | paren wl e wr ih =>
    intro hwf
    have p1 : ∀ d, (Ex.paren wl e wr).lvl + d ≤ t.levels.length → GoalG t cs s (.paren wl e wr) ((Ex.paren wl e wr).lvl + d) := by
      apply lift_all hT s hwf
      have hle := lvl_le_of_WFG e hwf.2.2
      have := (ih hwf.2.2).1 (t.levels.length - e.lvl) (by omega)
      exact goal_paren hT s hwf (by simpa [Nat.add_sub_cancel' hle] using this)
    refine ⟨p1, fun k lv hk hlv _ _ _ => ?_, fun k lv hk hlv _ _ _ => ?_, fun k lv hk hlv _ _ _ => ?_⟩ <;>
      have := (List.getElem?_eq_some_iff.mp hlv).1
    · exact chain_of_low hwf p1 (by simp only [Ex.lvl]; omega) (by omega)
    · exact post_of_low hwf p1 (by simp only [Ex.lvl]; omega) (by omega)
    · exact tchain_of_low hwf p1 (by simp only [Ex.lvl]; omega) (by omega)
  | pre k wo e ih =>
    intro hwf
    obtain ⟨lv, hk, hlv, har, hrt, _, hwe, hle⟩ := id hwf
    have hkn := (List.getElem?_eq_some_iff.mp hlv).1
    have p1 : ∀ d, (Ex.pre k wo e).lvl + d ≤ t.levels.length → GoalG t cs s (.pre k wo e) ((Ex.pre k wo e).lvl + d) := by
      apply lift_all hT s hwf
      have := (ih hwe).1 (k - e.lvl) (by omega)
      exact goal_pre hT s hwf (by simpa [Nat.add_sub_cancel' hle] using this)
    refine ⟨p1, fun k2 lv2 hk2 hlv2 ha2 hr2 hle2 => ?_, fun k2 lv2 hk2 hlv2 ha2 hr2 hle2 => ?_, fun k2 lv2 hk2 hlv2 ha2 hr2 hle2 => ?_⟩ <;>
      have := (List.getElem?_eq_some_iff.mp hlv2).1 <;> simp only [Ex.lvl] at hle2 <;>
      have hne : k ≠ k2 := (by rintro rfl; rw [hlv] at hlv2; cases hlv2; rw [hrt] at hr2; cases hr2)
    · exact chain_of_low hwf p1 (by simp only [Ex.lvl]; omega) (by omega)
    · exact post_of_low hwf p1 (by simp only [Ex.lvl]; omega) (by omega)
    · exact tchain_of_low hwf p1 (by simp only [Ex.lvl]; omega) (by omega)
  | post k e wo ih =>
    intro hwf
    obtain ⟨lv, hk, hlv, har, hrt, hwo, hwe, hle⟩ := id hwf
    have hkn := (List.getElem?_eq_some_iff.mp hlv).1
    have hp := (ih hwe).2.2.1 k lv hk hlv har hrt hle
    have hw : ∀ w ∈ pRest k e ++ [wo], White t.white w := by
      intro w hw
      rcases List.mem_append.mp hw with hw | hw
      · exact hp.2 w hw
      · simp only [List.mem_singleton] at hw; subst hw; exact hwo
    have p1 : ∀ d, (Ex.post k e wo).lvl + d ≤ t.levels.length → GoalG t cs s (.post k e wo) ((Ex.post k e wo).lvl + d) :=
      lift_all hT s hwf (goal_post hT s hk hlv har hrt hp.1 hw)
    refine ⟨p1, fun k2 lv2 hk2 hlv2 ha2 hr2 hle2 => ?_, fun k2 lv2 hk2 hlv2 ha2 hr2 hle2 => ?_, fun k2 lv2 hk2 hlv2 ha2 hr2 hle2 => ?_⟩ <;>
      have := (List.getElem?_eq_some_iff.mp hlv2).1 <;> simp only [Ex.lvl] at hle2
    · have hne : k ≠ k2 := by rintro rfl; rw [hlv] at hlv2; cases hlv2; omega
      exact chain_of_low hwf p1 (by simp only [Ex.lvl]; omega) (by omega)
    · by_cases hkk : k = k2
      · subst hkk
        simpa [pHead, pRest] using And.intro hp.1 hw
      · exact post_of_low hwf p1 (by simp only [Ex.lvl]; omega) (by omega)
    · have hne : k ≠ k2 := by rintro rfl; rw [hlv] at hlv2; cases hlv2; omega
      exact tchain_of_low hwf p1 (by simp only [Ex.lvl]; omega) (by omega)
  | bin k a wo b iha ihb =>
    intro hwf
    obtain ⟨lv, hk, hlv, har, hwo, hwa, hwb, hcase⟩ := id hwf
    have hkn := (List.getElem?_eq_some_iff.mp hlv).1
    rcases hcase with ⟨hr, hla, hlb⟩ | ⟨hr, hla, hlb⟩
    · -- RIGHT-associative
      have p1 : ∀ d, (Ex.bin k a wo b).lvl + d ≤ t.levels.length → GoalG t cs s (.bin k a wo b) ((Ex.bin k a wo b).lvl + d) := by
        apply lift_all hT s hwf
        have h1 := (iha hwa).1 (k - 1 - a.lvl) (by omega)
        have h2 := (ihb hwb).1 (k - b.lvl) (by omega)
        exact goal_binR hT s hwf hlv hr (by simpa [show a.lvl + (k - 1 - a.lvl) = k - 1 by omega] using h1)
          (by simpa [Nat.add_sub_cancel' hlb] using h2)
      refine ⟨p1, fun k2 lv2 hk2 hlv2 ha2 hr2 hle2 => ?_, fun k2 lv2 hk2 hlv2 ha2 hr2 hle2 => ?_, fun k2 lv2 hk2 hlv2 ha2 hr2 hle2 => ?_⟩ <;>
        have := (List.getElem?_eq_some_iff.mp hlv2).1 <;> simp only [Ex.lvl] at hle2 <;>
        have hne : k ≠ k2 := (by rintro rfl; rw [hlv] at hlv2; cases hlv2; rw [hr] at hr2; cases hr2)
      · exact chain_of_low hwf p1 (by simp only [Ex.lvl]; omega) (by omega)
      · exact post_of_low hwf p1 (by simp only [Ex.lvl]; omega) (by omega)
      · exact tchain_of_low hwf p1 (by simp only [Ex.lvl]; omega) (by omega)
    · -- LEFT-associative: the chain
      have hchain : ChainOK t cs s k (Left.chainHead k a) (Left.chainRest k a ++ [(wo, b)]) := by
        have hca := (iha hwa).2.1 k lv hk hlv har hr hla
        have hgb := (ihb hwb).1 (k - 1 - b.lvl) (by omega)
        rw [show b.lvl + (k - 1 - b.lvl) = k - 1 by omega] at hgb
        refine ⟨hca.1, fun x hx => ?_⟩
        rcases List.mem_append.mp hx with hx | hx
        · exact hca.2 x hx
        · simp only [List.mem_singleton] at hx
          subst hx
          exact ⟨hwo, hwb, hlb, hgb⟩
      have p1 : ∀ d, (Ex.bin k a wo b).lvl + d ≤ t.levels.length → GoalG t cs s (.bin k a wo b) ((Ex.bin k a wo b).lvl + d) :=
        lift_all hT s hwf (goal_binL hT s hk hlv har hr hchain)
      refine ⟨p1, fun k2 lv2 hk2 hlv2 ha2 hr2 hle2 => ?_, fun k2 lv2 hk2 hlv2 ha2 hr2 hle2 => ?_, fun k2 lv2 hk2 hlv2 ha2 hr2 hle2 => ?_⟩ <;>
        have := (List.getElem?_eq_some_iff.mp hlv2).1 <;> simp only [Ex.lvl] at hle2
      · by_cases hkk : k = k2
        · subst hkk
          simpa [Left.chainHead, Left.chainRest] using hchain
        · exact chain_of_low hwf p1 (by simp only [Ex.lvl]; omega) (by omega)
      · have hne : k ≠ k2 := by rintro rfl; rw [hlv] at hlv2; cases hlv2; omega
        exact post_of_low hwf p1 (by simp only [Ex.lvl]; omega) (by omega)
      · have hne : k ≠ k2 := by rintro rfl; rw [hlv] at hlv2; cases hlv2; omega
        exact tchain_of_low hwf p1 (by simp only [Ex.lvl]; omega) (by omega)
  | tern k a w1 b w2 c iha ihb ihc =>
    intro hwf
    obtain ⟨lv, hk, hlv, har, hw1, hw2, hwa, hwb, hwc, hcase⟩ := id hwf
    have hkn := (List.getElem?_eq_some_iff.mp hlv).1
    rcases hcase with ⟨hr, hla, hlb, hlc⟩ | ⟨hr, hla, hlb, hlc⟩
    · -- RIGHT-associative
      have p1 : ∀ d, (Ex.tern k a w1 b w2 c).lvl + d ≤ t.levels.length →
          GoalG t cs s (.tern k a w1 b w2 c) ((Ex.tern k a w1 b w2 c).lvl + d) := by
        apply lift_all hT s hwf
        have h1 := (iha hwa).1 (k - 1 - a.lvl) (by omega)
        have h2 := (ihb hwb).1 (k - b.lvl) (by omega)
        have h3 := (ihc hwc).1 (k - c.lvl) (by omega)
        exact goal_ternR hT s hwf hlv hr (by simpa [show a.lvl + (k - 1 - a.lvl) = k - 1 by omega] using h1)
          (by simpa [Nat.add_sub_cancel' hlb] using h2) (by simpa [Nat.add_sub_cancel' hlc] using h3)
      refine ⟨p1, fun k2 lv2 hk2 hlv2 ha2 hr2 hle2 => ?_, fun k2 lv2 hk2 hlv2 ha2 hr2 hle2 => ?_,
          fun k2 lv2 hk2 hlv2 ha2 hr2 hle2 => ?_⟩ <;>
        have := (List.getElem?_eq_some_iff.mp hlv2).1 <;> simp only [Ex.lvl] at hle2 <;>
        have hne : k ≠ k2 := (by rintro rfl; rw [hlv] at hlv2; cases hlv2; rw [hr] at hr2; cases hr2)
      · exact chain_of_low hwf p1 (by simp only [Ex.lvl]; omega) (by omega)
      · exact post_of_low hwf p1 (by simp only [Ex.lvl]; omega) (by omega)
      · exact tchain_of_low hwf p1 (by simp only [Ex.lvl]; omega) (by omega)
    · -- LEFT-associative: the chain
      have hchain : TChainOK t cs s k (tHead k a) (tRest k a ++ [(w1, b, w2, c)]) := by
        have hca := (iha hwa).2.2.2 k lv hk hlv har hr hla
        have hgb := (ihb hwb).1 (k - 1 - b.lvl) (by omega)
        rw [show b.lvl + (k - 1 - b.lvl) = k - 1 by omega] at hgb
        have hgc := (ihc hwc).1 (k - 1 - c.lvl) (by omega)
        rw [show c.lvl + (k - 1 - c.lvl) = k - 1 by omega] at hgc
        refine ⟨hca.1, fun x hx => ?_⟩
        rcases List.mem_append.mp hx with hx | hx
        · exact hca.2 x hx
        · simp only [List.mem_singleton] at hx
          subst hx
          exact ⟨hw1, ⟨hwb, hlb, hgb⟩, hw2, ⟨hwc, hlc, hgc⟩⟩
      have p1 : ∀ d, (Ex.tern k a w1 b w2 c).lvl + d ≤ t.levels.length →
          GoalG t cs s (.tern k a w1 b w2 c) ((Ex.tern k a w1 b w2 c).lvl + d) :=
        lift_all hT s hwf (goal_ternL hT s hk hlv har hr hchain)
      refine ⟨p1, fun k2 lv2 hk2 hlv2 ha2 hr2 hle2 => ?_, fun k2 lv2 hk2 hlv2 ha2 hr2 hle2 => ?_,
          fun k2 lv2 hk2 hlv2 ha2 hr2 hle2 => ?_⟩ <;>
        have := (List.getElem?_eq_some_iff.mp hlv2).1 <;> simp only [Ex.lvl] at hle2
      · have hne : k ≠ k2 := by rintro rfl; rw [hlv] at hlv2; cases hlv2; omega
        exact chain_of_low hwf p1 (by simp only [Ex.lvl]; omega) (by omega)
      · have hne : k ≠ k2 := by rintro rfl; rw [hlv] at hlv2; cases hlv2; omega
        exact post_of_low hwf p1 (by simp only [Ex.lvl]; omega) (by omega)
      · by_cases hkk : k = k2
        · subst hkk
          simpa [tHead, tRest] using hchain
        · exact tchain_of_low hwf p1 (by simp only [Ex.lvl]; omega) (by omega)

end main2



/-- **infix_roundtrip (partial: LEFT/RIGHT-associative binary, prefix, POSTFIX and LEFT/RIGHT-associative TERNARY levels, any number of them, in any
    order; parentheses suppressed or kept).**
    For every table in class G and every tree in its normal form, of any size, written with any blanks before its
    tokens and any trailing blanks: `parse_string(.., parse_all=True)` of the model parser on `infixGrammar t` returns
    exactly the documented nesting `[nest t e]` — left-associative and postfix chains as ONE flat group each, a kept
    parenthesis as a group holding its token(s) and the inner result — for every fuel from some point on.

    FULL STATEMENT (properties.jsonl) additionally covers level parse actions and overlapping
    spellings; those stay with the oracle/correspondence legs. -/
theorem _root_.PP.Infix.infix_roundtrip_general_partial {t : Table} {cs : List Char} {re : Bool} (hT : ClassG t cs re)
    (e : Ex) (hwf : WFG t cs e) (trail : List Char) (htr : White t.white trail) :
    ∃ F, ∀ f, F ≤ f →
      parseString (parseX (fbIds t) (infixGrammar t) (render t e ++ trail) f) (infixGrammar t) rootId t.white
        (render t e ++ trail) true = .ok (render t e).length [nest t e] := by
  let s := render t e ++ trail
  have hs0 : s.drop 0 = lead e ++ (renderB t e ++ trail) := by simp [s, render_eq, List.append_assoc]
  have h1 := drop_add hs0
  have hq0 : skipWhite t.white s 0 = 0 + (lead e).length := skip_lead hT s hwf hs0
  rw [Nat.zero_add] at h1 hq0
  have hq1 := skip_at_body hT s hwf h1
  have hend : s.drop ((lead e).length + (renderB t e).length) = trail ++ [] := by
    simpa using drop_add h1
  have hlen : s.length = (lead e).length + (renderB t e).length + trail.length := by
    simp [s, render_eq, List.length_append]; omega
  have hsk : skipWhite t.white s ((lead e).length + (renderB t e).length) = s.length := by
    rw [skipWhite_eq hend htr (by simp), hlen]
  have hfol : FollowG t cs s t.levels.length ((lead e).length + (renderB t e).length) := by
    constructor
    · intro ch hch
      cases htl : trail with
      | nil =>
        rw [htl] at hend hlen
        have : s[(lead e).length + (renderB t e).length]? = none := by
          apply getElem?_none_of_drop; simpa using hend
        rw [this] at hch; cases hch
      | cons w0 ws0 =>
        rw [htl] at hend
        have := getElem?_of_drop (by simpa using hend)
        rw [this] at hch; cases hch
        exact white_not_cs hT htr ch (by simp [htl])
    · intro j lv _ _ hlv _
      rw [hsk]
      have : s.drop s.length = [] := by simp
      rw [this]
      intro hp
      exact (hT.opOk lv (lv_mem hlv)).1 (List.prefix_nil.mp hp)
  have hle := lvl_le_of_WFG e hwf
  have hgoal := (goal_all hT s e hwf).1 (t.levels.length - e.lvl) (by omega)
  rw [Nat.add_sub_cancel' hle] at hgoal
  have hg1 : (infixGrammar t)[1]? = some (mkNode t.white (.forward (some (E t.levels.length))) true true) := by
    rw [gram_header t (by omega)]; simp [header]
  have hroot : Holds t s 1 0 true true (.ok ((lead e).length + (renderB t e).length) [nest t e]) := by
    apply H_forward_ok t s (fb_header t (by omega)) hg1
    rw [preOf_true, hq0]
    exact hgoal _ _ h1 hq1 hfol true false _ (preOf_false _ _ _)
  obtain ⟨F, hF⟩ := hroot
  refine ⟨F, fun f hf => ?_⟩
  have hrl : (render t e).length = (lead e).length + (renderB t e).length := by
    simp [render_eq, List.length_append]
  show parseString (parseX (fbIds t) (infixGrammar t) s f) (infixGrammar t) rootId t.white s true = _
  unfold parseString
  have := hF f hf
  simp only [PX] at this
  rw [show rootId = 1 from rfl, this, hg1]
  have hsk2 : skipWhite t.white s s.length = s.length := by
    have := skipWhite_eq (W := t.white) (s := s) (loc := s.length) (ws := []) (x := []) (by simp) (by simp) (by simp)
    simpa using this
  simp [preParse, mkNode, hsk, stringEndCheck, hsk2, stringEndImpl, hrl]


/-- the statement for class G contains `infix_roundtrip_left_partial`'s (class TL tables, `WFL` trees) -/
theorem _root_.PP.Infix.infix_roundtrip_general_covers_left {t : Table} {cs : List Char} {re : Bool} (hT : ClassTL t cs re)
    (e : Ex) (hwf : WFL t cs e) (trail : List Char) (htr : White t.white trail) :
    ∃ F, ∀ f, F ≤ f →
      parseString (parseX (fbIds t) (infixGrammar t) (render t e ++ trail) f) (infixGrammar t) rootId t.white
        (render t e ++ trail) true = .ok (render t e).length [nest t e] :=
  infix_roundtrip_general_partial hT.toG e (WFL.toWFG e hwf) trail htr

/-- postfix levels alone (the `infix_roundtrip_post` reading): a table whose levels are all POSTFIX is of class G as
    soon as the spelling conditions hold, so postfix chains `a op op op` of any length give ONE flat group -/
theorem _root_.PP.Infix.infix_roundtrip_post_partial {t : Table} {cs : List Char} {re : Bool} (hT : ClassG t cs re)
    (k : Nat) (e : Ex) (wo : List Char) (hwf : WFG t cs (.post k e wo)) (trail : List Char) (htr : White t.white trail) :
    ∃ F, ∀ f, F ≤ f →
      parseString (parseX (fbIds t) (infixGrammar t) (render t (.post k e wo) ++ trail) f) (infixGrammar t) rootId t.white
        (render t (.post k e wo) ++ trail) true
        = .ok (render t (.post k e wo)).length [.g (nest t (pHead k e) :: pN (opOf t k) (pRest k e ++ [wo]))] := by
  have := infix_roundtrip_general_partial hT (.post k e wo) hwf trail htr
  rwa [p_nest t k e wo] at this

/-! ### non-vacuity: a concrete table of class G with KEPT parentheses (postfix `!` tightest, prefix `-`,
    LEFT-associative `*`, RIGHT-associative `^^` loosest), a tree, and the theorem's conclusion evaluated on it -/

def exTableG : Table :=
  { white := [' ', '\t', '\n', '\r'],
    base := mkNode [' ', '\t', '\n', '\r'] (.word ['0', '1', '2', '3'] ['0', '1', '2', '3'] 1 none false false true) false true,
    lpar := ['('], rpar := [')'], lsup := false, rsup := false,
    levels := [{ arity := 1, right := false, op1 := ['!'] }, { arity := 1, right := true, op1 := ['-'] },
               { arity := 2, right := false, op1 := ['*'] }, { arity := 2, right := true, op1 := ['^', '^'] }] }

/-- the same table with a suppressed `(` and a kept `)` -/
def exTableG' : Table := { exTableG with lsup := true }

/-- `1! !*-2 !! * ( 3 ^^1 )! ^^ 0` -/
def exTreeG : Ex :=
  .bin 4
    (.bin 3
      (.bin 3 (.post 1 (.post 1 (.atom [] ['1']) []) [' ']) [] (.pre 2 [] (.post 1 (.post 1 (.atom [] ['2']) [' ']) [])))
      [' '] (.post 1 (.paren [' '] (.bin 4 (.atom [' '] ['3']) [' '] (.atom [] ['1'])) [' ']) []))
    [' '] (.atom [' '] ['0'])

theorem exTableG_ops : ∀ (i j : Nat) (lvi lvj : Level), exTableG.levels[i]? = some lvi → exTableG.levels[j]? = some lvj →
    i ≠ j → ¬ lvi.op1 <+: lvj.op1 := by
  intro i j lvi lvj hi hj hij
  have hi4 : i < 4 := (List.getElem?_eq_some_iff.mp hi).1
  have hj4 : j < 4 := (List.getElem?_eq_some_iff.mp hj).1
  match i, j, hi4, hj4 with
  | 0, 0, _, _ => exact absurd rfl hij
  | 1, 1, _, _ => exact absurd rfl hij
  | 2, 2, _, _ => exact absurd rfl hij
  | 3, 3, _, _ => exact absurd rfl hij
  | 0, 1, _, _ | 0, 2, _, _ | 0, 3, _, _ | 1, 0, _, _ | 1, 2, _, _ | 1, 3, _, _
  | 2, 0, _, _ | 2, 1, _, _ | 2, 3, _, _ | 3, 0, _, _ | 3, 1, _, _ | 3, 2, _, _ =>
    simp [exTableG] at hi hj; subst hi; subst hj; decide

theorem exTableG_class : ClassG exTableG ['0', '1', '2', '3'] true where
  base := rfl
  csW := by decide
  kinds := by decide
  lparOk := by decide
  rparOk := by decide
  opOk := by decide
  opsInc := exTableG_ops
  parInc := by decide
  op2Ok := by decide
  op2Inc := by decide

theorem exTableG'_class : ClassG exTableG' ['0', '1', '2', '3'] true where
  base := rfl
  csW := by decide
  kinds := by decide
  lparOk := by decide
  rparOk := by decide
  opOk := by decide
  opsInc := exTableG_ops
  parInc := by decide
  op2Ok := by decide
  op2Inc := by decide

theorem exTreeG_wf : WFG exTableG ['0', '1', '2', '3'] exTreeG := by
  simp [exTreeG, WFG, exTableG, White, Ex.lvl]

theorem exTreeG_wf' : WFG exTableG' ['0', '1', '2', '3'] exTreeG := by
  simp [exTreeG, WFG, exTableG', exTableG, White, Ex.lvl]

/-- the hypotheses of `infix_roundtrip_general_partial` are satisfiable together -/
example := infix_roundtrip_general_partial exTableG_class exTreeG exTreeG_wf [' ', '\n'] (by simp [White, exTableG])
example := infix_roundtrip_general_partial exTableG'_class exTreeG exTreeG_wf' [] (by simp [White])
example := infix_roundtrip_post_partial exTableG_class 1 (.post 1 (.atom [] ['1']) []) [' ']
  (by simp [WFG, exTableG, White, Ex.lvl]) [] (by simp [White])

example : render exTableG exTreeG = "1! !*-2 !! * ( 3 ^^1 )! ^^ 0".toList := by decide

example : (match parseString (parseX (fbIds exTableG) (infixGrammar exTableG) (render exTableG exTreeG) 80)
      (infixGrammar exTableG) rootId exTableG.white (render exTableG exTreeG) true with
    | .ok e ts => some (e, showToks ts)
    | _ => none) = some (28, "[[[1 ! ! ] * [- [2 ! ! ] ] * [[( [3 ^^ 1 ] ) ] ! ] ] ^^ 0 ] ".toList) := by
  decide +kernel

example : showTok (nest exTableG exTreeG) = "[[[1 ! ! ] * [- [2 ! ! ] ] * [[( [3 ^^ 1 ] ) ] ! ] ] ^^ 0 ]".toList := by
  decide +kernel

example : showTok (nest exTableG' exTreeG) = "[[[1 ! ! ] * [- [2 ! ! ] ] * [[[3 ^^ 1 ] ) ] ! ] ] ^^ 0 ]".toList := by
  decide +kernel

/-! ### non-vacuity with a RIGHT-associative ternary level (`?` `:` loosest, above LEFT-associative `+`) -/

def exTableH : Table :=
  { white := [' ', '\t', '\n', '\r'],
    base := mkNode [' ', '\t', '\n', '\r'] (.word ['0', '1', '2', '3'] ['0', '1', '2', '3'] 1 none false false true) false true,
    lpar := ['('], rpar := [')'],
    levels := [{ arity := 1, right := false, op1 := ['!'] }, { arity := 2, right := false, op1 := ['+'] },
               { arity := 3, right := true, op1 := ['?'], op2 := [':'] }] }

/-- `1+2 ? 3 ? 0! : 1 :(2?3:0) + 1` -/
def exTreeH : Ex :=
  .tern 3 (.bin 2 (.atom [] ['1']) [] (.atom [] ['2'])) [' ']
    (.tern 3 (.atom [' '] ['3']) [' '] (.post 1 (.atom [' '] ['0']) []) [' '] (.atom [' '] ['1'])) [' ']
    (.bin 2 (.paren [] (.tern 3 (.atom [] ['2']) [] (.atom [] ['3']) [] (.atom [] ['0'])) []) [' '] (.atom [' '] ['1']))

theorem exTableH_class : ClassG exTableH ['0', '1', '2', '3'] true where
  base := rfl
  csW := by decide
  kinds := by decide
  lparOk := by decide
  rparOk := by decide
  opOk := by decide
  opsInc := by
    intro i j lvi lvj hi hj hij
    have hi3 : i < 3 := (List.getElem?_eq_some_iff.mp hi).1
    have hj3 : j < 3 := (List.getElem?_eq_some_iff.mp hj).1
    match i, j, hi3, hj3 with
    | 0, 0, _, _ => exact absurd rfl hij
    | 1, 1, _, _ => exact absurd rfl hij
    | 2, 2, _, _ => exact absurd rfl hij
    | 0, 1, _, _ | 0, 2, _, _ | 1, 0, _, _ | 1, 2, _, _ | 2, 0, _, _ | 2, 1, _, _ =>
      simp [exTableH] at hi hj; subst hi; subst hj; decide
  parInc := by decide
  op2Ok := by decide
  op2Inc := by decide

theorem exTreeH_wf : WFG exTableH ['0', '1', '2', '3'] exTreeH := by
  simp [exTreeH, WFG, exTableH, White, Ex.lvl]

example := infix_roundtrip_general_partial exTableH_class exTreeH exTreeH_wf [' '] (by simp [White, exTableH])

example : render exTableH exTreeH = "1+2 ? 3 ? 0! : 1 :(2?3:0) + 1".toList := by decide

example : (match parseString (parseX (fbIds exTableH) (infixGrammar exTableH) (render exTableH exTreeH) 80)
      (infixGrammar exTableH) rootId exTableH.white (render exTableH exTreeH) true with
    | .ok e ts => some (e, showToks ts)
    | _ => none) = some (29, "[[1 + 2 ] ? [3 ? [0 ! ] : 1 ] : [[2 ? 3 : 0 ] + 1 ] ] ".toList) := by
  decide +kernel

example : showTok (nest exTableH exTreeH) = "[[1 + 2 ] ? [3 ? [0 ! ] : 1 ] : [[2 ? 3 : 0 ] + 1 ] ]".toList := by
  decide +kernel

/-! ### non-vacuity with a LEFT-associative ternary level (`?` `:` above prefix `-`), kept `(` -/

def exTableK : Table :=
  { white := [' ', '\t', '\n', '\r'],
    base := mkNode [' ', '\t', '\n', '\r'] (.word ['0', '1', '2', '3'] ['0', '1', '2', '3'] 1 none false false true) false true,
    lpar := ['('], rpar := [')'], lsup := false,
    levels := [{ arity := 1, right := true, op1 := ['-'] }, { arity := 3, right := false, op1 := ['?'], op2 := [':'] },
               { arity := 2, right := false, op1 := ['+'] }] }

/-- `1 ? -2 : 3 ?0:(1?2:3) + 1?2 :3` -/
def exTreeK : Ex :=
  .bin 3
    (.tern 2 (.tern 2 (.atom [] ['1']) [' '] (.pre 1 [' '] (.atom [] ['2'])) [' '] (.atom [' '] ['3'])) [' ']
      (.atom [] ['0']) [] (.paren [] (.tern 2 (.atom [] ['1']) [] (.atom [] ['2']) [] (.atom [] ['3'])) []))
    [' '] (.tern 2 (.atom [' '] ['1']) [] (.atom [] ['2']) [' '] (.atom [] ['3']))

theorem exTableK_class : ClassG exTableK ['0', '1', '2', '3'] true where
  base := rfl
  csW := by decide
  kinds := by decide
  lparOk := by decide
  rparOk := by decide
  opOk := by decide
  opsInc := by
    intro i j lvi lvj hi hj hij
    have hi3 : i < 3 := (List.getElem?_eq_some_iff.mp hi).1
    have hj3 : j < 3 := (List.getElem?_eq_some_iff.mp hj).1
    match i, j, hi3, hj3 with
    | 0, 0, _, _ => exact absurd rfl hij
    | 1, 1, _, _ => exact absurd rfl hij
    | 2, 2, _, _ => exact absurd rfl hij
    | 0, 1, _, _ | 0, 2, _, _ | 1, 0, _, _ | 1, 2, _, _ | 2, 0, _, _ | 2, 1, _, _ =>
      simp [exTableK] at hi hj; subst hi; subst hj; decide
  parInc := by decide
  op2Ok := by decide
  op2Inc := by decide

theorem exTreeK_wf : WFG exTableK ['0', '1', '2', '3'] exTreeK := by
  simp [exTreeK, WFG, exTableK, White, Ex.lvl]

example := infix_roundtrip_general_partial exTableK_class exTreeK exTreeK_wf [' '] (by simp [White, exTableK])

example : render exTableK exTreeK = "1 ? -2 : 3 ?0:(1?2:3) + 1?2 :3".toList := by decide

example : (match parseString (parseX (fbIds exTableK) (infixGrammar exTableK) (render exTableK exTreeK) 80)
      (infixGrammar exTableK) rootId exTableK.white (render exTableK exTreeK) true with
    | .ok e ts => some (e, showToks ts)
    | _ => none) = some (30, "[[1 ? [- 2 ] : 3 ? 0 : [( [1 ? 2 : 3 ] ] ] + [1 ? 2 : 3 ] ] ".toList) := by
  decide +kernel

example : showTok (nest exTableK exTreeK) = "[[1 ? [- 2 ] : 3 ? 0 : [( [1 ? 2 : 3 ] ] ] + [1 ? 2 : 3 ] ]".toList := by
  decide +kernel

end PP.Infix.Gen
