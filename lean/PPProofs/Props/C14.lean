import PPProofs.Lemmas.LineCol
/-!
# C14 — `col`, `lineno`, `line` are mutually consistent (for every string and every location)

Model: `PPModel/Mod/LineCol.lean` (transcription of `pyparsing/util.py:40-78`).
The statements quantify over **all** strings `s` and all `loc ≤ s.length`; no bound.
-/
namespace PP.LineCol

/-- `b` is the index at which the line containing `loc` starts. -/
structure IsLineStart (s : List Char) (loc b : Nat) : Prop where
  le : b ≤ loc
  atStart : b = 0 ∨ s[b - 1]? = some '\n'
  noNl : ∀ i, b ≤ i → i < loc → s[i]? ≠ some '\n'

/-- the start of the line is unique, so "the line containing loc" is well defined -/
theorem IsLineStart.unique {s loc b b'} (h : IsLineStart s loc b) (h' : IsLineStart s loc b') :
    b = b' := by
  rcases Nat.lt_trichotomy b b' with hlt | heq | hgt
  · rcases h'.atStart with h0 | hn
    · omega
    · exact absurd hn (h.noNl (b' - 1) (by omega) (by have := h'.le; omega))
  · exact heq
  · rcases h.atStart with h0 | hn
    · omega
    · exact absurd hn (h'.noNl (b - 1) (by omega) (by have := h.le; omega))

theorem lineStart_isLineStart (s : List Char) (loc : Nat) : IsLineStart s loc (lineStart loc s) := by
  unfold lineStart
  cases hr : rfindNl s loc with
  | some i =>
    obtain ⟨h1, h2, h3⟩ := rfindNl_some s loc i hr
    exact ⟨by simp; omega, Or.inr (by simpa using h2), fun j hj1 hj2 => h3 j (by simp at hj1; omega) hj2⟩
  | none =>
    exact ⟨by simp, Or.inl rfl, fun j _ hj2 => rfindNl_none s loc hr j hj2⟩

/-- **col is the 1-based offset of `loc` on its line** (the special case in the code is
    redundant: it returns what the general formula returns). -/
theorem col_is_offset (s : List Char) (loc : Nat) :
    col loc s = loc - lineStart loc s + 1 := by
  unfold col lineStart
  split
  · rename_i h
    obtain ⟨h0, h1, h2⟩ := h
    cases hr : rfindNl s loc with
    | some i =>
      obtain ⟨a, b, c⟩ := rfindNl_some s loc i hr
      have : i = loc - 1 := by
        rcases Nat.lt_or_ge i (loc - 1) with hlt | hge
        · exact absurd h2 (c (loc - 1) hlt (by omega))
        · omega
      simp; omega
    | none => exact absurd h2 (rfindNl_none s loc hr (loc - 1) (by omega))
  · cases hr : rfindNl s loc with
    | some i =>
      obtain ⟨a, _, _⟩ := rfindNl_some s loc i hr
      simp; omega
    | none => simp

theorem col_pos (s : List Char) (loc : Nat) : 1 ≤ col loc s := by
  rw [col_is_offset]; omega

/-- `loc` is recovered from the line start and the column -/
theorem loc_on_line (s : List Char) (loc : Nat) :
    lineStart loc s + col loc s - 1 = loc := by
  have := (lineStart_isLineStart s loc).le
  rw [col_is_offset]; omega

/-- **lineno counts the newlines before `loc`** … -/
theorem lineno_counts_newlines (s : List Char) (loc : Nat) :
    lineno loc s = (s.take loc).count '\n' + 1 := by
  simp [lineno, countNl_eq]

private theorem takeWhile_eq_take (t : List Char) (k : Nat)
    (hk : t[k]? = some '\n') (hno : ∀ i, i < k → t[i]? ≠ some '\n') :
    t.takeWhile (· != '\n') = t.take k := by
  induction t generalizing k with
  | nil => simp at hk
  | cons c cs ih =>
    cases k with
    | zero => simp at hk; simp [hk]
    | succ k =>
      have hc : c ≠ '\n' := by simpa using hno 0 (by omega)
      simp only [List.takeWhile_cons, List.take_succ_cons]
      simp [hc]
      exact ih k (by simpa using hk) (fun i hi => by simpa using hno (i + 1) (by omega))

private theorem takeWhile_eq_self (t : List Char) (hno : ∀ i : Nat, t[i]? ≠ some '\n') :
    t.takeWhile (· != '\n') = t := by
  induction t with
  | nil => rfl
  | cons c cs ih =>
    have hc : c ≠ '\n' := by simpa using hno 0
    simp [hc]
    exact ih (fun i => by simpa using hno (i + 1))

/-- **line is the text of the line containing `loc`**: from the line start up to (not
    including) the next newline. -/
theorem line_is_the_line (s : List Char) (loc : Nat) :
    line loc s = (s.drop (lineStart loc s)).takeWhile (· != '\n') := by
  have hb := lineStart_isLineStart s loc
  unfold line
  simp only
  cases hf : findNl s loc with
  | some j =>
    obtain ⟨h1, h2, h3⟩ := findNl_some s loc j hf
    simp only
    rw [List.drop_take]
    symm
    apply takeWhile_eq_take
    · rw [List.getElem?_drop]
      have : lineStart loc s + (j - lineStart loc s) = j := by have := hb.le; omega
      rw [this]; exact h2
    · intro i hi
      rw [List.getElem?_drop]
      by_cases hlt : lineStart loc s + i < loc
      · exact hb.noNl _ (by omega) hlt
      · exact h3 _ (by omega) (by have := hb.le; omega)
  | none =>
    simp only
    symm
    apply takeWhile_eq_self
    intro i
    rw [List.getElem?_drop]
    by_cases hlt : lineStart loc s + i < loc
    · exact hb.noNl _ (by omega) hlt
    · exact findNl_none s loc hf _ (by omega)

private theorem not_mem_takeWhile_ne (t : List Char) : '\n' ∉ t.takeWhile (· != '\n') := by
  induction t with
  | nil => simp
  | cons c cs ih =>
    by_cases hc : c = '\n'
    · simp [hc]
    · simp [hc, ih]; exact fun e => hc e.symm

theorem line_no_newline (s : List Char) (loc : Nat) : '\n' ∉ line loc s := by
  rw [line_is_the_line]
  exact not_mem_takeWhile_ne _

/-- `loc` lies on its line: the column is at most one past the line's text. -/
theorem col_le_line_length (s : List Char) (loc : Nat) (h : loc ≤ s.length) :
    col loc s ≤ (line loc s).length + 1 := by
  have hb := lineStart_isLineStart s loc
  rw [col_is_offset]
  suffices loc - lineStart loc s ≤ (line loc s).length by omega
  unfold line
  simp only
  cases hf : findNl s loc with
  | some j =>
    obtain ⟨h1, h2, _⟩ := findNl_some s loc j hf
    have hj : j < s.length := by
      rcases Nat.lt_or_ge j s.length with h' | h'
      · exact h'
      · rw [List.getElem?_eq_none h'] at h2; simp at h2
    simp; omega
  | none => simp; omega

/-- the line number equals one plus the number of newlines before the line start:
    lineno, col and line all speak about the same line. -/
theorem lineno_of_lineStart (s : List Char) (loc : Nat) :
    lineno loc s = (s.take (lineStart loc s)).count '\n' + 1 := by
  rw [lineno_counts_newlines]
  have hb := lineStart_isLineStart s loc
  have hsplit : s.take loc = s.take (lineStart loc s) ++ (s.drop (lineStart loc s)).take (loc - lineStart loc s) := by
    have hle := hb.le
    conv => lhs; rw [show loc = lineStart loc s + (loc - lineStart loc s) by omega]
    rw [List.take_add]
  rw [hsplit, List.count_append]
  suffices ((s.drop (lineStart loc s)).take (loc - lineStart loc s)).count '\n' = 0 by omega
  rw [List.count_eq_zero]
  intro hmem
  obtain ⟨i, hi, hget⟩ := List.getElem_of_mem hmem
  simp at hi
  rw [List.getElem_take, List.getElem_drop] at hget
  have := hb.noNl (lineStart loc s + i) (by omega) (by omega)
  rw [List.getElem?_eq_getElem (by omega)] at this
  simp [hget] at this

/-- **C14 (util part), packaged**: for every string and every `loc ≤ len`, the three
    functions describe one and the same line. -/
theorem C14_linecol_consistent (s : List Char) (loc : Nat) (h : loc ≤ s.length) :
    ∃ b, IsLineStart s loc b ∧
      lineno loc s = (s.take b).count '\n' + 1 ∧
      col loc s = loc - b + 1 ∧
      line loc s = (s.drop b).takeWhile (· != '\n') ∧
      '\n' ∉ line loc s ∧
      1 ≤ col loc s ∧ col loc s ≤ (line loc s).length + 1 :=
  ⟨lineStart loc s, lineStart_isLineStart s loc, lineno_of_lineStart s loc, col_is_offset s loc,
    line_is_the_line s loc, line_no_newline s loc, col_pos s loc, col_le_line_length s loc h⟩

/-- non-vacuity: a concrete instance with two newlines, loc on the last line -/
example : lineno 5 "ab\nc\nde".toList = 3 ∧ col 5 "ab\nc\nde".toList = 1 ∧
    line 5 "ab\nc\nde".toList = "de".toList := by decide

/-! ## expandtabs -/

theorem expandTabsGo_no_tab (s : List Char) (c : Nat) : '\t' ∉ expandTabsGo s c := by
  induction s generalizing c with
  | nil => simp [expandTabsGo]
  | cons x xs ih =>
    simp only [expandTabsGo]
    split
    · simp [List.mem_append, ih]
    · split
      · rename_i h1 _; simp at h1; simp [ih]; exact fun h => h1 h.symm
      · rename_i h1 _; simp at h1; simp [ih]; exact fun h => h1 h.symm

/-- the string that is actually parsed (unless `parse_with_tabs`) contains no tab -/
theorem expandTabs_no_tab (s : List Char) : '\t' ∉ expandTabs s := expandTabsGo_no_tab s 0

theorem expandTabsGo_id_of_no_tab (s : List Char) (c : Nat) (h : '\t' ∉ s) :
    expandTabsGo s c = s := by
  induction s generalizing c with
  | nil => rfl
  | cons x xs ih =>
    simp at h
    have hx : (x == '\t') = false := by simp; exact fun e => h.1 e.symm
    simp only [expandTabsGo, hx]
    simp [ih _ h.2]

/-- expanding is idempotent: parse locations refer to one well-defined string -/
theorem expandTabs_idem (s : List Char) : expandTabs (expandTabs s) = expandTabs s :=
  expandTabsGo_id_of_no_tab _ 0 (expandTabs_no_tab s)

end PP.LineCol
