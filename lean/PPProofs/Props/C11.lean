import PPProofs.Props.C10
/-!
# C11 — copies, pickles and concatenations preserve both views (value level)

Model: `copyV`, `getstate`/`setstate`/`newFromArgs` (`pickleRT`), `addV`, `sumV` in `PPModel/Mod/PR.lean`.
"Both views" = `abs` (token list, key order, all values of every name, list-all flags) — `as_list`, `as_dict`,
`dump`, `keys`, `len` are functions of it and of the (unchanged, opaque) values.
The aliasing clauses of C11 (a mutation of the copy never reaches the original) are not value-level
statements; see `PPProofs/Props/C11Heap.lean` (heap model).
-/
namespace PP.PR
open PP.PyList PP.PyDict

variable {α : Type}

theorem abs_copyV (s : PR α) : abs (copyV s) = abs s := by
  refine Abs.ext' rfl rfl (fun _ => rfl) ?_
  intro k; simp [abs, copyV]

theorem prinv_copyV {s : PR α} (h : PRInv s) : PRInv (copyV s) := ⟨h.nodup, h.nonempty⟩

/-- **`copy()` preserves both views and the results name.** -/
theorem copy_preserves (s : PR α) : abs (copyV s) = abs s ∧ (copyV s).name = s.name := ⟨abs_copyV s, rfl⟩

/-- **`copy.copy` / pickle round trip (the `__getnewargs__` + `__getstate__` + `__setstate__` protocol as the class
    defines it) gives back the same state**: tokens, name table with positions, list-all names and `_name`. -/
theorem pickle_roundtrip (s : PR α) :
    (pickleRT s).toks = s.toks ∧ (pickleRT s).dict = s.dict ∧ (pickleRT s).all = s.all ∧
    (pickleRT s).name = s.name ∧ abs (pickleRT s) = abs s := ⟨rfl, rfl, rfl, rfl, rfl⟩

theorem mem_copyV_all (s : PR α) (n : String) : n ∈ (copyV s).all ↔ n ∈ s.all := by simp [copyV]

/-- every C10 operation answers the copy exactly as it answers the original, and leaves it in the same
    abstract state (so `as_list`, `as_dict`, `dump`, `keys`, `len`, … agree, and keep agreeing) -/
theorem copy_same_answers (s : PR α) (h : PRInv s) (op : Op α (PR α)) (hop : OpOk s op) :
    (step (copyV s) op).2 = (step s op).2 ∧ abs (step (copyV s) op).1 = abs (step s op).1 := by
  have hop' : OpOk (copyV s) op := by
    cases op <;> first
      | trivial
      | (simp only [OpOk, OtherOk] at hop ⊢
         exact ⟨hop.1, hop.2.imp id (fun hh n hn => (mem_copyV_all s n).mpr (hh n hn))⟩)
  obtain ⟨a1, a2⟩ := refines_step s op h hop
  obtain ⟨b1, b2⟩ := refines_step (copyV s) op (prinv_copyV h) hop'
  rw [abs_copyV] at b1 b2
  exact ⟨b2.trans a2.symm, b1.trans a1.symm⟩

/-! ### concatenation -/

theorem otherOk_copyV {a b : PR α} (h : OtherOk a b) : OtherOk (copyV a) b :=
  ⟨h.1, h.2.imp id (fun hh n hn => (mem_copyV_all a n).mpr (hh n hn))⟩

/-- **`a + b` appends the token lists in order and merges the names** (values of a name: `a`'s then `b`'s; new names
    after the old ones; list-all flags united) — for well-formed `b` that is truthy or brings no new list-all name. -/
theorem concat_is_merge (a b : PR α) (hb : OtherOk a b) : abs (addV a b) = (abs a).merge (abs b) := by
  unfold addV
  rw [abs_iadd (copyV a) b (otherOk_copyV hb), abs_copyV]

theorem prinv_addV {a b : PR α} (ha : PRInv a) : PRInv (addV a b) := prinv_iadd (prinv_copyV ha)

theorem Abs.merge_assoc (a b c : Abs α) : (a.merge b).merge c = a.merge (b.merge c) := by
  apply Abs.ext'
  · simp [Abs.merge, List.append_assoc]
  · simp only [Abs.merge, List.filter_append, List.append_assoc, List.filter_filter]
    congr 2
    apply List.filter_congr
    intro x _
    simp only [List.mem_append, List.mem_filter, decide_eq_true_eq, not_or, not_and, Decidable.not_not,
      Bool.and_eq_true, decide_not, Bool.not_eq_eq_eq_not, Bool.not_true, decide_eq_false_iff_not]
    by_cases h1 : x ∈ a.order <;> by_cases h2 : x ∈ b.order <;> simp [h1, h2]
  · intro k; simp [Abs.merge, List.append_assoc]
  · intro k; simp [Abs.merge, Bool.or_assoc]

/-- **Concatenation is associative on both views**, whenever each `+` involved is a merge (`OtherOk`). -/
theorem concat_assoc (a b c : PR α) (hab : OtherOk a b) (hbc : OtherOk b c)
    (h1 : OtherOk (addV a b) c) (h2 : OtherOk a (addV b c)) :
    abs (addV (addV a b) c) = abs (addV a (addV b c)) := by
  rw [concat_is_merge _ _ h1, concat_is_merge _ _ hab, concat_is_merge _ _ h2, concat_is_merge _ _ hbc,
    Abs.merge_assoc]

theorem truthy_iadd_of_truthy (s o : PR α) (h : o.truthy = true) (ho : PRInv o) : (iadd s o).truthy = true := by
  rw [iadd_eq, h]
  simp only [if_true, PR.truthy, Bool.or_eq_true, Bool.not_eq_true', List.isEmpty_eq_false_iff] at h ⊢
  rcases h with h | h
  · left; cases ht : o.toks with
    | nil => exact absurd ht h
    | cons x xs => simp
  · right
    -- some name of `o` ends up in the name table
    intro hc
    have hab := abs_iaddNames s o ho
    have : (abs (iaddNames s o)).order = [] := by simp [abs, dkeys, hc]
    rw [hab] at this
    simp only [List.append_eq_nil_iff] at this
    cases hd : o.dict with
    | nil => exact h hd
    | cons e d =>
      have hs : (abs s).order = [] := this.1
      have h2 := this.2
      rw [hs] at h2
      simp [abs, dkeys, hd] at h2

/-- the usual case: every operand is a non-empty result (no hypothesis on list-all names needed) -/
theorem concat_assoc_of_truthy (a b c : PR α) (hb : PRInv b) (hc : PRInv c)
    (tb : b.truthy = true) (tc : c.truthy = true) :
    abs (addV (addV a b) c) = abs (addV a (addV b c)) :=
  concat_assoc a b c ⟨hb, Or.inl tb⟩ ⟨hc, Or.inl tc⟩ ⟨hc, Or.inl tc⟩
    ⟨prinv_addV hb, Or.inl (truthy_iadd_of_truthy _ _ tc hc)⟩

/-- **The empty result is a right identity**, always … -/
theorem concat_empty_right (a : PR α) : abs (addV a emptyPR) = abs a := by
  have h : OtherOk a (emptyPR : PR α) := ⟨⟨by simp [emptyPR, dkeys], by simp [emptyPR]⟩, Or.inr (by simp [emptyPR])⟩
  rw [concat_is_merge a emptyPR h]
  apply Abs.ext' <;> simp [Abs.merge, abs, emptyPR, dkeys, dget]

/-- … **and a left identity** for every `a` that is truthy or carries no list-all name
    (the same side condition as everywhere: `iadd_refines_iff`). -/
theorem concat_empty_left (a : PR α) (ha : PRInv a) (h : a.truthy = true ∨ a.all = []) :
    abs (addV emptyPR a) = abs a := by
  have hok : OtherOk (emptyPR : PR α) a := ⟨ha, h.imp id (fun e n hn => by rw [e] at hn; simp at hn)⟩
  rw [concat_is_merge emptyPR a hok]
  apply Abs.ext' <;> simp [Abs.merge, abs, emptyPR, dkeys, dget]

/-- `sum([x, y, …])` is the left fold of `+` from a copy of `x`, hence of `merge` -/
theorem sum_is_fold (x : PR α) (rest : List (PR α)) (h : ∀ y ∈ rest, PRInv y ∧ y.truthy = true) :
    ∃ r, sumV (x :: rest) = some r ∧ abs r = rest.foldl (fun acc y => acc.merge (abs y)) (abs x) := by
  refine ⟨_, rfl, ?_⟩
  have gen : ∀ (s : PR α), abs (rest.foldl addV s) = rest.foldl (fun acc y => acc.merge (abs y)) (abs s) := by
    induction rest with
    | nil => intro s; rfl
    | cons y ys ih =>
      intro s
      have hy := h y (by simp)
      simp only [List.foldl_cons]
      rw [ih (fun z hz => h z (List.mem_cons_of_mem _ hz)), concat_is_merge s y ⟨hy.1, Or.inl hy.2⟩]
  rw [gen, abs_copyV]

/-- **Where associativity fails** (same root as `iadd_falsy_shortcut_deviates`): `a` binds `x` once, `o` is an empty
    result carrying the list-all flag of `x`, `b` binds `x` again.  `(a + o) + b` answers `["x"]` with the last value,
    `a + (o + b)` with the list of both.  Replayed on the real class by harness/props/c11.py. -/
theorem concat_assoc_fails_witness :
    ∃ a o b : PR String, PRInv a ∧ PRInv o ∧ PRInv b ∧
      (step (addV (addV a o) b) (.getName "x")).2 = .view (.one "c") ∧
      (step (addV a (addV o b)) (.getName "x")).2 = .view (.many ["b", "c"]) :=
  ⟨{ toks := ["b"], dict := [("x", [("b", 0)])], all := [] }, { toks := [], dict := [], all := ["x"] },
   { toks := ["c"], dict := [("x", [("c", 0)])], all := [] },
   ⟨by decide, by decide⟩, ⟨by decide, by decide⟩, ⟨by decide, by decide⟩, by decide +kernel, by decide +kernel⟩

example : ∃ a b c : PR String, b.truthy = true ∧ c.truthy = true ∧
    (addV (addV a b) c).toks = ["1", "2", "3"] ∧ (step (addV a (addV b c)) (.getName "x")).2 = .view (.one "3") :=
  ⟨{ toks := ["1"], dict := [("x", [("1", 0)])], all := [] }, { toks := ["2"], dict := [("y", [("2", 0)])], all := [] },
   { toks := ["3"], dict := [("x", [("3", 0)])], all := [] }, by decide, by decide, by decide +kernel, by decide +kernel⟩

end PP.PR
