import PPProofs.Props.C10
/-!
# C11 — copies, pickles and concatenations preserve both views (value level)

Model: `copyV`, `getstate`/`setstate`/`newFromArgs` (`pickleRT`), `addV`, `sumV` in `PPModel/Mod/PR.lean`.
"Both views" = `abs` (token list, key order, all values of every name, list-all flags) — `as_list`, `as_dict`,
`dump`, `keys`, `len` are functions of it and of the (unchanged, opaque) values.
The aliasing clauses of C11 (a mutation of the copy never reaches the original) are not value-level
statements; see `PPProofs/Props/C11Heap.lean` (heap model).
-/
namespace PP.PR
open PP.PyList PP.PyDict

variable {α : Type}

theorem abs_copyV (s : PR α) : abs (copyV s) = abs s := by
  refine Abs.ext' rfl rfl (fun _ => rfl) ?_
  intro k; simp [abs, copyV]

theorem prinv_copyV {s : PR α} (h : PRInv s) : PRInv (copyV s) := ⟨h.nodup, h.nonempty⟩

/-- **`copy()` preserves both views and the results name.** -/
theorem copy_preserves (s : PR α) : abs (copyV s) = abs s ∧ (copyV s).name = s.name := ⟨abs_copyV s, rfl⟩

/-- **`copy.copy` / pickle round trip (the `__getnewargs__` + `__getstate__` + `__setstate__` protocol as the class
    defines it) gives back the same state**: tokens, name table with positions, list-all names and `_name`. -/
theorem pickle_roundtrip (s : PR α) :
    (pickleRT s).toks = s.toks ∧ (pickleRT s).dict = s.dict ∧ (pickleRT s).all = s.all ∧
    (pickleRT s).name = s.name ∧ abs (pickleRT s) = abs s := ⟨rfl, rfl, rfl, rfl, rfl⟩

theorem mem_copyV_all (s : PR α) (n : String) : n ∈ (copyV s).all ↔ n ∈ s.all := by simp [copyV]

/-- every C10 operation answers the copy exactly as it answers the original, and leaves it in the same
    abstract state (so `as_list`, `as_dict`, `dump`, `keys`, `len`, … agree, and keep agreeing) -/
theorem copy_same_answers (s : PR α) (h : PRInv s) (op : Op α (PR α)) (hop : OpOk op) :
    (step (copyV s) op).2 = (step s op).2 ∧ abs (step (copyV s) op).1 = abs (step s op).1 := by
  obtain ⟨a1, a2⟩ := refines_step s op h hop
  obtain ⟨b1, b2⟩ := refines_step (copyV s) op (prinv_copyV h) hop
  rw [abs_copyV] at b1 b2
  exact ⟨b2.trans a2.symm, b1.trans a1.symm⟩

/-! ### concatenation -/

/-- **`a + b` appends the token lists in order and merges the names** (values of a name: `a`'s then `b`'s; new names
    after the old ones; list-all flags united) — for every well-formed `b`, empty or not. -/
theorem concat_is_merge (a b : PR α) (hb : PRInv b) : abs (addV a b) = (abs a).merge (abs b) := by
  unfold addV
  rw [abs_iadd (copyV a) b hb, abs_copyV]

theorem prinv_addV {a b : PR α} (ha : PRInv a) : PRInv (addV a b) := prinv_iadd (prinv_copyV ha)

theorem Abs.merge_assoc (a b c : Abs α) : (a.merge b).merge c = a.merge (b.merge c) := by
  apply Abs.ext'
  · simp [Abs.merge, List.append_assoc]
  · simp only [Abs.merge, List.filter_append, List.append_assoc, List.filter_filter]
    congr 2
    apply List.filter_congr
    intro x _
    simp only [List.mem_append, List.mem_filter, decide_eq_true_eq, not_or, not_and, Decidable.not_not,
      Bool.and_eq_true, decide_not, Bool.not_eq_eq_eq_not, Bool.not_true, decide_eq_false_iff_not]
    by_cases h1 : x ∈ a.order <;> by_cases h2 : x ∈ b.order <;> simp [h1, h2]
  · intro k; simp [Abs.merge, List.append_assoc]
  · intro k; simp [Abs.merge, Bool.or_assoc]

/-- **Concatenation is associative on both views**, for all well-formed operands (no side condition). -/
theorem concat_assoc (a b c : PR α) (hb : PRInv b) (hc : PRInv c) :
    abs (addV (addV a b) c) = abs (addV a (addV b c)) := by
  rw [concat_is_merge _ _ hc, concat_is_merge _ _ hb, concat_is_merge _ _ (prinv_addV hb),
    concat_is_merge _ _ hc, Abs.merge_assoc]

/-- **The empty result is a right identity** … -/
theorem concat_empty_right (a : PR α) : abs (addV a emptyPR) = abs a := by
  have h : PRInv (emptyPR : PR α) := ⟨by simp [emptyPR, dkeys], by simp [emptyPR]⟩
  rw [concat_is_merge a emptyPR h]
  apply Abs.ext' <;> simp [Abs.merge, abs, emptyPR, dkeys, dget]

/-- … **and a left identity**, for every well-formed `a`. -/
theorem concat_empty_left (a : PR α) (ha : PRInv a) : abs (addV emptyPR a) = abs a := by
  rw [concat_is_merge emptyPR a ha]
  apply Abs.ext' <;> simp [Abs.merge, abs, emptyPR, dkeys, dget]

/-- `sum([x, y, …])` is the left fold of `+` from a copy of `x`, hence of `merge` -/
theorem sum_is_fold (x : PR α) (rest : List (PR α)) (h : ∀ y ∈ rest, PRInv y) :
    ∃ r, sumV (x :: rest) = some r ∧ abs r = rest.foldl (fun acc y => acc.merge (abs y)) (abs x) := by
  refine ⟨_, rfl, ?_⟩
  have gen : ∀ (s : PR α), abs (rest.foldl addV s) = rest.foldl (fun acc y => acc.merge (abs y)) (abs s) := by
    induction rest with
    | nil => intro s; rfl
    | cons y ys ih =>
      intro s
      have hy := h y (by simp)
      simp only [List.foldl_cons]
      rw [ih (fun z hz => h z (List.mem_cons_of_mem _ hz)), concat_is_merge s y hy]
  rw [gen, abs_copyV]

/-- regression witness of the fixed finding `concat_assoc_falsy_listall`: `a` binds `x` once, `o` is an empty
    result carrying the list-all flag of `x`, `b` binds `x` again; both groupings now answer `["x"]` with both values. -/
theorem concat_assoc_former_witness :
    ∃ a o b : PR String, PRInv a ∧ PRInv o ∧ PRInv b ∧ o.truthy = false ∧
      (step (addV (addV a o) b) (.getName "x")).2 = .view (.many ["b", "c"]) ∧
      (step (addV a (addV o b)) (.getName "x")).2 = .view (.many ["b", "c"]) :=
  ⟨{ toks := ["b"], dict := [("x", [("b", 0)])], all := [] }, { toks := [], dict := [], all := ["x"] },
   { toks := ["c"], dict := [("x", [("c", 0)])], all := [] },
   ⟨by decide, by decide⟩, ⟨by decide, by decide⟩, ⟨by decide, by decide⟩, by decide, by decide +kernel,
   by decide +kernel⟩

example : ∃ a b c : PR String, b.truthy = true ∧ c.truthy = true ∧
    (addV (addV a b) c).toks = ["1", "2", "3"] ∧ (step (addV a (addV b c)) (.getName "x")).2 = .view (.one "3") :=
  ⟨{ toks := ["1"], dict := [("x", [("1", 0)])], all := [] }, { toks := ["2"], dict := [("y", [("2", 0)])], all := [] },
   { toks := ["3"], dict := [("x", [("3", 0)])], all := [] }, by decide, by decide, by decide +kernel, by decide +kernel⟩

/-- **One round of the loop of `from_dict`** on the full model: `ret += cls([tok-ish], name=k, …)` with a name `k`
    that `ret` does not have yet appends the one token, puts `k` after the existing names with exactly the one value,
    and changes nothing else.  (This is what the tree model `PPModel/Mod/PRFromDict.lean` takes for granted.) -/
theorem from_dict_item_step (s : PR α) (k : String) (tok val : α) (hk : k ∉ dkeys s.dict) :
    abs (iadd s { toks := [tok], dict := [(k, [(val, 0)])], all := [] }) =
      { toks := s.toks ++ [tok], order := (abs s).order ++ [k],
        vals := fun k' => if k' = k then [val] else (abs s).vals k', la := (abs s).la } := by
  have ho : PRInv ({ toks := [tok], dict := [(k, [(val, 0)])], all := [] } : PR α) :=
    ⟨by simp [dkeys], by simp⟩
  rw [abs_iadd s _ ho]
  have hnone : dget s.dict k = none := (dget_none_iff _ _).mpr hk
  apply Abs.ext'
  · rfl
  · show dkeys s.dict ++ List.filter (fun x => decide (x ∉ dkeys s.dict)) [k] = dkeys s.dict ++ [k]
    simp [List.filter_cons, hk]
  · intro k'
    by_cases h : k' = k
    · subst h; simp [Abs.merge, abs, dget, hnone]
    · have h' : ¬ k = k' := fun e => h e.symm
      simp [Abs.merge, abs, dget, h, h']
  · intro k'; simp [Abs.merge, abs]

end PP.PR
