import PPProofs.Lemmas.FatalPath
/-!
# C07 at any depth — one theorem over the nesting context

`Props/C07.lean` proves, container by container, that a fatal exception of a sub-expression leaves the container.
Here the containers are composed **once and for all**: `Path g s ts a b` says that the `_parse` call `b` is made by
the evaluation of the `_parse` call `a` (of the transcribed parser `parse g s fuel`) through a chain of
*propagating positions* (`ImplStep`, `Lemmas/FatalPath.lean`: And first / later element, MatchFirst alternative after
soft failures, Opt, first / later iteration of OneOrMore / ZeroOrMore, Group / Suppress / Combine / Forward / plain
ParseElementEnhance, FollowedBy, Located; and the positions the property text does not name but the code propagates
from as well: the SkipTo target (scan and `include` re-parse), the ignore-expressions run by `preParse`, by the
repetition loop and by the pre-parse inside Or / StringStart, the real re-parses Or does after its trial pass), nested
to any depth; `ts` lists, outermost first, what each container
does to an exception on its way out (`Tag`).

Not propagating positions (and deliberately not constructors): NotAny, `stop_on`, SkipTo `fail_on` / `ignore`
(they go through `try_parse`, which converts a fatal into a non-match: `tryParse_converts_fatal`,
`notany_treats_fatal_as_nonmatch`), the trial pass of Or (collects the fatals of its alternatives and raises one only
if nothing matched: `or_fatal_only_if_none_matched`, `or_raises_fatal_when_none_matched`), Each (outside the model).
With these, every call `parseImpl`/`preParse` of the model makes is either a constructor here or one of the
converting / collecting positions just listed.  (LineStart's own `preParse` runs no sub-expression: `Step.ignore`
excludes it.)
-/
namespace PP.Parse

/-- a `_parse` call of the transcribed parser: `parse g s fuel id loc doActions callPreParse` -/
structure Call where
  fuel : Nat
  id : Nat
  loc : Nat
  acts : Bool
  cp : Bool

def Call.run (g : Grammar) (s : List Char) (c : Call) : Out := parse g s c.fuel c.id c.loc c.acts c.cp

/-- the call `a` (`_parseNoCache` of node `id`) pre-parses to `pre`, and its `parseImpl` makes the call `b` in a
    propagating position -/
inductive Step (g : Grammar) (s : List Char) : Tag → Call → Call → Prop
  | mk {f id loc acts cp nd pre t e l' acts' cp'} : g[id]? = some nd →
      (if cp && nd.callPre then preParse (parse g s f) nd s loc else PreR.at loc) = .at pre →
      ImplStep g s (parse g s f) nd pre acts t e l' acts' cp' →
      Step g s t ⟨f + 1, id, loc, acts, cp⟩ ⟨f, e, l', acts', cp'⟩
  /-- the pre-parse of `a` (`preParse` → `_skipIgnorables`) calls the ignore-expression `e` at `l'` -/
  | ignore {f id loc acts cp nd e l'} : g[id]? = some nd → (cp && nd.callPre) = true →
      (∀ x y, nd.kind ≠ .lineStart x y) → nd.ignore.isEmpty = false →
      IgnCall (parse g s f) s.length nd.ignore loc e l' →
      Step g s .plain ⟨f + 1, id, loc, acts, cp⟩ ⟨f, e, l', true, true⟩

/-- reflexive-transitive closure: `b` is reached from `a` through propagating positions only; tags outermost first -/
inductive Path (g : Grammar) (s : List Char) : List Tag → Call → Call → Prop
  | refl (a) : Path g s [] a a
  | cons {t ts a b c} : Step g s t a b → Path g s ts b c → Path g s (t :: ts) a c

/-- one level: a failure of the callee that is fatal — or any failure when the position is behind an error stop —
    leaves the caller as `t.app` of it -/
theorem step_fail {g : Grammar} {s : List Char} {t : Tag} {a b : Call} (h : Step g s t a b) (c : Exc) (l : Nat)
    (hb : b.run g s = .fail c l) (hc : c.isFatal = true ∨ t = .afterStop) :
    a.run g s = .fail (t.app (c, l)).1 (t.app (c, l)).2 := by
  cases h with
  | mk hg hpre hi =>
    exact parseStep_failure_passes g s _ _ _ _ _ _ _ _ _ hg hpre (implStep_fail hi c l hb hc)
  | ignore hg hcp hk hne hi =>
    have hfat : c.isFatal = true := hc.resolve_right (by simp)
    have := preParse_fatal hk hne hi c l hb hfat
    show parseStep g s _ _ _ _ _ = _
    unfold parseStep
    simp only [hg, hcp, if_true, this, Tag.app]

/-- **C07, any depth (exact form).**  If the call `b` is reached from the call `a` through propagating positions
    nested to any depth and `b` raises a fatal exception (ParseFatalException or ParseSyntaxException) of class `c`
    at `l`, then `a` raises the exception obtained by sending `(c, l)` through the containers of the path,
    innermost first — for all grammars, inputs, locations, flags and fuels. -/
theorem fatal_propagates_exact {g : Grammar} {s : List Char} {ts : List Tag} {a b : Call}
    (h : Path g s ts a b) (c : Exc) (l : Nat) (hb : b.run g s = .fail c l) (hc : c.isFatal = true) :
    a.run g s = .fail (ts.foldr Tag.app (c, l)).1 (ts.foldr Tag.app (c, l)).2 := by
  induction h with
  | refl => exact hb
  | cons hs _ ih =>
    exact step_fail hs _ _ (ih hb) (.inl (Tag.foldr_fatal _ c l hc))

/-- **C07, any depth.**  Under the hypotheses of `fatal_propagates_exact` the outer call fails with a **fatal**
    exception `c'` at `l'`, where
    * `c' = c`, or `c' = ParseSyntaxException` and the path passes an And element behind an `_ErrorStop`
      (the only class change the code makes: And re-raises everything behind `-` as ParseSyntaxException);
    * `l' = l` whenever `c` is a ParseSyntaxException or `l ≠ 0` (the only location change the code makes:
      `pbe.loc = pbe.loc or loc` in ParseElementEnhance.parseImpl replaces the location 0 of a non-syntax exception);
    in particular the outer call does not succeed, and does not fail softly. -/
theorem fatal_propagates_any_depth {g : Grammar} {s : List Char} {ts : List Tag} {a b : Call}
    (h : Path g s ts a b) (c : Exc) (l : Nat) (hb : b.run g s = .fail c l) (hc : c.isFatal = true) :
    ∃ c' l', a.run g s = .fail c' l' ∧ c'.isFatal = true ∧
      (c' = c ∨ (c' = .syntax ∧ Tag.afterStop ∈ ts)) ∧ (c = .syntax ∨ l ≠ 0 → l' = l) :=
  ⟨_, _, fatal_propagates_exact h c l hb hc, Tag.foldr_fatal ts c l hc, Tag.foldr_class ts c l,
    Tag.foldr_loc ts c l⟩

/-- when no And-after-error-stop is on the path, the class is preserved exactly -/
theorem fatal_class_preserved_without_stop {g : Grammar} {s : List Char} {ts : List Tag} {a b : Call}
    (h : Path g s ts a b) (c : Exc) (l : Nat) (hb : b.run g s = .fail c l) (hc : c.isFatal = true)
    (hns : Tag.afterStop ∉ ts) : ∃ l', a.run g s = .fail c l' ∧ (c = .syntax ∨ l ≠ 0 → l' = l) := by
  obtain ⟨c', l', hr, _, hcl, hl⟩ := fatal_propagates_any_depth h c l hb hc
  rcases hcl with rfl | ⟨_, hm⟩
  · exact ⟨l', hr, hl⟩
  · exact absurd hm hns

/-- **error stop, any depth.**  `b` is an And reached from `a` through propagating positions at any depth; `d` is an
    element of `b` behind an `_ErrorStop`, reached after everything before it matched.  Then ANY failure of `d` at `l`
    — in particular a plain ParseException, `c = .parse` — surfaces from `a` as ParseSyntaxException at `l`:
    no container on the path backtracks over the `-`. -/
theorem errorstop_any_depth {g : Grammar} {s : List Char} {ts : List Tag} {a b d : Call}
    (h : Path g s ts a b) (hstop : Step g s .afterStop b d) (c : Exc) (l : Nat)
    (hd : d.run g s = .fail c l) : a.run g s = .fail .syntax l := by
  have hb : b.run g s = .fail .syntax l := by
    simpa [Tag.app] using step_fail hstop c l hd (.inr rfl)
  have := fatal_propagates_exact h .syntax l hb rfl
  rwa [Tag.foldr_syntax] at this

/-! ### non-vacuity

`ZeroOrMore(Group(("a" - "b") | "a"))`  (node 0 = ZeroOrMore(1), 1 = Group(2), 2 = MatchFirst[3, 4],
3 = And[4, 5, 6], 4 = "a", 5 = _ErrorStop, 6 = "b"), on the input `"abac"`: the first iteration matches `ab`,
the second iteration gets past the `-` and then finds `c` instead of `b` at 3.  Neither the MatchFirst (which has
the matching alternative `"a"` left), nor the ZeroOrMore (which could stop after one iteration) backtracks. -/

def exDepth : Grammar :=
  let l (c : Char) : Node := { kind := .lit1 c, skipWs := true, white := [' '], callPre := true, mayIdx := false,
                               ignore := [], acts := [], callDuringTry := false, nameLen := 3 }
  [ { l 'a' with kind := .many 1 none false }, { l 'a' with kind := .group 2 },
    { l 'a' with kind := .matchFirst [3, 4] }, { l 'a' with kind := .and [4, 5, 6] },
    l 'a', { l 'a' with kind := .errorStop }, l 'b' ]

def exIn : List Char := ['a', 'b', 'a', 'c']

/-- the path: ZeroOrMore, 2nd iteration → Group → MatchFirst, 1st alternative → the And (call at location 2) -/
theorem exDepth_path :
    Path exDepth exIn [.plain, .enh 2, .plain] ⟨10, 0, 0, true, true⟩ ⟨7, 3, 2, true, true⟩ := by
  refine .cons (.mk (nd := exDepth[0]) (pre := 0) rfl rfl
      (.manyLater (l0 := 2) (ts0 := [.g [.s ['a'], .s ['b']]]) (k := 5) (l' := 2)
        (acc := [.g [.s ['a'], .s ['b']]]) rfl trivial rfl (.refl _ _ _) rfl rfl)) ?_
  refine .cons (.mk (nd := exDepth[1]) (pre := 2) rfl rfl (.group rfl)) ?_
  refine .cons (.mk (nd := exDepth[2]) (pre := 2) rfl rfl (.matchFirst (pfx := []) (post := [4]) rfl ?_)) (.refl _)
  intro x hx; cases hx

/-- the element `"b"` behind the `-` (node 6, called at 3), after `"a"` matched and the stop was passed -/
theorem exDepth_stop : Step exDepth exIn .afterStop ⟨7, 3, 2, true, true⟩ ⟨6, 6, 3, true, true⟩ :=
  .mk (nd := exDepth[3]) (pre := 2) rfl rfl
    (.andLater (pfx := [5]) (post := []) (l0 := 3) (ts0 := [.s ['a']]) (stop := true) (acc := [.s ['a']])
      rfl rfl rfl rfl)

/-- it fails softly … -/
example : (⟨6, 6, 3, true, true⟩ : Call).run exDepth exIn = .fail .parse 3 := by rfl

/-- … and `errorstop_any_depth` gives the top-level outcome, which is what the parser computes -/
example : parse exDepth exIn 10 0 0 true true = .fail .syntax 3 :=
  errorstop_any_depth exDepth_path exDepth_stop .parse 3 rfl

example : parse exDepth exIn 10 0 0 true true = .fail .syntax 3 := by rfl

/-- hypotheses of `fatal_propagates_any_depth` are satisfiable: the And call of the path raises a fatal
    (ParseSyntaxException at 3), and the theorem's conclusion pins the top-level result -/
example : ∃ c' l', parse exDepth exIn 10 0 0 true true = .fail c' l' ∧ c'.isFatal = true ∧
    (c' = .syntax ∨ (c' = .syntax ∧ Tag.afterStop ∈ [Tag.plain, .enh 2, .plain])) ∧
    (Exc.syntax = .syntax ∨ 3 ≠ 0 → l' = 3) :=
  fatal_propagates_any_depth exDepth_path .syntax 3 (by rfl) rfl

/-- a fatal parse action (class `.fatal`, no error stop on the path): `Opt(Group("a" + X))` with X raising
    ParseFatalException from a condition — class and location come out unchanged -/
def exFatal : Grammar :=
  let l (c : Char) : Node := { kind := .lit1 c, skipWs := true, white := [' '], callPre := true, mayIdx := false,
                               ignore := [], acts := [], callDuringTry := false, nameLen := 3 }
  [ { l 'a' with kind := .opt 1 none }, { l 'a' with kind := .group 2 }, { l 'a' with kind := .and [3, 4] },
    l 'a', { l 'b' with acts := [.condFalse true] } ]

theorem exFatal_path :
    Path exFatal ['a', 'b'] [.plain, .enh 0, .plain] ⟨5, 0, 0, true, true⟩ ⟨2, 4, 1, true, true⟩ := by
  refine .cons (.mk (nd := exFatal[0]) (pre := 0) rfl rfl (.opt rfl)) ?_
  refine .cons (.mk (nd := exFatal[1]) (pre := 0) rfl rfl (.group rfl)) ?_
  exact .cons (.mk (nd := exFatal[2]) (pre := 0) rfl rfl
    (.andLater (pfx := []) (post := []) (l0 := 1) (ts0 := [.s ['a']]) (stop := false) (acc := [.s ['a']])
      rfl rfl rfl rfl)) (.refl _)

example : parse exFatal ['a', 'b'] 5 0 0 true true = .fail .fatal 1 :=
  fatal_propagates_exact exFatal_path .fatal 1 (by rfl) rfl

/-- SkipTo target: `SkipTo("a" - "b")` on `"xac"` — the scan passes `x` (soft failure of the target), then the
    target gets past its `-` at 1 and fails at 2: the SkipTo does not go on scanning, it raises -/
def exSkip : Grammar :=
  let l (c : Char) : Node := { kind := .lit1 c, skipWs := true, white := [' '], callPre := true, mayIdx := false,
                               ignore := [], acts := [], callDuringTry := false, nameLen := 3 }
  [ { l 'a' with kind := .skipTo 1 false none none }, { l 'a' with kind := .and [2, 3, 4] },
    l 'a', { l 'a' with kind := .errorStop }, l 'b' ]

theorem exSkip_path :
    Path exSkip ['x', 'a', 'c'] [.plain] ⟨5, 0, 0, true, true⟩ ⟨4, 1, 1, false, false⟩ :=
  .cons (.mk (nd := exSkip[0]) (pre := 0) rfl rfl
    (.skipScan (k := 3) (tmploc := 1) (t := 1) rfl
      (.iter (tmploc := 0) (t := 0) (by decide) rfl rfl rfl (.refl _ _)) (by decide) rfl rfl)) (.refl _)

example : parse exSkip ['x', 'a', 'c'] 5 0 0 true true = .fail .syntax 2 :=
  errorstop_any_depth exSkip_path
    (.mk (nd := exSkip[1]) (pre := 1) rfl rfl
      (.andLater (pfx := [3]) (post := []) (l0 := 2) (ts0 := [.s ['a']]) (stop := true) (acc := [.s ['a']])
        rfl rfl rfl rfl) : Step exSkip ['x', 'a', 'c'] .afterStop ⟨4, 1, 1, false, false⟩ ⟨3, 4, 2, false, true⟩)
    .parse 2 rfl

/-- ignore-expression: `Literal("a").ignore("#" - "!")` on `"#?a"` — the pre-parse of the literal runs the
    ignore-expression, which gets past its `-` and fails: the element does not treat that as "nothing to ignore" -/
def exIgn : Grammar :=
  let l (c : Char) : Node := { kind := .lit1 c, skipWs := true, white := [' '], callPre := true, mayIdx := false,
                               ignore := [], acts := [], callDuringTry := false, nameLen := 3 }
  [ { l 'a' with ignore := [1] }, { l 'a' with kind := .and [2, 3, 4] },
    l '#', { l 'a' with kind := .errorStop }, l '!' ]

theorem exIgn_path :
    Path exIgn ['#', '?', 'a'] [.plain] ⟨5, 0, 0, true, true⟩ ⟨4, 1, 0, true, true⟩ :=
  .cons (.ignore (nd := exIgn[0]) rfl rfl (by intro x y h; cases h) rfl
    (.mk (k := 4) (loc1 := 0) (pfx := []) (post := []) (l1 := 0) (f1 := false) (j := 4)
      (.refl _ _) rfl rfl (.refl _ _))) (.refl _)

example : parse exIgn ['#', '?', 'a'] 5 0 0 true true = .fail .syntax 1 :=
  errorstop_any_depth exIgn_path
    (.mk (nd := exIgn[1]) (pre := 0) rfl rfl
      (.andLater (pfx := [3]) (post := []) (l0 := 1) (ts0 := [.s ['#']]) (stop := true) (acc := [.s ['#']])
        rfl rfl rfl rfl) : Step exIgn ['#', '?', 'a'] .afterStop ⟨4, 1, 0, true, true⟩ ⟨3, 4, 1, true, true⟩)
    .parse 1 rfl

/-- Or, real re-parse of the best trial match: `"a".add_condition(False, fatal=True) ^ "b"` on `"a"` — the trial pass
    (no actions) matches `"a"`, the re-parse with actions raises the fatal, and Or does not fall back -/
def exOr : Grammar :=
  let l (c : Char) : Node := { kind := .lit1 c, skipWs := true, white := [' '], callPre := true, mayIdx := false,
                               ignore := [], acts := [], callDuringTry := false, nameLen := 3 }
  [ { l 'a' with kind := .or [1, 2] }, { l 'a' with acts := [.condFalse true] }, l 'b' ]

theorem exOr_path : Path exOr ['a'] [.plain] ⟨3, 0, 0, true, true⟩ ⟨2, 1, 0, true, true⟩ :=
  .cons (.mk (nd := exOr[0]) (pre := 0) rfl rfl
    (.orBest (loc2 := 0) (a := { cands := [(1, 1)], fatals := [], mx := some 0 }) (l1 := 1) (rest := [])
      rfl rfl rfl rfl)) (.refl _)

example : parse exOr ['a'] 3 0 0 true true = .fail .fatal 0 :=
  fatal_propagates_exact exOr_path .fatal 0 (by rfl) rfl

/-- Or, re-parse of a shorter trial match: `"ab".add_parse_action(raise ParseException) ^ "a".add_condition(False,
    fatal=True)` on `"ab"` — both match in the trial pass; with actions the longer one fails softly, the shorter one
    raises the fatal, which leaves the Or -/
def exOr2 : Grammar :=
  let l (c : Char) : Node := { kind := .lit1 c, skipWs := true, white := [' '], callPre := true, mayIdx := false,
                               ignore := [], acts := [], callDuringTry := false, nameLen := 3 }
  [ { l 'a' with kind := .or [1, 2] }, { l 'a' with kind := .lit ['a', 'b'], acts := [.failP] },
    { l 'a' with acts := [.condFalse true] } ]

theorem exOr2_path : Path exOr2 ['a', 'b'] [.plain] ⟨3, 0, 0, true, true⟩ ⟨2, 2, 0, true, true⟩ :=
  .cons (.mk (nd := exOr2[0]) (pre := 0) rfl rfl
    (.orLater (loc2 := 0) (a := { cands := [(2, 1), (1, 2)], fatals := [], mx := none }) (loc1 := 1) (rest := [])
      (lg := none) (mx := some 0) rfl rfl rfl rfl (.soft (l := 0) rfl rfl (.refl _ _ _)) rfl)) (.refl _)

example : parse exOr2 ['a', 'b'] 3 0 0 true true = .fail .fatal 0 :=
  fatal_propagates_exact exOr2_path .fatal 0 (by rfl) rfl

end PP.Parse
