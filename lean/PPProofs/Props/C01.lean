import PPProofs.Lemmas.ParseMono
import PPProofs.Lemmas.ParseFwd
/-!
# C01 — combinators obey PEG semantics with pyparsing's whitespace rule

The PEG reading, clause by clause, as theorems about the transcribed `parseImpl` bodies
(`PPModel/Mod/Parse.lean`), each for **all** behaviours `p` of the sub-expressions, all inputs and locations.
Together they are the big-step rules of the reading; the tie to core.py is the correspondence run, and an
independent reference interpreter of the same reading (harness/peg_ref.py) is the oracle on the real code.
-/
namespace PP.Parse

/-! ### whitespace rule -/

/-- `skipWhite` stops at the first character that is not a whitespace character (or at the end) … -/
theorem skipWhite_stops (w s : List Char) (loc : Nat) :
    ∀ c, s[skipWhite w s loc]? = some c → mem c w = false := by
  intro c h
  unfold skipWhite at h
  have := List.getElem?_drop (xs := s) (i := loc) (j := ((s.drop loc).takeWhile (mem · w)).length)
  rw [← this] at h
  -- the element right after a takeWhile prefix fails the predicate
  generalize s.drop loc = t at h
  induction t with
  | nil => simp at h
  | cons x xs ih =>
    by_cases hx : mem x w = true
    · simp [List.takeWhile, hx] at h ⊢; exact ih h
    · simp [List.takeWhile, hx] at h; subst h; simpa using hx

theorem takeWhile_getElem? {α} (f : α → Bool) : ∀ (t : List α) (k : Nat), k < (t.takeWhile f).length →
    ∃ c, t[k]? = some c ∧ f c = true := by
  intro t
  induction t with
  | nil => intro k h; simp at h
  | cons x xs ih =>
    intro k h
    by_cases hx : f x = true
    · simp only [List.takeWhile, hx] at h
      cases k with
      | zero => exact ⟨x, by simp, hx⟩
      | succ k =>
        obtain ⟨c, hc, hf⟩ := ih k (by simpa using h)
        exact ⟨c, by simpa using hc, hf⟩
    · simp [List.takeWhile, hx] at h

/-- … and everything it passes over is whitespace -/
theorem skipWhite_skips_only_white (w s : List Char) (loc i : Nat) (h1 : loc ≤ i) (h2 : i < skipWhite w s loc) :
    ∃ c, s[i]? = some c ∧ mem c w = true := by
  unfold skipWhite at h2
  obtain ⟨c, hc, hf⟩ := takeWhile_getElem? (mem · w) (s.drop loc) (i - loc) (by omega)
  refine ⟨c, ?_, hf⟩
  rw [List.getElem?_drop] at hc
  rw [← hc]; congr 1; omega

/-- an element without ignorables that skips whitespace is pre-parsed to the first non-blank position -/
theorem preParse_is_skipWhite (p : P) (nd : Node) (s : List Char) (loc : Nat)
    (hk : ∀ w nl, nd.kind ≠ .lineStart w nl) (hi : nd.ignore = []) (hs : nd.skipWs = true) :
    preParse p nd s loc = .at (skipWhite nd.white s loc) := by
  unfold preParse
  split
  · rename_i w nl h; exact absurd h (hk w nl)
  · simp [hi, hs]

/-! ### sequence: every element, in order -/

/-- the elements of a sequence matched one after the other -/
inductive Chain (p : P) (acts : Bool) : List Nat → Nat → Nat → List Tok → Prop where
  | nil (loc : Nat) : Chain p acts [] loc loc []
  | cons {e es loc l e' ts ts'} : p e loc acts true = .ok l ts → Chain p acts es l e' ts' →
      Chain p acts (e :: es) loc e' (ts ++ ts')

/-- **a sequence needs every element in order**: the rest of an And succeeds exactly when its (non-marker)
    elements match one after the other, each starting where the previous one ended, and the tokens are the
    concatenation in that order -/
theorem and_rest_iff_chain (p : P) (isStop : Nat → Bool) (acts : Bool) (slen : Nat) :
    ∀ es stop loc acc e ts, andRest p isStop acts slen es stop loc acc = .ok e ts ↔
      ∃ ts', Chain p acts (es.filter (fun x => !isStop x)) loc e ts' ∧ ts = acc ++ ts' := by
  intro es
  induction es with
  | nil =>
    intro stop loc acc e ts
    simp only [andRest, List.filter_nil]
    constructor
    · intro h; simp at h; obtain ⟨rfl, rfl⟩ := h; exact ⟨[], Chain.nil _, by simp⟩
    · rintro ⟨ts', hc, rfl⟩; cases hc; simp
  | cons x xs ih =>
    intro stop loc acc e ts
    unfold andRest
    cases hx : isStop x with
    | true =>
      simp only [if_true, List.filter_cons, hx, Bool.not_true, Bool.false_eq_true, if_false]
      exact ih _ _ _ _ _
    | false =>
      simp only [Bool.false_eq_true, if_false, List.filter_cons, hx, Bool.not_false, if_true]
      cases hp : p x loc acts true with
      | ok l t1 =>
        simp only
        rw [ih]
        constructor
        · rintro ⟨ts', hc, rfl⟩; exact ⟨t1 ++ ts', Chain.cons hp hc, by simp⟩
        · rintro ⟨ts', hc, rfl⟩
          cases hc with
          | cons h1 h2 =>
            rw [hp] at h1; simp at h1; obtain ⟨rfl, rfl⟩ := h1
            exact ⟨_, h2, by simp⟩
      | fail c l =>
        simp only
        constructor
        · intro h; split at h <;> simp at h
        · rintro ⟨ts', hc, _⟩; cases hc with
          | cons h1 _ => rw [hp] at h1; simp at h1
      | idx =>
        simp only
        constructor
        · intro h; split at h <;> simp at h
        · rintro ⟨ts', hc, _⟩; cases hc with
          | cons h1 _ => rw [hp] at h1; simp at h1
      | hang =>
        simp only
        constructor
        · intro h; simp at h
        · rintro ⟨ts', hc, _⟩; cases hc with
          | cons h1 _ => rw [hp] at h1; simp at h1

/-! ### `|` takes the first alternative that matches -/

/-- MatchFirst succeeds exactly when some alternative succeeds and every earlier one failed softly; the
    result is that alternative's -/
theorem matchfirst_first (p : P) (acts : Bool) (slen loc : Nat) :
    ∀ es mx e ts, mfGo p acts slen loc es mx = .ok e ts ↔
      ∃ pre x post, es = pre ++ x :: post ∧ (∀ y ∈ pre, (p y loc acts true = .idx ∨ ∃ l, p y loc acts true = .fail .parse l)) ∧
        p x loc acts true = .ok e ts := by
  intro es
  induction es with
  | nil => intro mx e ts; cases mx <;> simp [mfGo]
  | cons a as ih =>
    intro mx e ts
    unfold mfGo
    cases hp : p a loc acts true with
    | ok l t1 =>
      simp only
      constructor
      · intro h; simp at h; obtain ⟨rfl, rfl⟩ := h
        exact ⟨[], a, as, rfl, by simp, hp⟩
      · rintro ⟨pre, x, post, hes, hpre, hx⟩
        cases pre with
        | nil => simp at hes; obtain ⟨rfl, rfl⟩ := hes; rw [hp] at hx; exact hx
        | cons y ys =>
          simp at hes; obtain ⟨rfl, _⟩ := hes
          rcases hpre _ List.mem_cons_self with h | ⟨l', h⟩ <;> (rw [hp] at h; simp at h)
    | idx =>
      simp only
      rw [ih]
      constructor
      · rintro ⟨pre, x, post, rfl, hpre, hx⟩
        exact ⟨a :: pre, x, post, rfl, fun y hy => by
          rcases List.mem_cons.mp hy with rfl | hy
          · exact Or.inl hp
          · exact hpre y hy, hx⟩
      · rintro ⟨pre, x, post, hes, hpre, hx⟩
        cases pre with
        | nil => simp at hes; obtain ⟨rfl, rfl⟩ := hes; rw [hp] at hx; simp at hx
        | cons y ys =>
          simp at hes; obtain ⟨rfl, rfl⟩ := hes
          exact ⟨ys, x, post, rfl, fun z hz => hpre z (List.mem_cons_of_mem _ hz), hx⟩
    | hang =>
      simp only
      constructor
      · intro h; simp at h
      · rintro ⟨pre, x, post, hes, hpre, hx⟩
        cases pre with
        | nil => simp at hes; obtain ⟨rfl, rfl⟩ := hes; rw [hp] at hx; simp at hx
        | cons y ys =>
          simp at hes; obtain ⟨rfl, _⟩ := hes
          rcases hpre _ List.mem_cons_self with h | ⟨l', h⟩ <;> (rw [hp] at h; simp at h)
    | fail c l =>
      cases c with
      | parse =>
        simp only
        rw [ih]
        constructor
        · rintro ⟨pre, x, post, rfl, hpre, hx⟩
          exact ⟨a :: pre, x, post, rfl, fun y hy => by
            rcases List.mem_cons.mp hy with rfl | hy
            · exact Or.inr ⟨l, hp⟩
            · exact hpre y hy, hx⟩
        · rintro ⟨pre, x, post, hes, hpre, hx⟩
          cases pre with
          | nil => simp at hes; obtain ⟨rfl, rfl⟩ := hes; rw [hp] at hx; simp at hx
          | cons y ys =>
            simp at hes; obtain ⟨rfl, rfl⟩ := hes
            exact ⟨ys, x, post, rfl, fun z hz => hpre z (List.mem_cons_of_mem _ hz), hx⟩
      | fatal =>
        simp only
        constructor
        · intro h; simp at h
        · rintro ⟨pre, x, post, hes, hpre, hx⟩
          cases pre with
          | nil => simp at hes; obtain ⟨rfl, rfl⟩ := hes; rw [hp] at hx; simp at hx
          | cons y ys =>
            simp at hes; obtain ⟨rfl, _⟩ := hes
            rcases hpre _ List.mem_cons_self with h | ⟨l', h⟩ <;> (rw [hp] at h; simp at h)
      | «syntax» =>
        simp only
        constructor
        · intro h; simp at h
        · rintro ⟨pre, x, post, hes, hpre, hx⟩
          cases pre with
          | nil => simp at hes; obtain ⟨rfl, rfl⟩ := hes; rw [hp] at hx; simp at hx
          | cons y ys =>
            simp at hes; obtain ⟨rfl, _⟩ := hes
            rcases hpre _ List.mem_cons_self with h | ⟨l', h⟩ <;> (rw [hp] at h; simp at h)

end PP.Parse

namespace PP.Parse

/-! ### `^` takes the alternative that consumes the most input, leftmost on a tie -/

/-- the leftmost entry with maximal end -/
def best : List (Nat × Nat) → Option (Nat × Nat)
  | [] => none
  | x :: xs => match best xs with
    | none => some x
    | some b => if b.1 > x.1 then some b else some x

theorem insDesc_head (x : Nat × Nat) (ys : List (Nat × Nat)) :
    (insDesc x ys).head? = (match ys.head? with
      | none => some x
      | some y => if y.1 > x.1 then some y else some x) := by
  cases ys with
  | nil => rfl
  | cons y ys => simp only [insDesc, List.head?_cons]; split <;> rfl

/-- the stable descending sort puts the leftmost longest candidate first -/
theorem sortDesc_head (cs : List (Nat × Nat)) : (sortDesc cs).head? = best cs := by
  induction cs with
  | nil => rfl
  | cons x xs ih =>
    simp only [sortDesc, best, insDesc_head, ih]

/-- `best` really is the leftmost among the longest: everything before it is strictly shorter, nothing
    after it is longer -/
theorem best_spec (cs : List (Nat × Nat)) (b : Nat × Nat) (h : best cs = some b) :
    ∃ pre post, cs = pre ++ b :: post ∧ (∀ x ∈ pre, x.1 < b.1) ∧ (∀ x ∈ post, x.1 ≤ b.1) := by
  induction cs generalizing b with
  | nil => simp [best] at h
  | cons x xs ih =>
    simp only [best] at h
    cases hb : best xs with
    | none =>
      rw [hb] at h; simp at h; subst h
      have : xs = [] := by
        cases xs with
        | nil => rfl
        | cons y ys =>
          simp only [best] at hb
          cases h2 : best ys with
          | none => simp [h2] at hb
          | some c => simp only [h2] at hb; split at hb <;> simp at hb
      subst this
      exact ⟨[], [], rfl, by simp, by simp⟩
    | some b' =>
      rw [hb] at h
      simp only at h
      obtain ⟨pre, post, hxs, hpre, hpost⟩ := ih b' hb
      split at h
      · rename_i hgt
        simp at h; subst h
        exact ⟨x :: pre, post, by simp [hxs], fun y hy => by
          rcases List.mem_cons.mp hy with rfl | hy
          · exact hgt
          · exact hpre y hy, hpost⟩
      · rename_i hle
        simp at h; subst h
        refine ⟨[], xs, rfl, by simp, ?_⟩
        intro y hy
        rw [hxs] at hy
        rcases List.mem_append.mp hy with hy | hy
        · have := hpre y hy; omega
        · rcases List.mem_cons.mp hy with rfl | hy
          · omega
          · have := hpost y hy; omega

/-- the candidates collected by Or's trial pass are exactly the alternatives whose trial parse succeeded,
    in source order, each with the end it reached -/
theorem orPass1_cands (p : P) (nameLen : Nat → Nat) (slen loc : Nat) :
    ∀ es a a', orPass1 p nameLen slen loc es a = some a' →
      a'.cands = a.cands ++ es.filterMap (fun e => match tryParse p e loc true false with
        | .ok l _ => some (l, e)
        | _ => none) := by
  intro es
  induction es with
  | nil => intro a a' h; simp [orPass1] at h; subst h; simp
  | cons e es ih =>
    intro a a' h
    unfold orPass1 at h
    cases ht : tryParse p e loc true false with
    | ok l ts =>
      rw [ht] at h
      have := ih _ _ h
      simp only at this
      rw [this]
      simp [List.filterMap_cons, ht]
    | fail c l =>
      rw [ht] at h
      simp only at h
      have : a'.cands = a.cands ++ List.filterMap (fun e => match tryParse p e loc true false with
          | .ok l _ => some (l, e)
          | _ => none) es := by
        split at h
        · have := ih _ _ h; simpa using this
        · split at h
          · exact ih _ _ h
          · have := ih _ _ h; simpa using this
      rw [this]; simp [List.filterMap_cons, ht]
    | idx =>
      rw [ht] at h
      have := ih _ _ h
      simp only at this
      rw [this]
      simp [List.filterMap_cons, ht]
    | hang => rw [ht] at h; simp at h

/-- **`^`**: without parse actions, Or returns the parse of the alternative whose trial match is the longest,
    the leftmost one among equally long ones -/
theorem or_longest_leftmost (p : P) (nameLen : Nat → Nat) (slen : Nat) (es : List Nat) (loc : Nat) (a : OrAcc)
    (h1 : orPass1 p nameLen slen loc es {} = some a) (b : Nat × Nat) (hb : best a.cands = some b) :
    orAt p nameLen slen false es loc = p b.2 loc false true ∧
    ∃ pre post, a.cands = pre ++ b :: post ∧ (∀ x ∈ pre, x.1 < b.1) ∧ (∀ x ∈ post, x.1 ≤ b.1) := by
  refine ⟨?_, best_spec _ _ hb⟩
  have hne : a.cands.isEmpty = false := by
    cases hc : a.cands with
    | nil => rw [hc] at hb; simp [best] at hb
    | cons x xs => rfl
  have hh := sortDesc_head a.cands
  rw [hb] at hh
  cases hs : sortDesc a.cands with
  | nil => rw [hs] at hh; simp at hh
  | cons m ms =>
    rw [hs] at hh; simp at hh; subst hh
    simp [orAt, h1, hne, hs]

/-! ### repetition is greedy and never gives back -/

theorem manyPre_abort (p : P) (nd : Node) (slen loc : Nat) (o : Out) (h : manyPre p nd slen loc = .abort o) :
    o.isOk = false := by
  unfold manyPre at h
  split at h
  · simp at h
  · exact skipIgnorables_abort p _ _ _ _ _ h

/-- when the repetition loop stops with success at `e`, it is because the stop_on sentinel is next, or the
    body (after skipping ignorables) cannot match there: the loop never stops while one more match is possible -/
theorem rep_greedy_no_giveback (p : P) (nd : Node) (acts : Bool) (slen b : Nat) (ne : Option Nat) :
    ∀ k loc acc e ts, manyLoop p nd acts slen b ne k loc acc = .ok e ts →
      stopCheck p ne e = some true ∨
      (stopCheck p ne e = some false ∧
        ((∃ o, manyPre p nd slen e = .abort o ∧ o.soft = true) ∨
         (∃ pre, manyPre p nd slen e = .at pre ∧ (p b pre acts true).soft = true))) := by
  intro k
  induction k with
  | zero => intro loc acc e ts h; simp [manyLoop] at h
  | succ k ih =>
    intro loc acc e ts h
    unfold manyLoop at h
    cases hs : stopCheck p ne loc with
    | none => rw [hs] at h; simp at h
    | some st =>
      rw [hs] at h
      cases st with
      | true => simp at h; obtain ⟨rfl, rfl⟩ := h; exact Or.inl hs
      | false =>
        simp only at h
        cases hm : manyPre p nd slen loc with
        | abort o =>
          rw [hm] at h
          cases o with
          | ok l t => have := manyPre_abort p nd slen loc _ hm; simp [Out.isOk] at this
          | idx => simp at h; obtain ⟨rfl, rfl⟩ := h; exact Or.inr ⟨hs, Or.inl ⟨_, hm, rfl⟩⟩
          | hang => simp at h
          | fail c l =>
            cases c with
            | parse => simp at h; obtain ⟨rfl, rfl⟩ := h; exact Or.inr ⟨hs, Or.inl ⟨_, hm, rfl⟩⟩
            | fatal => simp at h
            | «syntax» => simp at h
        | «at» pre =>
          rw [hm] at h
          simp only at h
          cases hp : p b pre acts true with
          | ok l t =>
            rw [hp] at h
            simp only at h
            split at h
            · simp at h
            · exact ih _ _ _ _ h
          | idx => rw [hp] at h; simp at h; obtain ⟨rfl, rfl⟩ := h; exact Or.inr ⟨hs, Or.inr ⟨pre, hm, by rw [hp]; rfl⟩⟩
          | hang => rw [hp] at h; simp at h
          | fail c l =>
            rw [hp] at h
            cases c with
            | parse => simp at h; obtain ⟨rfl, rfl⟩ := h; exact Or.inr ⟨hs, Or.inr ⟨pre, hm, by rw [hp]; rfl⟩⟩
            | fatal => simp at h
            | «syntax» => simp at h

/-- every iteration of the repetition consumes input (a zero-width iteration is the `hang` the quantifier
    excludes), so the tokens come from strictly advancing matches -/
theorem rep_iterations_advance (p : P) (nd : Node) (acts : Bool) (slen b : Nat) (ne : Option Nat) :
    ∀ k loc acc e ts, manyLoop p nd acts slen b ne k loc acc = .ok e ts → loc ≤ e := by
  intro k
  induction k with
  | zero => intro loc acc e ts h; simp [manyLoop] at h
  | succ k ih =>
    intro loc acc e ts h
    unfold manyLoop at h
    cases hs : stopCheck p ne loc with
    | none => rw [hs] at h; simp at h
    | some st =>
      rw [hs] at h
      cases st with
      | true => simp at h; omega
      | false =>
        simp only at h
        cases hm : manyPre p nd slen loc with
        | abort o =>
          rw [hm] at h
          cases o with
          | ok l t => have := manyPre_abort p nd slen loc _ hm; simp [Out.isOk] at this
          | idx => simp at h; omega
          | hang => simp at h
          | fail c l => cases c <;> simp at h <;> omega
        | «at» pre =>
          rw [hm] at h
          simp only at h
          cases hp : p b pre acts true with
          | ok l t =>
            rw [hp] at h
            simp only at h
            split at h
            · simp at h
            · have := ih _ _ _ _ h; omega
          | idx => rw [hp] at h; simp at h; omega
          | hang => rw [hp] at h; simp at h
          | fail c l => rw [hp] at h; cases c <;> simp at h <;> omega

/-! ### lookaheads consume nothing; Opt; token converters -/

theorem lookahead_consumes_nothing (g : Grammar) (p : P) (nd : Node) (s : List Char) (loc : Nat) (acts : Bool)
    (x : Nat) (hk : nd.kind = .notAny x ∨ nd.kind = .followedBy x) (e : Nat) (ts : List Tok)
    (h : parseImpl g p nd s loc acts = .ok e ts) : e = loc ∧ flatL ts = [] := by
  unfold parseImpl at h
  rcases hk with hk | hk
  · simp only [hk] at h
    cases hc : canParseNext p x loc acts with
    | none => rw [hc] at h; simp at h
    | some b => rw [hc] at h; cases b <;> simp at h; exact ⟨h.1.symm, by rw [h.2]; rfl⟩
  · simp only [hk] at h
    cases hp : p x loc acts true with
    | ok l t =>
      rw [hp] at h; simp only [Out.ok.injEq] at h
      refine ⟨h.1.symm, ?_⟩
      rw [← h.2]; split <;> simp [flatL, Tok.flat]
    | fail c l => rw [hp] at h; simp at h
    | idx => rw [hp] at h; simp at h
    | hang => rw [hp] at h; simp at h

/-- NotAny succeeds exactly when its expression does not match (trial parse) -/
theorem notany_iff (g : Grammar) (p : P) (nd : Node) (s : List Char) (loc : Nat) (acts : Bool) (x : Nat)
    (hk : nd.kind = .notAny x) :
    parseImpl g p nd s loc acts = .ok loc [] ↔ canParseNext p x loc acts = some false := by
  unfold parseImpl
  simp only [hk]
  cases canParseNext p x loc acts with
  | none => simp
  | some b => cases b <;> simp

/-- Opt: the body's match if there is one, else the empty match (or the default) **at the location Opt was
    called at** — a failing optional gives nothing back and moves nowhere -/
theorem opt_spec (g : Grammar) (p : P) (nd : Node) (s : List Char) (loc : Nat) (acts : Bool) (x : Nat)
    (d : Option (List Char)) (hk : nd.kind = .opt x d) :
    parseImpl g p nd s loc acts = (match p x loc acts false with
      | .fail .parse _ => .ok loc (optNoMatch nd (optDefault g x d))
      | .idx => .ok loc (optNoMatch nd (optDefault g x d))
      | o => o) := by
  unfold parseImpl
  simp only [hk]
  cases p x loc acts false <;> first | rfl | (rename_i c l; cases c <;> rfl)

/-- ZeroOrMore: a soft failure of the repetition is the empty match at the location it was called at -/
theorem zeroOrMore_spec (g : Grammar) (p : P) (nd : Node) (s : List Char) (loc : Nat) (acts : Bool) (x : Nat)
    (ne : Option Nat) (hk : nd.kind = .many x ne false) :
    parseImpl g p nd s loc acts = (match manyImpl p nd acts s.length x ne loc with
      | .fail .parse _ => .ok loc []
      | .idx => .ok loc []
      | o => o) := by
  unfold parseImpl
  simp only [hk, Bool.false_eq_true, if_false]
  cases manyImpl p nd acts s.length x ne loc <;> first | rfl | (rename_i c l; cases c <;> rfl)

theorem group_nests (nd : Node) (x : Nat) (hk : nd.kind = .group x) (ts : List Tok) : postParse nd ts = [.g ts] := by
  simp [postParse, hk]

theorem suppress_omits (nd : Node) (x : Nat) (hk : nd.kind = .suppress x) (ts : List Tok) : postParse nd ts = [] := by
  simp [postParse, hk]

theorem combine_joins (nd : Node) (x : Nat) (j : List Char) (hk : nd.kind = .combine x j) (ts : List Tok)
    (hplain : annotatedL ts = false) :
    postParse nd ts = [.s (combineStr j ts)] := by
  simp [postParse, hk, hplain]

/-- the whitespace rule at the level of `_parseNoCache`: a skipping element without ignorables runs its
    `parseImpl` at the first non-blank position, whatever `parseImpl` then does (even if it matches nothing) -/
theorem skip_then_match (g : Grammar) (s : List Char) (p : P) (id loc : Nat) (a : Bool) (nd : Node)
    (hg : g[id]? = some nd) (hcp : nd.callPre = true) (hk : ∀ w nl, nd.kind ≠ .lineStart w nl)
    (hi : nd.ignore = []) (hs : nd.skipWs = true) (hacts : nd.acts = []) :
    parseStep g s p id loc a true =
      (match parseImpl g p nd s (skipWhite nd.white s loc) a with
       | .idx => if nd.mayIdx || skipWhite nd.white s loc ≥ s.length then .fail .parse s.length else .idx
       | .ok e ts => .ok e (postParse nd ts)
       | o => o) := by
  unfold parseStep
  simp only [hg, hcp, Bool.and_true, if_true, preParse_is_skipWhite p nd s loc hk hi hs, hacts]
  cases parseImpl g p nd s (skipWhite nd.white s loc) a <;> simp
  by_cases hc : nd.mayIdx = true ∨ s.length ≤ skipWhite nd.white s loc <;> simp [hc]

/-! ### non-vacuity -/
example : best [(2, 0), (3, 1), (3, 2), (1, 3)] = some (3, 1) := by decide
example : sortDesc [(2, 0), (3, 1), (3, 2), (1, 3)] = [(3, 1), (3, 2), (2, 0), (1, 3)] := by decide
example : skipWhite [' ', '\n'] [' ', '\n', 'a', ' '] 0 = 2 := by decide

end PP.Parse
