import PPProofs.Lemmas.ParseRename
import PPProofs.Lemmas.SugarCheck
import PPProofs.Lemmas.AndFlatten
import PPProofs.Lemmas.HeapOps
/-!
# C12 — grammar objects have value semantics; operator sugar means what is documented

Model: the object graph is the node table of the shared parse model (`PPModel/Mod/ParseTypes.lean`); the table
transformations of C12 are in `PPModel/Mod/Sugar.lean`.

* `sim_parse_eq`: two graphs related by a (driver-checked) simulation parse identically — for every input, location,
  flag combination and fuel.  The harness extracts the graphs of the live objects built by the sugar and by the
  spelled-out form (after `streamline`) and has the compiled driver evaluate `simCheck`; this theorem is what makes
  that structural tie a statement about parsing.
* `frame`: append-only construction (every operator / copy / naming creates NEW nodes that refer to existing ids)
  never changes how an existing node parses.
* `copy_equiv`: a field-wise copy of a node parses exactly like the original.
-/
namespace PP.Parse

/-- **sugar == spelled-out form (semantic half).** If the driver accepts `pairs` as a simulation between the graph of
    the sugar expression and the graph of the spelled-out expression, every pair of related nodes parses identically:
    all inputs, all locations, actions on/off, pre-parse on/off, all fuels. -/
theorem sim_parse_eq (g1 g2 : Grammar) (pairs : List (Nat × Nat)) (h : simCheck g1 g2 pairs = true)
    (s : List Char) (f i j : Nat) (hij : (i, j) ∈ pairs) (loc : Nat) (a c : Bool) :
    parse g1 s f i loc a c = parse g2 s f j loc a c := by
  have hs := simCheck_sound g1 g2 pairs h
  have hD : i ∈ pairs.map Prod.fst := List.mem_map.mpr ⟨(i, j), hij, rfl⟩
  have hρ : rhoOf pairs i = j := by
    unfold simCheck at h
    rw [List.all_eq_true] at h
    have h1 := h (i, j) hij
    unfold simCheckOne at h1
    rw [Bool.and_eq_true] at h1
    simpa using h1.1
  rw [parse_rename hs s f i hD loc a c, hρ]

/-! ### renaming by a map that fixes every id a node mentions -/

theorem map_fix {ρ : Nat → Nat} {l : List Nat} (h : ∀ x ∈ l, ρ x = x) : l.map ρ = l := by
  induction l with
  | nil => rfl
  | cons x xs ih =>
    simp only [List.map_cons]
    rw [h x (by simp), ih (fun y hy => h y (by simp [hy]))]

theorem omap_fix {ρ : Nat → Nat} {o : Option Nat} (h : ∀ x ∈ o.toList, ρ x = x) : o.map ρ = o := by
  cases o with
  | none => rfl
  | some x => simp only [Option.map_some]; rw [h x (by simp)]

theorem Kind.mapIds_fix {ρ : Nat → Nat} {k : Kind} (h : ∀ x ∈ k.children, ρ x = x) : k.mapIds ρ = k := by
  cases k <;> simp only [Kind.mapIds, Kind.children] at h ⊢
  case and es => rw [map_fix h]
  case matchFirst es => rw [map_fix h]
  case or es => rw [map_fix h]
  case opt e d => rw [h e (by simp)]
  case many e ne one =>
    rw [h e (by simp), omap_fix (fun x hx => h x (by simp [hx]))]
  case notAny e => rw [h e (by simp)]
  case followedBy e => rw [h e (by simp)]
  case located e => rw [h e (by simp)]
  case group e => rw [h e (by simp)]
  case suppress e => rw [h e (by simp)]
  case combine e j => rw [h e (by simp)]
  case skipTo e incl fo ig =>
    rw [h e (by simp), omap_fix (fun x hx => h x (by simp [hx])), omap_fix (fun x hx => h x (by simp [hx]))]
  case forward e => rw [omap_fix (fun x hx => h x (by simpa using hx))]
  case enhance e => rw [h e (by simp)]

theorem Node.mapIds_fix {ρ : Nat → Nat} {nd : Node} (h : ∀ x ∈ nd.children, ρ x = x) : nd.mapIds ρ = nd := by
  unfold Node.mapIds
  unfold Node.children at h
  rw [Kind.mapIds_fix (fun x hx => h x (by simp [hx])), map_fix (fun x hx => h x (by simp [hx]))]

theorem nameLenOf_append_left (g new : Grammar) (e : Nat) (he : e < g.length) :
    nameLenOf (g ++ new) e = nameLenOf g e := by
  unfold nameLenOf
  rw [List.getElem?_append_left he]

/-- **frame theorem (value semantics of construction).** Whatever nodes are appended to a closed table — the result
    of `+ | ^ ~ - * []`, `copy()`, `expr()`, `expr('name')`, `set_results_name()`: new objects that refer to existing
    ones — the parse of every existing node is unchanged, on every input, at every location. -/
theorem frame (g new : Grammar) (hc : Closed g) (s : List Char) (f i : Nat) (hi : i < g.length) (loc : Nat)
    (a c : Bool) : parse (g ++ new) s f i loc a c = parse g s f i loc a c := by
  have hs : Sim g (g ++ new) id (fun i => i < g.length) := by
    refine ⟨?_, ?_, ?_⟩
    · intro i hi
      have hg : g[i]? = some g[i] := List.getElem?_eq_getElem hi
      refine ⟨g[i], g[i], hg, ?_, ?_⟩
      · show (g ++ new)[i]? = some g[i]
        rw [List.getElem?_append_left hi]; exact hg
      · rw [Node.mapIds_fix (ρ := id) (fun x _ => rfl)]
    · intro i n1 _ hg c hc'
      exact hc i n1 hg c hc'
    · intro i n1 es _ hg hk e he
      have : e < g.length := hc i n1 hg e (by unfold Node.children Kind.children; rw [hk]; simp [he])
      exact (nameLenOf_append_left g new e this).symm
  exact (parse_rename hs s f i hi loc a c).symm

/-- **copy_equiv.** A node that is a field-wise copy of an existing node `e` (same kind, children, flags, actions,
    ignorables; `str()` may differ), appended to a closed table, parses exactly like `e`. -/
theorem copy_equiv (g : Grammar) (hc : Closed g) (e : Nat) (nd nd' : Node) (he : g[e]? = some nd)
    (hcopy : nd'.eraseNL = nd.eraseNL) (s : List Char) (f loc : Nat) (a c : Bool) :
    parse (g ++ [nd']) s f g.length loc a c = parse (g ++ [nd']) s f e loc a c := by
  have helt : e < g.length := by
    rcases Nat.lt_or_ge e g.length with h | h
    · exact h
    · rw [List.getElem?_eq_none h] at he; cases he
  let ρ : Nat → Nat := fun i => if i = g.length then e else i
  have hρlt : ∀ x, x < g.length → ρ x = x := by
    intro x hx; show (if x = g.length then e else x) = x; rw [if_neg (by omega)]
  have hkind : nd'.kind = nd.kind := by
    have := congrArg Node.kind hcopy; simpa [Node.eraseNL] using this
  have hign : nd'.ignore = nd.ignore := by
    have := congrArg Node.ignore hcopy; simpa [Node.eraseNL] using this
  have hch : nd'.children = nd.children := by unfold Node.children; rw [hkind, hign]
  have hs : Sim (g ++ [nd']) (g ++ [nd']) ρ (fun i => i ≤ g.length) := by
    refine ⟨?_, ?_, ?_⟩
    · intro i hi
      rcases Nat.lt_or_ge i g.length with hlt | hge
      · have hg : g[i]? = some g[i] := List.getElem?_eq_getElem hlt
        refine ⟨g[i], g[i], ?_, ?_, ?_⟩
        · rw [List.getElem?_append_left hlt]; exact hg
        · rw [hρlt i hlt, List.getElem?_append_left hlt]; exact hg
        · rw [Node.mapIds_fix (fun x hx => hρlt x (hc i g[i] hg x hx))]
      · have hi' : i = g.length := by omega
        subst hi'
        refine ⟨nd', nd, ?_, ?_, ?_⟩
        · simp
        · show (g ++ [nd'])[(if g.length = g.length then e else g.length)]? = some nd
          rw [if_pos rfl, List.getElem?_append_left helt]; exact he
        · rw [Node.mapIds_fix (fun x hx => hρlt x (hc e nd he x (hch ▸ hx)))]
          exact hcopy.symm
    · intro i n1 hi hg c' hc'
      rcases Nat.lt_or_ge i g.length with hlt | hge
      · rw [List.getElem?_append_left hlt] at hg
        exact Nat.le_of_lt (hc i n1 hg c' hc')
      · have hi' : i = g.length := by omega
        subst hi'
        simp at hg
        subst hg
        exact Nat.le_of_lt (hc e nd he c' (hch ▸ hc'))
    · intro i n1 es hi hg hk x hx
      have hxlt : x < g.length := by
        rcases Nat.lt_or_ge i g.length with hlt | hge
        · rw [List.getElem?_append_left hlt] at hg
          exact hc i n1 hg x (by unfold Node.children Kind.children; rw [hk]; simp [hx])
        · have hi' : i = g.length := by omega
          subst hi'
          simp at hg
          subst hg
          exact hc e nd he x (by rw [← hch]; unfold Node.children Kind.children; rw [hk]; simp [hx])
      rw [hρlt x hxlt]
  have := parse_rename hs s f g.length (Nat.le_refl _) loc a c
  rw [this]
  show parse (g ++ [nd']) s f (if g.length = g.length then e else g.length) loc a c = _
  rw [if_pos rfl]

/-! ### the in-place flattening of `streamline` -/

/-- **and_flatten (partial).** `And[pre…, N, post…]` with `N = And[b, ns…]` parses like `And[pre…, b, ns…, post…]`
    — every input, location, actions on/off — for every parse function `P` that never lets a raw IndexError out
    (`NoIdx`, cf. C06) and satisfies the equation of `_parseNoCache` at `N` and at `b`, PROVIDED the decidable flag
    condition `flattenHyp` holds (evaluated by the driver on the flags of the live objects): `N` has no parse action;
    an `_ErrorStop` inside `N` only if nothing follows `N`; and, unless `N` is the first element: `N.callPreparse`,
    `b.callPreparse`, `b` is not an `_ErrorStop`, `b` does not override `preParse` (LineStart), and `N`'s
    skipWhitespace / whiteChars / ignoreExprs are `b`'s.
    PARTIAL: stated for one call level of a parse function that is a fixed point at `N` and `b`; the lift to
    `parse g s fuel` of the whole rewritten table (fuel shift by one per flattened level, through Forward cycles) is
    not proved.  The full statement would be: for the table `g'` obtained from `g` by `streamlineAnd`,
    `(∃ f, parse g s f i … = o ≠ hang) ↔ (∃ f, parse g' s f i … = o ≠ hang)` for every node `i`. -/
theorem and_flatten_partial (g : Grammar) (s : List Char) (P : P) (hni : NoIdx P) (O O' N : Node)
    (pre post ns : List Nat) (n b : Nat) (hN : g[n]? = some N) (hNk : N.kind = .and (b :: ns))
    (hO : O.kind = .and (pre ++ n :: post)) (hO' : O'.kind = .and (pre ++ (b :: ns ++ post)))
    (hyp : flattenHyp g pre n post = true)
    (eqN : ∀ loc a c, P n loc a c = parseStep g s P n loc a c)
    (eqB : ∀ loc a c, P b loc a c = parseStep g s P b loc a c) (loc : Nat) (a : Bool) :
    parseImpl g P O s loc a = parseImpl g P O' s loc a := by
  have e1 : parseImpl g P O s loc a = andImpl P (isStopOf g) a s.length (pre ++ n :: post) loc := by
    unfold parseImpl; rw [hO]; rfl
  have e2 : parseImpl g P O' s loc a = andImpl P (isStopOf g) a s.length (pre ++ (b :: ns ++ post)) loc := by
    unfold parseImpl; rw [hO']; rfl
  rw [e1, e2]
  unfold flattenHyp at hyp
  rw [hN] at hyp
  simp only [hNk, Bool.and_eq_true, Bool.or_eq_true, List.isEmpty_iff, List.all_eq_true, Bool.not_eq_true'] at hyp
  obtain ⟨⟨hacts, hstops⟩, hpos⟩ := hyp
  have ctx : FlatCtx g s P n b N ns post := ⟨hni, hN, hNk, hacts, hstops, eqN⟩
  cases pre with
  | nil => exact and_flatten_head_impl g s P n b N ns post ctx loc a
  | cons e0 pre' =>
    rcases hpos with hpos | hpos
    · cases hpos
    · obtain ⟨⟨hNc, hsb⟩, hB⟩ := hpos
      cases hb : g[b]? with
      | none => rw [hb] at hB; cases hB
      | some B =>
        rw [hb] at hB
        have step := and_flatten_inner_step g s P n b N B ns post ctx hb hNc hsb hB eqB a
        unfold andImpl
        simp only [List.cons_append]
        cases P e0 loc a false with
        | ok l ts => exact andRest_congr_tail P (isStopOf g) a s.length _ _ step pre' false l ts
        | fail c l => rfl
        | idx => rfl
        | hang => rfl

/-! ### what `streamline` does to the table, and the witnesses outside `flattenHyp` -/

def mkNode (k : Kind) (skip : Bool) (white : List Char) : Node :=
  { kind := k, skipWs := skip, white := white, callPre := true, mayIdx := false, ignore := [], acts := [],
    callDuringTry := false, nameLen := 1 }

def dw : List Char := [' ', '\t', '\n', '\r']

/-- 0 = And[1, 2] (nested), 1 = 'a', 2 = And[3, 4], 3 = LineStart, 4 = 'b', 5 = And[1, 3, 4] (flat) -/
def exLS : Grammar :=
  [ mkNode (.and [1, 2]) true dw, mkNode (.lit1 'a') true dw, mkNode (.and [3, 4]) false [' ', '\t', '\r'],
    mkNode (.lineStart [' ', '\t', '\r'] true) false [' ', '\t', '\r'], mkNode (.lit1 'b') true dw,
    mkNode (.and [1, 3, 4]) true dw ]

def Out.cls : Out → Nat
  | .ok _ _ => 0
  | .fail .parse _ => 1
  | .fail .fatal _ => 2
  | .fail .syntax _ => 3
  | .idx => 4
  | .hang => 5

/-- `streamlineAnd` turns node 0 into node 5's list … -/
example : (streamlineAnd exLS (exLS[0]'(by decide))).kind = .and [1, 3, 4] := by decide
/-- … but the flag condition fails (LineStart overrides preParse) and the two DO parse differently on "a\nb":
    the nested form fails, the flat form matches — `Literal('a') + (LineStart() + 'b')` before and after streamline -/
theorem and_flatten_fails_lineStart :
    flattenHyp exLS [1] 2 [] = false ∧
    (parse exLS ['a', '\n', 'b'] 6 0 0 true true).cls = 1 ∧ (parse exLS ['a', '\n', 'b'] 6 5 0 true true).cls = 0 := by
  decide

/-- 0 = And[1, 5] (nested), 1 = And[2, 3, 4] = 'x' - 'y', 2 = 'x', 3 = _ErrorStop, 4 = 'y', 5 = 'b',
    6 = And[2, 3, 4, 5] (flat) -/
def exStop12 : Grammar :=
  [ mkNode (.and [1, 5]) true dw, mkNode (.and [2, 3, 4]) true dw, mkNode (.lit1 'x') true dw,
    mkNode .errorStop false dw, mkNode (.lit1 'y') true dw, mkNode (.lit1 'b') true dw,
    mkNode (.and [2, 3, 4, 5]) true dw ]

/-- an `_ErrorStop` inside the nested And guards only the nested part: on "xyc" the nested form raises a
    ParseException, the flat one a ParseSyntaxException — `And([x - y, b])` vs `x - y + b` -/
theorem and_flatten_fails_errorStop :
    flattenHyp exStop12 [] 1 [5] = false ∧
    (parse exStop12 ['x', 'y', 'c'] 6 0 0 true true).cls = 1 ∧ (parse exStop12 ['x', 'y', 'c'] 6 6 0 true true).cls = 3 := by
  decide

/-- non-vacuity of `and_flatten_partial`: `'a' + ('b' + 'c')`, all default flags — the condition holds … -/
def exOK : Grammar :=
  [ mkNode (.and [1, 2]) true dw, mkNode (.lit1 'a') true dw, mkNode (.and [3, 4]) true dw,
    mkNode (.lit1 'b') true dw, mkNode (.lit1 'c') true dw, mkNode (.and [1, 3, 4]) true dw ]
example : flattenHyp exOK [1] 2 [] = true ∧ (streamlineAnd exOK (exOK[0]'(by decide))).kind = .and [1, 3, 4] := by decide
/-- … and both forms give the same outcome -/
example : (parse exOK ['a', ' ', 'b', 'c'] 6 0 0 true true).cls = 0 ∧ (parse exOK ['a', ' ', 'b', 'c'] 6 5 0 true true).cls = 0 := by
  decide
/-- non-vacuity of `frame` / `copy_equiv` / `sim_parse_eq`: the table is closed; node 5 simulates node 0's flat list -/
example : closedCheck exOK = true := by decide
example : simCheck exOK exOK [(3, 3), (4, 4)] = true := by decide

end PP.Parse

/-! # in-place operations applied AFTER composition: the object graph as a heap

`PPModel/Mod/HeapOps.lean` transcribes `copy()`, `ignore()`, `leave_whitespace()` / `ignore_whitespace()` as operations
on a heap (elements + the identity of their `ignoreExprs` list objects).  The harness runs every real call of a
generated history against these operations on the heap extracted from the live objects (driver: `heapMatch`), and
evaluates `invCheck` on the live heaps.  The theorems say which expressions can NOT be affected by such a call. -/
namespace PP.Heap
open PP.Parse

theorem resolve_get (h : Heap) (i : Nat) :
    h.resolve[i]? = (h.objs[i]?).map (fun o => { o.node with ignore := ignoreOf h.cells o }) := by
  unfold Heap.resolve resolveWith
  rw [List.getElem?_map]

/-- **general frame.**  If two tables agree on a set `E` of ids that is closed under "refers to" (sub-expressions and
    ignorables), every element of `E` parses identically in both: all inputs, locations, flags, fuels.
    (`frame` above is the special case "the second table is the first one plus appended nodes".) -/
theorem agree_on_closed (g g' : Grammar) (E : Nat → Prop) (hsame : ∀ i, E i → g'[i]? = g[i]?)
    (hin : ∀ i, E i → i < g.length) (hclosed : ∀ i nd, E i → g[i]? = some nd → ∀ c ∈ nd.children, E c)
    (s : List Char) (f i : Nat) (hi : E i) (loc : Nat) (a c : Bool) :
    parse g' s f i loc a c = parse g s f i loc a c := by
  have hs : Sim g g' id E := by
    refine ⟨?_, hclosed, ?_⟩
    · intro i hi
      have hlt : i < g.length := hin i hi
      have hg : g[i]? = some g[i] := List.getElem?_eq_getElem hlt
      refine ⟨g[i], g[i], hg, ?_, ?_⟩
      · show g'[i]? = some g[i]
        rw [hsame i hi]; exact hg
      · rw [Node.mapIds_fix (ρ := id) (fun x _ => rfl)]
    · intro i n1 es hi hg hk e he
      have hE : E e := hclosed i n1 hi hg e (by unfold Node.children Kind.children; rw [hk]; simp [he])
      show nameLenOf g e = nameLenOf g' e
      unfold nameLenOf
      rw [hsame e hE]
  exact (parse_rename hs s f i hi loc a c).symm

/-- **ignore_frame.**  `x.ignore(s)` — which pushes `s` into every element reachable from `x`, appending IN PLACE to
    their `ignoreExprs` list objects — does not change how any expression `E` parses whose object graph is disjoint
    from the elements reachable from `x`, PROVIDED no two elements hold the same list object (`NoAlias`, kept by every
    constructor and by `copy()`: `copyOp_spec`; evaluated on the live objects by the driver: `invCheck`).
    `D`: any set of elements containing `x` and closed under `recurse()`; `E`: closed under "refers to".
    All inputs, locations, flags, fuels. -/
theorem ignore_frame (h h' : Heap) (fuel x s : Nat) (hop : h.ignore fuel x s = some h') (hna : NoAlias h)
    (D : Nat → Prop) (hD : SubClosed h.objs D) (hx : D x)
    (E : Nat → Prop) (hin : ∀ i, E i → i < h.objs.length)
    (hclosed : ∀ i nd, E i → h.resolve[i]? = some nd → ∀ c ∈ nd.children, E c)
    (hdisj : ∀ i, E i → ¬ D i)
    (inp : List Char) (f i : Nat) (hi : E i) (loc : Nat) (a c : Bool) :
    parse h'.resolve inp f i loc a c = parse h.resolve inp f i loc a c := by
  unfold Heap.ignore at hop
  cases hc : ignorePush h.objs fuel h.cells x s with
  | none => rw [hc] at hop; cases hop
  | some c' =>
    rw [hc] at hop
    simp only [Option.some.injEq] at hop
    subst hop
    have hpush := ignorePush_frame h.objs D hD fuel h.cells x s c' hx hc
    refine agree_on_closed h.resolve _ E ?_ (fun i hi => by unfold Heap.resolve resolveWith; simpa using hin i hi)
      hclosed inp f i hi loc a c
    intro i hiE
    rw [resolve_get, resolve_get]
    show Option.map _ h.objs[i]? = _
    cases ho : h.objs[i]? with
    | none => rfl
    | some o =>
      simp only [Option.map_some, Option.some.injEq]
      have hfree : CellFree h.objs D o.cell := by
        intro j oj hj hoj heq
        have : j = i := hna j i oj o hoj ho heq
        subst this
        exact hdisj j hiE hj
      have : ignoreOf c' o = ignoreOf h.cells o := by
        unfold ignoreOf; rw [hpush.2 o.cell hfree]
      rw [this]

/-- **ws_frame.**  `x.leave_whitespace()` / `x.ignore_whitespace()` do not change how any expression parses that does
    not contain `x` itself: the sub-expressions are copied before they are changed, at every level.
    All inputs, locations, flags, fuels. -/
theorem ws_frame (dw : List Char) (v : Bool) (fuel : Nat) (h h' : Heap) (x : Nat)
    (hop : wsOp dw v fuel h x = some h') (hinv : Inv h)
    (E : Nat → Prop) (hin : ∀ i, E i → i < h.objs.length)
    (hclosed : ∀ i nd, E i → h.resolve[i]? = some nd → ∀ c ∈ nd.children, E c)
    (hx : ¬ E x)
    (inp : List Char) (f i : Nat) (hi : E i) (loc : Nat) (a c : Bool) :
    parse h'.resolve inp f i loc a c = parse h.resolve inp f i loc a c := by
  obtain ⟨_, _, ⟨nc, hcells⟩, hkeep⟩ := wsOp_spec dw v fuel h x h' hinv hop
  refine agree_on_closed h.resolve _ E ?_ (fun i hi => by unfold Heap.resolve resolveWith; simpa using hin i hi)
    hclosed inp f i hi loc a c
  intro i hiE
  rw [resolve_get, resolve_get, hkeep i (hin i hiE) (fun e => hx (e ▸ hiE))]
  cases ho : h.objs[i]? with
  | none => rfl
  | some o =>
    simp only [Option.map_some, Option.some.injEq]
    have : ignoreOf h'.cells o = ignoreOf h.cells o := by
      unfold ignoreOf; rw [hcells, List.getElem?_append_left (hinv.1 i o ho)]
    rw [this]

/-- **copy_frame.**  `copy()` (also `expr()`, and the copying half of `expr('name')` / `set_results_name`) does not
    change how any existing expression parses, returns a new element, and keeps the invariant of `ignore_frame`. -/
theorem copy_frame (dw : List Char) (fuel : Nat) (h h' : Heap) (x j : Nat)
    (hop : copyOp dw fuel h x = some (h', j)) (hinv : Inv h)
    (E : Nat → Prop) (hin : ∀ i, E i → i < h.objs.length)
    (hclosed : ∀ i nd, E i → h.resolve[i]? = some nd → ∀ c ∈ nd.children, E c)
    (inp : List Char) (f i : Nat) (hi : E i) (loc : Nat) (a c : Bool) :
    Inv h' ∧ h.objs.length ≤ j ∧ parse h'.resolve inp f i loc a c = parse h.resolve inp f i loc a c := by
  obtain ⟨hinv', hext, hj, _⟩ := copyOp_spec dw fuel h x h' j hinv hop
  refine ⟨hinv', hj, ?_⟩
  refine agree_on_closed h.resolve _ E ?_ (fun i hi => by unfold Heap.resolve resolveWith; simpa using hin i hi)
    hclosed inp f i hi loc a c
  intro i hiE
  rw [resolve_get, resolve_get, hext.getObj (hin i hiE)]
  cases ho : h.objs[i]? with
  | none => rfl
  | some o =>
    simp only [Option.map_some, Option.some.injEq]
    have : ignoreOf h'.cells o = ignoreOf h.cells o := by
      unfold ignoreOf; rw [hext.getCell (hinv.1 i o ho)]
    rw [this]

/-- **what the driver's verdict means.**  When `heapMatch m r n …` accepts the heap `r` extracted from the live
    objects after a real call as the model's result `m`, every element that existed before the call (ids `< n`)
    parses in the real heap exactly as in the model's: all inputs, locations, flags, fuels. -/
theorem heapMatch_parse_eq (m r : Heap) (n : Nat) (changed : List Nat) (seeds : List (Nat × Nat))
    (hm : heapMatch m r n changed seeds = true) (i : Nat) (hi : i < n)
    (s : List Char) (f loc : Nat) (a c : Bool) :
    parse m.resolve s f i loc a c = parse r.resolve s f i loc a c := by
  simp only [heapMatch, Bool.and_eq_true] at hm
  exact sim_parse_eq _ _ _ hm.2 s f i i
    (List.mem_append_right _ (List.mem_map.mpr ⟨i, List.mem_range.mpr hi, rfl⟩)) loc a c

/-! ### witnesses: the hypotheses are needed, and they are satisfiable -/

def mkObj (k : Kind) (skip : Bool) (cell : Nat) : Obj :=
  { node := mkNode k skip dw, cell := cell, copyDflt := true, adjacent := false }

/-- 0 = 'a', 1 = 'b', 2 = And[0, 1], 3 = Group(2), 4 = Suppress(5), 5 = '#': every element owns its list object -/
def exH : Heap :=
  { objs := [mkObj (.lit1 'a') true 0, mkObj (.lit1 'b') true 1, mkObj (.and [0, 1]) true 2, mkObj (.group 2) true 3,
             mkObj (.suppress 5) true 4, mkObj (.lit1 '#') true 5],
    cells := [[], [], [], [], [], []] }

example : invCheck exH = true := by decide

/-- non-vacuity of `ignore_frame`: `(a + b).ignore('#')` pushes the ignorable into `a` and `b` (footprint {2, 0, 1});
    the comment `'#'` itself (E = {5}) is outside -/
example : (exH.ignore 5 2 4).map (·.cells) = some [[4], [4], [4], [], [], []] := by decide

/-- non-vacuity of `ws_frame`: `(a + b).leave_whitespace()` rewrites element 2 only and allocates copies of `a`, `b` -/
example : ((wsOp dw false 5 exH 2).map (fun h => (h.objs.take 2 == exH.objs.take 2, h.objs.length, invCheck h))) =
    some (true, 8, true) := by decide

/-- non-vacuity of `ignore_frame` on `exH`: `(a + b).ignore('#')`, footprint D = {2, 0, 1}; the expression 5 (= '#',
    E = {5}) parses as before, whatever the input -/
example (h' : Heap) (hop : exH.ignore 5 2 4 = some h') (inp : List Char) (f loc : Nat) (a c : Bool) :
    parse h'.resolve inp f 5 loc a c = parse exH.resolve inp f 5 loc a c := by
  refine ignore_frame exH h' 5 2 4 hop (invCheck_sound exH (by decide)).2 (fun i => i = 2 ∨ i = 0 ∨ i = 1) ?_
    (Or.inl rfl) (fun i => i = 5) ?_ ?_ ?_ inp f 5 rfl loc a c
  · intro i o hi ho k hk
    rcases hi with rfl | rfl | rfl <;> simp [exH, mkObj, mkNode] at ho <;> subst ho <;> simp [sub] at hk
    rcases hk with rfl | rfl <;> simp
  · intro i hi; subst hi; decide
  · intro i nd hi hnd k hk
    subst hi
    simp [Heap.resolve, resolveWith, exH, mkObj, mkNode, ignoreOf] at hnd
    subst hnd
    simp [Node.children, Kind.children] at hk
  · intro i hi hD; subst hi; rcases hD with h | h | h <;> cases h

/-- non-vacuity of `ws_frame` on `exH`: `(a + b).leave_whitespace()` (x = 2) leaves `a` (E = {0}) alone -/
example (h' : Heap) (hop : wsOp dw false 5 exH 2 = some h') (inp : List Char) (f loc : Nat) (a c : Bool) :
    parse h'.resolve inp f 0 loc a c = parse exH.resolve inp f 0 loc a c := by
  refine ws_frame dw false 5 exH h' 2 hop (invCheck_sound exH (by decide)) (fun i => i = 0) ?_ ?_ (by decide)
    inp f 0 rfl loc a c
  · intro i hi; subst hi; decide
  · intro i nd hi hnd k hk
    subst hi
    simp [Heap.resolve, resolveWith, exH, mkObj, mkNode, ignoreOf] at hnd
    subst hnd
    simp [Node.children, Kind.children] at hk
/-- **the invariant is needed** (the shape of an aliasing `copy()`): 0 = 'a' and its "copy" 1 hold the SAME list
    object; `ignore` on the copy then changes the original, although the original is not reachable from the copy:
    before, 'a' fails on "#a"; after, it matches. -/
def exAlias : Heap :=
  { objs := [mkObj (.lit1 'a') true 0, mkObj (.lit1 'a') true 0, mkObj (.suppress 3) true 1, mkObj (.lit1 '#') true 2],
    cells := [[], [], []] }

theorem alias_breaks_ignore_frame :
    invCheck exAlias = false ∧
    (parse exAlias.resolve ['#', 'a'] 8 0 0 true true).cls = 1 ∧
    ((exAlias.ignore 4 1 2).map (fun h => (parse h.resolve ['#', 'a'] 8 0 0 true true).cls)) = some 0 := by
  decide

/-- **a copy of a Group / Opt / Forward / … shares its contained expression with the original** (`ParserElement.copy`
    is shallow, only And/MatchFirst/Or copy their children): `c = Group(a + b).copy(); c.ignore('#')` changes how the
    ORIGINAL Group parses ("a#b": fails before, matches after) although every element owns its list object.
    This is the behaviour of the unchanged code (replayed on it by the harness: candidate finding
    `enhance_copy_shares_child`); it is why `ignore_frame` asks for disjoint object graphs. -/
theorem enhance_copy_shares_child :
    (parse exH.resolve ['a', '#', 'b'] 10 3 0 true true).cls = 1 ∧
    ((copyOp dw 3 exH 3).bind (fun r => (r.1.ignore 6 r.2 4).map (fun h =>
      (invCheck r.1, r.2, (parse h.resolve ['a', '#', 'b'] 10 3 0 true true).cls)))) = some (true, 6, 0) := by
  decide

end PP.Heap

