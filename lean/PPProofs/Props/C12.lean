import PPProofs.Lemmas.ParseRename
import PPProofs.Lemmas.SugarCheck
/-!
# C12 — grammar objects have value semantics; operator sugar means what is documented

Model: the object graph is the node table of the shared parse model (`PPModel/Mod/ParseTypes.lean`); the table
transformations of C12 are in `PPModel/Mod/Sugar.lean`.

* `sim_parse_eq`: two graphs related by a (driver-checked) simulation parse identically — for every input, location,
  flag combination and fuel.  The harness extracts the graphs of the live objects built by the sugar and by the
  spelled-out form (after `streamline`) and has the compiled driver evaluate `simCheck`; this theorem is what makes
  that structural tie a statement about parsing.
* `frame`: append-only construction (every operator / copy / naming creates NEW nodes that refer to existing ids)
  never changes how an existing node parses.
* `copy_equiv`: a field-wise copy of a node parses exactly like the original.
-/
namespace PP.Parse

/-- **sugar == spelled-out form (semantic half).** If the driver accepts `pairs` as a simulation between the graph of
    the sugar expression and the graph of the spelled-out expression, every pair of related nodes parses identically:
    all inputs, all locations, actions on/off, pre-parse on/off, all fuels. -/
theorem sim_parse_eq (g1 g2 : Grammar) (pairs : List (Nat × Nat)) (h : simCheck g1 g2 pairs = true)
    (s : List Char) (f i j : Nat) (hij : (i, j) ∈ pairs) (loc : Nat) (a c : Bool) :
    parse g1 s f i loc a c = parse g2 s f j loc a c := by
  have hs := simCheck_sound g1 g2 pairs h
  have hD : i ∈ pairs.map Prod.fst := List.mem_map.mpr ⟨(i, j), hij, rfl⟩
  have hρ : rhoOf pairs i = j := by
    unfold simCheck at h
    rw [List.all_eq_true] at h
    have h1 := h (i, j) hij
    unfold simCheckOne at h1
    rw [Bool.and_eq_true] at h1
    simpa using h1.1
  rw [parse_rename hs s f i hD loc a c, hρ]

/-! ### renaming by a map that fixes every id a node mentions -/

theorem map_fix {ρ : Nat → Nat} {l : List Nat} (h : ∀ x ∈ l, ρ x = x) : l.map ρ = l := by
  induction l with
  | nil => rfl
  | cons x xs ih =>
    simp only [List.map_cons]
    rw [h x (by simp), ih (fun y hy => h y (by simp [hy]))]

theorem omap_fix {ρ : Nat → Nat} {o : Option Nat} (h : ∀ x ∈ o.toList, ρ x = x) : o.map ρ = o := by
  cases o with
  | none => rfl
  | some x => simp only [Option.map_some]; rw [h x (by simp)]

theorem Kind.mapIds_fix {ρ : Nat → Nat} {k : Kind} (h : ∀ x ∈ k.children, ρ x = x) : k.mapIds ρ = k := by
  cases k <;> simp only [Kind.mapIds, Kind.children] at h ⊢
  case and es => rw [map_fix h]
  case matchFirst es => rw [map_fix h]
  case or es => rw [map_fix h]
  case opt e d => rw [h e (by simp)]
  case many e ne one =>
    rw [h e (by simp), omap_fix (fun x hx => h x (by simp [hx]))]
  case notAny e => rw [h e (by simp)]
  case followedBy e => rw [h e (by simp)]
  case located e => rw [h e (by simp)]
  case group e => rw [h e (by simp)]
  case suppress e => rw [h e (by simp)]
  case combine e j => rw [h e (by simp)]
  case skipTo e incl fo ig =>
    rw [h e (by simp), omap_fix (fun x hx => h x (by simp [hx])), omap_fix (fun x hx => h x (by simp [hx]))]
  case forward e => rw [omap_fix (fun x hx => h x (by simpa using hx))]
  case enhance e => rw [h e (by simp)]

theorem Node.mapIds_fix {ρ : Nat → Nat} {nd : Node} (h : ∀ x ∈ nd.children, ρ x = x) : nd.mapIds ρ = nd := by
  unfold Node.mapIds
  unfold Node.children at h
  rw [Kind.mapIds_fix (fun x hx => h x (by simp [hx])), map_fix (fun x hx => h x (by simp [hx]))]

theorem nameLenOf_append_left (g new : Grammar) (e : Nat) (he : e < g.length) :
    nameLenOf (g ++ new) e = nameLenOf g e := by
  unfold nameLenOf
  rw [List.getElem?_append_left he]

/-- **frame theorem (value semantics of construction).** Whatever nodes are appended to a closed table — the result
    of `+ | ^ ~ - * []`, `copy()`, `expr()`, `expr('name')`, `set_results_name()`: new objects that refer to existing
    ones — the parse of every existing node is unchanged, on every input, at every location. -/
theorem frame (g new : Grammar) (hc : Closed g) (s : List Char) (f i : Nat) (hi : i < g.length) (loc : Nat)
    (a c : Bool) : parse (g ++ new) s f i loc a c = parse g s f i loc a c := by
  have hs : Sim g (g ++ new) id (fun i => i < g.length) := by
    refine ⟨?_, ?_, ?_⟩
    · intro i hi
      have hg : g[i]? = some g[i] := List.getElem?_eq_getElem hi
      refine ⟨g[i], g[i], hg, ?_, ?_⟩
      · show (g ++ new)[i]? = some g[i]
        rw [List.getElem?_append_left hi]; exact hg
      · rw [Node.mapIds_fix (ρ := id) (fun x _ => rfl)]
    · intro i n1 _ hg c hc'
      exact hc i n1 hg c hc'
    · intro i n1 es _ hg hk e he
      have : e < g.length := hc i n1 hg e (by unfold Node.children Kind.children; rw [hk]; simp [he])
      exact (nameLenOf_append_left g new e this).symm
  exact (parse_rename hs s f i hi loc a c).symm

/-- **copy_equiv.** A node that is a field-wise copy of an existing node `e` (same kind, children, flags, actions,
    ignorables; `str()` may differ), appended to a closed table, parses exactly like `e`. -/
theorem copy_equiv (g : Grammar) (hc : Closed g) (e : Nat) (nd nd' : Node) (he : g[e]? = some nd)
    (hcopy : nd'.eraseNL = nd.eraseNL) (s : List Char) (f loc : Nat) (a c : Bool) :
    parse (g ++ [nd']) s f g.length loc a c = parse (g ++ [nd']) s f e loc a c := by
  have helt : e < g.length := by
    rcases Nat.lt_or_ge e g.length with h | h
    · exact h
    · rw [List.getElem?_eq_none h] at he; cases he
  let ρ : Nat → Nat := fun i => if i = g.length then e else i
  have hρlt : ∀ x, x < g.length → ρ x = x := by
    intro x hx; show (if x = g.length then e else x) = x; rw [if_neg (by omega)]
  have hkind : nd'.kind = nd.kind := by
    have := congrArg Node.kind hcopy; simpa [Node.eraseNL] using this
  have hign : nd'.ignore = nd.ignore := by
    have := congrArg Node.ignore hcopy; simpa [Node.eraseNL] using this
  have hch : nd'.children = nd.children := by unfold Node.children; rw [hkind, hign]
  have hs : Sim (g ++ [nd']) (g ++ [nd']) ρ (fun i => i ≤ g.length) := by
    refine ⟨?_, ?_, ?_⟩
    · intro i hi
      rcases Nat.lt_or_ge i g.length with hlt | hge
      · have hg : g[i]? = some g[i] := List.getElem?_eq_getElem hlt
        refine ⟨g[i], g[i], ?_, ?_, ?_⟩
        · rw [List.getElem?_append_left hlt]; exact hg
        · rw [hρlt i hlt, List.getElem?_append_left hlt]; exact hg
        · rw [Node.mapIds_fix (fun x hx => hρlt x (hc i g[i] hg x hx))]
      · have hi' : i = g.length := by omega
        subst hi'
        refine ⟨nd', nd, ?_, ?_, ?_⟩
        · simp
        · show (g ++ [nd'])[(if g.length = g.length then e else g.length)]? = some nd
          rw [if_pos rfl, List.getElem?_append_left helt]; exact he
        · rw [Node.mapIds_fix (fun x hx => hρlt x (hc e nd he x (hch ▸ hx)))]
          exact hcopy.symm
    · intro i n1 hi hg c' hc'
      rcases Nat.lt_or_ge i g.length with hlt | hge
      · rw [List.getElem?_append_left hlt] at hg
        exact Nat.le_of_lt (hc i n1 hg c' hc')
      · have hi' : i = g.length := by omega
        subst hi'
        simp at hg
        subst hg
        exact Nat.le_of_lt (hc e nd he c' (hch ▸ hc'))
    · intro i n1 es hi hg hk x hx
      have hxlt : x < g.length := by
        rcases Nat.lt_or_ge i g.length with hlt | hge
        · rw [List.getElem?_append_left hlt] at hg
          exact hc i n1 hg x (by unfold Node.children Kind.children; rw [hk]; simp [hx])
        · have hi' : i = g.length := by omega
          subst hi'
          simp at hg
          subst hg
          exact hc e nd he x (by rw [← hch]; unfold Node.children Kind.children; rw [hk]; simp [hx])
      rw [hρlt x hxlt]
  have := parse_rename hs s f g.length (Nat.le_refl _) loc a c
  rw [this]
  show parse (g ++ [nd']) s f (if g.length = g.length then e else g.length) loc a c = _
  rw [if_pos rfl]

end PP.Parse
