import PPProofs.Lemmas.EntryMono
import PPProofs.Lemmas.ParseFwd
import PPProofs.Lemmas.ParseAdv
/-!
# C08 — all parsing entry points agree with one another

Model: `PPModel/Mod/Entry.lean` (scan_string driver loop 1288-1318, parse_string 1204-1226, transform_string,
split).  The entry points are generic in the parse function `p`, so every theorem here holds for the uncached,
the packrat and the left-recursion parser alike, for **all** inputs, option values (max_matches, overlap,
always_skip_whitespace) and grammars.  `Fwd p`: a successful `_parse` call never ends before its start.
-/
namespace PP.Parse

def Fwd (p : P) : Prop := ∀ id loc a c e ts, p id loc a c = .ok e ts → loc ≤ e

/-- what the scan loop adds to its accumulator, seen from location `loc` with `left` matches still allowed -/
structure ScanSpec (p : P) (root : Nat) (ov : Bool) (loc left : Nat) (new : List Match) : Prop where
  /-- each (tokens, start, end) is exactly a direct parse begun at start (callPreParse=False, actions on) -/
  direct : ∀ m ∈ new, p root m.start true false = .ok m.stop m.toks
  /-- nothing is reported before the current location -/
  after : ∀ m ∈ new, loc ≤ m.start
  /-- without `overlap`, matches are reported in non-overlapping order -/
  disjoint : ov = false → new.Pairwise (fun a b => a.stop ≤ b.start)
  /-- never more than max_matches -/
  count : new.length ≤ left

theorem scanPre_ge (p : P) (nd : Node) (sk : Bool) (s : List Char) (loc l : Nat)
    (h : scanPre p nd sk s loc = .at l) : loc ≤ l := by
  unfold scanPre at h
  split at h <;> exact preParse_ge _ _ _ _ _ h

/-- **scan_string** reports exactly direct parses, in order, non-overlapping, at most max_matches of them -/
theorem scanLoop_spec (p : P) (nd : Node) (root : Nat) (s : List Char) (sk ov : Bool) :
    ∀ k loc left acc, ∃ new, (scanLoop p nd root s sk ov k loc left acc).ms = acc ++ new ∧
      ScanSpec p root ov loc left new := by
  intro k
  induction k with
  | zero => intro loc left acc; exact ⟨[], by simp [scanLoop], ⟨by simp, by simp, by simp, by simp⟩⟩
  | succ k ih =>
    intro loc left acc
    have nil : ∃ new, acc = acc ++ new ∧ ScanSpec p root ov loc left new :=
      ⟨[], by simp, ⟨by simp, by simp, by simp, by simp⟩⟩
    unfold scanLoop
    split
    · exact nil
    · rename_i hc
      have hleft : left ≠ 0 := by
        intro h0; apply hc; simp [h0]
      cases hpr : scanPre p nd sk s loc with
      | abort o => cases o <;> first | exact nil | (rename_i c l; cases c <;> exact nil)
      | «at» preloc =>
        have hge := scanPre_ge p nd sk s loc preloc hpr
        simp only
        -- weaken a spec obtained further right in the string
        have weaken : ∀ loc' left' new, loc ≤ loc' → left' ≤ left → ScanSpec p root ov loc' left' new →
            ScanSpec p root ov loc left new := by
          intro loc' left' new hl hlf sp
          exact ⟨sp.direct, fun m hm => Nat.le_trans hl (sp.after m hm), sp.disjoint, Nat.le_trans sp.count hlf⟩
        cases hp : p root preloc true false with
        | hang => exact nil
        | idx => exact nil
        | fail c l =>
          cases c with
          | parse =>
            obtain ⟨new, hms, sp⟩ := ih (preloc + 1) left acc
            exact ⟨new, hms, weaken _ _ _ (by omega) (Nat.le_refl _) sp⟩
          | fatal => exact nil
          | «syntax» => exact nil
        | ok nextLoc ts =>
          simp only
          by_cases hgt : nextLoc > loc
          · simp only [hgt, if_true]
            -- the new match, followed by whatever the rest of the loop finds
            have cons : ∀ loc', (ov = false → nextLoc ≤ loc') → loc < loc' →
                (∃ new, (scanLoop p nd root s sk ov k loc' (left - 1) (acc ++ [⟨ts, preloc, nextLoc⟩])).ms
                    = (acc ++ [⟨ts, preloc, nextLoc⟩]) ++ new ∧ ScanSpec p root ov loc' (left - 1) new) →
                ∃ new, (scanLoop p nd root s sk ov k loc' (left - 1) (acc ++ [⟨ts, preloc, nextLoc⟩])).ms
                    = acc ++ new ∧ ScanSpec p root ov loc left new := by
              intro loc' hov hlt ⟨new, hms, sp⟩
              refine ⟨⟨ts, preloc, nextLoc⟩ :: new, by rw [hms]; simp, ?_⟩
              refine ⟨?_, ?_, ?_, ?_⟩
              · intro m hm
                rcases List.mem_cons.mp hm with h | h
                · subst h; exact hp
                · exact sp.direct m h
              · intro m hm
                rcases List.mem_cons.mp hm with h | h
                · subst h; exact hge
                · have := sp.after m h; omega
              · intro hovf
                refine List.pairwise_cons.mpr ⟨?_, sp.disjoint hovf⟩
                intro m hm
                have := sp.after m hm
                have := hov hovf
                show nextLoc ≤ m.start
                omega
              · have := sp.count
                simp only [List.length_cons]
                omega
            cases ov with
            | false =>
              simp only [Bool.false_eq_true, if_false]
              exact cons nextLoc (fun _ => Nat.le_refl _) hgt (ih _ _ _)
            | true =>
              simp only [if_true, hpr]
              by_cases hpl : preloc > loc
              · simp only [hpl, if_true]
                exact cons nextLoc (fun h => by cases h) hgt (ih _ _ _)
              · simp only [hpl, if_false]
                exact cons (loc + 1) (fun h => by cases h) (by omega) (ih _ _ _)
          · simp only [hgt, if_false]
            obtain ⟨new, hms, sp⟩ := ih (preloc + 1) left acc
            exact ⟨new, hms, weaken _ _ _ (by omega) (Nat.le_refl _) sp⟩

/-- scan_string from the start of the string -/
theorem scanString_spec (p : P) (g : Grammar) (root : Nat) (s : List Char) (mm : Nat) (sk ov : Bool) :
    ScanSpec p root ov 0 mm (scanString p g root s mm sk ov).ms := by
  unfold scanString
  cases g[root]? with
  | none => exact ⟨by simp, by simp, by simp, by simp⟩
  | some nd =>
    obtain ⟨new, hms, sp⟩ := scanLoop_spec p nd root s sk ov (2 * s.length + 4) 0 mm []
    simp only [List.nil_append] at hms
    rw [hms]
    exact sp

/-- each (tokens, start, end) of scan_string equals a direct parse begun at start -/
theorem scan_each_is_direct_parse (p : P) (g : Grammar) (root : Nat) (s : List Char) (mm : Nat) (sk ov : Bool)
    (m : Match) (hm : m ∈ (scanString p g root s mm sk ov).ms) :
    p root m.start true false = .ok m.stop m.toks :=
  (scanString_spec p g root s mm sk ov).direct m hm

/-- matches are reported in increasing, non-overlapping order (overlap=False) -/
theorem scan_sorted_disjoint (p : P) (g : Grammar) (root : Nat) (s : List Char) (mm : Nat) (sk : Bool) :
    (scanString p g root s mm sk false).ms.Pairwise (fun a b => a.stop ≤ b.start) :=
  (scanString_spec p g root s mm sk false).disjoint rfl

/-- with a forward-moving parser, a match never ends before it starts, so starts are non-decreasing too -/
theorem scan_match_forward (p : P) (hf : Fwd p) (g : Grammar) (root : Nat) (s : List Char) (mm : Nat) (sk ov : Bool)
    (m : Match) (hm : m ∈ (scanString p g root s mm sk ov).ms) : m.start ≤ m.stop :=
  hf _ _ _ _ _ _ (scan_each_is_direct_parse p g root s mm sk ov m hm)

/-- the hypothesis `Fwd` is met by the model parser itself, for every grammar, input and fuel
    (`parse_adv`: induction over the fuel through every `parseImpl`) -/
theorem parse_fwd (g : Grammar) (s : List Char) (f : Nat) : Fwd (parse g s f) := parse_adv g s f

/-- … hence, unconditionally: every match scan_string reports for a grammar of the model ends at or after its start -/
theorem scan_match_forward_parse (g : Grammar) (root : Nat) (s : List Char) (f mm : Nat) (sk ov : Bool)
    (m : Match) (hm : m ∈ (scanString (parse g s f) g root s mm sk ov).ms) : m.start ≤ m.stop :=
  scan_match_forward _ (parse_fwd g s f) g root s mm sk ov m hm

theorem scan_max_matches (p : P) (g : Grammar) (root : Nat) (s : List Char) (mm : Nat) (sk ov : Bool) :
    (scanString p g root s mm sk ov).ms.length ≤ mm :=
  (scanString_spec p g root s mm sk ov).count

/-! ### split and transform_string are the documented functions of that match list -/

/-- the text of the string cut at the matches: piece, separator text, piece, … -/
def rejoin (s : List Char) : List Match → Nat → List Char
  | [], last => s.drop last
  | m :: ms, last => slice s last m.start ++ slice s m.start m.stop ++ rejoin s ms m.stop

theorem slice_append_drop (s : List Char) (a b : Nat) (hab : a ≤ b) : slice s a b ++ s.drop b = s.drop a := by
  unfold slice
  induction s generalizing a b with
  | nil => simp
  | cons c cs ih =>
    cases b with
    | zero => have : a = 0 := by omega
              subst this; simp
    | succ b =>
      cases a with
      | zero => simp [List.take_append_drop]
      | succ a => simp; exact ih a b (by omega)

/-- **split_join**: rejoining split()'s pieces with the matched separator texts restores the (parsed) input,
    for any ordered non-overlapping forward match list -/
theorem split_join (s : List Char) : ∀ (ms : List Match) (last : Nat),
    (∀ m ∈ ms, m.start ≤ m.stop) → ms.Pairwise (fun a b => a.stop ≤ b.start) → (∀ m ∈ ms, last ≤ m.start) →
    rejoin s ms last = s.drop last := by
  intro ms
  induction ms with
  | nil => intro last _ _ _; rfl
  | cons m ms ih =>
    intro last hf hp hl
    have hp' := List.pairwise_cons.mp hp
    unfold rejoin
    rw [ih m.stop (fun x hx => hf x (List.mem_cons_of_mem _ hx)) hp'.2 (fun x hx => hp'.1 x hx)]
    rw [List.append_assoc, slice_append_drop s m.start m.stop (hf m List.mem_cons_self)]
    exact slice_append_drop s last m.start (hl m List.mem_cons_self)

/-- the pieces split() yields are exactly the unmatched stretches of `rejoin` -/
theorem split_pieces_are_gaps (s : List Char) : ∀ (ms : List Match) (last : Nat),
    splitPieces s ms last = (match ms with
      | [] => [s.drop last]
      | m :: rest => slice s last m.start :: splitPieces s rest m.stop) := by
  intro ms last; cases ms <;> rfl

/-- **transform_spec**: unmatched text verbatim, each match replaced by its (flattened, truthy) tokens -/
theorem transform_spec (s : List Char) (m : Match) (ms : List Match) (lastE : Nat) :
    transformPieces s (m :: ms) lastE =
      (if m.start > lastE then slice s lastE m.start else []) ++ strsL ((flatL m.toks).filter Tok.truthy)
        ++ transformPieces s ms m.stop := rfl

theorem transform_no_match (s : List Char) : transformPieces s [] 0 = s := by simp [transformPieces]

/-! ### parse_string(parse_all=True) -/

/-- parse_all returns exactly the tokens (and end) of the plain parse -/
theorem parseAll_tokens_eq_plain (p : P) (g : Grammar) (root : Nat) (dw s : List Char) (l : Nat) (ts : List Tok)
    (h : parseString p g root dw s true = .ok l ts) : parseString p g root dw s false = .ok l ts := by
  unfold parseString at h ⊢
  cases hp : p root 0 true true with
  | ok l' ts' =>
    rw [hp] at h
    simp only [if_true, Bool.false_eq_true, if_false] at h ⊢
    cases hg : g[root]? with
    | none => rw [hg] at h; simp at h
    | some nd =>
      rw [hg] at h
      simp only at h
      cases hpre : preParse p nd s l' with
      | abort o =>
        rw [hpre] at h; simp only at h
        have := preParse_abort p nd s l' o hpre
        subst h; simp [Out.isOk] at this
      | «at» l1 =>
        rw [hpre] at h
        simp only at h
        cases hse : stringEndCheck dw s l1 with
        | ok e ts2 => rw [hse] at h; exact h
        | fail c l2 => rw [hse] at h; simp at h
        | idx => rw [hse] at h; simp at h
        | hang => rw [hse] at h; simp at h
  | fail c l' => rw [hp] at h; simp at h
  | idx => rw [hp] at h; simp at h
  | hang => rw [hp] at h; simp at h

/-- parse_all succeeds when, after the plain parse, only ignorables and whitespace remain before the end … -/
theorem parseAll_of_plain_and_end (p : P) (g : Grammar) (root : Nat) (dw s : List Char) (nd : Node)
    (hg : g[root]? = some nd) (l l1 e : Nat) (ts ts2 : List Tok)
    (h1 : parseString p g root dw s false = .ok l ts) (h2 : preParse p nd s l = .at l1)
    (h3 : stringEndCheck dw s l1 = .ok e ts2) : parseString p g root dw s true = .ok l ts := by
  unfold parseString at h1 ⊢
  cases hp : p root 0 true true with
  | ok l' ts' =>
    rw [hp] at h1
    simp at h1
    obtain ⟨rfl, rfl⟩ := h1
    simp [hg, h2, h3]
  | fail c l' => rw [hp] at h1; simp at h1
  | idx => rw [hp] at h1; simp at h1
  | hang => rw [hp] at h1; simp at h1

/-- … and otherwise raises the ParseException of the end-of-text test, at the first unconsumed location -/
theorem parseAll_fails_on_trailing_text (p : P) (g : Grammar) (root : Nat) (dw s : List Char) (nd : Node)
    (hg : g[root]? = some nd) (l l1 : Nat) (ts : List Tok) (c : Exc) (l2 : Nat)
    (h1 : parseString p g root dw s false = .ok l ts) (h2 : preParse p nd s l = .at l1)
    (h3 : stringEndCheck dw s l1 = .fail c l2) : parseString p g root dw s true = .fail c l2 := by
  unfold parseString at h1 ⊢
  cases hp : p root 0 true true with
  | ok l' ts' =>
    rw [hp] at h1
    simp at h1
    obtain ⟨rfl, rfl⟩ := h1
    simp [hg, h2, h3]
  | fail c l' => rw [hp] at h1; simp at h1
  | idx => rw [hp] at h1; simp at h1
  | hang => rw [hp] at h1; simp at h1

/-! ### non-vacuity -/
example : rejoin ['a', ',', 'b'] [⟨[], 1, 2⟩] 0 = ['a', ',', 'b'] := by decide
example : splitPieces ['a', ',', 'b'] [⟨[], 1, 2⟩] 0 = [['a'], ['b']] := by decide

end PP.Parse
