import PPProofs.Lemmas.Names
import PPProofs.Props.C01
/-!
# C05 — results names report exactly what the named element matched

Statement (properties.jsonl): *After a successful parse, looking a results name up — by key, attribute, get(), as_dict()
or dump() — yields what the element carrying that name matched in the final parse: the last match by default, the ordered
list of all matches when declared with list_all_matches / 'name*'; a single token for token elements and the token list
for sequence, group and repetition elements. Names declared inside a Group are visible only on that group's sub-result,
names outside groups surface at the enclosing level, and alternatives or optionals that took no part in the final match
contribute no name (other than an Opt default).*

The parse model (PPModel/Mod/Parse.lean) returns an annotated token tree.  `Names.resultOf` replays on it what the real
code does (`ParseResults.__init__` re-binding on the same object, `__iadd__` with offsets / `_all_names` union / early
return); `Names.specLookup`, `specKeys`, `specDictF` are the declarative reading (bindings of a name at one group level
in binding order; last-vs-all) — no offsets, no merging.

FULL STRENGTH, for ALL annotated token trees (every grammar, input, nesting depth):
  `C05_lookup_refines`, `C05_keys_refine`, `C05_items_refine`, `C05_get_refines`, `C05_getattr_refines`,
  `C05_lookup_forms_agree`, `C05_as_dict_refines`, `C05_view_refines`, `C05_concat_is_iadd`, `C05_iadd_chain`,
  `last_by_default`, `all_when_list_all`, `token_vs_list_value`, `group_names_stay_inside`, `group_name_is_subresult`.
About the parse model (all sub-expression behaviours `p`): `matchfirst_tokens_of_one_alternative`,
  `or_tokens_of_one_alternative`, `opt_nomatch_binds_nothing`, `opt_named_nomatch_binds_nothing`, `opt_default_named`.
Code fact worth a theorem: `replaced_tokens_first_only` (after a token-replacing parse action a list-valued name reports
  the FIRST token only — results.py:203 `ParseResults(toklist[0])`).

Hidden tokens (`Tok.hid`: FollowedBy's `del ret[:]`, the parts of a Combine) keep their names: `hidden_keeps_names`,
  `followedby_keeps_names`, `combine_keeps_names`, `combine_named_nests`, `hasKeys_is_haskeys`.

PARTIAL w.r.t. the statement: `dump()` is not modelled in Lean (checked on the real code against the same view); names
of Dict entries are not in the parse model (oracle on the real code only).  The tie between the
annotated tree and the real parser is the correspondence leg (harness/props/c05.py).
-/
namespace PP.Names
open PP.Parse PP.PR PP.PyDict

/-! ## the refinement: operational = declarative, one level -/

/-- **`r[name]`** on the object the real code builds = the declarative lookup, for every annotated tree and key -/
theorem C05_lookup_refines (ts : List Tok) (k : String) : getItem (resultOf ts) k = specLookup ts k := by
  unfold getItem
  rw [getName_abs _ (resultOf_inv ts), resultOf_abs]
  unfold Abs.lookup specLookup specAbs
  simp only
  by_cases h : k ∈ specKeys ts
  · simp only [h, if_true]
    cases hla : listAll k ts
    · simp only [Bool.false_eq_true, if_false]
      cases (occs k ts).getLast? <;> rfl
    · simp
  · simp [h]

/-- **`keys()`**: the names that got a value at this level, in order of first binding -/
theorem C05_keys_refine (ts : List Tok) : keys (resultOf ts) = specKeys ts :=
  congrArg Abs.order (resultOf_abs ts)

/-- **`as_list()` / iteration**: the items are the tokens with this level's annotations removed -/
theorem C05_items_refine (ts : List Tok) : (resultOf ts).toks = stripTopL ts :=
  congrArg Abs.toks (resultOf_abs ts)

theorem dhas_iff_keys (ts : List Tok) (k : String) : dhas (resultOf ts).dict k = decide (k ∈ specKeys ts) := by
  rw [← C05_keys_refine]; rfl

/-- **`r.get(name)`**: the lookup for a name that has a value, `None` otherwise -/
theorem C05_get_refines (ts : List Tok) (k : String) :
    get (resultOf ts) k = if k ∈ specKeys ts then outOfView (specLookup ts k) else .none := by
  unfold get
  simp only [step, dhas_iff_keys]
  by_cases h : k ∈ specKeys ts
  · simp only [h, decide_true, if_true]
    rw [← C05_lookup_refines]; rfl
  · simp [h]

theorem specLookup_ok_of_mem {ts : List Tok} {k : String} (h : k ∈ specKeys ts) : ∃ w, specLookup ts k = .ok w := by
  rw [← C05_lookup_refines]
  have := lookup_ok_of_mem (resultOf_inv ts) (n := k) (by rw [← C05_keys_refine] at h; exact h)
  obtain ⟨w, hw⟩ := this
  exact ⟨w, by unfold getItem; rw [getName_abs _ (resultOf_inv ts)]; exact hw⟩

theorem specLookup_err_of_not_mem {ts : List Tok} {k : String} (h : k ∉ specKeys ts) : specLookup ts k = .error .key := by
  unfold specLookup; simp [h]

/-- **`r.name`** (attribute access): the lookup for a name that has a value; `""` for any other ordinary name
    (`AttributeError` for dunder names) -/
theorem C05_getattr_refines (ts : List Tok) (k : String) :
    getAttr (resultOf ts) k =
      if k ∈ specKeys ts then outOfView (specLookup ts k)
      else if k.startsWith "__" then .err .attribute else .empty := by
  unfold getAttr
  simp only [step]
  have hg : getName (resultOf ts) k = specLookup ts k := C05_lookup_refines ts k
  rw [hg]
  by_cases h : k ∈ specKeys ts
  · obtain ⟨w, hw⟩ := specLookup_ok_of_mem h
    simp [h, hw, outOfView]
  · simp only [h, if_false, specLookup_err_of_not_mem h]
    split <;> rfl

/-- **the lookup forms agree**: for a name that has a value, `r[name]`, `r.get(name)` and `r.name` are the same thing -/
theorem C05_lookup_forms_agree (ts : List Tok) (k : String) (h : k ∈ keys (resultOf ts)) :
    get (resultOf ts) k = outOfView (getItem (resultOf ts) k) ∧
    getAttr (resultOf ts) k = outOfView (getItem (resultOf ts) k) := by
  rw [C05_keys_refine] at h
  rw [C05_get_refines, C05_getattr_refines, C05_lookup_refines]
  simp [h]

example : get (resultOf [.nm ['x'] true false [.s ['a']], .s ['b']]) "x" = .view (.one (.s ['a'])) ∧
    getAttr (resultOf [.nm ['x'] true false [.s ['a']], .s ['b']]) "y" = .empty := by
  constructor <;> rfl

/-! ## the refinement, recursively: `as_dict()` and the canonical nested view -/

theorem toItem_refines : ∀ (f : Nat) (t : Tok), toItemF f t = specItemF f t := by
  intro f
  induction f with
  | zero => intro t; cases t <;> rfl
  | succ f ih =>
    intro t
    cases t with
    | s v => rfl
    | n v => rfl
    | nm a b c d => rfl
    | hid ts => rfl
    | g ts =>
      simp only [toItemF, specItemF, C05_keys_refine, C05_items_refine, C05_lookup_refines, specItems]
      have hk : (resultOf ts).dict.isEmpty = (specKeys ts).isEmpty := by
        rw [← C05_keys_refine]; simp [keys, dkeys]
      rw [hk]
      have hf : toItemF f = specItemF f := funext ih
      rw [hf]

/-- **`as_dict()`**, recursively through groups and nested results = the dictionary read off the tree -/
theorem C05_as_dict_refines (f : Nat) (ts : List Tok) : asDictF f ts = specDictF f ts := by
  unfold asDictF specDictF
  have hf : toItemF f = specItemF f := funext (toItem_refines f)
  simp only [C05_keys_refine, C05_lookup_refines, hf]

theorem viewItem_refines : ∀ (f : Nat) (t : Tok), viewItemF f t = specViewF f t := by
  intro f
  induction f with
  | zero => intro t; cases t <;> rfl
  | succ f ih =>
    intro t
    cases t with
    | s v => rfl
    | n v => rfl
    | nm a b c d => rfl
    | hid ts => rfl
    | g ts =>
      have hf : viewItemF f = specViewF f := funext ih
      simp only [viewItemF, specViewF, C05_keys_refine, C05_items_refine, C05_lookup_refines, specItems, hf]

/-- **the canonical nested view** the harness compares with the real object = the view read off the tree -/
theorem C05_view_refines (f : Nat) (ts : List Tok) : viewItemF f (.g ts) = specViewF f (.g ts) := viewItem_refines f _

example : asDictF 5 [.nm ['x'] true true [.s ['a'], .g [.nm ['y'] false false [.s ['b']]]], .nm ['x'] true false [.s ['c']]]
    = [("x", .s ['c'])] := by rfl

example : asDictF 5 [.nm ['r'] true false [.g [.nm ['y'] false false [.s ['b']], .s ['c']]]]
    = [("r", .dict [("y", .list [.s ['b']])])] := by rfl

/-! ## list concatenation in the model = the real `+=` chain -/

/-- the model's `acc ++ ts` (And / repetition) continues the `+=` chain of the real code — exactly -/
theorem C05_iadd_chain (a b : List Tok) : resultOf (a ++ b) = resGo (resultOf a) b := by
  unfold resultOf
  generalize emptyPR = acc
  induction a generalizing acc with
  | nil => rfl
  | cons t a ih => simp only [List.cons_append, resGo]; exact ih _

/-- … and that chain is ONE `+=` of the two results, as far as any lookup can tell (`abs` forgets only offsets and the
    occurrence records, which no lookup reads: `getName_abs`, `viewsOf_abs`) -/
theorem C05_concat_is_iadd (a b : List Tok) :
    abs (resultOf (a ++ b)) = abs (iadd (resultOf a) (resultOf b)) := by
  rw [abs_iadd _ _ (resultOf_inv b), resultOf_abs, resultOf_abs, resultOf_abs, specAbs_append]

theorem C05_concat_lookup (a b : List Tok) (k : String) :
    getItem (resultOf (a ++ b)) k = getItem (iadd (resultOf a) (resultOf b)) k := by
  unfold getItem
  rw [getName_abs _ (resultOf_inv _), getName_abs _ (prinv_iadd (resultOf_inv a)), C05_concat_is_iadd]

example : getItem (resultOf ([.nm ['x'] true false [.s ['a']]] ++ [.nm ['x'] false false [.s ['b']]])) "x"
    = .ok (.many [.s ['a'], .s ['b']]) := by rfl

/-! ## the clauses of the statement -/

theorem occs_ne_nil_of_mem_keys {ts : List Tok} {k : String} (h : k ∈ specKeys ts) : occs k ts ≠ [] := by
  unfold specKeys at h
  rw [mem_dedup] at h
  unfold boundNames at h
  rw [List.mem_filterMap] at h
  obtain ⟨b, hb, hbk⟩ := h
  by_cases hc : (b.name != "" && b.value.isSome) = true
  · rw [if_pos hc] at hbk
    have hbk' : b.name = k := by simpa using hbk
    rw [Bool.and_eq_true] at hc
    obtain ⟨hc1, hc2⟩ := hc
    obtain ⟨v, hv⟩ := Option.isSome_iff_exists.mp hc2
    have hbis : b.is k = true := by
      unfold Bind.is
      rw [Bool.and_eq_true]
      exact ⟨by rw [hbk']; exact beq_self_eq_true k, hc1⟩
    intro hn
    have hmem : v ∈ occs k ts := by
      unfold occs
      rw [List.mem_filterMap]
      exact ⟨b, hb, by rw [if_pos hbis]; exact hv⟩
    rw [hn] at hmem
    exact absurd hmem (List.not_mem_nil)
  · rw [if_neg hc] at hbk
    exact absurd hbk (by simp)

/-- **last match by default**: when every element carrying the name is an ordinary (modal) one, the lookup is the value
    of the LAST binding -/
theorem last_by_default (ts : List Tok) (k : String) (hk : k ∈ keys (resultOf ts))
    (hmodal : ∀ b ∈ bindsL ts, b.is k = true → b.modal = true) :
    ∃ v, (occs k ts).getLast? = some v ∧ getItem (resultOf ts) k = .ok (.one v) := by
  rw [C05_keys_refine] at hk
  have hla : listAll k ts = false := by
    unfold listAll
    rw [List.any_eq_false]
    intro b hb
    by_cases hi : b.is k = true
    · simp [hi, hmodal b hb hi]
    · simp [hi]
  have hne := occs_ne_nil_of_mem_keys hk
  cases hl : (occs k ts).getLast? with
  | none => exact absurd (List.getLast?_eq_none_iff.mp hl) hne
  | some v =>
    refine ⟨v, rfl, ?_⟩
    rw [C05_lookup_refines]
    unfold specLookup
    simp [hk, hla, hl]

/-- **all matches, in order, for a list-all name**: as soon as one element carrying the name was declared `name*` /
    list_all_matches, the lookup is the list of the values of ALL bindings of that name at this level, in binding order -/
theorem all_when_list_all (ts : List Tok) (k : String) (hk : k ∈ keys (resultOf ts))
    (hstar : ∃ b ∈ bindsL ts, b.is k = true ∧ b.modal = false) :
    getItem (resultOf ts) k = .ok (.many (occs k ts)) := by
  rw [C05_keys_refine] at hk
  have hla : listAll k ts = true := by
    unfold listAll
    rw [List.any_eq_true]
    obtain ⟨b, hb, hi, hm⟩ := hstar
    exact ⟨b, hb, by simp [hi, hm]⟩
  rw [C05_lookup_refines]
  unfold specLookup
  simp [hk, hla]

example : getItem (resultOf [.nm ['x'] true false [.s ['a']], .nm ['x'] true false [.s ['b']]]) "x" = .ok (.one (.s ['b'])) ∧
    getItem (resultOf [.nm ['x'] false false [.s ['a']], .nm ['x'] true false [.s ['b']]]) "x"
      = .ok (.many [.s ['a'], .s ['b']]) := by constructor <;> rfl

/-- **a single token for token elements, the token list for list-valued elements**: a name bound once (no binding of the
    same name inside) reports the first item of what its element matched, resp. the whole flattened item list as a nested
    result that carries none of this level's names (nested groups keep theirs) -/
theorem token_vs_list_value (n : List Char) (m al : Bool) (ts : List Tok) (hn : key n ≠ "")
    (hin : ∀ b ∈ bindsL ts, b.is (key n) = false) :
    occs (key n) [.nm n m al ts] =
      (if al then [Tok.g (stripTopL ts)] else (stripTopL ts).head?.toList) := by
  have hb : bindsL [.nm n m al ts] = bindsL ts ++ [⟨key n, m, al, ts⟩] := by simp [bindsL, bindsT]
  have h0 : List.filterMap (fun b => if b.is (key n) then b.value else none) (bindsL ts) = [] := by
    rw [List.filterMap_eq_nil_iff]
    intro b hb'
    simp [hin b hb']
  unfold occs
  rw [hb, List.filterMap_append, h0]
  cases al
  · cases hs : stripTopL ts <;> simp [Bind.is, Bind.value, hn, hs]
  · simp [Bind.is, Bind.value, hn]

example : getItem (resultOf [.nm ['x'] true true [.s ['a'], .nm ['y'] true false [.s ['b']]]]) "x"
    = .ok (.one (.g [.s ['a'], .s ['b']])) := by rfl

/-- **names declared inside a Group are visible only on that group's sub-result**: at the enclosing level a group is one
    item; no key of the enclosing level comes from inside it, and every lookup is what it would be without the group -/
theorem group_names_stay_inside (a b inner : List Tok) (k : String) :
    keys (resultOf (a ++ [.g inner] ++ b)) = keys (resultOf (a ++ b)) ∧
    getItem (resultOf (a ++ [.g inner] ++ b)) k = getItem (resultOf (a ++ b)) k := by
  have hb : bindsL (a ++ [.g inner] ++ b) = bindsL (a ++ b) := by simp [bindsL_append, bindsL, bindsT]
  have hk : specKeys (a ++ [.g inner] ++ b) = specKeys (a ++ b) := by unfold specKeys boundNames; rw [hb]
  refine ⟨by rw [C05_keys_refine, C05_keys_refine, hk], ?_⟩
  rw [C05_lookup_refines, C05_lookup_refines]
  unfold specLookup occs listAll
  rw [hk, hb]

/-- **the name of a Group yields the sub-result itself**, which carries exactly the names bound inside
    (`bindPlain` is the model of `ParseResults([sub], name, asList=True)`: `ParseResults(toklist[0])` is `sub`) -/
theorem group_name_is_subresult (n : List Char) (al : Bool) (inner : List Tok) (hn : key n ≠ "") :
    getItem (resultOf (bindPlain n true al [.g inner])) (key n) = .ok (.one (.g inner)) ∧
    keys (resultOf inner) = specKeys inner ∧
    keys (resultOf (bindPlain n true al [.g inner])) = [key n] := by
  have hbp : bindPlain n true al [.g inner] = [.nm n true false [.g inner]] := by
    cases al <;> simp [bindPlain, Tok.isGroup]
  have hb : bindsL [.nm n true false [.g inner]] = [⟨key n, true, false, [.g inner]⟩] := by simp [bindsL, bindsT]
  have hkeys : specKeys [.nm n true false [.g inner]] = [key n] := by
    simp [specKeys, boundNames, hb, Bind.value, stripTopL, Tok.stripTop, hn, dedup]
  refine ⟨?_, C05_keys_refine inner, by rw [hbp, C05_keys_refine, hkeys]⟩
  rw [hbp, C05_lookup_refines]
  unfold specLookup
  simp [hkeys, listAll, occs, hb, Bind.is, Bind.value, stripTopL, Tok.stripTop, hn]

example : keys (resultOf [.s ['k'], .g [.nm ['y'] true false [.s ['b']]]]) = [] ∧
    keys (resultOf [.g [.nm ['y'] true false [.s ['b']]]]) = [] ∧
    getItem (resultOf (bindPlain ['r'] true true [.g [.nm ['y'] true false [.s ['b']]]])) "r"
      = .ok (.one (.g [.nm ['y'] true false [.s ['b']]])) := by
  refine ⟨?_, ?_, ?_⟩ <;> rfl

/-! ## hidden tokens keep their names: FollowedBy and Combine -/

/-- a hidden part (`del ret[:]`) contributes nothing to the list view and, to every lookup, exactly what its tokens
    would contribute if they were still there -/
theorem hidden_keeps_names (ts rest : List Tok) (k : String) :
    flatL (.hid ts :: rest) = flatL rest ∧
    keys (resultOf (.hid ts :: rest)) = keys (resultOf (ts ++ rest)) ∧
    getItem (resultOf (.hid ts :: rest)) k = getItem (resultOf (ts ++ rest)) k := by
  have hb : bindsL (.hid ts :: rest) = bindsL (ts ++ rest) := by simp [bindsL, bindsT, bindsL_append]
  have hk : specKeys (.hid ts :: rest) = specKeys (ts ++ rest) := by unfold specKeys boundNames; rw [hb]
  refine ⟨by simp [flatL, Tok.flat], by rw [C05_keys_refine, C05_keys_refine, hk], ?_⟩
  rw [C05_lookup_refines, C05_lookup_refines]
  unfold specLookup occs listAll
  rw [hk, hb]

/-- **FollowedBy**: no tokens, but every name bound by the lookahead is reported as if the lookahead's tokens were there -/
theorem followedby_keeps_names (ts : List Tok) (k : String) :
    flatL [Tok.hid ts] = [] ∧ getItem (resultOf [.hid ts]) k = getItem (resultOf ts) k := by
  have h := hidden_keeps_names ts [] k
  simp only [List.append_nil] at h
  exact ⟨by simp [flatL, Tok.flat], h.2.2⟩

mutual
theorem hasKeysT_spec : (t : Tok) → hasKeysT t = !(boundNames [t]).isEmpty
  | .s v => by simp [hasKeysT, boundNames, bindsL, bindsT]
  | .n v => by simp [hasKeysT, boundNames, bindsL, bindsT]
  | .g ts => by simp [hasKeysT, boundNames, bindsL, bindsT]
  | .hid ts => by
    have := hasKeysL_spec ts
    simp only [hasKeysT, this, boundNames, bindsL, bindsT, List.append_nil]
  | .nm n m al ts => by
    have := hasKeysL_spec ts
    have hb : bindsL [.nm n m al ts] = bindsL ts ++ [⟨key n, m, al, ts⟩] := by simp [bindsL, bindsT]
    have hkn : (key n != "") = !n.isEmpty := by
      cases n with
      | nil => rfl
      | cons c cs =>
        have : key (c :: cs) ≠ "" := by
          intro h
          have := congrArg String.toList h
          simp [key] at this
        simp [this]
    simp only [hasKeysT, this, boundNames, hb, List.filterMap_append, List.filterMap_cons, List.filterMap_nil, hkn, Bind.value]
    cases al <;> cases hs : (stripTopL ts) <;> cases n <;> simp
theorem hasKeysL_spec : (ts : List Tok) → hasKeysL ts = !(boundNames ts).isEmpty
  | [] => by simp [hasKeysL, boundNames, bindsL]
  | t :: ts => by
    have h1 := hasKeysT_spec t
    have h2 := hasKeysL_spec ts
    have : boundNames (t :: ts) = boundNames [t] ++ boundNames ts := by
      rw [← boundNames_append]; rfl
    rw [hasKeysL, h1, h2, this]
    cases boundNames [t] <;> simp
end

/-- the parse model's `hasKeysL` (used by Combine.postParse: `retToks.haskeys()`) is `haskeys()` of the real object -/
theorem hasKeys_is_haskeys (ts : List Tok) : hasKeysL ts = !(keys (resultOf ts)).isEmpty := by
  rw [hasKeysL_spec, C05_keys_refine, specKeys]
  cases h : boundNames ts with
  | nil => simp [dedup]
  | cons x xs => simp [dedup]

/-- **Combine** keeps the names of its parts on the joined token: the list view is the one joined string; every name
    bound inside is reported exactly as without the Combine (positions collapse, which no lookup reads).  When the
    Combine itself is named and has keys the same result is returned as ONE nested item (`[retToks]`). -/
theorem combine_keeps_names (nd : Node) (j : List Char) (ts : List Tok) (k : String)
    (hflat : (nd.hasName && hasKeysL ts) = false) :
    flatL (combineKeep nd j ts) = [.s (combineStr j (stripTopL ts))] ∧
    keys (resultOf (combineKeep nd j ts)) = keys (resultOf ts) ∧
    getItem (resultOf (combineKeep nd j ts)) k = getItem (resultOf ts) k := by
  have hc : combineKeep nd j ts = [.hid ts, .s (combineStr j (stripTopL ts))] := by simp [combineKeep, hflat]
  have hb : bindsL [.hid ts, .s (combineStr j (stripTopL ts))] = bindsL ts := by simp [bindsL, bindsT]
  have hk : specKeys [.hid ts, .s (combineStr j (stripTopL ts))] = specKeys ts := by unfold specKeys boundNames; rw [hb]
  rw [hc]
  refine ⟨by simp [flatL, Tok.flat], by rw [C05_keys_refine, C05_keys_refine, hk], ?_⟩
  rw [C05_lookup_refines, C05_lookup_refines]
  unfold specLookup occs listAll
  rw [hk, hb]

theorem combine_named_nests (nd : Node) (j : List Char) (ts : List Tok)
    (hn : (nd.hasName && hasKeysL ts) = true) :
    combineKeep nd j ts = [.g [.hid ts, .s (combineStr j (stripTopL ts))]] := by simp [combineKeep, hn]

example : getItem (resultOf ([.hid [.nm ['s'] false false [.s ['a']], .nm ['s'] false false [.s ['b']]], .s ['a', 'b']]
      ++ [.hid [.nm ['s'] false false [.s ['c']]], .s ['c']])) "s" = .ok (.many [.s ['a'], .s ['b'], .s ['c']]) ∧
    flatL ([.hid [.nm ['s'] false false [.s ['a']], .nm ['s'] false false [.s ['b']]], .s ['a', 'b']]
      ++ [.hid [.nm ['s'] false false [.s ['c']]], .s ['c']]) = [.s ['a', 'b'], .s ['c']] := by
  constructor <;> rfl

/-! ## alternatives and optionals that took no part contribute nothing -/

/-- **`|`**: the tokens (with their annotations) of a successful MatchFirst are the tokens of ONE alternative's own
    parse at that location — nothing of the alternatives tried before it survives -/
theorem matchfirst_tokens_of_one_alternative (p : P) (acts : Bool) (slen loc : Nat) :
    ∀ (es : List Nat) (mx : Option Nat) (l : Nat) (ts : List Tok),
      mfGo p acts slen loc es mx = .ok l ts → ∃ e ∈ es, p e loc acts true = .ok l ts := by
  intro es
  induction es with
  | nil => intro mx l ts h; cases mx <;> simp [mfGo] at h
  | cons e es ih =>
    intro mx l ts h
    unfold mfGo at h
    cases hp : p e loc acts true with
    | ok l' ts' =>
      rw [hp] at h; simp only [Out.ok.injEq] at h
      exact ⟨e, by simp, by rw [hp, h.1, h.2]⟩
    | fail c l' =>
      rw [hp] at h
      cases c with
      | parse => obtain ⟨e', he', hpe⟩ := ih _ _ _ h; exact ⟨e', by simp [he'], hpe⟩
      | fatal => simp at h
      | «syntax» => simp at h
    | idx => rw [hp] at h; obtain ⟨e', he', hpe⟩ := ih _ _ _ h; exact ⟨e', by simp [he'], hpe⟩
    | hang => rw [hp] at h; simp at h

theorem mem_insDesc {x y : Nat × Nat} {ys : List (Nat × Nat)} : y ∈ insDesc x ys ↔ y = x ∨ y ∈ ys := by
  induction ys with
  | nil => simp [insDesc]
  | cons z zs ih =>
    unfold insDesc
    split
    · simp only [List.mem_cons, ih]; constructor
      · rintro (h | h | h) <;> simp [h]
      · rintro (h | h | h) <;> simp [h]
    · simp

theorem mem_sortDesc {y : Nat × Nat} {cs : List (Nat × Nat)} : y ∈ sortDesc cs ↔ y ∈ cs := by
  induction cs with
  | nil => simp [sortDesc]
  | cons x xs ih => simp [sortDesc, mem_insDesc, ih]

theorem of_ite_eq {α : Type} {c : Prop} [Decidable c] {a b x : α} (h : (if c then a else b) = x) : a = x ∨ b = x := by
  by_cases hc : c
  · rw [if_pos hc] at h; exact Or.inl h
  · rw [if_neg hc] at h; exact Or.inr h

theorem orPass2_ok (p : P) (loc : Nat) (S : Nat → Prop) :
    ∀ (cs : List (Nat × Nat)) (longest : Option (Nat × List Tok)) (mx : Option Nat),
      (∀ c ∈ cs, S c.2) →
      (∀ ll lt, longest = some (ll, lt) → ∃ e, S e ∧ p e loc true true = .ok ll lt) →
      (∀ l ts, orPass2 p loc cs longest mx = .inl (.ok l ts) → ∃ e, S e ∧ p e loc true true = .ok l ts) ∧
      (∀ ll lt mx', orPass2 p loc cs longest mx = .inr (some (ll, lt), mx') → ∃ e, S e ∧ p e loc true true = .ok ll lt) := by
  intro cs
  induction cs with
  | nil =>
    intro longest mx _ hl
    constructor
    · intro l ts h; simp [orPass2] at h
    · intro ll lt mx' h
      simp only [orPass2, Sum.inr.injEq, Prod.mk.injEq] at h
      exact hl ll lt h.1
  | cons c cs ih =>
    intro longest mx hS hl
    obtain ⟨loc1, e⟩ := c
    have hSe : S e := hS (loc1, e) (by simp)
    have hS' : ∀ c ∈ cs, S c.2 := fun c hc => hS c (by simp [hc])
    -- the step function, once
    have step : (∀ l ts, orPass2.orStep p loc loc1 e cs longest mx = .inl (.ok l ts) → ∃ e, S e ∧ p e loc true true = .ok l ts) ∧
        (∀ ll lt mx', orPass2.orStep p loc loc1 e cs longest mx = .inr (some (ll, lt), mx') →
          ∃ e, S e ∧ p e loc true true = .ok ll lt) := by
      unfold orPass2.orStep
      cases hp : p e loc true true with
      | ok l2 ts2 =>
        simp only
        by_cases hge : l2 ≥ loc1
        · rw [if_pos hge]
          constructor
          · intro l ts h; simp only [Sum.inl.injEq, Out.ok.injEq] at h; exact ⟨e, hSe, by rw [← h.1, ← h.2]; exact hp⟩
          · intro ll lt mx' h; simp at h
        · rw [if_neg hge]
          apply ih _ _ hS'
          intro ll lt hlong
          rcases of_ite_eq hlong with hh | hh
          · simp only [Option.some.injEq, Prod.mk.injEq] at hh
            exact ⟨e, hSe, by rw [← hh.1, ← hh.2]; exact hp⟩
          · exact hl ll lt hh
      | fail c' l' =>
        cases c' with
        | parse => simp only; exact ih _ _ hS' hl
        | fatal => simp
        | «syntax» => simp
      | idx => simp
      | hang => simp
    unfold orPass2
    cases longest with
    | none => exact step
    | some ll =>
      obtain ⟨ll, lt⟩ := ll
      simp only
      by_cases hle : loc1 ≤ ll
      · rw [if_pos hle]
        constructor
        · intro l ts h; simp only [Sum.inl.injEq, Out.ok.injEq] at h
          obtain ⟨e', hs', hp'⟩ := hl ll lt rfl
          exact ⟨e', hs', by rw [hp', h.1, h.2]⟩
        · intro a b c h; simp at h
      · rw [if_neg hle]; exact step

/-- **`^`**: with parse actions on (`parse_string`), the tokens of a successful Or are the tokens of ONE alternative's own
    parse at that location (the trial pass and the alternatives that lost leave nothing behind) -/
theorem or_tokens_of_one_alternative (p : P) (nameLen : Nat → Nat) (slen : Nat) (es : List Nat) (loc l : Nat)
    (ts : List Tok) (h : orAt p nameLen slen true es loc = .ok l ts) : ∃ e ∈ es, p e loc true true = .ok l ts := by
  unfold orAt at h
  cases h1 : orPass1 p nameLen slen loc es {} with
  | none => rw [h1] at h; simp at h
  | some a =>
    rw [h1] at h
    simp only at h
    have hc := orPass1_cands p nameLen slen loc es {} a h1
    have hmem : ∀ c ∈ sortDesc a.cands, c.2 ∈ es := by
      intro c hcm
      rw [mem_sortDesc, hc] at hcm
      simp only [List.nil_append, List.mem_filterMap] at hcm
      obtain ⟨e, he, hx⟩ := hcm
      split at hx
      · simp only [Option.some.injEq] at hx; rw [← hx]; exact he
      · simp at hx
    split at h
    · unfold orAfter at h
      split at h
      · simp at h
      · split at h <;> simp at h
    · simp only [Bool.not_true, Bool.false_eq_true, if_false] at h
      have key := orPass2_ok p loc (fun e => e ∈ es) (sortDesc a.cands) none a.mx hmem (by intro _ _ h; simp at h)
      cases h2 : orPass2 p loc (sortDesc a.cands) none a.mx with
      | inl o =>
        rw [h2] at h; simp only at h; subst h
        exact key.1 l ts h2
      | inr r =>
        obtain ⟨lg, mx'⟩ := r
        rw [h2] at h
        cases lg with
        | none =>
          simp only at h
          unfold orAfter at h
          split at h
          · simp at h
          · split at h <;> simp at h
        | some v =>
          obtain ⟨ll, lt⟩ := v
          simp only [Out.ok.injEq] at h
          obtain ⟨e, he, hp⟩ := key.2 ll lt mx' h2
          exact ⟨e, he, by rw [hp, h.1, h.2]⟩

/-- **an optional that did not match contributes no name** (no default): whatever the Opt node looks like, the tokens of
    its no-match branch bind nothing and make no name list-all -/
theorem opt_nomatch_binds_nothing (g : Grammar) (nd : Node) (e : Nat) (k : String) :
    keys (resultOf (optNoMatch nd (optDefault g e none))) = [] ∧
    listAll k (optNoMatch nd (optDefault g e none)) = false ∧
    flatL (optNoMatch nd (optDefault g e none)) = [] := by
  have h : optNoMatch nd (optDefault g e none) = [] ∨ optNoMatch nd (optDefault g e none) = [plainNil] := by
    unfold optNoMatch optDefault
    split
    · exact Or.inr rfl
    · rename_i ts acts hno
      exact Or.inl rfl
  rcases h with h | h <;> rw [h, C05_keys_refine] <;> refine ⟨?_, ?_, ?_⟩ <;>
    simp [specKeys, boundNames, listAll, bindsL, bindsT, plainNil, Bind.is, key, Bind.value, stripTopL, dedup, flatL, Tok.flat]

/-- … and when the Opt itself carries a (list-valued) name, the binding made on that plain `[]` binds nothing either
    (results.py:193 — a null value), it only records a `name*` flag -/
theorem opt_named_nomatch_binds_nothing (n : List Char) (m al : Bool) :
    keys (resultOf (nameBind n m al [plainNil])) = [] ∧ keys (resultOf (nameBind n m false [])) = [] := by
  have h1 : nameBind n m al [plainNil] = [.nm n m false []] := by simp [nameBind, plainNil]
  have h2 : nameBind n m false [] = [.nm n m false []] := by simp [nameBind]
  rw [h1, h2, C05_keys_refine]
  simp [specKeys, boundNames, bindsL, bindsT, Bind.value, stripTopL, dedup]

/-- **an Opt default** is reported under the name of the optional expression -/
theorem opt_default_named (g : Grammar) (e : Nat) (v nm : List Char) (m al : Bool) (nd : Node) (rest : List Act)
    (hg : g[e]? = some nd) (ha : nd.acts = .name nm m al :: rest ∨ nd.acts = .nameL nm m al :: rest) (hn : key nm ≠ "") :
    getItem (resultOf (optDefault g e (some v))) (key nm) = .ok (.one (.s v)) ∧
    flatL (optDefault g e (some v)) = [.s v] := by
  have hd : optDefault g e (some v) = [.nm nm true false [.s v]] := by
    unfold optDefault
    rcases ha with ha | ha <;> simp [hg, ha]
  rw [hd, C05_lookup_refines]
  constructor
  · unfold specLookup
    simp [specKeys, boundNames, listAll, occs, bindsL, bindsT, Bind.is, Bind.value, stripTopL, Tok.stripTop, hn, dedup]
  · simp [flatL, Tok.flat]

example : ∃ (g : Grammar), getItem (resultOf (optDefault g 0 (some ['D']))) "x" = .ok (.one (.s ['D'])) :=
  ⟨[{ kind := .lit1 'a', skipWs := true, white := [' '], callPre := true, mayIdx := true, ignore := [],
      acts := [.nameL ['x'] true false], callDuringTry := false, nameLen := 3, hasName := true }], by rfl⟩

/-! ## what a token-replacing parse action does to a list-valued name (a fact of the code, results.py:203) -/

/-- after a parse action has replaced the tokens by a plain list `t :: rest`, a list-valued name (`asList`) is bound to
    `ParseResults(toklist[0])`: the FIRST element only (itself when it is a nested result) — the rest of the returned
    list is in the items but not under the name -/
theorem replaced_tokens_first_only (n : List Char) (t : Tok) (rest : List Tok) (hn : key n ≠ "")
    (ht : Tok.stripTop t = [t]) (hb : bindsT t = []) (hrest : bindsL rest = []) :
    getItem (resultOf (bindPlain n true true (t :: rest))) (key n)
      = .ok (.one (if t.isGroup then t else .g [t])) := by
  cases hg : t.isGroup
  · have hbp : bindPlain n true true (t :: rest) = .nm n true true [t] :: rest := by simp [bindPlain, hg]
    have hbs : bindsL (.nm n true true [t] :: rest) = [⟨key n, true, true, [t]⟩] := by
      simp [bindsL, bindsT, hb, hrest]
    rw [hbp, C05_lookup_refines]
    unfold specLookup
    simp [specKeys, boundNames, listAll, occs, hbs, Bind.is, Bind.value, stripTopL, ht, hn, dedup]
  · have hbp : bindPlain n true true (t :: rest) = .nm n true false [t] :: rest := by simp [bindPlain, hg]
    have hbs : bindsL (.nm n true false [t] :: rest) = [⟨key n, true, false, [t]⟩] := by
      simp [bindsL, bindsT, hb, hrest]
    rw [hbp, C05_lookup_refines]
    unfold specLookup
    simp [specKeys, boundNames, listAll, occs, hbs, Bind.is, Bind.value, stripTopL, ht, hn, dedup]

example : getItem (resultOf (bindPlain ['x'] true true [.s ['b'], .s ['a']])) "x" = .ok (.one (.g [.s ['b']])) := by
  rfl

end PP.Names
