import PPProofs.Lemmas.InfixLevels
/-!
# C16 — `infix_notation` honours precedence, associativity and arity

Model: `PPModel/Mod/Infix.lean` — `infixGrammar t` is the node table `infix_notation(base, op_list, lpar, rpar)`
builds (post-streamline; compared node for node with the live object on every run), `parseX` is the shared parse
model extended by the captive `_FB` lookahead class, `render`/`nest` are the spelling of an expression tree (arbitrary
blanks before every token) and the documented nesting of the result.

FULL STATEMENT (properties.jsonl): for every operator table (unary/binary/ternary, left/right, any number of levels,
any lpar/rpar) and every expression string the nested result groups operands as precedence and associativity dictate.

PROVED HERE (`infix_roundtrip_partial`), for ALL tables in `ClassT` with ANY number of levels and ALL trees of ALL
sizes in the table's normal form (`WF`): `parse_string(render t e ++ blanks, parse_all=True)` on `infixGrammar t`
returns exactly `[nest t e]`.  `ClassT`: operand `Word(cs)`, suppressed parentheses, every level a RIGHT-associative
binary operator or a prefix operator, spellings non-empty, not starting with a blank/operand character, pairwise
prefix-incomparable.  Tighter levels nest inside looser ones, right-associative chains nest to the right, prefix
operators stack, parentheses override both, blanks are irrelevant.

LEFT-associative binary levels (the flat group `[a op b op c]`) are added by `infix_roundtrip_left_partial`
(PPProofs/Props/C16Left.lean), which contains this statement as an instance.

MISSING there too (oracle/correspondence only): postfix and ternary
levels, kept (non-Suppress) parentheses, level parse actions, overlapping spellings, ill-formed strings, packrat
(the packrat leg is C02's `packrat_transparent` for the shared model; `_FB` is outside that theorem).
-/
namespace PP.Infix
open PP.Parse

theorem lvl_le_of_WF {t : Table} {cs : List Char} : ∀ e, WF t cs e → e.lvl ≤ t.levels.length := by
  intro e
  cases e with
  | atom ws w => intro _; simp [Ex.lvl]
  | paren wl e wr => intro _; simp [Ex.lvl]
  | pre k wo e =>
    intro h
    obtain ⟨lv, hk, hlv, _⟩ := h
    have := (List.getElem?_eq_some_iff.mp hlv).1
    simp only [Ex.lvl]; omega
  | post k e wo => intro h; exact absurd h id
  | bin k a wo b =>
    intro h
    obtain ⟨lv, hk, hlv, _⟩ := h
    have := (List.getElem?_eq_some_iff.mp hlv).1
    simp only [Ex.lvl]; omega
  | tern k a w1 b w2 c => intro h; exact absurd h id

section main
variable {t : Table} {cs : List Char} {re : Bool} (hT : ClassT t cs re) (s : List Char)
include hT

/-- a tree parsed at its own level is parsed, unchanged, at every looser level -/
theorem lift_all {e : Ex} (hwf : WF t cs e) (h0 : Goal t cs s e e.lvl) :
    ∀ d, e.lvl + d ≤ t.levels.length → Goal t cs s e (e.lvl + d) := by
  intro d
  induction d with
  | zero => intro _; exact h0
  | succ d ih =>
    intro hd
    have hlt : e.lvl + (d + 1) - 1 < t.levels.length := by omega
    have hlv : t.levels[e.lvl + (d + 1) - 1]? = some t.levels[e.lvl + (d + 1) - 1] := List.getElem?_eq_getElem hlt
    have := goal_lift hT s (K := e.lvl + (d + 1)) (by omega) hlv hwf (by omega)
      (by have := ih (by omega); simpa [Nat.add_sub_cancel] using this)
    exact this

/-- every level `k ≥ lvl e` parses the spelling of `e` to `nest e` -/
theorem goal_all : ∀ e, WF t cs e → ∀ d, e.lvl + d ≤ t.levels.length → Goal t cs s e (e.lvl + d) := by
  intro e
  induction e with
  | atom ws w => intro hwf; exact lift_all hT s hwf (goal_atom hT s hwf)
  | paren wl e wr ih =>
    intro hwf
    apply lift_all hT s hwf
    have hle := lvl_le_of_WF e hwf.2.2
    have := ih hwf.2.2 (t.levels.length - e.lvl) (by omega)
    exact goal_paren hT s hwf (by simpa [Nat.add_sub_cancel' hle] using this)
  | pre k wo e ih =>
    intro hwf
    apply lift_all hT s hwf
    obtain ⟨lv, hk, hlv, _, _, _, hwe, hle⟩ := id hwf
    have hkn := (List.getElem?_eq_some_iff.mp hlv).1
    have := ih hwe (k - e.lvl) (by omega)
    exact goal_pre hT s hwf (by simpa [Nat.add_sub_cancel' hle] using this)
  | post k e wo ih => intro h; exact absurd h id
  | bin k a wo b iha ihb =>
    intro hwf
    apply lift_all hT s hwf
    obtain ⟨lv, hk, hlv, _, _, _, hwa, hwb, hla, hlb⟩ := id hwf
    have hkn := (List.getElem?_eq_some_iff.mp hlv).1
    have ha := iha hwa (k - 1 - a.lvl) (by omega)
    have hb := ihb hwb (k - b.lvl) (by omega)
    exact goal_binR hT s hwf (by simpa [show a.lvl + (k - 1 - a.lvl) = k - 1 by omega] using ha)
      (by simpa [Nat.add_sub_cancel' hlb] using hb)
  | tern k a w1 b w2 c iha ihb ihc => intro h; exact absurd h id

end main

/-- **infix_roundtrip (partial: right-associative binary + prefix levels, any number of them).**
    For every table in class T and every tree in its normal form, of any size, written with any blanks before its
    tokens and any trailing blanks: `parse_string(.., parse_all=True)` of the model parser on `infixGrammar t` returns
    exactly the documented nesting `[nest t e]` — for every fuel from some point on (so the outcome is not an artefact
    of the fuel). -/
theorem infix_roundtrip_partial {t : Table} {cs : List Char} {re : Bool} (hT : ClassT t cs re)
    (e : Ex) (hwf : WF t cs e) (trail : List Char) (htr : White t.white trail) :
    ∃ F, ∀ f, F ≤ f →
      parseString (parseX (fbIds t) (infixGrammar t) (render t e ++ trail) f) (infixGrammar t) rootId t.white
        (render t e ++ trail) true = .ok (render t e).length [nest t e] := by
  let s := render t e ++ trail
  have hs0 : s.drop 0 = lead e ++ (renderB t e ++ trail) := by simp [s, render_eq, List.append_assoc]
  have h1 := drop_add hs0
  have hq0 : skipWhite t.white s 0 = 0 + (lead e).length := skip_lead hT s hwf hs0
  rw [Nat.zero_add] at h1 hq0
  have hq1 := skip_at_body hT s hwf h1
  have hend : s.drop ((lead e).length + (renderB t e).length) = trail ++ [] := by
    simpa using drop_add h1
  have hlen : s.length = (lead e).length + (renderB t e).length + trail.length := by
    simp [s, render_eq, List.length_append]; omega
  have hsk : skipWhite t.white s ((lead e).length + (renderB t e).length) = s.length := by
    rw [skipWhite_eq hend htr (by simp), hlen]
  have hfol : Follow t cs s t.levels.length ((lead e).length + (renderB t e).length) := by
    constructor
    · intro ch hch
      cases htl : trail with
      | nil =>
        rw [htl] at hend hlen
        have : s[(lead e).length + (renderB t e).length]? = none := by
          apply getElem?_none_of_drop; simpa using hend
        rw [this] at hch; cases hch
      | cons w0 ws0 =>
        rw [htl] at hend
        have := getElem?_of_drop (by simpa using hend)
        rw [this] at hch; cases hch
        exact white_not_cs hT htr ch (by simp [htl])
    · intro j lv _ _ hlv _
      rw [hsk]
      have : s.drop s.length = [] := by simp
      rw [this]
      intro hp
      exact (hT.opOk lv (lv_mem hlv)).1 (List.prefix_nil.mp hp)
  have hle := lvl_le_of_WF e hwf
  have hgoal := goal_all hT s e hwf (t.levels.length - e.lvl) (by omega)
  rw [Nat.add_sub_cancel' hle] at hgoal
  have hg1 : (infixGrammar t)[1]? = some (mkNode t.white (.forward (some (E t.levels.length))) true true) := by
    rw [gram_header t (by omega)]; simp [header]
  have hroot : Holds t s 1 0 true true (.ok ((lead e).length + (renderB t e).length) [nest t e]) := by
    apply H_forward_ok t s (fb_header t (by omega)) hg1
    rw [preOf_true, hq0]
    exact hgoal _ _ h1 hq1 hfol true false _ (preOf_false _ _ _)
  obtain ⟨F, hF⟩ := hroot
  refine ⟨F, fun f hf => ?_⟩
  have hrl : (render t e).length = (lead e).length + (renderB t e).length := by
    simp [render_eq, List.length_append]
  show parseString (parseX (fbIds t) (infixGrammar t) s f) (infixGrammar t) rootId t.white s true = _
  unfold parseString
  have := hF f hf
  simp only [PX] at this
  rw [show rootId = 1 from rfl, this, hg1]
  have hsk2 : skipWhite t.white s s.length = s.length := by
    have := skipWhite_eq (W := t.white) (s := s) (loc := s.length) (ws := []) (x := []) (by simp) (by simp) (by simp)
    simpa using this
  simp [preParse, mkNode, hsk, stringEndCheck, hsk2, stringEndImpl, hrl]

/-! ### non-vacuity: a concrete table of class T (prefix `-` tighter than right-associative `^`), a tree, and the
    theorem's conclusion evaluated on it -/

def exTable : Table :=
  { white := [' ', '\t', '\n', '\r'],
    base := mkNode [' ', '\t', '\n', '\r'] (.word ['0', '1', '2', '3'] ['0', '1', '2', '3'] 1 none false false true) false true,
    lpar := ['('], rpar := [')'],
    levels := [{ arity := 1, right := true, op1 := ['-'] }, { arity := 2, right := true, op1 := ['^', '^'] }] }

/-- `-2 ^^ (1^^ 3) ^^-0` -/
def exTree : Ex :=
  .bin 2 (.pre 1 [] (.atom [] ['2'])) [' ']
    (.bin 2 (.paren [' '] (.bin 2 (.atom [] ['1']) [] (.atom [' '] ['3'])) []) [' ']
      (.pre 1 [] (.atom [] ['0'])))

example : ClassT exTable ['0', '1', '2', '3'] true where
  base := rfl
  lsup := rfl
  rsup := rfl
  csW := by decide
  kinds := by decide
  lparOk := by decide
  rparOk := by decide
  opOk := by decide
  opsInc := by
    intro i j lvi lvj hi hj hij
    match i, j with
    | 0, 0 => exact absurd rfl hij
    | 0, 1 => simp [exTable] at hi hj; subst hi; subst hj; decide
    | 1, 0 => simp [exTable] at hi hj; subst hi; subst hj; decide
    | 1, 1 => exact absurd rfl hij
    | 0, j + 2 => simp [exTable] at hj
    | 1, j + 2 => simp [exTable] at hj
    | i + 2, _ => simp [exTable] at hi
  parInc := by decide

example : WF exTable ['0', '1', '2', '3'] exTree := by
  simp [exTree, WF, exTable, White, Ex.lvl]

example : render exTable exTree = "-2 ^^ (1^^ 3) ^^-0".toList := by decide

mutual
def showTok : Tok → List Char
  | .s v => v
  | .n _ => ['#']
  | .g ts => '[' :: showToks ts ++ [']']
  | .nm _ _ _ ts => showToks ts
  | .hid _ => []
def showToks : List Tok → List Char
  | [] => []
  | x :: xs => showTok x ++ ' ' :: showToks xs
end

example : (match parseString (parseX (fbIds exTable) (infixGrammar exTable) (render exTable exTree) 60)
      (infixGrammar exTable) rootId exTable.white (render exTable exTree) true with
    | .ok e ts => some (e, showToks ts)
    | _ => none) = some (18, "[[- 2 ] ^^ [[1 ^^ 3 ] ^^ [- 0 ] ] ] ".toList) := by
  decide +kernel

example : showTok (nest exTable exTree) = "[[- 2 ] ^^ [[1 ^^ 3 ] ^^ [- 0 ] ] ]".toList := by decide +kernel

end PP.Infix
