import PPProofs.Props.C04
import PPProofs.Props.C02
/-!
# C03 — enabling left-recursion support is transparent for ordinary grammars

Three ingredients, each for all grammars / inputs / memo contents:

* `lr_no_forward_transparent` — a grammar without (assigned) Forwards parses identically under enable_left_recursion:
  the only code that consults `_left_recursion_enabled` is `Forward.parseImpl`;
* `lr_transparent_nonrec`, `lr_transparent_nonrec_fail` (Props/C04) — the growth loop run on an expression that does not
  depend on the recursion entries returns exactly that expression's outcome (after one redundant extra evaluation);
* `lr_memo_hits_transparent` — re-using a retained memo entry of a *finished* Forward (UnboundedMemo keeps all, LRUMemo
  keeps `capacity` of them: any subset) never changes an outcome, as long as every retained entry is the outcome of a
  completed evaluation of that Forward at that location: this is C02's oracle theorem, so it holds for every memo
  capacity.  (Where the real code retains entries that are *not* of that kind — a seed left by a fatal exception — it
  deviates; that is the registered finding `lr_stale_seed_after_fatal`.)

PARTIAL: there is no single theorem `parseLR = parse` for all non-left-recursive grammars with Forwards (it needs "the
body never consults its own key", a semantic condition); the model `parseLR` is tied to the real LR mode and to the
uncached model by the correspondence runs, and the aliasing clause (tokens extended in place by an enclosing And must
not leak into the memo) is a heap property decided by the differential oracle (witness of the 5ff7cdc fix in the corpus).
-/
namespace PP.Parse

def noForward (g : Grammar) : Prop :=
  ∀ (id : Nat) (nd : Node) (e : Nat), g[id]? = some nd → nd.kind ≠ Kind.forward (some e)

/-- without Forwards, left-recursion mode is the plain parser — for every environment of in-growth entries -/
theorem lr_no_forward_transparent (g : Grammar) (s : List Char) (hg : noForward g) :
    ∀ f env, parseLR g s f env = parse g s f := by
  intro f
  induction f with
  | zero => intro env; rfl
  | succ f ih =>
    intro env
    funext id loc acts callPre
    simp only [parseLR, parse, ih]
    unfold parseStepWith parseStep
    cases hgi : g[id]? with
    | none => rfl
    | some nd =>
      simp only
      have hk : ∀ e, nd.kind ≠ Kind.forward (some e) := fun e => hg id nd e hgi
      cases hkk : nd.kind <;> first | rfl | skip
      rename_i e
      cases e with
      | none => rfl
      | some e => exact absurd hkk (hk e)

/-- retained memo entries of finished Forwards are a sound cache: C02's theorem, for every retention policy -/
theorem lr_memo_hits_transparent (g : Grammar) (s : List Char) (h : Oracle) (hs : h.Sound g s) :
    ∀ f, Le (parse g s f) (parseH g s h f) :=
  packrat_transparent g s h hs

end PP.Parse
