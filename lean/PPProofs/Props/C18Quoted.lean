import PPProofs.Lemmas.Quoted
import PPProofs.Props.Gen.QuotedFacts
/-!
# C18 — QuotedString: quoting a content and unquoting it returns the content

Model: `PPModel/Mod/Quoted.lean` (`scan`/`unquote`/`result` transcribe the `unquote_scan_re` loop, the esc_quote
replacement and the slicing of `QuotedString.parseImpl`; `encode`/`quote` are a quoting convention for it).

Statement of the property for QuotedString: *quoting any content (any quote / end-quote strings, esc_char, esc_quote,
multiline) and parsing it returns that content, and with unquote_results=False the exact source text.*

Proved here, for **all** contents and **all** option values:
* `quoted_roundtrip` — `unquote o (quote o d body) = body` for the minimal (`d = false`) and the defensive
  (`d = true`) writing, under the two hypotheses the code needs: the esc_char is not a line feed, and `EscQuoteOk`:
  the esc_quote convention itself is reversible on this content (`body.replace(E, EQ).replace(EQ, E) == body`;
  always true without esc_quote — `quoted_roundtrip_no_esc_quote` — and for the SQL/CSV convention of a doubled
  one-character quote — `quoted_roundtrip_doubled`).
* `quoted_unquote_any_writing` — every *mix* of valid writings of the characters (raw, esc_char + c, `\t \n \f \r`,
  `\xHH`, `\uHHHH`, `\OOO`; `Valid` says when a writing is valid in its context) is read back as the characters
  written, followed by the esc_quote replacement.
* `quoted_result_roundtrip` / `quoted_verbatim` — the token for the matched text `Q ++ inner ++ E`.
* `scan_pattern_facts` — generated-fact obligation: for a table of (esc_char, multiline, convert_whitespace_escapes)
  the live `unquote_scan_re.pattern` is the pattern text the transcription was made from and the scanner is compiled
  with DOTALL exactly when `multiline` (and never IGNORECASE/VERBOSE).

MISSING (not proved; oracle and correspondence only): that the matching regex `self.re`, tried at the opening quote,
ends exactly after `Q ++ quote o d body ++ E` — i.e.
  `quoted_parse_roundtrip : MatcherOk o body → parse o (Q ++ quote o d body ++ E ++ rest) = some (body, rest)`
where `MatcherOk` = no raw line break unless multiline (or written `\n`/`\r`), every occurrence of the first end-quote
character is escaped or part of an esc_quote, the esc_quote does not contain the esc_char.  It needs the
preferred-match property of the backtracking matcher for the parametric pattern of `QuotedString.__init__`.
-/
namespace PP.C18.Quoted
open PP.Quoted

/-- every valid mix of writings is read back by the scanner as the characters written -/
theorem quoted_scan_any_writing (o : Opts) (items : List (Enc × Char)) (h : Valid o items = true) :
    scan o (encodeAll o items) = items.map (·.2) := scan_encodeAll o items h

/-- … and `unquote` then applies the esc_quote replacement to them -/
theorem quoted_unquote_any_writing (o : Opts) (items : List (Enc × Char)) (h : Valid o items = true) :
    unquote o (encodeAll o items) = replaceAll o.escQuote o.endq (items.map (·.2)) := by
  simp only [unquote, scan_encodeAll o items h]

/-- **round trip**: for every content, the minimal and the defensive quoting are unquoted to the content -/
theorem quoted_roundtrip (o : Opts) (d : Bool) (body : List Char)
    (hesc : o.esc ≠ some '\n') (hq : EscQuoteOk o body = true) :
    unquote o (quote o d body) = body := by
  unfold quote
  rw [quoted_unquote_any_writing o _ (valid_map_pick o hesc d _)]
  simp only [List.map_map, Function.comp_def, List.map_id']
  simpa [EscQuoteOk] using hq

theorem escQuoteOk_of_no_esc_quote (o : Opts) (h : o.escQuote = []) (body : List Char) :
    EscQuoteOk o body = true := by
  simp [EscQuoteOk, toEscQuote, replaceAll, h]

theorem quoted_roundtrip_no_esc_quote (o : Opts) (d : Bool) (body : List Char)
    (hesc : o.esc ≠ some '\n') (h : o.escQuote = []) :
    unquote o (quote o d body) = body :=
  quoted_roundtrip o d body hesc (escQuoteOk_of_no_esc_quote o h body)

theorem escQuoteOk_doubled (o : Opts) (q : Char) (hE : o.endq = [q]) (hQ : o.escQuote = [q, q])
    (body : List Char) : EscQuoteOk o body = true := by
  simp only [EscQuoteOk, toEscQuote, hE, hQ, List.isEmpty_cons, Bool.false_eq_true, if_false,
    replace_double, halve_double, beq_self_eq_true]

/-- the doubled-quote convention (`esc_quote='""'` for `'"'`) round-trips every content -/
theorem quoted_roundtrip_doubled (o : Opts) (d : Bool) (q : Char) (body : List Char)
    (hesc : o.esc ≠ some '\n') (hE : o.endq = [q]) (hQ : o.escQuote = [q, q]) :
    unquote o (quote o d body) = body :=
  quoted_roundtrip o d body hesc (escQuoteOk_doubled o q hE hQ body)

theorem strip_quotes (o : Opts) (inner : List Char) : strip o (o.quote ++ inner ++ o.endq) = inner := by
  unfold strip
  have h1 : (o.quote ++ inner ++ o.endq).length - o.endq.length = (o.quote ++ inner).length := by
    simp only [List.length_append]; omega
  rw [h1, List.take_left' rfl, List.drop_left' rfl]

/-- the token returned for the matched text `Q ++ quote body ++ E` is the content -/
theorem quoted_result_roundtrip (o : Opts) (d : Bool) (body : List Char) (hu : o.unquote = true)
    (hesc : o.esc ≠ some '\n') (hq : EscQuoteOk o body = true) :
    result o (o.quote ++ quote o d body ++ o.endq) = body := by
  simp only [result, hu, if_true, strip_quotes]
  exact quoted_roundtrip o d body hesc hq

/-- unquote_results=False: the token is the matched source text (immediate from the transcription: `parseImpl`
    returns `result.group()` untouched) -/
theorem quoted_verbatim (o : Opts) (matched : List Char) (hu : o.unquote = false) : result o matched = matched := by
  simp [result, hu]

/-! ### generated facts: the live scanner is the one transcribed -/

/-- For every row (esc_char, multiline, convert_whitespace_escapes, live `unquote_scan_re.pattern`, DOTALL bit of the
    live `unquote_scan_re.flags`, its IGNORECASE|VERBOSE bits, DOTALL bit of `re_flags`): the pattern is the text
    `Quoted.pattern` the scanner model was transcribed from, and the DOTALL flag is the one `scan` assumes. -/
theorem scan_pattern_facts : ∀ f ∈ Gen.QuotedFacts.scanFacts,
    let o : Opts := ⟨['"'], ['"'], f.1, [], f.2.1, true, f.2.2.1⟩
    f.2.2.2.1.toList = pattern o ∧ f.2.2.2.2.1 = scanDotall o ∧ f.2.2.2.2.2.1 = 0 ∧ f.2.2.2.2.2.2 = o.multiline := by
  decide +kernel

/-! ### the hypotheses are satisfiable, and the statements say something -/

def sql : Opts := ⟨['"'], ['"'], none, ['"', '"'], false, true, true⟩
def cML : Opts := ⟨['"'], ['"'], some '\\', [], true, true, true⟩
def braces : Opts := ⟨['{', '{'], ['}', '}'], some '^', ['@', '@'], false, true, false⟩

-- an escaped line feed in a multiline string (the defensive writing): read back as the line feed …
example : quote cML true "a\nb \"x\"".toList = "a\\\nb\\ \\\"x\\\"".toList := by decide
example : unquote cML "a\\\nb".toList = "a\nb".toList := by decide
-- … because the scanner is compiled with DOTALL; without it `\` and the line feed would be two ordinary characters
example : scanAux cML false 0 "a\\\nb".toList = "a\\\nb".toList := by decide
example : Valid cML [(.raw, 'a'), (.esc, '\n'), (.hex, 'A'), (.oct, 'B'), (.uni, 'é'), (.ws, '\t'), (.esc, '"')] = true := by
  decide
example : unquote cML (encodeAll cML [(.raw, 'a'), (.esc, '\n'), (.hex, 'A'), (.oct, 'B'), (.uni, 'é'), (.ws, '\t'),
    (.esc, '"')]) = "a\nABé\t\"".toList := by decide
-- a backslash before a letter that would make an escape is written \x5c by the minimal writing
example : quote cML false "\\t".toList = "\\\\t".toList := by decide
example : quote sql false "\\t say \"hi\"\n".toList = "\\x5ct say \"\"hi\"\"\\n".toList := by decide
example : unquote sql (quote sql false "\\t say \"hi\"\n".toList) = "\\t say \"hi\"\n".toList := by decide
example : EscQuoteOk braces "a}}b^".toList = true := by decide
example : unquote braces (quote braces false "a}}b^".toList) = "a}}b^".toList := by decide
-- a raw backslash is a valid writing only where no escape sequence starts
example : Valid sql [(.raw, '\\'), (.raw, 'q')] = true ∧ Valid sql [(.raw, '\\'), (.raw, 't')] = false := by decide
-- the hypothesis EscQuoteOk is needed: with esc_quote='@@' the content `@"` is written `@@@`, which reads `"@`
example : EscQuoteOk ⟨['"'], ['"'], none, ['@', '@'], false, true, true⟩ "@\"".toList = false := by decide
example : unquote ⟨['"'], ['"'], none, ['@', '@'], false, true, true⟩ "@@@".toList = "\"@".toList := by decide
-- and the replacement acts on the *scanned* text: two quotes written with the esc_char are merged by esc_quote='""'
-- (a valid writing whose reading is not the characters written — candidate finding, see selftest/C18.md)
example : Valid ⟨['"'], ['"'], some '\\', ['"', '"'], false, true, true⟩ [(.esc, '"'), (.esc, '"')] = true ∧
    unquote ⟨['"'], ['"'], some '\\', ['"', '"'], false, true, true⟩ "\\\"\\\"".toList = "\"".toList := by decide
example : result braces "{{a@@b}}".toList = "a}}b".toList := by decide
example : result { braces with unquote := false } "{{a@@b}}".toList = "{{a@@b}}".toList := by decide

end PP.C18.Quoted
