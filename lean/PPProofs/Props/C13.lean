import PPProofs.Lemmas.TrimArity
import PPProofs.Props.Gen.TrimArity
/-!
# C13 — parse actions are called with the documented protocol  (part 1: `_trim_arity`)

Model: `PPModel/Mod/TrimArity.lean` (transcription of core.py:257-324, 870-910, 327-352, 1219-1233).
Vocabulary (defined in `PPProofs/Lemmas/TrimArity.lean`):
* `PyLevel cfg f` — every exception leaving the body of `f` carries the body's frame first, and that frame is
  not the wrapper's call line (all Python-level callables);
* `probes n l c` — the events `probe (n-l), probe (n-l-1), …` (`c` of them): calls that failed to bind;
* `finish n j r evs` — the wrapper's result after the single body run at `limit = j` with body result `r`:
  a return value is returned and `found_arity := True`; an `IndexError` leaves as `_ParseActionIndexError`;
  every other exception leaves unchanged; the event `run (n-j)` is appended.

All statements are for **every** callable in the abstract class (any `accepts`, any body behaviour with any
state), any number of arguments `n` and any `max_limit`; the live values (`n = 3`, `max_limit = 3`, call line)
are tied in by the generated facts in `Gen/TrimArity.lean`.
-/
namespace PP.TrimArity

variable {σ β : Type}

/-! ## generated-fact obligation (tie T1) -/

/-- the configuration read off the live source -/
def liveCfg : Cfg :=
  ⟨(0, Gen.synthLine), (if Gen.sameFile then 0 else 1, Gen.callLine), Gen.maxLimit⟩

/-- **T1**: in the live source `pa_call_line_synth` (extract_stack line + LINE_DIFF) *is* the line of
    `ret = func(*args[limit:])`, in the same file; `max_limit` covers all the arguments passed. -/
theorem live_call_line : liveCfg.synth = liveCfg.callSite ∧ Gen.nArgs ≤ liveCfg.maxLimit := by decide

/-! ## called exactly once, with the trailing arguments it accepts, largest first -/

/-- **called_once_with_trailing_args.**  Fresh wrapper, called with `n` arguments.  If `j ≤ max_limit` is the
    least number of leading arguments whose removal makes the call bind (i.e. `n - j` is the *largest*
    accepted count among `n, n-1, …, n - max_limit`), then the wrapper makes `j` failing probes with
    `n, n-1, …, n-j+1` arguments (binding failures: the body is not entered), then runs the body exactly once
    with the trailing `n - j` arguments, and its outcome is `finish` of the body's outcome. -/
theorem called_once_with_trailing_args (cfg : Cfg) (f : Callable σ β)
    (hsyn : cfg.synth = cfg.callSite) (hpy : PyLevel cfg f) (n j : Nat) (s : σ)
    (hj : j ≤ cfg.maxLimit) (hrej : ∀ i, i < j → f.accepts (n - i) = false)
    (hacc : f.accepts (n - j) = true) :
    wrapper cfg f .fresh s n = finish n j (f.body s (n - j)) (probes n 0 j) := by
  have := probeLoop_spec_accept cfg f hsyn hpy n j 0 j s [] (by omega) hj
    (fun i _ h => hrej i h) hacc
  simpa [wrapper, WState.fresh] using this

/-- the same, read off the events: the body runs once, with `n - j` arguments, after `j` probes -/
theorem called_once_events (cfg : Cfg) (f : Callable σ β)
    (hsyn : cfg.synth = cfg.callSite) (hpy : PyLevel cfg f) (n j : Nat) (s : σ)
    (hj : j ≤ cfg.maxLimit) (hrej : ∀ i, i < j → f.accepts (n - i) = false)
    (hacc : f.accepts (n - j) = true) :
    (wrapper cfg f .fresh s n).evs = probes n 0 j ++ [.run (n - j)] ∧
    runsOf (wrapper cfg f .fresh s n).evs = [n - j] ∧
    (wrapper cfg f .fresh s n).cs = (f.body s (n - j)).2 := by
  rw [called_once_with_trailing_args cfg f hsyn hpy n j s hj hrej hacc]
  refine ⟨?_, ?_, ?_⟩
  · unfold finish; split <;> rfl
  · rw [finish_runs, runsOf_probes]; rfl
  · unfold finish; split <;> rfl

/-- nothing binds (not even `n - max_limit` arguments): `max_limit + 1` probes, **no body run**, the callable's
    state is untouched and the binding `TypeError` is what the caller sees. -/
theorem no_accepted_arity_raises_typeError (cfg : Cfg) (f : Callable σ β)
    (hsyn : cfg.synth = cfg.callSite) (n : Nat) (s : σ)
    (hrej : ∀ i, i ≤ cfg.maxLimit → f.accepts (n - i) = false) :
    wrapper cfg f .fresh s n =
      ⟨.raise .typeError, ⟨false, cfg.maxLimit⟩, s, probes n 0 (cfg.maxLimit + 1), []⟩ := by
  have := probeLoop_spec_reject cfg f hsyn n cfg.maxLimit 0 s [] (by omega) (fun i _ h => hrej i h)
  simpa [wrapper, WState.fresh] using this

/-- **no_body_run_while_probing** (any not-yet-found state, any `limit ≤ max_limit`): the events of one wrapper
    invocation are some probes followed by at most one body run, which is the *last* event — after the body
    has run once (whatever it did: returned, raised `TypeError` at any depth, …) the callable is never called
    again in this invocation; and if the body did not run, the callable's state is unchanged. -/
theorem no_body_run_while_probing (cfg : Cfg) (f : Callable σ β)
    (hsyn : cfg.synth = cfg.callSite) (hpy : PyLevel cfg f) (n : Nat) (st : WState) (s : σ)
    (hnf : st.found = false) (hl : st.limit ≤ cfg.maxLimit) :
    let r := wrapper cfg f st s n
    (∃ c, r.evs = probes n st.limit c ∧ r.cs = s ∧ r.out = .raise .typeError) ∨
    (∃ c k, r.evs = probes n st.limit c ++ [.run k] ∧ f.accepts k = true ∧ r.cs = (f.body s k).2) := by
  intro r
  have hr : r = probeLoop cfg f n st.limit s [] := by simp [r, wrapper, hnf]
  rcases first_accept_or_none (fun i => f.accepts (n - i)) st.limit cfg.maxLimit with
    ⟨j, h1, h2, h3, h4⟩ | hnone
  · right
    refine ⟨j - st.limit, n - j, ?_, h3, ?_⟩ <;>
    · rw [hr, probeLoop_spec_accept cfg f hsyn hpy n (j - st.limit) st.limit j s [] (by omega) h2 h4 h3]
      unfold finish; split <;> simp
  · left
    refine ⟨cfg.maxLimit - st.limit + 1, ?_, ?_, ?_⟩ <;>
    · rw [hr, probeLoop_spec_reject cfg f hsyn n (cfg.maxLimit - st.limit) st.limit s [] (by omega) hnone]
      try simp

/-- invariant: `limit` never exceeds `max_limit`, and `found_arity` never goes back to `False` -/
theorem wrapper_invariant (cfg : Cfg) (f : Callable σ β)
    (hsyn : cfg.synth = cfg.callSite) (hpy : PyLevel cfg f) (n : Nat) (st : WState) (s : σ)
    (hl : st.limit ≤ cfg.maxLimit) :
    (wrapper cfg f st s n).st.limit ≤ cfg.maxLimit ∧ st.limit ≤ (wrapper cfg f st s n).st.limit ∧
    (st.found = true → (wrapper cfg f st s n).st = st) := by
  cases hf : st.found with
  | true =>
    simp only [wrapper, hf, if_true]
    rcases hc : callFn f s (n - st.limit) with ⟨r, s', ev⟩
    cases r with
    | ret v => simp [hl]
    | raise e fr => cases e <;> simp [hl]
  | false =>
    have hr : wrapper cfg f st s n = probeLoop cfg f n st.limit s [] := by simp [wrapper, hf]
    rw [hr]
    rcases first_accept_or_none (fun i => f.accepts (n - i)) st.limit cfg.maxLimit with
      ⟨j, h1, h2, h3, h4⟩ | hnone
    · rw [probeLoop_spec_accept cfg f hsyn hpy n (j - st.limit) st.limit j s [] (by omega) h2 h4 h3]
      unfold finish; split <;> simp [h1, h2]
    · rw [probeLoop_spec_reject cfg f hsyn n (cfg.maxLimit - st.limit) st.limit s [] (by omega) hnone]
      simp [hl]

/-! ## the found arity is sticky -/

/-- **sticky_arity.**  Once a call has returned (`found_arity = True`, `limit = j`), every later invocation
    calls the callable exactly once with the trailing `n - j` arguments — no probing — and leaves the wrapper
    state as it is, whatever the body does. -/
theorem sticky_arity (cfg : Cfg) (f : Callable σ β) (n j : Nat) (s : σ) :
    (wrapper cfg f ⟨true, j⟩ s n).st = ⟨true, j⟩ ∧
    (wrapper cfg f ⟨true, j⟩ s n).evs.length = 1 ∧
    (f.accepts (n - j) = true →
      (wrapper cfg f ⟨true, j⟩ s n).evs = [.run (n - j)] ∧
      (wrapper cfg f ⟨true, j⟩ s n).cs = (f.body s (n - j)).2) := by
  simp only [wrapper, if_true]
  rcases hc : callFn f s (n - j) with ⟨r, s', ev⟩
  have hsplit : ∀ r : BodyRes β, (∃ v, r = .ret v) ∨ (∃ fr, r = .raise .indexError fr) ∨
      (∃ e fr, r = .raise e fr ∧ e ≠ .indexError) := by
    intro r; cases r with
    | ret v => exact Or.inl ⟨v, rfl⟩
    | raise e fr =>
      by_cases h : e = .indexError
      · subst h; exact Or.inr (Or.inl ⟨fr, rfl⟩)
      · exact Or.inr (Or.inr ⟨e, fr, rfl, h⟩)
  refine ⟨?_, ?_, fun hacc => ?_⟩
  · rcases hsplit r with ⟨v, h⟩ | ⟨fr, h⟩ | ⟨e, fr, h, hne⟩ <;> subst h
    · rfl
    · rfl
    · cases e <;> first | rfl | exact absurd rfl hne
  · rcases hsplit r with ⟨v, h⟩ | ⟨fr, h⟩ | ⟨e, fr, h, hne⟩ <;> subst h
    · rfl
    · rfl
    · cases e <;> first | rfl | exact absurd rfl hne
  · simp only [callFn, hacc, if_true] at hc
    rcases hsplit r with ⟨v, h⟩ | ⟨fr, h⟩ | ⟨e, fr, h, hne⟩ <;> subst h
    · simp_all
    · simp_all
    · cases e <;> first | simp_all | exact absurd rfl hne

/-- a fresh wrapper whose first call returns ends in exactly such a state, with `j` the trim found -/
theorem first_return_sets_found (cfg : Cfg) (f : Callable σ β)
    (hsyn : cfg.synth = cfg.callSite) (hpy : PyLevel cfg f) (n j : Nat) (s : σ) (v : β)
    (hj : j ≤ cfg.maxLimit) (hrej : ∀ i, i < j → f.accepts (n - i) = false)
    (hacc : f.accepts (n - j) = true) (hret : (f.body s (n - j)).1 = .ret v) :
    (wrapper cfg f .fresh s n).st = ⟨true, j⟩ ∧ (wrapper cfg f .fresh s n).out = .ret v := by
  rw [called_once_with_trailing_args cfg f hsyn hpy n j s hj hrej hacc]
  simp [finish, hret]

/-! ## exceptions raised inside the body -/

/-- what `parse_string` must show for an exception `e` raised in the action body, per the property text:
    a `ParseException` fails the element (for a one-element grammar: `parse_string` raises it), everything else
    propagates unchanged — `TypeError` stays `TypeError`, `IndexError` stays `IndexError`. -/
def expectedTop (e : Exc) : TopOut := .raises e

/-- **body_exceptions_propagate_probing.**  While `found_arity` is still `False` (first call, or all earlier
    calls raised): an exception raised in the body of a Python-level callable — at any depth, with any
    traceback below the body's frame — is never taken for an arity probe (the body is not run again), and
    `parse_string` raises that very exception class: `TypeError` → `TypeError`, `IndexError` → wrapped in
    `_ParseActionIndexError`, unwrapped by `parse_string` → `IndexError`, `ParseFatalException`, others →
    unchanged; `ParseException` → the element fails. -/
theorem body_exceptions_propagate_probing (cfg : Cfg) (f : Callable σ RetVal)
    (hsyn : cfg.synth = cfg.callSite) (hpy : PyLevel cfg f) (n j : Nat) (st : WState) (s : σ)
    (e : Exc) (fr : List Frame) (cur : Toks)
    (hnf : st.found = false) (hlj : st.limit ≤ j) (hj : j ≤ cfg.maxLimit)
    (hrej : ∀ i, st.limit ≤ i → i < j → f.accepts (n - i) = false)
    (hacc : f.accepts (n - j) = true) (hraise : (f.body s (n - j)).1 = .raise e fr) :
    let r := wrapper cfg f st s n
    parseStringOut (actionStep cur r.out) = expectedTop e ∧
    runsOf r.evs = [n - j] ∧ r.st.found = false ∧
    (e = .parseExc → actionStep cur r.out = .parseFail) := by
  intro r
  have hr : r = finish n j (f.body s (n - j)) ([] ++ probes n st.limit (j - st.limit)) := by
    simp only [r, wrapper, hnf]
    exact probeLoop_spec_accept cfg f hsyn hpy n (j - st.limit) st.limit j s [] (by omega) hj hrej hacc
  refine ⟨?_, ?_, ?_, ?_⟩
  · rw [hr]; unfold finish; rw [hraise]; cases e <;> rfl
  · rw [hr, finish_runs]; simp [runsOf_probes]
  · rw [hr]; unfold finish; rw [hraise]; cases e <;> rfl
  · intro he; subst he; rw [hr]; unfold finish; rw [hraise]; rfl

/-- after the arity was found (fast path, core.py:279-287): every exception raised in the body, `IndexError`
    included (wrapped in `_ParseActionIndexError` there too, unwrapped by `parse_string`), propagates unchanged;
    no `PyLevel` hypothesis is needed — nothing is probed any more. -/
theorem body_exceptions_propagate_found (cfg : Cfg) (f : Callable σ RetVal) (n j : Nat) (s : σ)
    (e : Exc) (fr : List Frame) (cur : Toks)
    (hacc : f.accepts (n - j) = true) (hraise : (f.body s (n - j)).1 = .raise e fr) :
    parseStringOut (actionStep cur (wrapper cfg f ⟨true, j⟩ s n).out) = expectedTop e ∧
    (e = .parseExc → actionStep cur (wrapper cfg f ⟨true, j⟩ s n).out = .parseFail) := by
  simp only [wrapper, if_true, callFn, hacc]
  rw [show (f.body s (n - j)) = ((f.body s (n - j)).1, (f.body s (n - j)).2) from rfl, hraise]
  cases e <;> exact ⟨rfl, by intro h; first | rfl | cases h⟩

/-- the former finding `indexerror_after_arity_found` (fixed in 5ea5199), now a regression theorem: an
    `IndexError` raised in the body after an earlier call returned leaves `parse_string` as `IndexError`,
    and the element does *not* merely fail. -/
theorem indexError_after_found_propagates (cfg : Cfg) (f : Callable σ RetVal) (n j : Nat)
    (s : σ) (fr : List Frame) (cur : Toks)
    (hacc : f.accepts (n - j) = true) (hraise : (f.body s (n - j)).1 = .raise .indexError fr) :
    parseStringOut (actionStep cur (wrapper cfg f ⟨true, j⟩ s n).out) = .raises .indexError ∧
    actionStep cur (wrapper cfg f ⟨true, j⟩ s n).out ≠ .parseFail := by
  have h : (wrapper cfg f ⟨true, j⟩ s n).out = .wrappedIndex := by
    simp only [wrapper, if_true, callFn, hacc]
    rw [show (f.body s (n - j)) = ((f.body s (n - j)).1, (f.body s (n - j)).2) from rfl, hraise]
  rw [h]
  exact ⟨rfl, by simp [actionStep]⟩

/-- **body_exceptions_propagate** (full strength: every call, every wrapper state the code can reach).
    `j` is the trim in force: the sticky `limit` once `found_arity` is `True`, otherwise the first index
    `≥ limit` whose argument count binds.  Whatever exception the body raises on its single run — at any depth —
    `parse_string` raises that exception class unchanged (`TypeError` is not taken for an arity probe,
    `IndexError` is not turned into a `ParseException`), the body is run exactly once, and a `ParseException`
    makes just that element fail. -/
theorem body_exceptions_propagate (cfg : Cfg) (f : Callable σ RetVal)
    (hsyn : cfg.synth = cfg.callSite) (hpy : PyLevel cfg f) (n j : Nat) (st : WState) (s : σ)
    (e : Exc) (fr : List Frame) (cur : Toks)
    (hfound : st.found = true → j = st.limit) (hlj : st.limit ≤ j) (hj : j ≤ cfg.maxLimit)
    (hrej : ∀ i, st.limit ≤ i → i < j → f.accepts (n - i) = false)
    (hacc : f.accepts (n - j) = true) (hraise : (f.body s (n - j)).1 = .raise e fr) :
    parseStringOut (actionStep cur (wrapper cfg f st s n).out) = expectedTop e ∧
    runsOf (wrapper cfg f st s n).evs = [n - j] ∧
    (e = .parseExc → actionStep cur (wrapper cfg f st s n).out = .parseFail) := by
  cases hf : st.found with
  | false =>
    have h := body_exceptions_propagate_probing cfg f hsyn hpy n j st s e fr cur hf hlj hj hrej hacc hraise
    exact ⟨h.1, h.2.1, h.2.2.2⟩
  | true =>
    have hjl := hfound hf
    have hst : st = ⟨true, j⟩ := by cases st; simp_all
    subst hst
    have h := body_exceptions_propagate_found cfg f n j s e fr cur hacc hraise
    refine ⟨h.1, ?_, h.2⟩
    have := (sticky_arity cfg f n j s).2.2 hacc
    rw [this.1]; rfl

/-! ## nested wrappers: a TypeError raised below the action's own frame -/

/-- an action whose body runs another wrapped action (`Nest`) is a Python-level callable as soon as its body's
    frame is not the wrapper's call line — whatever the inner callable does and wherever its exceptions are
    raised, in particular at the *inner* wrapper's call line. -/
theorem nest_pyLevel {τ γ : Type} (cfg : Cfg) (N : Nest τ γ β) (hbf : N.bodyFrame ≠ cfg.synth) :
    PyLevel cfg (N.toCallable cfg) := by
  intro s k e fr h
  simp only [Nest.toCallable] at h
  split at h
  · cases h; exact ⟨_, _, rfl, hbf⟩
  · split at h
    · split at h
      · cases h
      · cases h; exact ⟨_, _, rfl, hbf⟩
    · cases h; exact ⟨_, _, rfl, hbf⟩
    · cases h; exact ⟨_, _, rfl, hbf⟩

/-- **nested_probe_failure_traceback**: the dangerous traceback really occurs.  When no argument count binds at
    the inner wrapper, the `TypeError` is raised at the inner wrapper's call line: it reaches the outer wrapper
    with a traceback whose *last* entry is `pa_call_line_synth` (a rule looking at the innermost frame would take it
    for an arity probe of the OUTER action), while the entry the code looks at — the second one — is the body's
    frame, so `isArityError` says no.  The inner callable's state is untouched (its body never ran). -/
theorem nested_probe_failure_traceback {τ γ : Type} (cfg : Cfg) (N : Nest τ γ β)
    (hsyn : cfg.synth = cfg.callSite) (hbf : N.bodyFrame ≠ cfg.synth) (k m : Nat) (s : NState τ)
    (hm : N.innerArgs k = some m) (hnf : s.1.found = false) (hl : s.1.limit ≤ cfg.maxLimit)
    (hrej : ∀ i, s.1.limit ≤ i → i ≤ cfg.maxLimit → N.inner.accepts (m - i) = false) :
    let fr := N.bodyFrame :: (N.glue ++ [cfg.callSite])
    ((N.toCallable cfg).body s k).1 = .raise .typeError fr ∧
    fr.getLast? = some cfg.synth ∧ isArityError cfg fr = false ∧
    ((N.toCallable cfg).body s k).2.2.1 = s.2.1 := by
  have hw : wrapper cfg N.inner s.1 s.2.1 m =
      ⟨.raise .typeError, ⟨false, cfg.maxLimit⟩, s.2.1, [] ++ probes m s.1.limit (cfg.maxLimit - s.1.limit + 1), []⟩ := by
    simp only [wrapper, hnf]
    exact probeLoop_spec_reject cfg N.inner hsyn m (cfg.maxLimit - s.1.limit) s.1.limit s.2.1 [] (by omega) hrej
  refine ⟨?_, ?_, ?_, ?_⟩
  · simp [Nest.toCallable, hm, hw]
  · rw [hsyn, ← List.cons_append, List.getLast?_append]; simp
  · simp [isArityError_cons, hbf]
  · simp [Nest.toCallable, hm, hw]

/-- **nested_typeError_not_arity_probe** (every wrapper state the code can reach, every inner callable, any glue
    frames, any nesting depth — `N.inner` may itself be a `Nest`): if the nested wrapped call raises `TypeError`
    (for instance because nothing binds there, `nested_probe_failure_traceback`), the outer wrapper does not take
    it for an arity mismatch of the outer action: the outer body is entered exactly once, the inner wrapper is
    invoked exactly once, and `TypeError` is what leaves the wrapper and `parse_string`. -/
theorem nested_typeError_not_arity_probe {τ γ : Type} (cfg : Cfg) (N : Nest τ γ RetVal)
    (hsyn : cfg.synth = cfg.callSite) (hbf : N.bodyFrame ≠ cfg.synth)
    (n j m : Nat) (st : WState) (s : NState τ) (cur : Toks)
    (hfound : st.found = true → j = st.limit) (hlj : st.limit ≤ j) (hj : j ≤ cfg.maxLimit)
    (hrej : ∀ i, st.limit ≤ i → i < j → N.accepts (n - i) = false)
    (hacc : N.accepts (n - j) = true) (hm : N.innerArgs (n - j) = some m)
    (hT : (wrapper cfg N.inner s.1 s.2.1 m).out = .raise .typeError) :
    let r := wrapper cfg (N.toCallable cfg) st s n
    runsOf r.evs = [n - j] ∧
    parseStringOut (actionStep cur r.out) = .raises .typeError ∧
    r.cs.2.2 = s.2.2 ++ [(wrapper cfg N.inner s.1 s.2.1 m).evs] := by
  intro r
  have hraise : ((N.toCallable cfg).body s (n - j)).1 =
      .raise .typeError (N.bodyFrame :: (N.glue ++ cfg.callSite :: (wrapper cfg N.inner s.1 s.2.1 m).fr)) := by
    simp [Nest.toCallable, hm, hT]
  have hcs : ((N.toCallable cfg).body s (n - j)).2.2.2 = s.2.2 ++ [(wrapper cfg N.inner s.1 s.2.1 m).evs] := by
    simp only [Nest.toCallable, hm]
    split <;> rfl
  have h := body_exceptions_propagate cfg (N.toCallable cfg) hsyn (nest_pyLevel cfg N hbf) n j st s
    .typeError _ cur hfound hlj hj hrej hacc hraise
  refine ⟨h.2.1, h.1, ?_⟩
  -- the callable's state after the wrapper is the state after that single body run
  have hstate : r.cs = ((N.toCallable cfg).body s (n - j)).2 := by
    cases hf : st.found with
    | true =>
      have hjl := hfound hf
      have hst : st = ⟨true, j⟩ := by cases st; simp_all
      subst hst
      exact ((sticky_arity cfg (N.toCallable cfg) n j s).2.2 hacc).2
    | false =>
      have hr : r = finish n j ((N.toCallable cfg).body s (n - j)) ([] ++ probes n st.limit (j - st.limit)) := by
        simp only [r, wrapper, hf]
        exact probeLoop_spec_accept cfg (N.toCallable cfg) hsyn (nest_pyLevel cfg N hbf) n (j - st.limit)
          st.limit j s [] (by omega) hj hrej hacc
      rw [hr]; unfold finish; split <;> rfl
  rw [hstate, hcs]

/-! ## return values -/

/-- **none_keeps_tokens / value_replaces**: with the body returning `v` on its single run, `parse_string`
    returns the matched tokens when `v` is `None` (or the very tokens object), and the value otherwise. -/
theorem return_value_protocol (cfg : Cfg) (f : Callable σ RetVal)
    (hsyn : cfg.synth = cfg.callSite) (hpy : PyLevel cfg f) (n j : Nat) (s : σ) (v : RetVal) (cur : Toks)
    (hj : j ≤ cfg.maxLimit) (hrej : ∀ i, i < j → f.accepts (n - i) = false)
    (hacc : f.accepts (n - j) = true) (hret : (f.body s (n - j)).1 = .ret v) :
    parseStringOut (actionStep cur (wrapper cfg f .fresh s n).out) =
      match v with
      | .none => .returns cur
      | .same => .returns cur
      | .value w => .returns (.replaced w) := by
  rw [(first_return_sets_found cfg f hsyn hpy n j s v hj hrej hacc hret).2]
  cases v <;> rfl

/-- conditions (`add_condition` / `condition_as_parse_action`): a truthy result keeps the tokens, a falsy one
    fails just this element (`ParseException`) or is fatal when `fatal=True`. -/
theorem condition_protocol (cfg : Cfg) (f : Callable σ Bool)
    (hsyn : cfg.synth = cfg.callSite) (hpy : PyLevel cfg f) (n j : Nat) (s : σ) (b fatal : Bool) (cur : Toks)
    (hj : j ≤ cfg.maxLimit) (hrej : ∀ i, i < j → f.accepts (n - i) = false)
    (hacc : f.accepts (n - j) = true) (hret : (f.body s (n - j)).1 = .ret b) :
    conditionStep cur fatal (wrapper cfg f .fresh s n).out =
      if b then .ok cur else if fatal then .fatal else .parseFail := by
  rw [called_once_with_trailing_args cfg f hsyn hpy n j s hj hrej hacc]
  simp only [finish, hret]
  cases b <;> rfl

/-! ## non-vacuity: concrete instances -/

/-- `lambda t: ...` style callable: accepts exactly one argument; first run returns `None`, later runs raise
    `IndexError` from a frame in the user's file (file 7, line 11). -/
def ex1 : Callable Nat RetVal :=
  ⟨fun k => k == 1, fun s _ => (if s == 0 then .ret .none else .raise .indexError [(7, 11)], s + 1)⟩

theorem ex1_pyLevel : PyLevel liveCfg ex1 := by
  intro s k e fr h
  simp only [ex1] at h
  split at h
  · cases h
  · cases h; exact ⟨(7, 11), [], rfl, by decide⟩

/-- fresh wrapper, 3 arguments: probes with 3 and 2 arguments, one run with the trailing 1, found, limit 2 -/
example : (wrapper liveCfg ex1 .fresh 0 3).evs = [.probe 3, .probe 2, .run 1] ∧
          (wrapper liveCfg ex1 .fresh 0 3).st = ⟨true, 2⟩ := by
  simp [wrapper, WState.fresh, probeLoop, callFn, ex1, isArityError, liveCfg, Gen.synthLine, Gen.callLine,
    Gen.sameFile, Gen.maxLimit]

/-- the hypotheses of `called_once_with_trailing_args` are met by it with `j = 2` -/
example : wrapper liveCfg ex1 .fresh 0 3 = finish 3 2 (ex1.body 0 1) (probes 3 0 2) :=
  called_once_with_trailing_args liveCfg ex1 live_call_line.1 ex1_pyLevel 3 2 0 (by decide)
    (by intro i hi; have : i = 0 ∨ i = 1 := by omega
        rcases this with h | h <;> subst h <;> rfl) rfl

/-- the former finding on this instance: 2nd invocation (state after the first) raises IndexError in the body
    and `parse_string` shows IndexError, exactly as on a fresh wrapper. -/
example : parseStringOut (actionStep .matched (wrapper liveCfg ex1 ⟨true, 2⟩ 1 3).out) = .raises .indexError ∧
          parseStringOut (actionStep .matched (wrapper liveCfg ex1 .fresh 1 3).out) = .raises .indexError := by
  simp [wrapper, WState.fresh, probeLoop, callFn, ex1, isArityError, liveCfg, Gen.synthLine, Gen.callLine,
    Gen.sameFile, Gen.maxLimit, actionStep, parseStringOut]

/-- a body `TypeError` at depth 0 of a Python-level callable is not retried with fewer arguments -/
def ex2 : Callable Unit RetVal :=
  ⟨fun _ => true, fun s _ => (.raise .typeError [(7, 20)], s)⟩
example : (wrapper liveCfg ex2 .fresh () 3).evs = [.run 3] ∧
          parseStringOut (actionStep .matched (wrapper liveCfg ex2 .fresh () 3).out) = .raises .typeError := by
  simp [wrapper, WState.fresh, probeLoop, callFn, ex2, isArityError, liveCfg, Gen.synthLine, Gen.callLine,
    Gen.sameFile, Gen.maxLimit, actionStep, parseStringOut]

/-- contrast (outside `PyLevel`): a C-level callable raising `TypeError` by itself has no frame of its own, is
    indistinguishable from a binding failure and *is* retried with fewer arguments (e.g. `int`: returns 0). -/
def exC : Callable Unit RetVal :=
  ⟨fun k => k ≤ 2, fun s k => (if k == 0 then .ret (.value 0) else .raise .typeError [], s)⟩
example : (wrapper liveCfg exC .fresh () 3).evs = [.probe 3, .run 2, .run 1, .run 0] := by
  simp [wrapper, WState.fresh, probeLoop, callFn, exC, isArityError, liveCfg, Gen.synthLine, Gen.callLine,
    Gen.sameFile, Gen.maxLimit]

/-- nested wrappers: outer `def f(t): return inner.parse_string(t[0])`, the inner element's action has a signature
    pyparsing cannot satisfy (nothing binds).  The outer body runs once with 1 argument, the inner wrapper makes its
    four probes, `TypeError` leaves — although the innermost traceback entry is the wrapper's call line. -/
def exNest : Nest Unit RetVal RetVal :=
  ⟨fun k => k == 1, (7, 30), [(0, 1200), (0, 900)], ⟨fun _ => false, fun s _ => (.ret .none, s)⟩,
   fun _ => some 3, fun _ => .other 0, fun _ => .inl .none⟩
example :
    let r := wrapper liveCfg (exNest.toCallable liveCfg) .fresh (.fresh, (), []) 3
    r.evs = [.probe 3, .probe 2, .run 1] ∧ r.out = .raise .typeError ∧
    r.fr.getLast? = some liveCfg.synth ∧ r.cs.1 = ⟨false, 3⟩ := by
  intro r
  have hb := nested_probe_failure_traceback liveCfg exNest live_call_line.1 (by decide) 1 3 (.fresh, (), [])
    rfl rfl (by decide) (fun _ _ _ => rfl)
  have hr : r = finish 3 2 ((exNest.toCallable liveCfg).body (.fresh, (), []) 1) (probes 3 0 2) :=
    called_once_with_trailing_args liveCfg _ live_call_line.1 (nest_pyLevel liveCfg exNest (by decide)) 3 2 _
      (by decide) (by intro i hi; have : i = 0 ∨ i = 1 := by omega
                      rcases this with h | h <;> subst h <;> rfl) rfl
  have hw : wrapper liveCfg exNest.inner WState.fresh () 3 =
      ⟨.raise .typeError, ⟨false, liveCfg.maxLimit⟩, (), probes 3 0 (liveCfg.maxLimit + 1), []⟩ :=
    no_accepted_arity_raises_typeError liveCfg exNest.inner live_call_line.1 3 () (fun _ _ => rfl)
  refine ⟨?_, ?_, ?_, ?_⟩
  · rw [hr]; unfold finish; rw [hb.1]; rfl
  · rw [hr]; unfold finish; rw [hb.1]
  · rw [hr]; unfold finish; rw [hb.1]; exact hb.2.1
  · rw [hr]; unfold finish; rw [hb.1]
    show ((exNest.toCallable liveCfg).body (WState.fresh, (), []) 1).2.1 = _
    simp only [Nest.toCallable, exNest]
    rw [show wrapper liveCfg (⟨fun _ => false, fun s _ => (BodyRes.ret RetVal.none, s)⟩ : Callable Unit RetVal)
          WState.fresh () 3 = _ from hw]
    rfl
/-- the hypotheses of `nested_typeError_not_arity_probe` are met by it (j = 2, m = 3) -/
example : runsOf (wrapper liveCfg (exNest.toCallable liveCfg) .fresh (.fresh, (), []) 3).evs = [1] :=
  (nested_typeError_not_arity_probe liveCfg exNest live_call_line.1 (by decide) 3 2 3 .fresh (.fresh, (), [])
    .matched (by simp [WState.fresh]) (by simp [WState.fresh]) (by decide)
    (by intro i _ hi; have : i = 0 ∨ i = 1 := by omega
        rcases this with h | h <;> subst h <;> rfl) rfl rfl
    (by rw [show wrapper liveCfg exNest.inner (WState.fresh, (), ([] : List (List Ev))).1
              (WState.fresh, (), ([] : List (List Ev))).2.1 3 = _ from
            no_accepted_arity_raises_typeError liveCfg exNest.inner live_call_line.1 3 () (fun _ _ => rfl)])).1

end PP.TrimArity
