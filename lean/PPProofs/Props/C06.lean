import PPProofs.Lemmas.ParseNoIdx
import PPProofs.Lemmas.ParseAdv
import PPProofs.Lemmas.ParseBound
import PPProofs.Props.C08
import PPProofs.Props.C14
/-!
# C06 — parsing is total: only ParseBaseException escapes, with sane diagnostics

What is proved here, for **every** grammar of the modelled class whose (empty) `And`s carry the `mayIndexError`
flag the constructor gives them (`WFIdx`, checked on every extracted grammar by the harness), every input, every
location and every fuel:

* `no_indexerror_escapes`           no `_parse` call lets a raw IndexError out;
* `parseString_no_indexerror`, `scanString_no_indexerror`  nor do parse_string(parse_all) and scan_string
                                    (hence search_string / transform_string / split);
* `leaf_indexerror_only_at_end`     a leaf raises IndexError only when asked to match at or beyond the end of the
                                    text, exactly the case `_parseNoCache` converts (core.py:851-857);
* diagnostics: `PP.LineCol.C14_linecol_consistent` (C14) — `lineno/col/line` of any `loc ≤ len` are defined and
  mutually consistent — is the model-level content of "str(), line, lineno, col evaluate and agree with the string".

*Termination* is proved in `PPProofs/Props/C06Term.lean` for non-recursive grammars (well-founded node tables, fuel above
the element's rank / height, under the property's own side condition that repetition bodies and ignorables do not match
the empty string): `acyclic_terminates`, `acyclic_terminates_depth`, `parseString_terminates`, `scanString_terminates`,
`acyclic_terminates_checked`.

PARTIAL with respect to the statement: for recursive grammars (Forward cycles) termination is not a theorem (the model is
total by construction and returns `hang` where the real code loops or where the fuel ran out), and the bound `0 ≤ loc ≤ len+1` on exception locations is checked by the oracle on
the real code, as are KeyError/TypeError/AttributeError and every class outside the model (whole exported zoo).
-/
namespace PP.Parse

/-- **C06 core.** No raw IndexError leaves any `_parse` call. -/
theorem no_indexerror_escapes (g : Grammar) (s : List Char) (hw : WFIdx g) (f id loc : Nat) (a c : Bool) :
    parse g s f id loc a c ≠ .idx :=
  parse_noIdx g s hw f id loc a c

/-- a successful `_parse` of any element never ends before the location it was called at (so a reported match
    `[start, end)` is a well-formed span), for every grammar, input, fuel and call -/
theorem parse_match_forward (g : Grammar) (s : List Char) (f id loc : Nat) (a c : Bool) (e : Nat) (ts : List Tok)
    (h : parse g s f id loc a c = .ok e ts) : loc ≤ e :=
  parse_adv g s f id loc a c e ts h

/-- **every location the parser reports lies inside the parsed string**: a `_parse` call begun inside the string
    (`loc ≤ len + 1`) ends a match at `e ≤ len + 1` and raises its ParseBaseException with `loc ≤ len + 1` (the `+ 1`
    is what StringEnd / LineEnd return when they match at the very end) — every grammar, input, fuel, call -/
theorem parse_locations_inside (g : Grammar) (s : List Char) (f id loc : Nat) (a c : Bool) (hl : loc ≤ s.length + 1) :
    (match parse g s f id loc a c with
     | .ok e _ => loc ≤ e ∧ e ≤ s.length + 1
     | .fail _ l => l ≤ s.length + 1
     | _ => True) := by
  have hb := parse_bnd g s f id loc a c hl
  cases h : parse g s f id loc a c with
  | ok e ts => rw [h] at hb; exact ⟨parse_adv g s f id loc a c e ts h, hb⟩
  | fail k l => rw [h] at hb; exact hb
  | idx => trivial
  | hang => trivial

/-- … and so does parse_string (also with parse_all): the exception it raises has `0 ≤ loc ≤ len + 1` -/
theorem parseString_error_loc_inside (g : Grammar) (s dw : List Char) (f root : Nat) (pa : Bool) (k : Exc) (l : Nat)
    (h : parseString (parse g s f) g root dw s pa = .fail k l) : l ≤ s.length + 1 := by
  have hB := parse_bnd g s f
  unfold parseString at h
  have h0 := hB root 0 true true (by omega)
  cases hp : parse g s f root 0 true true with
  | ok e ts =>
    rw [hp] at h h0
    simp only at h
    split at h
    · cases hg : g[root]? with
      | none => rw [hg] at h; simp at h
      | some nd =>
        rw [hg] at h
        simp only at h
        have h1 := preParse_bnd hB nd s e (by omega) h0
        cases hq : preParse (parse g s f) nd s e with
        | abort o => rw [hq] at h h1; simp only at h; subst h; exact h1
        | «at» l1 =>
          rw [hq] at h h1
          simp only at h
          have h2 : (stringEndCheck dw s l1).inB (s.length + 1) := by
            unfold stringEndCheck
            exact stringEndImpl_bnd _ _ _ (Nat.le_refl _)
              (skipWhite_le _ _ _ _ (by omega) (skipWhite_le _ _ _ _ (by omega) h1))
          cases hs : stringEndCheck dw s l1 with
          | ok e' ts' => rw [hs] at h; simp at h
          | fail k' l' => rw [hs] at h h2; simp at h; exact h.2 ▸ h2
          | idx => rw [hs] at h; simp at h
          | hang => rw [hs] at h; simp at h
    · simp at h
  | fail k' l' => rw [hp] at h h0; simp at h; exact h.2 ▸ h0
  | idx => rw [hp] at h; simp at h
  | hang => rw [hp] at h; simp at h

theorem leaf_indexerror_only_at_end {p : P} (hp : NoIdx p) (g : Grammar) (nd : Node) (s : List Char) (loc : Nat)
    (acts : Bool) (h : parseImpl g p nd s loc acts = .idx) (hne : nd.kind ≠ .and []) : loc ≥ s.length := by
  rcases parseImpl_idx hp g nd s loc acts h with h | h
  · exact h
  · exact absurd h hne

theorem parseString_no_indexerror (g : Grammar) (s dw : List Char) (hw : WFIdx g) (f root : Nat) (pa : Bool) :
    parseString (parse g s f) g root dw s pa ≠ .idx := by
  have hp := parse_noIdx g s hw f
  unfold parseString
  cases h : parse g s f root 0 true true with
  | idx => exact absurd h (hp _ _ _ _)
  | fail c l => simp
  | hang => simp
  | ok l ts =>
    simp only
    split
    · cases hg : g[root]? with
      | none => simp
      | some nd =>
        simp only
        have h1 := preParse_noIdx hp nd s l
        generalize preParse (parse g s f) nd s l = r at h1
        cases r with
        | abort o => intro h; apply h1; simp at h; rw [h]
        | «at» l1 =>
          simp only
          have := stringEndImpl_noIdx s (skipWhite dw s (skipWhite dw s l1))
          unfold stringEndCheck
          generalize stringEndImpl s (skipWhite dw s (skipWhite dw s l1)) = r at this
          cases r <;> simp at this ⊢
    · simp

theorem scanLoop_no_indexerror {p : P} (hp : NoIdx p) (nd : Node) (root : Nat) (s : List Char) (sk ov : Bool) :
    ∀ k loc left acc, (scanLoop p nd root s sk ov k loc left acc).exc ≠ some .idx := by
  intro k
  induction k with
  | zero => intro _ _ _; simp [scanLoop]
  | succ k ih =>
    intro loc left acc
    unfold scanLoop
    split
    · simp
    · have h1 : scanPre p nd sk s loc ≠ .abort .idx := by
        unfold scanPre; split <;> exact preParse_noIdx hp _ _ _
      cases hpr : scanPre p nd sk s loc with
      | abort o =>
        cases o with
        | idx => exact absurd hpr h1
        | ok l ts => simp
        | fail c l => cases c <;> simp
        | hang => simp
      | «at» preloc =>
        simp only
        cases h : p root preloc true false with
        | idx => exact absurd h (hp _ _ _ _)
        | hang => simp
        | fail c l => cases c <;> first | exact ih _ _ _ | simp
        | ok nl ts =>
          simp only
          split
          · split
            · first | exact ih _ _ _ | (simp only [hpr]; exact ih _ _ _)
            · exact ih _ _ _
          · exact ih _ _ _

theorem scanString_no_indexerror (g : Grammar) (s : List Char) (hw : WFIdx g) (f root mm : Nat) (sk ov : Bool) :
    (scanString (parse g s f) g root s mm sk ov).exc ≠ some .idx := by
  unfold scanString
  cases g[root]? with
  | none => simp
  | some nd => exact scanLoop_no_indexerror (parse_noIdx g s hw f) _ _ _ _ _ _ _ _ _

/-! ### non-vacuity: the conversion really happens (a Literal asked to match at the end of the text) -/

def exLit : Grammar :=
  [ { kind := .lit1 'a', skipWs := true, white := [' '], callPre := true, mayIdx := false, ignore := [], acts := [],
      callDuringTry := false, nameLen := 3 } ]

example : WFIdx exLit := by
  intro id nd h hk
  cases id with
  | zero => simp [exLit] at h; subst h; simp at hk
  | succ n => simp [exLit] at h

example : lit1Impl 'a' [' '] 1 = .idx := by rfl
example : parse exLit [' '] 2 0 0 true true = .fail .parse 1 := by rfl


/-! ### scan_string: every reported span and every escaping exception lies inside the string -/

theorem scanPre_bnd {N : Nat} {p : P} (hp : Bnd N p) (nd : Node) (sk : Bool) (s : List Char) (loc : Nat)
    (hN : s.length ≤ N) (hl : loc ≤ N) : (scanPre p nd sk s loc).inB N := by
  unfold scanPre
  split <;> exact preParse_bnd hp _ s loc hN hl

/-- the scan loop keeps all spans, and whatever escapes, inside `[0, len + 1]` -/
theorem scanLoop_inside {p : P} (nd : Node) (root : Nat) (s : List Char) (sk ov : Bool) (hp : Bnd (s.length + 1) p) :
    ∀ k loc left acc, (∀ m ∈ acc, m.start ≤ s.length + 1 ∧ m.stop ≤ s.length + 1) →
      (∀ m ∈ (scanLoop p nd root s sk ov k loc left acc).ms, m.start ≤ s.length + 1 ∧ m.stop ≤ s.length + 1) ∧
      (∀ o, (scanLoop p nd root s sk ov k loc left acc).exc = some o → o.inB (s.length + 1)) := by
  intro k
  induction k with
  | zero => intro loc left acc hacc; exact ⟨by simpa [scanLoop] using hacc, by intro o h; simp [scanLoop] at h; subst h; trivial⟩
  | succ k ih =>
    intro loc left acc hacc
    have nil : (∀ m ∈ acc, m.start ≤ s.length + 1 ∧ m.stop ≤ s.length + 1) := hacc
    unfold scanLoop
    split
    · exact ⟨hacc, by intro o h; simp at h⟩
    · rename_i hc
      have hloc : loc ≤ s.length := by
        by_cases h : loc > s.length
        · exfalso; apply hc; simp [h]
        · omega
      have hpre := scanPre_bnd hp nd sk s loc (by omega) (by omega)
      cases hpr : scanPre p nd sk s loc with
      | abort o =>
        rw [hpr] at hpre
        cases o with
        | ok e ts => exact ⟨hacc, by intro o h; simp at h; subst h; exact hpre⟩
        | fail c l => cases c <;> exact ⟨hacc, by intro o h; simp at h; subst h; first | trivial | exact hpre⟩
        | idx => exact ⟨hacc, by intro o h; simp at h; subst h; trivial⟩
        | hang => exact ⟨hacc, by intro o h; simp at h; subst h; trivial⟩
      | «at» preloc =>
        rw [hpr] at hpre
        simp only
        have h0 := hp root preloc true false hpre
        cases hq : p root preloc true false with
        | hang => exact ⟨hacc, by intro o h; simp at h; subst h; trivial⟩
        | idx => exact ⟨hacc, by intro o h; simp at h; subst h; trivial⟩
        | fail c l =>
          rw [hq] at h0
          cases c with
          | parse => exact ih _ _ _ hacc
          | fatal => exact ⟨hacc, by intro o h; simp at h; subst h; exact h0⟩
          | «syntax» => exact ⟨hacc, by intro o h; simp at h; subst h; exact h0⟩
        | ok nextLoc ts =>
          rw [hq] at h0
          simp only
          by_cases hgt : nextLoc > loc
          · simp only [hgt, if_true]
            have hacc' : ∀ m ∈ acc ++ [⟨ts, preloc, nextLoc⟩], m.start ≤ s.length + 1 ∧ m.stop ≤ s.length + 1 := by
              intro m hm
              rcases List.mem_append.mp hm with h | h
              · exact hacc m h
              · simp at h; subst h; exact ⟨hpre, h0⟩
            cases ov with
            | false => simp only [Bool.false_eq_true, if_false]; exact ih _ _ _ hacc'
            | true => simp only [if_true, hpr]; exact ih _ _ _ hacc'
          · simp only [hgt, if_false]
            exact ih _ _ _ hacc

/-- **scan_string** (hence search_string, transform_string, split): every reported `(tokens, start, end)` has
    `start ≤ end ≤ len + 1`, and an exception that escapes the generator has `loc ≤ len + 1` — every grammar, input,
    fuel and option value -/
theorem scanString_locations_inside (g : Grammar) (s : List Char) (f root mm : Nat) (sk ov : Bool) :
    (∀ m ∈ (scanString (parse g s f) g root s mm sk ov).ms, m.start ≤ m.stop ∧ m.stop ≤ s.length + 1) ∧
    (∀ k l, (scanString (parse g s f) g root s mm sk ov).exc = some (.fail k l) → l ≤ s.length + 1) := by
  have hB := parse_bnd g s f
  constructor
  · intro m hm
    refine ⟨scan_match_forward_parse g root s f mm sk ov m hm, ?_⟩
    unfold scanString at hm
    cases hg : g[root]? with
    | none => rw [hg] at hm; simp at hm
    | some nd =>
      rw [hg] at hm
      exact ((scanLoop_inside nd root s sk ov hB _ 0 mm [] (by simp)).1 m hm).2
  · intro k l h
    unfold scanString at h
    cases hg : g[root]? with
    | none => rw [hg] at h; simp at h
    | some nd =>
      rw [hg] at h
      exact (scanLoop_inside nd root s sk ov hB _ 0 mm [] (by simp)).2 _ h

end PP.Parse
