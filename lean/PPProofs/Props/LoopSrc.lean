import PPModel.Base.PyStr
import PPModel.Mod.Parse
import PPProofs.Props.LeafSrc
import PPProofs.Props.Gen.LoopSrc
import PPProofs.Lemmas.LoopSrc
/-!
# The character-loop matchers of the parse model ARE the translated source (translator tie, `while` loops)

`Props/Gen/LoopSrc.lean` is regenerated on every run of C17 by `harness/py2lean.py` from the live source text of
`CharsNotIn.parseImpl` and `Word.parseImpl` (the character loop, not `parseImpl_regex`).  The loop
`while loc < B and instring[loc] (not) in CS: loc += 1` is translated to `Py.scanWhile instring CS neg loc B`
(PPModel/Base/PyStr.lean, validated against the Python loop itself on every run of C14); `loc += 1`, `start = loc`,
`maxloc = min(..)` are shadowing `let`s.  The theorems prove, for ALL texts, locations and attribute values satisfying
the constructor's invariants (`maxLenAttr`: `self.maxLen` is the given maximum, or `_MAX_INT` — of which only
"no text is longer" is used — when none was given; `self.minLen ≥ 0`), that the hand-written functions of
`PPModel/Mod/Parse.lean` return exactly what the translated source returns, IndexError included.
-/
namespace PP.Parse
open PP

/-- the int attribute `self.maxLen` (value `M`) for the model's `maxLen : Option Nat`, on a text of length `n`:
    `some k` ↦ `M = k`;  `none` (no `max=` / `exact=` given: `self.maxLen = _MAX_INT = sys.maxsize`) ↦ `n ≤ M`
    (a CPython `str` is never longer than `sys.maxsize`). -/
def maxLenAttr (mx : Option Nat) (M : Int) (n : Nat) : Prop :=
  match mx with
  | some k => M = (k : Int)
  | none => (n : Int) ≤ M

/-- the model's cap on the number of characters after the first one (as written in `charsNotInImpl` / `wordSlowImpl`) -/
def capOf (mx : Option Nat) (n : Nat) : Nat :=
  match mx with
  | some k => k - 1
  | none => n

/-- `charsNotInImpl` with its cap written as `capOf` -/
theorem charsNotInImpl_capOf (notc : List Char) (mn : Nat) (mx : Option Nat) (s : List Char) (loc : Nat) :
    charsNotInImpl notc mn mx s loc =
      match s[loc]? with
      | none => .idx
      | some c =>
        if mem c notc then .fail .parse loc else
        let e := loc + 1 + runLen (fun d => !mem d notc) s (loc + 1) (capOf mx s.length)
        if e - loc < mn then .fail .parse e else .ok e [.s (slice s loc e)] := by
  unfold charsNotInImpl capOf
  cases mx <;> rfl

/-- `maxloc = min(start + self.maxLen, len(instring))` is a natural number `b ≤ len`, and the model's cap
    (`max - 1` characters after the first, or the whole text) selects the same run as the window `[loc+1, b)` -/
theorem loop_bound (mx : Option Nat) (M : Int) (s : List Char) (loc : Nat) (hM : maxLenAttr mx M s.length)
    (ok : Char → Bool) :
    ∃ b : Nat, b ≤ s.length ∧ min ((loc : Int) + M) (Py.len s) = (b : Int) ∧
      runLen ok s (loc + 1) (capOf mx s.length)
        = runLen ok s (loc + 1) (b - (loc + 1)) := by
  unfold Py.len capOf
  cases mx with
  | some k =>
    simp only [maxLenAttr] at hM
    subst hM
    refine ⟨min (loc + k) s.length, by omega, by omega, ?_⟩
    rw [runLen_cap_min ok s (loc + 1) (k - 1), runLen_cap_min ok s (loc + 1) (min (loc + k) s.length - (loc + 1))]
    congr 1; omega
  | none =>
    simp only [maxLenAttr] at hM
    refine ⟨s.length, by omega, by omega, ?_⟩
    rw [runLen_cap_min ok s (loc + 1) s.length, runLen_cap_min ok s (loc + 1) (s.length - (loc + 1))]
    congr 1; omega

/-- **CharsNotIn.parseImpl (live source, `while` loop included) = model**, all texts / locations / attribute values -/
theorem src_charsNotIn_eq (notc : List Char) (mn : Nat) (mx : Option Nat) (M : Int) (s : List Char) (loc : Nat)
    (hM : maxLenAttr mx M s.length) :
    ofRet (Gen.LoopSrc.CharsNotIn_parseImpl M (mn : Int) notc s loc) = charsNotInImpl notc mn mx s loc := by
  rw [charsNotInImpl_capOf]
  unfold Gen.LoopSrc.CharsNotIn_parseImpl
  rw [item_nat]
  cases h : s[loc]? with
  | none => simp [ofRet]
  | some c =>
    by_cases hin : mem c notc = true
    · have : c ∈ notc := by simpa [mem] using hin
      simp [Py.inChars, this, hin, ofRet]
    · have hin' : mem c notc = false := by simpa using hin
      have hn : c ∉ notc := by simpa [mem] using hin'
      obtain ⟨b, hb, hmin, hrun⟩ := loop_bound mx M s loc hM (fun d => !mem d notc)
      have hscan := scanWhile_runLen s notc true (fun d => !mem d notc) (by intro d; simp [mem]) b (loc + 1) hb
      simp only [Option.map_some, Option.bind_some, Py.inChars, List.contains_eq_mem, hn, decide_false,
        hin', Bool.false_eq_true, if_false]
      rw [hmin, show ((loc : Int) + 1) = ((loc + 1 : Nat) : Int) by omega, hscan]
      dsimp only
      rw [hrun, pySlice_nat]
      generalize runLen (fun d => !mem d notc) s (loc + 1) (b - (loc + 1)) = r
      by_cases hlen : loc + 1 + r - loc < mn
      · have : (((loc + 1 + r : Nat) : Int) - (loc : Int) < (mn : Int)) := by omega
        simp only [hlen, this, decide_true, if_true, ofRet, Int.toNat_natCast]
      · have : ¬ (((loc + 1 + r : Nat) : Int) - (loc : Int) < (mn : Int)) := by omega
        simp only [hlen, this, decide_false, if_false, Bool.false_eq_true, ofRet, Int.toNat_natCast, List.map]

/-! ## Word.parseImpl (the character loop) -/

/-- `wordSlowImpl` with its cap written as `capOf` -/
theorem wordSlowImpl_capOf (init body : List Char) (mn : Nat) (mx : Option Nat) (ms kw : Bool) (s : List Char)
    (loc : Nat) :
    wordSlowImpl init body mn mx ms kw s loc =
      match s[loc]? with
      | none => .idx
      | some c =>
        if !mem c init then .fail .parse loc else
        let e := loc + 1 + runLen (mem · body) s (loc + 1) (capOf mx s.length)
        let nextInBody := match s[e]? with
          | some d => mem d body
          | none => false
        let prevInBody := loc > 0 && (match s[loc - 1]? with
          | some d => mem d body
          | none => false)
        if e - loc < mn then .fail .parse e
        else if ms && nextInBody then .fail .parse e
        else if kw && (prevInBody || nextInBody) then .fail .parse e
        else .ok e [.s (slice s loc e)] := by
  unfold wordSlowImpl capOf
  cases mx <;> rfl

/-- `loc < instrlen and instring[loc] in body_chars` never raises, and is the model's `nextInBody` -/
theorem next_guard (s body : List Char) (e : Nat) :
    (if decide ((e : Int) < Py.len s) then
        Option.bind (Py.item s (e : Int)) (fun x => some (Py.inChars x body)) else some false)
      = some (match s[e]? with | some d => mem d body | none => false) := by
  unfold Py.len
  rw [item_nat]
  by_cases h : e < s.length
  · have : ((e : Int) < (s.length : Int)) := by omega
    simp [this, List.getElem?_eq_getElem h, Py.inChars, mem]
  · have : ¬ ((e : Int) < (s.length : Int)) := by omega
    simp [this, List.getElem?_eq_none (Nat.le_of_not_lt h)]

/-- `start > 0 and instring[start - 1] in body_chars` for a `start` inside the text never raises, and is the model's
    `prevInBody` -/
theorem prev_guard (s body : List Char) (loc : Nat) (hl : loc < s.length) :
    (if decide ((loc : Int) > 0) then
        Option.bind (Py.item s ((loc : Int) - 1)) (fun x => some (Py.inChars x body)) else some false)
      = some (decide (loc > 0) && (match s[loc - 1]? with | some d => mem d body | none => false)) := by
  by_cases h : loc > 0
  · have h1 : ((loc : Int) > 0) := by omega
    have e1 : ((loc : Int) - 1) = ((loc - 1 : Nat) : Int) := by omega
    rw [e1, item_nat]
    have h2 : loc - 1 < s.length := by omega
    simp [h, List.getElem?_eq_getElem h2, Py.inChars, mem]
  · simp [h]

/-- **Word.parseImpl (live source: the character loop, strict-max test and as_keyword test) = model**, for all texts,
    locations and attribute values (`self.maxLen` as in `maxLenAttr`, `self.minLen = mn ≥ 0`, any two character sets,
    any values of `maxSpecified` / `asKeyword`) -/
theorem src_wordSlow_eq (init body : List Char) (mn : Nat) (mx : Option Nat) (ms kw : Bool) (M : Int) (s : List Char)
    (loc : Nat) (hM : maxLenAttr mx M s.length) :
    ofRet (Gen.LoopSrc.Word_parseImpl kw body init M ms (mn : Int) s loc) = wordSlowImpl init body mn mx ms kw s loc := by
  rw [wordSlowImpl_capOf]
  unfold Gen.LoopSrc.Word_parseImpl
  rw [item_nat]
  cases h : s[loc]? with
  | none => simp [ofRet]
  | some c =>
    have hl : loc < s.length := by
      rcases Nat.lt_or_ge loc s.length with h' | h'
      · exact h'
      · rw [List.getElem?_eq_none h'] at h; cases h
    by_cases hin : mem c init = true
    · have hc : c ∈ init := by simpa [mem] using hin
      obtain ⟨b, hb, hmin, hrun⟩ := loop_bound mx M s loc hM (mem · body)
      have hscan := scanWhile_runLen s body false (mem · body) (by intro d; simp [mem]) b (loc + 1) hb
      have e0 : Py.inChars [c] init = true := by simp [Py.inChars, hc]
      simp only [Option.map_some, Option.bind_some, e0, hin, Bool.not_true, Bool.false_eq_true, if_false]
      rw [hmin, show ((loc : Int) + 1) = ((loc + 1 : Nat) : Int) by omega, hscan]
      dsimp only
      rw [hrun]
      generalize runLen (fun x => mem x body) s (loc + 1) (b - (loc + 1)) = r
      rw [next_guard, prev_guard s body loc hl, pySlice_nat]
      generalize (match s[loc + 1 + r]? with | some d => mem d body | none => false) = nx
      generalize (match s[loc - 1]? with | some d => mem d body | none => false) = pv
      by_cases hlen : loc + 1 + r - loc < mn
      · have : (((loc + 1 + r : Nat) : Int) - (loc : Int) < (mn : Int)) := by omega
        simp only [hlen, this, decide_true, if_true, ofRet, Int.toNat_natCast]
      · have : ¬ (((loc + 1 + r : Nat) : Int) - (loc : Int) < (mn : Int)) := by omega
        simp only [hlen, this, decide_false, if_false, Bool.false_eq_true]
        have ht : ((loc : Int) + 1 + (r : Int)).toNat = loc + 1 + r := by omega
        cases ms <;> cases kw <;> cases nx <;> cases pv <;> by_cases h0 : loc > 0 <;>
          simp [h0, ofRet, ht]
    · have hin' : mem c init = false := by simpa using hin
      have hn : c ∉ init := by simpa [mem] using hin'
      simp [Py.inChars, hn, hin', ofRet]

/-! ### non-vacuity -/
example : maxLenAttr (some 3) 3 5 ∧ maxLenAttr none 9223372036854775807 5 := by
  constructor <;> simp [maxLenAttr]

example : Gen.LoopSrc.CharsNotIn_parseImpl 3 2 [' ', ','] "abcd, e".toList 0 = .ok 3 [['a', 'b', 'c']] ∧
    Gen.LoopSrc.CharsNotIn_parseImpl 9223372036854775807 2 [' ', ','] "abcd, e".toList 0 = .ok 4 [['a', 'b', 'c', 'd']] ∧
    Gen.LoopSrc.CharsNotIn_parseImpl 9223372036854775807 2 [' ', ','] "abcd, e".toList 6 = .parseExc 7 ∧
    Gen.LoopSrc.CharsNotIn_parseImpl 9223372036854775807 1 [' ', ','] "abcd, e".toList 4 = .parseExc 4 ∧
    Gen.LoopSrc.CharsNotIn_parseImpl 9223372036854775807 1 [' ', ','] "abcd, e".toList 7 = .indexError := by
  decide +kernel

-- Word("ab", "abc"): plain; max=2 (strict-max test fails at "abc"); as_keyword after a body character; IndexError at the end
example : Gen.LoopSrc.Word_parseImpl false ['a', 'b', 'c'] ['a', 'b'] 9223372036854775807 false 1 "xabc d".toList 1
      = .ok 4 [['a', 'b', 'c']] ∧
    Gen.LoopSrc.Word_parseImpl false ['a', 'b', 'c'] ['a', 'b'] 2 true 1 "xabc d".toList 1 = .parseExc 3 ∧
    Gen.LoopSrc.Word_parseImpl false ['a', 'b', 'c'] ['a', 'b'] 2 true 1 "xab d".toList 1 = .ok 3 [['a', 'b']] ∧
    Gen.LoopSrc.Word_parseImpl true ['a', 'b', 'c'] ['a', 'b'] 9223372036854775807 false 1 "cabc d".toList 1 = .parseExc 4 ∧
    Gen.LoopSrc.Word_parseImpl false ['a', 'b', 'c'] ['a', 'b'] 9223372036854775807 false 3 "xab d".toList 1 = .parseExc 3 ∧
    Gen.LoopSrc.Word_parseImpl false ['a', 'b', 'c'] ['a', 'b'] 9223372036854775807 false 1 "xab".toList 3 = .indexError := by
  decide +kernel

-- the theorems instantiated: their hypothesis holds for a given maximum and for `_MAX_INT`
example : ofRet (Gen.LoopSrc.Word_parseImpl false ['a', 'b', 'c'] ['a', 'b'] 2 true 1 "xabc d".toList 1)
    = wordSlowImpl ['a', 'b'] ['a', 'b', 'c'] 1 (some 2) true false "xabc d".toList 1 :=
  src_wordSlow_eq _ _ 1 (some 2) true false 2 _ 1 (by simp [maxLenAttr])

example : ofRet (Gen.LoopSrc.CharsNotIn_parseImpl 9223372036854775807 2 [' ', ','] "abcd, e".toList 0)
    = charsNotInImpl [' ', ','] 2 none "abcd, e".toList 0 :=
  src_charsNotIn_eq _ 2 none 9223372036854775807 _ 0 (by simp [maxLenAttr])

end PP.Parse
