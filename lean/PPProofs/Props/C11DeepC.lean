import PPProofs.Lemmas.PRHeapDeepC
/-!
# C11 — `ParseResults.deepcopy()` with CONTAINER tokens (tuple / list / dict of groups), at every depth

Model: `PPModel/Mod/PRHeapDeepC.lean` — `deepcopyC` transcribes results.py:587-606 including the container branches
598-605 (a `MutableMapping` / `Iterable` token is rebuilt; its `ParseResults` elements are deep-copied, its other
elements kept).  The token tree of an object now has the groups inside its container tokens as children as well
(`Kid`, `TReachC`, `TWFC`); `asListC` expands containers.

Proved for all heaps / objects / depths / mutation sequences (hypothesis `TWFC h f o`: that tree is allocated, depth
≤ fuel): `deepcopyC_tokens_fresh` and `deepcopyC_frame_tokens` — the statements of `deepcopy_tokens_fresh` /
`deepcopy_frame_tokens` (PPProofs/Props/C11Deep.lean) with groups inside container tokens included.  This is the clause
the oracle stream `frames:container-tokens` of harness/props/c11.py checks on the real class (for `deepcopy()`).

Not modelled: containers nested in containers (results.py:601/604 do not descend: the inner container is shared —
here an opaque scalar); `copy.deepcopy`/pickle with container tokens.
-/
namespace PP.PRHeap

variable {α : Type}

/-- **`deepcopy()` with container tokens: every group reachable through token lists and container tokens of the copy
    is new** (new object, new list cell, new dict cell), is not in the original's token tree, and the copy shows the
    original's nested list (containers expanded) to every depth; the original still shows what it showed. -/
theorem deepcopyC_tokens_fresh (f : Nat) (h : Heap (CV α)) (o : Nat) (hw : TWFC h f o) :
    (∀ x, TReachC (deepcopyC f h o).1 (deepcopyC f h o).2 x →
        (h.next ≤ x ∧ h.next ≤ ((deepcopyC f h o).1.objs x).lst ∧ h.next ≤ ((deepcopyC f h o).1.objs x).dct) ∧
        ¬ TReachC h o x) ∧
    (∀ y, TReachC h o y → y < h.next ∧ (h.objs y).lst < h.next ∧ (h.objs y).dct < h.next) ∧
    (∀ k, asListC k (deepcopyC f h o).1 (deepcopyC f h o).2 = asListC k h o) ∧
    (∀ k, asListC k (deepcopyC f h o).1 o = asListC k h o) := by
  have hc := deepcopyC_corr f h o hw
  have e := deepcopyC_ext f h o
  refine ⟨fun x hx => ?_, fun y hy => TInC.reach hy f hw, fun k => CorrC.asList k f o _ hc, fun k => ?_⟩
  · obtain ⟨a, b, c⟩ := TInC.reach hx f (CorrC.fresh f o _ hc)
    refine ⟨⟨a.1, b.1, c.1⟩, fun ho => ?_⟩
    have := (TInC.reach ho f hw).1
    omega
  · exact asListC_agree (fun i hi => e.objs i hi) (fun i hi => e.lists i hi) k f o hw

/-- **frames, container tokens included**: own mutations of any group of the copy's token tree — also one sitting
    inside a tuple / list / dict token — never change what the original shows, and vice versa. -/
theorem deepcopyC_frame_tokens (f : Nat) (h : Heap (CV α)) (o : Nat) (hw : TWFC h f o) (ms : List (Mut (CV α))) :
    (∀ x, TReachC (deepcopyC f h o).1 (deepcopyC f h o).2 x →
        ∀ k, asListC k (mutateAll (deepcopyC f h o).1 x ms) o = asListC k h o) ∧
    (∀ y, TReachC h o y →
        ∀ k, asListC k (mutateAll (deepcopyC f h o).1 y ms) (deepcopyC f h o).2 = asListC k h o) := by
  have hc := deepcopyC_corr f h o hw
  have e := deepcopyC_ext f h o
  have hfresh := CorrC.fresh f o _ hc
  refine ⟨fun x hx k => ?_, fun y hy k => ?_⟩
  · obtain ⟨_, b, _⟩ := TInC.reach hx f hfresh
    obtain ⟨A, B⟩ := mutateAll_objs_lists ms (deepcopyC f h o).1 x
    have hw' : TInC (· < h.next) (· < h.next) (deepcopyC f h o).1 f o :=
      TInC.agree (fun i hi => e.objs i hi) (fun i hi => e.lists i hi) (fun _ hi => hi) (fun _ hi => hi) f o hw
    rw [asListC_agree (fun i _ => congrFun A i) (fun i (hi : i < h.next) => B i (by omega)) k f o hw']
    exact asListC_agree (fun i hi => e.objs i hi) (fun i hi => e.lists i hi) k f o hw
  · obtain ⟨a, b, _⟩ := TInC.reach hy f hw
    obtain ⟨A, B⟩ := mutateAll_objs_lists ms (deepcopyC f h o).1 y
    have hb : ((deepcopyC f h o).1.objs y).lst < h.next := by rw [e.objs y a]; exact b
    rw [asListC_agree (fun i _ => congrFun A i)
      (fun i (hi : h.next ≤ i ∧ i < (deepcopyC f h o).1.next) => B i (by omega)) k f _ hfresh]
    exact CorrC.asList k f o _ hc

/-! ### non-vacuity: `contHeap` — object 8 = `[(<['a']>, 'x', <['b']>), <['a']>]` -/

theorem contHeap_twf : TWFC contHeap 1 8 := by
  have flat : ∀ o, o = 2 ∨ o = 5 → TWFC contHeap 0 o := by
    intro o ho
    rcases ho with rfl | rfl
    · refine ⟨by decide, by decide, by decide, fun n hn => ?_⟩
      rcases hn with a | ⟨k, items, a, _⟩ <;> simp [contHeap] at a
    · refine ⟨by decide, by decide, by decide, fun n hn => ?_⟩
      rcases hn with a | ⟨k, items, a, _⟩ <;> simp [contHeap] at a
  refine ⟨by decide, by decide, by decide, fun n hn => flat n ?_⟩
  rcases hn with a | ⟨k, items, a, b⟩
  · have : n = 2 := by simpa [contHeap] using a
    exact Or.inl this
  · have : k = 1 ∧ items = [.ref 2, .atom "x", .ref 5] := by simpa [contHeap] using a
    obtain ⟨_, rfl⟩ := this
    simpa using b

/-- the copy (object 11) is `[(<14>, 'x', <17>), <20>]`: new groups inside a rebuilt tuple (the group that occurs
    twice is copied twice: `deepcopy()` has no memo), showing the same nested list -/
example :
    (deepcopyC 1 contHeap 8).2 = 11 ∧
    (view (deepcopyC 1 contHeap 8).1 11).1 = [.atom (.cont 1 [.ref 14, .atom "x", .ref 17]), .ref 20] ∧
    asListC 3 (deepcopyC 1 contHeap 8).1 11 = asListC 3 contHeap 8 ∧
    asListC 3 contHeap 8 = [.lb, .a (.cont 1 []), .lb, .a (.sc "a"), .rb, .a (.sc "x"), .lb, .a (.sc "b"), .rb, .rb,
                            .lb, .a (.sc "a"), .rb, .rb] := by decide +kernel

/-- append to the group inside the copy's tuple: the original is unchanged -/
example : asListC 3 (mutate (deepcopyC 1 contHeap 8).1 14 (.append (.atom (.sc "z")))) 8 = asListC 3 contHeap 8 ∧
    asListC 3 (mutate (deepcopyC 1 contHeap 8).1 14 (.append (.atom (.sc "z")))) 11 ≠ asListC 3 contHeap 8 := by
  decide +kernel

end PP.PRHeap
