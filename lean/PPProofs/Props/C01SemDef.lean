import PPModel.Mod.PlainFrag
/-!
# C01 — the PEG reading as ONE declarative big-step semantics (definitions)

`Sem g s task result` is the PEG reading of pyparsing's combinators with the whitespace rule, written as an
inductive relation over the node table — it mentions neither fuel, nor exceptions, nor `IndexError`, nor the
failure location bookkeeping of the code: a task either yields `some (end, tokens)` or `none` (no match).
The closed theorem `parse … = r → Sem … r` (for the *plain* fragment below) is in `Props/C01Sem.lean`.

Plain fragment (`plainNode`): Literal (both classes), Empty, NoMatch, StringEnd, the character-class terminals Word /
CharsNotIn / Keyword / CaselessLiteral / LineEnd / WordStart / WordEnd (taken as given matchers), And (non-empty, no error stop),
MatchFirst, Or, Opt (with or without default), OneOrMore / ZeroOrMore (no stop_on), NotAny, FollowedBy, Group, Suppress,
Combine (its `adjacent` is the children's whitespace configuration), assigned
Forward, plain wrappers; no parse actions / results names, no ignorables. Whitespace skipping (`skipWhitespace`,
`whiteChars`, `callPreparse`) is unrestricted — it is the point of the property.
-/
namespace PP.Parse

/-- every node of the table is plain -/
def Plain (g : Grammar) : Prop := ∀ nd ∈ g, plainNode nd = true

instance (g : Grammar) : Decidable (Plain g) := by unfold Plain; infer_instance

/-- the whitespace rule: where an element starts matching when `_parse` is entered at `loc` with `callPreParse = cp` -/
def startAt (nd : Node) (s : List Char) (loc : Nat) (cp : Bool) : Nat :=
  if cp && nd.callPre && nd.skipWs then skipWhite nd.white s loc else loc

abbrev Res := Option (Nat × List Tok)

/-- a terminal's outcome as a result of the reading: a match, or no match -/
def outRes : Out → Res
  | .ok e ts => some (e, ts)
  | _ => none

/-- terminals of the plain fragment, as a function of (kind, input, location): `none` = not a terminal.
    Literal, Empty, NoMatch and StringEnd are spelled out; for the character-class terminals (Word, CharsNotIn, Keyword,
    CaselessLiteral, LineEnd, WordStart, WordEnd) the reading takes the terminal's own matcher `termImpl` as given -/
def leafSem (k : Kind) (s : List Char) (loc : Nat) : Option Res :=
  match k with
  | .lit m => some (if loc < s.length ∧ (s.drop loc).take m.length = m then some (loc + m.length, [.s m]) else none)
  | .lit1 c => some (if s[loc]? = some c then some (loc + 1, [.s [c]]) else none)
  | .empty => some (some (loc, []))
  | .noMatch => some none
  | .stringEnd => some (if loc < s.length then none else some (if loc = s.length then loc + 1 else loc, []))
  | k => (termImpl k s loc).map outRes

/-- the single sub-expression of a transparent wrapper (`ParseElementEnhance.parseImpl`) -/
def wrapped : Kind → Option Nat
  | .group e => some e
  | .suppress e => some e
  | .combine e _ => some e
  | .enhance e => some e
  | .forward (some e) => some e
  | _ => none

/-- what a non-matching `Opt` contributes: nothing, or its default value -/
def dfltToks : Option (List Char) → List Tok
  | none => []
  | some v => [.s v]

/-- `^`: of the head alternative's match and the best match among the remaining ones, the one that ends later — the
    head's on a tie (so: the longest, leftmost among equally long ones) -/
def pick : Res → Res → Res
  | none, r2 => r2
  | some x, none => some x
  | some x, some y => if y.1 > x.1 then some y else some x

/-- where the alternatives of an `Or` are tried: `Or` skips whitespace itself exactly when every alternative would
    (core.py:4268-4272), otherwise each alternative skips for itself from the location `Or` was called at -/
def orStart (g : Grammar) (nd : Node) (s : List Char) (es : List Nat) (loc : Nat) : Nat :=
  if es.all (callPreOf g) && nd.skipWs then skipWhite nd.white s loc else loc

inductive Task where
  /-- `expr._parse(instring, loc, callPreParse = cp)` of the node `id` -/
  | node (id loc : Nat) (cp : Bool)
  /-- the element's own matching (`parseImpl`) at the location reached after skipping -/
  | impl (nd : Node) (loc : Nat)
  /-- the rest of a sequence, tokens so far `acc` -/
  | seq (es : List Nat) (loc : Nat) (acc : List Tok)
  /-- ordered choice among the remaining alternatives -/
  | alt (es : List Nat) (loc : Nat)
  /-- further iterations of a repetition -/
  | star (e loc : Nat) (acc : List Tok)
  /-- longest-match choice among the alternatives `es`, all tried at `loc` -/
  | orScan (es : List Nat) (loc : Nat)

/-- the PEG reading -/
inductive Sem (g : Grammar) (s : List Char) : Task → Res → Prop where
  /-- skip whitespace (if the element does and the caller asked for it), match, shape the tokens -/
  | node {id loc cp nd r} : g[id]? = some nd → Sem g s (.impl nd (startAt nd s loc cp)) r →
      Sem g s (.node id loc cp) (r.map fun x => (x.1, postParse nd x.2))
  | leaf {nd loc r} : leafSem nd.kind s loc = some r → Sem g s (.impl nd loc) r
  /-- `e0 + e1 + …`: the first element at the location already reached, every later one skips for itself -/
  | andFail {nd loc e0 rest} : nd.kind = .and (e0 :: rest) → Sem g s (.node e0 loc false) none →
      Sem g s (.impl nd loc) none
  | andOk {nd loc e0 rest l ts r} : nd.kind = .and (e0 :: rest) → Sem g s (.node e0 loc false) (some (l, ts)) →
      Sem g s (.seq rest l ts) r → Sem g s (.impl nd loc) r
  | seqNil {loc acc} : Sem g s (.seq [] loc acc) (some (loc, acc))
  | seqFail {e es loc acc} : Sem g s (.node e loc true) none → Sem g s (.seq (e :: es) loc acc) none
  | seqOk {e es loc acc l ts r} : Sem g s (.node e loc true) (some (l, ts)) → Sem g s (.seq es l (acc ++ ts)) r →
      Sem g s (.seq (e :: es) loc acc) r
  /-- `a | b | …`: the first alternative that matches, all tried at the same location -/
  | matchFirst {nd loc es r} : nd.kind = .matchFirst es → Sem g s (.alt es loc) r → Sem g s (.impl nd loc) r
  | altNil {loc} : Sem g s (.alt [] loc) none
  | altOk {e es loc x} : Sem g s (.node e loc true) (some x) → Sem g s (.alt (e :: es) loc) (some x)
  | altNext {e es loc r} : Sem g s (.node e loc true) none → Sem g s (.alt es loc) r → Sem g s (.alt (e :: es) loc) r
  /-- `a ^ b ^ …`: every alternative is tried at the same location; the longest match wins, the leftmost on a tie -/
  | or {nd loc es r} : nd.kind = .or es → Sem g s (.orScan es (orStart g nd s es loc)) r → Sem g s (.impl nd loc) r
  | orNil {loc} : Sem g s (.orScan [] loc) none
  | orCons {e es loc r1 r2} : Sem g s (.node e loc true) r1 → Sem g s (.orScan es loc) r2 →
      Sem g s (.orScan (e :: es) loc) (pick r1 r2)
  /-- `Opt(e)` / `Opt(e, default)`: `e`'s match, else the empty match (or the default value) where Opt started -/
  | opt {nd loc e d r} : nd.kind = .opt e d → Sem g s (.node e loc false) r →
      Sem g s (.impl nd loc) (some (r.getD (loc, dfltToks d)))
  /-- `e[1, ...]` / `e[...]`: greedy, never gives back, every iteration skips for itself and must advance -/
  | manyFail {nd loc e one} : nd.kind = .many e none one → Sem g s (.node e loc true) none →
      Sem g s (.impl nd loc) (if one then none else some (loc, []))
  | manyOk {nd loc e one l ts r} : nd.kind = .many e none one → Sem g s (.node e loc true) (some (l, ts)) →
      Sem g s (.star e l ts) r → Sem g s (.impl nd loc) r
  | starStop {e loc acc} : Sem g s (.node e loc true) none → Sem g s (.star e loc acc) (some (loc, acc))
  | starStep {e loc acc l ts r} : Sem g s (.node e loc true) (some (l, ts)) → loc < l →
      Sem g s (.star e l (acc ++ ts)) r → Sem g s (.star e loc acc) r
  /-- lookaheads consume nothing -/
  | notAny {nd loc e r} : nd.kind = .notAny e → Sem g s (.node e loc true) r →
      Sem g s (.impl nd loc) (if r.isSome then none else some (loc, []))
  | followedBy {nd loc e r} : nd.kind = .followedBy e → Sem g s (.node e loc true) r →
      Sem g s (.impl nd loc) (r.map fun x => (loc, if annotatedL x.2 then [.hid x.2] else []))
  /-- Group / Suppress / Forward / plain wrappers match what their expression matches, at the location reached -/
  | wrap {nd loc e r} : wrapped nd.kind = some e → Sem g s (.node e loc false) r → Sem g s (.impl nd loc) r

/-- how an outcome of the code's algorithm is read against a result of the reading: a match is the same match, a
    `ParseException` is "no match" (its location is diagnostics, not semantics); a fatal exception or a raw
    `IndexError` never agrees; a run that does not return says nothing -/
def Agrees (g : Grammar) (s : List Char) (t : Task) : Out → Prop
  | .ok e ts => Sem g s t (some (e, ts))
  | .fail c _ => c = .parse ∧ Sem g s t none
  | .idx => False
  | .hang => True

end PP.Parse
