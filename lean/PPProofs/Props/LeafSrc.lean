import PPModel.Base.PyStr
import PPModel.Mod.Parse
import PPProofs.Props.Gen.LeafSrc
import PPProofs.Props.C14Src
/-!
# The leaf matchers of the parse model ARE the translated source (translator tie for the shared parse model)

`Props/Gen/LeafSrc.lean` is regenerated on every run by `harness/py2lean.py` from the live source text of the
`parseImpl` methods of `Empty`, `NoMatch`, `Literal`, `_SingleCharLiteral`, `StringEnd`, `LineEnd`, `WordStart`,
`WordEnd` (statement by statement; an index expression that raises IndexError is `none`, propagated in CPython's
evaluation order).  The theorems prove, for ALL texts, locations and attribute values satisfying the constructor's
invariants (`matchLen = len(match)`, `firstMatchChar = match[:1]` — read from the live objects by `gram.extract`),
that the hand-written leaf functions of `PPModel/Mod/Parse.lean` return exactly what the translated source returns,
IndexError included.  A change of one of these methods changes the generated term and breaks the proof.
-/
namespace PP.Parse
open PP

/-- reading a `Py.Ret` as an outcome of the parse model -/
def ofRet : Py.Ret → Out
  | .ok e ts => .ok e.toNat (ts.map Tok.s)
  | .parseExc l => .fail .parse l.toNat
  | .indexError => .idx

theorem item_nat (s : List Char) (loc : Nat) : Py.item s (loc : Int) = (s[loc]?).map (fun c => [c]) := by
  unfold Py.item
  have : ¬ ((loc : Int) < 0) := by omega
  simp [this]

theorem src_empty_eq (s : List Char) (loc : Nat) : ofRet (Gen.LeafSrc.Empty_parseImpl s loc) = .ok loc [] := by
  simp [Gen.LeafSrc.Empty_parseImpl, ofRet]

theorem src_noMatch_eq (s : List Char) (loc : Nat) : ofRet (Gen.LeafSrc.NoMatch_parseImpl s loc) = .fail .parse loc := by
  simp [Gen.LeafSrc.NoMatch_parseImpl, ofRet]

/-- **StringEnd.parseImpl (live source) = model** -/
theorem src_stringEnd_eq (s : List Char) (loc : Nat) :
    ofRet (Gen.LeafSrc.StringEnd_parseImpl s loc) = stringEndImpl s loc := by
  unfold Gen.LeafSrc.StringEnd_parseImpl stringEndImpl Py.len
  by_cases h1 : loc < s.length
  · have : ((loc : Int) < (s.length : Int)) := by omega
    simp [h1, this, ofRet]
  · by_cases h2 : loc = s.length
    · subst h2; simp [ofRet]
    · have a : ¬ ((loc : Int) < (s.length : Int)) := by omega
      have b : ¬ ((loc : Int) = (s.length : Int)) := by omega
      have c : ((loc : Int) > (s.length : Int)) := by omega
      simp [h1, h2, a, b, c, ofRet]

/-- **LineEnd.parseImpl (live source) = model** -/
theorem src_lineEnd_eq (s : List Char) (loc : Nat) :
    ofRet (Gen.LeafSrc.LineEnd_parseImpl s loc) = lineEndImpl s loc := by
  unfold Gen.LeafSrc.LineEnd_parseImpl lineEndImpl Py.len
  rw [item_nat]
  by_cases h1 : loc < s.length
  · have : ((loc : Int) < (s.length : Int)) := by omega
    simp only [this, decide_true, h1, if_true]
    rw [List.getElem?_eq_getElem h1]
    by_cases hc : s[loc] = '\n'
    · simp [hc, ofRet]
    · simp [hc, ofRet]
  · have a : ¬ ((loc : Int) < (s.length : Int)) := by omega
    by_cases h2 : loc = s.length
    · subst h2; simp [ofRet]
    · have b : ¬ ((loc : Int) = (s.length : Int)) := by omega
      simp [h1, h2, a, b, ofRet]

/-- **_SingleCharLiteral.parseImpl (live source) = model**, for the attribute values `Literal.__init__` sets -/
theorem src_lit1_eq (c : Char) (s : List Char) (loc : Nat) :
    ofRet (Gen.LeafSrc.SingleCharLiteral_parseImpl [c] [c] s loc) = lit1Impl c s loc := by
  unfold Gen.LeafSrc.SingleCharLiteral_parseImpl lit1Impl
  rw [item_nat]
  cases h : s[loc]? with
  | none => simp [ofRet]
  | some a =>
    by_cases hc : a = c
    · subst hc; simp [ofRet]
    · simp [hc, ofRet]

theorem startswith_nat (s m : List Char) (loc : Nat) (h : loc < s.length) (hm : m ≠ []) :
    Py.startswith s m (some (loc : Int)) = startsWithAt s m loc := by
  unfold Py.startswith startsWithAt
  have : ¬ ((loc : Int) < 0) := by omega
  simp only [this, if_false, Int.toNat_natCast]
  by_cases hl : loc + m.length ≤ s.length
  · simp [hl]
  · simp only [hl, decide_false, Bool.false_and]
    symm
    rw [beq_eq_false_iff_ne]
    intro heq
    have hlen := congrArg List.length heq
    simp at hlen
    omega

/-- **Literal.parseImpl (live source) = model**, for the attribute values `Literal.__init__` sets
    (`match = m`, `matchLen = len(m)`, `firstMatchChar = m[:1]`, `m` non-empty) -/
theorem src_lit_eq (m : List Char) (hm : m ≠ []) (s : List Char) (loc : Nat) :
    ofRet (Gen.LeafSrc.Literal_parseImpl (m.take 1) m (m.length : Int) s loc) = litImpl m s loc := by
  unfold Gen.LeafSrc.Literal_parseImpl litImpl
  rw [item_nat]
  cases h : s[loc]? with
  | none => simp [ofRet]
  | some a =>
    have hlt : loc < s.length := by
      rcases Nat.lt_or_ge loc s.length with h' | h'
      · exact h'
      · rw [List.getElem?_eq_none h'] at h; cases h
    rw [startswith_nat s m loc hlt hm]
    cases m with
    | nil => exact absurd rfl hm
    | cons x xs =>
      by_cases hx : a = x
      · subst hx
        cases hs : startsWithAt s (a :: xs) loc <;> simp [hs, ofRet] <;> omega
      · simp [hx, ofRet]

/-- **WordStart.parseImpl (live source) = model** -/
theorem src_wordStart_eq (cs s : List Char) (loc : Nat) :
    ofRet (Gen.LeafSrc.WordStart_parseImpl cs s loc) = wordStartImpl cs s loc := by
  unfold Gen.LeafSrc.WordStart_parseImpl wordStartImpl
  by_cases h0 : loc = 0
  · subst h0; simp [ofRet]
  · have e1 : ((loc : Int) - 1) = ((loc - 1 : Nat) : Int) := by omega
    have ne : ((loc : Int) != 0) = true := by simp; omega
    rw [e1, item_nat, item_nat]
    simp only [ne, h0, beq_iff_eq, if_false]
    cases ha : s[loc - 1]? with
    | none => simp [ofRet]
    | some a =>
      by_cases hin : mem a cs = true
      · have : a ∈ cs := by simpa [mem] using hin
        simp [Py.inChars, this, hin, ofRet]
      · have hin' : mem a cs = false := by simpa using hin
        have : a ∉ cs := by simpa [mem] using hin'
        cases hb : s[loc]? with
        | none => simp [Py.inChars, this, hin', ofRet]
        | some b =>
          by_cases hb2 : mem b cs = true
          · have : b ∈ cs := by simpa [mem] using hb2
            simp [Py.inChars, *, ofRet]
          · have hb2' : mem b cs = false := by simpa using hb2
            have : b ∉ cs := by simpa [mem] using hb2'
            simp [Py.inChars, *, ofRet]

/-- **WordEnd.parseImpl (live source) = model** (incl. `instring[loc-1]` at `loc = 0` wrapping to the last character) -/
theorem src_wordEnd_eq (cs s : List Char) (loc : Nat) :
    ofRet (Gen.LeafSrc.WordEnd_parseImpl cs s loc) = wordEndImpl cs s loc := by
  unfold Gen.LeafSrc.WordEnd_parseImpl wordEndImpl Py.len
  by_cases h1 : loc < s.length
  · have hpos : 0 < s.length := by omega
    have g1 : ((s.length : Int) > 0) := by omega
    have g2 : ((loc : Int) < (s.length : Int)) := by omega
    have hprev : Py.item s ((loc : Int) - 1)
        = ((if loc == 0 then s[s.length - 1]? else s[loc - 1]?).map (fun c => [c])) := by
      by_cases h0 : loc = 0
      · subst h0
        unfold Py.item
        have e2 : ¬ ((-1 : Int) + (s.length : Int) < 0) := by omega
        have e3 : ((-1 : Int) + (s.length : Int)).toNat = s.length - 1 := by omega
        simp [e2, e3]
      · have e1 : ((loc : Int) - 1) = ((loc - 1 : Nat) : Int) := by omega
        rw [e1, item_nat]; simp [h0]
    rw [item_nat, hprev]
    simp only [g1, g2, decide_true, Bool.and_true, hpos, h1]
    rw [List.getElem?_eq_getElem h1]
    by_cases hin : mem s[loc] cs = true
    · have : s[loc] ∈ cs := by simpa [mem] using hin
      simp [Py.inChars, this, hin, ofRet]
    · have hin' : mem s[loc] cs = false := by simpa using hin
      have : s[loc] ∉ cs := by simpa [mem] using hin'
      cases hb : (if loc == 0 then s[s.length - 1]? else s[loc - 1]?) with
      | none => simp [Py.inChars, this, hin', hb, ofRet]
      | some b =>
        by_cases hb2 : mem b cs = true
        · have : b ∈ cs := by simpa [mem] using hb2
          simp [Py.inChars, *, ofRet]
        · have hb2' : mem b cs = false := by simpa using hb2
          have : b ∉ cs := by simpa [mem] using hb2'
          simp [Py.inChars, *, ofRet]
  · have g2 : ¬ ((loc : Int) < (s.length : Int)) := by omega
    simp [h1, g2, ofRet]

/-- **LineStart.parseImpl (live source) = model**: the translated method calls the translated `util.col`
    (`src_col_eq`), the model calls the hand-written `LineCol.col` -/
theorem src_lineStart_eq (s : List Char) (loc : Nat) :
    ofRet (Gen.LeafSrc.LineStart_parseImpl s loc)
      = (if LineCol.col loc s == 1 then Out.ok loc [] else Out.fail .parse loc) := by
  unfold Gen.LeafSrc.LineStart_parseImpl
  rw [LineCol.src_col_eq]
  by_cases h : LineCol.col loc s = 1
  · simp [h, ofRet]
  · have h' : ¬ ((LineCol.col loc s : Int) = 1) := by omega
    simp [h, h', ofRet]

/-! ### non-vacuity: the translated source evaluated on concrete texts -/
example : Gen.LeafSrc.Literal_parseImpl ['a'] ['a', 'b'] 2 "xab".toList 1 = .ok 3 [['a', 'b']] ∧
    Gen.LeafSrc.Literal_parseImpl ['a'] ['a', 'b'] 2 "xab".toList 3 = .indexError ∧
    Gen.LeafSrc.StringEnd_parseImpl "ab".toList 2 = .ok 3 [] ∧
    Gen.LeafSrc.WordEnd_parseImpl ['a'] "ab".toList 0 = .parseExc 0 := by decide

end PP.Parse
