import PPProofs.Lemmas.Regex
import PPProofs.Props.Gen.Patterns
/-!
# C18 — built-in expressions accept exactly the strings of their documented syntax

`Gen/Patterns.lean` is regenerated on every run from the live package (`.pattern` / `.reString` of each built-in).
For every built-in there is
* an obligation `…_pattern_ast : Regex.parse <pattern from the source> = some <AST>` (`decide +kernel`), and
* an unbounded language theorem `…_language : ast.Accepts s ↔ <documented syntax> s` for **all** strings `s`,
  where `r.Accepts s` says that the *preferred* match of `re.match` (leftmost, greedy, ordered alternation,
  backtracking — `PPModel/Base/Regex.lean`) consumes the whole of `s`; this is what
  `expr.parse_string(s, parse_all=True)` observes for a `Regex`/`Word` built-in.
Agreement of the converted values with `int()`, `float()`, `ipaddress`, `uuid`, `datetime` is not provable here
(no model of that CPython library code); it is checked by the oracle only.
-/
namespace PP.C18
open PP.Regex PP.Regex.Re

def IsDigit (c : Char) : Prop := '0' ≤ c ∧ c ≤ '9'
def IsHexDigit (c : Char) : Prop := ('0' ≤ c ∧ c ≤ '9') ∨ ('a' ≤ c ∧ c ≤ 'f') ∨ ('A' ≤ c ∧ c ≤ 'F')
def IsSign (c : Char) : Prop := c = '+' ∨ c = '-'
instance (c : Char) : Decidable (IsDigit c) := by unfold IsDigit; infer_instance
instance (c : Char) : Decidable (IsHexDigit c) := by unfold IsHexDigit; infer_instance
instance (c : Char) : Decidable (IsSign c) := by unfold IsSign; infer_instance

theorem has_digit_range (c : Char) : (CSet.mk false [.r '0' '9'] false).has c = true ↔ IsDigit c := by
  simp [CSet.has, Item.has, IsDigit]
theorem has_digit (c : Char) : (CSet.mk false [.d] false).has c = true ↔ IsDigit c := by
  simp [CSet.has, Item.has, IsDigit, isDigit]
theorem has_hex (c : Char) :
    (CSet.mk false [.r '0' '9', .r 'A' 'F', .r 'a' 'f'] false).has c = true ↔ IsHexDigit c := by
  simp only [CSet.has, Item.has, IsHexDigit]
  simp
  constructor <;> rintro (h | h | h) <;> simp [h]
theorem has_sign (c : Char) : (CSet.mk false [.c '+', .c '-'] false).has c = true ↔ IsSign c := by
  simp [CSet.has, Item.has, IsSign]

/-! ## integer  (`Word(nums)`, reString `[0-9]+`) -/
def integerAst : Re := plus (cls [.r '0' '9'])

theorem integer_pattern_ast : parse Gen.Patterns.integer = some ⟨integerAst, 0, []⟩ := by decide +kernel

/-- documented syntax: one or more decimal digits -/
def IsInteger (s : List Char) : Prop := s ≠ [] ∧ ∀ c ∈ s, IsDigit c

theorem integer_language (s : List Char) : integerAst.Accepts s ↔ IsInteger s := by
  unfold integerAst plus cls IsInteger
  rw [accepts_rep_set]
  simp only [has_digit_range]
  constructor
  · rintro ⟨h1, h2⟩; exact ⟨by intro h; simp [h] at h1, h2⟩
  · rintro ⟨h1, h2⟩; exact ⟨by cases s <;> simp_all, h2⟩

example : integerAst.Accepts "2024".toList := by decide
example : ¬ integerAst.Accepts "20x4".toList := by decide

/-! ## hex_integer  (`Word(hexnums)`, reString `[0-9A-Fa-f]+`) -/
def hexIntegerAst : Re := plus (cls [.r '0' '9', .r 'A' 'F', .r 'a' 'f'])

theorem hex_integer_pattern_ast : parse Gen.Patterns.hex_integer = some ⟨hexIntegerAst, 0, []⟩ := by
  decide +kernel

/-- documented syntax: one or more hexadecimal digits -/
def IsHexInteger (s : List Char) : Prop := s ≠ [] ∧ ∀ c ∈ s, IsHexDigit c

theorem hex_integer_language (s : List Char) : hexIntegerAst.Accepts s ↔ IsHexInteger s := by
  unfold hexIntegerAst plus cls IsHexInteger
  rw [accepts_rep_set]
  simp only [has_hex]
  constructor
  · rintro ⟨h1, h2⟩; exact ⟨by intro h; simp [h] at h1, h2⟩
  · rintro ⟨h1, h2⟩; exact ⟨by cases s <;> simp_all, h2⟩

example : hexIntegerAst.Accepts "fF09".toList := by decide
example : ¬ hexIntegerAst.Accepts "fg".toList := by decide

/-! ## signed_integer  (`Regex(r"[+-]?\d+")`) -/
def signedIntegerAst : Re := seq (opt (cls [.c '+', .c '-'])) (plus digit)

theorem signed_integer_pattern_ast :
    parse Gen.Patterns.signed_integer = some ⟨signedIntegerAst, 0, []⟩ := by decide +kernel

/-- documented syntax: an optional sign followed by one or more decimal digits -/
def IsSignedInteger (s : List Char) : Prop :=
  ∃ sg ds, s = sg ++ ds ∧ (sg = [] ∨ ∃ c, IsSign c ∧ sg = [c]) ∧ ds ≠ [] ∧ ∀ c ∈ ds, IsDigit c

theorem signed_integer_language (s : List Char) : signedIntegerAst.Accepts s ↔ IsSignedInteger s := by
  have hplus : ∀ x : List Char, (plus digit).Accepts x ↔ (x ≠ [] ∧ ∀ c ∈ x, IsDigit c) := by
    intro x
    unfold plus digit
    rw [accepts_rep_set]
    simp only [has_digit]
    constructor
    · rintro ⟨h1, h2⟩; exact ⟨by intro h; simp [h] at h1, h2⟩
    · rintro ⟨h1, h2⟩; exact ⟨by cases x <;> simp_all, h2⟩
  have hsd : ∀ c, IsSign c → ¬ IsDigit c := by
    intro c h hd; rcases h with h | h <;> (subst h; revert hd; unfold IsDigit; decide)
  unfold signedIntegerAst cls
  rw [accepts_seq_opt_set]
  cases s with
  | nil =>
    simp only [IsSignedInteger]
    constructor
    · intro h; exact absurd ((hplus []).1 h).1 (by simp)
    · rintro ⟨sg, ds, h, _, hne, _⟩
      have : ds = [] := by
        have := congrArg List.length h; simp at this; exact List.eq_nil_of_length_eq_zero (by omega)
      exact absurd this hne
  | cons c t =>
    simp only
    by_cases hc : (CSet.mk false [.c '+', .c '-'] false).has c = true
    · have hs := (has_sign c).1 hc
      rw [if_pos hc]
      have hnot : ¬ (plus digit).Accepts (c :: t) := by
        intro h; exact hsd c hs (((hplus _).1 h).2 c (by simp))
      have hnone : ((plus digit).ends (c :: t)).head? = none := by
        unfold plus digit
        rw [ends_rep_set, repSet_none_head]
        have : (CSet.mk false [.d] false).has c = false := by
          cases h : (CSet.mk false [.d] false).has c with
          | false => rfl
          | true => exact absurd ((has_digit c).1 h) (hsd c hs)
        simp [List.takeWhile_cons, this]
      simp only [hnone, Option.none_or, Option.or_none]
      show (plus digit).Accepts t ↔ _
      rw [hplus]
      constructor
      · rintro ⟨h1, h2⟩; exact ⟨[c], t, rfl, Or.inr ⟨c, hs, rfl⟩, h1, h2⟩
      · rintro ⟨sg, ds, h, hsg, hne, hd⟩
        rcases hsg with rfl | ⟨c', _, rfl⟩
        · simp at h; subst h
          exact absurd (hd c (by simp)) (hsd c hs)
        · simp at h; obtain ⟨_, rfl⟩ := h; exact ⟨hne, hd⟩
    · rw [if_neg hc]
      show (plus digit).Accepts (c :: t) ↔ _
      rw [hplus]
      constructor
      · rintro ⟨h1, h2⟩; exact ⟨[], c :: t, rfl, Or.inl rfl, h1, h2⟩
      · rintro ⟨sg, ds, h, hsg, hne, hd⟩
        rcases hsg with rfl | ⟨c', hs', rfl⟩
        · simp at h; subst h; exact ⟨hne, hd⟩
        · simp at h; obtain ⟨rfl, _⟩ := h
          exact absurd ((has_sign c).2 hs') hc

example : signedIntegerAst.Accepts "-42".toList := by decide
example : signedIntegerAst.Accepts "7".toList := by decide
example : ¬ signedIntegerAst.Accepts "+-1".toList := by decide
example : ¬ signedIntegerAst.Accepts "-".toList := by decide

/-! ## pinned ASTs of the remaining Regex-based built-ins

Each `…_pattern_ast` is a generated-fact obligation: the pattern string read from the live package parses to the
AST written here.  Any edit of a built-in's pattern breaks the obligation at `lake build`. -/
def signOpt : Re := opt (cls [.c '+', .c '-'])
def expoPart : Re := seq (cls [.c 'e', .c 'E']) (seq signOpt (plus digit))
def urealPart : Re := alt (seq (plus digit) (seq (lit '.') (star digit))) (seq (lit '.') (plus digit))
def hx : Re := cls [.r '0' '9', .r 'a' 'f', .r 'A' 'F']
def dd : Re := seq digit digit

def realAst : Re := seq signOpt urealPart
theorem real_pattern_ast : parse Gen.Patterns.real = some ⟨realAst, 0, []⟩ := by decide +kernel

def sciRealAst : Re := seq signOpt (alt (seq (plus digit) expoPart) (seq urealPart (opt expoPart)))
theorem sci_real_pattern_ast : parse Gen.Patterns.sci_real = some ⟨sciRealAst, 0, []⟩ := by decide +kernel

def fnumberAst : Re := seqs [signOpt, plus digit, opt (lit '.'), star digit, opt expoPart]
theorem fnumber_pattern_ast : parse Gen.Patterns.fnumber = some ⟨fnumberAst, 0, []⟩ := by decide +kernel

def liti (c : Char) : Re := .set ⟨false, [.c c], true⟩
def signOptI : Re := opt (.set ⟨false, [.c '+', .c '-'], true⟩)
def ieeeFloatAst : Re :=
  seq signOptI
    (alt (seqs [plus digit, opt (liti '.'), star digit, opt (seqs [liti 'e', signOptI, plus digit])])
      (alt (seqs [liti 'n', liti 'a', liti 'n'])
        (seqs [liti 'i', liti 'n', liti 'f', opt (seqs [liti 'i', liti 'n', liti 'i', liti 't', liti 'y'])])))
theorem ieee_float_pattern_ast : parse Gen.Patterns.ieee_float = some ⟨ieeeFloatAst, 0, []⟩ := by decide +kernel

def identifierAst : Re :=
  seq (cls [.r 'A' 'Z', .c '_', .r 'a' 'z', .c 'ª', .c 'µ', .c 'º', .r 'À' 'Ö', .r 'Ø' 'ö', .r 'ø' 'ÿ'])
    (star (cls [.r '0' '9', .r 'A' 'Z', .c '_', .r 'a' 'z', .c 'ª', .c 'µ', .c '·', .c 'º', .r 'À' 'Ö', .r 'Ø' 'ö',
      .r 'ø' 'ÿ']))
theorem identifier_pattern_ast : parse Gen.Patterns.identifier = some ⟨identifierAst, 0, []⟩ := by decide +kernel

def octetAst : Re :=
  alt (seqs [lit '2', lit '5', cls [.r '0' '5']])
    (alt (seqs [lit '2', cls [.r '0' '4'], cls [.r '0' '9']])
      (seq (opt (lit '1')) (between 1 2 (cls [.r '0' '9']))))
def ipv4Ast : Re := seq (grp 1 octetAst) (exactly 3 (grp 2 (seq (lit '.') (grp 3 octetAst))))
theorem ipv4_address_pattern_ast : parse Gen.Patterns.ipv4_address = some ⟨ipv4Ast, 3, []⟩ := by decide +kernel

def macAst : Re :=
  seqs [exactly 2 hx, grp 1 (cls [.c ':', .c '.', .c '-']), exactly 2 hx, exactly 4 (seq (bref 1 false) (exactly 2 hx))]
theorem mac_address_pattern_ast : parse Gen.Patterns.mac_address = some ⟨macAst, 1, []⟩ := by decide +kernel

def isoDateAst : Re :=
  seq (grp 1 (exactly 4 digit))
    (opt (seqs [lit '-', grp 2 dd, opt (seq (lit '-') (grp 3 dd))]))
theorem iso8601_date_pattern_ast :
    parse Gen.Patterns.iso8601_date = some ⟨isoDateAst, 3, [("year", 1), ("month", 2), ("day", 3)]⟩ := by
  decide +kernel

def isoDatetimeAst : Re :=
  seqs [grp 1 (exactly 4 digit), lit '-', grp 2 dd, lit '-', grp 3 dd, cls [.c 'T', .c ' '], grp 4 dd, lit ':',
    grp 5 dd,
    opt (grp 6 (seq (lit ':') (opt (grp 7 (seqs [digit, digit, opt (grp 8 (seq (lit '.') (star digit)))]))))),
    opt (grp 9 (alt (lit 'Z') (seqs [cls [.c '+', .c '-'], digit, digit, opt (lit ':'), digit, digit])))]
theorem iso8601_datetime_pattern_ast :
    parse Gen.Patterns.iso8601_datetime = some ⟨isoDatetimeAst, 9,
      [("year", 1), ("month", 2), ("day", 3), ("hour", 4), ("minute", 5), ("second", 7), ("tz", 9)]⟩ := by
  decide +kernel

def uuidAst : Re := seqs [exactly 8 hx, exactly 3 (grp 1 (seq (lit '-') (exactly 4 hx))), lit '-', exactly 12 hx]
theorem uuid_pattern_ast : parse Gen.Patterns.uuid = some ⟨uuidAst, 1, []⟩ := by decide +kernel

/-- `number = sci_real | real | signed_integer` (a MatchFirst of exactly these three patterns, in this order);
    `fraction = signed_integer "/" signed_integer`; the quoted-string built-ins are built from the pinned bodies -/
theorem number_leaves_fact : Gen.Patterns.number_leaves =
    [("Regex", Gen.Patterns.sci_real, 0), ("Regex", Gen.Patterns.real, 0), ("Regex", Gen.Patterns.signed_integer, 0)] := by
  decide +kernel
theorem fraction_leaves_fact : Gen.Patterns.fraction_leaves =
    [("Regex", Gen.Patterns.signed_integer, 0), ("Literal", "/", 0), ("Regex", Gen.Patterns.signed_integer, 0)] := by
  decide +kernel
theorem ipv6_leaves_fact : Gen.Patterns.ipv6_address_leaves =
    [("Regex", "[0-9a-fA-F]{1,4}", 0), ("Literal", ":", 0), ("Literal", "::ffff:", 0),
     ("Regex", Gen.Patterns.ipv4_address, 0), ("Literal", "::", 0)] := by
  decide +kernel

def quotedBodyAst (q : Char) : Re :=
  seq (lit q) (star (alt (ncls [.c q, .c '\n', .c '\r', .c '\\'])
    (alt (seq (lit q) (lit q)) (seq (lit '\\') (alt (ncls [.c 'x']) (seq (lit 'x') (plus hx)))))))
theorem dbl_quoted_string_fact : Gen.Patterns.dbl_quoted_string_leaves.map (fun x => (x.1, (parse x.2.1).map (·.re))) =
    [("Regex", some (quotedBodyAst '"')), ("Literal", some (lit '"'))] := by decide +kernel
theorem sgl_quoted_string_fact : Gen.Patterns.sgl_quoted_string_leaves.map (fun x => (x.1, (parse x.2.1).map (·.re))) =
    [("Regex", some (quotedBodyAst '\'')), ("Literal", some (lit '\''))] := by decide +kernel
theorem quoted_string_fact : Gen.Patterns.quoted_string_leaves.map (fun x => (x.1, (parse x.2.1).map (·.re))) =
    [("Regex", some (quotedBodyAst '"')), ("Literal", some (lit '"')),
     ("Regex", some (quotedBodyAst '\'')), ("Literal", some (lit '\''))] := by decide +kernel

/-! ## real  (`Regex(r"[+-]?(?:\d+\.\d*|\.\d+)")`) -/

theorem has_lit (a c : Char) : (CSet.mk false [.c a] false).has c = true ↔ c = a := by
  simp [CSet.has, Item.has]

/-- an optional sign in front of `b`, when `b` itself can never start with a sign -/
theorem accepts_signOpt (b : Re) (hb : ∀ c t, IsSign c → b.ends (c :: t) = []) (s : List Char) :
    (seq signOpt b).Accepts s ↔
      ∃ sg x, s = sg ++ x ∧ (sg = [] ∨ ∃ c, IsSign c ∧ sg = [c]) ∧ b.Accepts x := by
  unfold signOpt cls
  rw [accepts_seq_opt_set]
  cases s with
  | nil =>
    constructor
    · intro h; exact ⟨[], [], rfl, Or.inl rfl, h⟩
    · rintro ⟨sg, x, h, _, hx⟩
      have : x = [] := by
        have := congrArg List.length h; simp at this; exact List.eq_nil_of_length_eq_zero (by omega)
      subst this; exact hx
  | cons c t =>
    simp only
    by_cases hc : (CSet.mk false [.c '+', .c '-'] false).has c = true
    · have hs := (has_sign c).1 hc
      rw [if_pos hc, hb c t hs]
      simp only [List.head?_nil, Option.or_none]
      constructor
      · intro h; exact ⟨[c], t, rfl, Or.inr ⟨c, hs, rfl⟩, h⟩
      · rintro ⟨sg, x, h, hsg, hx⟩
        rcases hsg with rfl | ⟨c', _, rfl⟩
        · simp at h; subst h
          unfold Re.Accepts at hx; rw [hb c t hs] at hx; simp at hx
        · simp at h; obtain ⟨_, rfl⟩ := h; exact hx
    · rw [if_neg hc]
      constructor
      · intro h; exact ⟨[], c :: t, rfl, Or.inl rfl, h⟩
      · rintro ⟨sg, x, h, hsg, hx⟩
        rcases hsg with rfl | ⟨c', hs', rfl⟩
        · simp at h; subst h; exact hx
        · simp at h; obtain ⟨rfl, _⟩ := h
          exact absurd ((has_sign c).2 hs') hc

/-- documented syntax of the unsigned part: digits '.' digits with at least one digit on one side -/
def IsUReal (x : List Char) : Prop :=
  ∃ a b, x = a ++ '.' :: b ∧ (∀ c ∈ a, IsDigit c) ∧ (∀ c ∈ b, IsDigit c) ∧ (a ≠ [] ∨ b ≠ [])

/-- documented syntax: optional sign, then `digits.digits*` or `.digits` -/
def IsReal (s : List Char) : Prop :=
  ∃ sg x, s = sg ++ x ∧ (sg = [] ∨ ∃ c, IsSign c ∧ sg = [c]) ∧ IsUReal x

theorem digit_ne_dot {c : Char} (h : IsDigit c) : c ≠ '.' := by
  rintro rfl; revert h; unfold IsDigit; decide
theorem sign_not_digit {c : Char} (h : IsSign c) : ¬ IsDigit c := by
  intro hd; rcases h with h | h <;> (subst h; revert hd; unfold IsDigit; decide)
theorem sign_ne_dot {c : Char} (h : IsSign c) : c ≠ '.' := by
  rcases h with h | h <;> (subst h; decide)

abbrev dset : CSet := ⟨false, [.d], false⟩

theorem plus_digit_accepts (x : List Char) : (plus digit).Accepts x ↔ (x ≠ [] ∧ ∀ c ∈ x, IsDigit c) := by
  unfold plus digit
  rw [accepts_rep_set]
  simp only [has_digit]
  constructor
  · rintro ⟨h1, h2⟩; exact ⟨by intro h; simp [h] at h1, h2⟩
  · rintro ⟨h1, h2⟩; exact ⟨by cases x <;> simp_all, h2⟩

theorem star_digit_accepts (x : List Char) : (star digit).Accepts x ↔ (∀ c ∈ x, IsDigit c) := by
  unfold star digit
  rw [accepts_rep_set]
  simp only [has_digit]
  simp

theorem dotTail_noStart : ∀ c t, dset.has c = true → (seq (lit '.') (star digit)).ends (c :: t) = [] := by
  intro c t h
  unfold lit
  rw [ends_seq_set]
  have : ¬ (CSet.mk false [.c '.'] false).has c = true := by
    rw [has_lit]; exact digit_ne_dot ((has_digit c).1 h)
  simp [this]

theorem ureal_ends_cons (c : Char) (t : List Char) :
    urealPart.ends (c :: t) =
      if c = '.' then (plus digit).ends t
      else if IsDigit c then (seq (lit '.') (star digit)).ends ((c :: t).dropWhile dset.has)
      else [] := by
  unfold urealPart
  show Re.ends (seq (plus digit) (seq (lit '.') (star digit))) (c :: t) ++ Re.ends (seq (lit '.') (plus digit)) (c :: t) = _
  have hA : Re.ends (seq (plus digit) (seq (lit '.') (star digit))) (c :: t) =
      if 1 ≤ ((c :: t).takeWhile dset.has).length then
        (seq (lit '.') (star digit)).ends ((c :: t).dropWhile dset.has) else [] := by
    unfold plus digit
    exact ends_seq_rep_set_noStart dset _ 1 _ dotTail_noStart
  have hB : Re.ends (seq (lit '.') (plus digit)) (c :: t) = if c = '.' then (plus digit).ends t else [] := by
    unfold lit
    rw [ends_seq_set]
    simp only [has_lit]
  rw [hA, hB]
  by_cases hdot : c = '.'
  · subst hdot
    have : dset.has '.' = false := by decide
    simp [List.takeWhile_cons, this]
  · by_cases hd : IsDigit c
    · have : dset.has c = true := (has_digit c).2 hd
      simp [hdot, hd, List.takeWhile_cons, this]
    · have : dset.has c = false := by
        cases h : dset.has c with
        | false => rfl
        | true => exact absurd ((has_digit c).1 h) hd
      simp [hdot, hd, List.takeWhile_cons, this]

theorem ureal_noSign : ∀ c t, IsSign c → urealPart.ends (c :: t) = [] := by
  intro c t h
  rw [ureal_ends_cons, if_neg (sign_ne_dot h), if_neg (sign_not_digit h)]

theorem ureal_language (x : List Char) : urealPart.Accepts x ↔ IsUReal x := by
  cases x with
  | nil =>
    constructor
    · intro h; unfold Re.Accepts urealPart at h; simp [Re.ends, plus, digit, lit, repEnds] at h
    · rintro ⟨a, b, h, _⟩; simp at h
  | cons c t =>
    unfold Re.Accepts
    rw [ureal_ends_cons]
    by_cases hdot : c = '.'
    · subst hdot
      rw [if_pos rfl]
      show (plus digit).Accepts t ↔ _
      rw [plus_digit_accepts]
      constructor
      · rintro ⟨h1, h2⟩; exact ⟨[], t, rfl, by simp, h2, Or.inr h1⟩
      · rintro ⟨a, b, h, ha, hb, hne⟩
        cases a with
        | nil =>
          simp at h; subst h
          exact ⟨by rcases hne with h | h; exact absurd rfl h; exact h, hb⟩
        | cons a0 a' =>
          simp at h
          exact absurd h.1.symm (digit_ne_dot (ha a0 (by simp)))
    · rw [if_neg hdot]
      by_cases hd : IsDigit c
      · rw [if_pos hd]
        have hsplit := List.takeWhile_append_dropWhile (p := dset.has) (l := c :: t)
        have htw : ∀ y ∈ (c :: t).takeWhile dset.has, IsDigit y := by
          intro y hy; exact (has_digit y).1 (mem_takeWhile_sat _ _ y hy)
        constructor
        · intro h
          cases hy : (c :: t).dropWhile dset.has with
          | nil => rw [hy] at h; simp [Re.ends, lit] at h
          | cons y z =>
            rw [hy] at h
            unfold lit at h
            rw [ends_seq_set] at h
            simp only [has_lit] at h
            by_cases hyd : y = '.'
            · subst hyd
              rw [if_pos rfl] at h
              have hz := (star_digit_accepts z).1 h
              refine ⟨(c :: t).takeWhile dset.has, z, ?_, htw, hz, Or.inl ?_⟩
              · rw [← hy]; exact hsplit.symm
              · have : dset.has c = true := (has_digit c).2 hd
                simp [List.takeWhile_cons, this]
            · rw [if_neg hyd] at h; simp at h
        · rintro ⟨a, b, h, ha, hb, _⟩
          have hdrop : (c :: t).dropWhile dset.has = '.' :: b := by
            rw [h, List.dropWhile_append_of_pos (fun y hy => (has_digit y).2 (ha y hy))]
            have : dset.has '.' = false := by decide
            simp [List.dropWhile_cons, this]
          rw [hdrop]
          unfold lit
          rw [ends_seq_set]
          simp only [has_lit, if_true]
          exact (star_digit_accepts b).2 hb
      · rw [if_neg hd]
        constructor
        · intro h; simp at h
        · rintro ⟨a, b, h, ha, _, _⟩
          cases a with
          | nil => simp at h; exact absurd h.1 hdot
          | cons a0 a' => simp at h; exact absurd (h.1 ▸ ha a0 (by simp)) hd

theorem real_language (s : List Char) : realAst.Accepts s ↔ IsReal s := by
  unfold realAst IsReal
  rw [accepts_signOpt _ ureal_noSign]
  simp only [ureal_language]

example : realAst.Accepts "-12.5".toList := by decide
example : realAst.Accepts ".5".toList := by decide
example : realAst.Accepts "3.".toList := by decide
example : ¬ realAst.Accepts "3".toList := by decide
example : ¬ realAst.Accepts ".".toList := by decide
example : ¬ realAst.Accepts "1.5.2".toList := by decide

/-! ## uuid  (`Regex(r"[0-9a-fA-F]{8}(-[0-9a-fA-F]{4}){3}-[0-9a-fA-F]{12}")`) -/

abbrev hxs : CSet := ⟨false, [.r '0' '9', .r 'a' 'f', .r 'A' 'F'], false⟩
abbrev dashs : CSet := ⟨false, [.c '-'], false⟩

theorem has_hxs (c : Char) : hxs.has c = true ↔ IsHexDigit c := by
  simp [CSet.has, Item.has, IsHexDigit]

theorem takeN_append (C : Char → Bool) (n : Nat) (w e : List Char) (hl : w.length = n)
    (hw : ∀ c ∈ w, C c = true) : takeN C n (w ++ e) = some e :=
  (takeN_some C n _ e).2 ⟨w, rfl, hl, hw⟩

/-- one `-xxxx` group -/
def dashHex (n : Nat) (s : List Char) : Option (List Char) := (expect dashs.has s).bind (takeN hxs.has n)

theorem dashHex_progress (n : Nat) (s e : List Char) (h : dashHex n s = some e) : e.length < s.length := by
  unfold dashHex at h
  rw [Option.bind_eq_some_iff] at h
  obtain ⟨t, h1, h2⟩ := h
  obtain ⟨c, rfl, _⟩ := (expect_some _ _ _).1 h1
  have := takeN_length _ _ _ _ h2
  simp; omega

theorem dashHex_some (n : Nat) (s e : List Char) :
    dashHex n s = some e ↔ ∃ w, s = '-' :: (w ++ e) ∧ w.length = n ∧ ∀ c ∈ w, IsHexDigit c := by
  unfold dashHex
  rw [Option.bind_eq_some_iff]
  constructor
  · rintro ⟨t, h1, h2⟩
    obtain ⟨c, rfl, hc⟩ := (expect_some _ _ _).1 h1
    obtain ⟨w, rfl, hl, hw⟩ := (takeN_some _ _ _ _).1 h2
    have : c = '-' := (has_lit '-' c).1 hc
    subst this
    exact ⟨w, rfl, hl, fun x hx => (has_hxs x).1 (hw x hx)⟩
  · rintro ⟨w, rfl, hl, hw⟩
    refine ⟨w ++ e, ?_, takeN_append _ _ _ _ hl (fun x hx => (has_hxs x).2 (hw x hx))⟩
    simp [expect, CSet.has, Item.has]

def uuidFn (s : List Char) : Option (List Char) :=
  (takeN hxs.has 8 s).bind (fun e => (iter (dashHex 4) 3 e).bind (fun e => dashHex 12 e))

theorem uuid_det : Det uuidAst uuidFn := by
  unfold uuidAst seqs hx cls lit
  exact det_seq (det_exact_set hxs 8)
    (det_seq (det_exact (det_grp 1 (det_seq (det_set dashs) (det_exact_set hxs 4))) (dashHex_progress 4) true 3)
      (det_seq (det_set dashs) (det_exact_set hxs 12)))

/-- documented syntax: `xxxxxxxx-xxxx-xxxx-xxxx-xxxxxxxxxxxx`, hexadecimal digits in groups of 8-4-4-4-12 -/
def IsUuid (s : List Char) : Prop :=
  ∃ a b c d e, s = a ++ '-' :: (b ++ '-' :: (c ++ '-' :: (d ++ '-' :: e))) ∧
    a.length = 8 ∧ b.length = 4 ∧ c.length = 4 ∧ d.length = 4 ∧ e.length = 12 ∧
    (∀ x ∈ a, IsHexDigit x) ∧ (∀ x ∈ b, IsHexDigit x) ∧ (∀ x ∈ c, IsHexDigit x) ∧ (∀ x ∈ d, IsHexDigit x) ∧
    (∀ x ∈ e, IsHexDigit x)

theorem uuid_language (s : List Char) : uuidAst.Accepts s ↔ IsUuid s := by
  rw [det_accepts uuid_det]
  unfold uuidFn
  simp only [iter, Option.bind_eq_some_iff, dashHex_some, takeN_some, Option.some.injEq]
  constructor
  · rintro ⟨e1, ⟨a, rfl, ha, haw⟩, e4, ⟨e2, ⟨b, rfl, hb, hbw⟩, e3, ⟨c, rfl, hc, hcw⟩, e4', ⟨d, rfl, hd, hdw⟩, rfl⟩,
      e, he, hel, hew⟩
    simp only [List.append_nil] at he
    subst he
    exact ⟨a, b, c, d, e, rfl, ha, hb, hc, hd, hel, fun x hx => (has_hxs x).1 (haw x hx), hbw, hcw, hdw, hew⟩
  · rintro ⟨a, b, c, d, e, rfl, ha, hb, hc, hd, he, haw, hbw, hcw, hdw, hew⟩
    refine ⟨_, ⟨a, rfl, ha, fun x hx => (has_hxs x).2 (haw x hx)⟩, _, ⟨_, ⟨b, rfl, hb, hbw⟩, _, ⟨c, rfl, hc, hcw⟩, _,
      ⟨d, rfl, hd, hdw⟩, rfl⟩, e, by simp, he, hew⟩

example : uuidAst.Accepts "12345678-1234-5678-1234-567812345678".toList := by decide
example : uuidAst.Accepts "ABCDEF12-abcd-5678-1234-567812345678".toList := by decide
example : ¬ uuidAst.Accepts "12345678-1234-5678-1234-56781234567".toList := by decide
example : ¬ uuidAst.Accepts "1234567g-1234-5678-1234-567812345678".toList := by decide

/-! ## iso8601_date  (`(?P<year>\d{4})(?:-(?P<month>\d\d)(?:-(?P<day>\d\d))?)?`) -/

theorem ends_seq_det {a : Re} {fa} (ha : Det a fa) (b : Re) (s : List Char) :
    (seq a b).ends s = match fa s with
      | none => []
      | some e => b.ends e := by
  simp only [Re.ends, ha s]
  cases fa s <;> simp

theorem ends_seq_assoc (a b c : Re) (s : List Char) :
    (seq a (seq b c)).ends s = (seq (seq a b) c).ends s := by
  simp only [Re.ends, List.flatMap_assoc]

theorem det_dd : Det dd (takeN dset.has 2) := by
  intro s
  unfold dd digit
  cases s with
  | nil => simp [Re.ends, takeN]
  | cons c t =>
    cases t with
    | nil => by_cases hc : dset.has c = true <;> simp [Re.ends, takeN, hc]
    | cons c2 t2 =>
      by_cases hc : dset.has c = true <;> by_cases hc2 : dset.has c2 = true <;> simp [Re.ends, takeN, hc, hc2]

/-- `-` followed by exactly `n` digits -/
def dashDig (n : Nat) (s : List Char) : Option (List Char) := (expect dashs.has s).bind (takeN dset.has n)

theorem dashDig_some (n : Nat) (s e : List Char) :
    dashDig n s = some e ↔ ∃ w, s = '-' :: (w ++ e) ∧ w.length = n ∧ ∀ c ∈ w, IsDigit c := by
  unfold dashDig
  rw [Option.bind_eq_some_iff]
  constructor
  · rintro ⟨t, h1, h2⟩
    obtain ⟨c, rfl, hc⟩ := (expect_some _ _ _).1 h1
    obtain ⟨w, rfl, hl, hw⟩ := (takeN_some _ _ _ _).1 h2
    have : c = '-' := (has_lit '-' c).1 hc
    subst this
    exact ⟨w, rfl, hl, fun x hx => (has_digit x).1 (hw x hx)⟩
  · rintro ⟨w, rfl, hl, hw⟩
    refine ⟨w ++ e, ?_, takeN_append _ _ _ _ hl (fun x hx => (has_digit x).2 (hw x hx))⟩
    simp [expect, CSet.has, Item.has]

theorem dashDig_none_nil (n : Nat) : dashDig n [] = none := by simp [dashDig, expect]

/-- the preferred match of the date pattern: the year, then as many of `-mm`, `-dd` as are there -/
def isoDateFn (s : List Char) : Option (List Char) :=
  (takeN dset.has 4 s).map (fun e =>
    match dashDig 2 e with
    | none => e
    | some e2 => match dashDig 2 e2 with
      | none => e2
      | some e3 => e3)

theorem isoDate_head (s : List Char) : (isoDateAst.ends s).head? = isoDateFn s := by
  unfold isoDateAst isoDateFn
  simp only [seqs]
  have hY : Det (grp 1 (exactly 4 digit)) (takeN dset.has 4) := det_grp 1 (det_exact_set dset 4)
  have hD3 : Det (seq (lit '-') (grp 3 dd)) (dashDig 2) := det_seq (det_set dashs) (det_grp 3 det_dd)
  have hD2 : Det (seq (lit '-') (grp 2 dd)) (dashDig 2) := det_seq (det_set dashs) (det_grp 2 det_dd)
  rw [ends_seq_det hY]
  cases hy : takeN dset.has 4 s with
  | none => simp
  | some e =>
    simp only [Option.map_some]
    rw [ends_opt_progress (seq (lit '-') (seq (grp 2 dd) (opt (seq (lit '-') (grp 3 dd))))) e
      (fun x hx => seq_set_progress dashs _ e x hx)]
    -- the inner `- mm (-dd)?`
    have hx2 : (seq (lit '-') (seq (grp 2 dd) (opt (seq (lit '-') (grp 3 dd))))).ends e =
        match dashDig 2 e with
        | none => []
        | some e2 => (seq (lit '-') (grp 3 dd)).ends e2 ++ [e2] := by
      rw [ends_seq_assoc, ends_seq_det hD2]
      cases hd : dashDig 2 e with
      | none => rfl
      | some e2 =>
        exact ends_opt_progress (seq (lit '-') (grp 3 dd)) e2 (fun x hx => seq_set_progress dashs _ e2 x hx)
    rw [hx2]
    cases hd : dashDig 2 e with
    | none => simp
    | some e2 =>
      simp only
      rw [hD3 e2]
      cases hd3 : dashDig 2 e2 <;> simp

/-- documented syntax: `yyyy`, `yyyy-mm` or `yyyy-mm-dd` (decimal digits) -/
def IsIsoDate (s : List Char) : Prop :=
  ∃ y, y.length = 4 ∧ (∀ c ∈ y, IsDigit c) ∧
    (s = y ∨ ∃ m, m.length = 2 ∧ (∀ c ∈ m, IsDigit c) ∧
      (s = y ++ '-' :: m ∨ ∃ d, d.length = 2 ∧ (∀ c ∈ d, IsDigit c) ∧ s = y ++ '-' :: (m ++ '-' :: d)))

theorem iso8601_date_language (s : List Char) : isoDateAst.Accepts s ↔ IsIsoDate s := by
  unfold Re.Accepts
  rw [isoDate_head]
  unfold isoDateFn
  constructor
  · intro h
    rw [Option.map_eq_some_iff] at h
    obtain ⟨e, hy, he⟩ := h
    obtain ⟨y, rfl, hyl, hyw⟩ := (takeN_some _ _ _ _).1 hy
    refine ⟨y, hyl, fun c hc => (has_digit c).1 (hyw c hc), ?_⟩
    cases hd : dashDig 2 e with
    | none => rw [hd] at he; simp only at he; subst he; left; simp
    | some e2 =>
      rw [hd] at he; simp only at he
      obtain ⟨m, rfl, hml, hmw⟩ := (dashDig_some _ _ _).1 hd
      right
      refine ⟨m, hml, hmw, ?_⟩
      cases hd3 : dashDig 2 e2 with
      | none => rw [hd3] at he; simp only at he; subst he; left; simp
      | some e3 =>
        rw [hd3] at he; simp only at he; subst he
        obtain ⟨d, rfl, hdl, hdw⟩ := (dashDig_some _ _ _).1 hd3
        right; exact ⟨d, hdl, hdw, by simp⟩
  · rintro ⟨y, hyl, hyw, h⟩
    have hyw' : ∀ c ∈ y, dset.has c = true := fun c hc => (has_digit c).2 (hyw c hc)
    rcases h with h | ⟨m, hml, hmw, h⟩
    · have : takeN dset.has 4 y = some [] := by simpa using takeN_append dset.has 4 y [] hyl hyw'
      rw [h, this]; simp [dashDig_none_nil]
    · rcases h with rfl | ⟨d, hdl, hdw, rfl⟩
      · rw [takeN_append dset.has 4 y _ hyl hyw']
        have h1 : dashDig 2 ('-' :: m) = some [] := (dashDig_some _ _ _).2 ⟨m, by simp, hml, hmw⟩
        simp [h1, dashDig_none_nil]
      · rw [takeN_append dset.has 4 y _ hyl hyw']
        have h1 : dashDig 2 ('-' :: (m ++ '-' :: d)) = some ('-' :: d) := (dashDig_some _ _ _).2 ⟨m, rfl, hml, hmw⟩
        have h2 : dashDig 2 ('-' :: d) = some [] := (dashDig_some _ _ _).2 ⟨d, by simp, hdl, hdw⟩
        simp [h1, h2]

example : isoDateAst.Accepts "1999".toList := by decide
example : isoDateAst.Accepts "1999-12".toList := by decide
example : isoDateAst.Accepts "1999-12-31".toList := by decide
example : ¬ isoDateAst.Accepts "1999-1".toList := by decide
example : ¬ isoDateAst.Accepts "1999-12-3".toList := by decide
example : ¬ isoDateAst.Accepts "1999-12-31-".toList := by decide

/-! ## fnumber  (`Regex(r"[+-]?\d+\.?\d*(?:[eE][+-]?\d+)?")`) -/

abbrev eEs : CSet := ⟨false, [.c 'e', .c 'E'], false⟩

/-- exponent part: `e` or `E`, then an optionally signed run of digits -/
def IsExpo (w : List Char) : Prop := ∃ c t, w = c :: t ∧ (c = 'e' ∨ c = 'E') ∧ IsSignedInteger t

theorem has_eE (c : Char) : eEs.has c = true ↔ (c = 'e' ∨ c = 'E') := by
  simp [CSet.has, Item.has]

theorem expo_accepts (w : List Char) : expoPart.Accepts w ↔ IsExpo w := by
  unfold expoPart cls Re.Accepts
  rw [ends_seq_set]
  cases w with
  | nil => simp [IsExpo]
  | cons c t =>
    simp only
    by_cases hc : eEs.has c = true
    · rw [if_pos hc]
      have := signed_integer_language t
      unfold signedIntegerAst Re.Accepts at this
      unfold signOpt
      rw [this]
      constructor
      · intro h; exact ⟨c, t, rfl, (has_eE c).1 hc, h⟩
      · rintro ⟨c', t', h, _, ht⟩; simp at h; rw [h.2]; exact ht
    · rw [if_neg hc]
      constructor
      · intro h; simp at h
      · rintro ⟨c', t', h, hc', _⟩; simp at h; exact absurd ((has_eE c).2 (h.1 ▸ hc')) hc

theorem expo_progress : ∀ s e, e ∈ expoPart.ends s → e.length < s.length := by
  intro s e h; unfold expoPart cls at h; exact seq_set_progress _ _ s e h

theorem opt_expo_head (w : List Char) :
    ((opt expoPart).ends w).head? = some [] ↔ (expoPart.Accepts w ∨ w = []) := by
  rw [ends_opt_progress expoPart w (expo_progress w), List.head?_append]
  unfold Re.Accepts
  cases h : (expoPart.ends w).head? with
  | none =>
    simp
  | some e =>
    simp only [Option.some_or, Option.some.injEq]
    constructor
    · intro h'; left; exact h'
    · rintro (h' | h')
      · exact h'
      · subst h'
        have : expoPart.ends [] = [] := by unfold expoPart cls; rw [ends_seq_set]
        rw [this] at h; simp at h

def stripDot : List Char → List Char
  | '.' :: z => z
  | y => y

theorem opt_dot_head (y : List Char) : ((opt (lit '.')).ends y).head? = some (stripDot y) := by
  unfold lit
  rw [ends_opt_set]
  cases y with
  | nil => simp [stripDot]
  | cons c t =>
    simp only
    by_cases hc : c = '.'
    · subst hc; simp [stripDot, CSet.has, Item.has]
    · have : ¬ (CSet.mk false [.c '.'] false).has c = true := by rw [has_lit]; exact hc
      rw [if_neg this]
      unfold stripDot
      split
      · rename_i z heq; simp at heq; exact absurd heq.1 hc
      · rfl

def fnumberBody : Re := seq (plus digit) (seq (opt (lit '.')) (seq (star digit) (opt expoPart)))

theorem fnumber_body_head (x : List Char) :
    (fnumberBody.ends x).head? =
      if 1 ≤ (x.takeWhile dset.has).length then
        ((opt expoPart).ends ((stripDot (x.dropWhile dset.has)).dropWhile dset.has)).head?
      else none := by
  have t3 : Total (opt expoPart) := total_opt_progress _ expo_progress
  have t2 : Total (seq (star digit) (opt expoPart)) := total_seq (total_star_set _) t3
  have t1 : Total (seq (opt (lit '.')) (seq (star digit) (opt expoPart))) := total_seq (total_opt_set _) t2
  unfold fnumberBody
  rw [head_seq_total _ _ t1]
  have hp : ((plus digit).ends x).head? =
      if 1 ≤ (x.takeWhile dset.has).length then some (x.dropWhile dset.has) else none := by
    unfold plus digit; rw [ends_rep_set, repSet_none_head]
  rw [hp]
  split
  · simp only [Option.bind_some]
    rw [head_seq_total _ _ t2, opt_dot_head]
    simp only [Option.bind_some]
    rw [head_seq_total _ _ t3]
    have hs : ∀ y, ((star digit).ends y).head? = some (y.dropWhile dset.has) := by
      intro y; unfold star digit; rw [ends_rep_set, repSet_none_head]; simp
    rw [hs]
    simp only [Option.bind_some]
  · rfl

theorem fnumber_noSign : ∀ c t, IsSign c → fnumberBody.ends (c :: t) = [] := by
  intro c t h
  unfold fnumberBody plus digit
  simp only [Re.ends]
  have : dset.has c = false := by
    cases hh : dset.has c with
    | false => rfl
    | true => exact absurd ((has_digit c).1 hh) (sign_not_digit h)
  have h0 : repEnds (fun x => Re.ends (.set dset) x) true ((c :: t).length + 1) 1 none (c :: t) = [] := by
    rw [repEnds_set dset.has _ (by simp [Re.ends]) (by intro c t; simp [Re.ends]) _ _ _ _ (by omega)]
    simp [repSet, this]
  simp only [Re.ends] at h0
  rw [h0]; rfl

/-- documented syntax of the unsigned part: digits, optionally `.` and more digits, optionally an exponent -/
def IsUFnumber (x : List Char) : Prop :=
  ∃ a fr ex, x = a ++ (fr ++ ex) ∧ a ≠ [] ∧ (∀ c ∈ a, IsDigit c) ∧
    (fr = [] ∨ ∃ b, fr = '.' :: b ∧ ∀ c ∈ b, IsDigit c) ∧ (ex = [] ∨ IsExpo ex)

/-- documented syntax: optional sign, digits, optional fraction (`.` digits*), optional exponent -/
def IsFnumber (s : List Char) : Prop :=
  ∃ sg x, s = sg ++ x ∧ (sg = [] ∨ ∃ c, IsSign c ∧ sg = [c]) ∧ IsUFnumber x

theorem expo_stop {ex : List Char} (h : ex = [] ∨ IsExpo ex) :
    ex = [] ∨ ∃ c t, ex = c :: t ∧ dset.has c = false := by
  rcases h with h | ⟨c, t, rfl, hc, _⟩
  · left; exact h
  · right; refine ⟨c, t, rfl, ?_⟩
    rcases hc with rfl | rfl <;> decide

theorem dset_all {b : List Char} (h : ∀ c ∈ b, IsDigit c) : ∀ c ∈ b, dset.has c = true :=
  fun c hc => (has_digit c).2 (h c hc)

theorem fnumber_body_language (x : List Char) : fnumberBody.Accepts x ↔ IsUFnumber x := by
  unfold Re.Accepts
  rw [fnumber_body_head]
  constructor
  · intro h
    split at h
    · rename_i hrun
      rw [opt_expo_head] at h
      have hx := List.takeWhile_append_dropWhile (p := dset.has) (l := x)
      have ha : ∀ c ∈ x.takeWhile dset.has, IsDigit c :=
        fun c hc => (has_digit c).1 (mem_takeWhile_sat _ _ c hc)
      have hane : x.takeWhile dset.has ≠ [] := by
        intro h0; rw [h0] at hrun; simp at hrun
      have hex : ∀ w, (expoPart.Accepts w ∨ w = []) → (w = [] ∨ IsExpo w) := by
        intro w hw; rcases hw with hw | hw
        · right; exact (expo_accepts w).1 hw
        · left; exact hw
      -- is there a dot after the integer part?
      cases hy : x.dropWhile dset.has with
      | nil =>
        rw [hy] at h hx
        simp only [stripDot, List.dropWhile_nil] at h
        exact ⟨x.takeWhile dset.has, [], [], by simpa using hx.symm, hane, ha, Or.inl rfl, Or.inl rfl⟩
      | cons c z =>
        rw [hy] at h hx
        by_cases hc : c = '.'
        · subst hc
          simp only [stripDot] at h
          have hz := List.takeWhile_append_dropWhile (p := dset.has) (l := z)
          refine ⟨x.takeWhile dset.has, '.' :: z.takeWhile dset.has, z.dropWhile dset.has, ?_, hane, ha,
            Or.inr ⟨_, rfl, fun c hc => (has_digit c).1 (mem_takeWhile_sat _ _ c hc)⟩, hex _ h⟩
          rw [List.cons_append, hz]; exact hx.symm
        · have hsd : stripDot (c :: z) = c :: z := by
            unfold stripDot; split
            · rename_i z' heq; simp at heq; exact absurd heq.1 hc
            · rfl
          rw [hsd] at h
          -- `c :: z` is what is left after the digits, so it does not start with a digit
          have hnd : (c :: z).dropWhile dset.has = c :: z := by
            rcases dropWhile_head_not dset.has x with h0 | ⟨c', t', h1, h2⟩
            · rw [hy] at h0; simp at h0
            · rw [hy] at h1; simp at h1; obtain ⟨rfl, rfl⟩ := h1
              simp [List.dropWhile_cons, h2]
          rw [hnd] at h
          exact ⟨x.takeWhile dset.has, [], c :: z, by simpa using hx.symm, hane, ha, Or.inl rfl, hex _ h⟩
    · simp at h
  · rintro ⟨a, fr, ex, rfl, hane, ha, hfr, hex⟩
    have hstop := expo_stop hex
    have hexh : ((opt expoPart).ends ex).head? = some [] := by
      rw [opt_expo_head]
      rcases hex with h | h
      · right; exact h
      · left; exact (expo_accepts ex).2 h
    rcases hfr with rfl | ⟨b, rfl, hb⟩
    · obtain ⟨hd, ht⟩ := dropWhile_append_stop dset.has a ([] ++ ex) (dset_all ha) (by simpa using hstop)
      rw [ht, hd, if_pos (by cases a <;> simp_all)]
      simp only [List.nil_append]
      have hsd : stripDot ex = ex := by
        rcases hex with rfl | ⟨c, t, rfl, hc, _⟩
        · rfl
        · unfold stripDot; split
          · rename_i z heq; simp at heq
            rcases hc with rfl | rfl <;> exact absurd heq.1 (by decide)
          · rfl
      rw [hsd]
      have : ex.dropWhile dset.has = ex := by
        rcases hstop with rfl | ⟨c, t, rfl, hc⟩
        · rfl
        · simp [List.dropWhile_cons, hc]
      rw [this]; exact hexh
    · have hdot : dset.has '.' = false := by decide
      obtain ⟨hd, ht⟩ := dropWhile_append_stop dset.has a (('.' :: b) ++ ex) (dset_all ha)
        (Or.inr ⟨'.', b ++ ex, rfl, hdot⟩)
      rw [ht, hd, if_pos (by cases a <;> simp_all)]
      simp only [List.cons_append, stripDot]
      rw [(dropWhile_append_stop dset.has b ex (dset_all hb) hstop).1]
      exact hexh

theorem fnumber_language (s : List Char) : fnumberAst.Accepts s ↔ IsFnumber s := by
  have : fnumberAst = seq signOpt fnumberBody := rfl
  rw [this]
  unfold IsFnumber
  rw [accepts_signOpt _ fnumber_noSign]
  simp only [fnumber_body_language]

example : fnumberAst.Accepts "-12.5e+3".toList := by decide
example : fnumberAst.Accepts "7".toList := by decide
example : fnumberAst.Accepts "7.".toList := by decide
example : fnumberAst.Accepts "1E5".toList := by decide
example : ¬ fnumberAst.Accepts ".5".toList := by decide
example : ¬ fnumberAst.Accepts "1.5e".toList := by decide
example : ¬ fnumberAst.Accepts "1..5".toList := by decide

/-! ## sci_real  (`[+-]?(?:\d+(?:[eE][+-]?\d+)|(?:\d+\.\d*|\.\d+)(?:[eE][+-]?\d+)?)`) -/

theorem plus_digit_head (x : List Char) : ((plus digit).ends x).head? =
    if 1 ≤ (x.takeWhile dset.has).length then some (x.dropWhile dset.has) else none := by
  unfold plus digit; rw [ends_rep_set, repSet_none_head]

theorem star_digit_head (x : List Char) : ((star digit).ends x).head? = some (x.dropWhile dset.has) := by
  unfold star digit; rw [ends_rep_set, repSet_none_head]; simp

def StopsDigits (w : List Char) : Prop := w = [] ∨ ∃ c t, w = c :: t ∧ dset.has c = false

theorem ureal_ends_nil : urealPart.ends [] = [] := by
  unfold urealPart; simp [Re.ends, plus, digit, lit, repEnds]

/-- the preferred match of the unsigned real part is a real number, and what is left does not go on with a digit -/
theorem ureal_first_sound (x w : List Char) (h : (urealPart.ends x).head? = some w) :
    ∃ u, x = u ++ w ∧ IsUReal u ∧ StopsDigits w := by
  cases x with
  | nil => rw [ureal_ends_nil] at h; simp at h
  | cons c t =>
    rw [ureal_ends_cons] at h
    by_cases hdot : c = '.'
    · subst hdot
      rw [if_pos rfl, plus_digit_head] at h
      split at h
      · rename_i hrun
        simp only [Option.some.injEq] at h; subst h
        have hz := List.takeWhile_append_dropWhile (p := dset.has) (l := t)
        refine ⟨'.' :: t.takeWhile dset.has, by simp [hz], ⟨[], t.takeWhile dset.has, rfl, by simp,
          fun c hc => (has_digit c).1 (mem_takeWhile_sat _ _ c hc), Or.inr ?_⟩, dropWhile_head_not _ _⟩
        intro h0; rw [h0] at hrun; simp at hrun
      · simp at h
    · rw [if_neg hdot] at h
      by_cases hd : IsDigit c
      · rw [if_pos hd] at h
        have hx := List.takeWhile_append_dropWhile (p := dset.has) (l := c :: t)
        cases hy : (c :: t).dropWhile dset.has with
        | nil => rw [hy] at h; simp [Re.ends, lit] at h
        | cons y0 z =>
          rw [hy] at h hx
          unfold lit at h
          rw [ends_seq_set] at h
          simp only [has_lit] at h
          by_cases hy0 : y0 = '.'
          · subst hy0
            rw [if_pos rfl, star_digit_head] at h
            simp only [Option.some.injEq] at h; subst h
            have hz := List.takeWhile_append_dropWhile (p := dset.has) (l := z)
            refine ⟨(c :: t).takeWhile dset.has ++ '.' :: z.takeWhile dset.has, ?_,
              ⟨(c :: t).takeWhile dset.has, z.takeWhile dset.has, rfl,
                fun c hc => (has_digit c).1 (mem_takeWhile_sat _ _ c hc),
                fun c hc => (has_digit c).1 (mem_takeWhile_sat _ _ c hc), Or.inl ?_⟩, dropWhile_head_not _ _⟩
            · rw [List.append_assoc, List.cons_append, hz]; exact hx.symm
            · have : dset.has c = true := (has_digit c).2 hd
              simp [List.takeWhile_cons, this]
          · rw [if_neg hy0] at h; simp at h
      · rw [if_neg hd] at h; simp at h

theorem ureal_first_complete (u ex : List Char) (hu : IsUReal u) (hex : StopsDigits ex) :
    (urealPart.ends (u ++ ex)).head? = some ex := by
  obtain ⟨a, b, rfl, ha, hb, hne⟩ := hu
  have hdot : dset.has '.' = false := by decide
  cases a with
  | nil =>
    simp only [List.nil_append, List.cons_append]
    rw [ureal_ends_cons, if_pos rfl, plus_digit_head]
    obtain ⟨hd, ht⟩ := dropWhile_append_stop dset.has b ex (dset_all hb) hex
    have hbne : b ≠ [] := by rcases hne with h | h; exact absurd rfl h; exact h
    rw [ht, hd, if_pos (by cases b <;> simp_all)]
  | cons a0 a' =>
    have ha0 : IsDigit a0 := ha a0 (by simp)
    simp only [List.cons_append, List.append_assoc]
    rw [ureal_ends_cons, if_neg (digit_ne_dot ha0), if_pos ha0]
    have hd := (dropWhile_append_stop dset.has (a0 :: a') ('.' :: (b ++ ex)) (dset_all ha)
      (Or.inr ⟨'.', b ++ ex, rfl, hdot⟩)).1
    simp only [List.cons_append] at hd
    rw [hd]
    unfold lit
    rw [ends_seq_set]
    simp only [has_lit, if_true]
    rw [star_digit_head, (dropWhile_append_stop dset.has b ex (dset_all hb) hex).1]

def sciBody : Re := alt (seq (plus digit) expoPart) (seq urealPart (opt expoPart))

theorem expo_noDigit : ∀ c t, dset.has c = true → expoPart.ends (c :: t) = [] := by
  intro c t h
  unfold expoPart cls
  rw [ends_seq_set]
  have : ¬ eEs.has c = true := by
    rw [has_eE]; have hd := (has_digit c).1 h
    rintro (rfl | rfl) <;> (revert hd; unfold IsDigit; decide)
  simp [this]

theorem sci_A1_ends (x : List Char) : (seq (plus digit) expoPart).ends x =
    if 1 ≤ (x.takeWhile dset.has).length then expoPart.ends (x.dropWhile dset.has) else [] := by
  unfold plus digit
  exact ends_seq_rep_set_noStart dset _ 1 _ expo_noDigit

theorem sci_A2_head (x : List Char) : ((seq urealPart (opt expoPart)).ends x).head? =
    (urealPart.ends x).head?.bind (fun w => ((opt expoPart).ends w).head?) :=
  head_seq_total _ _ (total_opt_progress _ expo_progress) x

theorem expo_ends_notE (y : List Char) (h : y = [] ∨ ∃ c t, y = c :: t ∧ eEs.has c = false) :
    expoPart.ends y = [] := by
  unfold expoPart cls
  rw [ends_seq_set]
  rcases h with rfl | ⟨c, t, rfl, hc⟩
  · rfl
  · simp [hc]

/-- documented syntax of the unsigned part: digits + exponent, or a real number with an optional exponent -/
def IsUSci (x : List Char) : Prop :=
  (∃ ds ex, x = ds ++ ex ∧ ds ≠ [] ∧ (∀ c ∈ ds, IsDigit c) ∧ IsExpo ex) ∨
  (∃ u ex, x = u ++ ex ∧ IsUReal u ∧ (ex = [] ∨ IsExpo ex))

/-- documented syntax: optional sign, then `digits e±digits`, or `digits.digits*` / `.digits` with optional exponent -/
def IsSciReal (s : List Char) : Prop :=
  ∃ sg x, s = sg ++ x ∧ (sg = [] ∨ ∃ c, IsSign c ∧ sg = [c]) ∧ IsUSci x

theorem sci_body_language (x : List Char) : sciBody.Accepts x ↔ IsUSci x := by
  unfold Re.Accepts sciBody
  show ((seq (plus digit) expoPart).ends x ++ (seq urealPart (opt expoPart)).ends x).head? = some [] ↔ _
  rw [List.head?_append, sci_A1_ends, sci_A2_head]
  constructor
  · intro h
    by_cases hrun : 1 ≤ (x.takeWhile dset.has).length
    · rw [if_pos hrun] at h
      cases h1 : (expoPart.ends (x.dropWhile dset.has)).head? with
      | some e =>
        rw [h1] at h
        simp only [Option.some_or, Option.some.injEq] at h
        subst h
        left
        refine ⟨x.takeWhile dset.has, x.dropWhile dset.has, (List.takeWhile_append_dropWhile).symm, ?_,
          fun c hc => (has_digit c).1 (mem_takeWhile_sat _ _ c hc), (expo_accepts _).1 h1⟩
        intro h0; rw [h0] at hrun; simp at hrun
      | none =>
        rw [h1] at h
        simp only [Option.none_or] at h
        rw [Option.bind_eq_some_iff] at h
        obtain ⟨w, hw, hw2⟩ := h
        obtain ⟨u, rfl, hu, _⟩ := ureal_first_sound x w hw
        right
        refine ⟨u, w, rfl, hu, ?_⟩
        rcases (opt_expo_head w).1 hw2 with h' | h'
        · right; exact (expo_accepts w).1 h'
        · left; exact h'
    · rw [if_neg hrun] at h
      simp only [List.head?_nil, Option.none_or] at h
      rw [Option.bind_eq_some_iff] at h
      obtain ⟨w, hw, hw2⟩ := h
      obtain ⟨u, rfl, hu, _⟩ := ureal_first_sound x w hw
      right
      refine ⟨u, w, rfl, hu, ?_⟩
      rcases (opt_expo_head w).1 hw2 with h' | h'
      · right; exact (expo_accepts w).1 h'
      · left; exact h'
  · rintro (⟨ds, ex, rfl, hne, hds, hex⟩ | ⟨u, ex, rfl, hu, hex⟩)
    · obtain ⟨hd, ht⟩ := dropWhile_append_stop dset.has ds ex (dset_all hds) (expo_stop (Or.inr hex))
      rw [ht, hd, if_pos (by cases ds <;> simp_all)]
      have := (expo_accepts ex).2 hex
      unfold Re.Accepts at this
      rw [this]; rfl
    · have hstop : StopsDigits ex := expo_stop hex
      have h2 : (urealPart.ends (u ++ ex)).head? = some ex := ureal_first_complete u ex hu hstop
      have hoe : ((opt expoPart).ends ex).head? = some [] := by
        rw [opt_expo_head]
        rcases hex with h | h
        · right; exact h
        · left; exact (expo_accepts ex).2 h
      -- the first alternative finds nothing: after the leading digits (if any) comes the '.'
      have h1 : (if 1 ≤ ((u ++ ex).takeWhile dset.has).length then
          expoPart.ends ((u ++ ex).dropWhile dset.has) else []) = [] := by
        obtain ⟨a, b, rfl, ha, hb, _⟩ := hu
        have hdot : dset.has '.' = false := by decide
        have hd := (dropWhile_append_stop dset.has a ('.' :: (b ++ ex)) (dset_all ha)
          (Or.inr ⟨'.', b ++ ex, rfl, hdot⟩)).1
        have : a ++ '.' :: b ++ ex = a ++ '.' :: (b ++ ex) := by simp
        rw [this, hd]
        split
        · exact expo_ends_notE _ (Or.inr ⟨'.', _, rfl, by decide⟩)
        · rfl
      rw [h1, h2]
      simp [hoe]

theorem sci_noSign : ∀ c t, IsSign c → sciBody.ends (c :: t) = [] := by
  intro c t h
  unfold sciBody
  show (seq (plus digit) expoPart).ends (c :: t) ++ (seq urealPart (opt expoPart)).ends (c :: t) = []
  have hc : dset.has c = false := by
    cases hh : dset.has c with
    | false => rfl
    | true => exact absurd ((has_digit c).1 hh) (sign_not_digit h)
  rw [sci_A1_ends]
  have : (seq urealPart (opt expoPart)).ends (c :: t) = [] := by
    simp only [Re.ends]
    have := ureal_noSign c t h
    rw [this]; rfl
  rw [this]
  simp [List.takeWhile_cons, hc]

theorem sci_real_language (s : List Char) : sciRealAst.Accepts s ↔ IsSciReal s := by
  have : sciRealAst = seq signOpt sciBody := rfl
  rw [this]
  unfold IsSciReal
  rw [accepts_signOpt _ sci_noSign]
  simp only [sci_body_language]

example : sciRealAst.Accepts "-1e5".toList := by decide
example : sciRealAst.Accepts "1.5E-3".toList := by decide
example : sciRealAst.Accepts ".5".toList := by decide
example : sciRealAst.Accepts "1.e5".toList := by decide
example : ¬ sciRealAst.Accepts "15".toList := by decide
example : ¬ sciRealAst.Accepts "1e".toList := by decide
example : ¬ sciRealAst.Accepts "1.5e+".toList := by decide
example : ¬ sciRealAst.Accepts "1e5.5".toList := by decide

/-! ## ipv4_address — soundness half only (`_partial`)

Full statement: `ipv4Ast.Accepts s ↔ IsIpv4 s` — proved as `ipv4_language` in `Props/C18More.lean`.  Proved here: `→`
(`ipv4_language_partial`: everything the pattern accepts is four octets of the pattern's exact policy separated by
dots).  The direction `←` (for every such string the *preferred* match is the full one: the greedy-first argument
through the backtracking octet alternatives) is `ipv4_complete` in `Props/C18More.lean`. -/

theorem mem_set_ends (cs : CSet) (s e : List Char) :
    e ∈ (Re.set cs).ends s ↔ ∃ c, s = c :: e ∧ cs.has c = true := by
  rw [det_set cs s, ← expect_some]
  cases expect cs.has s <;> simp [eq_comm]

theorem mem_seq_ends (a b : Re) (s e : List Char) :
    e ∈ (seq a b).ends s ↔ ∃ e', e' ∈ a.ends s ∧ e ∈ b.ends e' := by
  simp [Re.ends, List.mem_flatMap]

theorem mem_alt_ends (a b : Re) (s e : List Char) : e ∈ (alt a b).ends s ↔ e ∈ a.ends s ∨ e ∈ b.ends s := by
  simp [Re.ends]

theorem mem_opt_set_ends (cs : CSet) (s e : List Char) :
    e ∈ (opt (.set cs)).ends s ↔ e = s ∨ ∃ c, s = c :: e ∧ cs.has c = true := by
  rw [ends_opt_set]
  cases s with
  | nil => simp
  | cons c t =>
    by_cases hc : cs.has c = true
    · simp only [hc, if_true, List.mem_cons, List.not_mem_nil, or_false]
      constructor
      · rintro (rfl | rfl)
        · exact Or.inr ⟨c, rfl, hc⟩
        · exact Or.inl rfl
      · rintro (rfl | ⟨c', h, _⟩)
        · exact Or.inr rfl
        · exact Or.inl (List.cons.inj h).2.symm
    · simp only
      rw [if_neg hc]
      simp only [List.mem_cons, List.not_mem_nil, or_false]
      constructor
      · intro h; exact Or.inl h
      · rintro (h | ⟨c', h, hc'⟩)
        · exact h
        · exact absurd ((List.cons.inj h).1 ▸ hc') hc

theorem repSet_zero_zero (C : Char → Bool) (t : List Char) : repSet C 0 (some 0) t = [t] := by
  cases t <;> simp [repSet]

theorem mem_between12_ends (cs : CSet) (s e : List Char) (h : e ∈ (between 1 2 (.set cs)).ends s) :
    (∃ c, s = c :: e ∧ cs.has c = true) ∨ (∃ c1 c2, s = c1 :: c2 :: e ∧ cs.has c1 = true ∧ cs.has c2 = true) := by
  unfold between at h
  rw [ends_rep_set] at h
  cases s with
  | nil => simp [repSet] at h
  | cons c1 t =>
    by_cases h1 : cs.has c1 = true
    · cases t with
      | nil => simp [repSet, h1] at h; subst h; exact Or.inl ⟨c1, rfl, h1⟩
      | cons c2 t2 =>
        by_cases h2 : cs.has c2 = true
        · simp [repSet, h1, h2, repSet_zero_zero] at h
          rcases h with rfl | rfl
          · exact Or.inr ⟨c1, c2, rfl, h1, h2⟩
          · exact Or.inl ⟨c1, rfl, h1⟩
        · simp [repSet, h1, h2] at h; subst h; exact Or.inl ⟨c1, rfl, h1⟩
    · simp [repSet, h1] at h

/-- the pattern's exact octet policy: one or two digits (leading zeros allowed), or three digits `1dd`,
    `2dd` with `d ≤ 4` in the middle, or `25d` with `d ≤ 5` -/
def IsOctet (w : List Char) : Prop :=
  (∀ c ∈ w, IsDigit c) ∧
    (w.length = 1 ∨ w.length = 2 ∨ (∃ d1 d2, w = ['1', d1, d2]) ∨
      (∃ d1 d2, w = ['2', d1, d2] ∧ (d1 ≤ '4' ∨ (d1 = '5' ∧ d2 ≤ '5'))))

theorem has_range (lo hi c : Char) : (CSet.mk false [.r lo hi] false).has c = true ↔ (lo ≤ c ∧ c ≤ hi) := by
  simp [CSet.has, Item.has]

theorem mem_octet (s e : List Char) (h : e ∈ octetAst.ends s) : ∃ w, s = w ++ e ∧ IsOctet w := by
  unfold octetAst at h
  simp only [seqs] at h
  rw [mem_alt_ends, mem_alt_ends] at h
  have d2 : IsDigit '2' := by unfold IsDigit; decide
  have d5 : IsDigit '5' := by unfold IsDigit; decide
  have d1 : IsDigit '1' := by unfold IsDigit; decide
  rcases h with h | h | h
  · -- 25[0-5]
    unfold lit cls at h
    rw [mem_seq_ends] at h; obtain ⟨e1, h1, h⟩ := h
    rw [mem_seq_ends] at h; obtain ⟨e2, h2, h3⟩ := h
    obtain ⟨c1, rfl, hc1⟩ := (mem_set_ends _ _ _).1 h1
    obtain ⟨c2, rfl, hc2⟩ := (mem_set_ends _ _ _).1 h2
    obtain ⟨c3, rfl, hc3⟩ := (mem_set_ends _ _ _).1 h3
    rw [has_lit] at hc1 hc2; subst hc1; subst hc2
    rw [has_range] at hc3
    refine ⟨['2', '5', c3], rfl, ?_, Or.inr (Or.inr (Or.inr ⟨'5', c3, rfl, Or.inr ⟨rfl, hc3.2⟩⟩))⟩
    intro c hc; simp at hc
    rcases hc with rfl | rfl | rfl
    · exact d2
    · exact d5
    · exact ⟨hc3.1, Char.le_trans hc3.2 (by decide)⟩
  · -- 2[0-4][0-9]
    unfold lit cls at h
    rw [mem_seq_ends] at h; obtain ⟨e1, h1, h⟩ := h
    rw [mem_seq_ends] at h; obtain ⟨e2, h2, h3⟩ := h
    obtain ⟨c1, rfl, hc1⟩ := (mem_set_ends _ _ _).1 h1
    obtain ⟨c2, rfl, hc2⟩ := (mem_set_ends _ _ _).1 h2
    obtain ⟨c3, rfl, hc3⟩ := (mem_set_ends _ _ _).1 h3
    rw [has_lit] at hc1; subst hc1
    rw [has_range] at hc2 hc3
    refine ⟨['2', c2, c3], rfl, ?_, Or.inr (Or.inr (Or.inr ⟨c2, c3, rfl, Or.inl hc2.2⟩))⟩
    intro c hc; simp at hc
    rcases hc with rfl | rfl | rfl
    · exact d2
    · exact ⟨hc2.1, Char.le_trans hc2.2 (by decide)⟩
    · exact hc3
  · -- 1?[0-9]{1,2}
    unfold lit cls at h
    rw [mem_seq_ends] at h; obtain ⟨e1, h1, h⟩ := h
    rw [mem_opt_set_ends] at h1
    have hD := mem_between12_ends _ _ _ h
    simp only [has_range] at hD
    rcases h1 with rfl | ⟨c0, rfl, hc0⟩
    · rcases hD with ⟨c, rfl, hc⟩ | ⟨c1, c2, rfl, hc1, hc2⟩
      · exact ⟨[c], rfl, by intro x hx; simp at hx; subst hx; exact hc, Or.inl rfl⟩
      · exact ⟨[c1, c2], rfl, by intro x hx; simp at hx; rcases hx with rfl | rfl; exact hc1; exact hc2,
          Or.inr (Or.inl rfl)⟩
    · rw [has_lit] at hc0; subst hc0
      rcases hD with ⟨c, rfl, hc⟩ | ⟨c1, c2, rfl, hc1, hc2⟩
      · exact ⟨['1', c], rfl, by intro x hx; simp at hx; rcases hx with rfl | rfl; exact d1; exact hc,
          Or.inr (Or.inl rfl)⟩
      · exact ⟨['1', c1, c2], rfl,
          by intro x hx; simp at hx; rcases hx with rfl | rfl | rfl; exact d1; exact hc1; exact hc2,
          Or.inr (Or.inr (Or.inl ⟨c1, c2, rfl⟩))⟩

/-- documented syntax with the pattern's leading-zero policy: four octets separated by dots -/
def IsIpv4 (s : List Char) : Prop :=
  ∃ o1 o2 o3 o4, s = o1 ++ '.' :: (o2 ++ '.' :: (o3 ++ '.' :: o4)) ∧
    IsOctet o1 ∧ IsOctet o2 ∧ IsOctet o3 ∧ IsOctet o4

def dotOctet : Re := grp 2 (seq (lit '.') (grp 3 octetAst))

theorem mem_dotOctet (s e : List Char) (h : e ∈ dotOctet.ends s) : ∃ w, s = '.' :: (w ++ e) ∧ IsOctet w := by
  unfold dotOctet lit at h
  simp only [Re.ends] at h
  have h' : e ∈ (seq (.set ⟨false, [.c '.'], false⟩) octetAst).ends s := by simpa [Re.ends] using h
  rw [mem_seq_ends] at h'
  obtain ⟨e1, h1, h2⟩ := h'
  obtain ⟨c, rfl, hc⟩ := (mem_set_ends _ _ _).1 h1
  rw [has_lit] at hc; subst hc
  obtain ⟨w, rfl, hw⟩ := mem_octet _ _ h2
  exact ⟨w, rfl, hw⟩

theorem dotOctet_progress (s e : List Char) (h : e ∈ dotOctet.ends s) : e.length < s.length := by
  obtain ⟨w, rfl, _⟩ := mem_dotOctet s e h
  simp; omega

theorem ipv4_language_partial (s : List Char) (h : ipv4Ast.Accepts s) : IsIpv4 s := by
  unfold Re.Accepts at h
  have hmem : [] ∈ ipv4Ast.ends s := by
    cases hl : ipv4Ast.ends s with
    | nil => rw [hl] at h; simp at h
    | cons a l => rw [hl] at h; simp at h; subst h; simp
  have hdef : ipv4Ast = seq (grp 1 octetAst) (.rep dotOctet 3 (some 3) true) := rfl
  rw [hdef, mem_seq_ends] at hmem
  obtain ⟨e1, h1, h2⟩ := hmem
  have h1' : e1 ∈ octetAst.ends s := by simpa [Re.ends] using h1
  obtain ⟨o1, rfl, ho1⟩ := mem_octet _ _ h1'
  rw [ends_rep_exact_succ dotOctet true 2 e1 (dotOctet_progress e1), List.mem_flatMap] at h2
  obtain ⟨e2, h21, h2⟩ := h2
  obtain ⟨o2, rfl, ho2⟩ := mem_dotOctet _ _ h21
  rw [ends_rep_exact_succ dotOctet true 1 e2 (dotOctet_progress e2), List.mem_flatMap] at h2
  obtain ⟨e3, h31, h2⟩ := h2
  obtain ⟨o3, rfl, ho3⟩ := mem_dotOctet _ _ h31
  rw [ends_rep_exact_succ dotOctet true 0 e3 (dotOctet_progress e3), List.mem_flatMap] at h2
  obtain ⟨e4, h41, h2⟩ := h2
  obtain ⟨o4, rfl, ho4⟩ := mem_dotOctet _ _ h41
  rw [ends_rep_exact_zero] at h2
  simp at h2; subst h2
  exact ⟨o1, o2, o3, o4, by simp, ho1, ho2, ho3, ho4⟩

example : ipv4Ast.Accepts "192.168.0.255".toList := by decide
example : IsIpv4 "192.168.0.255".toList := ipv4_language_partial _ (by decide)
example : ¬ ipv4Ast.Accepts "256.1.1.1".toList := by decide
example : ¬ ipv4Ast.Accepts "1.1.1.1000".toList := by decide
example : ipv4Ast.Accepts "01.00.9.1".toList := by decide

end PP.C18
