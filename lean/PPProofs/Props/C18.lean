import PPProofs.Lemmas.Regex
import PPProofs.Props.Gen.Patterns
/-!
# C18 — built-in expressions accept exactly the strings of their documented syntax

`Gen/Patterns.lean` is regenerated on every run from the live package (`.pattern` / `.reString` of each built-in).
For every built-in there is
* an obligation `…_pattern_ast : Regex.parse <pattern from the source> = some <AST>` (`decide +kernel`), and
* an unbounded language theorem `…_language : ast.Accepts s ↔ <documented syntax> s` for **all** strings `s`,
  where `r.Accepts s` says that the *preferred* match of `re.match` (leftmost, greedy, ordered alternation,
  backtracking — `PPModel/Base/Regex.lean`) consumes the whole of `s`; this is what
  `expr.parse_string(s, parse_all=True)` observes for a `Regex`/`Word` built-in.
Agreement of the converted values with `int()`, `float()`, `ipaddress`, `uuid`, `datetime` is not provable here
(no model of that CPython library code); it is checked by the oracle only.
-/
namespace PP.C18
open PP.Regex PP.Regex.Re

def IsDigit (c : Char) : Prop := '0' ≤ c ∧ c ≤ '9'
def IsHexDigit (c : Char) : Prop := ('0' ≤ c ∧ c ≤ '9') ∨ ('a' ≤ c ∧ c ≤ 'f') ∨ ('A' ≤ c ∧ c ≤ 'F')
def IsSign (c : Char) : Prop := c = '+' ∨ c = '-'

theorem has_digit_range (c : Char) : (CSet.mk false [.r '0' '9'] false).has c = true ↔ IsDigit c := by
  simp [CSet.has, Item.has, IsDigit]
theorem has_digit (c : Char) : (CSet.mk false [.d] false).has c = true ↔ IsDigit c := by
  simp [CSet.has, Item.has, IsDigit, isDigit]
theorem has_hex (c : Char) :
    (CSet.mk false [.r '0' '9', .r 'A' 'F', .r 'a' 'f'] false).has c = true ↔ IsHexDigit c := by
  simp only [CSet.has, Item.has, IsHexDigit]
  simp
  constructor <;> rintro (h | h | h) <;> simp [h]
theorem has_sign (c : Char) : (CSet.mk false [.c '+', .c '-'] false).has c = true ↔ IsSign c := by
  simp [CSet.has, Item.has, IsSign]

/-! ## integer  (`Word(nums)`, reString `[0-9]+`) -/
def integerAst : Re := plus (cls [.r '0' '9'])

theorem integer_pattern_ast : parse Gen.Patterns.integer = some ⟨integerAst, 0, []⟩ := by decide +kernel

/-- documented syntax: one or more decimal digits -/
def IsInteger (s : List Char) : Prop := s ≠ [] ∧ ∀ c ∈ s, IsDigit c

theorem integer_language (s : List Char) : integerAst.Accepts s ↔ IsInteger s := by
  unfold integerAst plus cls IsInteger
  rw [accepts_rep_set]
  simp only [has_digit_range]
  constructor
  · rintro ⟨h1, h2⟩; exact ⟨by intro h; simp [h] at h1, h2⟩
  · rintro ⟨h1, h2⟩; exact ⟨by cases s <;> simp_all, h2⟩

example : integerAst.Accepts "2024".toList := by decide
example : ¬ integerAst.Accepts "20x4".toList := by decide

/-! ## hex_integer  (`Word(hexnums)`, reString `[0-9A-Fa-f]+`) -/
def hexIntegerAst : Re := plus (cls [.r '0' '9', .r 'A' 'F', .r 'a' 'f'])

theorem hex_integer_pattern_ast : parse Gen.Patterns.hex_integer = some ⟨hexIntegerAst, 0, []⟩ := by
  decide +kernel

/-- documented syntax: one or more hexadecimal digits -/
def IsHexInteger (s : List Char) : Prop := s ≠ [] ∧ ∀ c ∈ s, IsHexDigit c

theorem hex_integer_language (s : List Char) : hexIntegerAst.Accepts s ↔ IsHexInteger s := by
  unfold hexIntegerAst plus cls IsHexInteger
  rw [accepts_rep_set]
  simp only [has_hex]
  constructor
  · rintro ⟨h1, h2⟩; exact ⟨by intro h; simp [h] at h1, h2⟩
  · rintro ⟨h1, h2⟩; exact ⟨by cases s <;> simp_all, h2⟩

example : hexIntegerAst.Accepts "fF09".toList := by decide
example : ¬ hexIntegerAst.Accepts "fg".toList := by decide

/-! ## signed_integer  (`Regex(r"[+-]?\d+")`) -/
def signedIntegerAst : Re := seq (opt (cls [.c '+', .c '-'])) (plus digit)

theorem signed_integer_pattern_ast :
    parse Gen.Patterns.signed_integer = some ⟨signedIntegerAst, 0, []⟩ := by decide +kernel

/-- documented syntax: an optional sign followed by one or more decimal digits -/
def IsSignedInteger (s : List Char) : Prop :=
  ∃ sg ds, s = sg ++ ds ∧ (sg = [] ∨ ∃ c, IsSign c ∧ sg = [c]) ∧ ds ≠ [] ∧ ∀ c ∈ ds, IsDigit c

theorem signed_integer_language (s : List Char) : signedIntegerAst.Accepts s ↔ IsSignedInteger s := by
  have hplus : ∀ x : List Char, (plus digit).Accepts x ↔ (x ≠ [] ∧ ∀ c ∈ x, IsDigit c) := by
    intro x
    unfold plus digit
    rw [accepts_rep_set]
    simp only [has_digit]
    constructor
    · rintro ⟨h1, h2⟩; exact ⟨by intro h; simp [h] at h1, h2⟩
    · rintro ⟨h1, h2⟩; exact ⟨by cases x <;> simp_all, h2⟩
  have hsd : ∀ c, IsSign c → ¬ IsDigit c := by
    intro c h hd; rcases h with h | h <;> (subst h; revert hd; unfold IsDigit; decide)
  unfold signedIntegerAst cls
  rw [accepts_seq_opt_set]
  cases s with
  | nil =>
    simp only [IsSignedInteger]
    constructor
    · intro h; exact absurd ((hplus []).1 h).1 (by simp)
    · rintro ⟨sg, ds, h, _, hne, _⟩
      have : ds = [] := by
        have := congrArg List.length h; simp at this; exact List.eq_nil_of_length_eq_zero (by omega)
      exact absurd this hne
  | cons c t =>
    simp only
    by_cases hc : (CSet.mk false [.c '+', .c '-'] false).has c = true
    · have hs := (has_sign c).1 hc
      rw [if_pos hc]
      have hnot : ¬ (plus digit).Accepts (c :: t) := by
        intro h; exact hsd c hs (((hplus _).1 h).2 c (by simp))
      have hnone : ((plus digit).ends (c :: t)).head? = none := by
        unfold plus digit
        rw [ends_rep_set, repSet_none_head]
        have : (CSet.mk false [.d] false).has c = false := by
          cases h : (CSet.mk false [.d] false).has c with
          | false => rfl
          | true => exact absurd ((has_digit c).1 h) (hsd c hs)
        simp [List.takeWhile_cons, this]
      simp only [hnone, Option.none_or, Option.or_none]
      show (plus digit).Accepts t ↔ _
      rw [hplus]
      constructor
      · rintro ⟨h1, h2⟩; exact ⟨[c], t, rfl, Or.inr ⟨c, hs, rfl⟩, h1, h2⟩
      · rintro ⟨sg, ds, h, hsg, hne, hd⟩
        rcases hsg with rfl | ⟨c', _, rfl⟩
        · simp at h; subst h
          exact absurd (hd c (by simp)) (hsd c hs)
        · simp at h; obtain ⟨_, rfl⟩ := h; exact ⟨hne, hd⟩
    · rw [if_neg hc]
      show (plus digit).Accepts (c :: t) ↔ _
      rw [hplus]
      constructor
      · rintro ⟨h1, h2⟩; exact ⟨[], c :: t, rfl, Or.inl rfl, h1, h2⟩
      · rintro ⟨sg, ds, h, hsg, hne, hd⟩
        rcases hsg with rfl | ⟨c', hs', rfl⟩
        · simp at h; subst h; exact ⟨hne, hd⟩
        · simp at h; obtain ⟨rfl, _⟩ := h
          exact absurd ((has_sign c).2 hs') hc

example : signedIntegerAst.Accepts "-42".toList := by decide
example : signedIntegerAst.Accepts "7".toList := by decide
example : ¬ signedIntegerAst.Accepts "+-1".toList := by decide
example : ¬ signedIntegerAst.Accepts "-".toList := by decide

/-! ## pinned ASTs of the remaining Regex-based built-ins

Each `…_pattern_ast` is a generated-fact obligation: the pattern string read from the live package parses to the
AST written here.  Any edit of a built-in's pattern breaks the obligation at `lake build`. -/
def signOpt : Re := opt (cls [.c '+', .c '-'])
def expoPart : Re := seq (cls [.c 'e', .c 'E']) (seq signOpt (plus digit))
def urealPart : Re := alt (seq (plus digit) (seq (lit '.') (star digit))) (seq (lit '.') (plus digit))
def hx : Re := cls [.r '0' '9', .r 'a' 'f', .r 'A' 'F']
def dd : Re := seq digit digit

def realAst : Re := seq signOpt urealPart
theorem real_pattern_ast : parse Gen.Patterns.real = some ⟨realAst, 0, []⟩ := by decide +kernel

def sciRealAst : Re := seq signOpt (alt (seq (plus digit) expoPart) (seq urealPart (opt expoPart)))
theorem sci_real_pattern_ast : parse Gen.Patterns.sci_real = some ⟨sciRealAst, 0, []⟩ := by decide +kernel

def fnumberAst : Re := seqs [signOpt, plus digit, opt (lit '.'), star digit, opt expoPart]
theorem fnumber_pattern_ast : parse Gen.Patterns.fnumber = some ⟨fnumberAst, 0, []⟩ := by decide +kernel

def liti (c : Char) : Re := .set ⟨false, [.c c], true⟩
def signOptI : Re := opt (.set ⟨false, [.c '+', .c '-'], true⟩)
def ieeeFloatAst : Re :=
  seq signOptI
    (alt (seqs [plus digit, opt (liti '.'), star digit, opt (seqs [liti 'e', signOptI, plus digit])])
      (alt (seqs [liti 'n', liti 'a', liti 'n'])
        (seqs [liti 'i', liti 'n', liti 'f', opt (seqs [liti 'i', liti 'n', liti 'i', liti 't', liti 'y'])])))
theorem ieee_float_pattern_ast : parse Gen.Patterns.ieee_float = some ⟨ieeeFloatAst, 0, []⟩ := by decide +kernel

def identifierAst : Re :=
  seq (cls [.r 'A' 'Z', .c '_', .r 'a' 'z', .c 'ª', .c 'µ', .c 'º', .r 'À' 'Ö', .r 'Ø' 'ö', .r 'ø' 'ÿ'])
    (star (cls [.r '0' '9', .r 'A' 'Z', .c '_', .r 'a' 'z', .c 'ª', .c 'µ', .c '·', .c 'º', .r 'À' 'Ö', .r 'Ø' 'ö',
      .r 'ø' 'ÿ']))
theorem identifier_pattern_ast : parse Gen.Patterns.identifier = some ⟨identifierAst, 0, []⟩ := by decide +kernel

def octetAst : Re :=
  alt (seqs [lit '2', lit '5', cls [.r '0' '5']])
    (alt (seqs [lit '2', cls [.r '0' '4'], cls [.r '0' '9']])
      (seq (opt (lit '1')) (between 1 2 (cls [.r '0' '9']))))
def ipv4Ast : Re := seq (grp 1 octetAst) (exactly 3 (grp 2 (seq (lit '.') (grp 3 octetAst))))
theorem ipv4_address_pattern_ast : parse Gen.Patterns.ipv4_address = some ⟨ipv4Ast, 3, []⟩ := by decide +kernel

def macAst : Re :=
  seqs [exactly 2 hx, grp 1 (cls [.c ':', .c '.', .c '-']), exactly 2 hx, exactly 4 (seq (bref 1 false) (exactly 2 hx))]
theorem mac_address_pattern_ast : parse Gen.Patterns.mac_address = some ⟨macAst, 1, []⟩ := by decide +kernel

def isoDateAst : Re :=
  seq (grp 1 (exactly 4 digit))
    (opt (seqs [lit '-', grp 2 dd, opt (seq (lit '-') (grp 3 dd))]))
theorem iso8601_date_pattern_ast :
    parse Gen.Patterns.iso8601_date = some ⟨isoDateAst, 3, [("year", 1), ("month", 2), ("day", 3)]⟩ := by
  decide +kernel

def isoDatetimeAst : Re :=
  seqs [grp 1 (exactly 4 digit), lit '-', grp 2 dd, lit '-', grp 3 dd, cls [.c 'T', .c ' '], grp 4 dd, lit ':',
    grp 5 dd,
    opt (grp 6 (seq (lit ':') (opt (grp 7 (seqs [digit, digit, opt (grp 8 (seq (lit '.') (star digit)))]))))),
    opt (grp 9 (alt (lit 'Z') (seqs [cls [.c '+', .c '-'], digit, digit, opt (lit ':'), digit, digit])))]
theorem iso8601_datetime_pattern_ast :
    parse Gen.Patterns.iso8601_datetime = some ⟨isoDatetimeAst, 9,
      [("year", 1), ("month", 2), ("day", 3), ("hour", 4), ("minute", 5), ("second", 7), ("tz", 9)]⟩ := by
  decide +kernel

def uuidAst : Re := seqs [exactly 8 hx, exactly 3 (grp 1 (seq (lit '-') (exactly 4 hx))), lit '-', exactly 12 hx]
theorem uuid_pattern_ast : parse Gen.Patterns.uuid = some ⟨uuidAst, 1, []⟩ := by decide +kernel

/-- `number = sci_real | real | signed_integer` (a MatchFirst of exactly these three patterns, in this order);
    `fraction = signed_integer "/" signed_integer`; the quoted-string built-ins are built from the pinned bodies -/
theorem number_leaves_fact : Gen.Patterns.number_leaves =
    [("Regex", Gen.Patterns.sci_real, 0), ("Regex", Gen.Patterns.real, 0), ("Regex", Gen.Patterns.signed_integer, 0)] := by
  decide +kernel
theorem fraction_leaves_fact : Gen.Patterns.fraction_leaves =
    [("Regex", Gen.Patterns.signed_integer, 0), ("Literal", "/", 0), ("Regex", Gen.Patterns.signed_integer, 0)] := by
  decide +kernel
theorem ipv6_leaves_fact : Gen.Patterns.ipv6_address_leaves =
    [("Regex", "[0-9a-fA-F]{1,4}", 0), ("Literal", ":", 0), ("Literal", "::ffff:", 0),
     ("Regex", Gen.Patterns.ipv4_address, 0), ("Literal", "::", 0)] := by
  decide +kernel

def quotedBodyAst (q : Char) : Re :=
  seq (lit q) (star (alt (ncls [.c q, .c '\n', .c '\r', .c '\\'])
    (alt (seq (lit q) (lit q)) (seq (lit '\\') (alt (ncls [.c 'x']) (seq (lit 'x') (plus hx)))))))
theorem dbl_quoted_string_fact : Gen.Patterns.dbl_quoted_string_leaves.map (fun x => (x.1, (parse x.2.1).map (·.re))) =
    [("Regex", some (quotedBodyAst '"')), ("Literal", some (lit '"'))] := by decide +kernel
theorem sgl_quoted_string_fact : Gen.Patterns.sgl_quoted_string_leaves.map (fun x => (x.1, (parse x.2.1).map (·.re))) =
    [("Regex", some (quotedBodyAst '\'')), ("Literal", some (lit '\''))] := by decide +kernel
theorem quoted_string_fact : Gen.Patterns.quoted_string_leaves.map (fun x => (x.1, (parse x.2.1).map (·.re))) =
    [("Regex", some (quotedBodyAst '"')), ("Literal", some (lit '"')),
     ("Regex", some (quotedBodyAst '\'')), ("Literal", some (lit '\''))] := by decide +kernel

end PP.C18
