import PPModel.Mod.PRFromDict
/-!
# C11 — `ParseResults.from_dict(d).as_dict() == d` for nested non-empty dicts of scalars and lists

Model: `PPModel/Mod/PRFromDict.lean` (tree model of `from_dict` / `as_dict`, all nesting depths).
-/
namespace PP.FromDict

variable {α : Type}

mutual
/-- the dicts of the statement: every nested dict is non-empty (scalars and lists are unrestricted; a list may
    contain anything, it is kept as one token and given back as it is) -/
def Good : J α → Prop
  | .atom _ => True
  | .list _ => True
  | .dict kvs => kvs ≠ [] ∧ GoodL kvs
def GoodL : List (String × J α) → Prop
  | [] => True
  | (_, v) :: rest => Good v ∧ GoodL rest
end

theorem toItems_map_obj (xs : List (J α)) : toItems (xs.map R.obj) = xs := by
  induction xs with
  | nil => rfl
  | cons x xs ih => simp [toItems, toItem, ih]

theorem body_names_isEmpty (kvs : List (String × J α)) : (body kvs).2.isEmpty = kvs.isEmpty := by
  cases kvs with
  | nil => rfl
  | cons kv rest => obtain ⟨k, v⟩ := kv; rfl

mutual
theorem rt_conv : ∀ (v : J α), Good v → toItem (conv v).2 = v
  | .atom a, _ => rfl
  | .list xs, _ => by simp [conv, toItem, toItems_map_obj]
  | .dict kvs, h => by
    obtain ⟨hne, hg⟩ := h
    have he : (body kvs).2.isEmpty = false := by
      rw [body_names_isEmpty]; cases kvs with
      | nil => exact absurd rfl hne
      | cons _ _ => rfl
    simp only [conv, toItem, he, Bool.false_eq_true, if_false]
    rw [rt_body kvs hg]
theorem rt_body : ∀ (kvs : List (String × J α)), GoodL kvs → asDictNames (body kvs).2 = kvs
  | [], _ => rfl
  | (k, v) :: rest, h => by
    obtain ⟨hv, hr⟩ := h
    simp only [body, asDictNames]
    rw [rt_conv v hv, rt_body rest hr]
end

/-- **Round trip**: for every dict whose nested dicts are all non-empty (any depth, any scalars, any lists). -/
theorem from_dict_roundtrip (kvs : List (String × J α)) (h : GoodL kvs) : asDict (fromDict kvs) = kvs := by
  simp only [fromDict, asDict]; exact rt_body kvs h

/-- why "non-empty": an empty nested dict comes back as an empty list (`from_dict({'c': {}}).as_dict() == {'c': []}`,
    excluded by the statement; replayed on the real class by harness/props/c11.py) -/
theorem from_dict_empty_inner_dict :
    asDict (fromDict [("c", (J.dict [] : J String))]) = [("c", J.list [])] := rfl

/-- non-vacuity: nested dicts three deep, a list with a nested list, scalars -/
example : GoodL [("a", (J.atom "1" : J String)), ("b", .list [.atom "1", .list [.atom "2"]]),
    ("c", .dict [("d", .dict [("e", .list [])]), ("f", .atom "x")])] := by
  simp [GoodL, Good]

end PP.FromDict
