/- GENERATED placeholder (rewritten by harness/props/c18.py) -/
namespace PP.Gen.QuotedFacts
def scanFacts : List (Option Char × Bool × Bool × String × Bool × Nat × Bool) := []
end PP.Gen.QuotedFacts
