import PPProofs.Lemmas.Threads
import PPProofs.Lemmas.ThreadsLocks
import PPProofs.Props.Gen.C15Locks
/-!
# C15 — concurrent parsing equals serial parsing

Model: `PPModel/Mod/Threads.lean`. The statements below quantify over **all** grammars `g` (any element
behaviour, any cached/uncached split — `cached = fun _ => false` is memoisation off), **all** schedules
(`Reach` is closed under a step of any thread at any time), **any number of threads** (`Tid → Thread`),
all cache sizes (`none` = unbounded, `some n` = FIFO of size n, including 0) and all initial cache contents
that are correct for their own key.

Full statement of the property (properties.jsonl C15): for modes off, packrat AND left-recursion each call
returns what it returns alone, nothing crashes, nothing deadlocks. Proved at full strength for modes off and
packrat (`packrat_atomic`, `cache_entries_correct`, `concurrent_eq_serial`, `no_internal_error`,
`no_deadlock`); since `Act.entry` these cover NESTED entry-point calls (`parse_string` / `scan_string` / `search_string` /
`transform_string` called from a parse action or condition: a second `reset_cache()` + parse on top of the running
parse). Deadlock-freedom over BOTH class-level locks and all modes (left-recursion mode included, where a nested
entry call takes `packrat_cache_lock` while `recursion_lock` is held) is `Locks.lock_order_no_deadlock` (any
programs whose acquisitions respect one global order) instantiated with the order of the unchanged code
(`Locks.nested_entry_no_deadlock`: `recursion_lock` before `packrat_cache_lock`). For left-recursion mode the statement is FALSE of the current code: `lr_race_witness`,
`lr_reset_race_witness` (concrete schedules, `by decide`), replayed on the real code by the harness.
-/
namespace PP.Threads

/-- start of a run: every thread is about to call `reset_cache()` then `_parse(root t)`; the lock is free;
    whatever is in the cache (left over from earlier parses) is correct for its own key. -/
structure Init (g : Grammar) (root : Tid → Key) (s : State) : Prop where
  thr : ∀ t, s.thr t = Thread.init (root t)
  free : s.sh.pOwner = none
  count : s.sh.pCount = 0
  cache : CacheOk g s.sh

theorem init_inv {g root s} (h : Init g root s) : Inv g s := by
  refine ⟨fun t => ?_, fun t ho => ?_, fun t _ => ?_, fun _ => h.count, fun t => ?_⟩
  · rw [h.thr]; exact WF_init g _
  · rw [h.free] at ho; cases ho
  · rw [h.thr]; simp [Thread.init, held, resetHeld, insidePC, cachedCount]
  · rw [h.thr]; simp [Thread.init, pcData]

theorem reach_inv {g s s'} (r : Reach g s s') (inv : Inv g s) : Inv g s' := by
  induction r with
  | refl => exact inv
  | tail t _ hs ih => exact step_inv hs ih

/-- value invariant of a whole state -/
structure ValInv (g : Grammar) (s : State) : Prop where
  cache : CacheOk g s.sh
  thr : ∀ t, ThreadOk g (s.thr t)

theorem step_val {g s t s'} (h : step g s t = some s') (vi : ValInv g s) : ValInv g s' := by
  unfold step at h
  cases hts : tstep g s.sh t (s.thr t) with
  | none => simp [hts] at h
  | some p =>
    obtain ⟨sh', th'⟩ := p
    simp [hts] at h; subst h
    obtain ⟨hc, ht⟩ := tstep_val hts vi.cache (vi.thr t)
    refine ⟨hc, fun u => ?_⟩
    by_cases hu : u = t
    · subst hu; simpa using ht
    · simpa [upd_other _ _ hu] using vi.thr u

theorem reach_val {g s s'} (r : Reach g s s') (vi : ValInv g s) : ValInv g s' := by
  induction r with
  | refl => exact vi
  | tail t _ hs ih => exact step_val hs ih

theorem init_val {g root s} (h : Init g root s) : ValInv g s :=
  ⟨h.cache, fun t => by rw [h.thr]; exact ThreadOk_init g _⟩

theorem step_root {g s u s'} (hs : step g s u = some s') (t : Tid) : (s'.thr t).root = (s.thr t).root := by
  unfold step at hs
  cases hts : tstep g s.sh u (s.thr u) with
  | none => simp [hts] at hs
  | some p =>
    simp [hts] at hs; subst hs
    by_cases ht : t = u
    · subst ht; simp [(tstep_size hts).2]
    · simp [upd_other _ _ ht]

theorem reach_root {g s s'} (r : Reach g s s') : ∀ t, (s'.thr t).root = (s.thr t).root := by
  induction r with
  | refl => intro _; rfl
  | tail u _ hs ih => intro t; rw [step_root hs t, ih t]

/-- **packrat_atomic**: under every schedule, a thread that is at a program point which reads or writes the
    packrat cache (or clears the memo table in `reset_cache`) owns `packrat_cache_lock`. -/
theorem packrat_atomic {g root s0 s} (h0 : Init g root s0) (r : Reach g s0 s) (t : Tid)
    (ht : touching (s.thr t).pc = true) : s.sh.pOwner = some t := by
  have inv := reach_inv r (init_inv h0)
  have := touching_held (inv.wf t) ht
  apply Classical.byContradiction; intro hn
  have := inv.notOwn t hn; omega

/-- hence cache accesses of different threads never overlap: lock regions are serialisable -/
theorem packrat_mutual_exclusion {g root s0 s} (h0 : Init g root s0) (r : Reach g s0 s) (t u : Tid)
    (ht : touching (s.thr t).pc = true) (hu : touching (s.thr u).pc = true) : t = u := by
  have a := packrat_atomic h0 r t ht
  have b := packrat_atomic h0 r u hu
  rw [a] at b; exact Option.some.inj b

/-- **cache_entries_correct**: under every schedule every entry of the shared packrat cache is the serial
    (cache-free) answer for its own key `(expr, input, loc, flags)` — whoever wrote it. -/
theorem cache_entries_correct {g root s0 s} (h0 : Init g root s0) (r : Reach g s0 s) :
    ∀ k v, (k, v) ∈ s.sh.cache → Eval g k v :=
  fun k v hm => (reach_val r (init_val h0)).cache (k, v) hm

/-- the serial answer is unique -/
theorem eval_deterministic {g k v v'} (h : Eval g k v) (h' : Eval g k v') : v = v' := run_det h h'

/-- a thread's result under any schedule, among any other threads, is the cache-free serial answer -/
theorem result_is_serial_answer {g root s0 s} (h0 : Init g root s0) (r : Reach g s0 s) (t : Tid) (v : Val)
    (hd : (s.thr t).pc = .done v) : Eval g (root t) v := by
  have vi := reach_val r (init_val h0)
  have := (vi.thr t).done v hd
  rw [reach_root r t, h0.thr t] at this
  exact this

/-- **concurrent_eq_serial**: two runs — any schedules, any other threads with any other inputs, any cache
    sizes, any initial cache contents (e.g. the concurrent run and the run of thread `t` alone) — give the
    call of thread `t` the same result whenever both complete. -/
theorem concurrent_eq_serial {g root root' s0 s0' s s'} (h0 : Init g root s0) (h0' : Init g root' s0')
    (r : Reach g s0 s) (r' : Reach g s0' s') (t t' : Tid) (hroot : root t = root' t') (v v' : Val)
    (hd : (s.thr t).pc = .done v) (hd' : (s'.thr t').pc = .done v') : v = v' := by
  have a := result_is_serial_answer h0 r t v hd
  have b := result_is_serial_answer h0' r' t' v' hd'
  rw [hroot] at a
  exact eval_deterministic a b

/-- **no_internal_error**: the `StopIteration`/`KeyError` exits of `_FifoCache.set` are unreachable -/
theorem no_internal_error {g root s0 s} (h0 : Init g root s0) (r : Reach g s0 s) (t : Tid) :
    (s.thr t).pc ≠ .crash := by
  intro hc
  have := (reach_inv r (init_inv h0)).data t
  simp [pcData, hc] at this

/-- **no_deadlock**: in every reachable state in which some thread has not finished, some thread can step -/
theorem no_deadlock {g root s0 s} (h0 : Init g root s0) (r : Reach g s0 s)
    (hu : ∃ t, finished (s.thr t).pc = false) : ∃ t, (step g s t).isSome = true := by
  have inv := reach_inv r (init_inv h0)
  cases ho : s.sh.pOwner with
  | none =>
    obtain ⟨t, ht⟩ := hu
    refine ⟨t, ?_⟩
    have := tstep_enabled (g := g) (sh := s.sh) (t := t) (inv.wf t) ht (Or.inl ho)
    unfold step
    cases hts : tstep g s.sh t (s.thr t) <;> simp_all
  | some u =>
    have hc := inv.own u ho
    have hnf : finished (s.thr u).pc = false := by
      cases hpc : (s.thr u).pc <;> simp [finished]
      · rename_i v
        have hs := (inv.wf u).doneEmpty v hpc
        have : held g (s.thr u) = 0 := by simp [held, hpc, hs, resetHeld]
        omega
      · exact absurd hpc (no_internal_error h0 r u)
    refine ⟨u, ?_⟩
    have := tstep_enabled (g := g) (sh := s.sh) (t := u) (inv.wf u) hnf (Or.inr ho)
    unfold step
    cases hts : tstep g s.sh u (s.thr u) <;> simp_all


/-! ## non-vacuity: a concrete grammar, FIFO cache of size 1, two threads on the same input -/

namespace Ex
def kD : Key := ⟨9, 0, 0, 0⟩   -- top-level driver (parse_string), not a cached call
def kA : Key := ⟨1, 0, 0, 3⟩   -- And(w, n)
def kW : Key := ⟨2, 0, 0, 3⟩
def kN : Key := ⟨3, 0, 1, 3⟩
def g : Grammar where
  body k rs :=
    if k = kD then (if rs.length = 0 then .call kA else .ret 5)
    else if k = kA then (if rs.length = 0 then .call kW else if rs.length = 1 then .call kN else .ret 5)
    else if k = kW then .ret 6 else .ret 7
  cached k := k ≠ kD
def s0 : State := ⟨{ size := some 1 }, fun _ => Thread.init kD⟩
def cfg : Cfg := ⟨g, .region, 2⟩

theorem init : Init g (fun _ => kD) s0 :=
  ⟨fun _ => rfl, rfl, rfl, fun p hp => by simp [s0] at hp⟩

def stepsOf : State → List Tid → Option State
  | s, [] => some s
  | s, t :: r => match step g s t with | some s' => stepsOf s' r | none => none

theorem stepsOf_reach' {s'} : ∀ (sched : List Tid) (a s : State), Reach g a s → stepsOf s sched = some s' →
    Reach g a s'
  | [], a, s, r, h => by simp [stepsOf] at h; exact h ▸ r
  | t :: rest, a, s, r, h => by
    simp only [stepsOf] at h
    cases hs : step g s t with
    | none => simp [hs] at h
    | some s1 => simp [hs] at h; exact stepsOf_reach' rest a s1 (.tail t r hs) h

theorem stepsOf_reach {s sched s'} (h : stepsOf s sched = some s') : Reach g s s' :=
  stepsOf_reach' sched s s (.refl s) h

/-- thread 0 resets, thread 1 resets, thread 0 parses (3 cache misses, 2 FIFO evictions), thread 1 parses
    (hits thread 0's surviving entry): both reach `done 5`, and the hypotheses of every theorem above hold -/
def sched : List Tid := [0,0,0,0, 1,1,1,1] ++ List.replicate 33 0 ++ List.replicate 8 1

example : (stepsOf s0 sched).map (fun s => ((s.thr 0).pc, (s.thr 1).pc, s.sh.cache)) =
    some (.done 5, .done 5, [(kA, 5)]) := by decide +kernel

example : ∃ s, Reach g s0 s ∧ (s.thr 1).pc = .done 5 ∧ Eval g kD 5 := by
  cases h : stepsOf s0 sched with
  | none => exact absurd h (by decide +kernel)
  | some s =>
    have hr := stepsOf_reach h
    have hpc : (s.thr 1).pc = .done 5 := by
      have : (stepsOf s0 sched).map (fun s => (s.thr 1).pc) = some (.done 5) := by decide +kernel
      rw [h] at this; simpa using this
    exact ⟨s, hr, hpc, result_is_serial_answer init hr 1 5 hpc⟩

/-- a state in which a thread is inside the eviction loop and another one is waiting: `touching` and
    "not finished" hypotheses are satisfiable -/
example : (stepsOf s0 ([0,0,0,0, 1,1,1,1] ++ List.replicate 18 0)).map
    (fun s => ((s.thr 0).pc, s.sh.pOwner, s.sh.pCount, touching (s.thr 0).pc, finished (s.thr 1).pc)) =
    some (.pick 7, some 0, 2, true, false) := by decide +kernel
end Ex

/-! non-vacuity for NESTED entry calls: the action of the cached element `kA` calls `sub.parse_string(..)`
    (`.entry kE`: `reset_cache()` + the nested driver `kE`, which parses the cached element `kW` of the shared
    sub-grammar) -/
namespace Nest
def kD : Key := ⟨9, 0, 0, 0⟩   -- top-level driver
def kA : Key := ⟨1, 0, 0, 3⟩   -- element with the re-parsing action
def kE : Key := ⟨0, 1, 5, 4⟩   -- nested driver (parse_string of the sub-grammar on the field's text)
def kW : Key := ⟨2, 1, 0, 3⟩   -- sub-grammar element
def g : Grammar where
  body k rs :=
    if k = kD then (if rs.length = 0 then .call kA else .ret 5)
    else if k = kA then (if rs.length = 0 then .entry kE else .ret 5)
    else if k = kE then (if rs.length = 0 then .call kW else .ret 8)
    else .ret 6
  cached k := k = kA ∨ k = kW
def s0 : State := ⟨{ size := some 1 }, fun _ => Thread.init kD⟩

theorem init : Init g (fun _ => kD) s0 :=
  ⟨fun _ => rfl, rfl, rfl, fun p hp => by simp [s0] at hp⟩

def stepsOf : State → List Tid → Option State
  | s, [] => some s
  | s, t :: r => match step g s t with | some s' => stepsOf s' r | none => none

/-- thread 0 is inside the nested `reset_cache()` of its action (lock count 2: `_parseCache` + `reset_cache`),
    at a `touching` point; thread 1 has reset and waits for the lock at its first cached call -/
example : (stepsOf s0 (List.replicate 6 1 ++ List.replicate 11 0)).map
    (fun s => ((s.thr 0).pc, s.sh.pOwner, s.sh.pCount, touching (s.thr 0).pc, (step g s 1).isSome)) =
    some (.rMemo, some 0, 2, true, false) := by decide +kernel

/-- both threads run to completion (thread 1 is served thread 0's surviving entry) with the serial answer 5 -/
example : (stepsOf s0 (List.replicate 6 1 ++ List.replicate 11 0 ++ List.replicate 23 0 ++
    List.replicate 6 1)).map (fun s => ((s.thr 0).pc, (s.thr 1).pc, s.sh.cache)) =
    some (.done 5, .done 5, [(kA, 5)]) := by decide +kernel
end Nest

/-! ## all locks, all three modes, nested entry calls: one global acquisition order ⇒ no deadlock

Model: Part 5 of `PPModel/Mod/Threads.lean` (`Locks`): a thread = the list of its lock operations; locks are
re-entrant and numbered: 0 = `recursion_lock` (R), 1 = `packrat_cache_lock` (P) - the two class-wide locks of the
unchanged code - and 2 + i = a lock stored on the i-th element instance (none in the unchanged code: generated facts
below).  Any number `n` of locks, any number of threads, all schedules. -/
namespace Locks

/-- **lock_order_no_deadlock**: if every thread acquires a lock it does not already hold only while all locks it
    holds rank strictly below it (for ONE ranking `rank` shared by all threads), releases only what it holds and
    ends holding nothing, then under every schedule, in every reachable state in which some thread has not finished,
    some thread can step. -/
theorem lock_order_no_deadlock {n : Nat} {rank : Nat → Nat} {prog : Tid → List Op} {s : LState}
    (h0 : ∀ t, ordered n rank Held.zero (prog t) = true) (r : LReach (linit prog) s)
    (hu : ∃ t, s.prog t ≠ []) : ∃ t, (lstep s t).isSome = true :=
  no_stuck_state (lreach_inv r (linit_inv h0)) hu

/-- modes off / packrat: whatever the nesting of `_parseCache` calls and nested entry calls, only P is ever taken,
    so the program is ordered for every ranking -/
theorem packrat_nested_ordered {n : Nat} {rank : Nat → Nat} {p : List Op} (hn : 2 ≤ n) (hp : PackratProg p) :
    ordered n rank Held.zero p = true := by
  have := packrat_ordered (rank := rank) hn hp Held.zero [] (fun _ _ => rfl)
    (by simp only [ordered]; exact noneHeld_of fun _ _ => rfl)
  simpa using this

/-- left-recursion mode: whatever the nesting of `Forward.parseImpl` calls (each taking the class-wide R) and
    nested entry calls, the program is ordered for `codeRank` (R before P) -/
theorem lr_nested_ordered {n : Nat} {p : List Op} (hn : 2 ≤ n) (hp : LRProg p) :
    ordered n codeRank Held.zero p = true := by
  have := lr_ordered hn hp Held.zero [] (fun _ _ => rfl)
    (by simp only [ordered]; exact noneHeld_of fun _ _ => rfl)
  simpa using this

/-- **nested_entry_no_deadlock**: threads that each run an entry point (`reset_cache()` then the parse) whose parse
    actions make nested entry calls to any depth, over grammars with any number of (mutually) recursive Forwards,
    never deadlock - in modes off/packrat and in left-recursion mode (the memoisation mode is process-global, so all
    threads are in the same one). -/
theorem nested_entry_no_deadlock {prog : Tid → List Op} {s : LState}
    (hp : (∀ t, PackratProg (prog t)) ∨ (∀ t, LRProg (prog t))) (r : LReach (linit prog) s)
    (hu : ∃ t, s.prog t ≠ []) : ∃ t, (lstep s t).isSome = true := by
  rcases hp with hp | hp
  · exact lock_order_no_deadlock (n := 2) (rank := codeRank)
      (fun t => packrat_nested_ordered (Nat.le_refl 2) (hp t)) r hu
  · exact lock_order_no_deadlock (n := 2) (rank := codeRank)
      (fun t => lr_nested_ordered (Nat.le_refl 2) (hp t)) r hu

/-! ### tie to the live objects (generated facts, PPProofs/Props/Gen/C15Locks.lean) -/

/-- the lock `Forward.parseImpl` of the i-th Forward of a grammar takes, according to the live objects: the
    class-wide `ParserElement.recursion_lock` iff `Forward().recursion_lock is ParserElement.recursion_lock` and no
    element instance stores a lock of its own -/
def forwardLock (i : Nat) : Nat :=
  if Gen.forwardUsesClassRecursionLock && Gen.instanceLocks == 0 then R else F i

/-- **forward_lock_is_class_wide**: the shape `LRProg.forward` (acquire R) is the shape of the current source -/
theorem forward_lock_is_class_wide (i : Nat) : forwardLock i = R := by
  simp [forwardLock, Gen.forwardUsesClassRecursionLock, Gen.instanceLocks]

/-- **class_locks_are_two**: `ParserElement` and its subclasses define exactly the two locks of the model -/
theorem class_locks_are_two : Gen.classLocks = ["packrat_cache_lock", "recursion_lock"] := by decide

namespace Ex
open Op

/-- packrat: `record.parse_string(..)` whose action calls `numbers.parse_string(..)` (selftest C15-4 demo):
    reset; _parseCache(record){ cget; action: reset; _parseCache(numbers){cget; cput}; cput } -/
def recordProg : List Op :=
  reset ++ [acq P, tau, acq P, tau, tau, rel P, acq P, tau, tau, rel P, tau, rel P]
/-- the other thread: `numbers.parse_string(..)` -/
def numbersProg : List Op := reset ++ [acq P, tau, tau, rel P]

theorem recordProg_shape : PackratProg recordProg :=
  .entry (.cached (a := [tau, acq P, tau, tau, rel P, acq P, tau, tau, rel P, tau]) (b := [])
    (.tau (.entry (.cached (a := [tau, tau]) (b := [tau]) (.tau (.tau .nil)) (.tau .nil)))) .nil)
theorem numbersProg_shape : PackratProg numbersProg :=
  .entry (.cached (a := [tau, tau]) (b := []) (.tau (.tau .nil)) .nil)

/-- left-recursion mode: Forward{ action: reset; Forward{..} } -/
def lrProg : List Op := reset ++ [acq R, tau, acq P, tau, tau, rel P, acq R, tau, rel R, tau, rel R]
theorem lrProg_shape : LRProg lrProg :=
  .entry (.forward (a := [tau, acq P, tau, tau, rel P, acq R, tau, rel R, tau]) (b := [])
    (.tau (.entry (.forward (a := [tau]) (b := [tau]) (.tau .nil) (.tau .nil)))) .nil)

/-- the hypotheses are satisfiable, and a state with a thread blocked and another one running is reachable -/
example : (lrun (linit (progOf [recordProg, numbersProg])) [0, 0, 0, 0, 0, 0, 0]).map
    (fun s => ((lstep s 0).isSome, (lstep s 1).isSome, s.owner P, s.count P)) =
    some (true, false, some 0, 2) := by decide

/-- The order hypothesis cannot be dropped. Shape of selftest change C15-4 (`parse_string` wraps its `reset_cache()`
    in `with recursion_lock:`): the entry takes R then P, a packrat parse holds P around a nested entry. No ranking
    orders this program ... -/
def entry4 : List Op := [acq R] ++ reset ++ [rel R]
def recordProg4 : List Op := entry4 ++ [acq P, tau] ++ entry4 ++ [acq P, tau, tau, rel P, tau, rel P]
def numbersProg4 : List Op := entry4 ++ [acq P, tau, tau, rel P]

theorem range2 : List.range 2 = [0, 1] := rfl
theorem range4 : List.range 4 = [0, 1, 2, 3] := rfl

theorem two_orders_unorderable (rank : Nat → Nat) : ordered 2 rank Held.zero recordProg4 = false := by
  cases h : ordered 2 rank Held.zero recordProg4 with
  | false => rfl
  | true =>
    simp [recordProg4, entry4, reset, ordered, lowerHeld, noneHeld, range2, Held.zero, Held.inc, Held.dec, R, P] at h
    omega

/-- turn a decided run into the statement "a reachable state in which nobody can step" (threads `0`, `1`) -/
theorem deadlock_of_run {pa pb : List Op} {sched : List Tid}
    (hf : (lrun (linit (progOf [pa, pb])) sched).map
      (fun s => ((lstep s 0).isNone, (lstep s 1).isNone, (s.prog 0).isEmpty)) = some (true, true, false)) :
    ∃ s, LReach (linit (progOf [pa, pb])) s ∧ (∃ t, s.prog t ≠ []) ∧ ∀ t, lstep s t = none := by
  cases h : lrun (linit (progOf [pa, pb])) sched with
  | none => rw [h] at hf; cases hf
  | some s =>
    rw [h] at hf
    simp only [Option.map_some, Option.some.injEq, Prod.mk.injEq] at hf
    refine ⟨s, lrun_reach _ _ _ _ (.refl _) h, ⟨0, fun e => by simp [e] at hf⟩, fun t => ?_⟩
    match t with
    | 0 => simpa using hf.1
    | 1 => simpa using hf.2.1
    | t + 2 =>
      have : s.prog (t + 2) = [] := lrun_prog_nil _ _ _ h (t + 2) (by simp [linit, progOf])
      simp [lstep, this]

/-- ... and two threads reach a state in which neither has finished and neither can step: thread 0 is inside its
    packrat parse (holds P) and waits for R in the nested entry, thread 1 holds R in its entry and waits for P. -/
theorem two_orders_deadlock : ∃ s, LReach (linit (progOf [recordProg4, numbersProg4])) s ∧
    (∃ t, s.prog t ≠ []) ∧ ∀ t, lstep s t = none :=
  deadlock_of_run (sched := [0, 0, 0, 0, 0, 0, 0, 0, 1]) (by decide)

/-- Shape of selftest change C15-6 (one lock per `Forward` instance instead of the class-wide R): the acquisition
    order follows the grammar traversal.  `stmt := 'do' block | ..`, `block := '{' stmt* '}'`; thread 0 enters at
    `stmt` (lock F 0, then F 1 for `block`), thread 1 at `block` (F 1, then F 0).  No ranking orders both ... -/
def stmtProg : List Op := reset ++ [acq (F 0), tau, acq (F 1), tau, acq (F 0), tau, rel (F 0), rel (F 1), rel (F 0)]
def blockProg : List Op := reset ++ [acq (F 1), tau, acq (F 0), tau, acq (F 1), tau, rel (F 1), rel (F 0), rel (F 1)]

theorem per_forward_locks_unorderable (rank : Nat → Nat) :
    (ordered 4 rank Held.zero stmtProg && ordered 4 rank Held.zero blockProg) = false := by
  cases h : (ordered 4 rank Held.zero stmtProg && ordered 4 rank Held.zero blockProg) with
  | false => rfl
  | true =>
    simp [stmtProg, blockProg, reset, ordered, lowerHeld, noneHeld, range4, Held.zero, Held.inc, Held.dec, P, F]
      at h
    omega

/-- ... and the two threads deadlock: each holds the lock of its own entry rule and waits for the other's -/
theorem per_forward_locks_deadlock : ∃ s, LReach (linit (progOf [stmtProg, blockProg])) s ∧
    (∃ t, s.prog t ≠ []) ∧ ∀ t, lstep s t = none :=
  deadlock_of_run (sched := [0, 0, 0, 0, 0, 0, 1, 1, 1, 1, 1, 1]) (by decide)
end Ex

end Locks

/-! ## left-recursion mode: the property is FALSE of the current code (finding `lr_mode_shared_memo`) -/

namespace LR

def resultsOf (inputs : List Nat) (sched : List Tid) : Option (List (Option Val × Bool)) :=
  (lrun (linit inputs) sched []).map fun p => p.1.thr.map fun th => (th.result, th.keyError)

/-- serial run of the thread with input 2: it returns its own body value 3 -/
theorem lr_serial : resultsOf [1, 2] (List.replicate 16 1) = some [(none, false), (some 3, false)] := by
  decide +kernel

/-- **lr_race_witness**: thread 1 (input 2) resets, thread 0 (input 1) parses completely, thread 1 parses:
    its lookup `(loc 0, F, do_actions)` — a key without the input string — hits the entry thread 0's parse
    left behind (`UnboundedMemo.__delitem__` is a no-op) and it returns thread 0's value 2 instead of 3.
    Every lock is taken exactly as the code takes it (`evStep` checks it). -/
theorem lr_race_witness :
    ∃ sched, resultsOf [1, 2] sched = some [(some 2, false), (some 2, false)] ∧
      resultsOf [1, 2] (List.replicate 16 1) = some [(none, false), (some 3, false)] :=
  ⟨[1,1,1,1] ++ List.replicate 16 0 ++ [1,1,1], by decide +kernel, lr_serial⟩

/-- **lr_reset_race_witness**: even on the SAME input: thread 0 is inside its growth loop holding
    `recursion_lock`; thread 1 enters `parse_string`, whose `reset_cache()` clears `recursion_memos` under
    `packrat_cache_lock` only; thread 0's `memo[act_key]` (core.py:5725) raises `KeyError`. -/
theorem lr_reset_race_witness :
    ∃ sched, resultsOf [1, 1] sched = some [(none, true), (none, false)] ∧
      resultsOf [1, 1] (List.replicate 16 0) = some [(some 2, false), (none, false)] :=
  ⟨List.replicate 11 0 ++ [1,1,1] ++ [0], by decide +kernel, by decide +kernel⟩

end LR

end PP.Threads
