import PPModel.Base.PyStr
import PPModel.Mod.LineCol
import PPProofs.Props.Gen.UtilSrc
/-!
# C14 — the hand-written LineCol model IS the translated source (translator tie)

`Props/Gen/UtilSrc.lean` is regenerated on every run by `harness/py2lean.py` from the *live source text* of
`pyparsing.util.col / lineno / line` (statement by statement, over the CPython-builtin semantics of
`PPModel/Base/PyStr.lean`).  The theorems below prove, for ALL strings and ALL locations, that the hand-written model
(`PPModel/Mod/LineCol.lean`, about which `Props/C14.lean` proves the property) computes exactly what the translated
source computes.  A change of the Python source changes the generated term; if it changes the function, these proofs
no longer check (broken obligation → search on the real code).
-/
namespace PP.LineCol
open PP

/-! ### the window searches of PyStr, specialised to "\n", are the model's helpers -/

theorem rfindGo_eq (s : List Char) : ∀ hi, Py.rfindGo '\n' s 0 hi = rfindNl s hi := by
  induction s with
  | nil => intro hi; cases hi <;> simp [Py.rfindGo, rfindNl]
  | cons c cs ih =>
    intro hi
    cases hi with
    | zero => simp [Py.rfindGo, rfindNl]
    | succ hi => cases hr : rfindNl cs hi <;> simp [Py.rfindGo, rfindNl, ih, hr]

theorem rfindNl_clamp (s : List Char) : ∀ hi, rfindNl s (min hi s.length) = rfindNl s hi := by
  induction s with
  | nil => intro hi; cases hi <;> simp [rfindNl]
  | cons c cs ih =>
    intro hi
    cases hi with
    | zero => simp [rfindNl]
    | succ hi =>
      have : min (hi + 1) (cs.length + 1) = min hi cs.length + 1 := by omega
      simp only [List.length_cons, this, rfindNl, ih]

theorem findGo_eq (s : List Char) : ∀ lo, Py.findGo '\n' s lo s.length = findNl s lo := by
  induction s with
  | nil => intro lo; simp [Py.findGo, findNl]
  | cons c cs ih =>
    intro lo
    cases lo with
    | zero => simp [Py.findGo, findNl, ih]
    | succ lo => simp [Py.findGo, findNl, ih]

theorem findNl_beyond (s : List Char) : ∀ lo, s.length ≤ lo → findNl s lo = none := by
  induction s with
  | nil => intro lo _; simp [findNl]
  | cons c cs ih =>
    intro lo h
    cases lo with
    | zero => simp at h
    | succ lo => simp [findNl, ih lo (by simpa using h)]

theorem findNl_clamp (s : List Char) (lo : Nat) : findNl s (min lo s.length) = findNl s lo := by
  by_cases h : lo ≤ s.length
  · rw [Nat.min_eq_left h]
  · have h' : s.length ≤ lo := by omega
    rw [Nat.min_eq_right h', findNl_beyond s _ (Nat.le_refl _), findNl_beyond s _ h']

theorem countGo_eq (s : List Char) : ∀ hi, Py.countGo '\n' s 0 hi = countNl s hi := by
  induction s with
  | nil => intro hi; cases hi <;> simp [Py.countGo, countNl]
  | cons c cs ih =>
    intro hi
    cases hi with
    | zero => simp [Py.countGo, countNl]
    | succ hi => simp [Py.countGo, countNl, ih]

theorem countNl_clamp (s : List Char) : ∀ hi, countNl s (min hi s.length) = countNl s hi := by
  induction s with
  | nil => intro hi; cases hi <;> simp [countNl]
  | cons c cs ih =>
    intro hi
    cases hi with
    | zero => simp [countNl]
    | succ hi =>
      have : min (hi + 1) (cs.length + 1) = min hi cs.length + 1 := by omega
      simp only [List.length_cons, this, countNl, ih]

theorem rfindNl_lt (s : List Char) : ∀ hi i, rfindNl s hi = some i → i < hi ∧ i < s.length := by
  induction s with
  | nil => intro hi i h; cases hi <;> simp [rfindNl] at h
  | cons c cs ih =>
    intro hi i h
    cases hi with
    | zero => simp [rfindNl] at h
    | succ hi =>
      simp only [rfindNl] at h
      cases hr : rfindNl cs hi with
      | some j =>
        rw [hr] at h
        simp at h
        have := ih hi j hr
        simp only [List.length_cons]
        omega
      | none =>
        rw [hr] at h
        simp only at h
        split at h
        · simp at h; subst h; simp
        · simp at h

theorem adj_nat (n k : Nat) : Py.adj n (k : Int) = min k n := by
  unfold Py.adj
  have : ¬ ((k : Int) < 0) := by omega
  simp [this]

/-! ### the three functions -/

/-- `s.rfind("\n", 0, loc)` as computed by the translated source -/
theorem src_rfind (loc : Nat) (s : List Char) :
    Py.rfindC s '\n' (some 0) (some (loc : Int)) = Py.optIdx (rfindNl s loc) := by
  unfold Py.rfindC
  have h0 : Py.adjO s.length 0 (some (0 : Int)) = 0 := by
    have := adj_nat s.length 0
    simpa [Py.adjO] using this
  rw [h0]
  simp only [Py.adjO, adj_nat, rfindGo_eq, rfindNl_clamp]

/-- **util.lineno (live source) = model**, all strings, all locations -/
theorem src_lineno_eq (loc : Nat) (s : List Char) :
    Gen.UtilSrc.lineno (loc : Int) s = (lineno loc s : Int) := by
  unfold Gen.UtilSrc.lineno lineno Py.countC
  have h0 : Py.adjO s.length 0 (some (0 : Int)) = 0 := by
    have := adj_nat s.length 0
    simpa [Py.adjO] using this
  rw [h0]
  simp only [Py.adjO, adj_nat, countGo_eq, countNl_clamp]
  omega

/-- **util.col (live source) = model**, all strings, all locations -/
theorem src_col_eq (loc : Nat) (s : List Char) :
    Gen.UtilSrc.col (loc : Int) s = (col loc s : Int) := by
  unfold Gen.UtilSrc.col col
  simp only [src_rfind]
  have hitem : loc ≠ 0 → Py.item s ((loc : Int) - 1) = (s[loc - 1]?).map (fun c => [c]) := by
    intro hl
    unfold Py.item
    have h1 : ¬ ((loc : Int) - 1 < 0) := by omega
    have h2 : ((loc : Int) - 1).toNat = loc - 1 := by omega
    simp [h1, h2]
  have hsub : (loc : Int) - Py.optIdx (rfindNl s loc)
      = ((match rfindNl s loc with | some i => loc - i | none => loc + 1 : Nat) : Int) := by
    cases hr : rfindNl s loc with
    | none => simp [Py.optIdx]
    | some i => have := rfindNl_lt s loc i hr; simp [Py.optIdx]; omega
  rw [hsub]
  by_cases hl : loc = 0
  · subst hl
    simp [Py.len]
    cases rfindNl s 0 <;> rfl
  · have hpos : 0 < loc := Nat.pos_of_ne_zero hl
    rw [hitem hl]
    by_cases hlt : loc < s.length
    · cases hc : s[loc - 1]? with
      | none => simp [Py.len, hpos, hlt]; cases rfindNl s loc <;> rfl
      | some c =>
        by_cases hn : c = '\n'
        · subst hn; simp [Py.len, hpos, hlt]
        · simp [Py.len, hpos, hlt, hn]; cases rfindNl s loc <;> rfl
    · simp [Py.len, hlt]; cases rfindNl s loc <;> rfl

/-- **util.line (live source) = model**, all strings, all locations -/
theorem src_line_eq (loc : Nat) (s : List Char) :
    Gen.UtilSrc.line (loc : Int) s = line loc s := by
  unfold Gen.UtilSrc.line line lineStart
  simp only [src_rfind]
  have hfind : Py.findC s '\n' (some (loc : Int)) none = Py.optIdx (findNl s loc) := by
    unfold Py.findC
    simp only [Py.adjO, adj_nat, findGo_eq, findNl_clamp]
  rw [hfind]
  have hstart : ∀ r, rfindNl s loc = r →
      Py.adjO s.length 0 (some (Py.optIdx r + 1)) = (match r with | some i => i + 1 | none => 0) := by
    intro r hr
    cases r with
    | none => simp [Py.optIdx, Py.adjO, Py.adj]
    | some i =>
      have := rfindNl_lt s loc i hr
      have e : (Py.optIdx (some i) + 1 : Int) = ((i + 1 : Nat) : Int) := by simp [Py.optIdx]
      rw [e]
      simp only [Py.adjO, adj_nat]
      omega
  unfold Py.slice
  rw [hstart _ rfl]
  cases hf : findNl s loc with
  | none =>
    have : ¬ ((-1 : Int) ≥ 0) := by omega
    simp [Py.optIdx, Py.adjO]
    cases rfindNl s loc <;> rfl
  | some j =>
    have : ((j : Int) ≥ 0) := by omega
    simp only [Py.optIdx, this, decide_true, if_true, Py.adjO, adj_nat]
    congr 1
    · exact (List.take_eq_take_min ..).symm
    all_goals (cases rfindNl s loc <;> rfl)

/-- the index expression `s[loc - 1]` of `col` is only evaluated in range (CPython would raise IndexError otherwise;
    `Py.item` is `none` exactly there): under the guard `0 < loc < len(s)` it is a character of `s` -/
theorem src_col_index_in_range (loc : Nat) (s : List Char) (h1 : 0 < loc) (h2 : loc < s.length) :
    ∃ c, Py.item s ((loc : Int) - 1) = some [c] := by
  unfold Py.item
  have h3 : ¬ ((loc : Int) - 1 < 0) := by omega
  have h4 : ((loc : Int) - 1).toNat = loc - 1 := by omega
  have h5 : loc - 1 < s.length := by omega
  exact ⟨s[loc - 1], by simp [h3, h4, List.getElem?_eq_getElem h5]⟩

/-! ### non-vacuity: the translated source evaluated on a concrete text -/
example : Gen.UtilSrc.col 4 "ab\ncd".toList = 2 ∧ Gen.UtilSrc.lineno 4 "ab\ncd".toList = 2 ∧
    Gen.UtilSrc.line 4 "ab\ncd".toList = "cd".toList ∧ Gen.UtilSrc.col 3 "ab\ncd".toList = 1 := by decide

end PP.LineCol
